(* ExactlyOnceSteal.v -- C01 (at most once) for --dist worksteal: with no worker failure no test
   index is ever in two places at once -- the places now include the way BACK from a worker to
   the controller (the worker's pending `unscheduled` reply, the reply on the up-wire, the
   reply in the controller's event queue) -- hence no test is started twice, although tests
   migrate between workers.
   System-level invariant over Model/System.v, for every configuration in worksteal mode and
   every schedule without crashes.  Companion of ExactlyOnce.v (load mode); see the comment
   before the main theorems for the exact hypotheses. *)
From XV Require Import Base Worker Ctl SchedLoad SchedSteal SchedScope SchedEach Sched DSession System
  NoHook DSessionProofs WorkerProofs StealProofs LoadProofs FifoProofs ExactlyOnce.
From Coq Require Import Permutation.
Open Scope nat_scope.

(* the two copies of the same definition (LoadProofs / StealProofs) are convertible *)
Lemma sent_inds_same o : StealProofs.sent_inds o = LoadProofs.sent_inds o.
Proof. reflexivity. Qed.

(* ====================================================================================== *)
(* Part 0: lists                                                                           *)
(* ====================================================================================== *)
Lemma sub_cancel_r a b x : sub (a ++ x) (b ++ x) -> sub a b.
Proof.
  intros (y & Hy). exists y. apply (Permutation_app_inv_r x).
  rewrite <- Hy. rewrite <- !app_assoc. apply Permutation_app_head. apply Permutation_app_comm.
Qed.

(* one key [n] of [l] gains [x]; all other keys are unchanged *)
Lemma perm_flat_map_one (f f' : nat -> list nat) n x l :
  NoDup l -> In n l -> (forall k, k <> n -> f' k = f k) -> Permutation (f' n) (x ++ f n) ->
  Permutation (flat_map f' l) (x ++ flat_map f l).
Proof.
  intros ND Hin Hk Hn. induction l as [|k l IH]; [destruct Hin|].
  inversion ND as [|k' l' Hni ND']; subst. cbn [flat_map].
  destruct (Nat.eq_dec k n) as [->|Hne].
  - rewrite (flat_map_ext_in f' f l).
    + rewrite Hn. rewrite app_assoc. reflexivity.
    + intros j Hj. apply Hk. intros ->. contradiction.
  - destruct Hin as [E|Hin]; [contradiction|]. rewrite (Hk k Hne), (IH ND' Hin).
    apply Permutation_app_swap_app.
Qed.

Lemma perm_flat_map_pointwise (f g : nat -> list nat) l :
  (forall k, In k l -> Permutation (f k) (g k)) -> Permutation (flat_map f l) (flat_map g l).
Proof.
  induction l as [|k l IH]; intros H; cbn [flat_map]; [reflexivity|].
  apply Permutation_app; [apply H; left; reflexivity|apply IH; intros j Hj; apply H; right; exact Hj].
Qed.

Lemma perm_flat_map_split (f g : nat -> list nat) l :
  Permutation (flat_map (fun k => f k ++ g k) l) (flat_map f l ++ flat_map g l).
Proof.
  induction l as [|k l IH]; cbn [flat_map]; [reflexivity|]. rewrite IH. permc.
Qed.

(* ====================================================================================== *)
(* Part 1: the observation functions                                                       *)
(* ====================================================================================== *)
(* indices travelling back: in a worker event / an up-wire message / a controller event /
   the receiver thread's not yet flushed reply *)
Definition wev_inds (e : wevent) : list nat := match e with EUnscheduled ixs => ixs | _ => [] end.
Definition up_inds (m : upmsg) : list nat := match m with UEv e => wev_inds e | _ => [] end.
Definition ev_inds (e : cevent) : list nat := match e with QUnscheduled _ ixs => ixs | _ => [] end.
Definition reply_inds (r : option (list nat)) : list nat := match r with Some l => l | None => [] end.

(* everything a worker process holds: ExactlyOnce.w_tokens (inbox, current command, queue, taken)
   and the answer to a steal request that is computed but not yet sent *)
Definition w_tokens_ws (w : wst) : list nat := w_tokens w ++ reply_inds (wreply w).

(* one node: its down-wire, its process, its up-wire *)
Definition node_tokens_ws (s : sys) (n : nat) : list nat :=
  flat_map cmd_inds (alist_get [] n (y_down s)) ++
  match aget n (y_w s) with Some w => w_tokens_ws w | None => [] end ++
  flat_map up_inds (alist_get [] n (y_up s)).

Definition pool_ws (s : sys) : list nat :=
  match d_sched (y_d s) with StW ws => ws_pending ws | _ => [] end.
Definition nodes_ws (s : sys) : list nat := flat_map (node_tokens_ws s) (akeys (y_w s)).
Definition evq_inds (s : sys) : list nat := flat_map ev_inds (y_evq s).
Definition wires_ws (s : sys) : list nat := nodes_ws s ++ evq_inds s.
Definition places_ws (s : sys) : list nat := pool_ws s ++ wires_ws s.

(* the part of places_ws that is on the way back *)
Definition back_ws (s : sys) : list nat :=
  flat_map (fun n => match aget n (y_w s) with Some w => reply_inds (wreply w) | None => [] end ++
                     flat_map up_inds (alist_get [] n (y_up s))) (akeys (y_w s)) ++
  evq_inds s.

(* places_ws is ExactlyOnce's list of places (with the worksteal pool) plus the way back *)
Lemma places_ws_split s : Permutation (places_ws s) (pool_ws s ++ wires s ++ back_ws s).
Proof.
  unfold places_ws, wires_ws, back_ws, wires, nodes_ws. apply Permutation_app_head.
  rewrite app_assoc. apply Permutation_app_tail.
  rewrite <- perm_flat_map_split. apply perm_flat_map_pointwise. intros k _.
  unfold node_tokens_ws, node_tokens, w_tokens_ws. destruct (aget k (y_w s)) as [w|].
  - rewrite <- !app_assoc. reflexivity.
  - cbn [app]. rewrite <- app_assoc. reflexivity.
Qed.

(* (c) a steal request carries no index: the indices it names stay where they are *)
Lemma steal_cmd_no_tokens ixs : cmd_inds (CSteal ixs) = [].
Proof. reflexivity. Qed.

Lemma up_inds_of_wevent c n e : up_inds (up_of_wevent c n e) = wev_inds e.
Proof. destruct e; try reflexivity. destruct oc; reflexivity. Qed.

Lemma up_inds_map c n evs : flat_map up_inds (map (up_of_wevent c n) evs) = flat_map wev_inds evs.
Proof.
  induction evs as [|e evs IH]; cbn [map flat_map]; [reflexivity|].
  rewrite up_inds_of_wevent, IH. reflexivity.
Qed.

(* commands that occur in worksteal mode *)
Definition good_cmd_ws (c : cmd) : Prop := match c with CRunAll => False | _ => True end.

(* ====================================================================================== *)
(* Part 2: one worker, steal requests included                                             *)
(* ====================================================================================== *)
Lemma deliver_tokens_ws w c : Permutation (w_tokens_ws (deliver w c)) (cmd_inds c ++ w_tokens_ws w).
Proof.
  unfold w_tokens_ws. pose proof (deliver_tokens w c) as P.
  change (wreply (deliver w c)) with (wreply w). rewrite P. rewrite app_assoc. reflexivity.
Qed.

Lemma deliver_good_ws w c :
  good_cmd_ws c -> Forall good_cmd_ws (winbox w) -> Forall good_cmd_ws (winbox (deliver w c)).
Proof. intros Hc Hw. cbn. apply Forall_app. split; [exact Hw|constructor; [exact Hc|constructor]]. Qed.

Lemma ents_idx_partition (f : qent -> bool) q :
  Permutation (ents_idx q) (ents_idx (filter (fun e => negb (f e)) q) ++ ents_idx (filter f q)).
Proof.
  induction q as [|e q IH]; [reflexivity|]. cbn [filter].
  destruct (f e); cbn [negb ents_idx]; destruct (ent_idx e) as [i|]; try exact IH.
  - permc_with IH.
  - permc_with IH.
Qed.

(* WorkerInteractor.steal, one lock section: what leaves the queue is exactly what is answered *)
Lemma steal_q_tokens q s q' st :
  steal_q q s = (q', st) -> Permutation (ents_idx q) (ents_idx q' ++ ents_idx st).
Proof.
  unfold steal_q. destruct (Nat.eqb _ _); intros H; inversion H; subst.
  - apply ents_idx_partition.
  - cbn [ents_idx]. rewrite app_nil_r. reflexivity.
Qed.

Lemma w_steal_q w s :
  Permutation (ents_idx (wq (w_steal w s)) ++ reply_inds (wreply (w_steal w s))) (ents_idx (wq w)).
Proof.
  unfold w_steal. destruct (steal_q (wq w) s) as [q' st] eqn:Es. cbn [wq wreply reply_inds].
  symmetry. apply (steal_q_tokens _ _ _ _ Es).
Qed.

(* nothing taken by the main thread (let alone started) is ever withdrawn by a steal *)
Lemma w_steal_keeps w s :
  wpopped (w_steal w s) = wpopped w /\ wran (w_steal w s) = wran w /\ wph (w_steal w s) = wph w /\
  winbox (w_steal w s) = winbox w.
Proof. unfold w_steal. destruct (steal_q (wq w) s) as [q' st]. repeat split. Qed.

Lemma recv_next_tokens_ws o inbox : forall w,
  Forall good_cmd_ws inbox -> wreply w = None ->
  Permutation (w_tokens_ws (recv_next o w inbox))
              (flat_map cmd_inds inbox ++ ents_idx (wq w) ++ ents_idx (wpopped w)) /\
  Forall good_cmd_ws (winbox (recv_next o w inbox)).
Proof.
  induction inbox as [|c r IH]; intros w G Er.
  - cbn. unfold w_tokens_ws, w_tokens. cbn [upd_recv winbox wrpend wq wpopped wreply flat_map item_inds].
    rewrite Er. cbn [reply_inds app]. rewrite app_nil_r. split; [reflexivity|constructor].
  - inversion G as [|c' r' Gc Gr]; subst. destruct c as [ixs| |s| |]; try contradiction.
    + destruct ixs as [|i ixs]; [exact (IH w Gr Er)|]. split; [|exact Gr].
      cbn [recv_next]. unfold w_tokens_ws, w_tokens.
      cbn [upd_recv w_put winbox wrpend wq wpopped wreply flat_map cmd_inds].
      rewrite Er. cbn [reply_inds]. rewrite item_inds_map_idx, ents_idx_app. cbn [ents_idx ent_idx snd].
      permc.
    + (* CSteal *)
      cbn [recv_next]. destruct (w_steal_keeps w s) as (Ep & _ & _ & _). split; [|exact Gr].
      pose proof (w_steal_q w s) as P.
      unfold w_tokens_ws, w_tokens. cbn [upd_recv winbox wrpend wq wpopped wreply].
      cbn [flat_map cmd_inds app item_inds]. rewrite Ep. permc_with P.
    + split; [|exact Gr]. cbn [recv_next]. unfold w_tokens_ws, w_tokens.
      cbn [upd_recv w_put winbox wrpend wq wpopped wreply flat_map cmd_inds item_inds app].
      rewrite Er. cbn [reply_inds]. rewrite ents_idx_app. cbn [ents_idx ent_idx snd]. rewrite !app_nil_r. reflexivity.
    + split; [|exact Gr]. cbn [recv_next]. unfold w_tokens_ws, w_tokens.
      cbn [upd_recv w_put winbox wrpend wq wpopped wreply flat_map cmd_inds item_inds app].
      rewrite Er. cbn [reply_inds]. rewrite ents_idx_app. cbn [ents_idx ent_idx snd]. rewrite !app_nil_r. reflexivity.
Qed.

(* (a) one receiver-thread step, CSteal included: what the process holds afterwards, together
   with what it sent up in this step, is what it held before *)
Lemma recv_step_tokens_ws o w :
  Forall good_cmd_ws (winbox w) ->
  Permutation (w_tokens_ws (fst (recv_step o w)) ++ flat_map wev_inds (snd (recv_step o w))) (w_tokens_ws w) /\
  Forall good_cmd_ws (winbox (fst (recv_step o w))).
Proof.
  intros G. unfold recv_step. destruct (negb (wcb w)).
  { cbn [fst snd flat_map]. rewrite app_nil_r. split; [reflexivity|exact G]. }
  cbn [upd_recv wrpend winbox].
  assert (Ev : flat_map wev_inds (match wreply w with Some ixs => [EUnscheduled ixs] | None => [] end)
               = reply_inds (wreply w)).
  { destruct (wreply w); cbn; [apply app_nil_r|reflexivity]. }
  destruct (wrpend w) as [|it rest] eqn:Er; cbn [fst snd]; rewrite Ev.
  - destruct (recv_next_tokens_ws o (winbox w) (upd_recv w (winbox w) [] None) G eq_refl) as (P & G').
    split; [|exact G']. rewrite P. unfold w_tokens_ws, w_tokens. rewrite Er.
    cbn [upd_recv wq wpopped item_inds flat_map app]. rewrite <- !app_assoc. reflexivity.
  - split; [|exact G]. unfold w_tokens_ws, w_tokens.
    cbn [upd_recv w_put winbox wrpend wq wpopped wreply reply_inds]. rewrite Er.
    rewrite ents_idx_app, ents_idx_one. rewrite (item_inds_cons it rest). permc.
Qed.

Lemma recv_next_keeps o inbox : forall w,
  wpopped (recv_next o w inbox) = wpopped w /\ wran (recv_next o w inbox) = wran w /\
  wph (recv_next o w inbox) = wph w.
Proof.
  induction inbox as [|c r IH]; intros w; [repeat split|].
  destruct c as [ixs| |s| |]; cbn [recv_next].
  - destruct ixs; [apply IH|repeat split].
  - destruct (seq 0 (ncollected o)); [apply IH|repeat split].
  - destruct (w_steal_keeps w s) as (A & B & C & _). cbn [upd_recv wpopped wran wph]. auto.
  - repeat split.
  - repeat split.
Qed.

(* the receiver thread never touches what the main thread took or started *)
Lemma recv_step_keeps o w :
  wpopped (fst (recv_step o w)) = wpopped w /\ wran (fst (recv_step o w)) = wran w /\
  wph (fst (recv_step o w)) = wph w.
Proof.
  unfold recv_step. destruct (negb (wcb w)); [repeat split|]. cbn [upd_recv wrpend winbox].
  destruct (wrpend w); cbn [fst]; [|repeat split].
  apply (recv_next_keeps o (winbox w) (upd_recv w (winbox w) [] None)).
Qed.

(* the main thread: never sends an `unscheduled`, never touches the reply *)
Definition script_ok (w : wst) : Prop :=
  match wph w with PRun _ _ script => Forall (fun e => wev_inds e = []) script | _ => True end.

Lemma Forall_tl {A} (P : A -> Prop) l : Forall P l -> Forall P (tl l).
Proof. intros F. destruct l; [constructor|]. inversion F; assumption. Qed.

Lemma script_of_ok o i : Forall (fun e => wev_inds e = []) (script_of o i).
Proof.
  unfold script_of. apply Forall_app. split; [repeat constructor|]. apply Forall_app. split; [|repeat constructor].
  apply Forall_forall. intros e He. apply in_map_iff in He. destruct He as (p & <- & _). reflexivity.
Qed.

Lemma main_step_ws o w w' evs :
  script_ok w -> main_step o w = Some (w', evs) ->
  wreply w' = wreply w /\ flat_map wev_inds evs = [] /\ script_ok w'.
Proof.
  unfold main_step, script_ok. intros Hs. destruct (wph w) as [|rest| | |cur|cur nxt|cur nxt script|s|] eqn:Eph.
  - intros H; inversion H; subst. cbn. auto.
  - destruct rest as [|[k f] rest]; intros H; inversion H; subst; cbn; auto.
  - intros H; inversion H; subst. cbn. auto.
  - destruct (wq w) as [|[t it] q'].
    + destruct (wcb w); intros H; inversion H; subst. cbn. rewrite Eph. auto.
    + destruct it as [i|]; intros H; inversion H; subst; cbn; auto.
  - destruct (wq w) as [|nxt q']; [discriminate|]. intros H; inversion H; subst. cbn. auto.
  - intros H.
    assert (E : w' = upd_ph (add_ran w cur nxt) (PRun cur nxt (tl (script_of o (snd cur)))) /\
                evs = [ELogStart (snd cur)]) by (inversion H; split; reflexivity).
    destruct E as (-> & ->). split; [reflexivity|]. split; [reflexivity|]. cbn [upd_ph wph].
    apply Forall_tl, script_of_ok.
  - destruct script as [|e script]; intros H; inversion H; subst; cbn.
    + destruct (stops_after o (snd cur)); [auto|]. destruct (snd nxt); auto.
    + inversion Hs as [|e' s' He Hr]; subst. rewrite He. auto.
  - intros H; inversion H; subst. cbn. auto.
  - discriminate.
Qed.

Lemma main_step_tokens_ws o w w' evs :
  script_ok w -> main_step o w = Some (w', evs) ->
  Permutation (w_tokens_ws w' ++ flat_map wev_inds evs) (w_tokens_ws w) /\ winbox w' = winbox w /\
  script_ok w'.
Proof.
  intros Hs H. destruct (main_step_tokens _ _ _ _ H) as (P & Ei).
  destruct (main_step_ws _ _ _ _ Hs H) as (Er & Ee & Hs'). rewrite Ee, app_nil_r.
  unfold w_tokens_ws. rewrite Er, P. auto.
Qed.

(* ====================================================================================== *)
(* Part 3: the work-stealing scheduler                                                     *)
(* ====================================================================================== *)
Ltac wproj :=
  cbn [ws_nt ws_numnodes ws_n2c ws_n2p ws_pending ws_coll ws_steal
       ws_set_nt ws_set_n2c ws_set_n2p ws_set_pending ws_set_coll ws_set_steal] in *.

(* ---- what a worksteal-mode controller ever puts out: CRun / CSteal / CShutdown, no spawn ---- *)
Definition good_out_ws (o : out) : Prop :=
  match o with
  | OSend _ (CRun _) | OSend _ CShutdown | OSend _ (CSteal _) => True
  | OSend _ _ => False
  | OHook (HSpawn _ _) => False
  | _ => True
  end.

Section GoNodesW.
  Context {S : Type} (nt_of : S -> ntable) (set_nt : S -> ntable -> S).
  Lemma gw_node_flags n : allout good_out_ws (node_flags nt_of n).
  Proof. unfold node_flags. ao good_out_ws. Qed.
  Lemma gw_node_send n c : good_cmd_ws c -> c <> CEnd -> allout good_out_ws (node_send nt_of n c).
  Proof.
    intros Hc He. unfold node_send. ao good_out_ws; try apply gw_node_flags.
    apply (ao_emit good_out_ws). destruct c; cbn in *; auto; try congruence.
  Qed.
  Lemma gw_node_shutdown n : allout good_out_ws (node_shutdown nt_of set_nt n).
  Proof.
    unfold node_shutdown. ao good_out_ws; try apply gw_node_flags;
      try (apply gw_node_send; [exact I|discriminate]).
  Qed.
End GoNodesW.

(* ---- the scheduler-state invariant and the transition relation ---- *)
Definition noempw (ws : wsstate) : Prop :=
  (forall c, ws_coll ws = Some c -> ~ In ""%string c) /\
  (forall n ids, In (n, ids) (ws_n2c ws) -> ~ In ""%string ids).

(* every channel open, no empty test id known, and before the initial distribution the pool is
   empty and no steal request is outstanding *)
Definition WI (ws : wsstate) : Prop :=
  all_open (ws_nt ws) /\ noempw ws /\ (ws_coll ws = None -> ws_pending ws = [] /\ ws_steal ws = None).

(* the pool, with "everything" standing for the pool before the initial distribution *)
Definition vpw (coll : list string) (ws : wsstate) : list nat :=
  match ws_coll ws with None => seq 0 (length coll) | Some _ => ws_pending ws end.

(* the pool gains [back] (an accepted `unscheduled` reply) and loses exactly what is sent *)
Definition WT (ws ws' : wsstate) (o : list out) (back : list nat) : Prop :=
  (forall c, ws_coll ws = Some c -> ws_coll ws' = Some c) /\
  (ws_coll ws' = None -> sent_inds o = [] /\ back = []) /\
  (forall coll, ws_coll ws' = Some coll -> Permutation (vpw coll ws ++ back) (sent_inds o ++ vpw coll ws')).

Lemma WT_refl ws : WT ws ws [] [].
Proof. split; [auto|]. split; [auto|]. intros coll _. cbn [sent_inds flat_map app]. rewrite app_nil_r. reflexivity. Qed.

Lemma WT_trans a b c o1 o2 k1 k2 : WT a b o1 k1 -> WT b c o2 k2 -> WT a c (o1 ++ o2) (k1 ++ k2).
Proof.
  intros (A1 & A2 & A3) (B1 & B2 & B3). split; [|split].
  - intros c0 H. apply B1, A1, H.
  - intros H. destruct (B2 H) as (S2 & K2). rewrite sent_inds_app, S2, K2. destruct (ws_coll b) as [cb|] eqn:Eb.
    + rewrite (B1 _ eq_refl) in H. discriminate.
    + destruct (A2 eq_refl) as (S1 & K1). rewrite S1, K1. auto.
  - intros coll H. rewrite sent_inds_app. specialize (B3 coll H).
    destruct (ws_coll b) as [cb|] eqn:Eb.
    + assert (cb = coll) by (pose proof (B1 _ eq_refl) as X; congruence). subst cb.
      specialize (A3 coll eq_refl). rewrite app_assoc, A3, <- !app_assoc. apply Permutation_app_head. exact B3.
    + destruct (A2 eq_refl) as (S1 & K1). rewrite S1, K1. cbn [app].
      assert (E : vpw coll a = vpw coll b).
      { unfold vpw. rewrite Eb. destruct (ws_coll a) as [ca|] eqn:Ea; [|reflexivity].
        specialize (A1 _ eq_refl). discriminate. }
      rewrite E. exact B3.
Qed.

Lemma WT_keep ws ws' o :
  WI ws -> ws_coll ws' = ws_coll ws -> ws_pending ws = sent_inds o ++ ws_pending ws' -> WT ws ws' o [].
Proof.
  intros (_ & _ & I0) Ec Ep. split; [|split].
  - intros c H. congruence.
  - intros H. rewrite Ec in H. destruct (I0 H) as (P0 & _). rewrite P0 in Ep.
    symmetry in Ep. apply app_eq_nil in Ep. tauto.
  - intros coll H. unfold vpw. rewrite H. rewrite Ec in H. rewrite H. rewrite app_nil_r, Ep. reflexivity.
Qed.

(* the invariant does not mention the books *)
Lemma WI_ext a b :
  ws_nt a = ws_nt b -> ws_n2c a = ws_n2c b -> ws_coll a = ws_coll b -> ws_pending a = ws_pending b ->
  ws_steal a = ws_steal b -> WI b -> WI a.
Proof. unfold WI, noempw. intros -> -> -> -> ->. auto. Qed.

Lemma WT_quiet ws o : sent_inds o = [] -> WT ws ws o [].
Proof. intros Hs. split; [auto|]. split; [auto|]. intros coll _. rewrite Hs, app_nil_r. reflexivity. Qed.

(* ---- check_schedule ---- *)
Lemma open_up s : all_open (ws_nt s) -> StealProofs.all_open (ws_up s) s.
Proof.
  intros Ho n Hn. apply ws_up_spec in Hn. destruct Hn as (_ & c & Hc & _).
  exists c. split; [exact Hc|exact (Ho _ _ Hc)].
Qed.

Lemma shut_loop_open l s s' o r :
  shut_loop l s = (s', o, r) -> all_open (ws_nt s) -> all_open (ws_nt s').
Proof.
  intros H.
  apply (StealProofs.mfor_ind (fun a b : wsstate => all_open (ws_nt a) -> all_open (ws_nt b)) (fun _ => True)
           l (fun n => node_shutdown ws_nt ws_set_nt n)) in H; [tauto|auto|auto|].
  intros n t t' o' r' _ Hn. split; [|apply Forall_forall; auto].
  rewrite node_shutdown_eq in Hn. destruct (aget n (ws_nt t)) as [f|] eqn:Ef.
  2:{ inversion Hn; subst. auto. }
  destruct (n_down f || n_sdsent f); [inversion Hn; subst; auto|].
  inversion Hn; subst. wproj. intros Ho. apply all_open_aset; [exact Ho|]. cbn. exact (Ho _ _ Ef).
Qed.

Lemma ws_check_open s s' o r :
  ws_check_schedule s = (s', o, r) -> all_open (ws_nt s) -> all_open (ws_nt s').
Proof.
  intros H Ho. apply check_inv in H.
  destruct H as [(-> & _)|(s1 & o1 & o2 & _ & D & H2 & _)]; [exact Ho|].
  destruct D as (_ & _ & _ & _ & Dnt & _). rewrite <- Dnt in Ho.
  apply phase2_inv in H2.
  destruct H2 as [(-> & _)|[(_ & _ & v & k & vp0 & f & _ & _ & _ & _ & -> & _)|[(_ & _ & Hl)|(-> & _)]]];
    try exact Ho.
  eapply shut_loop_open; eauto.
Qed.

Lemma guard_good s s' o : guard_ok s s' o -> good_out_ws o.
Proof. destruct o as [h|n c| |]; cbn; try tauto. destruct c; cbn; tauto. Qed.

Lemma ws_check_WS s s' o r :
  ws_check_schedule s = (s', o, r) -> WI s ->
  r = Ok tt /\ WI s' /\ WT s s' o [] /\ Forall good_out_ws o.
Proof.
  intros H I. pose proof (W10_check_schedule_never_raises _ _ _ _ H) as ->. split; [reflexivity|].
  assert (Go : Forall good_out_ws o).
  { eapply Forall_impl; [|exact (W4_guard _ _ _ _ H)]. intros x. apply guard_good. }
  destruct (ws_coll s) as [coll|] eqn:Ec.
  - pose proof (check_frame _ _ _ _ H) as (_ & Kc & Kn & _).
    pose proof I as (I1 & (N1 & N2) & _).
    pose proof (W5_conservation_open _ _ _ _ H (open_up s I1)) as Ep.
    split; [|split; [|exact Go]].
    + split; [eapply ws_check_open; eauto|]. split.
      * split; intros; [rewrite Kc in *|rewrite Kn in *]; eauto.
      * intros Hn. rewrite Kc, Ec in Hn. discriminate.
    + apply WT_keep; [exact I|exact Kc|exact Ep].
  - rewrite (W9_check_schedule_before_distribution s Ec) in H. inversion H; subst.
    split; [exact I|]. split; [apply WT_refl|constructor].
Qed.

(* a scheduler call = a silent update of the state followed by check_schedule *)
Lemma then_check mid s s' o r k :
  ws_check_schedule mid = (s', o, r) -> WI mid -> WT s mid [] k ->
  r = Ok tt /\ WI s' /\ WT s s' o k /\ Forall good_out_ws o.
Proof.
  intros H Im T. destruct (ws_check_WS _ _ _ _ H Im) as (-> & I' & T' & Go).
  split; [reflexivity|]. split; [exact I'|]. split; [|exact Go].
  pose proof (WT_trans _ _ _ _ _ _ _ T T') as X. cbn [app] in X. rewrite app_nil_r in X. exact X.
Qed.

(* add_node *)
Lemma ws_add_node_WS n s s' o :
  ws_add_node n s = (s', o, Ok tt) -> WI s -> WI s' /\ WT s s' o [] /\ Forall good_out_ws o.
Proof.
  intros H I. unfold ws_add_node, mbind, get, put, massert in H. cbn beta iota zeta in H.
  destruct (negb (ahas n (ws_n2p s))); cbn in H; inversion H; subst.
  split; [eapply WI_ext; [..|exact I]; reflexivity|].
  split; [apply WT_keep; [exact I|reflexivity|reflexivity]|constructor].
Qed.

(* node.shutdown() inside a scheduler call *)
Lemma ws_node_shutdown_WS n s s' o r :
  node_shutdown ws_nt ws_set_nt n s = (s', o, r) -> WI s ->
  WI s' /\ WT s s' o [] /\ Forall good_out_ws o.
Proof.
  intros H I. pose proof (gw_node_shutdown ws_nt ws_set_nt n _ _ _ _ H) as Go.
  rewrite node_shutdown_eq in H. destruct (aget n (ws_nt s)) as [f|] eqn:Ef.
  2:{ inversion H; subst. split; [exact I|]. split; [apply WT_refl|constructor]. }
  destruct (n_down f || n_sdsent f).
  { inversion H; subst. split; [exact I|]. split; [apply WT_refl|constructor]. }
  inversion H; subst. destruct I as (I1 & I2 & I3). split; [|split; [|exact Go]].
  - split; [|split; [exact I2|exact I3]]. wproj. apply all_open_aset; [exact I1|]. cbn. exact (I1 _ _ Ef).
  - apply WT_keep; [split; [exact I1|split; [exact I2|exact I3]]|reflexivity|].
    destruct (n_closed f); reflexivity.
Qed.

(* add_node_collection *)
Lemma ws_add_coll_WS n coll s s' o :
  ws_add_node_collection n coll s = (s', o, Ok tt) -> ~ In ""%string coll -> WI s ->
  WI s' /\ WT s s' o [] /\ Forall good_out_ws o.
Proof.
  intros H Hc I.
  assert (PUT : WI (ws_set_n2c s (aset n coll (ws_n2c s))) /\
                WT s (ws_set_n2c s (aset n coll (ws_n2c s))) [] [] /\ Forall good_out_ws []).
  { split; [|split; [apply WT_keep; [exact I|reflexivity|reflexivity]|constructor]].
    destruct I as (I1 & (N1 & N2) & I3). split; [exact I1|]. split; [|exact I3].
    split; [exact N1|]. wproj. intros k ids Hin.
    apply in_aset in Hin. destruct Hin as [(_ & ->)|Hin]; [exact Hc|eapply N2; eauto]. }
  unfold ws_add_node_collection, mbind, get, put, massert, of_opt, ret, raise, emit in H.
  cbn beta iota zeta in H.
  destruct (ahas n (ws_n2p s)); cbn beta iota zeta in H; [|discriminate].
  destruct (ws_collection_is_completed s).
  - destruct (ws_coll s) as [[|c0 cr]|]; try discriminate.
    destruct (coll_eqb coll (c0 :: cr)).
    + inversion H; subst. exact PUT.
    + destruct (first_key (ws_n2c s)); cbn beta iota zeta in H; [|discriminate].
      destruct (node_shutdown ws_nt ws_set_nt n s) as [[s2 o2] r2] eqn:Esd.
      destruct r2 as [[]|e]; inversion H; subst.
      destruct (ws_node_shutdown_WS _ _ _ _ _ Esd I) as (I' & T' & Go).
      split; [exact I'|]. split; [|constructor; [exact Logic.I|exact Go]].
      destruct T' as (T1 & T2 & T3). split; [exact T1|]. split; [exact T2|exact T3].
  - inversion H; subst. exact PUT.
Qed.

(* mark_test_complete *)
Lemma ws_complete_WS n idx s s' o :
  ws_mark_test_complete n idx s = (s', o, Ok tt) -> WI s -> WI s' /\ WT s s' o [] /\ Forall good_out_ws o.
Proof.
  unfold ws_mark_test_complete. munf. intros H I.
  destruct (aget n (ws_n2p s)) as [cur|] eqn:Ec; [|discriminate]. revert H. munf.
  destruct (remove_first idx cur) as [cur'|] eqn:Er; [|discriminate]. munf.
  match goal with |- context [ws_check_schedule ?a] =>
    destruct (ws_check_schedule a) as [[s2 o2] r2] eqn:E end.
  intros H. inversion H; subst. clear H.
  assert (Im : WI (ws_set_n2p s (aset n cur' (ws_n2p s)))) by (eapply WI_ext; [..|exact I]; reflexivity).
  assert (Tm : WT s (ws_set_n2p s (aset n cur' (ws_n2p s))) [] [])
    by (apply WT_keep; [exact I|reflexivity|reflexivity]).
  destruct (then_check _ _ _ _ _ _ E Im Tm) as (_ & A & B & C). auto.
Qed.

(* (b) the worker's `unscheduled` reply: accepted only from the node the request is outstanding
   on; exactly the indices of the reply go (back) into the pool *)
Lemma ws_unsched_WS n ixs s s' o :
  ws_remove_pending_tests_from_node n ixs s = (s', o, Ok tt) -> WI s ->
  WI s' /\ WT s s' o ixs /\ Forall good_out_ws o.
Proof.
  intros H I.
  assert (Hs : ws_steal s = Some n) by (eapply W6_requires_marker; [exact H|discriminate]).
  destruct (aget n (ws_n2p s)) as [cur|] eqn:Ec.
  2:{ rewrite (W6_unknown_node n ixs s Hs Ec) in H. discriminate. }
  rewrite (W6_eq n ixs s cur Hs Ec) in H.
  destruct I as (I1 & I2 & I3).
  destruct (ws_coll s) as [coll|] eqn:Ecoll.
  2:{ destruct (I3 eq_refl) as (_ & F). congruence. }
  assert (Im : WI (rp_mid n ixs s cur)).
  { unfold rp_mid. split; [exact I1|]. split; [exact I2|]. wproj. intros F. congruence. }
  assert (Tm : WT s (rp_mid n ixs s cur) [] ixs).
  { unfold rp_mid. split; [|split]; wproj.
    - auto.
    - intros F. congruence.
    - intros c Hc. unfold vpw. wproj. rewrite Ecoll. cbn [sent_inds flat_map app]. reflexivity. }
  destruct (then_check _ _ _ _ _ _ H Im Tm) as (_ & A & B & C). auto.
Qed.

Lemma WT_out_quiet a b o1 o k : WT a b o k -> sent_inds o1 = [] -> WT a b (o1 ++ o) k.
Proof.
  intros (T1 & T2 & T3) Hq. split; [exact T1|]. rewrite sent_inds_app, Hq. cbn [app]. auto.
Qed.

(* schedule() *)
Lemma mfor_colldiff_ws first col others : forall (s s' : wsstate) o r,
  mfor others (fun p : nat * list string =>
                 if coll_eqb col (snd p) then ret tt else emit (OCollDiff first (fst p))) s = (s', o, r) ->
  s' = s /\ sent_inds o = [] /\ Forall good_out_ws o.
Proof.
  apply (mfor_any_inv wsstate (fun s s' o => s' = s /\ sent_inds o = [] /\ Forall good_out_ws o)).
  - intros s. repeat split. constructor.
  - intros t t1 t2 p1 p2 (-> & E1 & G1) (-> & E2 & G2). rewrite sent_inds_app, E1, E2.
    repeat split. apply Forall_app. auto.
  - intros x t t' o r' _ Hx. destruct (coll_eqb col (snd x)); unfold ret, emit in Hx; inv Hx;
      repeat split; repeat constructor.
Qed.

Lemma ws_same_effect s s' o r :
  ws_same_collection s = (s', o, r) -> s' = s /\ sent_inds o = [] /\ Forall good_out_ws o.
Proof.
  intros H. unfold ws_same_collection in H.
  apply LoadProofs.mbind_inv in H. destruct H as [(e & H & _)|(t1 & p1 & a & p2 & Hg & H & ->)].
  { unfold get in H. inv H. }
  unfold get in Hg. injection Hg as <- <- <-. cbn [app].
  destruct (ws_n2c s) as [|[first col] others].
  { unfold raise in H. inv H. repeat split. constructor. }
  apply LoadProofs.mbind_inv in H. destruct H as [(e & H & _)|(t3 & p3 & a & p4 & H1 & H & ->)].
  - apply mfor_colldiff_ws in H. exact H.
  - apply mfor_colldiff_ws in H1. destruct H1 as (-> & E & G). unfold ret in H. inv H.
    rewrite sent_inds_app, E, !app_nil_r. auto.
Qed.

Lemma ws_schedule_WS s s' o :
  ws_schedule s = (s', o, Ok tt) -> WI s -> WI s' /\ WT s s' o [] /\ Forall good_out_ws o.
Proof.
  intros H Iw. unfold ws_schedule in H.
  mbo H t0 p0 a0 uu0 Hg. unfold get in Hg. injection Hg as <- <- <-. cbn [app].
  mbo H t1 p1 a1 uu1 Ha.
  assert (E1 : t1 = s /\ p1 = []).
  { destruct (ws_collection_is_completed s); unfold massert, ret, raise in Ha; inv Ha; auto. }
  destruct E1 as (-> & ->). cbn [app]. clear Ha.
  destruct (ws_coll s) as [c0|] eqn:Ec.
  { destruct (ws_check_WS _ _ _ _ H Iw) as (_ & A & B & C). auto. }
  mbo H t2 p2 same uu2 Hs. apply ws_same_effect in Hs. destruct Hs as (-> & Es & Gs).
  destruct same; cbn [negb] in H.
  2:{ unfold ret in H. inv H. split; [exact Iw|]. rewrite app_nil_r. split; [apply WT_quiet; exact Es|exact Gs]. }
  mbo H t3 p3 a3 uu3 Hg. unfold get in Hg. injection Hg as <- <- <-. cbn [app].
  mbo H t4 p4 coll uu4 Ho4.
  destruct (ws_n2c s) as [|[k c] others] eqn:En2c; cbn in Ho4; [discriminate|]. injection Ho4 as <- <- <-. cbn [app].
  mbo H t5 p5 a5 uu5 Hp. unfold put in Hp. injection Hp as <- <- <-. cbn [app].
  set (mid := ws_set_pending (ws_set_coll s (Some c)) (seq 0 (length c))) in *.
  pose proof Iw as (I1 & (N1 & N2) & I3).
  assert (Im : WI mid).
  { subst mid. split; [exact I1|]. split; [|wproj; intros F; discriminate].
    split; [|exact N2]. wproj. intros c1 E. inv E. apply (N2 k). rewrite En2c. left. reflexivity. }
  assert (Tm : WT s mid [] []).
  { subst mid. split; [|split]; wproj.
    - intros c1 E. congruence.
    - intros F. discriminate.
    - intros c1 E. inv E. unfold vpw. wproj. rewrite Ec. cbn [sent_inds flat_map app]. rewrite app_nil_r. reflexivity. }
  destruct c as [|x c].
  - unfold ret in H. inv H. split; [exact Im|]. rewrite app_nil_r.
    split; [|exact Gs]. rewrite <- (app_nil_r p2). apply WT_out_quiet; [exact Tm|exact Es].
  - destruct (then_check _ _ _ _ _ _ H Im Tm) as (_ & A & B & C).
    split; [exact A|]. split; [apply WT_out_quiet; [exact B|exact Es]|apply Forall_app; auto].
Qed.

(* remove_node: an empty book leaves the pool alone; a non-empty book yields a non-empty crash item *)
Lemma ws_remove_WS n s s' o v :
  ws_remove_node n s = (s', o, Ok v) -> WI s ->
  (v = None /\ WI s' /\ WT s s' o [] /\ Forall good_out_ws o) \/
  (exists item, v = Some item /\ item <> ""%string).
Proof.
  intros H Iw. pose proof Iw as (I1 & (N1 & N2) & I3).
  destruct (aget n (ws_n2p s)) as [[|i rest]|] eqn:Hp.
  - rewrite (W7_eq_idle n s Hp) in H.
    destruct (ws_check_schedule (rn_mid n s [])) as [[s2 o2] r2] eqn:E.
    assert (Im : WI (rn_mid n s [])).
    { unfold rn_mid. split; [exact I1|]. split.
      - split; [exact N1|]. wproj. intros k ids Hin. apply (N2 k ids).
        destruct (ws_collection_is_completed s); [exact Hin|eapply in_adel; eauto].
      - wproj. intros Hn. destruct (I3 Hn) as (P0 & S0). rewrite P0, S0. auto. }
    assert (Tm : WT s (rn_mid n s []) [] []).
    { apply WT_keep; [exact Iw|reflexivity|]. unfold rn_mid. wproj. rewrite app_nil_r. reflexivity. }
    destruct (then_check _ _ _ _ _ _ E Im Tm) as (-> & A & B & C).
    inv H. left. auto.
  - right. destruct (ws_coll s) as [coll|] eqn:Hc; [destruct (nth_error coll i) as [item|] eqn:Hi|].
    + rewrite (W7_eq n s i rest coll item Hp Hc Hi) in H.
      destruct (ws_check_schedule (rn_mid n s rest)) as [[s2 o2] [[]|e]]; inv H.
      exists item. split; [reflexivity|]. intros ->. apply (N1 _ eq_refl). eapply nth_error_In; eauto.
    + exfalso. revert H.
      unfold ws_remove_node, ws_collection_is_completed,
        ws_set_steal, ws_set_pending, ws_set_n2p, ws_set_n2c.
      munf. rewrite Hp. munf. wproj.
      destruct (ws_numnodes s <=? length (ws_n2c s)); munf; wproj; rewrite ?Hc; munf; rewrite Hi;
        munf; intros H; discriminate.
    + exfalso. revert H.
      unfold ws_remove_node, ws_collection_is_completed,
        ws_set_steal, ws_set_pending, ws_set_n2p, ws_set_n2c.
      munf. rewrite Hp. munf. wproj.
      destruct (ws_numnodes s <=? length (ws_n2c s)); munf; wproj; rewrite ?Hc; munf;
        intros H; discriminate.
  - exfalso. revert H. unfold ws_remove_node. munf. rewrite Hp. intros H. discriminate.
Qed.

(* ====================================================================================== *)
(* Part 4: the controller (DSession) in worksteal mode                                     *)
(* ====================================================================================== *)
Definition DTW (d d' : dstate) (o : list out) (back : list nat) : Prop :=
  forall ws, d_sched d = StW ws -> WI ws ->
  exists ws', d_sched d' = StW ws' /\ WI ws' /\ WT ws ws' o back /\ Forall good_out_ws o.

Lemma DTW_refl d : DTW d d [] [].
Proof. intros ws E Iw. exists ws. split; [exact E|]. split; [exact Iw|]. split; [apply WT_refl|constructor]. Qed.

Lemma DTW_trans a b c o1 o2 k1 k2 : DTW a b o1 k1 -> DTW b c o2 k2 -> DTW a c (o1 ++ o2) (k1 ++ k2).
Proof.
  intros H1 H2 ws E Iw. destruct (H1 ws E Iw) as (ws1 & E1 & I1 & T1 & G1).
  destruct (H2 ws1 E1 I1) as (ws2 & E2 & I2 & T2 & G2).
  exists ws2. split; [exact E2|]. split; [exact I2|]. split; [eapply WT_trans; eauto|apply Forall_app; auto].
Qed.

Lemma DTW_same d d' : d_sched d' = d_sched d -> DTW d d' [] [].
Proof.
  intros Es ws E Iw. exists ws. rewrite Es. split; [exact E|]. split; [exact Iw|]. split; [apply WT_refl|constructor].
Qed.

(* a successful run of [m] from [d0] keeps the invariant, sends a prefix of the pool, and
   takes [back] into the pool *)
Definition okw {A} (back : list nat) (d0 : dstate) (m : D A) : Prop :=
  forall d' o a, m d0 = (d', o, Ok a) -> DTW d0 d' o back.

Lemma okw_ret {A} d0 (a : A) : okw [] d0 (ret a).
Proof. intros d' o x H. inversion H; subst. apply DTW_refl. Qed.
Lemma okw_raise {A} k d0 e : okw k d0 (@raise dstate A e).
Proof. intros d' o x H. inversion H. Qed.
Lemma okw_massert d0 b : okw [] d0 (@massert dstate b).
Proof. destruct b; [apply okw_ret|apply okw_raise]. Qed.
Lemma okw_of_opt {A} d0 (x : option A) e : okw [] d0 (@of_opt dstate A x e).
Proof. destruct x; [apply okw_ret|apply okw_raise]. Qed.
Lemma okw_emit d0 o : good_out_ws o -> run_inds o = [] -> okw [] d0 (@emit dstate o).
Proof.
  intros Hg Hr d' o' x H. inversion H; subst. intros ws E Iw. exists ws.
  split; [exact E|]. split; [exact Iw|]. split; [|constructor; [exact Hg|constructor]].
  apply WT_quiet. unfold sent_inds. cbn [flat_map]. rewrite Hr. reflexivity.
Qed.
Lemma okw_put d0 d1 : d_sched d1 = d_sched d0 -> okw [] d0 (put d1).
Proof. intros Hs d' o x H. inversion H; subst. apply DTW_same. exact Hs. Qed.
Lemma okw_bind_g {A B} k1 k2 d0 (m : D A) (f : A -> D B) :
  okw k1 d0 m -> (forall a d1, okw k2 d1 (f a)) -> okw (k1 ++ k2) d0 (mbind m f).
Proof.
  intros Hm Hf d' o x H. unfold mbind in H.
  destruct (m d0) as [[d1 o1] r1] eqn:E1. destruct r1 as [a|e]; [|inversion H].
  destruct (f a d1) as [[d2 o2] r2] eqn:E2. inversion H; subst.
  eapply DTW_trans; [eapply Hm; eauto|eapply Hf; eauto].
Qed.
Lemma okw_bind {A B} d0 (m : D A) (f : A -> D B) :
  okw [] d0 m -> (forall a d1, okw [] d1 (f a)) -> okw [] d0 (mbind m f).
Proof. intros Hm Hf. exact (okw_bind_g [] [] d0 m f Hm Hf). Qed.
Lemma okw_bind_l {A B} k d0 (m : D A) (f : A -> D B) :
  okw k d0 m -> (forall a d1, okw [] d1 (f a)) -> okw k d0 (mbind m f).
Proof. intros Hm Hf. rewrite <- (app_nil_r k). exact (okw_bind_g k [] d0 m f Hm Hf). Qed.
Lemma okw_get {B} k d0 (f : dstate -> D B) : okw k d0 (f d0) -> okw k d0 (mbind get f).
Proof.
  intros Hk d' o x H. unfold mbind, get in H.
  destruct (f d0 d0) as [[d2 o2] r2] eqn:E2. inversion H; subst. apply (Hk _ _ _ E2).
Qed.
Lemma okw_mfor {A} (l : list A) (f : A -> D unit) :
  (forall a d, okw [] d (f a)) -> forall d0, okw [] d0 (mfor l f).
Proof.
  intros Hf. induction l as [|x l IH]; intros d0; cbn [mfor]; [apply okw_ret|].
  apply okw_bind; [apply Hf|intros _ d1; apply IH].
Qed.

(* ---- scheduler calls ---- *)
Definition op_back (op : sop) : list nat := match op with SUnsched _ ixs => ixs | _ => [] end.

Lemma okw_sched_op op d0 : good_op op -> okw (op_back op) d0 (d_sched_op op).
Proof.
  intros Hop d' o v H ws Els Iw. unfold d_sched_op in H. rewrite Els in H.
  destruct (s_step (StW ws) op) as [[st' o1] r1] eqn:E. inversion H; subst. clear H.
  destruct op; cbn [good_op] in Hop; try contradiction; cbn [s_step op_back] in *.
  - apply lift_ok in E. destruct E as (s1 & [] & E & -> & _). exists s1. split; [reflexivity|].
    exact (ws_add_node_WS _ _ _ _ E Iw).
  - apply lift_ok in E. destruct E as (s1 & [] & E & -> & _). exists s1. split; [reflexivity|].
    exact (ws_add_coll_WS _ _ _ _ _ E Hop Iw).
  - apply lift_ok in E. destruct E as (s1 & [] & E & -> & _). exists s1. split; [reflexivity|].
    exact (ws_schedule_WS _ _ _ E Iw).
  - apply lift_ok in E. destruct E as (s1 & [] & E & -> & _). exists s1. split; [reflexivity|].
    exact (ws_complete_WS _ _ _ _ _ E Iw).
  - apply lift_ok in E. destruct E as (s1 & [] & E & -> & _). exists s1. split; [reflexivity|].
    exact (ws_unsched_WS _ _ _ _ _ E Iw).
Qed.

Lemma okw_remove_assert n d0 :
  okw [] d0 (r <- d_sched_op (SRemove n) ;;
             massert (match r with None => true | Some s => String.eqb s "" end)).
Proof.
  intros d' o v H ws Els Iw. unfold mbind in H.
  destruct (d_sched_op (SRemove n) d0) as [[d1 o1] r1] eqn:E1.
  destruct r1 as [r|e]; [|discriminate].
  unfold d_sched_op in E1. rewrite Els in E1.
  destruct (s_step (StW ws) (SRemove n)) as [[st' o2] r2] eqn:E. inversion E1; subst. clear E1.
  cbn [s_step] in E. apply lift_ok in E. destruct E as (s1 & a & E & -> & ->).
  destruct (ws_remove_WS _ _ _ _ _ E Iw) as [(-> & I' & T & G)|(item & -> & Hne)].
  - cbn in H. inversion H; subst. exists s1. split; [reflexivity|]. split; [exact I'|].
    rewrite app_nil_r. split; [exact T|exact G].
  - assert (Eq : String.eqb item "" = false) by (apply String.eqb_neq; exact Hne).
    rewrite Eq in H. cbn in H. discriminate.
Qed.

(* ---- node.shutdown() ---- *)
Lemma WI_set_nt ws v : WI ws -> all_open v -> WI (ws_set_nt ws v).
Proof. intros (I1 & I2 & I3) Hv. split; [exact Hv|]. split; [exact I2|exact I3]. Qed.

Lemma okw_node_shutdown n d0 : okw [] d0 (d_node_shutdown n).
Proof.
  intros d' o v H. apply d_node_shutdown_cases in H.
  destruct H as [(-> & ->)|(f & Ef & -> & Ho)]; [apply DTW_refl|].
  intros ws Els Iw. rewrite d_sched_set_nt, Els. cbn [s_set_nt].
  eexists. split; [reflexivity|].
  assert (Hnt : d_nt d0 = ws_nt ws) by (unfold d_nt; rewrite Els; reflexivity).
  split.
  - apply WI_set_nt; [exact Iw|]. rewrite Hnt. apply all_open_aset; [apply Iw|].
    cbn. rewrite Hnt in Ef. destruct Iw as (I1 & _). exact (I1 _ _ Ef).
  - split.
    + apply WT_keep; [exact Iw|reflexivity|]. destruct Ho as [->| ->]; reflexivity.
    + destruct Ho as [->| ->]; repeat constructor.
Qed.

Lemma okw_triggershutdown d0 : okw [] d0 d_triggershutdown.
Proof.
  unfold d_triggershutdown. apply okw_get. destruct (d_shuttingdown d0); [apply okw_ret|].
  apply okw_bind; [apply okw_put; reflexivity|intros _ d1].
  apply okw_mfor. intros n d. apply okw_node_shutdown.
Qed.

Lemma okw_active_remove n d0 : okw [] d0 (d_active_remove n).
Proof.
  unfold d_active_remove. apply okw_get. destruct (mem_nat n (d_active d0)); [|apply okw_raise].
  apply okw_put. reflexivity.
Qed.

Lemma okw_handlefailures f d0 : okw [] d0 (d_handlefailures f).
Proof.
  unfold d_handlefailures. destruct (negb f); [apply okw_ret|].
  apply okw_get. apply okw_bind; [apply okw_put; reflexivity|intros _ d1].
  apply okw_get. destruct (_ && _); [apply okw_put; reflexivity|apply okw_ret].
Qed.

Lemma okw_hook h d0 : good_out_ws (OHook h) -> okw [] d0 (hook h).
Proof. intros Hg. unfold hook. apply okw_emit; [exact Hg|reflexivity]. Qed.

(* one handler: the only handler that feeds the pool is the one for `unscheduled` *)
Lemma okw_handle ev d0 : ok_ev ev -> okw (ev_inds ev) d0 (d_handle ev).
Proof.
  destruct ev as [n|n ids|n key fl|n i|n i|n i k oc|n i ms|n ixs| |n|n sk|n]; cbn [ok_ev d_handle ev_inds]; intros Hev;
    try contradiction.
  - apply okw_bind; [apply okw_hook; exact I|intros _ d1]. apply okw_get.
    destruct (d_shuttingdown d1); [apply okw_node_shutdown|].
    apply okw_bind; [apply (okw_sched_op (SAddNode n)); exact I|intros _ d2; apply okw_ret].
  - apply okw_get. destruct (d_shuttingdown d0); [apply okw_ret|].
    destruct (negb (mem_nat n (s_nodes (d_sched d0)))); [apply okw_ret|].
    apply okw_bind; [apply okw_hook; exact I|intros _ d1].
    apply okw_bind; [apply (okw_sched_op (SAddColl n ids)); exact Hev|intros _ d2].
    apply okw_get. destruct (s_collection_is_completed (d_sched d2)); [|apply okw_ret].
    apply okw_bind; [apply (okw_sched_op SSchedule); exact I|intros _ d3; apply okw_ret].
  - apply okw_get. destruct (mem_nat key (d_collect_seen d0)); [apply okw_ret|].
    apply okw_bind; [apply okw_put; reflexivity|intros _ d1].
    apply okw_bind; [apply okw_hook; exact I|intros _ d2]. apply okw_handlefailures.
  - apply okw_hook. exact I.
  - apply okw_hook. exact I.
  - apply okw_bind; [apply okw_hook; exact I|intros _ d1]. apply okw_handlefailures.
  - apply okw_bind; [apply (okw_sched_op (SComplete n i ms)); exact I|intros _ d2; apply okw_ret].
  - apply okw_bind_l; [apply (okw_sched_op (SUnsched n ixs)); exact I|intros _ d2; apply okw_ret].
  - apply okw_hook. exact I.
  - apply okw_bind; [apply okw_active_remove|intros _ d1]. apply okw_hook. exact I.
  - unfold d_worker_workerfinished. apply okw_bind; [apply okw_hook; exact I|intros _ d1].
    destruct sk; try contradiction.
    + apply okw_get. apply okw_bind; [|intros _ d2; apply okw_active_remove].
      destruct (mem_nat n (s_nodes (d_sched d1))); [apply okw_remove_assert|apply okw_ret].
    + apply okw_bind; [|intros _ d2; apply okw_active_remove].
      apply okw_get. destruct (d_shouldstop d1); [apply okw_ret|apply okw_put; reflexivity].
Qed.

Lemma okw_loop_once ev d0 : ok_ev ev -> okw (ev_inds ev) d0 (d_loop_once ev).
Proof.
  intros Hev. unfold d_loop_once.
  apply okw_bind_l; [apply okw_handle; exact Hev|intros _ d1].
  apply okw_bind; [|intros _ d2].
  - apply okw_get. destruct (s_tests_finished (d_sched d1)); [apply okw_triggershutdown|apply okw_ret].
  - apply okw_get. destruct (d_shouldstop d2); [apply okw_triggershutdown|apply okw_ret].
Qed.

(* ---- the controller's receiver thread ---- *)
(* an `unscheduled` message becomes an `unscheduled` event with the same indices; the scheduler
   is not touched *)
Lemma pfr_ws n m d d' o r :
  ok_up m -> process_from_remote n m d = (d', o, r) ->
  o = [] /\
  (forall ws, d_sched d = StW ws -> WI ws ->
     exists ws', d_sched d' = StW ws' /\ WI ws' /\ ws_pending ws' = ws_pending ws /\ ws_coll ws' = ws_coll ws) /\
  (forall evs, r = Ok evs -> Forall ok_ev evs /\ (flat_map ev_inds evs = up_inds m \/ evs = [])).
Proof.
  intros Hm H.
  assert (SAME : forall (x : result (list cevent)), (d, @nil out, x) = (d', o, r) ->
     (forall evs, x = Ok evs -> Forall ok_ev evs /\ (flat_map ev_inds evs = up_inds m \/ evs = [])) ->
     o = [] /\
     (forall ws, d_sched d = StW ws -> WI ws ->
        exists ws', d_sched d' = StW ws' /\ WI ws' /\ ws_pending ws' = ws_pending ws /\ ws_coll ws' = ws_coll ws) /\
     (forall evs, r = Ok evs -> Forall ok_ev evs /\ (flat_map ev_inds evs = up_inds m \/ evs = []))).
  { intros x E Hx. inversion E; subst. split; [reflexivity|]. split; [|exact Hx].
    intros ws Els Iw. exists ws. auto. }
  unfold process_from_remote, mbind, get, of_opt, ret, raise in H. cbn beta iota zeta in H.
  destruct (aget n (d_nt d)) as [f|] eqn:Ef; cbn beta iota zeta in H.
  2:{ eapply SAME; [exact H|]. discriminate. }
  assert (DOWN : forall (evs0 : list cevent),
     (d_set_nt d (aset n {| n_spec := n_spec f; n_down := true; n_sdsent := n_sdsent f; n_closed := n_closed f |} (d_nt d)),
      @nil out, Ok evs0) = (d', o, r) -> Forall ok_ev evs0 /\ flat_map ev_inds evs0 = up_inds m ->
     o = [] /\
     (forall ws, d_sched d = StW ws -> WI ws ->
        exists ws', d_sched d' = StW ws' /\ WI ws' /\ ws_pending ws' = ws_pending ws /\ ws_coll ws' = ws_coll ws) /\
     (forall evs, r = Ok evs -> Forall ok_ev evs /\ (flat_map ev_inds evs = up_inds m \/ evs = []))).
  { intros evs0 E (Hx1 & Hx2). inversion E; subst. split; [reflexivity|]. split.
    - intros ws Els Iw. rewrite d_sched_set_nt, Els. cbn [s_set_nt]. eexists. split; [reflexivity|].
      assert (Hnt : d_nt d = ws_nt ws) by (unfold d_nt; rewrite Els; reflexivity).
      split; [|split; reflexivity].
      apply WI_set_nt; [exact Iw|]. rewrite Hnt. apply all_open_aset; [apply Iw|].
      cbn. rewrite Hnt in Ef. destruct Iw as (I1 & _). exact (I1 _ _ Ef).
    - intros evs E'. inversion E'; subst. auto. }
  destruct (n_down f) eqn:Edn.
  { (* a node that is down is not heard any more: the message is dropped *)
    assert (H' : (d, @nil out, Ok (@nil cevent)) = (d', o, r)).
    { destruct m as [e|ids|sk|i ms|dec| | |]; exact H. }
    eapply SAME; [exact H'|]. intros evs E. inversion E; subst. split; [constructor|right; reflexivity]. }
  destruct m as [e|ids|sk|i ms|dec| | |]; cbn [ok_up] in Hm; try contradiction.
  - destruct e; unfold put in H; cbn beta iota zeta in H;
      try (eapply SAME; [exact H|]; intros evs E; inversion E; subst; split; [repeat constructor|left; reflexivity]; fail).
    + eapply SAME; [exact H|]. intros evs E. inversion E; subst. split; [repeat constructor|]. left. cbn. apply app_nil_r.
    + eapply DOWN; [exact H|]. split; [destruct stopreq; repeat constructor|reflexivity].
  - eapply SAME; [exact H|]. intros evs E. inversion E; subst. split; [|left; reflexivity]. repeat constructor. exact Hm.
  - eapply SAME; [exact H|]. intros evs E. inversion E; subst. split; [|left; reflexivity]. repeat constructor.
Qed.

(* ====================================================================================== *)
(* Part 5: the system                                                                      *)
(* ====================================================================================== *)

(* tokens: pool and everything in flight (both directions) together hold every index at most
   once; nothing exists before the initial distribution; every index is a valid position *)
Definition TOKW (ws : wsstate) (T : list nat) : Prop :=
  NoDup (ws_pending ws ++ T) /\
  (ws_coll ws = None -> T = []) /\
  (forall coll, ws_coll ws = Some coll -> forall i, In i (ws_pending ws ++ T) -> i < length coll).

Lemma tokw_step ws ws' o back T T' :
  WI ws -> WI ws' -> WT ws ws' o back -> sub (T' ++ back) (sent_inds o ++ T) -> TOKW ws T -> TOKW ws' T'.
Proof.
  intros (_ & _ & I3) (_ & _ & I3') (T1 & T2 & T3) Hs (K1 & K2 & K3). unfold TOKW.
  destruct (ws_coll ws') as [coll|] eqn:Ec'.
  - specialize (T3 coll eq_refl). unfold vpw in T3 at 2. rewrite Ec' in T3.
    assert (Hsub : sub (ws_pending ws' ++ T') (vpw coll ws ++ T)).
    { apply (sub_cancel_r _ _ back).
      eapply sub_trans; [apply sub_perm; rewrite <- app_assoc; reflexivity|].
      eapply sub_trans; [apply sub_app; [apply sub_refl|exact Hs]|].
      apply sub_perm. permc_with T3. }
    destruct (ws_coll ws) as [c0|] eqn:Ec.
    + assert (c0 = coll) by (specialize (T1 _ eq_refl); congruence). subst c0.
      unfold vpw in Hsub. rewrite Ec in Hsub.
      split; [eapply sub_nodup; eauto|]. split; [discriminate|].
      intros coll' E i Hi. inversion E; subst. apply (K3 coll' eq_refl). eapply sub_in; eauto.
    + unfold vpw in Hsub. rewrite Ec in Hsub. rewrite (K2 eq_refl), app_nil_r in Hsub.
      split; [eapply sub_nodup; [exact Hsub|apply seq_NoDup]|]. split; [discriminate|].
      intros coll' E i Hi. inversion E; subst. apply (sub_in _ _ _ Hsub) in Hi. apply in_seq in Hi. lia.
  - destruct (ws_coll ws) as [c0|] eqn:Ec; [specialize (T1 _ eq_refl); discriminate|].
    destruct (T2 eq_refl) as (S0 & B0). rewrite S0, B0, (K2 eq_refl), app_nil_r in Hs. cbn in Hs.
    apply sub_nil_inv in Hs. subst T'.
    destruct (I3' eq_refl) as (P0 & _). rewrite P0. split; [constructor|]. split; [reflexivity|].
    intros coll E. discriminate.
Qed.

Lemma tokw_sub ws T T' : WI ws -> sub T' T -> TOKW ws T -> TOKW ws T'.
Proof.
  intros Iw Hs. apply (tokw_step ws ws [] [] T T' Iw Iw (WT_refl ws)). rewrite app_nil_r. exact Hs.
Qed.

(* what is known of every worker process *)
Definition WOK (w : wst) : Prop := WInv w /\ Forall good_cmd_ws (winbox w) /\ script_ok w /\ nogarb w.

Record SInvW (s : sys) : Prop := {
  sw_dead : y_dead s = [];
  sw_keys : NoDup (akeys (y_w s));
  sw_tok : exists ws, d_sched (y_d s) = StW ws /\ WI ws /\ TOKW ws (wires_ws s);
  sw_evq : Forall ok_ev (y_evq s);
  sw_up : forall n, Forall ok_up (alist_get [] n (y_up s));
  sw_upk : forall n, aget n (y_w s) = None -> alist_get [] n (y_up s) = [];
  sw_down : forall n, Forall good_cmd_ws (alist_get [] n (y_down s));
  sw_w : forall n w, aget n (y_w s) = Some w -> WOK w;
}.

Lemma SInvW_set_result s r : SInvW s -> SInvW (set_result s r).
Proof. intros [A B C D E E' F G]. constructor; assumption. Qed.

Lemma nodes_pointwise s s' :
  akeys (y_w s') = akeys (y_w s) ->
  (forall k, In k (akeys (y_w s)) -> sub (node_tokens_ws s' k) (node_tokens_ws s k)) ->
  sub (nodes_ws s') (nodes_ws s).
Proof. intros Ek H. unfold nodes_ws. rewrite Ek. apply sub_flat_map. exact H. Qed.

(* ---- a worker step: what the process holds plus what it sends up is what it held ---- *)
Lemma worker_step_inv_ws c s n w w' evs :
  (forall k, ~ In ""%string (c_coll c k)) ->
  SInvW s -> aget n (y_w s) = Some w -> WOK w' -> Forall (fun e => is_garbled e = false) evs ->
  Permutation (w_tokens_ws w' ++ flat_map wev_inds evs) (w_tokens_ws w) ->
  SInvW (push_up (set_w s n w') n (map (up_of_wevent c n) evs)).
Proof.
  intros Hne [A B (ws & Els & Iw & T) D E E' F G] Ew Ow NGe Pw.
  assert (Ek : akeys (aset n w' (y_w s)) = akeys (y_w s)).
  { apply akeys_aset_in. eapply aget_some_in; eauto. }
  constructor; cbn [push_up set_w y_dead y_w y_d y_evq y_up y_down].
  - exact A.
  - rewrite Ek. exact B.
  - exists ws. split; [exact Els|]. split; [exact Iw|]. eapply tokw_sub; [exact Iw| |exact T].
    unfold wires_ws. apply sub_app; [|apply sub_refl].
    apply nodes_pointwise; cbn [push_up set_w y_w]; [exact Ek|].
    intros k _. unfold node_tokens_ws. cbn [push_up set_w y_w y_down y_up].
    destruct (Nat.eq_dec k n) as [->|Hk].
    + rewrite aget_aset_eq, Ew, alist_get_aset_eq, flat_map_app, up_inds_map. apply sub_perm.
      apply Permutation_app_head. permc_with Pw.
    + rewrite aget_aset_neq, alist_get_aset_neq by exact Hk. apply sub_refl.
  - exact D.
  - intros k. destruct (Nat.eq_dec k n) as [->|Hk].
    + rewrite alist_get_aset_eq. apply Forall_app. split; [apply E|].
      apply Forall_forall. intros m Hm. apply in_map_iff in Hm. destruct Hm as (e & <- & He).
      rewrite Forall_forall in NGe. specialize (NGe e He).
      destruct e; cbn; auto. destruct oc; cbn; auto. discriminate.
    + rewrite alist_get_aset_neq by exact Hk. apply E.
  - intros k. destruct (Nat.eq_dec k n) as [->|Hk].
    + rewrite aget_aset_eq. discriminate.
    + rewrite aget_aset_neq, alist_get_aset_neq by exact Hk. apply E'.
  - exact F.
  - intros k wk. destruct (Nat.eq_dec k n) as [->|Hk].
    + rewrite aget_aset_eq. intros X. inversion X; subst. exact Ow.
    + rewrite aget_aset_neq by exact Hk. apply G.
Qed.

(* ---- applying the controller's outputs ---- *)
Lemma run_inds_good_ws n cm :
  good_out_ws (OSend n cm) -> run_inds (OSend n cm) = cmd_inds cm /\ good_cmd_ws cm.
Proof. destruct cm; cbn; intros H; try contradiction; auto. Qed.

Lemma apply_outs_ws outs : forall s,
  y_dead s = [] -> NoDup (akeys (y_w s)) -> Forall good_out_ws outs ->
  y_d (apply_outs s outs) = y_d s /\ y_evq (apply_outs s outs) = y_evq s /\
  y_up (apply_outs s outs) = y_up s /\ y_w (apply_outs s outs) = y_w s /\
  y_dead (apply_outs s outs) = y_dead s /\
  ((forall n, Forall good_cmd_ws (alist_get [] n (y_down s))) ->
   forall n, Forall good_cmd_ws (alist_get [] n (y_down (apply_outs s outs)))) /\
  sub (nodes_ws (apply_outs s outs)) (sent_inds outs ++ nodes_ws s).
Proof.
  induction outs as [|x outs IH]; intros s Hd Hk Hg.
  - cbn. repeat split; auto. apply sub_refl.
  - inversion Hg as [|x' r' Gx Gr]; subst.
    assert (SKIP : run_inds x = [] -> apply_outs s (x :: outs) = apply_outs s outs ->
       y_d (apply_outs s (x :: outs)) = y_d s /\ y_evq (apply_outs s (x :: outs)) = y_evq s /\
       y_up (apply_outs s (x :: outs)) = y_up s /\ y_w (apply_outs s (x :: outs)) = y_w s /\
       y_dead (apply_outs s (x :: outs)) = y_dead s /\
       ((forall n, Forall good_cmd_ws (alist_get [] n (y_down s))) ->
        forall n, Forall good_cmd_ws (alist_get [] n (y_down (apply_outs s (x :: outs))))) /\
       sub (nodes_ws (apply_outs s (x :: outs))) (sent_inds (x :: outs) ++ nodes_ws s)).
    { intros Hr ->. unfold sent_inds. cbn [flat_map]. rewrite Hr. cbn [app]. apply IH; assumption. }
    destruct x as [h|n cm| |]; try (apply SKIP; reflexivity).
    + destruct h; try (apply SKIP; reflexivity). cbn in Gx. contradiction.
    + destruct (run_inds_good_ws _ _ Gx) as (Er & Gc).
      cbn [apply_outs]. replace (mem_nat n (y_dead s)) with false by (rewrite Hd; reflexivity).
      set (s1 := {| y_d := y_d s; y_evq := y_evq s;
                    y_down := aset n (alist_get [] n (y_down s) ++ [cm]) (y_down s);
                    y_up := y_up s; y_w := y_w s; y_dead := y_dead s; y_result := y_result s |}).
      destruct (IH s1 Hd Hk Gr) as (A1 & A2 & A3 & A4 & A5 & A6 & A7).
      split; [exact A1|]. split; [exact A2|]. split; [exact A3|]. split; [exact A4|]. split; [exact A5|].
      split.
      * intros Hdn. apply A6. intros k. subst s1. cbn [y_down].
        destruct (Nat.eq_dec k n) as [->|Hkn].
        -- rewrite alist_get_aset_eq. apply Forall_app. split; [apply Hdn|repeat constructor; exact Gc].
        -- rewrite alist_get_aset_neq by exact Hkn. apply Hdn.
      * eapply sub_trans; [exact A7|].
        assert (W1 : sub (nodes_ws s1) (cmd_inds cm ++ nodes_ws s)).
        { unfold nodes_ws. change (y_w s1) with (y_w s).
          apply (sub_flat_map_one (node_tokens_ws s) (node_tokens_ws s1) n); [exact Hk| |].
          - intros k Hkn. unfold node_tokens_ws. subst s1. cbn [y_down y_w y_up].
            rewrite alist_get_aset_neq by exact Hkn. reflexivity.
          - unfold node_tokens_ws. subst s1. cbn [y_down y_w y_up]. rewrite alist_get_aset_eq, fm_cmd_app.
            cbn [flat_map]. rewrite app_nil_r. permc. }
        eapply sub_trans; [apply sub_app; [apply sub_refl|exact W1]|].
        apply sub_perm. unfold sent_inds. cbn [flat_map]. rewrite Er.
        fold (sent_inds outs). permc.
Qed.

(* ---- the one-step lemma ---- *)
Lemma step_sinvw c s l s' o w :
  (forall n i, c_crash_in c n i = false) -> no_garbled c -> (forall k, ~ In ""%string (c_coll c k)) ->
  no_crash_label l -> SInvW s -> sys_step c s l = Some (s', o, w) ->
  SInvW s' \/ (y_w s' = y_w s /\ Errd s').
Proof.
  intros Hnc Hng Hne Hl Inv H. pose proof Inv as [A B (ws & Els & Iw & T) D E E' F G].
  unfold sys_step in H. destruct (y_result s) eqn:Er; [discriminate|].
  destruct l as [n0|n0|n0|n0| |n0]; [| | | | |contradiction].
  - (* LDeliver *)
    replace (mem_nat n0 (y_dead s)) with false in H by (rewrite A; reflexivity).
    destruct (aget n0 (y_down s)) as [[|cmd rest]|] eqn:Ed; try discriminate.
    destruct (aget n0 (y_w s)) as [w0|] eqn:Ew; try discriminate.
    fin3 H s' o w. left.
    assert (Ek : akeys (aset n0 (deliver w0 cmd) (y_w s)) = akeys (y_w s)).
    { apply akeys_aset_in. eapply aget_some_in; eauto. }
    pose proof (F n0) as Fn. rewrite (alist_get_some [] _ _ _ Ed) in Fn.
    inversion Fn as [|c1 r1 Gc Gr]; subst.
    destruct (G _ _ Ew) as (Iw0 & Gw & Sw & NGw).
    constructor; cbn [y_dead y_w y_d y_evq y_up y_down].
    + exact A.
    + rewrite Ek. exact B.
    + exists ws. split; [exact Els|]. split; [exact Iw|]. eapply tokw_sub; [exact Iw| |exact T].
      unfold wires_ws. apply sub_app; [|apply sub_refl].
      apply nodes_pointwise; cbn [y_w]; [exact Ek|].
      intros k _. unfold node_tokens_ws. cbn [y_w y_down y_up].
      destruct (Nat.eq_dec k n0) as [->|Hk].
      * rewrite aget_aset_eq, Ew, alist_get_aset_eq, (alist_get_some [] _ _ _ Ed).
        apply sub_perm. cbn [flat_map]. pose proof (deliver_tokens_ws w0 cmd) as P. permc_with P.
      * rewrite aget_aset_neq, alist_get_aset_neq by exact Hk. apply sub_refl.
    + exact D.
    + exact E.
    + intros k. destruct (Nat.eq_dec k n0) as [->|Hk].
      * rewrite aget_aset_eq. discriminate.
      * rewrite aget_aset_neq by exact Hk. apply E'.
    + intros k. destruct (Nat.eq_dec k n0) as [->|Hk].
      * rewrite alist_get_aset_eq. exact Gr.
      * rewrite alist_get_aset_neq by exact Hk. apply F.
    + intros k wk. destruct (Nat.eq_dec k n0) as [->|Hk].
      * rewrite aget_aset_eq. intros X. inversion X; subst. split; [apply upd_recv_inv; exact Iw0|].
        split; [apply deliver_good_ws; assumption|]. split; [exact Sw|].
        apply (nogarb_ph _ w0); [reflexivity|exact NGw].
      * rewrite aget_aset_neq by exact Hk. apply G.
  - (* LRecvW: CSteal is answered here *)
    replace (mem_nat n0 (y_dead s)) with false in H by (rewrite A; reflexivity).
    destruct (aget n0 (y_w s)) as [w0|] eqn:Ew; try discriminate.
    destruct (negb (wcb w0)); [discriminate|].
    destruct (recv_step (c_oracle c n0) w0) as [w' evs] eqn:Es. fin3 H s' o w. left.
    destruct (G _ _ Ew) as (Iw0 & Gw & Sw & NGw).
    pose proof (recv_step_tokens_ws (c_oracle c n0) w0 Gw) as (P & Gw').
    pose proof (recv_step_inv (c_oracle c n0) w0 Iw0) as Iw'.
    pose proof (recv_step_keeps (c_oracle c n0) w0) as (_ & _ & Eph).
    rewrite Es in P, Gw', Iw', Eph. cbn [fst snd] in *.
    destruct (recv_step_nogarb _ _ _ _ Es NGw) as (NGw' & NGe).
    eapply worker_step_inv_ws; eauto.
    split; [exact Iw'|]. split; [exact Gw'|]. split; [unfold script_ok in *; rewrite Eph; exact Sw|exact NGw'].
  - (* LMain *)
    replace (mem_nat n0 (y_dead s)) with false in H by (rewrite A; reflexivity).
    destruct (aget n0 (y_w s)) as [w0|] eqn:Ew; try discriminate.
    assert (Hd : dies_now c n0 w0 = false).
    { unfold dies_now. destruct (wph w0); auto. }
    rewrite Hd in H.
    destruct (main_step (c_oracle c n0) w0) as [[w' evs]|] eqn:Es; [|discriminate]. fin3 H s' o w. left.
    destruct (G _ _ Ew) as (Iw0 & Gw & Sw & NGw).
    destruct (main_step_tokens_ws _ _ _ _ Sw Es) as (P & Ei & Sw').
    destruct (main_step_nogarb _ _ _ _ (Hng n0) Es NGw) as (NGw' & NGe).
    eapply worker_step_inv_ws; eauto.
    split; [eapply main_step_inv; eauto|]. split; [rewrite Ei; exact Gw|]. split; [exact Sw'|exact NGw'].
  - (* LRecv: an `unscheduled` message becomes an event *)
    destruct (aget n0 (y_up s)) as [[|m rest]|] eqn:Eu; try discriminate.
    cbn [y_d] in H.
    destruct (process_from_remote n0 m (y_d s)) as [[d' outs] r] eqn:Ep.
    pose proof (E n0) as En. rewrite (alist_get_some [] _ _ _ Eu) in En.
    inversion En as [|m1 r1 Gm Gr]; subst.
    destruct (pfr_ws _ _ _ _ _ _ Gm Ep) as (-> & Hd' & Hev).
    cbn [apply_outs] in H.
    destruct r as [evs|e].
    + unfold close_if_dead in H. cbn [set_evq set_d y_dead] in H.
      replace (mem_nat n0 (y_dead s)) with false in H by (rewrite A; reflexivity).
      fin3 H s' o w. left.
      destruct (Hd' ws Els Iw) as (ws' & Els' & I' & Ep' & Ec').
      destruct (Hev evs eq_refl) as (Hok & Hinds).
      assert (Hin : In n0 (akeys (y_w s))).
      { destruct (aget n0 (y_w s)) as [w0|] eqn:Ew0; [eapply aget_some_in; eauto|].
        pose proof (E' n0 Ew0) as X. rewrite (alist_get_some [] _ _ _ Eu) in X. discriminate. }
      constructor; cbn [set_evq set_d y_dead y_w y_d y_evq y_up y_down].
      * exact A.
      * exact B.
      * exists ws'. split; [exact Els'|]. split; [exact I'|].
        match goal with |- TOKW _ (wires_ws ?s1) => set (s1' := s1) end.
        assert (Hp : sub (wires_ws s1') (wires_ws s)).
        { assert (Hn : Permutation (nodes_ws s) (up_inds m ++ nodes_ws s1')).
          { unfold nodes_ws. change (y_w s1') with (y_w s).
            apply (perm_flat_map_one _ _ n0); [exact B|exact Hin| |].
            - intros k Hk. unfold node_tokens_ws. subst s1'. cbn [set_evq set_d y_w y_down y_up].
              rewrite alist_get_aset_neq by exact Hk. reflexivity.
            - unfold node_tokens_ws. subst s1'. cbn [set_evq set_d y_w y_down y_up].
              rewrite alist_get_aset_eq, (alist_get_some [] _ _ _ Eu). cbn [flat_map]. permc. }
          unfold wires_ws, evq_inds. change (y_evq s1') with (y_evq s ++ evs).
          destruct Hinds as [Hinds| ->].
          - apply sub_perm. rewrite flat_map_app, Hinds. permc_with Hn.
          - (* the message of a node that is down is dropped: its indices leave the system *)
            rewrite app_nil_r. exists (up_inds m). permc_with Hn. }
        assert (T' : TOKW ws (wires_ws s1')) by (eapply tokw_sub; [exact Iw|exact Hp|exact T]).
        destruct T' as (T1 & T2 & T3). unfold TOKW. rewrite Ep', Ec'. auto.
      * apply Forall_app. split; [exact D|exact Hok].
      * intros k. destruct (Nat.eq_dec k n0) as [->|Hk].
        -- rewrite alist_get_aset_eq. exact Gr.
        -- rewrite alist_get_aset_neq by exact Hk. apply E.
      * intros k Hk0. destruct (Nat.eq_dec k n0) as [->|Hk].
        -- exfalso. apply aget_none_notin in Hk0. contradiction.
        -- rewrite alist_get_aset_neq by exact Hk. apply E'. exact Hk0.
      * exact F.
      * exact G.
    + fin3 H s' o w. right. split; [reflexivity|]. exists e. reflexivity.
  - (* LCtl: an `unscheduled` event goes back into the pool *)
    destruct (d_active (y_d s)) as [|a0 ar] eqn:Ea.
    + destruct (d_no_active (y_d s)) as [[d' outs] r0] eqn:En. fin3 H s' o w. right.
      split; [|eexists; reflexivity]. cbn [set_result y_w].
      rewrite apply_outs_yw; [reflexivity|]. eapply no_active_nospawn; eauto.
    + destruct (y_evq s) as [|ev q] eqn:Eq; [discriminate|].
      inversion D as [|ev1 q1 Gev Gq]; subst.
      destruct (d_loop_once ev (y_d s)) as [[d' outs] r] eqn:El.
      pose proof (loop_once_nospawn _ _ _ _ _ Gev El) as NS.
      set (s0 := set_d (set_evq s q) d') in *.
      assert (YW : y_w (apply_outs s0 outs) = y_w s).
      { rewrite apply_outs_yw by exact NS. reflexivity. }
      destruct r as [[]|e].
      2:{ fin3 H s' o w. right. split; [exact YW|eexists; reflexivity]. }
      destruct (okw_loop_once ev (y_d s) Gev _ _ _ El ws Els Iw) as (ws' & Els' & I' & WTr & Go).
      destruct (apply_outs_ws outs s0 A B Go) as (A1 & A2 & A3 & A4 & A5 & A6 & A7).
      assert (S1 : SInvW (apply_outs s0 outs)).
      { constructor.
        - rewrite A5. exact A.
        - rewrite A4. exact B.
        - exists ws'. rewrite A1. split; [exact Els'|]. split; [exact I'|].
          eapply tokw_step; [exact Iw|exact I'|exact WTr| |exact T].
          unfold wires_ws, evq_inds. rewrite A2, Eq. subst s0. cbn [set_d set_evq y_evq flat_map].
          change (nodes_ws (set_d (set_evq s q) d')) with (nodes_ws s) in A7.
          eapply sub_trans; [apply sub_perm; rewrite <- app_assoc; reflexivity|].
          eapply sub_trans; [apply sub_app; [exact A7|apply sub_refl]|].
          apply sub_perm. permc.
        - rewrite A2. exact Gq.
        - intros k. rewrite A3. apply E.
        - intros k. rewrite A3, A4. apply E'.
        - apply A6. exact F.
        - intros k wk. rewrite A4. apply G. }
      destruct (d_session_finished d'); [fin3 H s' o w; left; apply SInvW_set_result; exact S1|].
      destruct (d_active d') as [|b0 br] eqn:Ea'.
      * destruct (d_no_active d') as [[d2 outs2] r2] eqn:En. fin3 H s' o w. right.
        split; [|eexists; reflexivity]. cbn [set_result y_w].
        rewrite apply_outs_yw; [exact YW|]. eapply no_active_nospawn; eauto.
      * fin3 H s' o w. left. exact S1.
Qed.

(* ---- the initial state ---- *)
Lemma nodes_ws_init c : nodes_ws (sys_init c) = [].
Proof.
  unfold nodes_ws. apply flat_map_all_nil. intros k. unfold node_tokens_ws. cbn [sys_init y_down y_w y_up].
  rewrite !alist_get_map_nil. cbn [flat_map app]. rewrite app_nil_r.
  destruct (aget k (map (fun n => (n, w_init)) (seq 0 (c_numnodes c)))) as [w|] eqn:E; [|reflexivity].
  apply aget_map_const in E. subst w. reflexivity.
Qed.

Lemma SInvW_init c : c_mode c = MSteal -> SInvW (sys_init c).
Proof.
  intros Hm. constructor.
  - reflexivity.
  - cbn [sys_init y_w]. rewrite (akeys_map_seq (fun _ => w_init)). apply seq_NoDup.
  - cbn [sys_init y_d d_sched]. rewrite Hm. cbn [s_init s_set_nt].
    eexists. split; [reflexivity|]. split.
    + split; [apply init_nt_open|]. split; [|intros _; split; reflexivity].
      split; [intros c0 E; discriminate|intros n ids []].
    + unfold wires_ws, evq_inds. rewrite nodes_ws_init. cbn [sys_init y_evq flat_map app].
      split; [constructor|]. split; [reflexivity|]. intros coll E. discriminate.
  - constructor.
  - intros n. cbn [sys_init y_up]. rewrite alist_get_map_nil. constructor.
  - intros n _. cbn [sys_init y_up]. apply alist_get_map_nil.
  - intros n. cbn [sys_init y_down]. rewrite alist_get_map_nil. constructor.
  - intros n w E. cbn [sys_init y_w] in E. apply aget_map_const in E. subst w.
    split; [apply winv_init|]. split; [constructor|]. split; exact Logic.I.
Qed.

(* ---- every schedule ---- *)
(* either the invariant holds, or a controller exception ended the session and the workers
   are those of a state in which the invariant held *)
Definition GoodW (s : sys) : Prop :=
  SInvW s \/ (exists s0, SInvW s0 /\ y_w s = y_w s0 /\ Errd s).

Lemma good_step_ws c s l :
  (forall n i, c_crash_in c n i = false) -> no_garbled c -> (forall k, ~ In ""%string (c_coll c k)) ->
  no_crash_label l -> GoodW s -> GoodW (step_of c s l).
Proof.
  intros Hnc Hng Hne Hl Hg. unfold step_of.
  destruct (sys_step c s l) as [[[s' o] w]|] eqn:E; [|exact Hg].
  destruct Hg as [Inv|(s0 & _ & _ & (e & Er))].
  - destruct (step_sinvw _ _ _ _ _ _ Hnc Hng Hne Hl Inv E) as [Inv'|(Ew & Ee)]; [left; exact Inv'|].
    right. exists s. auto.
  - unfold sys_step in E. rewrite Er in E. discriminate.
Qed.

Lemma good_run_ws c ls :
  c_mode c = MSteal -> (forall n i, c_crash_in c n i = false) -> no_garbled c ->
  (forall k, ~ In ""%string (c_coll c k)) ->
  Forall no_crash_label ls -> GoodW (sys_run c ls).
Proof.
  intros Hm Hnc Hng Hne Hls. unfold sys_run.
  assert (G : forall s, GoodW s -> GoodW (fold_left (step_of c) ls s)).
  { induction Hls as [|l ls Hl Hls IH]; intros s Hg; cbn [fold_left]; [exact Hg|].
    apply IH. apply good_step_ws; assumption. }
  apply (G (sys_init c)). left. apply SInvW_init. exact Hm.
Qed.

(* ---- from the invariant to the statements ---- *)
Lemma started_sub_nodes s : SInvW s -> sub (started s) (nodes_ws s).
Proof.
  intros [A B C D E E' F G]. rewrite (started_keys s B). unfold nodes_ws. apply sub_flat_map.
  intros k _. unfold node_tokens_ws. destruct (aget k (y_w s)) as [w|] eqn:Ew.
  2:{ cbn [app]. eexists. cbn [app]. reflexivity. }
  destruct (G _ _ Ew) as (Iw & _). destruct (started_prefix_popped w Iw) as (more & Em).
  unfold w_tokens_ws, w_tokens. rewrite Em.
  exists (more ++ flat_map cmd_inds (alist_get [] k (y_down s)) ++ flat_map cmd_inds (winbox w) ++
          item_inds (wrpend w) ++ ents_idx (wq w) ++ reply_inds (wreply w) ++
          flat_map up_inds (alist_get [] k (y_up s))).
  permc.
Qed.

Lemma sinvw_places_nodup s : SInvW s -> NoDup (places_ws s).
Proof.
  intros [A B (ws & Els & Iw & (T1 & _)) D E E' F G]. unfold places_ws, pool_ws. rewrite Els. exact T1.
Qed.

Lemma sinvw_started_nodup s : SInvW s -> NoDup (started s).
Proof.
  intros Inv. eapply sub_nodup; [apply started_sub_nodes; exact Inv|].
  pose proof (sinvw_places_nodup s Inv) as ND. unfold places_ws, wires_ws in ND.
  apply WorkerProofs.nodup_app_r in ND. apply nodup_app_l in ND. exact ND.
Qed.

(* a started index is neither in the pool nor on the way back to it: what a worker has started
   was not withdrawn by any steal *)
Lemma sinvw_started_stay s i :
  SInvW s -> In i (started s) -> ~ In i (pool_ws s) /\ ~ In i (back_ws s).
Proof.
  intros Inv Hi. pose proof (sinvw_places_nodup s Inv) as ND.
  pose proof (Permutation_NoDup (places_ws_split s) ND) as ND2.
  assert (Hw : In i (wires s)).
  { destruct Inv as [A B C D E E' F G]. rewrite (started_keys s B) in Hi. unfold wires.
    apply in_flat_map in Hi. destruct Hi as (k & Hk & Hi). apply in_flat_map. exists k. split; [exact Hk|].
    unfold node_tokens. destruct (aget k (y_w s)) as [w|] eqn:Ew; [|destruct Hi].
    destruct (G _ _ Ew) as (Iw & _). destruct (started_prefix_popped w Iw) as (more & Em).
    apply in_or_app. right. unfold w_tokens. rewrite Em. rewrite !in_app_iff. auto. }
  split.
  - intros Hp. eapply (WorkerProofs.nodup_app_disj _ _ i ND2); [exact Hp|]. apply in_or_app. left. exact Hw.
  - intros Hb. apply WorkerProofs.nodup_app_r in ND2.
    eapply (WorkerProofs.nodup_app_disj _ _ i ND2); eauto.
Qed.

(* ====================================================================================== *)
(* C01 (at most once), worksteal: the theorems                                             *)
(*                                                                                          *)
(* Hypotheses (the same as for load mode in ExactlyOnce.v): worksteal mode, c_crash_in       *)
(* constantly false, no LCrash label in the schedule, no undecodable report (no_garbled c:   *)
(* a garbled report makes the controller write the worker off, see ExactlyOnce.v), and        *)
(*  (H-ids) no worker collects a test with the EMPTY node id: forall n, ~ In "" (c_coll c n). *)
(*     Reason: as in load mode -- on workerfinished DSession does                            *)
(*       crashitem = sched.remove_node(node); assert not crashitem                           *)
(*     and worksteal's remove_node, like load's, puts the rest of a non-empty book back into  *)
(*     the pool; only the assertion stops the run, and an empty id would slip through it.     *)
(*  (H-res) c01_ws_places_nodup (and the statements about the pool) are for states in which   *)
(*     no controller exception has ended the session; the statements about what the WORKERS   *)
(*     started hold in every reachable state.                                                *)
(* ====================================================================================== *)
Section C01W.
  Variable c : config.
  Variable ls : list label.
  Hypothesis Hmode : c_mode c = MSteal.
  Hypothesis Hnocrash : forall n i, c_crash_in c n i = false.
  Hypothesis Hnogarbled : no_garbled c.
  Hypothesis Hids : forall n, ~ In ""%string (c_coll c n).
  Hypothesis Hsched : Forall no_crash_label ls.

  Lemma run_good_ws : GoodW (sys_run c ls).
  Proof. apply good_run_ws; assumption. Qed.

  Lemma run_sinvw : not_errored (sys_run c ls) -> SInvW (sys_run c ls).
  Proof.
    intros Hne. destruct run_good_ws as [Inv|(s0 & _ & _ & (e & Er))]; [exact Inv|].
    exfalso. exact (Hne e Er).
  Qed.

  (* every index is in at most one place: the pool, a down-wire, a worker's inbox / current
     command / queue / taken entries, a worker's pending `unscheduled` reply, an `unscheduled`
     message on an up-wire, an `unscheduled` event in the controller's queue *)
  Theorem c01_ws_places_nodup : not_errored (sys_run c ls) -> NoDup (places_ws (sys_run c ls)).
  Proof. intros Hne. apply sinvw_places_nodup, run_sinvw, Hne. Qed.

  (* the same, with the places listed as ExactlyOnce's forward places plus the way back *)
  Theorem c01_ws_places_split_nodup : not_errored (sys_run c ls) ->
    NoDup (pool_ws (sys_run c ls) ++ wires (sys_run c ls) ++ back_ws (sys_run c ls)).
  Proof.
    intros Hne. eapply Permutation_NoDup; [apply places_ws_split|]. apply c01_ws_places_nodup. exact Hne.
  Qed.

  (* no test is started twice, by the same or by different workers -- in every reachable state,
     although tests migrate between workers *)
  Theorem c01_ws_started_at_most_once : NoDup (started (sys_run c ls)).
  Proof.
    destruct run_good_ws as [Inv|(s0 & Inv0 & Ew & _)].
    - apply sinvw_started_nodup. exact Inv.
    - rewrite (started_yw _ _ Ew). apply sinvw_started_nodup. exact Inv0.
  Qed.

  (* what a worker has started is not given away: it is neither (back) in the pool nor in an
     `unscheduled` reply at any stage *)
  Theorem c01_ws_started_not_withdrawn : not_errored (sys_run c ls) -> forall i,
    In i (started (sys_run c ls)) ->
    ~ In i (pool_ws (sys_run c ls)) /\ ~ In i (back_ws (sys_run c ls)).
  Proof. intros Hne i Hi. apply sinvw_started_stay; [apply run_sinvw; exact Hne|exact Hi]. Qed.

  (* only collected tests are started *)
  Theorem c01_ws_started_are_collected : not_errored (sys_run c ls) -> forall i,
    In i (started (sys_run c ls)) ->
    exists wss coll, d_sched (y_d (sys_run c ls)) = StW wss /\ ws_coll wss = Some coll /\ i < length coll.
  Proof.
    intros Hne i Hi. pose proof (run_sinvw Hne) as Inv.
    pose proof (sub_in _ _ _ (started_sub_nodes _ Inv) Hi) as Hw.
    destruct Inv as [A B (wss & Els & Iw & (T1 & T2 & T3)) D E E' F G].
    exists wss. destruct (ws_coll wss) as [coll|] eqn:Ec.
    - exists coll. split; [exact Els|]. split; [reflexivity|].
      apply (T3 coll eq_refl). apply in_or_app. right. unfold wires_ws. apply in_or_app. left. exact Hw.
    - pose proof (T2 eq_refl) as Z. unfold wires_ws in Z. apply app_eq_nil in Z. destruct Z as (Z & _).
      rewrite Z in Hw. destruct Hw.
  Qed.
End C01W.

Print Assumptions c01_ws_places_nodup.
Print Assumptions c01_ws_places_split_nodup.
Print Assumptions c01_ws_started_at_most_once.
Print Assumptions c01_ws_started_not_withdrawn.
Print Assumptions c01_ws_started_are_collected.

Check c01_ws_places_nodup.
Check c01_ws_places_split_nodup.
Check c01_ws_started_at_most_once.
Check c01_ws_started_not_withdrawn.
Check c01_ws_started_are_collected.

(* ====================================================================================== *)
(* Non-vacuity: a concrete session (worksteal, 3 nodes, 12 tests), evaluated               *)
(* ====================================================================================== *)
Definition c01w_oracle : oracle :=
  {| reports_of := fun _ => [Passed]; stops_after := fun _ => false; ncollected := 12; coll_reports := [] |}.
Definition c01w_cfg : config :=
  {| c_mode := MSteal; c_numnodes := 3; c_chunk := None; c_maxfail := 0%Z; c_max_restart := Some 4%Z;
     c_requeue := 0;
     c_coll := fun _ => ["t0"; "t1"; "t2"; "t3"; "t4"; "t5"; "t6"; "t7"; "t8"; "t9"; "t10"; "t11"]%string;
     c_oracle := fun _ => c01w_oracle;
     c_dur := fun _ => 0%Z; c_crash_in := fun _ _ => false; c_strict := false; c_spec := fun _ => 0 |}.

(* pool; node of the outstanding steal request; per node: (id, commands on its down-wire,
   (indices in its inbox / current command, queued, taken, computed but unsent reply),
   indices in `unscheduled` messages on its up-wire); indices in `unscheduled` events in the
   controller's queue; started; session result *)
Definition c01w_view (s : sys) :=
  (pool_ws s,
   match d_sched (y_d s) with StW ws => ws_steal ws | _ => None end,
   map (fun n => (n, alist_get [] n (y_down s),
                  match aget n (y_w s) with
                  | Some w => (flat_map cmd_inds (winbox w) ++ item_inds (wrpend w),
                               ents_idx (wq w), ents_idx (wpopped w), wreply w)
                  | None => ([], [], [], None) end,
                  flat_map up_inds (alist_get [] n (y_up s)))) (akeys (y_w s)),
   evq_inds s, started s, y_result s).

(* all three workers boot and collect, the controller handles workerready / collectionfinish of
   all and makes the initial distribution: four tests each, pool empty *)
Definition c01w_dist : list label :=
  c01_rep 4 [LMain 0] ++ c01_rep 4 [LMain 1] ++ c01_rep 4 [LMain 2] ++
  c01_rep 3 [LRecv 0] ++ c01_rep 3 [LRecv 1] ++ c01_rep 3 [LRecv 2] ++ c01_rep 6 [LCtl].
Example c01w_ex_distributed :
  c01w_view (sys_run c01w_cfg c01w_dist) =
  ([], None,
   [(0, [CRun [0; 1; 2; 3]], ([], [], [], None), []);
    (1, [CRun [4; 5; 6; 7]], ([], [], [], None), []);
    (2, [CRun [8; 9; 10; 11]], ([], [], [], None), [])], [], [], None).
Proof. vm_compute. reflexivity. Qed.

(* workers 0 and 1 receive and queue their tests; worker 1's main thread does not move; worker 0
   runs tests 0 1 2 (3 is taken as the successor); the controller sees worker 0 short of work
   and asks worker 1 -- the first worker with the longest book -- for its last two tests.  The
   request is on worker 1's wire; it carries no token: 6 and 7 are still in worker 1's queue.
   Worker 2's tests are still on its wire. *)
Definition c01w_sched_request : list label :=
  c01w_dist ++ [LDeliver 0; LDeliver 1] ++ c01_rep 5 [LRecvW 0] ++ c01_rep 5 [LRecvW 1] ++
  c01_rep 18 [LMain 0] ++ c01_rep 12 [LRecv 0] ++ c01_rep 12 [LCtl].
Example c01w_ex_steal_requested :
  c01w_view (sys_run c01w_cfg c01w_sched_request) =
  ([], Some 1,
   [(0, [], ([], [], [0; 1; 2; 3], None), []);
    (1, [CSteal [6; 7]], ([], [4; 5; 6; 7], [], None), []);
    (2, [CRun [8; 9; 10; 11]], ([], [], [], None), [])], [], [0; 1; 2], None).
Proof. vm_compute. reflexivity. Qed.

(* worker 1's receiver thread executes the steal: 6 7 leave its queue and become the reply *)
Definition c01w_sched_stolen : list label := c01w_sched_request ++ [LDeliver 1; LRecvW 1].
Example c01w_ex_stolen :
  c01w_view (sys_run c01w_cfg c01w_sched_stolen) =
  ([], Some 1,
   [(0, [], ([], [], [0; 1; 2; 3], None), []);
    (1, [], ([], [4; 5], [], Some [6; 7]), []);
    (2, [CRun [8; 9; 10; 11]], ([], [], [], None), [])], [], [0; 1; 2], None).
Proof. vm_compute. reflexivity. Qed.

(* the reply is in flight: at the same time tokens are on a down-wire (8..11), in a queue (4 5),
   taken by a main thread (0..3) and in an `unscheduled` message on worker 1's up-wire (6 7) *)
Definition c01w_sched_inflight : list label := c01w_sched_stolen ++ [LRecvW 1].
Example c01w_ex_reply_in_flight :
  c01w_view (sys_run c01w_cfg c01w_sched_inflight) =
  ([], Some 1,
   [(0, [], ([], [], [0; 1; 2; 3], None), []);
    (1, [], ([], [4; 5], [], None), [6; 7]);
    (2, [CRun [8; 9; 10; 11]], ([], [], [], None), [])], [], [0; 1; 2], None) /\
  alist_get [] 1 (y_up (sys_run c01w_cfg c01w_sched_inflight)) = [UEv (EUnscheduled [6; 7])] /\
  pool_ws (sys_run c01w_cfg c01w_sched_inflight) = [] /\
  wires (sys_run c01w_cfg c01w_sched_inflight) = [0; 1; 2; 3; 4; 5; 8; 9; 10; 11] /\
  back_ws (sys_run c01w_cfg c01w_sched_inflight) = [6; 7] /\
  places_ws (sys_run c01w_cfg c01w_sched_inflight) = [0; 1; 2; 3; 4; 5; 6; 7; 8; 9; 10; 11].
Proof. vm_compute. repeat split; reflexivity. Qed.

(* the controller's receiver thread turns it into an event in the controller's queue *)
Definition c01w_sched_event : list label := c01w_sched_inflight ++ [LRecv 1].
Example c01w_ex_reply_queued :
  c01w_view (sys_run c01w_cfg c01w_sched_event) =
  ([], Some 1,
   [(0, [], ([], [], [0; 1; 2; 3], None), []);
    (1, [], ([], [4; 5], [], None), []);
    (2, [CRun [8; 9; 10; 11]], ([], [], [], None), [])], [6; 7], [0; 1; 2], None).
Proof. vm_compute. reflexivity. Qed.

(* the controller handles it: 6 7 pass through the pool and are sent to worker 0 at once *)
Definition c01w_sched_resent : list label := c01w_sched_event ++ [LCtl].
Example c01w_ex_resent :
  c01w_view (sys_run c01w_cfg c01w_sched_resent) =
  ([], None,
   [(0, [CRun [6; 7]], ([], [], [0; 1; 2; 3], None), []);
    (1, [], ([], [4; 5], [], None), []);
    (2, [CRun [8; 9; 10; 11]], ([], [], [], None), [])], [], [0; 1; 2], None).
Proof. vm_compute. reflexivity. Qed.

(* worker 0 receives them and starts the stolen test 6 (after its own test 3) *)
Definition c01w_sched_started : list label :=
  c01w_sched_resent ++ [LDeliver 0; LRecvW 0; LRecvW 0; LRecvW 0] ++ c01_rep 8 [LMain 0].
Example c01w_ex_stolen_started :
  c01w_view (sys_run c01w_cfg c01w_sched_started) =
  ([], None,
   [(0, [], ([], [], [0; 1; 2; 3; 6; 7], None), []);
    (1, [], ([], [4; 5], [], None), []);
    (2, [CRun [8; 9; 10; 11]], ([], [], [], None), [])], [], [0; 1; 2; 3; 6], None).
Proof. vm_compute. reflexivity. Qed.

(* the hypotheses of the theorems hold of this session, so the theorems are not vacuous: a
   steal request was answered with a non-empty list and a stolen test was started elsewhere *)
Example c01w_ex_theorems_apply :
  NoDup (places_ws (sys_run c01w_cfg c01w_sched_inflight)) /\
  NoDup (places_ws (sys_run c01w_cfg c01w_sched_started)) /\
  NoDup (started (sys_run c01w_cfg c01w_sched_started)) /\
  In 6 (started (sys_run c01w_cfg c01w_sched_started)).
Proof.
  assert (H1 : c_mode c01w_cfg = MSteal) by reflexivity.
  assert (H2 : forall n i, c_crash_in c01w_cfg n i = false) by reflexivity.
  assert (H3 : forall n, ~ In ""%string (c_coll c01w_cfg n)).
  { intros n H. cbn in H. repeat (destruct H as [H|H]; [discriminate|]). exact H. }
  assert (H4 : Forall no_crash_label c01w_sched_started) by (vm_compute; repeat constructor).
  assert (H5 : Forall no_crash_label c01w_sched_inflight) by (vm_compute; repeat constructor).
  assert (H6 : no_garbled c01w_cfg).
  { intros n i H. cbn in H. destruct H as [H|[]]. discriminate. }
  split; [|split; [|split]].
  - apply c01_ws_places_nodup; auto. intros e He. vm_compute in He. discriminate.
  - apply c01_ws_places_nodup; auto. intros e He. vm_compute in He. discriminate.
  - apply c01_ws_started_at_most_once; auto.
  - vm_compute. tauto.
Qed.
Print Assumptions c01w_ex_theorems_apply.

(* the three new facts, per component *)
Check recv_step_tokens_ws.   (* (a) worker: a CSteal step conserves process + up-wire tokens *)
Check recv_step_keeps.       (* (a) worker: nothing taken / started is withdrawn *)
Check ws_unsched_WS.         (* (b) controller: exactly the reply's indices go back to the pool *)
Check steal_cmd_no_tokens.   (* (c) CSteal carries no token *)
Print Assumptions recv_step_tokens_ws.
Print Assumptions ws_unsched_WS.
Print Assumptions okw_loop_once.
Print Assumptions step_sinvw.
Print Assumptions good_run_ws.
