(* SystemCorollariesRequeue.v — Part F: C15 at system level (load and worksteal).
   Whenever a step of the system emits the 'crashed while running' report for test t and a plugin
   re-queues the crash item, the index of t is at the FRONT of the pool after the step, or it was
   handed out in that same step as the FIRST index of a batch booked on some worker (and the CRun
   command carrying the batch is among the outputs of the step unless that worker's channel is
   closed).  Holds from EVERY system state whose scheduler is LoadScheduling / WorkStealing — no
   reachability hypothesis is needed. *)
From XV Require Import Base Worker Ctl SchedLoad SchedSteal SchedScope SchedEach Sched DSession System
  NoHook DSessionProofs ShutdownOnce StopProofs FifoProofs SystemCorollaries.
From XV Require LoadProofs StealProofs.
Open Scope nat_scope.

Definition chan_closed (nt : ntable) (m : nat) : bool :=
  match aget m nt with Some f => n_closed f | None => false end.

(* x was handed out: it is in the book of some worker m, as the head of a batch whose CRun command
   is in o unless m's channel was closed (nt0: the node table before) *)
Definition taken (x : nat) (nt0 : ntable) (books' : amap (list nat)) (o : list out) : Prop :=
  exists m tests b, hd_error tests = Some x /\ aget m books' = Some b /\ In x b /\
    (In (OSend m (CRun tests)) o \/ chan_closed nt0 m = true).

Lemma taken_out x nt0 bk o o' : taken x nt0 bk o -> incl o o' -> taken x nt0 bk o'.
Proof.
  intros (m & tests & b & H1 & H2 & H3 & H4) Hi. exists m, tests, b. repeat split; auto.
  destruct H4 as [H4|H4]; [left; apply Hi; exact H4|right; exact H4].
Qed.

(* ====================================================================================== *)
(* F1: the scheduler                                                                       *)
(* ====================================================================================== *)
Section Front.
  Context {S : Type} (pend : S -> list nat) (n2p : S -> amap (list nat)) (nt : S -> ntable).

  (* the head of the pool stays where it is or is handed out; books only grow; channels keep
     their state *)
  Definition FR (s s' : S) (o : list out) : Prop :=
    (forall m, chan_closed (nt s') m = chan_closed (nt s) m) /\
    (forall m b, aget m (n2p s) = Some b -> exists b', aget m (n2p s') = Some b' /\ incl b b') /\
    (pend s' = pend s \/ exists x rest, pend s = x :: rest /\ taken x (nt s) (n2p s') o).

  Lemma FR_refl s : FR s s [].
  Proof.
    split; [reflexivity|]. split; [|left; reflexivity].
    intros m b H. exists b. split; [exact H|apply incl_refl].
  Qed.

  Lemma FR_same s s' o : nt s' = nt s -> n2p s' = n2p s -> pend s' = pend s -> FR s s' o.
  Proof.
    intros E1 E2 E3. split; [intros m; rewrite E1; reflexivity|]. split; [|left; exact E3].
    intros m b H. exists b. rewrite E2. split; [exact H|apply incl_refl].
  Qed.

  Lemma FR_trans s s1 s2 o1 o2 : FR s s1 o1 -> FR s1 s2 o2 -> FR s s2 (o1 ++ o2).
  Proof.
    intros (A1 & B1 & C1) (A2 & B2 & C2). split; [intros m; rewrite A2; apply A1|]. split.
    - intros m b H. destruct (B1 m b H) as (b1 & H1 & I1). destruct (B2 m b1 H1) as (b2 & H2 & I2).
      exists b2. split; [exact H2|eapply incl_tran; eassumption].
    - destruct C1 as [E1|(x & rest & Ep & (m & tests & b & T1 & T2 & T3 & T4))].
      + destruct C2 as [E2|(x & rest & Ep & (m & tests & b & T1 & T2 & T3 & T4))]; [left; congruence|].
        right. exists x, rest. split; [congruence|]. exists m, tests, b. repeat split; auto.
        destruct T4 as [T4|T4]; [left; apply in_or_app; right; exact T4|right; rewrite <- A1; exact T4].
      + right. exists x, rest. split; [exact Ep|]. destruct (B2 m b T2) as (b2 & H2 & I2).
        exists m, tests, b2. repeat split; auto.
        destruct T4 as [T4|T4]; [left; apply in_or_app; left; exact T4|right; exact T4].
  Qed.
End Front.

Lemma chan_closed_aset_sd nt n c m :
  aget n nt = Some c ->
  chan_closed (aset n {| n_spec := n_spec c; n_down := n_down c; n_sdsent := true; n_closed := n_closed c |} nt) m
  = chan_closed nt m.
Proof.
  intros Hc. unfold chan_closed. rewrite ShutdownOnce.aget_aset. destruct (Nat.eqb m n) eqn:E; [|reflexivity].
  apply Nat.eqb_eq in E. subst m. rewrite Hc. reflexivity.
Qed.

Lemma chan_closed_aset_keep nt n c c' m :
  aget n nt = Some c -> n_closed c' = n_closed c -> chan_closed (aset n c' nt) m = chan_closed nt m.
Proof.
  intros Hc E. unfold chan_closed. rewrite ShutdownOnce.aget_aset. destruct (Nat.eqb m n) eqn:E2; [|reflexivity].
  apply Nat.eqb_eq in E2. subst m. rewrite Hc. exact E.
Qed.

Lemma py_take_hd num (l : list nat) x r : py_take num l = x :: r -> exists rest, l = x :: rest.
Proof.
  intros E. pose proof (LoadProofs.py_take_drop _ num l) as H. rewrite E in H. cbn in H. eexists. symmetry. exact H.
Qed.

(* ---------------- load ---------------- *)
Notation FRl := (FR l_pending l_n2p l_nt).

Lemma frl_send_tests n num s s' o : l_send_tests n num s = (s', o, Ok tt) -> FRl s s' o.
Proof.
  intros H. apply LoadProofs.l_send_tests_cases in H. cbv zeta in H.
  destruct H as [(_ & -> & -> & _)|[(_ & _ & _ & _ & F)|(Hne & cur & Ec & -> & Hr)]]; [apply FR_refl|discriminate|].
  destruct Hr as [(_ & _ & F)|(c & En & _ & ->)]; [discriminate|].
  destruct (py_take num (l_pending s)) as [|x tr] eqn:Et; [contradiction|].
  destruct (py_take_hd _ _ _ _ Et) as (rest & Ep).
  split; [intros m; reflexivity|]. split.
  - intros m b Hb. cbn [l_n2p l_set_n2p l_set_pending]. rewrite ShutdownOnce.aget_aset.
    destruct (Nat.eqb m n) eqn:E.
    + apply Nat.eqb_eq in E. subst m. rewrite Ec in Hb. inversion Hb; subst. eexists. split; [reflexivity|].
      apply incl_appl, incl_refl.
    + exists b. split; [exact Hb|apply incl_refl].
  - right. exists x, rest. split; [exact Ep|]. exists n, (x :: tr), (cur ++ x :: tr).
    split; [reflexivity|]. split.
    { cbn [l_n2p l_set_n2p l_set_pending]. rewrite ShutdownOnce.aget_aset, Nat.eqb_refl. reflexivity. }
    split; [apply in_or_app; right; left; reflexivity|].
    unfold chan_closed. cbn [l_nt l_set_pending l_set_n2p]. rewrite En.
    destruct (n_closed c); [right; reflexivity|left; left; reflexivity].
Qed.

Lemma frl_node_shutdown n s s' o : node_shutdown l_nt l_set_nt n s = (s', o, Ok tt) -> FRl s s' o.
Proof.
  intros H. apply LoadProofs.node_shutdown_cases in H.
  destruct H as [(_ & _ & _ & F)|[(c & _ & _ & -> & -> & _)|(c & Ec & _ & _ & -> & _)]];
    [discriminate|apply FR_refl|].
  split; [|split; [|left; reflexivity]].
  - intros m. cbn [l_nt l_set_nt]. apply chan_closed_aset_sd. exact Ec.
  - intros m b Hb. exists b. split; [exact Hb|apply incl_refl].
Qed.

Lemma frl_check_schedule n dur s s' o : l_check_schedule n dur s = (s', o, Ok tt) -> FRl s s' o.
Proof.
  intros H. apply LoadProofs.l_check_schedule_cases in H.
  destruct H as [(_ & _ & _ & F)|[(c & _ & _ & -> & -> & _)|[(c & _ & _ & _ & H)|[(c & _ & _ & _ & -> & ->)|(c & num & _ & _ & _ & H)]]]].
  - discriminate.
  - apply FR_refl.
  - eapply frl_node_shutdown; exact H.
  - apply FR_refl.
  - eapply frl_send_tests. exact H.
Qed.

Lemma frl_mfor_check l dur s s' o :
  mfor l (fun m => l_check_schedule m dur) s = (s', o, Ok tt) -> FRl s s' o.
Proof.
  revert s s' o. apply LoadProofs.mfor_ok_inv.
  - intros s. apply FR_refl.
  - intros s s1 s2 o1 o2. apply FR_trans.
  - intros x s s' o _ H. eapply frl_check_schedule. exact H.
Qed.

Theorem l_requeue_front item s s' o :
  l_mark_test_pending item s = (s', o, Ok tt) ->
  exists coll idx, l_coll s = Some coll /\ l_coll s' = Some coll /\ index_of_str item coll = Some idx /\
    (forall m, chan_closed (l_nt s') m = chan_closed (l_nt s) m) /\
    (hd_error (l_pending s') = Some idx \/ taken idx (l_nt s) (l_n2p s') o).
Proof.
  intros H.
  destruct (l_coll s) as [coll|] eqn:Ec.
  2:{ unfold l_mark_test_pending, mbind, get, of_opt, raise in H. rewrite Ec in H. cbn in H. discriminate. }
  destruct (index_of_str item coll) as [idx|] eqn:Ei.
  2:{ unfold l_mark_test_pending, mbind, get, of_opt, ret, raise in H. rewrite Ec in H. cbn beta iota in H.
      rewrite Ei in H. cbn in H. discriminate. }
  rewrite (proj1 (LoadProofs.l_mark_test_pending_L7_front _ _ _ _ Ec Ei)) in H.
  pose proof (LoadProofs.mfor_check_keeps _ _ _ _ _ _ H) as (Kc & _).
  destruct (frl_mfor_check _ _ _ _ _ H) as (A & _ & C).
  exists coll, idx. split; [reflexivity|]. split; [rewrite Kc; exact Ec|]. split; [exact Ei|].
  split; [exact A|].
  destruct C as [E|(x & rest & Ep & T)].
  - left. rewrite E. reflexivity.
  - right. cbn [l_pending l_set_pending] in Ep. inversion Ep; subst. exact T.
Qed.

(* ---------------- worksteal ---------------- *)
Notation FRw := (FR ws_pending ws_n2p ws_nt).

Lemma frw_send_tests n num s s' o : ws_send_tests n num s = (s', o, Ok tt) -> FRw s s' o.
Proof.
  rewrite StealProofs.send_tests_eq. intros H.
  destruct (py_take num (ws_pending s)) as [|x tr] eqn:Et; [inversion H; subst; apply FR_refl|].
  destruct (aget n (ws_n2p s)) as [cur|] eqn:Ec; [|discriminate].
  destruct (aget n (ws_nt s)) as [f|] eqn:Ef; [|discriminate].
  inversion H; subst. clear H. destruct (py_take_hd _ _ _ _ Et) as (rest & Ep).
  unfold StealProofs.st_after. split; [intros m; reflexivity|]. split.
  - intros m b Hb. cbn [ws_n2p ws_set_n2p ws_set_pending]. rewrite ShutdownOnce.aget_aset.
    destruct (Nat.eqb m n) eqn:E.
    + apply Nat.eqb_eq in E. subst m. rewrite Ec in Hb. inversion Hb; subst. eexists. split; [reflexivity|].
      apply incl_appl, incl_refl.
    + exists b. split; [exact Hb|apply incl_refl].
  - right. exists x, rest. split; [exact Ep|]. exists n, (x :: tr), (cur ++ x :: tr).
    split; [reflexivity|]. split.
    { cbn [ws_n2p ws_set_n2p ws_set_pending]. rewrite ShutdownOnce.aget_aset, Nat.eqb_refl, Et. reflexivity. }
    split; [apply in_or_app; right; left; reflexivity|].
    unfold chan_closed. rewrite Ef. destruct (n_closed f); [right; reflexivity|left; left; reflexivity].
Qed.

Lemma frw_distribute idle : forall s s' o, ws_distribute idle s = (s', o, Ok tt) -> FRw s s' o.
Proof.
  induction idle as [|n rest IH]; intros s s' o H.
  - cbn in H. inversion H; subst. apply FR_refl.
  - rewrite StealProofs.distribute_cons in H.
    destruct (ws_send_tests n _ s) as [[s1 o1] [[]|e]] eqn:E1; [|discriminate].
    destruct (ws_distribute rest s1) as [[s2 o2] r2] eqn:E2. inversion H; subst.
    eapply FR_trans; [eapply frw_send_tests; exact E1|apply IH; exact E2].
Qed.

Lemma frw_node_shutdown n s s' o : node_shutdown ws_nt ws_set_nt n s = (s', o, Ok tt) -> FRw s s' o.
Proof.
  rewrite StealProofs.node_shutdown_eq. destruct (aget n (ws_nt s)) as [f|] eqn:Ef; [|discriminate].
  destruct (n_down f || n_sdsent f); intros H; inversion H; subst; [apply FR_refl|].
  split; [|split; [|left; reflexivity]].
  - intros m. cbn [ws_nt ws_set_nt]. unfold StealProofs.sd_flags. apply chan_closed_aset_sd. exact Ef.
  - intros m b Hb. exists b. split; [exact Hb|apply incl_refl].
Qed.

Lemma frw_shut_loop l s s' o : StealProofs.shut_loop l s = (s', o, Ok tt) -> FRw s s' o.
Proof.
  unfold StealProofs.shut_loop. revert s s' o. apply LoadProofs.mfor_ok_inv.
  - intros s. apply FR_refl.
  - intros s s1 s2 o1 o2. apply FR_trans.
  - intros x s s' o _ H. eapply frw_node_shutdown. exact H.
Qed.

Lemma frw_phase2 up s s' o : StealProofs.ws_phase2 up s = (s', o, Ok tt) -> FRw s s' o.
Proof.
  intros H. apply StealProofs.phase2_inv in H.
  destruct H as [(-> & -> & _)|[(_ & _ & v & k & vp & f & _ & _ & _ & _ & -> & _ & _)|[(_ & _ & H)|(_ & _ & F & _)]]].
  - apply FR_refl.
  - apply FR_same; reflexivity.
  - eapply frw_shut_loop. exact H.
  - discriminate.
Qed.

Lemma frw_check_schedule s s' o : ws_check_schedule s = (s', o, Ok tt) -> FRw s s' o.
Proof.
  rewrite StealProofs.check_schedule_eq.
  destruct (ws_coll s); [|intros H; inversion H; subst; apply FR_refl].
  destruct (ws_idle s (ws_up s)) as [|i0 il]; [intros H; inversion H; subst; apply FR_refl|].
  destruct (match ws_pending s with [] => (s, [], Ok tt) | _ :: _ => ws_distribute (i0 :: il) s end)
    as [[s1 o1] r1] eqn:E1.
  destruct r1 as [[]|e]; [|discriminate].
  destruct (StealProofs.ws_phase2 (ws_up s) s1) as [[s2 o2] r2] eqn:E2. intros H; inversion H; subst.
  eapply FR_trans; [|eapply frw_phase2; exact E2].
  destruct (ws_pending s); [inversion E1; subst; apply FR_refl|eapply frw_distribute; exact E1].
Qed.

Lemma ws_check_schedule_coll s s' o r : ws_check_schedule s = (s', o, r) -> ws_coll s' = ws_coll s.
Proof.
  intros H. apply StealProofs.check_inv in H.
  destruct H as [(-> & _)|(s1 & o1 & o2 & _ & D & P & _)]; [reflexivity|].
  destruct D as (_ & _ & _ & _ & _ & D6 & _).
  assert (P2 : ws_coll s' = ws_coll s1).
  { apply StealProofs.phase2_inv in P.
    destruct P as [(-> & _)|[(_ & _ & v & k & vp & f & _ & _ & _ & _ & -> & _)|[(_ & _ & P)|(-> & _)]]]; try reflexivity.
    apply StealProofs.shut_loop_frame in P. destruct P as ((_ & _ & P & _) & _). exact P. }
  congruence.
Qed.

Theorem ws_requeue_front item s s' o :
  ws_mark_test_pending item s = (s', o, Ok tt) ->
  exists coll idx, ws_coll s = Some coll /\ ws_coll s' = Some coll /\ index_of_str item coll = Some idx /\
    (forall m, chan_closed (ws_nt s') m = chan_closed (ws_nt s) m) /\
    (hd_error (ws_pending s') = Some idx \/ taken idx (ws_nt s) (ws_n2p s') o).
Proof.
  unfold ws_mark_test_pending, mbind, get, of_opt, put, ret, raise.
  destruct (ws_coll s) as [coll|] eqn:Ec; [|discriminate].
  destruct (index_of_str item coll) as [idx|] eqn:Ei; [|discriminate].
  cbn [app].
  destruct (ws_check_schedule (ws_set_pending s (idx :: ws_pending s))) as [[s2 o2] r2] eqn:E.
  intros H. inversion H; subst. clear H.
  pose proof (ws_check_schedule_coll _ _ _ _ E) as Kc.
  destruct (frw_check_schedule _ _ _ E) as (A & _ & C).
  exists coll, idx. split; [reflexivity|]. split; [rewrite Kc; exact Ec|]. split; [exact Ei|].
  split; [exact A|].
  destruct C as [E2|(x & rest & Ep & T)].
  - left. rewrite E2. reflexivity.
  - right. cbn [ws_pending ws_set_pending] in Ep. inversion Ep; subst. exact T.
Qed.


(* ---------------- channels keep their state in the scheduler code ---------------- *)
Definition clR {S} (nt_of : S -> ntable) (s s' : S) (o : list out) : Prop :=
  forall m, chan_closed (nt_of s') m = chan_closed (nt_of s) m.
Lemma clR_refl {S} (nt_of : S -> ntable) : rrefl (clR nt_of).
Proof. intros s m. reflexivity. Qed.
Lemma clR_trans {S} (nt_of : S -> ntable) : rtrans (clR nt_of).
Proof. intros a b c o1 o2 A B m. rewrite B. apply A. Qed.
#[local] Hint Resolve clR_refl clR_trans : sdrel.

Lemma cl_node_send {S} (nt_of : S -> ntable) n c : spec (clR nt_of) (node_send nt_of n c).
Proof.
  intros s0 s' o r H. destruct (node_send_out _ _ _ _ _ _ _ H) as (-> & _). intros m. reflexivity.
Qed.

Lemma cl_node_shutdown {S} (nt_of : S -> ntable) set_nt n :
  (forall s v, nt_of (set_nt s v) = v) -> spec (clR nt_of) (node_shutdown nt_of set_nt n).
Proof.
  intros nt_set s0 s' o r. unfold node_shutdown, node_send, node_flags, mbind, get, of_opt.
  destruct (aget n (nt_of s0)) as [f|] eqn:Ef; cbn [ret raise]; [|intros H; inversion H; intros m; reflexivity].
  unfold ret. destruct (n_down f || n_sdsent f); [intros H; inversion H; intros m; reflexivity|].
  rewrite Ef.
  destruct (n_closed f) eqn:Ecl; unfold emit, put; intros H m; inversion H; rewrite nt_set;
    (eapply chan_closed_aset_keep; [exact Ef|cbn; symmetry; exact Ecl]).
Qed.

Ltac cl1 :=
  first
    [ apply ShutdownOnce.f_ret; rr | apply ShutdownOnce.f_raise; rr | apply f_massert; rr | apply ShutdownOnce.f_of_opt; rr
    | apply f_getv; rr
    | apply ShutdownOnce.f_put; unfold clR; intros ?; reflexivity
    | apply ShutdownOnce.f_emit; unfold clR; intros ?; reflexivity
    | apply ShutdownOnce.f_mfor; [rr | rr | intros ? ?]
    | apply cl_node_send
    | apply cl_node_shutdown; intros; reflexivity
    | apply f_flags; rr
    | match goal with
      | |- ShutdownOnce.from _ _ (mbind get _) => apply ShutdownOnce.f_get
      | |- ShutdownOnce.from _ _ (mbind (ret _) _) => apply f_ret_bind
      | |- ShutdownOnce.from _ _ (mbind (of_opt _ _) _) => apply f_of_opt_bind; [rr | intros ? ?]
      | |- ShutdownOnce.from _ _ (mbind (massert _) _) => apply f_massert_bind; [rr | intros ?]
      | |- ShutdownOnce.from _ _ (mbind (node_flags _ _) _) => apply f_flags_bind; [rr | intros ? ?]
      | |- ShutdownOnce.from _ _ (mbind (node_shutting_down _ _) _) => apply f_nsd_bind; [rr | intros ? ?]
      | |- ShutdownOnce.from _ _ (mbind _ _) => apply ShutdownOnce.f_bind; [rr | | intros ? ?]
      end
    | progress cbv zeta
    | match goal with
      | |- ShutdownOnce.from _ _ (match ?x with _ => _ end) => destruct x eqn:?
      | |- ShutdownOnce.from _ _ (let '(_, _) := ?x in _) => destruct x eqn:?
      end
    | solve [eauto with cldb] ].
Ltac cl := repeat cl1.
Create HintDb cldb.

Lemma cl_l_send_tests n num s0 : ShutdownOnce.from (clR l_nt) s0 (l_send_tests n num).
Proof. unfold l_send_tests. cl. Qed.
#[local] Hint Resolve cl_l_send_tests : cldb.
Lemma cl_l_check_schedule n d s0 : ShutdownOnce.from (clR l_nt) s0 (l_check_schedule n d).
Proof. unfold l_check_schedule. cl. Qed.
#[local] Hint Resolve cl_l_check_schedule : cldb.
Lemma cl_l_remove n s0 : ShutdownOnce.from (clR l_nt) s0 (l_remove_node n).
Proof. unfold l_remove_node. cl. Qed.

Lemma cl_ws_send_tests n num s0 : ShutdownOnce.from (clR ws_nt) s0 (ws_send_tests n num).
Proof. unfold ws_send_tests. cl. Qed.
#[local] Hint Resolve cl_ws_send_tests : cldb.
Lemma cl_ws_distribute idle s0 : ShutdownOnce.from (clR ws_nt) s0 (ws_distribute idle).
Proof.
  revert s0. induction idle as [|n r IH]; intros s0; cbn [ws_distribute]; [cl|].
  apply ShutdownOnce.f_get. cbv zeta. apply ShutdownOnce.f_bind; [rr|apply cl_ws_send_tests|intros _ s1; apply IH].
Qed.
#[local] Hint Resolve cl_ws_distribute : cldb.
Lemma cl_ws_check s0 : ShutdownOnce.from (clR ws_nt) s0 ws_check_schedule.
Proof. unfold ws_check_schedule. cl. Qed.
#[local] Hint Resolve cl_ws_check : cldb.
Lemma cl_ws_remove n s0 : ShutdownOnce.from (clR ws_nt) s0 (ws_remove_node n).
Proof. unfold ws_remove_node. cl. Qed.

(* ====================================================================================== *)
(* F2: the scheduler interface and the controller                                          *)
(* ====================================================================================== *)
Definition s_pool (st : sstate) : list nat :=
  match st with StL s => l_pending s | StW s => ws_pending s | _ => [] end.
Definition s_books (st : sstate) : amap (list nat) :=
  match st with StL s => l_n2p s | StW s => ws_n2p s | _ => [] end.
Definition s_coll (st : sstate) : option (list string) :=
  match st with StL s => l_coll s | StW s => ws_coll s | _ => None end.
(* schedulers that implement mark_test_pending *)
Definition requeues (st : sstate) : bool := match st with StL _ | StW _ => true | _ => false end.

(* the post-condition: idx is the index of item; it heads the pool or was handed out *)
Definition front_post (item : string) (nt0 : ntable) (st' : sstate) (o : list out) : Prop :=
  exists coll idx, s_coll st' = Some coll /\ index_of_str item coll = Some idx /\
    (hd_error (s_pool st') = Some idx \/ taken idx nt0 (s_books st') o).

Lemma s_pending_front st item st' o x :
  s_step st (SPending item) = (st', o, Ok x) ->
  requeues st' = true /\ front_post item (s_nt st) st' o /\
  (forall m, chan_closed (s_nt st') m = chan_closed (s_nt st) m).
Proof.
  destruct st as [s|s|s|s]; cbn [s_step]; try discriminate; unfold lift.
  - destruct (l_mark_test_pending item s) as [[s1 o1] [[]|e]] eqn:E; [|discriminate].
    intros H; inversion H; subst. destruct (l_requeue_front _ _ _ _ E) as (coll & idx & _ & C1 & I & A & T).
    split; [reflexivity|]. split; [|exact A]. exists coll, idx. auto.
  - destruct (ws_mark_test_pending item s) as [[s1 o1] [[]|e]] eqn:E; [|discriminate].
    intros H; inversion H; subst. destruct (ws_requeue_front _ _ _ _ E) as (coll & idx & _ & C1 & I & A & T).
    split; [reflexivity|]. split; [|exact A]. exists coll, idx. auto.
Qed.

Lemma s_remove_closed st n st' o r :
  requeues st = true -> s_step st (SRemove n) = (st', o, r) ->
  requeues st' = true /\ forall m, chan_closed (s_nt st') m = chan_closed (s_nt st) m.
Proof.
  destruct st as [s|s|s|s]; cbn [s_step requeues]; try discriminate; intros _; unfold lift.
  - destruct (l_remove_node n s) as [[s1 o1] r1] eqn:E. intros H; inversion H; subst.
    split; [reflexivity|]. exact (cl_l_remove n s _ _ _ E).
  - destruct (ws_remove_node n s) as [[s1 o1] r1] eqn:E. intros H; inversion H; subst.
    split; [reflexivity|]. exact (cl_ws_remove n s _ _ _ E).
Qed.

(* ---- what the rest of the iteration leaves alone: pool, books, collection; and it emits no
        crash report ---- *)
Definition core (st : sstate) := (s_pool st, s_books st, s_coll st).
Lemma core_set_nt st v : core (s_set_nt st v) = core st.
Proof. destruct st; reflexivity. Qed.

Definition TK (d d' : dstate) (o : list out) : Prop :=
  core (d_sched d') = core (d_sched d) /\ Forall (fun x => is_crashreport x = false) o.
Lemma TK_refl : rrefl TK.
Proof. intros d. split; [reflexivity|constructor]. Qed.
Lemma TK_trans : rtrans TK.
Proof. intros a b c o1 o2 (A1 & A2) (B1 & B2). split; [congruence|apply Forall_app; auto]. Qed.
#[local] Hint Resolve TK_refl TK_trans : sdrel.

Lemma tk_node_shutdown n d0 : ShutdownOnce.from TK d0 (d_node_shutdown n).
Proof.
  intros d' o r H. split.
  - destruct (node_shutdown_frame _ _ _ _ _ _ _ H) as [->|(v & ->)]; [reflexivity|].
    unfold d_set_nt. cbn [d_sched d_set_sched]. apply core_set_nt.
  - destruct (node_shutdown_out _ _ _ _ _ _ _ H) as (_ & [->| ->]); repeat constructor.
Qed.

Ltac tk_rel := split; [cbn; rewrite ?core_set_nt; reflexivity|repeat constructor].
Ltac tk1 :=
  first
    [ apply ShutdownOnce.f_ret; rr | apply ShutdownOnce.f_raise; rr | apply f_massert; rr | apply ShutdownOnce.f_of_opt; rr
    | apply f_getv; rr
    | apply ShutdownOnce.f_put; tk_rel
    | apply ShutdownOnce.f_emit; tk_rel
    | apply ShutdownOnce.f_mfor; [rr | rr | intros ? ?]
    | apply tk_node_shutdown
    | match goal with
      | |- ShutdownOnce.from _ _ (mbind get _) => apply ShutdownOnce.f_get
      | |- ShutdownOnce.from _ _ (mbind (ret _) _) => apply f_ret_bind
      | |- ShutdownOnce.from _ _ (mbind (of_opt _ _) _) => apply f_of_opt_bind; [rr | intros ? ?]
      | |- ShutdownOnce.from _ _ (mbind (massert _) _) => apply f_massert_bind; [rr | intros ?]
      | |- ShutdownOnce.from _ _ (mbind _ _) => apply ShutdownOnce.f_bind; [rr | | intros ? ?]
      end
    | progress cbv zeta
    | match goal with
      | |- ShutdownOnce.from _ _ (match ?x with _ => _ end) => destruct x eqn:?
      | |- ShutdownOnce.from _ _ (let '(_, _) := ?x in _) => destruct x eqn:?
      end
    | solve [eauto with tkdb] ].
Ltac tk := repeat tk1.
Create HintDb tkdb.

Lemma tk_triggershutdown d0 : ShutdownOnce.from TK d0 d_triggershutdown.
Proof. unfold d_triggershutdown. tk. Qed.
#[local] Hint Resolve tk_triggershutdown : tkdb.
Lemma tk_active_remove n d0 : ShutdownOnce.from TK d0 (d_active_remove n).
Proof. unfold d_active_remove. tk. Qed.
#[local] Hint Resolve tk_active_remove : tkdb.
Lemma tk_new id sp d0 : ShutdownOnce.from TK d0 (d_sched_op (SNew id sp)).
Proof.
  intros d' o r H. unfold d_sched_op in H. cbn [s_step] in H. inversion H; subst.
  split; [cbn [d_sched d_set_sched]; apply core_set_nt|constructor].
Qed.
#[local] Hint Resolve tk_new : tkdb.
Lemma tk_clone n d0 : ShutdownOnce.from TK d0 (d_clone_node n).
Proof. unfold d_clone_node, hook. tk. Qed.
#[local] Hint Resolve tk_clone : tkdb.
Lemma tk_loop_rest d0 : ShutdownOnce.from TK d0 loop_rest.
Proof. unfold loop_rest. tk. Qed.
Lemma tk_no_active d0 : ShutdownOnce.from TK d0 d_no_active.
Proof. unfold d_no_active. tk. Qed.

(* the part of worker_errordown after the try block *)
Definition errordown_tail (n : nat) : D unit :=
  d <- get ;;
  let failed := (d_failed_nodes d + 1)%Z in
  put (d_set_failed_nodes d failed) ;;;
  (match d_max_restart d with
   | Some m =>
       if (m <? failed)%Z then hook (HSummary (m =? 0)%Z) ;;; d_triggershutdown
       else (d2 <- get ;; put (d_set_shuttingdown d2 false)) ;;; d_clone_node n
   | None => (d2 <- get ;; put (d_set_shuttingdown d2 false)) ;;; d_clone_node n
   end) ;;;
  d_active_remove n.
Lemma tk_errordown_tail n d0 : ShutdownOnce.from TK d0 (errordown_tail n).
Proof. unfold errordown_tail, hook. tk. Qed.

Lemma errordown_unfold2 n :
  d_worker_errordown n = (hook (HNodeDown n true) ;;; try_block n ;;; errordown_tail n).
Proof. reflexivity. Qed.

Lemma front_post_core item nt0 st st' o o' :
  front_post item nt0 st o -> core st' = core st -> incl o o' -> front_post item nt0 st' o'.
Proof.
  intros (coll & idx & C & I & T) E Hi. unfold core in E. inversion E as [[E1 E2 E3]].
  exists coll, idx. rewrite E1, E2, E3. split; [exact C|]. split; [exact I|].
  destruct T as [T|T]; [left; exact T|right; eapply taken_out; eassumption].
Qed.

Lemma no_cr_in o t n : Forall (fun x => is_crashreport x = false) o -> ~ In (OHook (HCrashReport t n)) o.
Proof. intros F Hin. rewrite Forall_forall in F. specialize (F _ Hin). discriminate. Qed.

Lemma count_cr_notin o t n : count is_crashreport o = 0 -> ~ In (OHook (HCrashReport t n)) o.
Proof.
  unfold count. induction o as [|y o IH]; [intros _ []|]. intros Z [E|Hin].
  - subst y. cbn in Z. discriminate.
  - cbn in Z. destruct (is_crashreport y); [discriminate|exact (IH Z Hin)].
Qed.

Lemma not_hook_no_cr o : Forall not_hook o -> Forall (fun x => is_crashreport x = false) o.
Proof. apply Forall_impl. intros x. apply not_hook_not_crashreport. Qed.

(* closed channels as seen from the controller *)
Definition d_closed (d : dstate) (m : nat) : bool := chan_closed (d_nt d) m.

(* handle_crashitem with a plugin that re-queues *)
Lemma crashitem_front item n d d' o r t k :
  d_handle_crashitem item n d = (d', o, r) -> 0 < d_requeue d ->
  In (OHook (HCrashReport t k)) o ->
  t = item /\ k = n /\ requeues (d_sched d') = true /\ front_post item (d_nt d) (d_sched d') o.
Proof.
  unfold d_handle_crashitem, hook, emit, mbind, get, ret, put. intros H Hq Hin.
  destruct (d_requeue d) as [|q] eqn:Eq; [lia|].
  unfold d_sched_op in H. cbn [d_sched d_set_requeue] in H.
  destruct (s_step (d_sched d) (SPending item)) as [[st1 o1] r1] eqn:E2.
  pose proof (s_step_no_hook _ _ _ _ _ E2) as NH. apply not_hook_no_cr in NH.
  destruct r1 as [x|e]; inversion H; subst; clear H.
  - cbn [app] in Hin. destruct Hin as [F|Hin]; [discriminate|].
    apply in_app_or in Hin. destruct Hin as [Hin|Hin].
    + apply in_app_or in Hin. destruct Hin as [Hin|[]]. exfalso. eapply no_cr_in; eassumption.
    + destruct Hin as [Hin|[]]. inversion Hin; subst.
      destruct (s_pending_front _ _ _ _ _ E2) as (K & FP & _).
      split; [reflexivity|]. split; [reflexivity|]. cbn [d_sched d_set_sched]. split; [exact K|].
      eapply front_post_core; [exact FP|reflexivity|].
      intros y Hy. cbn [app]. right. apply in_or_app. left. apply in_or_app. left. exact Hy.
  - exfalso. cbn [app] in Hin. destruct Hin as [F|Hin]; [discriminate|]. eapply no_cr_in; eassumption.
Qed.

Lemma try_block_front n d d' o r t k :
  try_block n d = (d', o, r) -> 0 < d_requeue d -> requeues (d_sched d) = true ->
  In (OHook (HCrashReport t k)) o ->
  k = n /\ exists nt1, (forall m, chan_closed nt1 m = d_closed d m) /\ front_post t nt1 (d_sched d') o.
Proof.
  unfold try_block. intros H Hq Hk Hin.
  destruct (d_sched_op (SRemove n) d) as [[d1 o1] r1] eqn:E1.
  pose proof (d_sched_op_frame _ _ _ _ _ E1) as (_ & NH). apply not_hook_no_cr in NH.
  assert (CL : requeues (d_sched d1) = true /\ (forall m, d_closed d1 m = d_closed d m) /\ d_requeue d1 = d_requeue d).
  { unfold d_sched_op in E1. destruct (s_step (d_sched d) (SRemove n)) as [[st1 ox] rx] eqn:E2. inversion E1; subst.
    destruct (s_remove_closed _ _ _ _ _ Hk E2) as (K & C). cbn [d_sched d_set_sched]. split; [exact K|].
    split; [|reflexivity]. intros m. unfold d_closed, d_nt. cbn [d_sched d_set_sched]. apply C. }
  destruct CL as (K1 & C1 & Q1).
  destruct r1 as [[item|]|e].
  - destruct (d_handle_crashitem item n d1) as [[d2 o2] r2] eqn:E2. inversion H; subst. clear H.
    apply in_app_or in Hin. destruct Hin as [Hin|Hin]; [exfalso; eapply no_cr_in; eassumption|].
    rewrite <- Q1 in Hq.
    destruct (crashitem_front _ _ _ _ _ _ _ _ E2 Hq Hin) as (-> & -> & _ & FP).
    split; [reflexivity|]. exists (d_nt d1). split; [exact C1|].
    eapply front_post_core; [exact FP|reflexivity|]. intros y Hy. apply in_or_app. right. exact Hy.
  - inversion H; subst. exfalso. eapply no_cr_in; eassumption.
  - destruct e; inversion H; subst; exfalso; eapply no_cr_in; eassumption.
Qed.

Lemma errordown_front n d d' o r t k :
  d_worker_errordown n d = (d', o, r) -> 0 < d_requeue d -> requeues (d_sched d) = true ->
  In (OHook (HCrashReport t k)) o ->
  k = n /\ exists nt1, (forall m, chan_closed nt1 m = d_closed d m) /\ front_post t nt1 (d_sched d') o.
Proof.
  rewrite errordown_unfold2. intros H Hq Hk Hin.
  apply DSessionProofs.mbind_inv in H. destruct H as [(d0 & o0 & [] & oR & H0 & H & ->)|(e & H0 & _)]; [|inversion H0].
  unfold hook, emit in H0. injection H0 as Ed Eo. subst d0 o0.
  cbn [app] in Hin. destruct Hin as [F|Hin]; [discriminate|].
  apply DSessionProofs.mbind_inv in H. destruct H as [(d1 & o1 & [] & o2 & H1 & H2 & ->)|(e & H1 & ->)].
  - destruct (tk_errordown_tail n d1 _ _ _ H2) as (CE & NC).
    apply in_app_or in Hin. destruct Hin as [Hin|Hin]; [|exfalso; eapply no_cr_in; eassumption].
    destruct (try_block_front _ _ _ _ _ _ _ H1 Hq Hk Hin) as (-> & nt1 & C & FP).
    split; [reflexivity|]. exists nt1. split; [exact C|].
    eapply front_post_core; [exact FP|exact CE|]. intros y Hy. cbn [app]. right. apply in_or_app. left. exact Hy.
  - destruct (try_block_front _ _ _ _ _ _ _ H1 Hq Hk Hin) as (-> & nt1 & C & FP).
    split; [reflexivity|]. exists nt1. split; [exact C|].
    eapply front_post_core; [exact FP|reflexivity|]. intros y Hy. cbn [app]. right. exact Hy.
Qed.

(* d_triggershutdown (run first in the keyboard-interrupt branch) keeps the scheduler kind, the
   channel states and the re-queue budget; with TK: pool, books, collection, and no crash report *)
Definition KP (d d' : dstate) : Prop :=
  requeues (d_sched d') = requeues (d_sched d) /\ (forall m, d_closed d' m = d_closed d m) /\
  d_requeue d' = d_requeue d.

Lemma kp_node_shutdown n d d' o r : d_node_shutdown n d = (d', o, r) -> KP d d'.
Proof.
  intros H. pose proof (cl_node_shutdown d_nt d_set_nt n d_nt_set _ _ _ _ H) as C.
  destruct (node_shutdown_frame _ _ _ _ _ _ _ H) as [->|(v & ->)].
  - split; [reflexivity|]. split; [intros m; reflexivity|reflexivity].
  - split; [|split; [exact C|reflexivity]].
    unfold d_set_nt. cbn [d_sched d_set_sched]. destruct (d_sched d); reflexivity.
Qed.

Lemma kp_mfor_shutdown l : forall d d' o r, mfor l d_node_shutdown d = (d', o, r) -> KP d d'.
Proof.
  induction l as [|x l IH]; intros d d' o r H; cbn [mfor] in H.
  - inversion H; subst. split; [reflexivity|]. split; [intros m; reflexivity|reflexivity].
  - apply DSessionProofs.mbind_inv in H. destruct H as [(d1 & o1 & [] & o2 & H1 & H2 & ->)|(e & H1 & ->)].
    + destruct (kp_node_shutdown _ _ _ _ _ H1) as (A1 & A2 & A3).
      destruct (IH _ _ _ _ H2) as (B1 & B2 & B3).
      split; [congruence|]. split; [intros m; rewrite B2; apply A2|congruence].
    + eapply kp_node_shutdown; eassumption.
Qed.

Lemma kp_triggershutdown d d' o r : d_triggershutdown d = (d', o, r) -> KP d d'.
Proof.
  unfold d_triggershutdown. intros H.
  apply DSessionProofs.mbind_inv in H. destruct H as [(d0 & o0 & dd & oR & H0 & H & ->)|(e & H0 & _)]; [|inversion H0].
  unfold get in H0. inversion H0; subst. clear H0.
  destruct (d_shuttingdown dd).
  - inversion H; subst. split; [reflexivity|]. split; [intros m; reflexivity|reflexivity].
  - apply DSessionProofs.mbind_inv in H. destruct H as [(d1 & o1 & [] & o2 & H1 & H2 & ->)|(e & H1 & _)]; [|inversion H1].
    unfold put in H1. inversion H1; subst. clear H1.
    exact (kp_mfor_shutdown _ _ _ _ _ H2).
Qed.

Lemma handle_front ev d d' o r t k :
  d_handle ev d = (d', o, r) -> 0 < d_requeue d -> requeues (d_sched d) = true ->
  In (OHook (HCrashReport t k)) o ->
  exists nt1, (forall m, chan_closed nt1 m = d_closed d m) /\ front_post t nt1 (d_sched d') o.
Proof.
  intros H Hq Hk Hin. destruct (death_event ev) eqn:Ed.
  - destruct ev as [| | | | | | | | | |n sk|n]; try discriminate.
    + destruct sk; try discriminate. cbn [d_handle] in H. unfold d_worker_workerfinished in H.
      apply DSessionProofs.mbind_inv in H. destruct H as [(d0 & o0 & [] & oR & H0 & H & ->)|(e & H0 & _)]; [|inversion H0].
      unfold hook, emit in H0. injection H0 as E1 E2. subst d0 o0.
      cbn [app] in Hin. destruct Hin as [F|Hin]; [discriminate|].
      apply DSessionProofs.mbind_inv in H. destruct H as [(d1 & o1 & [] & o2 & H1 & H2 & ->)|(e & H1 & _)].
      2:{ unfold mbind, get, put in H1. inversion H1. }
      unfold mbind, get, put in H1. inversion H1; subst. clear H1. cbn [app] in Hin.
      apply DSessionProofs.mbind_inv in H2. destruct H2 as [(d3 & o3 & [] & o4 & H3 & H4 & ->)|(e & H3 & ->)].
      2:{ exfalso. eapply no_cr_in; [exact (proj2 (tk_triggershutdown _ _ _ _ H3))|exact Hin]. }
      destruct (tk_triggershutdown _ _ _ _ H3) as (_ & NC).
      destruct (kp_triggershutdown _ _ _ _ H3) as (K1 & K2 & K3).
      cbn [d_sched d_set_shouldstop d_requeue] in K1, K3.
      apply in_app_or in Hin. destruct Hin as [Hin|Hin]; [exfalso; eapply no_cr_in; eassumption|].
      assert (Hq3 : 0 < d_requeue d3) by (rewrite K3; exact Hq).
      assert (Hk3 : requeues (d_sched d3) = true) by (rewrite K1; exact Hk).
      destruct (errordown_front n d3 _ _ _ _ _ H4 Hq3 Hk3 Hin) as (_ & nt1 & C & FP).
      exists nt1. split; [intros m; rewrite C; apply K2|].
      eapply front_post_core; [exact FP|reflexivity|]. intros y Hy. cbn [app]. right. apply in_or_app. right. exact Hy.
    + cbn [d_handle] in H. destruct (errordown_front _ _ _ _ _ _ _ H Hq Hk Hin) as (_ & X). exact X.
  - exfalso. destruct (quiet_counts _ _ _ _ _ (quiet_handle ev Ed) H) as (_ & _ & Z).
    exact (count_cr_notin _ _ _ Z Hin).
Qed.

Theorem loop_once_requeue_front ev d d' o r t k :
  d_loop_once ev d = (d', o, r) -> 0 < d_requeue d -> requeues (d_sched d) = true ->
  In (OHook (HCrashReport t k)) o ->
  exists nt1, (forall m, chan_closed nt1 m = d_closed d m) /\ front_post t nt1 (d_sched d') o.
Proof.
  rewrite loop_once_unfold. intros H Hq Hk Hin.
  apply DSessionProofs.mbind_inv in H. destruct H as [(d1 & o1 & [] & o2 & H1 & H2 & ->)|(e & H1 & ->)].
  - destruct (tk_loop_rest d1 _ _ _ H2) as (CE & NC).
    apply in_app_or in Hin. destruct Hin as [Hin|Hin]; [|exfalso; eapply no_cr_in; eassumption].
    destruct (handle_front _ _ _ _ _ _ _ H1 Hq Hk Hin) as (nt1 & C & FP).
    exists nt1. split; [exact C|]. eapply front_post_core; [exact FP|exact CE|].
    intros y Hy. apply in_or_app. left. exact Hy.
  - eapply handle_front; eassumption.
Qed.

(* ====================================================================================== *)
(* F3: the system                                                                          *)
(* ====================================================================================== *)
(* the statement, for one step of the system from ANY state *)
Definition requeue_post (s s' : sys) (o : list out) (t : string) : Prop :=
  exists coll idx,
    s_coll (d_sched (y_d s')) = Some coll /\ index_of_str t coll = Some idx /\
    (hd_error (s_pool (d_sched (y_d s'))) = Some idx \/
     exists m tests b, hd_error tests = Some idx /\ aget m (s_books (d_sched (y_d s'))) = Some b /\ In idx b /\
       (In (OSend m (CRun tests)) o \/ d_closed (y_d s) m = true)).

Lemma front_post_requeue s s' o t nt1 :
  (forall m, chan_closed nt1 m = d_closed (y_d s) m) ->
  front_post t nt1 (d_sched (y_d s')) o -> requeue_post s s' o t.
Proof.
  intros C (coll & idx & E1 & E2 & T). exists coll, idx. split; [exact E1|]. split; [exact E2|].
  destruct T as [T|(m & tests & b & T1 & T2 & T3 & T4)]; [left; exact T|right].
  exists m, tests, b. repeat split; auto. destruct T4 as [T4|T4]; [left; exact T4|right; rewrite <- C; exact T4].
Qed.

Theorem sys_step_requeue_front c s l s' o w t n :
  sys_step c s l = Some (s', o, w) ->
  In (OHook (HCrashReport t n)) o -> 0 < d_requeue (y_d s) -> requeues (d_sched (y_d s)) = true ->
  requeue_post s s' o t.
Proof.
  unfold sys_step. destruct (y_result s); [discriminate|].
  destruct l as [n0|n0|n0|n0| |n0].
  - destruct (mem_nat n0 (y_dead s)); [discriminate|].
    destruct (aget n0 (y_down s)) as [[|cmd rest]|]; try discriminate.
    destruct (aget n0 (y_w s)); [|discriminate]. intros H; inversion H; subst. intros [].
  - destruct (mem_nat n0 (y_dead s)); [discriminate|].
    destruct (aget n0 (y_w s)) as [w0|]; [|discriminate].
    destruct (negb (wcb w0)); [discriminate|].
    destruct (recv_step (c_oracle c n0) w0) as [w1 evs]. intros H; inversion H; subst. intros [].
  - destruct (mem_nat n0 (y_dead s)); [discriminate|].
    destruct (aget n0 (y_w s)) as [w0|]; [|discriminate].
    destruct (dies_now c n0 w0); [intros H; inversion H; subst; intros []|].
    destruct (main_step (c_oracle c n0) w0) as [[w1 evs]|]; [|discriminate]. intros H; inversion H; subst. intros [].
  - destruct (aget n0 (y_up s)) as [[|m rest]|]; try discriminate. cbn [y_d].
    destruct (process_from_remote n0 m (y_d s)) as [[d' outs] r] eqn:E.
    assert (NC : ~ In (OHook (HCrashReport t n)) outs).
    { intros Hin. destruct (quiet_counts _ _ _ _ _ (quiet_process_from_remote n0 m) E) as (_ & _ & Z).
      exact (count_cr_notin _ _ _ Z Hin). }
    destruct r; intros H; inversion H; subst; intros Hin; destruct (NC Hin).
  - destruct (d_active (y_d s)) as [|a act] eqn:Ea.
    + destruct (d_no_active (y_d s)) as [[d' outs] r] eqn:E. intros H; inversion H; subst. intros Hin.
      exfalso. eapply no_cr_in; [exact (proj2 (tk_no_active _ _ _ _ E))|exact Hin].
    + destruct (y_evq s) as [|ev q]; [discriminate|].
      destruct (d_loop_once ev (y_d s)) as [[d' outs] r] eqn:E.
      assert (MAIN : forall s1 o2, y_d s1 = d' -> In (OHook (HCrashReport t n)) outs -> 0 < d_requeue (y_d s) ->
                requeues (d_sched (y_d s)) = true -> requeue_post s s1 (outs ++ o2) t).
      { intros s1 o2 E1 Hin Hq Hk. destruct (loop_once_requeue_front _ _ _ _ _ _ _ E Hq Hk Hin) as (nt1 & C & FP).
        eapply front_post_requeue; [exact C|]. rewrite E1. eapply front_post_core; [exact FP|reflexivity|].
        intros y Hy. apply in_or_app. left. exact Hy. }
      destruct r as [u|e].
      * destruct (d_session_finished d').
        { intros H; inversion H; subst. intros Hin Hq Hk. rewrite <- (app_nil_r o). apply MAIN; auto.
          cbn [set_result y_d]. rewrite y_d_apply_outs. reflexivity. }
        destruct (d_active d') as [|a' act'] eqn:Ea'.
        { destruct (d_no_active d') as [[d2 outs2] r2] eqn:E2. intros H; inversion H; subst. intros Hin Hq Hk.
          destruct (tk_no_active _ _ _ _ E2) as (CE & NC).
          apply in_app_or in Hin. destruct Hin as [Hin|Hin]; [|exfalso; eapply no_cr_in; eassumption].
          destruct (loop_once_requeue_front _ _ _ _ _ _ _ E Hq Hk Hin) as (nt1 & C & FP).
          eapply front_post_requeue; [exact C|]. cbn [set_result y_d]. rewrite y_d_apply_outs. cbn [set_d y_d].
          eapply front_post_core; [exact FP|exact CE|]. intros y Hy. apply in_or_app. left. exact Hy. }
        intros H; inversion H; subst. intros Hin Hq Hk. rewrite <- (app_nil_r o). apply MAIN; auto.
        rewrite y_d_apply_outs. reflexivity.
      * intros H; inversion H; subst. intros Hin Hq Hk. rewrite <- (app_nil_r o). apply MAIN; auto.
        cbn [set_result y_d]. rewrite y_d_apply_outs. reflexivity.
  - destruct (mem_nat n0 (y_dead s)); [discriminate|].
    destruct (aget n0 (y_w s)) as [w0|]; [|discriminate].
    destruct (wph w0); try discriminate; intros H; inversion H; subst; intros [].
Qed.

Print Assumptions l_requeue_front.
Print Assumptions ws_requeue_front.
Print Assumptions loop_once_requeue_front.
Print Assumptions sys_step_requeue_front.

(* ====================================================================================== *)
(* F4: reachable states — the scheduler class never changes                                *)
(* ====================================================================================== *)
Definition skind (st : sstate) : nat :=
  match st with StL _ => 0 | StW _ => 1 | StC _ => 2 | StE _ => 3 end.
Lemma skind_set_nt st v : skind (s_set_nt st v) = skind st.
Proof. destruct st; reflexivity. Qed.

Lemma lift_kind {S A B} (wrap : S -> sstate) (f : A -> B) (x : S * list out * result A) st' o r k :
  (forall s, skind (wrap s) = k) -> lift wrap f x = (st', o, r) -> skind st' = k.
Proof. intros Hw. unfold lift. destruct x as [[s1 o1] r1]. intros H; inversion H; subst. apply Hw. Qed.

Lemma s_step_kind st op st' o r : s_step st op = (st', o, r) -> skind st' = skind st.
Proof.
  destruct op; cbn [s_step]; intros H;
    try (destruct st; first [eapply lift_kind; [|exact H]; intros; reflexivity | inversion H; subst; reflexivity]).
  all: try (inversion H; subst; apply skind_set_nt).
  all: destruct (aget n (s_nt st)); inversion H; subst; [apply skind_set_nt|reflexivity].
Qed.

Definition KD (d d' : dstate) (o : list out) : Prop := skind (d_sched d') = skind (d_sched d).
Lemma KD_refl : rrefl KD. Proof. intros d. reflexivity. Qed.
Lemma KD_trans : rtrans KD. Proof. intros a b c o1 o2 A B. unfold KD in *. congruence. Qed.
#[local] Hint Resolve KD_refl KD_trans : sdrel.

Lemma kd_sched_op op d0 : ShutdownOnce.from KD d0 (d_sched_op op).
Proof.
  intros d' o r H. unfold d_sched_op in H. destruct (s_step (d_sched d0) op) as [[st o1] r1] eqn:E.
  inversion H; subst. unfold KD. cbn [d_sched d_set_sched]. eapply s_step_kind; exact E.
Qed.
Lemma kd_node_shutdown n d0 : ShutdownOnce.from KD d0 (d_node_shutdown n).
Proof.
  intros d' o r H. destruct (node_shutdown_frame _ _ _ _ _ _ _ H) as [->|(v & ->)]; [reflexivity|].
  unfold KD, d_set_nt. cbn [d_sched d_set_sched]. apply skind_set_nt.
Qed.

Ltac kd_rel := unfold KD; cbn; rewrite ?skind_set_nt; reflexivity.
Create HintDb kddb.
#[local] Hint Resolve kd_sched_op kd_node_shutdown : kddb.
Ltac kd1 :=
  first
    [ apply ShutdownOnce.f_ret; rr | apply ShutdownOnce.f_raise; rr | apply f_massert; rr | apply ShutdownOnce.f_of_opt; rr
    | apply f_getv; rr
    | apply ShutdownOnce.f_put; kd_rel
    | apply ShutdownOnce.f_emit; kd_rel
    | apply ShutdownOnce.f_mfor; [rr | rr | intros ? ?]
    | match goal with
      | |- ShutdownOnce.from _ _ (mbind get _) => apply ShutdownOnce.f_get
      | |- ShutdownOnce.from _ _ (mbind (ret _) _) => apply f_ret_bind
      | |- ShutdownOnce.from _ _ (mbind (of_opt _ _) _) => apply f_of_opt_bind; [rr | intros ? ?]
      | |- ShutdownOnce.from _ _ (mbind (massert _) _) => apply f_massert_bind; [rr | intros ?]
      | |- ShutdownOnce.from _ _ (mbind _ _) => apply ShutdownOnce.f_bind; [rr | | intros ? ?]
      end
    | progress cbv zeta
    | match goal with
      | |- ShutdownOnce.from _ _ (match ?x with _ => _ end) => destruct x eqn:?
      | |- ShutdownOnce.from _ _ (let '(_, _) := ?x in _) => destruct x eqn:?
      end
    | solve [eauto with kddb] ].
Ltac kd := repeat kd1.

Lemma kd_triggershutdown d0 : ShutdownOnce.from KD d0 d_triggershutdown.
Proof. unfold d_triggershutdown. kd. Qed.
#[local] Hint Resolve kd_triggershutdown : kddb.
Lemma kd_active_remove n d0 : ShutdownOnce.from KD d0 (d_active_remove n).
Proof. unfold d_active_remove. kd. Qed.
#[local] Hint Resolve kd_active_remove : kddb.
Lemma kd_handlefailures f d0 : ShutdownOnce.from KD d0 (d_handlefailures f).
Proof. unfold d_handlefailures. kd. Qed.
#[local] Hint Resolve kd_handlefailures : kddb.
Lemma kd_handle_crashitem item n d0 : ShutdownOnce.from KD d0 (d_handle_crashitem item n).
Proof. unfold d_handle_crashitem, hook. kd. Qed.
#[local] Hint Resolve kd_handle_crashitem : kddb.
Lemma kd_clone n d0 : ShutdownOnce.from KD d0 (d_clone_node n).
Proof. unfold d_clone_node, hook. kd. Qed.
#[local] Hint Resolve kd_clone : kddb.
Lemma kd_try_block n d0 : ShutdownOnce.from KD d0 (try_block n).
Proof.
  intros d' o r H. unfold try_block in H.
  destruct (d_sched_op (SRemove n) d0) as [[d1 o1] r1] eqn:E1.
  pose proof (kd_sched_op _ d0 _ _ _ E1) as R1.
  destruct r1 as [[item|]|e].
  - destruct (d_handle_crashitem item n d1) as [[d2 o2] r2] eqn:E2. inversion H; subst.
    eapply KD_trans; [exact R1|exact (kd_handle_crashitem _ _ _ _ _ _ E2)].
  - inversion H; subst. exact R1.
  - destruct e; inversion H; subst; exact R1.
Qed.
#[local] Hint Resolve kd_try_block : kddb.
Lemma kd_errordown n d0 : ShutdownOnce.from KD d0 (d_worker_errordown n).
Proof. rewrite errordown_unfold. unfold hook. kd. Qed.
#[local] Hint Resolve kd_errordown : kddb.
Lemma kd_handle ev d0 : ShutdownOnce.from KD d0 (d_handle ev).
Proof.
  destruct ev as [n|n ids|n key fl|n i|n i|n i k oc|n i ms|n ixs| |n|n sk|n]; cbn [d_handle]; unfold hook; try (kd; fail).
  unfold d_worker_workerfinished, hook. destruct sk; kd.
Qed.
#[local] Hint Resolve kd_handle : kddb.
Lemma kd_loop_once ev d0 : ShutdownOnce.from KD d0 (d_loop_once ev).
Proof. unfold d_loop_once. kd. Qed.
Lemma kd_no_active d0 : ShutdownOnce.from KD d0 d_no_active.
Proof. unfold d_no_active. kd. Qed.
Lemma kd_process_from_remote n m d0 : ShutdownOnce.from KD d0 (process_from_remote n m).
Proof.
  unfold process_from_remote. apply ShutdownOnce.f_get. apply f_of_opt_bind; [rr|]. intros f Hf. cbv zeta.
  destruct m as [e|ids|sk|i ms|[|]| | |]; try destruct e; kd.
Qed.

Lemma cmove_KD k d d' o : cmove k d d' o -> KD d d' o.
Proof.
  intros [ev d0 d1 o1 r H|d0 d1 o1 r H|n m d0 d1 o1 r H|n f d0 Hf].
  - exact (kd_loop_once ev d0 _ _ _ H).
  - exact (kd_no_active d0 _ _ _ H).
  - exact (kd_process_from_remote n m d0 _ _ _ H).
  - unfold KD, d_set_nt. cbn [d_sched d_set_sched]. apply skind_set_nt.
Qed.

(* the class of the scheduler is the one chosen by the configuration, in every reachable state *)
Theorem sys_sched_kind c ls s outs wevs :
  sys_exec c (sys_init c) ls = (s, outs, wevs) ->
  skind (d_sched (y_d s)) = match c_mode c with MLoad => 0 | MSteal => 1 | MScope _ => 2 | MEach => 3 end.
Proof.
  intros H. rewrite (sys_exec_lift KD KD_refl KD_trans cmove_KD _ _ _ _ _ _ H).
  cbn [sys_init y_d d_sched]. rewrite skind_set_nt. destruct (c_mode c); reflexivity.
Qed.

(* ---- C15 at system level: every reachable step of a load / worksteal session ---- *)
Theorem sys_requeue_front c ls s o0 w0 l s' o w t n :
  c_mode c = MLoad \/ c_mode c = MSteal ->
  sys_exec c (sys_init c) ls = (s, o0, w0) ->
  sys_step c s l = Some (s', o, w) ->
  In (OHook (HCrashReport t n)) o -> 0 < d_requeue (y_d s) ->
  requeue_post s s' o t.
Proof.
  intros Hm H Hs Hin Hq. eapply sys_step_requeue_front; try eassumption.
  pose proof (sys_sched_kind _ _ _ _ _ H) as K.
  destruct (d_sched (y_d s)); try reflexivity; destruct Hm as [Hm|Hm]; rewrite Hm in K; discriminate.
Qed.

Print Assumptions sys_sched_kind.
Print Assumptions sys_requeue_front.

(* ====================================================================================== *)
(* Non-vacuity: the theorem instantiated on concrete sessions                              *)
(* ====================================================================================== *)
(* load, a plugin re-queues one crash item; worker 1 dies entering test 3 ("d"): label 339 of the
   schedule is the controller turn that handles its errordown; the pool is empty before and
   [3; 4] after: the crashed test heads the pool (4 is the rest of the dead worker's book) *)
Example xc_requeue_load :
  let c := xc_cfg MLoad (Some 4%Z) 0%Z 1 xc_crash in
  let '(s, _, _) := sys_exec c (sys_init c) (firstn 339 (rounds 80 xc_round)) in
  exists s' o w, sys_step c s LCtl = Some (s', o, w) /\
    In (OHook (HCrashReport "d" 1)) o /\ requeue_post s s' o "d" /\
    s_pool (d_sched (y_d s)) = [] /\ s_pool (d_sched (y_d s')) = [3; 4].
Proof.
  cbv zeta.
  destruct (sys_exec (xc_cfg MLoad (Some 4%Z) 0%Z 1 xc_crash) (sys_init (xc_cfg MLoad (Some 4%Z) 0%Z 1 xc_crash))
              (firstn 339 (rounds 80 xc_round))) as [[s o0] w0] eqn:E.
  destruct (sys_step (xc_cfg MLoad (Some 4%Z) 0%Z 1 xc_crash) s LCtl) as [[[s' o] w]|] eqn:Es.
  2:{ exfalso. vm_compute in E. inversion E; subst. vm_compute in Es. discriminate. }
  assert (F : In (OHook (HCrashReport "d" 1)) o /\ 0 < d_requeue (y_d s) /\
              s_pool (d_sched (y_d s)) = [] /\ s_pool (d_sched (y_d s')) = [3; 4]).
  { vm_compute in E. inversion E; subst. vm_compute in Es. inversion Es; subst.
    split; [vm_compute; repeat (first [left; reflexivity|right])|]. split; [vm_compute; lia|].
    split; vm_compute; reflexivity. }
  destruct F as (F1 & F2 & F3 & F4). exists s', o, w. split; [reflexivity|]. split; [exact F1|].
  split; [|split; assumption].
  refine (sys_requeue_front _ _ _ _ _ _ _ _ _ _ _ _ E Es F1 F2). left. reflexivity.
Qed.

(* worksteal: the same crash; the pool is [3; 4; 5] after the controller turn (label 169) *)
Example xc_requeue_steal :
  let c := xc_cfg MSteal (Some 4%Z) 0%Z 1 xc_crash in
  let '(s, _, _) := sys_exec c (sys_init c) (firstn 169 (rounds 80 xc_round)) in
  exists s' o w, sys_step c s LCtl = Some (s', o, w) /\
    In (OHook (HCrashReport "d" 1)) o /\ requeue_post s s' o "d" /\
    s_pool (d_sched (y_d s')) = [3; 4; 5].
Proof.
  cbv zeta.
  destruct (sys_exec (xc_cfg MSteal (Some 4%Z) 0%Z 1 xc_crash) (sys_init (xc_cfg MSteal (Some 4%Z) 0%Z 1 xc_crash))
              (firstn 169 (rounds 80 xc_round))) as [[s o0] w0] eqn:E.
  destruct (sys_step (xc_cfg MSteal (Some 4%Z) 0%Z 1 xc_crash) s LCtl) as [[[s' o] w]|] eqn:Es.
  2:{ exfalso. vm_compute in E. inversion E; subst. vm_compute in Es. discriminate. }
  assert (F : In (OHook (HCrashReport "d" 1)) o /\ 0 < d_requeue (y_d s) /\
              s_pool (d_sched (y_d s')) = [3; 4; 5]).
  { vm_compute in E. inversion E; subst. vm_compute in Es. inversion Es; subst.
    split; [vm_compute; repeat (first [left; reflexivity|right])|]. split; [vm_compute; lia|].
    vm_compute; reflexivity. }
  destruct F as (F1 & F2 & F4). exists s', o, w. split; [reflexivity|]. split; [exact F1|].
  split; [|assumption].
  refine (sys_requeue_front _ _ _ _ _ _ _ _ _ _ _ _ E Es F1 F2). right. reflexivity.
Qed.
Print Assumptions xc_requeue_load.
Print Assumptions xc_requeue_steal.
