(* TerminationSteal2.v -- property C02 for --dist worksteal, the termination half, unconditionally:
   a bound on the number of withdrawal ("steal") requests, hence on the length of every run of useful moves.

   TerminationSteal.v proves that every useful move makes the measure muw smaller, except a controller iteration
   that issues a steal request (step_muw), hence length ls <= muw (initial state) + the prices of the requests
   issued along ls (useful_run_bound_ws) -- but no bound on the requests.  This file closes the gap.

   PROVED (mode MSteal, no crash, no undecodable report, no empty test id, at least one worker; stop requests of the
   workers' own sessions (stops_after) are allowed; no assumption on the collections, on --maxfail, on the order of
   moves):
   - run_requests_bound: along every run of useful moves from the initial state at most 8 * T + 1 steal requests are
     issued, T = Tsum c = the sum of the lengths of the workers' collections;
   - run_price_bound: their prices add up to at most PRmax c * (8 * T + 1);
   - c02_ws_terminates_bound / c02_ws_terminates: every run of useful moves is at most
       ws_bound c = muw c (sys_init c) + PRmax c * (8 * Tsum c + 1)
     long: exists B, forall ls, useful_run c (sys_init c) ls -> length ls <= B.
   - step_psi: the potential Psi never goes up and goes down by at least the number of requests issued, with every
     move (of any component, useful or not) from a reachable state.

   The argument.  Psi s h = 2 * (3 * U + F + 2 * h) + [no request outstanding], where, for the controller's books:
     U = number of tests in the pool and in the books (tests not yet reported complete to the controller),
     F = sum over the nodes of (length of the book - 2)  +  (length of the pool - 1)      (both truncated at 0),
     h = a ghost bit: 1 iff a completion of the victim has been handled since the outstanding request was issued.
   - A request is only issued when the marker steal_requested_from_node is clear, and sets it: the last summand
     pays for the request.  The marker is cleared when the reply is handled: that has to be paid for.
   - check_schedule sends tests to idle nodes (< 2 tests) only and then empties the pool (check_Z): it never raises
     F (sum_idle).  A completion lowers U.
   - A reply that is handled while h = 1 is paid for by h (F rises by at most 1 then).
   - A reply that is handled while h = 0 is "good": it is not empty and leaves its node two tests, so F falls by
     one.  This is the invariant cleanL: as long as no completion of the victim has been handled since the request
     was issued, the request names the tail of the victim's (unchanged) book and leaves it two tests, no test
     follows it on the way to the worker (while the marker is set the pool is empty: J2), and once the reply is
     computed it is good OR a completion of the victim is ahead of it on the way to the controller.  The worker
     step that executes the request (clean_recv) uses the ordered book coupling of CouplingSteal.v (nw_ord): the
     book is, in order, completions in flight ++ the at most two tests the main thread holds ++ the queue; a
     requested test that is missing from the queue sits at position >= 2 of the book, so a completion is in flight
     (steal_outcome).
   - Stop requests: CouplingSteal's invariant for a worker whose own session has stopped (NIWS) is too weak (the
     worker side is only a part of the book).  Part 5b: as long as such a worker's main thread has not yet said
     "finished" the exact invariant NIW still holds for its state with the phase replaced by the phase it would be
     in without the stop request (SH, step_sh); once it has said "finished" nothing it sends is heard any more.

   Organisation: 1 the scheduler (check_Z); 2 one iteration of the controller's loop (ZEFF, loop_zw); 3 the
   potential of the books (pot_ctl); 4 the worker (steal_outcome); 5 clean round trips; 5b stopped workers; 6 every
   step of the system (step_psi, step_rng); 7 the theorems; examples. *)
From XV Require Import Base Worker Ctl SchedLoad SchedSteal SchedScope SchedEach Sched DSession System
  NoHook DSessionProofs WorkerProofs StealProofs LoadProofs FifoProofs ExactlyOnce Coupling ExactlyOnceSteal
  CouplingSteal CompletenessSteal Completeness Progress Termination ProgressSteal TerminationSteal.
From XV Require LivenessLaws.
From Coq Require Import Permutation.
Open Scope nat_scope.

(* ====================================================================================== *)
(* Part 1: the scheduler: where check_schedule sends tests, and in which order              *)
(* ====================================================================================== *)

(* a run command to a node that holds fewer than two tests *)
Definition run_to_idle (s : wsstate) (x : out) : Prop :=
  exists n ixs, ws_len s n < 2 /\ x = OSend n (CRun ixs).

(* the effect of one check_schedule call: nothing at all, or: the pool is empty afterwards, the run
   commands come first and go to idle nodes only (none when the pool was empty); what follows
   (a steal request, or shutdown commands) carries no test *)
Definition ZCK (s s' : wsstate) (o : list out) : Prop :=
  (s' = s /\ o = []) \/
  (ws_pending s' = [] /\ exists o1 o2, o = o1 ++ o2 /\ Forall (run_to_idle s) o1 /\
     (ws_pending s = [] -> o1 = []) /\ (forall n, flat_map cmd_inds (cmds_to n o2) = [])).

Lemma cmds_to_nil_forall (Q : out -> Prop) o :
  Forall Q o -> (forall x n, Q x -> flat_map cmd_inds (cmd_to n x) = []) ->
  forall n, flat_map cmd_inds (cmds_to n o) = [].
Proof.
  intros H HQ n. induction H as [|x o Hx _ IH]; [reflexivity|].
  cbn [cmds_to flat_map]. rewrite flat_map_app. fold (cmds_to n o). rewrite (HQ x n Hx), IH. reflexivity.
Qed.

Theorem check_Z s s' o r :
  all_open (ws_nt s) -> ws_check_schedule s = (s', o, r) -> ZCK s s' o.
Proof.
  intros Ho H. pose proof (W10_check_schedule_never_raises _ _ _ _ H) as ->.
  rewrite check_schedule_eq in H.
  destruct (ws_coll s) as [coll|] eqn:Ec; [|inv H; left; auto].
  destruct (ws_idle s (ws_up s)) as [|i0 il] eqn:Ei; [inv H; left; auto|].
  assert (Hidle : forall n, In n (i0 :: il) -> In n (ws_up s) /\ ws_len s n < 2).
  { intros n Hn. rewrite <- Ei in Hn. apply ws_idle_spec in Hn. exact Hn. }
  destruct (match ws_pending s with [] => (s, [], Ok tt) | _ :: _ => ws_distribute (i0 :: il) s end)
    as [[s1 o1] r1] eqn:E1.
  assert (D : r1 = Ok tt /\ ws_pending s1 = [] /\ Forall (run_to_idle s) o1 /\ (ws_pending s = [] -> o1 = [])).
  { destruct (ws_pending s) as [|p0 pl] eqn:Ep.
    - inv E1. split; [reflexivity|]. split; [exact Ep|]. split; [constructor|reflexivity].
    - destruct (distribute_TW (i0 :: il) s s1 o1 r1 Ho) as (A & _ & _ & _ & _ & F); [|exact E1|].
      + intros n Hn. apply up_ready. apply Hidle. exact Hn.
      + split; [exact A|]. split; [apply F; discriminate|]. split; [|discriminate].
        pose proof (distribute_post _ _ _ _ _ E1) as (_ & _ & Q & _).
        eapply Forall_impl; [|exact Q]. cbn beta. intros x (n & ixs & Hn & ->). exists n, ixs.
        split; [apply Hidle; exact Hn|reflexivity]. }
  destruct D as (-> & P1 & Q1 & Z1).
  destruct (ws_phase2 (ws_up s) s1) as [[s2 o2] r2] eqn:E2. injection H as Hs' Ho' Hr2. subst s2 r2 o.
  right. apply phase2_inv in E2.
  destruct E2 as [(-> & -> & _)|[(Hs & _ & v & k & vp & f & _ & _ & _ & _ & -> & _ & ->)
                 |[(Hs & _ & Hl)|(_ & _ & F & _)]]]; [| | |discriminate].
  - split; [exact P1|]. exists o1, []. repeat split; auto.
  - split; [exact P1|]. exists o1, (if n_closed f then [] else [OSend v (CSteal (py_lastn (S k) vp))]).
    repeat split; auto. intros n. destruct (n_closed f); [reflexivity|]. cbn. destruct (Nat.eqb v n); reflexivity.
  - destruct (shut_loop_frame _ _ _ _ _ Hl) as (F & Q).
    split. { destruct F as (_ & F2 & _). rewrite F2. exact P1. }
    exists o1, o2. repeat split; auto.
    apply (cmds_to_nil_forall _ _ Q). intros x n (m & _ & ->). cbn. destruct (Nat.eqb m n); reflexivity.
Qed.

(* ====================================================================================== *)
(* Part 2: one iteration of the controller's loop                                           *)
(* ====================================================================================== *)

(* while a steal request is outstanding the pool is empty *)
Definition J2 (ws : wsstate) : Prop := ws_steal ws <> None -> ws_pending ws = [].
(* the tests sent to node n *)
Definition sentto (n : nat) (o : list out) : list nat := flat_map cmd_inds (cmds_to n o).

Record ZEFF (ev : cevent) (ws ws' : wsstate) (o : list out) : Prop := {
  z_pend : ws_coll ws <> None ->
           ws_pending ws' = [] \/ (ws_pending ws' = ws_pending ws ++ ev_inds ev /\ forall n, sentto n o = []);
  z_idle : forall n, sentto n o <> [] -> length (bookmidw ev n (bkw ws n)) < 2;
  z_none : ws_pending ws = [] -> ev_inds ev = [] -> ws_coll ws <> None -> forall n, sentto n o = [];
  z_ord : forall n, exists a b, cmds_to n o = a ++ b /\ nstc a = 0 /\ flat_map cmd_inds b = [];
  z_j2 : J2 ws -> J2 ws';
}.

Lemma run_to_idle_cmds s o1 n :
  Forall (run_to_idle s) o1 ->
  nstc (cmds_to n o1) = 0 /\ (flat_map cmd_inds (cmds_to n o1) <> [] -> ws_len s n < 2).
Proof.
  induction 1 as [|x o Hx _ (IH1 & IH2)]; [split; [reflexivity|intros F; exfalso; apply F; reflexivity]|].
  destruct Hx as (m & ixs & Hm & ->). cbn [cmds_to flat_map cmd_to]. fold (cmds_to n o).
  destruct (Nat.eqb m n) eqn:E.
  - apply Nat.eqb_eq in E. subst m. split; [cbn; exact IH1|]. intros _. exact Hm.
  - cbn [app]. split; [exact IH1|exact IH2].
Qed.

(* a silent update [mid] of the scheduler followed by check_schedule *)
Lemma ZCK_ZEFF ev ws mid ws1 oc o :
  ZCK mid ws1 oc -> (forall n, cmds_to n o = cmds_to n oc) ->
  (forall m, bkw mid m = bookmidw ev m (bkw ws m)) ->
  (ws_coll ws <> None -> ws_pending mid = ws_pending ws ++ ev_inds ev) -> (J2 ws -> J2 mid) ->
  ZEFF ev ws ws1 o.
Proof.
  intros Z Ho Ebm Epm Hj.
  destruct Z as [(-> & ->)|(P1 & o1 & o2 & -> & Q1 & Z1 & Z2)].
  - assert (S0 : forall n, sentto n o = []) by (intros n; unfold sentto; rewrite Ho; reflexivity).
    constructor.
    + intros Hc. right. split; [apply Epm; exact Hc|exact S0].
    + intros n Hn. exfalso. apply Hn. apply S0.
    + intros _ _ _. exact S0.
    + intros n. exists [], []. rewrite Ho. repeat split.
    + exact Hj.
  - assert (S1 : forall n, sentto n o = flat_map cmd_inds (cmds_to n o1)).
    { intros n. unfold sentto. rewrite Ho, cmds_to_app, flat_map_app, Z2, app_nil_r. reflexivity. }
    constructor.
    + intros _. left. exact P1.
    + intros n Hn. rewrite S1 in Hn. destruct (run_to_idle_cmds mid o1 n Q1) as (_ & X). specialize (X Hn).
      rewrite ws_len_bkw, Ebm in X. exact X.
    + intros Ep Ei Hc n. rewrite S1. rewrite Z1; [reflexivity|]. rewrite (Epm Hc), Ep, Ei. reflexivity.
    + intros n. exists (cmds_to n o1), (cmds_to n o2). rewrite Ho, cmds_to_app.
      split; [reflexivity|]. split; [apply (run_to_idle_cmds mid o1 n Q1)|apply Z2].
    + intros _ _. exact P1.
Qed.

Lemma ZEFF_same ev ws o :
  (forall n, cmds_to n o = []) -> ev_inds ev = [] -> ZEFF ev ws ws o.
Proof.
  intros Ho Ei. assert (S0 : forall n, sentto n o = []) by (intros n; unfold sentto; rewrite Ho; reflexivity).
  constructor.
  - intros _. right. rewrite Ei, app_nil_r. auto.
  - intros n Hn. exfalso. apply Hn. apply S0.
  - intros _ _ _. exact S0.
  - intros n. exists [], []. rewrite Ho. repeat split.
  - auto.
Qed.

Lemma ZEFF_quiet ev ws ws1 o :
  (forall n, sentto n o = []) -> ev_inds ev = [] -> ws_pending ws1 = ws_pending ws -> ws_steal ws1 = ws_steal ws ->
  ZEFF ev ws ws1 o.
Proof.
  intros S0 Ei Ep Es. constructor.
  - intros _. right. rewrite Ei, app_nil_r. auto.
  - intros n Hn. exfalso. apply Hn. apply S0.
  - intros _ _ _. exact S0.
  - intros n. exists [], (cmds_to n o). split; [reflexivity|]. split; [reflexivity|apply S0].
  - unfold J2. rewrite Ep, Es. auto.
Qed.

Lemma ZEFF_nocoll ev ws ws1 o :
  ws_coll ws = None -> (forall n, sentto n o = []) -> ws_steal ws1 = None -> ZEFF ev ws ws1 o.
Proof.
  intros Ec S0 Es. constructor.
  - intros F. contradiction.
  - intros n Hn. exfalso. apply Hn. apply S0.
  - intros _ _ _. exact S0.
  - intros n. exists [], (cmds_to n o). split; [reflexivity|]. split; [reflexivity|apply S0].
  - intros _ F. congruence.
Qed.

(* a step that keeps the book table sends no test *)
Lemma TW_same_books ws ws' o : TW ws ws' o -> ws_n2p ws' = ws_n2p ws -> forall n, sentto n o = [].
Proof.
  intros T E n. pose proof (tw_bk _ _ _ T n) as X. unfold bkw in X. rewrite E in X.
  unfold sentto. destruct (flat_map cmd_inds (cmds_to n o)) as [|a l]; [reflexivity|exfalso].
  apply (f_equal (@length nat)) in X. rewrite app_length in X. cbn in X. lia.
Qed.

Section CtlZW.
Variable N : nat.
Variable collf : nat -> list string.
Notation LJWc := (LJW N collf).
Notation DJW0c := (DJW0 N collf).
Notation DJWc := (DJW N collf).
Notation PREWc := (PREW N collf).

Ltac dprj := cbn [d_sched d_shuttingdown d_shouldstop d_active d_countfailures d_maxfail d_failed_nodes
  d_max_restart d_collect_seen d_next_gw d_requeue d_set_sched d_set_active d_set_shouldstop
  d_set_shuttingdown d_set_countfailures d_set_collect_seen d_withw].

Lemma handle_ready_zw n d ws d1 o1 r :
  DJWc d ws -> WI ws -> PREWc (QReady n) d ws ->
  d_handle (QReady n) d = (d1, o1, r) -> forall ws1, d_sched d1 = StW ws1 -> ZEFF (QReady n) ws ws1 o1.
Proof.
  intros (J0 & Jss) Iw (HnN & Hpre) H ws1 E1. pose proof J0 as [Els J Jb Jq Jg Jf]. pose proof Iw as (Ho & _).
  cbn [d_handle] in H. unfold hook in H. rewrite mbind_emit, mbind_get in H.
  destruct (d_shuttingdown d) eqn:Esd.
  - rewrite (d_node_shutdown_liftw n d ws Els) in H.
    destruct (node_shutdown ws_nt ws_set_nt n ws) as [[ws2 o2] r2] eqn:En. cbn [liftW] in H. inv H.
    cbn in E1. inv E1.
    assert (Hk : aget n (ws_nt ws) <> None) by (apply (wj_ntk _ _ _ J); exact HnN).
    destruct (node_shutdown_TW _ _ _ _ _ Ho Hk En) as (-> & T & F & _).
    destruct F as (F1 & F2 & F3 & F4 & F5 & F6 & F7).
    apply ZEFF_quiet; auto. intros m. exact (TW_same_books _ _ _ T F1 m).
  - destruct (Hpre eq_refl) as (Hnew & Hina).
    assert (Ea : aget n (ws_n2p ws) = None) by (apply LoadProofs.aget_none_keys; exact Hnew).
    unfold mbind at 1 in H. rewrite (sched_op_runw _ d ws Els) in H. cbn [s_step] in H.
    unfold ws_add_node, massert, ahas in H. rewrite mbind_get in H. rewrite Ea in H. cbn [negb] in H.
    rewrite mbind_ret in H. unfold put, lift, no_str, ret in H. inv H.
    cbn in E1. inv E1. apply ZEFF_quiet; auto.
Qed.

Lemma handle_complete_zw n i ms d ws d1 o1 r :
  DJWc d ws -> WI ws -> PREWc (QComplete n i ms) d ws ->
  d_handle (QComplete n i ms) d = (d1, o1, r) ->
  forall ws1, d_sched d1 = StW ws1 -> ZEFF (QComplete n i ms) ws ws1 o1.
Proof.
  intros (J0 & Jss) Iw Hin H ws1 E1. pose proof J0 as [Els J Jb Jq Jg Jf]. pose proof Iw as (Ho & Inn & I3).
  cbn [PREW] in Hin.
  assert (Hcur : exists cur, aget n (ws_n2p ws) = Some cur /\ In i cur).
  { unfold bkw, alist_get in Hin. destruct (aget n (ws_n2p ws)) as [cur|]; [eauto|destruct Hin]. }
  destruct Hcur as (cur & Ecur & Hic). destruct (remove_first_in i cur Hic) as (cur' & Erf).
  cbn [d_handle] in H. unfold mbind at 1 in H. rewrite (sched_op_runw _ d ws Els) in H. cbn [s_step] in H.
  destruct (ws_mark_test_complete n i ws) as [[ws2 o2] r2] eqn:Em. cbn [lift] in H.
  unfold ws_mark_test_complete in Em. rewrite mbind_get in Em. rewrite Ecur in Em. cbn [of_opt] in Em.
  rewrite mbind_ret in Em. rewrite Erf in Em. cbn [of_opt] in Em. rewrite mbind_ret, mbind_put in Em.
  set (mid := ws_set_n2p ws (aset n cur' (ws_n2p ws))) in *.
  assert (Hom : all_open (ws_nt mid)) by exact Ho.
  pose proof (check_Z _ _ _ _ Hom Em) as Z.
  pose proof (W10_check_schedule_never_raises _ _ _ _ Em) as ->.
  unfold no_str, ret in H. inv H. cbn in E1. inv E1.
  apply (ZCK_ZEFF _ ws mid ws1 o2); auto.
  - intros m. rewrite app_nil_r. reflexivity.
  - intros m. unfold bkw, mid. wsproj. cbn [bookmidw]. destruct (Nat.eqb m n) eqn:E.
    + apply Nat.eqb_eq in E. subst m. rewrite FifoProofs.alist_get_aset_eq. unfold alist_get. rewrite Ecur, Erf. reflexivity.
    + apply Nat.eqb_neq in E. apply FifoProofs.alist_get_aset_neq. exact E.
  - intros _. cbn. rewrite app_nil_r. reflexivity.
Qed.

Lemma handle_unsched_zw n ixs d ws d1 o1 r :
  DJWc d ws -> WI ws -> PREWc (QUnscheduled n ixs) d ws ->
  d_handle (QUnscheduled n ixs) d = (d1, o1, r) ->
  forall ws1, d_sched d1 = StW ws1 -> ZEFF (QUnscheduled n ixs) ws ws1 o1.
Proof.
  intros (J0 & Jss) Iw (Hst & rest & Prest) H ws1 E1. pose proof J0 as [Els J Jb Jq Jg Jf].
  pose proof Iw as (Ho & Inn & I3).
  assert (Hnode : In n (ws_nodes ws)) by (apply (wj_st _ _ _ J); exact Hst).
  assert (Hcur : exists cur, aget n (ws_n2p ws) = Some cur).
  { apply LoadProofs.aget_In_keys in Hnode. destruct (aget n (ws_n2p ws)) as [cur|]; [eauto|congruence]. }
  destruct Hcur as (cur & Ecur).
  cbn [d_handle] in H. unfold mbind at 1 in H. rewrite (sched_op_runw _ d ws Els) in H. cbn [s_step] in H.
  rewrite (W6_eq n ixs ws cur Hst Ecur) in H.
  set (mid := rp_mid n ixs ws cur) in *.
  destruct (ws_check_schedule mid) as [[ws2 o2] r2] eqn:Em. cbn [lift] in H.
  assert (Hom : all_open (ws_nt mid)) by exact Ho.
  pose proof (check_Z _ _ _ _ Hom Em) as Z.
  pose proof (W10_check_schedule_never_raises _ _ _ _ Em) as ->.
  unfold no_str, ret in H. inv H. cbn in E1. inv E1.
  apply (ZCK_ZEFF _ ws mid ws1 o2); auto.
  - intros m. rewrite app_nil_r. reflexivity.
  - intros m. unfold bkw, mid, rp_mid. wsproj. cbn [bookmidw]. destruct (Nat.eqb m n) eqn:E.
    + apply Nat.eqb_eq in E. subst m. rewrite FifoProofs.alist_get_aset_eq. unfold alist_get. rewrite Ecur. reflexivity.
    + apply Nat.eqb_neq in E. apply FifoProofs.alist_get_aset_neq. exact E.
  - intros _ F. exfalso. apply F. reflexivity.
Qed.

Lemma handle_finished_zw n sk d ws d1 o1 r :
  DJWc d ws -> WI ws -> PREWc (QFinished n sk) d ws ->
  d_handle (QFinished n sk) d = (d1, o1, r) ->
  forall ws1, d_sched d1 = StW ws1 -> ZEFF (QFinished n sk) ws ws1 o1.
Proof.
  intros (J0 & Jss) Iw Hpre H ws1 E1. pose proof J0 as [Els J Jb Jq Jg Jf]. pose proof Iw as (Ho & (Inn1 & Inn2) & I3).
  cbn [d_handle] in H. unfold d_worker_workerfinished, hook in H. rewrite mbind_emit in H.
  destruct sk; cbn [PREW] in Hpre; [| |contradiction].
  - destruct Hpre as (Hina & Hbook & (f & Ef & Hsdn) & Hstn).
    rewrite mbind_get in H. rewrite Els in H. cbn [s_nodes] in H.
    assert (STEP : exists ws2 o2,
      ((if mem_nat n (ws_nodes ws)
        then r0 <- d_sched_op (SRemove n);; massert match r0 with Some s0 => (s0 =? "")%string | None => true end
        else ret tt) d) = (d_set_sched d (StW ws2), o2, Ok tt) /\
      ZEFF (QFinished n SKNone) ws ws2 o2).
    { destruct (mem_nat n (ws_nodes ws)) eqn:Emem.
      - apply StealProofs.mem_nat_In in Emem. specialize (Hbook Emem).
        set (mid := rn_mid n ws []).
        destruct (ws_check_schedule mid) as [[ws2 o2] r2] eqn:Em.
        assert (Hom : all_open (ws_nt mid)) by exact Ho.
        pose proof (check_Z _ _ _ _ Hom Em) as Z.
        pose proof (W10_check_schedule_never_raises _ _ _ _ Em) as ->.
        exists ws2, o2. split.
        { unfold mbind. rewrite (sched_op_runw _ d ws Els). cbn [s_step]. rewrite (W7_eq_idle n ws Hbook).
          fold mid. rewrite Em. cbn [lift]. unfold massert, ret. rewrite app_nil_r. reflexivity. }
        apply (ZCK_ZEFF _ ws mid ws2 o2); auto.
        + intros m. cbn [bookmidw]. unfold bkw, mid, rn_mid. wsproj. destruct (Nat.eq_dec m n) as [->|Hm].
          * rewrite (alist_get_none [] n _ (aget_adel_eq n _ (wj_wf _ _ _ J))).
            unfold alist_get. rewrite Hbook. reflexivity.
          * unfold alist_get. rewrite aget_adel_neq by exact Hm. reflexivity.
        + unfold J2. assert (Est : ws_steal mid = ws_steal ws) by (apply rn_mid_steal; exact Hstn).
          assert (Ep : ws_pending mid = ws_pending ws) by (unfold mid, rn_mid; wsproj; apply app_nil_r).
          rewrite Est, Ep. auto.
      - exists ws, []. split; [rewrite d_set_sched_same by exact Els; reflexivity|].
        apply ZEFF_same; [intros m; reflexivity|reflexivity]. }
    destruct STEP as (ws2 & o2 & Erun & Z).
    unfold mbind at 1 in H. rewrite Erun in H.
    rewrite (active_remove_run n (d_set_sched d (StW ws2)) Hina) in H. inv H.
    cbn in E1. inv E1. rewrite app_nil_r.
    destruct Z as [Z1 Z2 Z3 Z4 Z5]. constructor; auto.
  - assert (STEP : exists d2, (d0 <- get;; (if d_shouldstop d0 then ret tt else put (d_set_shouldstop d0 true))) d = (d2, [], Ok tt) /\
              d_sched d2 = d_sched d /\ d_shuttingdown d2 = d_shuttingdown d /\ d_active d2 = d_active d /\ d_shouldstop d2 = true).
    { rewrite mbind_get. destruct (d_shouldstop d) eqn:Ess.
      - exists d. auto.
      - eexists. split; [reflexivity|]. auto. }
    destruct STEP as (d2 & Erun & S1 & S2 & S3 & S4).
    unfold mbind at 1 in H. rewrite Erun in H.
    assert (Hina : In n (d_active d2)) by (rewrite S3; exact Hpre).
    rewrite (active_remove_run n d2 Hina) in H. inv H.
    cbn [d_sched d_set_active] in E1. assert (ws1 = ws) by congruence. subst ws1.
    apply ZEFF_same; [intros m; reflexivity|reflexivity].
Qed.

(* the first (and only) call of schedule() *)
Lemma schedule_zw ev ws ws' o r :
  all_open (ws_nt ws) -> ws_coll ws = None -> ws_steal ws = None ->
  ws_collection_is_completed ws = true -> ws_n2c ws <> [] ->
  ws_schedule ws = (ws', o, r) -> forall ws0, (forall m, bkw ws m = bookmidw ev m (bkw ws0 m)) -> ws_coll ws0 = None ->
  ZEFF ev ws0 ws' o.
Proof.
  intros Ho Ec Est Hcomp Hn2c H ws0 Eb0 Ec0. unfold ws_schedule in H.
  rewrite mbind_get in H. rewrite Hcomp in H. unfold massert in H. rewrite mbind_ret in H. rewrite Ec in H.
  unfold mbind at 1 in H. destruct (ws_same_collection ws) as [[t2 p2] r2] eqn:Es.
  apply (same_collection_quietw _ _ _ _ Hn2c) in Es. destruct Es as (-> & C2 & (f0 & c0 & ot0 & En0 & ->)).
  assert (S2 : forall n, sentto n p2 = []) by (intros n; unfold sentto; rewrite C2; reflexivity).
  destruct (forallb (fun p => coll_eqb c0 (snd p)) ot0); cbn [negb] in H.
  2:{ unfold ret in H. inv H. rewrite app_nil_r. apply ZEFF_nocoll; auto. }
  rewrite mbind_get in H. rewrite En0 in H. cbn [of_opt] in H. rewrite mbind_ret, mbind_put in H.
  set (mid := ws_set_pending (ws_set_coll ws (Some c0)) (seq 0 (length c0))) in *.
  destruct c0 as [|x c].
  - unfold ret in H. inv H. rewrite app_nil_r. apply ZEFF_nocoll; auto.
  - destruct (ws_check_schedule mid) as [[ws2 o2] r2] eqn:Ech. inv H.
    assert (Hom : all_open (ws_nt mid)) by exact Ho.
    pose proof (check_Z _ _ _ _ Hom Ech) as Z.
    apply (ZCK_ZEFF _ ws0 mid ws' o2); auto.
    + intros n. rewrite cmds_to_app, C2. reflexivity.
    + intros F. contradiction.
    + intros _ F. exfalso. apply F. exact Est.
Qed.

Lemma handle_collfinish_zw n ids d ws d1 o1 r :
  DJWc d ws -> WI ws -> PREWc (QCollFinish n ids) d ws ->
  d_handle (QCollFinish n ids) d = (d1, o1, r) ->
  forall ws1, d_sched d1 = StW ws1 -> ZEFF (QCollFinish n ids) ws ws1 o1.
Proof.
  intros DJd Iw (HnN & Hnew & Hids) H ws1 E1. pose proof DJd as (J0 & Jss). pose proof J0 as [Els J Jb Jq Jg Jf].
  pose proof Iw as (Ho & _ & I3).
  assert (SAME : forall x, (d, @nil out, x) = (d1, o1, r) -> ZEFF (QCollFinish n ids) ws ws1 o1).
  { intros x E. inv E. assert (ws1 = ws) by congruence. subst ws1. apply ZEFF_same; [intros m; reflexivity|reflexivity]. }
  cbn [d_handle] in H. rewrite mbind_get in H.
  destruct (d_shuttingdown d) eqn:Esd; [eapply SAME; exact H|].
  rewrite Els in H. cbn [s_nodes] in H.
  destruct (mem_nat n (ws_nodes ws)) eqn:Em; cbn [negb] in H; [|eapply SAME; exact H].
  clear SAME. apply StealProofs.mem_nat_In in Em.
  assert (Hp : aget n (ws_n2p ws) <> None) by (apply LoadProofs.aget_In_keys; exact Em).
  assert (Hc : ws_collection_is_completed ws = false) by (eapply completed_pigeonw; eauto).
  assert (Ecoll : ws_coll ws = None).
  { destruct (ws_coll ws) eqn:E; [|reflexivity]. rewrite (wj_cc _ _ _ J) in Hc; [discriminate|]. rewrite E. discriminate. }
  destruct (I3 Ecoll) as (Ep0 & Est0).
  unfold hook in H. rewrite mbind_emit in H. unfold mbind at 1 in H.
  rewrite (sched_op_runw _ d ws Els) in H. cbn [s_step] in H. rewrite (add_coll_runw n ids ws Hp Hc) in H.
  cbn [lift] in H. set (lsa := ws_set_n2c ws (aset n ids (ws_n2c ws))) in *.
  rewrite mbind_get in H. cbn [d_sched d_set_sched s_collection_is_completed app] in H.
  destruct (ws_collection_is_completed lsa) eqn:Eca.
  - unfold mbind at 1 in H. rewrite (sched_op_runw _ (d_set_sched d (StW lsa)) lsa eq_refl) in H. cbn [s_step] in H.
    destruct (ws_schedule lsa) as [[ws2 o2] r2] eqn:Es. cbn [lift] in H.
    assert (Hn2c : ws_n2c lsa <> []).
    { unfold lsa. wsproj. destruct (ws_n2c ws) as [|[k v] rr]; cbn; [discriminate|].
      destruct (Nat.eqb n k); discriminate. }
    assert (Z : ZEFF (QCollFinish n ids) ws ws2 o2).
    { apply (schedule_zw (QCollFinish n ids) lsa ws2 o2 r2 Ho Ecoll Est0 Eca Hn2c Es ws); auto. }
    destruct Z as [Z1 Z2 Z3 Z4 Z5].
    destruct r2 as [a|e]; unfold no_str, ret in H; inv H; cbn in E1; inv E1; rewrite ?app_nil_r; constructor; auto.
  - unfold ret in H. inv H. cbn in E1. inv E1. apply ZEFF_quiet; auto.
Qed.

Theorem handle_zw ev d ws d1 o1 r :
  DJWc d ws -> WI ws -> d_active d <> [] -> PREWc ev d ws ->
  d_handle ev d = (d1, o1, r) ->
  forall ws1, d_sched d1 = StW ws1 -> ZEFF ev ws ws1 o1.
Proof.
  intros DJd Iw Hact Hpre H ws1 E1.
  assert (QUIET : match ev with
                  | QLogStart _ _ | QLogFinish _ _ | QWarning | QReport _ _ _ _ | QCollectReport _ _ _ => True
                  | _ => False end -> ZEFF ev ws ws1 o1).
  { intros Hq. destruct (handle_quiet ev d d1 o1 r Hq H) as (-> & (S1 & _) & C).
    destruct DJd as ([Els _ _ _ _ _] & _). assert (ws1 = ws) by congruence. subst ws1.
    apply ZEFF_same; [exact C|destruct ev; try contradiction; reflexivity]. }
  destruct ev; try (apply QUIET; exact Logic.I); try (cbn in Hpre; contradiction).
  - eapply handle_ready_zw; eauto.
  - eapply handle_collfinish_zw; eauto.
  - eapply handle_complete_zw; eauto.
  - eapply handle_unsched_zw; eauto.
  - eapply handle_finished_zw; eauto.
Qed.

Theorem loop_zw ev d ws d' o r :
  DJWc d ws -> WI ws -> d_active d <> [] -> PREWc ev d ws ->
  d_loop_once ev d = (d', o, r) -> forall ws', d_sched d' = StW ws' -> ZEFF ev ws ws' o.
Proof.
  intros DJd Iw Hact Hpre H ws' E'. rewrite loop_once_unfold in H.
  apply LoadProofs.mbind_inv in H. destruct H as [(e & H1 & ->)|(d1 & o1 & a & o2 & H1 & H2 & ->)].
  { destruct (handle_effw N collf _ _ _ _ _ _ DJd Iw Hact Hpre H1) as (F & _). discriminate. }
  destruct (handle_effw N collf _ _ _ _ _ _ DJd Iw Hact Hpre H1) as (_ & ws1 & E1).
  pose proof (hw_dj _ _ _ _ _ _ _ _ E1) as J1.
  pose proof (handle_zw _ _ _ _ _ _ DJd Iw Hact Hpre H1 ws1 (wd_sched _ _ _ _ J1)) as Z1.
  assert (Ho1 : all_open (ws_nt ws1)).
  { intros m f' Ef'. destruct (NRWo_open _ _ _ _ (hw_nt _ _ _ _ _ _ _ _ E1 m) Ef') as (f & Ef & R).
    destruct (NRW_fields _ _ _ R) as (_ & _ & C & _). rewrite C. destruct Iw as (Ho & _). eapply Ho; eauto. }
  destruct (loop_rest_effw N collf _ _ _ _ _ J1 Ho1 H2) as (-> & ws2 & -> & T & F & Same & Upn & Csd).
  cbn in E'. inv E'.
  pose proof F as (F1 & F2 & F3 & F4 & F5 & F6 & F7).
  assert (S2 : forall n, flat_map cmd_inds (cmds_to n o2) = []).
  { intros n. induction (cmds_to n o2) as [|cm l IH] eqn:E; [reflexivity|].
    pose proof (TW_same_books _ _ _ T F1 n) as X. unfold sentto in X. rewrite E in X. exact X. }
  assert (S12 : forall n, sentto n (o1 ++ o2) = sentto n o1).
  { intros n. unfold sentto. rewrite cmds_to_app, flat_map_app, S2, app_nil_r. reflexivity. }
  destruct Z1 as [Z1 Z2 Z3 Z4 Z5]. constructor.
  - intros Hc. rewrite F2. destruct (Z1 Hc) as [X|(X & Y)]; [left; exact X|right]. split; [exact X|].
    intros n. rewrite S12. apply Y.
  - intros n. rewrite S12. apply Z2.
  - intros A B C n. rewrite S12. apply Z3; assumption.
  - intros n. destruct (Z4 n) as (ca & cb & Eab & Ha & Hb). exists ca, (cb ++ cmds_to n o2).
    rewrite cmds_to_app, Eab, <- app_assoc. split; [reflexivity|]. split; [exact Ha|].
    rewrite flat_map_app, Hb, S2. reflexivity.
  - intros Hj. specialize (Z5 Hj). unfold J2 in *. rewrite F2, F4. exact Z5.
Qed.

End CtlZW.

(* ====================================================================================== *)
(* Part 3: the potential of the controller's books                                          *)
(* ====================================================================================== *)

Lemma length_flat_map_sumf {A B} (f : A -> list B) l : length (flat_map f l) = sumf (fun x => length (f x)) l.
Proof. induction l as [|a l IH]; [reflexivity|]. cbn [flat_map]. rewrite app_length, sumf_cons, IH. reflexivity. Qed.

(* sending to idle nodes only: what the deep part of the books gains is less than what is sent *)
Lemma sum_idle (b s : nat -> nat) l :
  (forall n, In n l -> s n <> 0 -> b n < 2) ->
  sumf (fun n => b n + s n - 2) l <= sumf (fun n => b n - 2) l + (sumf s l - 1).
Proof.
  induction l as [|a l IH]; intros H; [cbn; lia|]. rewrite !sumf_cons.
  assert (IH' : sumf (fun n => b n + s n - 2) l <= sumf (fun n => b n - 2) l + (sumf s l - 1)).
  { apply IH. intros n Hn. apply H. right. exact Hn. }
  destruct (Nat.eq_dec (s a) 0) as [E|E]; [rewrite E; lia|].
  pose proof (H a (or_introl eq_refl) E). lia.
Qed.

Lemma sumf_le_total (f : nat -> nat) l : sumf (fun n => f n - 2) l <= sumf f l.
Proof. apply sumf_le_in. intros. lia. Qed.

Definition compl (ev : cevent) : nat := match ev with QComplete _ _ _ => 1 | _ => 0 end.
Definition isuns (ev : cevent) : nat := match ev with QUnscheduled _ _ => 1 | _ => 0 end.

Section Pot.
Variable c : config.
Notation N := (c_numnodes c).

Definition Tsum : nat := sumf (fun n => length (c_coll c n)) (seq 0 N).
Definition booksum (ws : wsstate) : nat := sumf (fun n => length (bkw ws n)) (seq 0 N).
Definition deepw (ws : wsstate) : nat := sumf (fun n => length (bkw ws n) - 2) (seq 0 N).
Definition Uw (ws : wsstate) : nat :=
  match ws_coll ws with None => Tsum | Some _ => length (ws_pending ws) + booksum ws end.
Definition Fw (ws : wsstate) : nat :=
  match ws_coll ws with None => Tsum | Some _ => deepw ws + (length (ws_pending ws) - 1) end.

(* a good reply: it is not empty and leaves its node two tests *)
Definition goodrep (ws : wsstate) (v : nat) (r : list nat) : Prop := r <> [] /\ length r + 2 <= length (bkw ws v).

Variable collf : nat -> list string.
Notation LJWc := (LJW N collf).
Notation PREWc := (PREW N collf).

Definition bm (ev : cevent) (ws : wsstate) (n : nat) : list nat := bookmidw ev n (bkw ws n).

Lemma bkw_node_lt ws n i : LJWc ws -> In i (bkw ws n) -> n < N.
Proof.
  intros J Hi. apply (wj_nodes _ _ _ J). apply LoadProofs.aget_In_keys. unfold bkw, alist_get in Hi.
  destruct (aget n (ws_n2p ws)); [discriminate|destruct Hi].
Qed.

Lemma withdraw_length (ixs rest book : list nat) :
  NoDup book -> Permutation book (ixs ++ rest) ->
  length (filter (fun i => negb (mem_nat i ixs)) book) + length ixs = length book.
Proof.
  intros ND P. destruct (nodup_perm_disj ixs rest book ND P) as (Hd & _ & _).
  pose proof (filter_withdraw ixs rest book P Hd) as Pf.
  rewrite (Permutation_length Pf), (Permutation_length P), app_length. lia.
Qed.

Lemma filter_len_le {A} (f : A -> bool) l : length (filter f l) <= length l.
Proof. induction l as [|a l IH]; [apply le_n|]. cbn. destruct (f a); cbn; lia. Qed.

Lemma bm_le ev ws n : length (bm ev ws n) <= length (bkw ws n).
Proof.
  unfold bm. destruct ev; cbn [bookmidw]; try lia.
  - destruct (Nat.eqb n n0); [|lia]. destruct (remove_first i (bkw ws n)) as [b'|] eqn:E; [|lia].
    apply remove_first_perm in E. apply Permutation_length in E. cbn in E. lia.
  - destruct (Nat.eqb n n0); [|lia]. apply filter_len_le.
Qed.

(* the books lose what the event takes out of them *)
Lemma bm_sum ev d ws :
  LJWc ws -> PREWc ev d ws ->
  sumf (fun n => length (bm ev ws n)) (seq 0 N) + length (ev_inds ev) + compl ev <= booksum ws.
Proof.
  intros J Hpre. unfold booksum.
  assert (SAME : (forall n, bm ev ws n = bkw ws n) -> ev_inds ev = [] -> compl ev = 0 ->
                 sumf (fun n => length (bm ev ws n)) (seq 0 N) + length (ev_inds ev) + compl ev <=
                 sumf (fun n => length (bkw ws n)) (seq 0 N)).
  { intros E -> ->. cbn. rewrite (sumf_ext_in _ (fun n => length (bkw ws n))); [lia|]. intros n _. rewrite E. reflexivity. }
  destruct ev as [n|n ids|n key fl|n i|n i|n i k oc|n i ms|n ixs| |n|n sk|n]; try (apply SAME; reflexivity).
  - (* complete *)
    cbn [PREW] in Hpre. pose proof (bkw_node_lt ws n i J Hpre) as HnN.
    pose proof (sumf_change_one (fun m => length (bkw ws m)) (fun m => length (bm (QComplete n i ms) ws m))
                  (seq 0 N) n (seq_NoDup N 0)) as X.
    assert (Hin : In n (seq 0 N)) by (apply in_seq; lia).
    specialize (X Hin). cbv beta in X.
    assert (Ho : forall m, In m (seq 0 N) -> m <> n -> length (bm (QComplete n i ms) ws m) = length (bkw ws m)).
    { intros m _ Hm. unfold bm. cbn [bookmidw]. apply Nat.eqb_neq in Hm. rewrite Hm. reflexivity. }
    specialize (X Ho).
    assert (El : length (bm (QComplete n i ms) ws n) + 1 = length (bkw ws n)).
    { unfold bm. cbn [bookmidw]. rewrite Nat.eqb_refl. destruct (remove_first_in i _ Hpre) as (l' & E). rewrite E.
      apply remove_first_perm in E. apply Permutation_length in E. cbn in E. lia. }
    cbn [ev_inds compl length]. lia.
  - (* unscheduled *)
    cbn [PREW] in Hpre. destruct Hpre as (Hst & rest & Prest).
    assert (HnN : n < N) by (apply (wj_nodes _ _ _ J); apply (wj_st _ _ _ J); exact Hst).
    pose proof (sumf_change_one (fun m => length (bkw ws m)) (fun m => length (bm (QUnscheduled n ixs) ws m))
                  (seq 0 N) n (seq_NoDup N 0)) as X.
    assert (Hin : In n (seq 0 N)) by (apply in_seq; lia).
    specialize (X Hin). cbv beta in X.
    assert (Ho : forall m, In m (seq 0 N) -> m <> n -> length (bm (QUnscheduled n ixs) ws m) = length (bkw ws m)).
    { intros m _ Hm. unfold bm. cbn [bookmidw]. apply Nat.eqb_neq in Hm. rewrite Hm. reflexivity. }
    specialize (X Ho).
    assert (El : length (bm (QUnscheduled n ixs) ws n) + length ixs = length (bkw ws n)).
    { unfold bm. cbn [bookmidw]. rewrite Nat.eqb_refl. apply (withdraw_length ixs rest); [|exact Prest].
      apply bkw_nodup. apply J. }
    cbn [ev_inds compl]. lia.
Qed.

(* the potential after the silent part of the handler (before check_schedule) *)
Definition Fmid (ev : cevent) (ws : wsstate) : nat :=
  sumf (fun n => length (bm ev ws n) - 2) (seq 0 N) + (length (ws_pending ws) + length (ev_inds ev) - 1).

Lemma Fmid_le ev d ws :
  LJWc ws -> PREWc ev d ws -> J2 ws -> ws_coll ws <> None ->
  Fmid ev ws <= Fw ws + isuns ev /\
  (forall v r, ev = QUnscheduled v r -> goodrep ws v r -> Fmid ev ws + 1 <= Fw ws).
Proof.
  intros J Hpre Hj Hc. unfold Fmid, Fw, deepw. destruct (ws_coll ws) as [coll|]; [clear Hc|contradiction].
  assert (LE : sumf (fun n => length (bm ev ws n) - 2) (seq 0 N) <= sumf (fun n => length (bkw ws n) - 2) (seq 0 N)).
  { apply sumf_le_in. intros n _. pose proof (bm_le ev ws n). lia. }
  destruct ev as [n|n ids|n key fl|n i|n i|n i k oc|n i ms|n ixs| |n|n sk|n];
    try (cbn [ev_inds isuns length]; split; [lia|intros v r F; discriminate]).
  cbn [PREW] in Hpre. destruct Hpre as (Hst & rest & Prest).
  assert (Ep : ws_pending ws = []) by (apply Hj; congruence).
  assert (HnN : n < N) by (apply (wj_nodes _ _ _ J); apply (wj_st _ _ _ J); exact Hst).
  pose proof (sumf_change_one (fun m => length (bkw ws m) - 2) (fun m => length (bm (QUnscheduled n ixs) ws m) - 2)
                (seq 0 N) n (seq_NoDup N 0)) as X.
  assert (Hin : In n (seq 0 N)) by (apply in_seq; lia).
  specialize (X Hin). cbv beta in X.
  assert (Ho : forall m, In m (seq 0 N) -> m <> n ->
               length (bm (QUnscheduled n ixs) ws m) - 2 = length (bkw ws m) - 2).
  { intros m _ Hm. unfold bm. cbn [bookmidw]. apply Nat.eqb_neq in Hm. rewrite Hm. reflexivity. }
  specialize (X Ho).
  assert (El : length (bm (QUnscheduled n ixs) ws n) + length ixs = length (bkw ws n)).
  { unfold bm. cbn [bookmidw]. rewrite Nat.eqb_refl. apply (withdraw_length ixs rest); [|exact Prest].
    apply bkw_nodup. apply J. }
  rewrite Ep. cbn [ev_inds isuns length]. split; [lia|].
  intros v r E (G1 & G2). inv E. destruct r; [congruence|]. cbn [length] in *. lia.
Qed.

Lemma bookmidw_nil ev n : bookmidw ev n [] = [].
Proof. destruct ev; cbn; try reflexivity; destruct (Nat.eqb n n0); reflexivity. Qed.

Lemma sent_total o :
  Forall good_out_ws o -> (forall k, ~ In k (seq 0 N) -> cmds_to k o = []) ->
  sumf (fun n => length (sentto n o)) (seq 0 N) = length (sent_inds o).
Proof.
  intros Go CK. rewrite <- (Permutation_length (sent_permw (seq 0 N) o (seq_NoDup N 0) CK Go)).
  rewrite length_flat_map_sumf. reflexivity.
Qed.

End Pot.

Section PotCtl.
Variable c : config.
Notation N := (c_numnodes c).
Notation LJWc := (LJW N (c_coll c)).
Notation PREWc := (PREW N (c_coll c)).

Theorem pot_ctl ev d ws d' ws' o :
  LJWc ws -> WI ws -> PREWc ev d ws -> J2 ws ->
  LEFFW N (c_coll c) ev d ws d' ws' o -> WT ws ws' o (ev_inds ev) -> ZEFF ev ws ws' o ->
  Forall good_out_ws o -> (forall k, ~ In k (seq 0 N) -> cmds_to k o = []) ->
  (forall coll, ws_coll ws' = Some coll -> ws_coll ws = Some coll \/ exists k others, ws_n2c ws' = (k, coll) :: others) ->
  Uw c ws' + compl ev <= Uw c ws /\ Fw c ws' <= Fw c ws + isuns ev /\
  (forall v r, ev = QUnscheduled v r -> goodrep ws v r -> Fw c ws' + 1 <= Fw c ws).
Proof.
  intros J Iw Hpre Hj LE (T1 & T2 & T3) Z Go CK LC.
  pose proof (sent_total c o Go CK) as ES.
  assert (Ebk : forall n, length (bkw ws' n) = length (bm ev ws n) + length (sentto n o)).
  { intros n. rewrite (lw_bk _ _ _ _ _ _ _ _ LE n), app_length. reflexivity. }
  assert (Ebs : booksum c ws' = sumf (fun n => length (bm ev ws n)) (seq 0 N) + length (sent_inds o)).
  { unfold booksum. rewrite (sumf_ext_in _ _ _ (fun n _ => Ebk n)), sumf_add, ES. reflexivity. }
  assert (Edp : deepw c ws' = sumf (fun n => length (bm ev ws n) + length (sentto n o) - 2) (seq 0 N)).
  { unfold deepw. apply sumf_ext_in. intros n _. rewrite Ebk. reflexivity. }
  destruct (ws_coll ws) as [coll0|] eqn:Ec.
  - (* the collection is known *)
    assert (Hc : ws_coll ws <> None) by (rewrite Ec; discriminate).
    pose proof (T1 coll0 eq_refl) as Ec'. specialize (T3 coll0 Ec'). unfold vpw in T3. rewrite Ec, Ec' in T3.
    apply Permutation_length in T3. rewrite !app_length in T3.
    pose proof (bm_sum c (c_coll c) ev d ws J Hpre) as BS.
    destruct (Fmid_le c (c_coll c) ev d ws J Hpre Hj Hc) as (FM1 & FM2).
    assert (FF : Fw c ws' <= Fmid c ev ws).
    { unfold Fw, Fmid. rewrite Ec', Edp. destruct (z_pend _ _ _ _ Z Hc) as [Ep|(Ep & Hs)].
      - rewrite Ep. cbn [length].
        pose proof (sum_idle (fun n => length (bm ev ws n)) (fun n => length (sentto n o)) (seq 0 N)) as X.
        cbv beta in X. rewrite ES in X.
        assert (Hi : forall n, In n (seq 0 N) -> length (sentto n o) <> 0 -> length (bm ev ws n) < 2).
        { intros n _ Hn. apply (z_idle _ _ _ _ Z n). intros E. rewrite E in Hn. apply Hn. reflexivity. }
        specialize (X Hi). rewrite Ep in T3. cbn [length] in T3. lia.
      - rewrite Ep, app_length.
        rewrite (sumf_ext_in _ (fun n => length (bm ev ws n) - 2)); [lia|].
        intros n _. rewrite (Hs n). cbn [length]. f_equal. lia. }
    unfold Uw. rewrite Ec, Ec', Ebs. unfold Uw, Fw in *. rewrite Ec in *.
    split; [lia|]. split; [lia|]. intros v r E G. specialize (FM2 v r E G). lia.
  - (* before the initial distribution *)
    destruct Iw as (_ & _ & I3). destruct (I3 Ec) as (Ep0 & Est0).
    assert (B0 : forall n, bkw ws n = []).
    { intros n. destruct (bkw ws n) as [|i l] eqn:E; [reflexivity|exfalso].
      assert (Hi : In i (bkw ws n)) by (rewrite E; left; reflexivity).
      apply in_bkw_books in Hi. rewrite (wj_b0 _ _ _ J Ec) in Hi. destruct Hi. }
    assert (Hcompl : compl ev = 0).
    { destruct ev; try reflexivity. cbn [PREW] in Hpre. rewrite B0 in Hpre. destruct Hpre. }
    assert (Hinds : ev_inds ev = []).
    { destruct ev; try reflexivity. cbn [PREW] in Hpre. destruct Hpre as (F & _). congruence. }
    assert (G0 : forall v r, goodrep ws v r -> False).
    { intros v r (_ & G). rewrite B0 in G. cbn in G. lia. }
    unfold Uw at 2, Fw at 2, Fw at 3. rewrite Ec, Hcompl.
    destruct (ws_coll ws') as [coll|] eqn:Ec'.
    2:{ unfold Uw, Fw. rewrite Ec'. split; [lia|]. split; [lia|]. intros v r _ G. destruct (G0 v r G). }
    destruct (LC coll eq_refl) as [F|(k & others & En2c)]; [congruence|].
    pose proof (lw_dj _ _ _ _ _ _ _ _ LE) as ([_ J' _ _ _ _] & _).
    assert (Hk : In (k, coll) (ws_n2c ws')) by (rewrite En2c; left; reflexivity).
    pose proof (proj1 (wj_lg _ _ _ J') k coll Hk) as Eck.
    assert (HkN : k < N).
    { apply (wj_n2c _ _ _ J'). unfold akeys. change k with (fst (k, coll)). apply in_map. exact Hk. }
    assert (Hle : length coll <= Tsum c).
    { unfold Tsum. rewrite Eck. apply (sumf_in_le (fun n => length (c_coll c n))). apply in_seq. lia. }
    specialize (T3 coll eq_refl). unfold vpw in T3. rewrite Ec, Ec', Hinds in T3.
    apply Permutation_length in T3. rewrite !app_length, seq_length in T3. cbn [length] in T3.
    assert (Eb0 : sumf (fun n => length (bm ev ws n)) (seq 0 N) = 0).
    { rewrite (sumf_ext_in _ (fun _ => 0)).
      - clear. induction (seq 0 N) as [|a l IH]; [reflexivity|]. rewrite sumf_cons, IH. reflexivity.
      - intros n _. unfold bm. rewrite B0, bookmidw_nil. reflexivity. }
    assert (HU : Uw c ws' <= Tsum c) by (unfold Uw; rewrite Ec', Ebs, Eb0; lia).
    assert (HF : Fw c ws' <= Uw c ws').
    { unfold Fw, Uw. rewrite Ec'. pose proof (sumf_le_total (fun n => length (bkw ws' n)) (seq 0 N)) as X.
      unfold deepw, booksum. lia. }
    split; [lia|]. split; [lia|]. intros v r _ G. destruct (G0 v r G).
Qed.

End PotCtl.

(* ====================================================================================== *)
(* Part 4: the worker: when a steal request is refused                                      *)
(* ====================================================================================== *)

(* what recv_next leaves in the inbox is a suffix of the inbox; when it computes a reply it has executed
   the first command that is not an empty run command, a steal request, on the unchanged queue *)
Lemma recv_next_inbox o inbox : forall w,
  Forall good_cmd_ws inbox -> wreply w = None ->
  let w' := recv_next o w inbox in
  (exists pre, inbox = pre ++ winbox w') /\
  (forall r, wreply w' = Some r ->
     exists pre ixs, inbox = pre ++ CSteal ixs :: winbox w' /\ flat_map cmd_inds pre = [] /\
                     r = ents_idx (snd (steal_q (wq w) ixs))).
Proof.
  induction inbox as [|cm rest IH]; intros w G Er; cbv zeta.
  - cbn. split; [exists []; reflexivity|]. intros r E. congruence.
  - inversion G as [|c' r' Gc Gr]; subst. destruct cm as [ixs| |s| |]; try contradiction.
    + destruct ixs as [|i ixs].
      * cbn [recv_next]. destruct (IH w Gr Er) as ((pre & E1) & E2). split.
        -- exists (CRun [] :: pre). cbn. f_equal. exact E1.
        -- intros r E. destruct (E2 r E) as (pre' & ixs' & A & B & C). exists (CRun [] :: pre'), ixs'.
           split; [cbn; f_equal; exact A|]. split; [exact B|exact C].
      * cbn [recv_next upd_recv w_put winbox wreply]. split; [exists [CRun (i :: ixs)]; reflexivity|].
        intros r E. congruence.
    + cbn [recv_next]. unfold w_steal. destruct (steal_q (wq w) s) as [q' st] eqn:Es.
      cbn [upd_recv winbox wreply]. split; [exists [CSteal s]; reflexivity|].
      intros r E. inv E. exists [], s. split; [reflexivity|]. split; [reflexivity|rewrite Es; reflexivity].
    + cbn [recv_next upd_recv w_put winbox wreply]. split; [exists [CShutdown]; reflexivity|]. intros r E. congruence.
    + cbn [recv_next upd_recv w_put winbox wreply]. split; [exists [CEnd]; reflexivity|]. intros r E. congruence.
Qed.

Lemma recv_step_inbox o w :
  Forall good_cmd_ws (winbox w) -> wcb w = true ->
  let w' := fst (recv_step o w) in
  snd (recv_step o w) = reply_ev (wreply w) /\
  (exists pre, winbox w = pre ++ winbox w') /\
  (forall r, wreply w' = Some r ->
     wrpend w = [] /\
     exists pre ixs, winbox w = pre ++ CSteal ixs :: winbox w' /\ flat_map cmd_inds pre = [] /\
                     r = ents_idx (snd (steal_q (wq w) ixs))).
Proof.
  intros G Hcb. cbv zeta. unfold recv_step. rewrite Hcb. cbn [negb]. fold (reply_ev (wreply w)).
  cbn [upd_recv wrpend winbox]. destruct (wrpend w) as [|it rest] eqn:Er; cbn [fst snd].
  - destruct (recv_next_inbox o (winbox w) (upd_recv w (winbox w) [] None) G eq_refl) as (A & B).
    cbn [upd_recv wq] in A, B. split; [reflexivity|]. split; [exact A|]. intros r E. split; [reflexivity|apply B; exact E].
  - split; [reflexivity|]. split; [exists []; reflexivity|]. intros r E. cbn in E. discriminate.
Qed.

(* ---- lists ---- *)
Lemma app_eq_len {A} (a b c d : list A) : a ++ b = c ++ d -> length a <= length c -> exists x, c = a ++ x /\ b = x ++ d.
Proof.
  revert c. induction a as [|h a IH]; intros c E L; [exists c; auto|].
  destruct c as [|h' c]; [cbn in L; lia|]. cbn in E. inv E. cbn in L.
  destruct (IH c H1 ltac:(lia)) as (x & -> & ->). exists x. auto.
Qed.

Lemma dedup_nat_nodup_id l : NoDup l -> forall seen, (forall x, In x l -> ~ In x seen) -> dedup_nat seen l = l.
Proof.
  induction 1 as [|a l Hn ND IH]; intros seen Hs; [reflexivity|]. cbn.
  assert (E : mem_nat a seen = false) by (apply WorkerProofs.mem_nat_false; apply Hs; left; reflexivity).
  rewrite E. f_equal. apply IH. intros x Hx [<-|Hin]; [contradiction|]. apply (Hs x); [right; exact Hx|exact Hin].
Qed.

Lemma ents_idx_filter_in s q : ents_idx (filter (ent_in s) q) = filter (fun i => mem_nat i s) (ents_idx q).
Proof.
  induction q as [|[t it] q IH]; [reflexivity|]. destruct it as [j|].
  - change (filter (ent_in s) ((t, Idx j) :: q))
      with (if mem_nat j s then (t, Idx j) :: filter (ent_in s) q else filter (ent_in s) q).
    change (ents_idx ((t, Idx j) :: q)) with (j :: ents_idx q). cbn [filter].
    destruct (mem_nat j s); [|exact IH].
    change (ents_idx ((t, Idx j) :: filter (ent_in s) q)) with (j :: ents_idx (filter (ent_in s) q)). f_equal. exact IH.
  - exact IH.
Qed.

Lemma filter_none' {A} (f : A -> bool) l : (forall x, In x l -> f x = false) -> filter f l = [].
Proof.
  induction l as [|a l IH]; cbn; intros H; [reflexivity|].
  rewrite (H a (or_introl eq_refl)). apply IH. intros x Hx. apply H. right. exact Hx.
Qed.

Lemma filter_mem_suffix (Q1 ixs : list nat) :
  NoDup (Q1 ++ ixs) -> filter (fun i => mem_nat i ixs) (Q1 ++ ixs) = ixs.
Proof.
  intros ND. rewrite filter_app.
  assert (E1 : filter (fun i => mem_nat i ixs) Q1 = []).
  { apply filter_none'. intros i Hi. apply WorkerProofs.mem_nat_false. intros Hx.
    exact (WorkerProofs.nodup_app_disj _ _ i ND Hi Hx). }
  rewrite E1. cbn. apply filter_all. intros i Hi. apply WorkerProofs.mem_nat_In. exact Hi.
Qed.

(* the outcome of a steal request for the tail [ixs] of a book [pre0 ++ ixs] that leaves the node two tests, when
   the book is, in order, the completions in flight C, the (at most two) tests the main thread holds M and the
   queue: the request is served in full, or a completion is in flight *)
Lemma steal_outcome (C M pre0 ixs : list nat) (q q' st : list qent) :
  NoDup (pre0 ++ ixs) -> pre0 ++ ixs = C ++ M ++ ents_idx q -> length M <= 2 -> 2 <= length pre0 -> ixs <> [] ->
  steal_q q ixs = (q', st) ->
  C <> [] \/ (ents_idx st <> [] /\ length (ents_idx st) + 2 <= length (pre0 ++ ixs)).
Proof.
  intros ND E HM Hp Hi Hs. destruct C as [|c0 C]; [right|left; discriminate]. cbn [app] in E.
  destruct (app_eq_len M (ents_idx q) pre0 ixs (eq_sym E) ltac:(lia)) as (Q1 & Ep & Eq).
  assert (NDq : NoDup (Q1 ++ ixs)).
  { rewrite Ep, <- app_assoc in ND. apply WorkerProofs.nodup_app_r in ND. exact ND. }
  assert (NDi : NoDup ixs) by (apply WorkerProofs.nodup_app_r in NDq; exact NDq).
  assert (Ef : ents_idx (filter (ent_in ixs) q) = ixs).
  { rewrite ents_idx_filter_in, Eq. apply filter_mem_suffix. exact NDq. }
  assert (Ed : dedup_nat [] ixs = ixs) by (apply dedup_nat_nodup_id; [exact NDi|intros x _ []]).
  unfold steal_q in Hs. rewrite Ed, <- (ents_idx_filter_len ixs q), Ef, Nat.eqb_refl in Hs. inv Hs.
  rewrite Ef. split; [exact Hi|]. rewrite app_length. lia.
Qed.

Lemma owed_main_le2 w : length (owed_main w) <= 2.
Proof.
  unfold owed_main. destruct (wph w); cbn; try lia.
  - destruct (snd nxt); cbn; lia.
  - destruct (snd nxt); cbn; lia.
  - destruct (snd (last (wpopped w) (0, Mark))); cbn; lia.
  - destruct (snd (last (wpopped w) (0, Mark))); cbn; lia.
Qed.

(* ====================================================================================== *)
(* Part 5: a clean round trip                                                               *)
(* ====================================================================================== *)

(* a good request: it names the tail of its node's book and leaves the node two tests *)
Definition goodreq (ws : wsstate) (v : nat) (ixs : list nat) : Prop :=
  exists pre, bkw ws v = pre ++ ixs /\ 2 <= length pre /\ ixs <> [].

(* the round trip of the outstanding request for node v is clean: as long as the request is a command on its
   way (inc: inbox ++ wire down) it is good and no test follows it; once the reply is computed (rep), sent or
   queued (L: the signals of v the controller still hears, on its queue and on the wire up), it is good or a
   completion of v will be handled before it.  opn: the main thread of v has not exited (what v sends is heard) *)
Record cleanL (ws : wsstate) (v : nat) (opn : Prop) (inc : list cmd) (rep : option (list nat)) (L : list xsig) : Prop := {
  cl_req : opn -> forall A ixs B, inc = A ++ CSteal ixs :: B -> goodreq ws v ixs /\ flat_map cmd_inds B = [];
  cl_rep : opn -> forall r, rep = Some r -> xcompletes L <> [] \/ goodrep ws v r;
  cl_sig : forall A r B, L = A ++ XUns r :: B -> xcompletes A <> [] \/ goodrep ws v r;
}.

Lemma cleanL_ext ws ws' v opn inc rep L : bkw ws' v = bkw ws v -> cleanL ws v opn inc rep L -> cleanL ws' v opn inc rep L.
Proof.
  intros E [A B C]. unfold goodreq, goodrep in *. constructor; unfold goodreq, goodrep.
  - intros Ho X ixs Y H. rewrite E. eauto.
  - intros Ho r H. rewrite E. eauto.
  - intros X r Y H. rewrite E. eauto.
Qed.

Lemma nuns_zero_xbacks L : nuns L = 0 -> xbacks L = [].
Proof.
  induction L as [|g L IH]; [reflexivity|]. unfold nuns in *. cbn [filter xbacks flat_map].
  destruct g; cbn [is_uns]; try exact IH. cbn. lia.
Qed.

Lemma nuns_mid A r B : 1 <= nuns (A ++ XUns r :: B).
Proof. rewrite nuns_app. unfold nuns. cbn. lia. Qed.

Lemma nstc_mid A ixs B : 1 <= nstc (A ++ CSteal ixs :: B).
Proof. rewrite nstc_app. unfold nstc. cbn. lia. Qed.

Lemma uns_last L r0 A r B : nuns L = 0 -> L ++ [XUns r0] = A ++ XUns r :: B -> A = L /\ r = r0 /\ B = [].
Proof.
  revert A. induction L as [|g L IH]; intros A H0 E.
  - destruct A as [|a A]; cbn in E.
    + injection E as E1 E2. subst. auto.
    + injection E as E1 E2. destruct A; discriminate.
  - assert (H1 : nuns L = 0 /\ is_uns g = false).
    { unfold nuns in *. cbn [filter] in H0. destruct (is_uns g); cbn in H0; [lia|auto]. }
    destruct H1 as (H1 & Hg). destruct A as [|a A]; cbn in E.
    + injection E as E1 E2. subst g. discriminate.
    + injection E as E1 E2. subst a. destruct (IH A H1 E2) as (-> & -> & ->). auto.
Qed.

Lemma split_uns (L X A B : list xsig) r :
  (forall l, ~ In (XUns l) X) -> L ++ X = A ++ XUns r :: B -> exists B0, L = A ++ XUns r :: B0.
Proof.
  intros HX. revert A. induction L as [|g L IH]; intros A E.
  - exfalso. cbn in E. apply (HX r). rewrite E. apply in_or_app. right. left. reflexivity.
  - destruct A as [|a A]; cbn in E.
    + injection E as E1 E2. subst g. exists L. reflexivity.
    + injection E as E1 E2. subst a. destruct (IH A E2) as (B0 & ->). exists B0. reflexivity.
Qed.

(* one step of the victim's receiver thread (the main thread has not exited) *)
Lemma clean_recv o ws act v L dn w (opn : Prop) :
  Forall good_cmd_ws (winbox w) -> wcb w = true -> NIW ws act v L dn w -> opn ->
  cleanL ws v opn (winbox w ++ dn) (wreply w) L ->
  cleanL ws v opn (winbox (fst (recv_step o w)) ++ dn) (wreply (fst (recv_step o w)))
         (L ++ flat_map we_xsig (snd (recv_step o w))).
Proof.
  intros G Hcb X Hopn CL. destruct (recv_step_inbox o w G Hcb) as (Eev & (pre & Epre) & Hrep).
  pose proof (nw_steal _ _ _ _ _ _ X) as St. pose proof (cnt_le1 (ws_steal ws) v) as Hc1.
  set (w' := fst (recv_step o w)) in *. rewrite Eev. constructor.
  - intros _ A ixs B E. apply (cl_req _ _ _ _ _ _ CL Hopn (pre ++ A) ixs B).
    rewrite Epre, <- !app_assoc. f_equal. exact E.
  - intros _ r Er. destruct (Hrep r Er) as (Erp & pre' & ixs & Ein & Hpre & ->).
    pose proof (nstc_mid pre' ixs (winbox w')) as H1. rewrite <- Ein in H1.
    assert (Erep : wreply w = None) by (destruct (wreply w); [cbn in St; lia|reflexivity]).
    assert (Hun : nuns L = 0) by lia.
    rewrite Erep. cbn [reply_ev flat_map]. rewrite app_nil_r.
    destruct (cl_req _ _ _ _ _ _ CL Hopn pre' ixs (winbox w' ++ dn)) as ((pre0 & Eb & Hp & Hi) & HB).
    { rewrite Ein, <- app_assoc. reflexivity. }
    rewrite flat_map_app in HB. apply app_eq_nil in HB. destruct HB as (HB1 & HB2).
    pose proof (nw_ord _ _ _ _ _ _ X) as Od. unfold R in Od. rewrite Erep, (nuns_zero_xbacks L Hun) in Od.
    cbn [reply_inds app] in Od. rewrite filter_notin_nil in Od.
    unfold owed_w in Od. rewrite Erp, Ein, flat_map_app, Hpre in Od. cbn [item_inds flat_map cmd_inds app] in Od.
    rewrite HB1, HB2, !app_nil_r in Od.
    destruct (steal_q (wq w) ixs) as [q' st] eqn:Es. cbn [snd].
    pose proof (nw_nd _ _ _ _ _ _ X) as ND. rewrite Eb in ND, Od.
    destruct (steal_outcome (xcompletes L) (owed_main w) pre0 ixs (wq w) q' st ND Od (owed_main_le2 w) Hp Hi Es) as [Y|(Y1 & Y2)].
    + left. exact Y.
    + right. split; [exact Y1|]. rewrite Eb. exact Y2.
  - intros A r B E. destruct (wreply w) as [r0|] eqn:Erep.
    + cbn [reply_ev flat_map we_xsig app] in E.
      assert (Hun : nuns L = 0) by (cbn in St; lia).
      destruct (uns_last L r0 A r B Hun E) as (-> & -> & _). apply (cl_rep _ _ _ _ _ _ CL Hopn r0). reflexivity.
    + cbn [reply_ev flat_map] in E. rewrite app_nil_r in E. exact (cl_sig _ _ _ _ _ _ CL A r B E).
Qed.

(* one step of the victim's main thread *)
Lemma clean_main o ws v L dn w w' evs (opn opn' : Prop) :
  WX2 w -> main_step o w = Some (w', evs) -> (opn' -> opn) ->
  cleanL ws v opn (winbox w ++ dn) (wreply w) L ->
  cleanL ws v opn' (winbox w' ++ dn) (wreply w') (L ++ flat_map we_xsig evs).
Proof.
  intros X2 H Hoo CL. destruct (main_step_frame _ _ _ _ H) as (_ & Ei & Er & _).
  destruct (main_step_xsigs _ _ _ _ X2 H) as (_ & _ & _ & _ & _ & _ & Hnu).
  rewrite Ei, Er. constructor.
  - intros Ho. exact (cl_req _ _ _ _ _ _ CL (Hoo Ho)).
  - intros Ho r E. destruct (cl_rep _ _ _ _ _ _ CL (Hoo Ho) r E) as [Y|Y]; [left|right; exact Y].
    rewrite xcompletes_app. intros F. apply app_eq_nil in F. tauto.
  - intros A r B E. destruct (split_uns _ _ _ _ _ Hnu E) as (B0 & E0). exact (cl_sig _ _ _ _ _ _ CL A r B0 E0).
Qed.

(* commands without a steal request and without tests are appended *)
Lemma split_steal (X cb A B : list cmd) ixs :
  nstc X = 0 -> X ++ cb = A ++ CSteal ixs :: B -> exists A0, A = X ++ A0 /\ cb = A0 ++ CSteal ixs :: B.
Proof.
  revert A. induction X as [|x X IH]; intros A H0 E; [exists A; auto|].
  assert (H1 : nstc X = 0 /\ is_steal x = false).
  { unfold nstc in *. cbn [filter] in H0. destruct (is_steal x); cbn in H0; [lia|auto]. }
  destruct H1 as (H1 & Hx). destruct A as [|a A]; cbn in E.
  - injection E as E1 E2. subst x. discriminate.
  - injection E as E1 E2. subst a. destruct (IH A H1 E2) as (A0 & -> & ->). exists A0. auto.
Qed.

Lemma split_steal_l (inc new A B : list cmd) ixs :
  nstc new = 0 -> inc ++ new = A ++ CSteal ixs :: B -> exists B0, inc = A ++ CSteal ixs :: B0 /\ B = B0 ++ new.
Proof.
  intros H0. revert A. induction inc as [|x inc IH]; intros A E.
  - exfalso. cbn in E. pose proof (nstc_mid A ixs B) as X. rewrite <- E in X. lia.
  - destruct A as [|a A]; cbn in E.
    + injection E as E1 E2. subst x. exists inc. auto.
    + injection E as E1 E2. subst a. destruct (IH A E2) as (B0 & -> & ->). exists B0. auto.
Qed.

Lemma cleanL_append ws v opn inc new rep L :
  cleanL ws v opn inc rep L -> nstc new = 0 -> flat_map cmd_inds new = [] -> cleanL ws v opn (inc ++ new) rep L.
Proof.
  intros [A B C] H0 Hi. constructor; [|exact B|exact C].
  intros Ho X ixs Y E. destruct (split_steal_l _ _ _ _ _ H0 E) as (B0 & E0 & ->).
  destruct (A Ho X ixs B0 E0) as (G1 & G2). split; [exact G1|]. rewrite flat_map_app, G2, Hi. reflexivity.
Qed.

Lemma cleanL_pop ws v opn inc rep g L :
  cleanL ws v opn inc rep ([g] ++ L) -> xcompletes [g] = [] -> cleanL ws v opn inc rep L.
Proof.
  intros [A B C] Hg. constructor; [exact A| |].
  - intros Ho r E. specialize (B Ho r E). rewrite xcompletes_app, Hg in B. exact B.
  - intros X r Y E. specialize (C (g :: X) r Y). cbn [app] in C. rewrite E in C. specialize (C eq_refl).
    change (g :: X) with ([g] ++ X) in C. rewrite xcompletes_app, Hg in C. exact C.
Qed.

(* a fresh request *)
Lemma cleanL_fresh ws' v opn inc0 new rep L :
  nstc inc0 = 0 -> rep = None -> nuns L = 0 ->
  (exists a b, new = a ++ b /\ nstc a = 0 /\ flat_map cmd_inds b = []) ->
  (forall ixs, In (CSteal ixs) new -> goodreq ws' v ixs) ->
  cleanL ws' v opn (inc0 ++ new) rep L.
Proof.
  intros H0 Hr Hu (a & b & -> & Ha & Hb) Hg. constructor.
  - intros _ A ixs B E. rewrite app_assoc in E.
    assert (H1 : nstc (inc0 ++ a) = 0) by (rewrite nstc_app; lia).
    destruct (split_steal _ _ _ _ _ H1 E) as (A0 & _ & Eb). split.
    + apply Hg. apply in_or_app. right. rewrite Eb. apply in_or_app. right. left. reflexivity.
    + rewrite Eb, flat_map_app in Hb. apply app_eq_nil in Hb. destruct Hb as (_ & Hb). exact Hb.
  - intros _ r E. congruence.
  - intros A r B E. pose proof (nuns_mid A r B) as X. rewrite <- E in X. lia.
Qed.

Lemma in_cmds_to_inv v cm o : In cm (cmds_to v o) -> In (OSend v cm) o.
Proof.
  unfold cmds_to. intros H. apply in_flat_map in H. destruct H as (x & Hx & Hc).
  destruct x as [h|m cm'| |]; cbn in Hc; try contradiction.
  destruct (Nat.eqb m v) eqn:E; [|destruct Hc]. apply Nat.eqb_eq in E. subst m.
  destruct Hc as [<-|[]]. exact Hx.
Qed.

Lemma sumf_zero {A} (l : list A) : sumf (fun _ => 0) l = 0.
Proof. induction l as [|a l IH]; [reflexivity|]. rewrite sumf_cons, IH. reflexivity. Qed.

Lemma sumf_ind_eq (m x : nat) l : NoDup l -> In m l -> sumf (fun k => if Nat.eqb m k then x else 0) l = x.
Proof.
  induction l as [|k l IH]; intros ND Hin; [destruct Hin|]. inversion ND as [|k' l' Hn ND']; subst.
  rewrite sumf_cons. destruct Hin as [->|Hin].
  - rewrite Nat.eqb_refl. rewrite (sumf_ext_in _ (fun _ => 0)); [rewrite sumf_zero; lia|].
    intros k Hk. destruct (Nat.eqb m k) eqn:E; [|reflexivity]. apply Nat.eqb_eq in E. subst k. contradiction.
  - destruct (Nat.eqb m k) eqn:E; [apply Nat.eqb_eq in E; subst k; contradiction|]. rewrite (IH ND' Hin). reflexivity.
Qed.

Lemma sumf_ind_zero (m x : nat) l : ~ In m l -> sumf (fun k => if Nat.eqb m k then x else 0) l = 0.
Proof.
  intros Hn. rewrite (sumf_ext_in _ (fun _ => 0)); [apply sumf_zero|].
  intros k Hk. destruct (Nat.eqb m k) eqn:E; [|reflexivity]. apply Nat.eqb_eq in E. subst k. contradiction.
Qed.

(* the steal requests among the outputs, counted node by node *)
Lemma reqs_sum N o :
  Forall good_out_ws o -> (forall k, ~ In k (seq 0 N) -> cmds_to k o = []) ->
  length (steal_reqs o) = sumf (fun m => nstc (cmds_to m o)) (seq 0 N).
Proof.
  induction o as [|x o IH]; intros Hg Hk.
  - cbn. rewrite sumf_zero. reflexivity.
  - inversion Hg as [|x' r' Gx Gr]; subst.
    assert (Hk' : forall k, ~ In k (seq 0 N) -> cmds_to k o = []).
    { intros k Hn. specialize (Hk k Hn). cbn [cmds_to flat_map] in Hk. apply app_eq_nil in Hk. tauto. }
    specialize (IH Gr Hk').
    assert (E : forall m, nstc (cmds_to m (x :: o)) = nstc (cmd_to m x) + nstc (cmds_to m o)).
    { intros m. cbn [cmds_to flat_map]. apply nstc_app. }
    rewrite (sumf_ext_in _ _ _ (fun m _ => E m)), sumf_add, <- IH. unfold steal_reqs. cbn [flat_map]. rewrite app_length.
    fold (steal_reqs o). f_equal.
    destruct x as [h|m cm| |]; try (cbn; rewrite sumf_zero; reflexivity).
    assert (E2 : forall k, nstc (cmd_to k (OSend m cm)) = if Nat.eqb m k then nstc [cm] else 0).
    { intros k. cbn [cmd_to]. destruct (Nat.eqb m k); reflexivity. }
    rewrite (sumf_ext_in _ _ _ (fun k _ => E2 k)).
    destruct (in_dec Nat.eq_dec m (seq 0 N)) as [Hin|Hni].
    + rewrite (sumf_ind_eq m _ _ (seq_NoDup N 0) Hin). destruct cm; reflexivity.
    + exfalso. specialize (Hk m Hni). cbn [cmds_to flat_map cmd_to] in Hk. rewrite Nat.eqb_refl in Hk. discriminate.
Qed.

Lemma cnt_sum N st : (forall v, st = Some v -> v < N) ->
  sumf (cnt st) (seq 0 N) = match st with Some _ => 1 | None => 0 end.
Proof.
  intros H. destruct st as [v|]; cbn [cnt]; [|apply sumf_zero].
  apply (sumf_ind_eq v 1 _ (seq_NoDup N 0)). apply in_seq. specialize (H v eq_refl). lia.
Qed.

Lemma unsev_sum N ev : (forall n r, ev = QUnscheduled n r -> n < N) -> sumf (unsev ev) (seq 0 N) = isuns ev.
Proof.
  intros H. destruct ev; try (cbn; apply sumf_zero). cbn [unsev isuns].
  apply (sumf_ind_eq n 1 _ (seq_NoDup N 0)). apply in_seq. specialize (H n ixs eq_refl). lia.
Qed.


(* the ghost bit: set when a completion of the victim is handled, cleared when the reply is handled *)
Definition hnext (ev : cevent) (st : option nat) (h : nat) : nat :=
  match ev with
  | QComplete n _ _ => match st with Some v => if Nat.eqb v n then 1 else h | None => h end
  | QUnscheduled _ _ => 0
  | _ => h
  end.

Lemma hnext_le ev st h : hnext ev st h <= h + compl ev.
Proof. destruct ev; cbn; try lia. destruct st as [v|]; [destruct (Nat.eqb v n)|]; lia. Qed.

Lemma ev_cases ev u :
  (exists n r, ev = QUnscheduled n r) \/ (exists i ms, ev = QComplete u i ms) \/
  ((forall n r, ev <> QUnscheduled n r) /\ (forall i ms, ev <> QComplete u i ms)).
Proof.
  destruct ev; try (right; right; split; intros; discriminate).
  - destruct (Nat.eq_dec n u) as [->|Hn]; [right; left; eauto|].
    right. right. split; intros; [discriminate|]. intros E. inv E. apply Hn. reflexivity.
  - left. eauto.
Qed.

Lemma ev_keep ev u b h :
  (forall n r, ev <> QUnscheduled n r) -> (forall i ms, ev <> QComplete u i ms) ->
  ev_inds ev = [] /\ unsev ev u = 0 /\ bookmidw ev u b = b /\ xcompletes (ev_xsigs_for u ev) = [] /\
  hnext ev (Some u) h = h.
Proof.
  intros H1 H2. destruct ev; try (cbn; repeat split; reflexivity).
  - cbn. repeat split; try reflexivity. unfold ev_xsigs_for. cbn. destruct (Nat.eqb n u); reflexivity.
  - cbn. repeat split; try reflexivity. unfold ev_xsigs_for. cbn. destruct (Nat.eqb n u); reflexivity.
  - assert (Hn : n <> u) by (intros ->; exact (H2 i ms eq_refl)).
    cbn [ev_inds unsev bookmidw hnext]. unfold ev_xsigs_for. cbn [ev_xsig].
    assert (E1 : Nat.eqb u n = false) by (apply Nat.eqb_neq; congruence).
    assert (E2 : Nat.eqb n u = false) by (apply Nat.eqb_neq; congruence).
    rewrite E1, E2. repeat split; reflexivity.
  - exfalso. exact (H1 n ixs eq_refl).
  - cbn. repeat split; try reflexivity. unfold ev_xsigs_for. cbn. destruct (Nat.eqb n u); reflexivity.
Qed.


(* ====================================================================================== *)
(* Part 5b: a worker whose own session has stopped but whose main thread has not yet said "finished"  *)
(* ====================================================================================== *)
(* Its receiver thread goes on as before and everything it sends is still heard.  CouplingSteal's invariant
   for such a worker (NIWS) only records that what the worker holds is a part of the book; here: the exact
   invariant NIW still holds for the worker's state with the phase of the main thread replaced (by the phase
   it would be in if its session had not asked to stop). *)

Lemma recv_next_upd_ph o p inbox : forall w, recv_next o (upd_ph w p) inbox = upd_ph (recv_next o w inbox) p.
Proof.
  induction inbox as [|cm rest IH]; intros w; [reflexivity|].
  destruct cm as [ixs| |s| |]; cbn [recv_next].
  - destruct ixs as [|i ixs]; [apply IH|reflexivity].
  - destruct (seq 0 (ncollected o)); [apply IH|reflexivity].
  - unfold w_steal. cbn [upd_ph wq]. destruct (steal_q (wq w) s). reflexivity.
  - reflexivity.
  - reflexivity.
Qed.

Lemma recv_step_upd_ph o w p :
  recv_step o (upd_ph w p) = (upd_ph (fst (recv_step o w)) p, snd (recv_step o w)).
Proof.
  unfold recv_step. cbn [upd_ph wcb wreply wrpend winbox upd_recv].
  destruct (negb (wcb w)); [reflexivity|]. destruct (wrpend w) as [|it rest]; cbn [fst snd].
  - f_equal. apply (recv_next_upd_ph o p (winbox w) (upd_recv w (winbox w) [] None)).
  - reflexivity.
Qed.

Lemma upd_ph_id w : upd_ph w (wph w) = w.
Proof. destruct w; reflexivity. Qed.

Definition nostop (o : oracle) : oracle :=
  {| reports_of := reports_of o; stops_after := fun _ => false; ncollected := ncollected o; coll_reports := coll_reports o |}.

(* the step in which the session stops, replayed without the stop request *)
Lemma main_step_stop_shadow o w w' evs :
  main_step o w = Some (w', evs) -> wph w' = PFinishing true ->
  exists p, p <> PFinishing true /\ main_step (nostop o) w = Some (upd_ph w' p, evs).
Proof.
  intros H Hp. destruct (main_step_enter_stop _ _ _ _ H Hp) as (cur & nxt & Ep & Hs & -> & _).
  unfold main_step in *. rewrite Ep in *. rewrite Hs in H. inv H. cbn [nostop stops_after].
  exists (match snd nxt with Mark => PFinishing false | Idx j => PWaitNext (fst nxt, j) end).
  split; [destruct (snd nxt); discriminate|reflexivity].
Qed.

Section Shadow.
Variable c : config.
Notation N := (c_numnodes c).
Hypothesis Hnc : forall n i, c_crash_in c n i = false.
Hypothesis Hng : no_garbled c.
Hypothesis Hne : forall k, ~ In ""%string (c_coll c k).

Definition SH (s : sys) : Prop :=
  forall ws n w, d_sched (y_d s) = StW ws -> aget n (y_w s) = Some w -> wph w = PFinishing true ->
  exists p, NIW ws (d_active (y_d s)) n (xsigs s n) (alist_get [] n (y_down s)) (upd_ph w p).

(* a node whose main thread has not exited is heard *)
Lemma open_facts P s ws n w :
  CInvG c P s -> d_sched (y_d s) = StW ws -> aget n (y_w s) = Some w -> wph w <> PExited ->
  ndown ws n = false /\ hasfin (flat_map up_xsig (alist_get [] n (y_up s))) = false.
Proof.
  intros [Inv Ek (ws0 & DJd & NIs) Eq Eu Edn Ea Er Epm Efn Edw Ecl Eef Est Epo] Els Ew Hnex.
  destruct DJd as ([Els0 _ _ _ _ _] & _). assert (ws0 = ws) by congruence. subst ws0.
  assert (Hk : prank (wph w) <= 3).
  { destruct (Nat.le_gt_cases (prank (wph w)) 3) as [X|X]; [exact X|]. exfalso. apply Hnex. apply prank_4. lia. }
  assert (Hd : ndown ws n = false).
  { unfold ndown. destruct (aget n (ws_nt ws)) as [f|] eqn:Ef; [|reflexivity]. destruct (n_down f) eqn:Ed; [|reflexivity].
    destruct (Edw ws n f w Els Ef Ed Ew) as (X & _). contradiction. }
  split; [exact Hd|]. apply nofin_hasfin. intros b Hb.
  pose proof (NIs n w Ew) as X. unfold NInvG in X. destruct (P n).
  - assert (Hin : In (XFin b) (hsigs ws s n)).
    { unfold hsigs, hup. rewrite Hd. apply in_or_app. right.
      destruct (hasfin_cutfin _ (proj2 (hasfin_in _) (ex_intro _ b Hb))) as (b' & Hb').
      pose proof (sw_chan _ _ _ _ _ _ _ X) as Ch. exfalso.
      refine (xchan_nofin _ _ Ch Hk b' _). unfold hsigs, hup. rewrite Hd. apply in_or_app. right. exact Hb'. }
    exact (xchan_nofin _ _ (sw_chan _ _ _ _ _ _ _ X) Hk b Hin).
  - refine (xchan_nofin _ _ (nw_chan _ _ _ _ _ _ X) Hk b _). unfold xsigs. apply in_or_app. right. exact Hb.
Qed.

Lemma hsigs_xsigs P s ws n w :
  CInvG c P s -> d_sched (y_d s) = StW ws -> aget n (y_w s) = Some w -> wph w <> PExited ->
  hsigs ws s n = xsigs s n.
Proof. intros CI Els Ew Hn. destruct (open_facts P s ws n w CI Els Ew Hn) as (A & B). apply hsigs_open; assumption. Qed.

(* the exact node invariant of every node whose main thread has not exited, up to the phase *)
Lemma node_facts P s ws n w :
  CInvG c P s -> SH s -> d_sched (y_d s) = StW ws -> aget n (y_w s) = Some w -> wph w <> PExited ->
  exists p, NIW ws (d_active (y_d s)) n (xsigs s n) (alist_get [] n (y_down s)) (upd_ph w p).
Proof.
  intros CI HS Els Ew Hn. pose proof CI as [_ _ (ws0 & DJd & NIs) _ _ _ _ _ _ _ _ _ _ _ _].
  destruct DJd as ([Els0 _ _ _ _ _] & _). assert (ws0 = ws) by congruence. subst ws0.
  pose proof (NIs n w Ew) as X. unfold NInvG in X. destruct (P n).
  - destruct (sw_ph _ _ _ _ _ _ _ X) as [Hp|Hp]; [|contradiction]. exact (HS ws n w Els Ew Hp).
  - exists (wph w). rewrite upd_ph_id. exact X.
Qed.

(* requests in flight, for every node *)
Lemma nuns_cutfin l : nuns (cutfin l) <= nuns l.
Proof.
  induction l as [|g l IH]; [apply le_n|]. cbn [cutfin]. destruct (is_fin_x g) eqn:E.
  - destruct g; try discriminate. unfold nuns. cbn. lia.
  - unfold nuns in *. cbn [filter]. destruct (is_uns g); cbn [length]; lia.
Qed.

Lemma count_le P s ws n w :
  CInvG c P s -> d_sched (y_d s) = StW ws -> aget n (y_w s) = Some w ->
  nstc (alist_get [] n (y_down s)) + nstc (winbox w) + nrep (wreply w) + nuns (hsigs ws s n) <= cnt (ws_steal ws) n.
Proof.
  intros [_ _ (ws0 & DJd & NIs) _ _ _ _ _ _ _ _ _ _ _ _] Els Ew.
  destruct DJd as ([Els0 _ _ _ _ _] & _). assert (ws0 = ws) by congruence. subst ws0.
  pose proof (NIs n w Ew) as X. unfold NInvG in X. destruct (P n).
  - exact (sw_stle _ _ _ _ _ _ _ X).
  - pose proof (nw_steal _ _ _ _ _ _ X) as St.
    assert (Hle : nuns (hsigs ws s n) <= nuns (xsigs s n)).
    { unfold hsigs, xsigs, hup. rewrite !nuns_app. destruct (ndown ws n); [unfold nuns at 2; cbn; lia|].
      pose proof (nuns_cutfin (flat_map up_xsig (alist_get [] n (y_up s)))). lia. }
    lia.
Qed.

Theorem step_sh P s l s' o wv :
  no_crash_label l -> CInvG c P s -> SH s -> sys_step c s l = Some (s', o, wv) -> SH s'.
Proof.
  intros Hl CI HS H.
  pose proof CI as [Inv Ek (ws & DJd & NIs) Eq Eu Edn Ea Er Epm Efn Edw Ecl Eef Est Epo].
  pose proof Inv as [A B (ws0 & Els0 & Iw & T) D E E' F G].
  pose proof DJd as (J0 & Jss). pose proof J0 as [Els J Jb Jq Jg Jf].
  assert (ws0 = ws) by congruence. subst ws0.
  unfold sys_step in H. destruct (y_result s) eqn:Eres; [discriminate|].
  destruct l as [n0|n0|n0|n0| |n0]; [| | | | |contradiction].
  - (* LDeliver *)
    replace (mem_nat n0 (y_dead s)) with false in H by (rewrite A; reflexivity).
    destruct (aget n0 (y_down s)) as [[|cmd rest]|] eqn:Ed; try discriminate.
    destruct (aget n0 (y_w s)) as [w0|] eqn:Ew; try discriminate.
    fin3 H s' o wv. intros ws1 n w Els1 Hw Hp. cbn [y_d y_w] in Els1, Hw. assert (ws1 = ws) by congruence. subst ws1.
    unfold xsigs. cbn [y_d y_down y_evq y_up]. fold (xsigs s n).
    destruct (Nat.eq_dec n n0) as [->|Hn].
    + rewrite FifoProofs.aget_aset_eq in Hw. inv Hw. rewrite FifoProofs.alist_get_aset_eq.
      destruct (HS ws n0 w0 Els Ew Hp) as (p & X). rewrite (alist_get_some [] _ _ _ Ed) in X.
      exists p. exact (NIW_deliver _ _ _ _ _ _ _ X).
    + rewrite FifoProofs.aget_aset_neq in Hw by exact Hn. rewrite FifoProofs.alist_get_aset_neq by exact Hn.
      exact (HS ws n w Els Hw Hp).
  - (* LRecvW *)
    replace (mem_nat n0 (y_dead s)) with false in H by (rewrite A; reflexivity).
    destruct (aget n0 (y_w s)) as [w0|] eqn:Ew; try discriminate.
    destruct (negb (wcb w0)); [discriminate|].
    destruct (recv_step (c_oracle c n0) w0) as [w' evs] eqn:Es. fin3 H s' o wv.
    destruct (G _ _ Ew) as (Iw0 & Gw & _).
    intros ws1 n w Els1 Hw Hp. cbn [push_up set_w y_d y_w] in Els1, Hw. assert (ws1 = ws) by congruence. subst ws1.
    unfold xsigs. cbn [push_up set_w y_d y_down y_evq y_up].
    destruct (Nat.eq_dec n n0) as [->|Hn].
    + rewrite FifoProofs.aget_aset_eq in Hw. inv Hw. rewrite FifoProofs.alist_get_aset_eq.
      rewrite flat_map_app, up_xsigs_of_wevents, app_assoc. fold (xsigs s n0).
      pose proof (recv_step_keeps (c_oracle c n0) w0) as (_ & _ & Eph). rewrite Es in Eph. cbn [fst] in Eph.
      rewrite Eph in Hp. destruct (HS ws n0 w0 Els Ew Hp) as (p & X).
      destruct (NIW_recv (c_oracle c n0) _ _ _ _ _ (upd_ph w0 p) Gw X) as (Y & _).
      rewrite recv_step_upd_ph, Es in Y. cbn [fst snd] in Y. exists p. exact Y.
    + rewrite FifoProofs.aget_aset_neq in Hw by exact Hn. rewrite FifoProofs.alist_get_aset_neq by exact Hn.
      exact (HS ws n w Els Hw Hp).
  - (* LMain *)
    replace (mem_nat n0 (y_dead s)) with false in H by (rewrite A; reflexivity).
    destruct (aget n0 (y_w s)) as [w0|] eqn:Ew; try discriminate.
    assert (Hd : dies_now c n0 w0 = false) by (unfold dies_now; destruct (wph w0); auto).
    rewrite Hd in H.
    destruct (main_step (c_oracle c n0) w0) as [[w' evs]|] eqn:Es; [|discriminate]. fin3 H s' o wv.
    destruct (G _ _ Ew) as (Iw0 & Gw & _).
    intros ws1 n w Els1 Hw Hp. cbn [push_up set_w y_d y_w] in Els1, Hw. assert (ws1 = ws) by congruence. subst ws1.
    unfold xsigs. cbn [push_up set_w y_d y_down y_evq y_up].
    destruct (Nat.eq_dec n n0) as [->|Hn].
    + rewrite FifoProofs.aget_aset_eq in Hw. inv Hw. rewrite FifoProofs.alist_get_aset_eq.
      rewrite flat_map_app, up_xsigs_of_wevents, app_assoc. fold (xsigs s n0).
      destruct (main_step_stop_shadow _ _ _ _ Es Hp) as (p & Hpn & Es').
      destruct (main_step_enter_stop _ _ _ _ Es Hp) as (cur & nxt & Ep0 & _).
      pose proof (NIs n0 w0 Ew) as X0. unfold NInvG in X0. destruct (P n0).
      { destruct (sw_ph _ _ _ _ _ _ _ X0) as [Y|Y]; rewrite Ep0 in Y; discriminate. }
      destruct (NIW_main (nostop (c_oracle c n0)) _ _ _ _ _ w0 (upd_ph w p) evs Hpn Iw0 X0 Es') as (Y & _).
      exists p. exact Y.
    + rewrite FifoProofs.aget_aset_neq in Hw by exact Hn. rewrite FifoProofs.alist_get_aset_neq by exact Hn.
      exact (HS ws n w Els Hw Hp).
  - (* LRecv *)
    destruct (aget n0 (y_up s)) as [[|m rest]|] eqn:Eup; try discriminate.
    cbn [y_d] in H.
    destruct (process_from_remote n0 m (y_d s)) as [[d' outs] r] eqn:Ep.
    pose proof (E n0) as En. rewrite (alist_get_some [] _ _ _ Eup) in En.
    inversion En as [|m1 r1 Gm Gr]; subst.
    destruct (Eu n0) as (Eu1 & Eu2). rewrite (alist_get_some [] _ _ _ Eup) in Eu1, Eu2.
    inversion Eu1 as [|m2 r2 Gm3 Gr3]; subst.
    assert (HnN : n0 < N).
    { destruct (Nat.lt_ge_cases n0 N) as [X|X]; [exact X|]. specialize (Eu2 X). discriminate. }
    destruct (aget n0 (ws_nt ws)) as [f|] eqn:Ef.
    2:{ exfalso. apply (proj2 (wj_ntk _ _ _ J n0)); [exact HnN|exact Ef]. }
    destruct (pfr_effw c _ _ _ _ _ _ _ _ Els Ef Gm Gm3 HnN Ep)
      as (-> & evs & ws' & -> & Els' & Hdrop & Hheard & Hother & Hok3 & S1 & S2 & S3 & P1 & P2 & P3 & P4 & P5 & P6 & P8 &
          (f' & Ef' & Fsd & Fcl & Fsp & Fdn & Fdn' & Ffin)).
    cbn [apply_outs] in H. unfold close_if_dead in H. cbn [set_evq set_d y_dead] in H.
    replace (mem_nat n0 (y_dead s)) with false in H by (rewrite A; reflexivity).
    fin3 H s' o wv.
    assert (Eups : flat_map up_xsig (alist_get [] n0 (y_up s)) = up_xsig m ++ flat_map up_xsig rest).
    { rewrite (alist_get_some [] _ _ _ Eup). reflexivity. }
    assert (FL : forall k g, aget k (ws_nt ws) = Some g -> exists g', aget k (ws_nt ws') = Some g' /\ n_sdsent g' = n_sdsent g).
    { intros k g Eg. destruct (Nat.eq_dec k n0) as [->|Hk].
      - exists f'. split; [exact Ef'|]. congruence.
      - exists g. rewrite (P8 k Hk). auto. }
    intros ws1 n w Els1 Hw Hp. cbn [set_evq set_d y_d y_w] in Els1, Hw. assert (ws1 = ws') by congruence. subst ws1.
    destruct (HS ws n w Els Hw Hp) as (p & X). exists p.
    cbn [set_evq set_d y_d y_down]. rewrite S3.
    match goal with |- NIW _ _ _ (xsigs ?st n) _ _ => assert (Esg : xsigs st n = xsigs s n) end.
    { unfold xsigs. cbn [set_evq set_d y_evq y_up]. rewrite evq_xsigs_app. destruct (Nat.eq_dec n n0) as [->|Hn].
      - rewrite FifoProofs.alist_get_aset_eq, Eups. destruct (n_down f) eqn:Edf.
        + exfalso. destruct (Edw ws n0 f w Els Ef Edf Hw) as (Y & _). rewrite Hp in Y. discriminate.
        + destruct (Hheard eq_refl) as (Hsig & _). rewrite Hsig, Nat.eqb_refl, <- app_assoc. reflexivity.
      - rewrite (Hother n Hn), app_nil_r, FifoProofs.alist_get_aset_neq by exact Hn. reflexivity. }
    rewrite Esg. apply (NIW_flags_ext ws ws'); [intros g Eg; apply FL; exact Eg|exact P1|exact P2|exact P5|exact X].
  - (* LCtl *)
    specialize (Ea eq_refl).
    destruct (d_active (y_d s)) as [|a0 ar] eqn:Eact; [contradiction|].
    destruct (y_evq s) as [|ev q] eqn:Eevq; [discriminate|].
    inversion D as [|ev1 q1 Gev Gq]; subst. inversion Eq as [|ev2 q2 Gev3 Gq3]; subst.
    destruct (d_loop_once ev (y_d s)) as [[d' outs] r] eqn:El.
    assert (Hpre : PREW N (c_coll c) ev (y_d s) ws).
    { eapply pre_from_invw; eauto. }
    assert (Hact : d_active (y_d s) <> []) by (rewrite Eact; discriminate).
    destruct (loop_once_okw N (c_coll c) ev (y_d s) ws d' outs r DJd Iw Hact Hpre El) as (-> & ws' & LE).
    destruct (okw_loop_once ev (y_d s) Gev _ _ _ El ws Els Iw) as (ws2 & Els2 & _ & HWT & Go).
    assert (Els' : d_sched d' = StW ws').
    { destruct (lw_dj _ _ _ _ _ _ _ _ LE) as ([E1 _ _ _ _ _] & _). exact E1. }
    set (s1 := apply_outs (set_d (set_evq s q) d') outs) in *.
    assert (Hd1 : y_dead (set_d (set_evq s q) d') = []) by (cbn; exact A).
    destruct (apply_outs_effw outs _ Hd1 Go) as (A1 & A2 & A3 & A4 & A5 & A6 & A7).
    cbn [set_d set_evq y_d y_evq y_up y_w y_dead y_result y_down] in A1, A2, A3, A4, A5, A6, A7.
    fold s1 in A1, A2, A3, A4, A5, A6, A7.
    assert (S' : exists rr, s' = set_result s1 rr).
    { destruct (d_session_finished d') eqn:Efin.
      - fin3 H s' o wv. eexists. reflexivity.
      - destruct (d_active d') as [|b0 br] eqn:Eact'.
        + exfalso. pose proof (lw_fin _ _ _ _ _ _ _ _ LE) as Hf. rewrite Eact' in Hf. specialize (Hf eq_refl).
          unfold d_session_finished in Efin. rewrite Hf, Eact' in Efin. discriminate.
        + fin3 H s' o wv. exists (y_result s1). symmetry. apply set_result_same. reflexivity. }
    destruct S' as (rr & ->).
    pose proof (lw_dj _ _ _ _ _ _ _ _ LE) as ([_ J' _ _ _ _] & _).
    intros ws1 n w Els1 Hw Hp. cbn [set_result y_d y_w] in Els1, Hw. rewrite A1 in Els1. rewrite A4 in Hw.
    assert (ws1 = ws') by congruence. subst ws1.
    destruct (HS ws n w Els Hw Hp) as (p & X). exists p.
    rewrite (xsigs_head s ev q n Eevq) in X.
    pose proof (NIW_ctl N (c_coll c) ev (y_d s) ws d' ws' outs n _ _ _ LE
                  (bkw_nodup ws n (wj_nd _ _ _ J)) (bkw_nodup ws' n (wj_nd _ _ _ J')) X) as Y.
    unfold xsigs. cbn [set_result y_d y_down y_evq y_up]. rewrite A1, A2, A3, A7. exact Y.
Qed.

End Shadow.

(* ====================================================================================== *)
(* Part 6: every step of the system                                                         *)
(* ====================================================================================== *)
Lemma cleanL_notopen ws v (opn opn' : Prop) inc rep inc' rep' L :
  ~ opn' -> cleanL ws v opn inc rep L -> cleanL ws v opn' inc' rep' L.
Proof. intros Hn [A B C]. constructor; [intros F; contradiction|intros F; contradiction|exact C]. Qed.

Lemma phase_exit_dec (p : phase) : p = PExited \/ p <> PExited.
Proof. destruct p; try (right; discriminate). left. reflexivity. Qed.

Section StepPsi.
Variable c : config.
Notation N := (c_numnodes c).
Hypothesis Hnc : forall n i, c_crash_in c n i = false.
Hypothesis Hng : no_garbled c.
Hypothesis Hne : forall k, ~ In ""%string (c_coll c k).

(* the commands on their way to worker n *)
Definition incoming (s : sys) (n : nat) (w : wst) : list cmd := winbox w ++ alist_get [] n (y_down s).

Definition cleanS (s : sys) (ws : wsstate) : Prop :=
  forall v w, ws_steal ws = Some v -> aget v (y_w s) = Some w ->
  cleanL ws v (wph w <> PExited) (incoming s v w) (wreply w) (hsigs ws s v).

(* h = 0: the round trip of the outstanding request (if any) is clean *)
Definition TI (s : sys) (h : nat) : Prop :=
  exists ws, d_sched (y_d s) = StW ws /\ J2 ws /\ (h = 0 -> cleanS s ws).

Definition psiw (ws : wsstate) (h : nat) : nat :=
  2 * (3 * Uw c ws + Fw c ws + 2 * h) + match ws_steal ws with None => 1 | Some _ => 0 end.
Definition Psi (s : sys) (h : nat) : nat :=
  match d_sched (y_d s) with StW ws => psiw ws h | _ => 0 end.

Lemma pot_ext ws ws' :
  ws_n2p ws' = ws_n2p ws -> ws_pending ws' = ws_pending ws -> ws_coll ws' = ws_coll ws ->
  Uw c ws' = Uw c ws /\ Fw c ws' = Fw c ws.
Proof.
  intros A B C. unfold Uw, Fw, booksum, deepw, bkw. rewrite A, B, C. auto.
Qed.

Lemma TI_steady s s' h ws :
  d_sched (y_d s) = StW ws -> d_sched (y_d s') = StW ws -> J2 ws ->
  ((h = 0 -> cleanS s ws) -> h = 0 -> cleanS s' ws) -> TI s h -> TI s' h.
Proof.
  intros E E' Hj Hc (ws0 & E0 & _ & Hcl). assert (ws0 = ws) by congruence. subst ws0.
  exists ws. split; [exact E'|]. split; [exact Hj|]. apply Hc. exact Hcl.
Qed.

Lemma hsigs_push_nil ws s n w' k :
  hsigs ws (push_up (set_w s n w') n []) k = hsigs ws s k.
Proof.
  unfold hsigs. cbn [push_up set_w y_evq y_up]. destruct (Nat.eq_dec k n) as [->|Hk].
  - rewrite FifoProofs.alist_get_aset_eq, app_nil_r. reflexivity.
  - rewrite FifoProofs.alist_get_aset_neq by exact Hk. reflexivity.
Qed.

Lemma hsigs_push_other ws s n w' ms k :
  k <> n -> hsigs ws (push_up (set_w s n w') n ms) k = hsigs ws s k.
Proof.
  intros Hk. unfold hsigs. cbn [push_up set_w y_evq y_up]. rewrite FifoProofs.alist_get_aset_neq by exact Hk. reflexivity.
Qed.

Theorem step_psi P s l s' o wv h :
  no_crash_label l -> CInvG c P s -> SH s -> TI s h -> sys_step c s l = Some (s', o, wv) ->
  exists h', TI s' h' /\ Psi s' h' + length (steal_reqs o) <= Psi s h.
Proof.
  intros Hl CI HSH HTI H.
  pose proof CI as [Inv Ek (ws & DJd & NIs) Eq Eu Edn Ea Er Epm Efn Edw Ecl Eef Est Epo].
  pose proof Inv as [A B (ws0 & Els0 & Iw & T) D E E' F G].
  pose proof DJd as (J0 & Jss). pose proof J0 as [Els J Jb Jq Jg Jf].
  assert (ws0 = ws) by congruence. subst ws0.
  assert (Hj : J2 ws). { destruct HTI as (ws1 & E1 & X & _). assert (ws1 = ws) by congruence. subst ws1. exact X. }
  assert (WXall : forall n w0, aget n (y_w s) = Some w0 -> WX2 w0).
  { intros n w0 Ew. pose proof (NIs n w0 Ew) as X. unfold NInvG in X. destruct (P n).
    - unfold WX2. destruct (sw_ph _ _ _ _ _ _ _ X) as [Z|Z]; rewrite Z; exact I.
    - exact (nw_wx _ _ _ _ _ _ X). }
  unfold sys_step in H. destruct (y_result s) eqn:Eres; [discriminate|].
  destruct l as [n0|n0|n0|n0| |n0]; [| | | | |contradiction].
  - (* LDeliver *)
    replace (mem_nat n0 (y_dead s)) with false in H by (rewrite A; reflexivity).
    destruct (aget n0 (y_down s)) as [[|cmd rest]|] eqn:Ed; try discriminate.
    destruct (aget n0 (y_w s)) as [w0|] eqn:Ew; try discriminate.
    fin3 H s' o wv. exists h. split; [|unfold Psi; cbn [y_d push_up set_w steal_reqs flat_map length]; lia].
    eapply (TI_steady s); [exact Els|exact Els|exact Hj| |exact HTI].
    intros Hcl Hh v w Hv Hw. cbn [y_w] in Hw. specialize (Hcl Hh v).
    unfold incoming, hsigs in *. cbn [y_down y_evq y_up].
    destruct (Nat.eq_dec v n0) as [->|Hn].
    + rewrite FifoProofs.aget_aset_eq in Hw. inv Hw. rewrite FifoProofs.alist_get_aset_eq.
      specialize (Hcl w0 Hv Ew). rewrite (alist_get_some [] _ _ _ Ed) in Hcl.
      unfold deliver. cbn [upd_recv winbox wreply wph]. rewrite <- app_assoc. exact Hcl.
    + rewrite FifoProofs.aget_aset_neq in Hw by exact Hn. rewrite FifoProofs.alist_get_aset_neq by exact Hn.
      exact (Hcl w Hv Hw).
  - (* LRecvW *)
    replace (mem_nat n0 (y_dead s)) with false in H by (rewrite A; reflexivity).
    destruct (aget n0 (y_w s)) as [w0|] eqn:Ew; try discriminate.
    destruct (negb (wcb w0)) eqn:Ecb; [discriminate|]. apply negb_false_iff in Ecb.
    destruct (recv_step (c_oracle c n0) w0) as [w' evs] eqn:Es. fin3 H s' o wv.
    destruct (G _ _ Ew) as (Iw0 & Gw & _).
    pose proof (recv_step_keeps (c_oracle c n0) w0) as (_ & _ & Eph). rewrite Es in Eph. cbn [fst] in Eph.
    destruct (recv_step_inbox (c_oracle c n0) w0 Gw Ecb) as (Eev & _). rewrite Es in Eev. cbn [snd] in Eev.
    exists h. split; [|unfold Psi; cbn [y_d push_up set_w steal_reqs flat_map length]; lia].
    eapply (TI_steady s); [exact Els|exact Els|exact Hj| |exact HTI].
    intros Hcl Hh v w Hv Hw. cbn [push_up set_w y_w] in Hw. specialize (Hcl Hh v).
    destruct (Nat.eq_dec v n0) as [->|Hn].
    2:{ rewrite FifoProofs.aget_aset_neq in Hw by exact Hn. rewrite (hsigs_push_other ws s n0 w' _ v Hn).
        unfold incoming. cbn [push_up set_w y_down]. exact (Hcl w Hv Hw). }
    rewrite FifoProofs.aget_aset_eq in Hw. injection Hw as Hw. subst w. specialize (Hcl w0 Hv Ew).
    unfold incoming in *. cbn [push_up set_w y_down]. rewrite Eph.
    destruct (phase_exit_dec (wph w0)) as [Hex|Hop].
    + (* the main thread has exited: nothing is heard any more *)
      assert (Eh : hsigs ws (push_up (set_w s n0 w') n0 (map (up_of_wevent c n0) evs)) n0 = hsigs ws s n0).
      { pose proof (NIs n0 w0 Ew) as X. unfold NInvG in X. destruct (P n0) eqn:EP.
        - apply hsigs_push_closed. exact (Ecl ws n0 w0 Els EP Ew Hex).
        - destruct (NIW_recv (c_oracle c n0) _ _ _ _ _ _ Gw X) as (_ & _ & Hnone). rewrite Es in Hnone. cbn [snd] in Hnone.
          rewrite (Hnone Hex). apply hsigs_push_nil. }
      rewrite Eh. eapply cleanL_notopen; [|exact Hcl]. intros F0. contradiction.
    + destruct (open_facts c P s ws n0 w0 CI Els Ew Hop) as (Hdn & Hfin).
      destruct (node_facts c P s ws n0 w0 CI HSH Els Ew Hop) as (p & X).
      rewrite (hsigs_open ws s n0 Hdn Hfin) in Hcl.
      rewrite (hsigs_push_open c ws s n0 w' evs Hdn Hfin).
      2:{ right. rewrite Eev. destruct (wreply w0); cbn; lia. }
      rewrite app_assoc. fold (xsigs s n0).
      pose proof (clean_recv (c_oracle c n0) ws _ n0 _ _ (upd_ph w0 p) (wph w0 <> PExited) Gw Ecb X Hop Hcl) as Y.
      rewrite recv_step_upd_ph, Es in Y. cbn [fst snd upd_ph winbox wreply] in Y. exact Y.
  - (* LMain *)
    replace (mem_nat n0 (y_dead s)) with false in H by (rewrite A; reflexivity).
    destruct (aget n0 (y_w s)) as [w0|] eqn:Ew; try discriminate.
    assert (Hd : dies_now c n0 w0 = false).
    { unfold dies_now. destruct (wph w0); auto. }
    rewrite Hd in H.
    destruct (main_step (c_oracle c n0) w0) as [[w' evs]|] eqn:Es; [|discriminate]. fin3 H s' o wv.
    pose proof (main_step_not_exited _ _ _ _ Es) as Hop.
    exists h. split; [|unfold Psi; cbn [y_d push_up set_w steal_reqs flat_map length]; lia].
    eapply (TI_steady s); [exact Els|exact Els|exact Hj| |exact HTI].
    intros Hcl Hh v w Hv Hw. cbn [push_up set_w y_w] in Hw. specialize (Hcl Hh v).
    destruct (Nat.eq_dec v n0) as [->|Hn].
    2:{ rewrite FifoProofs.aget_aset_neq in Hw by exact Hn. rewrite (hsigs_push_other ws s n0 w' _ v Hn).
        unfold incoming. cbn [push_up set_w y_down]. exact (Hcl w Hv Hw). }
    rewrite FifoProofs.aget_aset_eq in Hw. injection Hw as Hw. subst w. specialize (Hcl w0 Hv Ew).
    unfold incoming in *. cbn [push_up set_w y_down].
    destruct (open_facts c P s ws n0 w0 CI Els Ew Hop) as (Hdn & Hfin).
    rewrite (hsigs_open ws s n0 Hdn Hfin) in Hcl.
    rewrite (hsigs_push_open c ws s n0 w' evs Hdn Hfin).
    2:{ right. exact (main_step_one_sig _ _ _ _ (WXall n0 w0 Ew) Es). }
    rewrite app_assoc. fold (xsigs s n0).
    apply (clean_main (c_oracle c n0) ws n0 _ _ w0 w' evs (wph w0 <> PExited) (wph w' <> PExited) (WXall n0 w0 Ew) Es);
      [intros _; exact Hop|exact Hcl].
  - (* LRecv *)
    destruct (aget n0 (y_up s)) as [[|m rest]|] eqn:Eup; try discriminate.
    cbn [y_d] in H.
    destruct (process_from_remote n0 m (y_d s)) as [[d' outs] r] eqn:Ep.
    pose proof (E n0) as En. rewrite (alist_get_some [] _ _ _ Eup) in En.
    inversion En as [|m1 r1 Gm Gr]; subst.
    destruct (Eu n0) as (Eu1 & Eu2). rewrite (alist_get_some [] _ _ _ Eup) in Eu1, Eu2.
    inversion Eu1 as [|m2 r2 Gm3 Gr3]; subst.
    assert (HnN : n0 < N).
    { destruct (Nat.lt_ge_cases n0 N) as [X|X]; [exact X|]. specialize (Eu2 X). discriminate. }
    destruct (aget n0 (ws_nt ws)) as [f|] eqn:Ef.
    2:{ exfalso. apply (proj2 (wj_ntk _ _ _ J n0)); [exact HnN|exact Ef]. }
    destruct (worker_knownw c s n0 Ek HnN) as (wn & Ewn).
    destruct (pfr_effw c _ _ _ _ _ _ _ _ Els Ef Gm Gm3 HnN Ep)
      as (-> & evs & ws' & -> & Els' & Hdrop & Hheard & Hother & Hok3 & S1 & S2 & S3 & P1 & P2 & P3 & P4 & P5 & P6 & P8 &
          (f' & Ef' & Fsd & Fcl & Fsp & Fdn & Fdn' & Ffin)).
    cbn [apply_outs] in H. unfold close_if_dead in H. cbn [set_evq set_d y_dead] in H.
    replace (mem_nat n0 (y_dead s)) with false in H by (rewrite A; reflexivity).
    fin3 H s' o wv. exists h.
    destruct (pot_ext ws ws' P1 P3 P4) as (EU & EF).
    split.
    2:{ unfold Psi. cbn [set_evq set_d y_d]. rewrite Els', Els. unfold psiw. rewrite EU, EF, P5. cbn. lia. }
    assert (Eups : flat_map up_xsig (alist_get [] n0 (y_up s)) = up_xsig m ++ flat_map up_xsig rest).
    { rewrite (alist_get_some [] _ _ _ Eup). reflexivity. }
    assert (ND0 : ndown ws n0 = n_down f) by (unfold ndown; rewrite Ef; reflexivity).
    assert (ND0' : ndown ws' n0 = n_down f') by (unfold ndown; rewrite Ef'; reflexivity).
    assert (NDk : forall k, k <> n0 -> ndown ws' k = ndown ws k) by (intros k Hk; unfold ndown; rewrite (P8 k Hk); reflexivity).
    destruct HTI as (ws1 & E1 & _ & Hcl). assert (ws1 = ws) by congruence. subst ws1.
    exists ws'. split; [exact Els'|]. split; [unfold J2; rewrite P3, P5; exact Hj|].
    intros Hh v w Hv Hw. cbn [set_evq set_d y_w] in Hw. rewrite P5 in Hv.
    specialize (Hcl Hh v w Hv Hw). apply (cleanL_ext ws ws'); [unfold bkw; rewrite P1; reflexivity|].
    unfold incoming. cbn [set_evq set_d y_down].
    match goal with |- cleanL _ _ _ _ _ (hsigs ws' ?st v) => assert (Esg : hsigs ws' st v = hsigs ws s v) end.
    { unfold hsigs. cbn [set_evq set_d y_evq y_up]. rewrite evq_xsigs_app. destruct (Nat.eq_dec v n0) as [->|Hk].
      - rewrite FifoProofs.alist_get_aset_eq, ND0, ND0'. unfold hup at 2. rewrite Eups.
        destruct (n_down f) eqn:Edf.
        + rewrite (Hdrop eq_refl), (Fdn eq_refl). cbn. rewrite app_nil_r. reflexivity.
        + destruct (Hheard eq_refl) as (Hsig & _). rewrite Hsig, Nat.eqb_refl.
          destruct (n_down f') eqn:Edf'.
          * destruct (Fdn' eq_refl) as [X|(b & ->)]; [discriminate|]. cbn. rewrite <- app_assoc. reflexivity.
          * assert (Hnf : hasfin (up_xsig m) = false).
            { apply nofin_hasfin. intros b Hb. specialize (Ffin b Hb). congruence. }
            unfold hup. rewrite cutfin_app, Hnf, <- app_assoc. reflexivity.
      - rewrite (Hother v Hk), app_nil_r, FifoProofs.alist_get_aset_neq by exact Hk. rewrite (NDk v Hk). reflexivity. }
    rewrite Esg. exact Hcl.
  - (* LCtl *)
    specialize (Ea eq_refl).
    destruct (d_active (y_d s)) as [|a0 ar] eqn:Eact; [contradiction|].
    destruct (y_evq s) as [|ev q] eqn:Eevq; [discriminate|].
    inversion D as [|ev1 q1 Gev Gq]; subst. inversion Eq as [|ev2 q2 Gev3 Gq3]; subst.
    destruct (d_loop_once ev (y_d s)) as [[d' outs] r] eqn:El.
    assert (Hpre : PREW N (c_coll c) ev (y_d s) ws).
    { eapply pre_from_invw; eauto. }
    assert (Hact : d_active (y_d s) <> []) by (rewrite Eact; discriminate).
    destruct (loop_once_okw N (c_coll c) ev (y_d s) ws d' outs r DJd Iw Hact Hpre El) as (-> & ws' & LE).
    destruct (okw_loop_once ev (y_d s) Gev _ _ _ El ws Els Iw) as (ws2 & Els2 & _ & HWT & Go).
    assert (Els' : d_sched d' = StW ws').
    { destruct (lw_dj _ _ _ _ _ _ _ _ LE) as ([E1 _ _ _ _ _] & _). exact E1. }
    assert (ws2 = ws') by congruence. subst ws2.
    pose proof (loop_xw N (c_coll c) ev (y_d s) ws d' outs (Ok tt) DJd Iw Hact Hpre El ws' Els') as LX.
    pose proof (loop_zw N (c_coll c) ev (y_d s) ws d' outs (Ok tt) DJd Iw Hact Hpre El ws' Els') as Z.
    set (s1 := apply_outs (set_d (set_evq s q) d') outs) in *.
    assert (Hd1 : y_dead (set_d (set_evq s q) d') = []) by (cbn; exact A).
    destruct (apply_outs_effw outs _ Hd1 Go) as (A1 & A2 & A3 & A4 & A5 & A6 & A7).
    cbn [set_d set_evq y_d y_evq y_up y_w y_dead y_result y_down] in A1, A2, A3, A4, A5, A6, A7.
    fold s1 in A1, A2, A3, A4, A5, A6, A7.
    assert (S' : exists rr, s' = set_result s1 rr /\ o = outs).
    { destruct (d_session_finished d') eqn:Efin.
      - fin3 H s' o wv. eexists. split; reflexivity.
      - destruct (d_active d') as [|b0 br] eqn:Eact'.
        + exfalso. pose proof (lw_fin _ _ _ _ _ _ _ _ LE) as Hf. rewrite Eact' in Hf. specialize (Hf eq_refl).
          unfold d_session_finished in Efin. rewrite Hf, Eact' in Efin. discriminate.
        + fin3 H s' o wv. exists (y_result s1). split; [|reflexivity]. symmetry. apply set_result_same. reflexivity. }
    destruct S' as (rr & -> & ->).
    pose proof (lw_dj _ _ _ _ _ _ _ _ LE) as ([_ J' _ _ _ _] & _).
    assert (CK : forall k, ~ In k (seq 0 N) -> cmds_to k outs = []).
    { intros k Hk. pose proof (lw_nt _ _ _ _ _ _ _ _ LE k) as R.
      destruct (aget k (ws_nt ws)) as [f|] eqn:Ef.
      - exfalso. apply Hk. apply in_seq. assert (X : k < N) by (apply (wj_ntk _ _ _ J k); congruence). lia.
      - destruct (aget k (ws_nt ws')); [destruct R|exact R]. }
    destruct (pot_ctl c ev (y_d s) ws d' ws' outs J Iw Hpre Hj LE HWT Z Go CK (lxw_coll _ _ _ _ _ _ LX))
      as (PU & PF & PG).
    (* the steal marker and the requests *)
    assert (ACC : match ws_steal ws with Some _ => 1 | None => 0 end + length (steal_reqs outs) =
                  match ws_steal ws' with Some _ => 1 | None => 0 end + isuns ev).
    { rewrite (reqs_sum N outs Go CK).
      rewrite <- (cnt_sum N (ws_steal ws)) by (intros v Hv; apply (wj_nodes _ _ _ J); apply (wj_st _ _ _ J); exact Hv).
      rewrite <- (cnt_sum N (ws_steal ws')) by (intros v Hv; apply (wj_nodes _ _ _ J'); apply (wj_st _ _ _ J'); exact Hv).
      rewrite <- (unsev_sum N ev).
      2:{ intros n r0 ->. cbn [PREW] in Hpre. destruct Hpre as (Hst & _).
          apply (wj_nodes _ _ _ J). apply (wj_st _ _ _ J). exact Hst. }
      rewrite <- !sumf_add. apply sumf_ext_in. intros m _. apply (lw_steal _ _ _ _ _ _ _ _ LE m). }
    assert (Hcoll : ws_steal ws <> None -> ws_coll ws <> None).
    { intros Hs Hc. destruct Iw as (_ & _ & I3). destruct (I3 Hc) as (_ & X). congruence. }
    assert (XS1 : forall n, hsigs ws s n = ev_xsigs_for n ev ++ hsigs ws' (set_result s1 rr) n).
    { intros n. rewrite (hsigs_head ws s ev q n Eevq). unfold hsigs. cbn [set_result y_evq y_up]. rewrite A2, A3.
      rewrite (ndown_leff c ev (y_d s) ws d' ws' outs n LE). reflexivity. }
    assert (INC1 : forall n w, incoming (set_result s1 rr) n w = incoming s n w ++ cmds_to n outs).
    { intros n w. unfold incoming. cbn [set_result y_down]. rewrite A7, app_assoc. reflexivity. }
    exists (hnext ev (ws_steal ws) h). split.
    + (* the invariant *)
      exists ws'. split; [cbn [set_result y_d]; rewrite A1; exact Els'|]. split; [exact (z_j2 _ _ _ _ Z Hj)|].
      intros Hh' v w Hv Hw. cbn [set_result y_w] in Hw. rewrite A4 in Hw.
      pose proof (count_le c P s ws v w CI Els Hw) as St. rewrite (XS1 v), nuns_app in St.
      rewrite INC1.
      assert (FRESH : ws_steal ws = None \/ (exists n r0, ev = QUnscheduled n r0) ->
                cleanL ws' v (wph w <> PExited) (incoming s v w ++ cmds_to v outs) (wreply w)
                       (hsigs ws' (set_result s1 rr) v)).
      { intros Hf.
        assert (Z0 : nstc (alist_get [] v (y_down s)) = 0 /\ nstc (winbox w) = 0 /\ wreply w = None /\
                     nuns (hsigs ws' (set_result s1 rr) v) = 0).
        { assert (Hr : nrep (wreply w) = 0 -> wreply w = None) by (destruct (wreply w); [discriminate|reflexivity]).
          destruct Hf as [Hf|(n & r0 & ->)].
          - rewrite Hf in St. cbn [cnt] in St. repeat split; try lia. apply Hr. lia.
          - cbn [PREW] in Hpre. destruct Hpre as (Hst & _). rewrite Hst in St.
            destruct (Nat.eq_dec n v) as [->|Hn].
            + rewrite cnt_some_eq in St. unfold ev_xsigs_for in St. cbn [ev_xsig] in St. rewrite Nat.eqb_refl in St.
              change (nuns [XUns r0]) with 1 in St. repeat split; try lia. apply Hr. lia.
            + rewrite (cnt_some_neq n v Hn) in St. repeat split; try lia. apply Hr. lia. }
        destruct Z0 as (Z1 & Z2 & Z3 & Z4).
        apply (cleanL_fresh ws' v _ (incoming s v w) (cmds_to v outs) (wreply w) _).
        - unfold incoming. rewrite nstc_app. lia.
        - exact Z3.
        - exact Z4.
        - exact (z_ord _ _ _ _ Z v).
        - intros ixs Hin. apply in_cmds_to_inv in Hin. exact (lw_tail _ _ _ _ _ _ _ _ LE v ixs Hin). }
      destruct (ws_steal ws) as [u|] eqn:Eus; [|apply FRESH; left; reflexivity].
      destruct (ev_cases ev u) as [Hun|[(i & ms & ->)|(Hn1 & Hn2)]].
      * apply FRESH. right. exact Hun.
      * exfalso. cbn [hnext] in Hh'. rewrite Nat.eqb_refl in Hh'. discriminate.
      * destruct (ev_keep ev u (bkw ws u) h Hn1 Hn2) as (K1 & K2 & K3 & K4 & K5).
        rewrite K5 in Hh'.
        pose proof (lw_steal _ _ _ _ _ _ _ _ LE u) as Lu. rewrite ?Eus, cnt_some_eq, K2 in Lu.
        pose proof (cnt_le1 (ws_steal ws') u) as Lc.
        assert (Ev : v = u).
        { assert (X1 : cnt (ws_steal ws') u = 1) by lia. apply cnt_pos in X1. congruence. }
        subst v.
        assert (Hs0 : sentto u outs = []).
        { apply (z_none _ _ _ _ Z); [apply Hj; rewrite ?Eus; discriminate|exact K1|apply Hcoll; rewrite ?Eus; discriminate]. }
        destruct HTI as (ws1 & E1 & _ & Hcl). assert (ws1 = ws) by congruence. subst ws1.
        pose proof (Hcl Hh' u w Eus Hw) as CL.
        apply (cleanL_ext ws ws').
        { rewrite (lw_bk _ _ _ _ _ _ _ _ LE u), K3. fold (sentto u outs). rewrite Hs0, app_nil_r. reflexivity. }
        apply cleanL_append; [|lia|exact Hs0].
        rewrite (XS1 u) in CL.
        destruct (ev_xsigs_for u ev) as [|g [|g' l']] eqn:Eg.
        -- exact CL.
        -- eapply cleanL_pop; [exact CL|exact K4].
        -- exfalso. pose proof (ev_xsigs_for_small u ev) as X0. rewrite Eg in X0. cbn in X0. lia.
    + (* the potential *)
      unfold Psi. cbn [set_result y_d]. rewrite A1, Els', Els. unfold psiw.
      pose proof (hnext_le ev (ws_steal ws) h) as HL.
      assert (UNS : forall n r0, ev = QUnscheduled n r0 -> h = 0 -> Fw c ws' + 1 <= Fw c ws).
      { intros n r0 -> Hh. apply (PG n r0 eq_refl). cbn [PREW] in Hpre. destruct Hpre as (Hst & _).
        assert (HnN : n < N) by (apply (wj_nodes _ _ _ J); apply (wj_st _ _ _ J); exact Hst).
        destruct (worker_knownw c s n Ek HnN) as (w & Hw).
        destruct HTI as (ws1 & E1 & _ & Hcl). assert (ws1 = ws) by congruence. subst ws1.
        pose proof (Hcl Hh n w Hst Hw) as CL.
        destruct (cl_sig _ _ _ _ _ _ CL [] r0 (hsigs ws' (set_result s1 rr) n)) as [F0|G0]; [|exfalso; apply F0; reflexivity|exact G0].
        rewrite (XS1 n). unfold ev_xsigs_for. cbn [ev_xsig]. rewrite Nat.eqb_refl. reflexivity. }
      destruct (ws_steal ws) as [u|], (ws_steal ws') as [u'|];
        destruct ev; cbn [compl isuns hnext] in *;
        try (specialize (UNS _ _ eq_refl)); try lia.
Qed.

(* ---- the range of the test indices in the controller's books, and the price of a request ---- *)
Definition RNGw (ws : wsstate) : Prop :=
  (forall i, In i (ws_pending ws) -> i < Tsum c) /\ (forall n i, In i (bkw ws n) -> i < Tsum c).
Definition RNGs (s : sys) : Prop := exists ws, d_sched (y_d s) = StW ws /\ RNGw ws.

(* the largest price of a steal request *)
Definition PRmax : nat := 5 + sumf (pcost c) (seq 0 (Tsum c)).

Lemma bookmidw_in ev n b i : In i (bookmidw ev n b) -> In i b.
Proof.
  destruct ev; cbn [bookmidw]; auto.
  - destruct (Nat.eqb n n0); auto. destruct (remove_first i0 b) as [b'|] eqn:E; auto.
    intros Hi. apply remove_first_perm in E. eapply Permutation_in; [exact E|]. right. exact Hi.
  - destruct (Nat.eqb n n0); auto. intros Hi. apply filter_In in Hi. tauto.
Qed.

Lemma stealcost_bound o :
  (forall v ixs, In (OSend v (CSteal ixs)) o -> NoDup ixs /\ forall i, In i ixs -> i < Tsum c) ->
  stealcost c o <= PRmax * length (steal_reqs o).
Proof.
  induction o as [|x o IH]; intros H; [cbn; lia|].
  assert (IH' : stealcost c o <= PRmax * length (steal_reqs o)).
  { apply IH. intros v ixs Hin. apply (H v). right. exact Hin. }
  unfold stealcost in *. rewrite sumf_cons. unfold steal_reqs. cbn [flat_map]. rewrite app_length. fold (steal_reqs o).
  destruct x as [hk|m cm| |]; try (cbn [stealprice length]; lia).
  destruct cm as [ixs| |ixs| |]; try (cbn [stealprice length]; lia).
  destruct (H m ixs (or_introl eq_refl)) as (ND & Hr).
  cbn [stealprice length].
  assert (X : sumf (pcost c) ixs <= sumf (pcost c) (seq 0 (Tsum c))).
  { apply sumf_nodup_incl; [exact ND|]. intros i Hi. apply in_seq. specialize (Hr i Hi). lia. }
  unfold PRmax in *. nia.
Qed.

Lemma in_sentto_sent n o i :
  Forall good_out_ws o -> (forall k, ~ In k (seq 0 N) -> cmds_to k o = []) -> In i (sentto n o) -> In i (sent_inds o).
Proof.
  intros Go CK Hi. destruct (in_dec Nat.eq_dec n (seq 0 N)) as [Hn|Hn].
  - eapply Permutation_in; [exact (sent_permw (seq 0 N) o (seq_NoDup N 0) CK Go)|].
    apply in_flat_map. exists n. split; [exact Hn|exact Hi].
  - unfold sentto in Hi. rewrite (CK n Hn) in Hi. destruct Hi.
Qed.

Theorem step_rng P s l s' o wv :
  no_crash_label l -> CInvG c P s -> RNGs s -> sys_step c s l = Some (s', o, wv) ->
  RNGs s' /\ stealcost c o <= PRmax * length (steal_reqs o).
Proof.
  intros Hl CI (wsr & Er0 & (R1 & R2)) H.
  pose proof CI as [Inv Ek (ws & DJd & NIs) Eq Eu Edn Ea Er Epm Efn Edw Ecl Eef Est Epo].
  pose proof Inv as [A B (ws0 & Els0 & Iw & T) D E E' F G].
  pose proof DJd as (J0 & Jss). pose proof J0 as [Els J Jb Jq Jg Jf].
  assert (ws0 = ws) by congruence. subst ws0. assert (wsr = ws) by congruence. subst wsr.
  assert (SAME : y_d s' = y_d s -> o = [] -> RNGs s' /\ stealcost c o <= PRmax * length (steal_reqs o)).
  { intros E1 ->. split; [|cbn; lia]. exists ws. rewrite E1. split; [exact Els|split; assumption]. }
  unfold sys_step in H. destruct (y_result s) eqn:Eres; [discriminate|].
  destruct l as [n0|n0|n0|n0| |n0]; [| | | | |contradiction].
  - replace (mem_nat n0 (y_dead s)) with false in H by (rewrite A; reflexivity).
    destruct (aget n0 (y_down s)) as [[|cmd rest]|] eqn:Ed; try discriminate.
    destruct (aget n0 (y_w s)) as [w0|] eqn:Ew; try discriminate.
    fin3 H s' o wv. apply SAME; reflexivity.
  - replace (mem_nat n0 (y_dead s)) with false in H by (rewrite A; reflexivity).
    destruct (aget n0 (y_w s)) as [w0|] eqn:Ew; try discriminate.
    destruct (negb (wcb w0)); [discriminate|].
    destruct (recv_step (c_oracle c n0) w0) as [w' evs] eqn:Es. fin3 H s' o wv. apply SAME; reflexivity.
  - replace (mem_nat n0 (y_dead s)) with false in H by (rewrite A; reflexivity).
    destruct (aget n0 (y_w s)) as [w0|] eqn:Ew; try discriminate.
    assert (Hd : dies_now c n0 w0 = false) by (unfold dies_now; destruct (wph w0); auto).
    rewrite Hd in H.
    destruct (main_step (c_oracle c n0) w0) as [[w' evs]|] eqn:Es; [|discriminate]. fin3 H s' o wv. apply SAME; reflexivity.
  - destruct (aget n0 (y_up s)) as [[|m rest]|] eqn:Eup; try discriminate.
    cbn [y_d] in H.
    destruct (process_from_remote n0 m (y_d s)) as [[d' outs] r] eqn:Ep.
    pose proof (E n0) as En. rewrite (alist_get_some [] _ _ _ Eup) in En.
    inversion En as [|m1 r1 Gm Gr]; subst.
    destruct (Eu n0) as (Eu1 & Eu2). rewrite (alist_get_some [] _ _ _ Eup) in Eu1, Eu2.
    inversion Eu1 as [|m2 r2 Gm3 Gr3]; subst.
    assert (HnN : n0 < N).
    { destruct (Nat.lt_ge_cases n0 N) as [X|X]; [exact X|]. specialize (Eu2 X). discriminate. }
    destruct (aget n0 (ws_nt ws)) as [f|] eqn:Ef.
    2:{ exfalso. apply (proj2 (wj_ntk _ _ _ J n0)); [exact HnN|exact Ef]. }
    destruct (pfr_effw c _ _ _ _ _ _ _ _ Els Ef Gm Gm3 HnN Ep)
      as (-> & evs & ws' & -> & Els' & _ & _ & _ & _ & _ & _ & _ & P1 & _ & P3 & _).
    cbn [apply_outs] in H. unfold close_if_dead in H. cbn [set_evq set_d y_dead] in H.
    replace (mem_nat n0 (y_dead s)) with false in H by (rewrite A; reflexivity).
    fin3 H s' o wv. split; [|cbn; lia]. exists ws'. split; [exact Els'|]. unfold RNGw, bkw. rewrite P1, P3. split; assumption.
  - specialize (Ea eq_refl).
    destruct (d_active (y_d s)) as [|a0 ar] eqn:Eact; [contradiction|].
    destruct (y_evq s) as [|ev q] eqn:Eevq; [discriminate|].
    inversion D as [|ev1 q1 Gev Gq]; subst. inversion Eq as [|ev2 q2 Gev3 Gq3]; subst.
    destruct (d_loop_once ev (y_d s)) as [[d' outs] r] eqn:El.
    assert (Hpre : PREW N (c_coll c) ev (y_d s) ws).
    { eapply pre_from_invw; eauto. }
    assert (Hact : d_active (y_d s) <> []) by (rewrite Eact; discriminate).
    destruct (loop_once_okw N (c_coll c) ev (y_d s) ws d' outs r DJd Iw Hact Hpre El) as (-> & ws' & LE).
    destruct (okw_loop_once ev (y_d s) Gev _ _ _ El ws Els Iw) as (ws2 & Els2 & Iw' & HWT & Go).
    assert (Els' : d_sched d' = StW ws').
    { destruct (lw_dj _ _ _ _ _ _ _ _ LE) as ([E1 _ _ _ _ _] & _). exact E1. }
    assert (ws2 = ws') by congruence. subst ws2.
    pose proof (loop_xw N (c_coll c) ev (y_d s) ws d' outs (Ok tt) DJd Iw Hact Hpre El ws' Els') as LX.
    set (s1 := apply_outs (set_d (set_evq s q) d') outs) in *.
    assert (Hd1 : y_dead (set_d (set_evq s q) d') = []) by (cbn; exact A).
    destruct (apply_outs_effw outs _ Hd1 Go) as (A1 & _).
    cbn [set_d set_evq y_d] in A1. fold s1 in A1.
    assert (S' : exists rr, s' = set_result s1 rr /\ o = outs).
    { destruct (d_session_finished d') eqn:Efin.
      - fin3 H s' o wv. eexists. split; reflexivity.
      - destruct (d_active d') as [|b0 br] eqn:Eact'.
        + exfalso. pose proof (lw_fin _ _ _ _ _ _ _ _ LE) as Hf. rewrite Eact' in Hf. specialize (Hf eq_refl).
          unfold d_session_finished in Efin. rewrite Hf, Eact' in Efin. discriminate.
        + fin3 H s' o wv. exists (y_result s1). split; [|reflexivity]. symmetry. apply set_result_same. reflexivity. }
    destruct S' as (rr & -> & ->).
    pose proof (lw_dj _ _ _ _ _ _ _ _ LE) as ([_ J' _ _ _ _] & _).
    assert (CK : forall k, ~ In k (seq 0 N) -> cmds_to k outs = []).
    { intros k Hk. pose proof (lw_nt _ _ _ _ _ _ _ _ LE k) as R.
      destruct (aget k (ws_nt ws)) as [f|] eqn:Ef.
      - exfalso. apply Hk. apply in_seq. assert (X : k < N) by (apply (wj_ntk _ _ _ J k); congruence). lia.
      - destruct (aget k (ws_nt ws')); [destruct R|exact R]. }
    (* what comes back is in the victim's book *)
    assert (BACK : forall i, In i (ev_inds ev) -> i < Tsum c).
    { intros i Hi. destruct ev; try destruct Hi. cbn [PREW] in Hpre. destruct Hpre as (_ & rest & Pr).
      apply (R2 n). eapply Permutation_in; [apply Permutation_sym; exact Pr|]. apply in_or_app. left. exact Hi. }
    (* what is sent, and what stays in the pool *)
    assert (POOL : forall i, In i (sent_inds outs) \/ In i (ws_pending ws') -> i < Tsum c).
    { intros i Hi. destruct HWT as (T1 & T2 & T3).
      destruct (ws_coll ws') as [coll|] eqn:Ec'.
      - specialize (T3 coll eq_refl). unfold vpw in T3. rewrite Ec' in T3.
        assert (Hin : In i ((match ws_coll ws with None => seq 0 (length coll) | Some _ => ws_pending ws end) ++ ev_inds ev)).
        { eapply Permutation_in; [apply Permutation_sym; exact T3|]. apply in_or_app. exact Hi. }
        apply in_app_or in Hin. destruct Hin as [Hin|Hin]; [|apply BACK; exact Hin].
        destruct (ws_coll ws) as [c0|] eqn:Ec0; [apply R1; exact Hin|].
        destruct (lxw_coll _ _ _ _ _ _ LX coll Ec') as [Fc|(k & others & En2c)]; [congruence|].
        assert (Hk : In (k, coll) (ws_n2c ws')) by (rewrite En2c; left; reflexivity).
        pose proof (proj1 (wj_lg _ _ _ J') k coll Hk) as Eck.
        assert (HkN : k < N).
        { apply (wj_n2c _ _ _ J'). unfold akeys. change k with (fst (k, coll)). apply in_map. exact Hk. }
        assert (Hle : length coll <= Tsum c).
        { unfold Tsum. rewrite Eck. apply (sumf_in_le (fun n => length (c_coll c n))). apply in_seq. lia. }
        apply in_seq in Hin. lia.
      - destruct (T2 eq_refl) as (T2a & T2b). rewrite T2a in Hi. destruct Hi as [[]|Hi].
        destruct Iw' as (_ & _ & I3'). destruct (I3' Ec') as (Ep' & _). rewrite Ep' in Hi. destruct Hi. }
    assert (RW' : RNGw ws').
    { split.
      - intros i Hi. apply POOL. right. exact Hi.
      - intros n i Hi. rewrite (lw_bk _ _ _ _ _ _ _ _ LE n) in Hi. apply in_app_or in Hi. destruct Hi as [Hi|Hi].
        + apply (R2 n). eapply bookmidw_in. exact Hi.
        + apply POOL. left. apply (in_sentto_sent n); assumption. }
    split.
    + exists ws'. split; [cbn [set_result y_d]; rewrite A1; exact Els'|exact RW'].
    + apply stealcost_bound. intros v ixs Hin.
      destruct (lw_tail _ _ _ _ _ _ _ _ LE v ixs Hin) as (keep & Eb & _ & _).
      assert (ND : NoDup (bkw ws' v)) by (apply bkw_nodup; apply J').
      rewrite Eb in ND. split; [apply WorkerProofs.nodup_app_r in ND; exact ND|].
      intros i Hi. apply (proj2 RW' v). rewrite Eb. apply in_or_app. right. exact Hi.
Qed.

End StepPsi.


(* ====================================================================================== *)
(* Part 7: the theorems                                                                     *)
(* ====================================================================================== *)
Section MainT2.
  Variable c : config.
  Hypothesis Hmode : c_mode c = MSteal.
  Hypothesis Hnocrash : forall n i, c_crash_in c n i = false.
  Hypothesis Hnogarbled : no_garbled c.
  Hypothesis Hids : forall n, ~ In ""%string (c_coll c n).
  Hypothesis Hnodes : 0 < c_numnodes c.

  Lemma init_sched : exists ws, d_sched (y_d (sys_init c)) = StW ws /\ ws_coll ws = None /\ ws_steal ws = None /\
                                ws_pending ws = [] /\ ws_n2p ws = [].
  Proof. unfold sys_init. cbn [y_d d_sched]. rewrite Hmode. cbn. eexists. split; [reflexivity|]. cbn. auto. Qed.

  Lemma TI_init : TI (sys_init c) 0.
  Proof.
    destruct init_sched as (ws & E & _ & Es & _). exists ws. split; [exact E|]. split; [intros F; congruence|].
    intros _ v w Hv. congruence.
  Qed.

  Lemma aget_const_map {V} (v : V) l n x : aget n (map (fun k => (k, v)) l) = Some x -> x = v.
  Proof.
    induction l as [|a l IH]; cbn; [discriminate|]. destruct (Nat.eqb n a); [intros E; inv E; reflexivity|exact IH].
  Qed.

  Lemma SH_init : SH (sys_init c).
  Proof.
    intros ws n w _ Hw Hp. unfold sys_init in Hw. cbn [y_w] in Hw. apply aget_const_map in Hw. subst w. discriminate.
  Qed.

  Lemma RNGs_init : RNGs c (sys_init c).
  Proof.
    destruct init_sched as (ws & E & _ & _ & Ep & En). exists ws. split; [exact E|]. split.
    - rewrite Ep. intros i [].
    - intros n i. unfold bkw. rewrite En. intros [].
  Qed.

  Lemma Psi_init : Psi c (sys_init c) 0 = 8 * Tsum c + 1.
  Proof.
    destruct init_sched as (ws & E & Ec & Es & _). unfold Psi. rewrite E. unfold psiw, Uw, Fw. rewrite Ec, Es. lia.
  Qed.

  (* the number and the price of the steal requests issued along a run of moves without crash labels *)
  Lemma run_requests_from ls : forall s h, (exists P, CInvG c P s) -> SH s -> TI s h -> RNGs c s -> useful_run c s ls ->
    run_requests c s ls <= Psi c s h /\ run_price c s ls <= PRmax c * run_requests c s ls.
  Proof.
    induction ls as [|l r IH]; intros s h CI HS HT HR H; [cbn; lia|]. cbn [useful_run] in H. destruct H as (A & B & H).
    cbn [run_requests run_price]. destruct (sys_step c s l) as [[[s' o] w]|] eqn:E; [|destruct H].
    destruct CI as (P & CI).
    destruct (step_psi c Hnocrash P s l s' o w h A CI HS HT E) as (h' & HT' & HP).
    pose proof (step_sh c Hnocrash P s l s' o w A CI HS E) as HS'.
    destruct (step_rng c Hnocrash P s l s' o w A CI HR E) as (HR' & HC).
    pose proof (step_cinvw c Hnocrash Hnogarbled Hids P s l s' o w A CI E) as CI'.
    destruct (IH s' h' CI' HS' HT' HR' H) as (I1 & I2). split; [lia|nia].
  Qed.

  (* the number of steal requests issued along a run of useful moves *)
  Theorem run_requests_bound : forall ls, useful_run c (sys_init c) ls ->
    run_requests c (sys_init c) ls <= 8 * Tsum c + 1.
  Proof.
    intros ls H. rewrite <- Psi_init.
    apply (run_requests_from ls (sys_init c) 0); [|apply SH_init|apply TI_init|apply RNGs_init|exact H].
    exists (fun _ => false). apply CInvW_init; assumption.
  Qed.

  Theorem run_price_bound : forall ls, useful_run c (sys_init c) ls ->
    run_price c (sys_init c) ls <= PRmax c * (8 * Tsum c + 1).
  Proof.
    intros ls H.
    assert (CI : exists P, CInvG c P (sys_init c)) by (exists (fun _ => false); apply CInvW_init; assumption).
    destruct (run_requests_from ls (sys_init c) 0 CI SH_init TI_init RNGs_init H) as (I1 & I2). rewrite Psi_init in I1.
    pose proof (PRmax c). nia.
  Qed.

  (* C02, termination, --dist worksteal: every run of useful moves is at most this long *)
  Definition ws_bound : nat := muw c (sys_init c) + PRmax c * (8 * Tsum c + 1).

  Theorem c02_ws_terminates_bound : forall ls, useful_run c (sys_init c) ls -> length ls <= ws_bound.
  Proof.
    intros ls H. pose proof (useful_run_bound_ws c Hmode Hnocrash Hnogarbled Hids Hnodes ls H) as X.
    pose proof (run_price_bound ls H). unfold ws_bound. lia.
  Qed.

  Theorem c02_ws_terminates : exists B, forall ls, useful_run c (sys_init c) ls -> length ls <= B.
  Proof. exists ws_bound. exact c02_ws_terminates_bound. Qed.
End MainT2.

Print Assumptions c02_ws_terminates.
Print Assumptions c02_ws_terminates_bound.
Print Assumptions run_price_bound.
Print Assumptions run_requests_bound.
Print Assumptions step_psi.
Print Assumptions step_sh.
Check c02_ws_terminates.
Check c02_ws_terminates_bound.
Check run_requests_bound.
Check run_price_bound.
Check step_psi.
Check step_sh.
Check step_rng.
Check pot_ctl.
Check loop_zw.
Check check_Z.
Check steal_outcome.

(* ====================================================================================== *)
(* Non-vacuity                                                                              *)
(* ====================================================================================== *)
(* the potential along a schedule, evaluated: the ghost bit is computed by hnext at every iteration of the
   controller's loop *)
Fixpoint psi_trace (c : config) (s : sys) (h : nat) (ls : list label) : list (nat * nat) :=
  match ls with
  | [] => [(Psi c s h, 0)]
  | l :: r => match sys_step c s l with
              | Some (s', o, _) =>
                  let h' := match l, y_evq s with LCtl, ev :: _ => hnext ev (steal_of s) h | _, _ => h end in
                  (Psi c s h, length (steal_reqs o)) :: psi_trace c s' h' r
              | None => [(Psi c s h, 0)]
              end
  end.
Definition psi_ok (t : list (nat * nat)) : bool :=
  (fix go (t : list (nat * nat)) : bool :=
     match t with
     | (m, k) :: (((m', _) :: _) as r) => (m' + k <=? m) && go r
     | _ => true
     end) t.


(* (a) the greedy schedule of TerminationSteal.termw_ex_greedy (3 workers, 12 tests, 233 moves, two requests): the
   ingredients of the bound ws_bound c = muw c (sys_init c) + PRmax c * (8 * Tsum c + 1) = 1491 + 1445 * 289, the
   bound 289 on the number of requests, and the potential: it never goes up, goes down by at least one with
   every request, and ends at 1 *)
Example term2_ex_greedy :
  let c := c01w_cfg in
  let ls := greedy c (sys_init c) 2000 in
  Tsum c = 36 /\ Psi c (sys_init c) 0 = 289 /\ PRmax c = 1445 /\ muw c (sys_init c) = 1491 /\
  length ls = 233 /\ run_requests c (sys_init c) ls = 2 /\
  psi_ok (psi_trace c (sys_init c) 0 ls) = true /\
  last (psi_trace c (sys_init c) 0 ls) (0, 0) = (1, 0).
Proof. vm_compute. repeat split; reflexivity. Qed.

(* (b) the schedule of TerminationSteal.termw_ex_refused (4 workers, 15 tests): three requests, every one of them
   refused; each refused reply is paid for by a completion of the victim handled during the round trip; the
   potential at the three iterations that issue a request *)
Example term2_ex_refused :
  let c := termw_cfg4 in
  let ls := pri_run termw_score c (sys_init c) 3000 in
  length ls = 244 /\ run_requests c (sys_init c) ls = 3 /\ run_refused c (sys_init c) ls = 3 /\
  Psi c (sys_init c) 0 = 481 /\ psi_ok (psi_trace c (sys_init c) 0 ls) = true /\
  filter (fun x => negb (Nat.eqb (snd x) 0)) (psi_trace c (sys_init c) 0 ls) = [(97, 1); (72, 1); (50, 1)].
Proof. vm_compute. repeat split; reflexivity. Qed.

(* (c) workers' own sessions stop (after test 9) while requests are in flight (3 workers, 14 tests; the main
   thread of worker 1 is served last): three requests, one of them refused, the session ends as "interrupted";
   the theorem needs no hypothesis on stop requests *)
Definition term2_score (l : label) : nat :=
  match l with LMain 1 => 7 | LMain _ => 0 | LRecv _ => 1 | LCtl => 2 | LRecvW _ => 3 | LDeliver _ => 4 | _ => 9 end.
Definition term2_stop_cfg : config := ws_cfg 3 14 0%Z (fun n i => Nat.eqb i 9) (fun _ => [Passed]).
Example term2_ex_stop :
  let c := term2_stop_cfg in
  let ls := pri_run term2_score c (sys_init c) 3000 in
  length ls = 252 /\ run_requests c (sys_init c) ls = 3 /\ run_refused c (sys_init c) ls = 1 /\
  psi_ok (psi_trace c (sys_init c) 0 ls) = true /\ useful_run c (sys_init c) ls /\
  y_result (sys_run c ls) = Some RInterrupted /\ ~ no_stop c.
Proof.
  cbv zeta. split; [vm_compute; reflexivity|]. split; [vm_compute; reflexivity|]. split; [vm_compute; reflexivity|].
  split; [vm_compute; reflexivity|]. split; [apply useful_runb_ok; vm_compute; reflexivity|].
  split; [vm_compute; reflexivity|]. intros H. specialize (H 0 9). discriminate.
Qed.

Lemma term2_cfg_hyps nodes k stop rep :
  0 < nodes -> (forall i, ~ In Garbled (rep i)) ->
  let c := ws_cfg nodes k 0%Z stop rep in
  c_mode c = MSteal /\ (forall n i, c_crash_in c n i = false) /\ no_garbled c /\
  (forall n, ~ In ""%string (c_coll c n)) /\ 0 < c_numnodes c.
Proof.
  intros Hn Hg. cbv zeta. split; [reflexivity|]. split; [reflexivity|]. split.
  { intros n i H. cbn in H. exact (Hg i H). }
  split; [|exact Hn].
  intros n H. cbn [ws_cfg c_coll] in H. unfold ws_names in H. apply in_map_iff in H. destruct H as (i & F & _). discriminate.
Qed.

(* the theorems apply to (a), (b), (c) *)
Example term2_ex_theorem_applies :
  (let c := c01w_cfg in let ls := greedy c (sys_init c) 2000 in
   length ls <= ws_bound c /\ run_requests c (sys_init c) ls <= 8 * Tsum c + 1) /\
  (let c := termw_cfg4 in let ls := pri_run termw_score c (sys_init c) 3000 in
   length ls <= ws_bound c /\ run_requests c (sys_init c) ls <= 8 * Tsum c + 1) /\
  (let c := term2_stop_cfg in let ls := pri_run term2_score c (sys_init c) 3000 in
   length ls <= ws_bound c /\ run_requests c (sys_init c) ls <= 8 * Tsum c + 1).
Proof.
  cbv zeta. split; [|split].
  - destruct c01w_cfg_hyps as (H1 & H2 & H3 & H4 & H5 & _).
    assert (U : useful_run c01w_cfg (sys_init c01w_cfg) (greedy c01w_cfg (sys_init c01w_cfg) 2000))
      by (apply useful_runb_ok; vm_compute; reflexivity).
    split; [apply c02_ws_terminates_bound; assumption|apply run_requests_bound; assumption].
  - destruct (term2_cfg_hyps 4 15 (fun _ _ => false) (fun _ => []) ltac:(lia) ltac:(intros i [])) as (H1 & H2 & H3 & H4 & H5).
    assert (U : useful_run termw_cfg4 (sys_init termw_cfg4) (pri_run termw_score termw_cfg4 (sys_init termw_cfg4) 3000))
      by (apply useful_runb_ok; vm_compute; reflexivity).
    split; [apply c02_ws_terminates_bound; assumption|apply run_requests_bound; assumption].
  - destruct (term2_cfg_hyps 3 14 (fun n i => Nat.eqb i 9) (fun _ => [Passed]) ltac:(lia) ltac:(intros i [F|[]]; discriminate)) as (H1 & H2 & H3 & H4 & H5).
    assert (U : useful_run term2_stop_cfg (sys_init term2_stop_cfg) (pri_run term2_score term2_stop_cfg (sys_init term2_stop_cfg) 3000))
      by (apply useful_runb_ok; vm_compute; reflexivity).
    split; [apply c02_ws_terminates_bound; assumption|apply run_requests_bound; assumption].
Qed.
Print Assumptions term2_ex_theorem_applies.
