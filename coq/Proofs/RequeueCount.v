(* RequeueCount.v -- property C15 for --dist load: "when a plugin re-queues a crashed test from the
   crash-handling hook, that test is executed again exactly once per re-queue", with ARBITRARY worker crashes
   (LCrash labels, c_crash_in), replacement workers, ANY plugin budget c_requeue c, any schedule.

   Hypotheses of all main theorems: c_mode c = MLoad, no_garbled c, 0 < c_numnodes c.  Nothing else
   (workers may collect different lists; strict or lazy channels; any restart budget; duplicate ids allowed
   unless stated).

   Proved (Part E-G, all closed under the global context):
   (1) requeue_at_most_once_per_requeue : count_occ (started s) i <= 1 + requeued_count i
       requeue_budget, requeue_total_starts : |requeued| + d_requeue = c_requeue c; |started| <= |coll| + c_requeue c
       requeue_of_crash_report : what requeued_in_run counts -- a controller turn that emits a crash report for
         id t while d_requeue > 0 appends the first index of t to requeued_in_run and decrements d_requeue
   (2) requeue_conservation : pool ++ holdings ++ crashed ~ seq 0 |coll| ++ requeued           (any ids)
       requeue_same_index, requeue_conservation_nodup (ids distinct: forall k, NoDup (c_coll c k)):
         crashed ~ requeued ++ crashed_for_good  and  pool ++ holdings ++ crashed_for_good ~ seq 0 |coll|
   (3) requeue_exact_at_finished_end : at y_result = Some RFinished,
         pool ++ started ++ crashed_unstarted ~ seq 0 |coll| ++ requeued
       requeue_exactly_once_per_requeue : per index i < |coll|
         #started i + #crash reports of i without start + #pool i = 1 + #re-queues of i

   Architecture: the system invariant XInv of CrashTheorems.v (holds in every reachable state) carries the
   book coupling; CrashTokens.v's token invariant TInv needs d_requeue = 0, so it is redone here as RInv with
   a ghost list of re-queued indices.  Part A shows that every handler except the errordown handler is
   independent of d_requeue (RI), which lets the token law he_tok' of CrashCoupling.v (proved there for
   d_requeue = 0) be reused for every budget; Part B adds the errordown handler with re-queueing. *)
From XV Require Import Base Worker Ctl SchedLoad SchedSteal SchedScope SchedEach Sched DSession System
  NoHook DSessionProofs WorkerProofs LoadProofs FifoProofs ExactlyOnce Coupling CrashCoupling CrashTheorems CrashTokens SystemCorollariesRequeue SystemCorollariesColl.
From Coq Require Import Permutation.
Open Scope nat_scope.
From XV Require Import Base Worker Ctl SchedLoad SchedSteal SchedScope SchedEach Sched DSession System
  NoHook DSessionProofs WorkerProofs LoadProofs FifoProofs ExactlyOnce Coupling CrashCoupling CrashTheorems CrashTokens SystemCorollariesRequeue SystemCorollariesColl.
From Coq Require Import Permutation.
Open Scope nat_scope.

Definition rqlift {A} (k : nat) (x : dstate * list out * result A) : dstate * list out * result A :=
  let '(d', o, r) := x in (d_set_requeue d' k, o, r).
Definition RI {A} (f : D A) : Prop := forall d k, f (d_set_requeue d k) = rqlift k (f d).

Ltac dfields := cbn [d_sched d_shuttingdown d_shouldstop d_countfailures d_maxfail d_active d_failed_nodes
  d_max_restart d_collect_seen d_next_gw d_requeue d_set_requeue d_set_sched d_set_shuttingdown d_set_shouldstop
  d_set_countfailures d_set_active d_set_failed_nodes d_set_collect_seen d_set_next_gw d_nt d_set_nt rqlift].

Lemma RI_bind {A B} (m : D A) (f : A -> D B) : RI m -> (forall a, RI (f a)) -> RI (mbind m f).
Proof.
  intros Hm Hf d k. unfold mbind. rewrite Hm. destruct (m d) as [[d1 o1] [a|e]]; cbn [rqlift]; [|reflexivity].
  rewrite Hf. destruct (f a d1) as [[d2 o2] r2]. reflexivity.
Qed.
Lemma RI_ret {A} (a : A) : RI (ret a). Proof. intros d k. reflexivity. Qed.
Lemma RI_emit o : RI (emit o). Proof. intros d k. reflexivity. Qed.
Lemma RI_hook h : RI (hook h). Proof. intros d k. reflexivity. Qed.
Lemma RI_mfor {A} (l : list A) (f : A -> D unit) : (forall a, RI (f a)) -> RI (mfor l f).
Proof. intros Hf. induction l as [|x l IH]; cbn [mfor]; [apply RI_ret|]. apply RI_bind; [apply Hf|intros ?; exact IH]. Qed.

Lemma RI_sched_op op : RI (d_sched_op op).
Proof. intros d k. unfold d_sched_op. dfields. destruct (s_step (d_sched d) op) as [[st o] r]. reflexivity. Qed.

Ltac ri_simp := unfold d_nt, d_set_nt in *; repeat (progress (cbv beta iota; dfields; cbn [app fst snd])).
Ltac ri_crush :=
  ri_simp;
  repeat (first [ reflexivity
                | match goal with
                  | |- context [match aget ?n ?m with _ => _ end] => destruct (aget n m); ri_simp
                  | |- context [if ?x then _ else _] => destruct x; ri_simp
                  end ]).

Lemma RI_node_shutdown n : RI (d_node_shutdown n).
Proof.
  intros d k. unfold d_node_shutdown, node_shutdown, node_send, node_flags, mbind, get, put, of_opt, ret, raise, emit.
  ri_crush.
Qed.

Lemma RI_triggershutdown : RI d_triggershutdown.
Proof.
  intros d k. unfold d_triggershutdown. unfold mbind at 1, get. unfold mbind at 2, get. dfields.
  destruct (d_shuttingdown d); [reflexivity|].
  unfold mbind, put. 
  change (d_set_shuttingdown (d_set_requeue d k) true) with (d_set_requeue (d_set_shuttingdown d true) k).
  rewrite (RI_mfor _ _ RI_node_shutdown). 
  destruct (mfor (s_nodes (d_sched d)) d_node_shutdown (d_set_shuttingdown d true)) as [[d1 o1] r1]. reflexivity.
Qed.

Lemma RI_active_remove n : RI (d_active_remove n).
Proof. intros d k. unfold d_active_remove, mbind, get, put, raise. ri_crush. Qed.

Lemma RI_handlefailures b : RI (d_handlefailures b).
Proof. intros d k. unfold d_handlefailures, mbind, get, put, ret. ri_crush. Qed.

Lemma RI_get_if {A} (P : dstate -> bool) (m1 m2 : D A) :
  (forall d k, P (d_set_requeue d k) = P d) -> RI m1 -> RI m2 -> RI (d <- get ;; if P d then m1 else m2).
Proof.
  intros HP H1 H2 d k. unfold mbind, get. rewrite HP. destruct (P d).
  - rewrite H1. destruct (m1 d) as [[d1 o1] r1]. reflexivity.
  - rewrite H2. destruct (m2 d) as [[d1 o1] r1]. reflexivity.
Qed.

Lemma RI_loop_rest : RI loop_rest.
Proof.
  unfold loop_rest. apply RI_bind; [|intros ?]; apply (RI_get_if (fun d => _)); try reflexivity;
    first [apply RI_triggershutdown|apply RI_ret].
Qed.

Lemma RI_get_dep {A} (f : dstate -> D A) :
  (forall d0, RI (f d0)) -> (forall d0 k d, f (d_set_requeue d0 k) d = f d0 d) -> RI (mbind get f).
Proof.
  intros H1 H2 d k. unfold mbind, get. rewrite H2, H1. destruct (f d d) as [[d1 o1] r1]. reflexivity.
Qed.
Lemma RI_if {A} (b : bool) (m1 m2 : D A) : RI m1 -> RI m2 -> RI (if b then m1 else m2).
Proof. destruct b; auto. Qed.
Lemma RI_raise {A} e : RI (@raise dstate A e). Proof. intros d k. reflexivity. Qed.
Lemma RI_massert b : RI (massert b). Proof. destruct b; [apply RI_ret|apply RI_raise]. Qed.

Lemma RI_get_gen {A} (f : dstate -> D A) :
  (forall d k, f (d_set_requeue d k) (d_set_requeue d k) = rqlift k (f d d)) -> RI (mbind get f).
Proof.
  intros H d k. unfold mbind, get. rewrite H. destruct (f d d) as [[d1 o1] r1]. reflexivity.
Qed.
Lemma mbind_put_run {A} (X : dstate) (m : D A) d0 : (put X ;;; m) d0 = m X.
Proof. unfold mbind, put. destruct (m X) as [[d1 o1] r1]. reflexivity. Qed.

Lemma RI_finished n sk : sk <> SKKbd -> RI (d_worker_workerfinished n sk).
Proof.
  intros Hsk. unfold d_worker_workerfinished. apply RI_bind; [apply RI_hook|intros ?]. destruct sk; [| |contradiction].
  - (* SKNone *)
    apply RI_get_dep; [|reflexivity]. intros d0.
    apply RI_bind; [|intros ?; apply RI_active_remove].
    apply RI_if; [|apply RI_ret]. apply RI_bind; [apply RI_sched_op|]. intros r. apply RI_massert.
  - apply RI_bind; [|intros ?; apply RI_active_remove].
    intros d k. unfold mbind, get, put, ret. ri_crush.
Qed.

Lemma RI_handle ev : (forall n, ev <> QErrorDown n) -> (forall n, ev <> QFinished n SKKbd) -> RI (d_handle ev).
Proof.
  intros H1 H2. destruct ev; cbn [d_handle].
  - apply RI_bind; [apply RI_hook|intros ?].
    apply RI_get_dep; [|reflexivity]. intros d0. apply RI_if; [apply RI_node_shutdown|].
    apply RI_bind; [apply RI_sched_op|intros ?; apply RI_ret].
  - apply RI_get_dep; [|reflexivity]. intros d0. apply RI_if; [apply RI_ret|]. apply RI_if; [apply RI_ret|].
    apply RI_bind; [apply RI_hook|intros ?]. apply RI_bind; [apply RI_sched_op|intros ?].
    apply RI_get_dep; [|reflexivity]. intros d1. apply RI_if; [|apply RI_ret].
    apply RI_bind; [apply RI_sched_op|intros ?; apply RI_ret].
  - apply RI_get_gen. intros d k. ri_simp. destruct (mem_nat key (d_collect_seen d)); [reflexivity|].
    rewrite !mbind_put_run.
    change (d_set_collect_seen (d_set_requeue d k) (key :: d_collect_seen d)) with (d_set_requeue (d_set_collect_seen d (key :: d_collect_seen d)) k).
    apply RI_bind; [apply RI_hook|intros ?; apply RI_handlefailures].
  - apply RI_hook.
  - apply RI_hook.
  - apply RI_bind; [apply RI_hook|intros ?; apply RI_handlefailures].
  - apply RI_bind; [apply RI_sched_op|intros ?; apply RI_ret].
  - apply RI_bind; [apply RI_sched_op|intros ?; apply RI_ret].
  - apply RI_hook.
  - apply RI_bind; [apply RI_active_remove|intros ?; apply RI_hook].
  - apply RI_finished. intros ->. apply (H2 n). reflexivity.
  - exfalso. apply (H1 n). reflexivity.
Qed.

Lemma RI_loop_once ev : (forall n, ev <> QErrorDown n) -> (forall n, ev <> QFinished n SKKbd) -> RI (d_loop_once ev).
Proof. intros H1 H2. rewrite loop_once_unfold. apply RI_bind; [apply RI_handle; assumption|intros ?; apply RI_loop_rest]. Qed.

Lemma RI_requeue_same {A} (f : D A) d d' o r : RI f -> f d = (d', o, r) -> d_requeue d' = d_requeue d.
Proof.
  intros H E. specialize (H d (d_requeue d)).
  assert (Ed : d_set_requeue d (d_requeue d) = d) by (destruct d; reflexivity).
  rewrite Ed, E in H. cbn [rqlift] in H. injection H as H. rewrite H. reflexivity.
Qed.

Lemma RI_of_opt {A} (x : option A) e : RI (of_opt x e).
Proof. destruct x; [apply RI_ret|apply RI_raise]. Qed.

Lemma RI_clone n : RI (d_clone_node n).
Proof.
  unfold d_clone_node. apply RI_get_dep; [|reflexivity]. intros d0.
  apply RI_bind; [apply RI_of_opt|intros f]. cbv zeta.
  apply RI_bind; [apply RI_sched_op|intros ?].
  apply RI_get_gen. intros d k. rewrite !mbind_put_run.
  apply (RI_hook _ (d_set_active (d_set_next_gw d (S (d_next_gw d0))) (d_active d ++ [d_next_gw d0])) k).
Qed.

Lemma RI_errordown_tail n : RI (SystemCorollariesRequeue.errordown_tail n).
Proof.
  unfold SystemCorollariesRequeue.errordown_tail. apply RI_get_gen. intros d k. cbv zeta. rewrite !mbind_put_run. ri_simp.
  change (d_set_failed_nodes (d_set_requeue d k) (d_failed_nodes d + 1)%Z) with (d_set_requeue (d_set_failed_nodes d (d_failed_nodes d + 1)%Z) k).
  generalize (d_set_failed_nodes d (d_failed_nodes d + 1)%Z). intros d0. revert d0 k.
  assert (RS : RI (d2 <- get ;; put (d_set_shuttingdown d2 false))).
  { apply RI_get_gen. intros d0 k. reflexivity. }
  apply RI_bind; [|intros ?; apply RI_active_remove].
  destruct (d_max_restart d) as [m|].
  - apply RI_if.
    + apply RI_bind; [apply RI_hook|intros ?; apply RI_triggershutdown].
    + apply RI_bind; [exact RS|intros ?; apply RI_clone].
  - apply RI_bind; [exact RS|intros ?; apply RI_clone].
Qed.

(* ====================================================================================== *)
(* Part B: token accounting of one controller turn, for ANY re-queue budget                  *)
(* ====================================================================================== *)
(* the FIRST index of the collection that carries the id of index i (i itself when ids are distinct) *)
Definition first_idx (X : option (list string)) (i : nat) : list nat :=
  match X with
  | Some coll => match nth_error coll i with
                 | Some t => match index_of_str t coll with Some j => [j] | None => [] end
                 | None => []
                 end
  | None => []
  end.

(* what the handler of ev puts back into the pool when a plugin re-queues the crash item *)
Definition rq_of (d : dstate) (ls : lstate) (ev : cevent) : list nat :=
  match d_requeue d, ev with
  | S _, QErrorDown n => flat_map (first_idx (l_coll ls)) (firstn 1 (bk ls n))
  | _, _ => []
  end.

Section TokR.
Variable N : nat.
Variable collf : nat -> list string.
Hypothesis HN : 0 < N.

Lemma try_block_tok n d ls d1 o1 r :
  DJ0' N collf d ls -> try_block n d = (d1, o1, r) ->
  exists ls1, d_sched d1 = StL ls1 /\ l_coll ls1 = l_coll ls /\
    d_requeue d = d_requeue d1 + length (rq_of d ls (QErrorDown n)) /\
    Permutation (firstn 1 (bk ls n) ++ tokens ls1) (rq_of d ls (QErrorDown n) ++ tokens ls).
Proof.
  intros [Els J Jb K1 RS K2 EX RQ AL FN] H. unfold try_block in H.
  rewrite (sched_op_run _ d ls Els) in H. cbn [s_step] in H.
  destruct (l_remove_node n ls) as [[ls2 o2] r2] eqn:Er. cbn [lift] in H.
  assert (RQ0 : forall b, b = [] -> match d_requeue d with 0 => [] | S _ => flat_map (first_idx (l_coll ls)) (firstn 1 b) end = []).
  { intros b ->. destruct (d_requeue d); reflexivity. }
  unfold rq_of.
  destruct (aget n (l_n2p ls)) as [[|i rest]|] eqn:Eb.
  - (* empty book *)
    destruct (remove_empty_facts N collf HN _ n ls J Eb) as (Er' & Fn & Fq & Fc & Fbk & Fnodes & Fn2c & Fcomp & J1).
    rewrite Er' in Er. inv Er. inv H. exists (rm_state n ls). split; [reflexivity|]. split; [exact Fc|].
    assert (B0 : bk ls n = []) by (unfold bk, alist_get; rewrite Eb; reflexivity).
    rewrite (RQ0 _ B0), B0. cbn [length firstn app d_requeue d_set_sched]. split; [lia|].
    rewrite (remove_empty_tokens n ls Eb). reflexivity.
  - assert (Hcoll : l_coll ls <> None) by (eapply books_nonempty_coll; eauto).
    assert (EXc : exists X, l_coll ls = Some X) by (destruct (l_coll ls) as [X|]; [eauto|contradiction]).
    destruct EXc as (X & Ecoll).
    assert (Hi : i < length X).
    { apply (lj_valid' _ _ _ _ J X Ecoll). unfold tokens, books. apply in_or_app. right.
      destruct (aget_split _ _ _ _ Eb) as (pre & post & Hm & _). rewrite Hm, flat_map_app. apply in_or_app. right.
      cbn. left. reflexivity. }
    destruct (nth_error X i) as [item|] eqn:Enth; [|apply nth_error_None in Enth; lia].
    destruct (rm_mid_LJ N collf HN _ n ls i rest J Eb) as (J0s & Fn & Fc & Fbk & Fnodes & Fn2c & Ftok).
    cbv zeta in J0s, Fn, Fc, Fbk, Fnodes, Fn2c, Ftok.
    assert (HX0 : X <> []) by (intros E; rewrite E in Hi; cbn in Hi; lia).
    assert (Hk : forall m, In m (akeys (adel n (l_n2p ls))) -> aget m (l_nt ls) <> None).
    { intros m Hm. apply (nodes_known' _ _ _ ls J). eapply adel_keys_incl; eauto. }
    destruct (remove_node_TRv _ _ _ _ _ _ _ _ _ Eb Ecoll Enth Hk (lj_chunk' _ _ _ _ J X Ecoll HX0) Er) as (-> & vo & T & Evo).
    cbn [lift] in H.
    destruct (l_remove_node_L6 _ _ _ _ _ _ _ _ _ Er Eb Ecoll Enth) as (_ & _ & _ & P & Ec2).
    assert (V1 : valid ls2).
    { intros coll Ec x Hx. rewrite Ec2 in Ec. injection Ec as <-. apply (lj_valid' _ _ _ _ J X Ecoll).
      eapply Permutation_in; [exact P|]. right. exact Hx. }
    assert (J1 : LJ' N collf (d_next_gw d) ls2).
    { eapply LJ'_TR; [exact J0s|apply T| |exact V1]. rewrite Fc. exact Hcoll. }
    assert (B0 : bk ls n = i :: rest) by (unfold bk, alist_get; rewrite Eb; reflexivity).
    rewrite B0. cbn [firstn flat_map]. unfold first_idx. rewrite Ecoll, Enth.
    unfold d_handle_crashitem, hook in H. rewrite mbind_emit, mbind_get in H. cbn [d_requeue d_set_sched] in H.
    destruct (d_requeue d) as [|k] eqn:Erq.
    + rewrite mbind_ret in H. unfold emit in H. inv H. exists ls2. split; [reflexivity|]. split; [congruence|].
      cbn [d_requeue d_set_sched length app]. split; [lia|]. exact P.
    + unfold mbind, put in H.
      rewrite (sched_op_run _ (d_set_requeue (d_set_sched d (StL ls2)) k) ls2 eq_refl) in H. cbn [s_step] in H.
      destruct (l_mark_test_pending item ls2) as [[ls3 o3] r3] eqn:Emp. cbn [lift] in H.
      assert (Hitem : In item X) by (eapply nth_error_In; eauto).
      destruct (mark_pending_eff N collf HN _ item ls2 ls3 o3 r3 X J1 Ec2 Hitem Emp) as (-> & _).
      destruct (index_of_str_in _ _ Hitem) as (idx & Ei). rewrite Ei.
      destruct (l_mark_test_pending_L7 _ _ _ _ _ _ Emp Ec2 Ei) as (P3 & _ & _ & K3).
      unfold no_str, ret, emit in H. cbn [app] in H. inv H.
      exists ls3. split; [reflexivity|]. split; [destruct K3 as (Kc3 & _); congruence|].
      cbn [d_requeue d_set_sched d_set_requeue length app flat_map]. split; [lia|].
      rewrite P3. cbn [app]. rewrite perm_swap. apply perm_skip. exact P.
  - apply l_remove_node_unknown in Er; [|exact Eb]. destruct Er as (-> & -> & ->). inv H.
    exists ls. split; [reflexivity|]. split; [reflexivity|].
    assert (B0 : bk ls n = []) by (unfold bk; apply alist_get_none; exact Eb).
    rewrite (RQ0 _ B0), B0. cbn [length firstn app d_requeue d_set_sched]. split; [lia|reflexivity].
Qed.

Lemma DJ'_requeue d ls k : DJ' N collf d ls -> DJ' N collf (d_set_requeue d k) ls.
Proof.
  intros ([Els J Jb K1 RS K2 EX RQ AL FN] & A & B & C). split; [|split; [exact A|split; [exact B|exact C]]].
  constructor; assumption.
Qed.

Lemma loop_once_tokR ev d ls d' o r ls' :
  DJ' N collf d ls -> d_active d <> [] -> PRE' collf ev d ls ->
  d_loop_once ev d = (d', o, r) -> d_sched d' = StL ls' ->
  d_requeue d = d_requeue d' + length (rq_of d ls ev) /\
  (forall X, l_coll ls = Some X -> l_coll ls' = Some X) /\
  (forall coll, l_coll ls' = Some coll ->
     Permutation (evtok ev ls ++ tokens ls')
                 (rq_of d ls ev ++ match l_coll ls with Some _ => tokens ls | None => seq 0 (length coll) end)).
Proof.
  intros DJd Hact Hpre El Els'.
  destruct (loop_once_ok' N collf HN ev d ls d' o r DJd Hact Hpre El) as (-> & ls1 & vo & _ & E & _).
  assert (ls1 = ls') by (pose proof (dj_sched' _ _ _ _ (he_dj' _ _ _ _ _ _ _ _ E)); congruence). subst ls1.
  assert (ZERO : d_requeue d = 0 -> rq_of d ls ev = []) by (intros Z; unfold rq_of; rewrite Z; reflexivity).
  destruct (d_requeue d) as [|k] eqn:Erq.
  { rewrite (ZERO eq_refl). destruct (he_tok' _ _ _ _ _ _ _ _ E Erq) as (R' & Mono & Pt). cbn [length app]. split; [lia|]. split; assumption. }
  clear ZERO.
  destruct (classic_errd ev) as [(n & ->)|Hne].
  - (* errordown: the crash item may be re-queued *)
    rewrite loop_once_unfold in El. apply LoadProofs.mbind_inv in El.
    destruct El as [(e & _ & F)|(d1 & o1 & [] & o2 & H1 & H2 & ->)]; [discriminate|].
    cbn [d_handle] in H1. rewrite SystemCorollariesRequeue.errordown_unfold2 in H1.
    unfold hook in H1. rewrite mbind_emit in H1.
    destruct ((try_block n;;; SystemCorollariesRequeue.errordown_tail n) d) as [[dx ox] rx] eqn:H1'. inv H1.
    apply LoadProofs.mbind_inv in H1'.
    destruct H1' as [(e & _ & F)|(da & oa & [] & ob & Ha & Hb & ->)]; [discriminate|].
    destruct DJd as (DJ0 & _).
    destruct (try_block_tok n d ls da oa (Ok tt) DJ0 Ha) as (lsa & Ela & Eca & Rqa & Pa).
    destruct (SystemCorollariesRequeue.tk_errordown_tail n da _ _ _ Hb) as (CEb & _).
    destruct (SystemCorollariesRequeue.tk_loop_rest d1 _ _ _ H2) as (CE2 & _).
    pose proof (RI_requeue_same _ _ _ _ _ (RI_errordown_tail n) Hb) as Rb.
    pose proof (RI_requeue_same _ _ _ _ _ RI_loop_rest H2) as R2.
    rewrite CEb, Ela, Els' in CE2. unfold SystemCorollariesRequeue.core in CE2. cbn in CE2.
    injection CE2 as C1 C2 C3.
    assert (Etok : tokens ls' = tokens lsa) by (apply tokens_eq; assumption).
    rewrite <- Erq. split; [rewrite R2, Rb; exact Rqa|].
    split; [intros X HX; congruence|].
    intros coll Ec. cbn [evtok]. rewrite Etok.
    destruct (l_coll ls) as [X|] eqn:Ecl; [exact Pa|]. congruence.
  - (* any other event: the handler does not look at the budget *)
    assert (Hk : forall n, ev <> QFinished n SKKbd).
    { intros n ->. cbn in Hpre. exact Hpre. }
    pose proof (RI_loop_once ev Hne Hk d 0) as E0. rewrite El in E0. cbn [rqlift] in E0.
    pose proof (RI_requeue_same _ _ _ _ _ (RI_loop_once ev Hne Hk) El) as Rq.
    assert (Hpre0 : PRE' collf ev (d_set_requeue d 0) ls) by (destruct ev; exact Hpre).
    destruct (loop_once_ok' N collf HN ev _ ls _ o (Ok tt) (DJ'_requeue d ls 0 DJd) Hact Hpre0 E0) as (_ & ls0 & vo0 & _ & E' & _).
    assert (ls0 = ls') by (pose proof (dj_sched' _ _ _ _ (he_dj' _ _ _ _ _ _ _ _ E')) as X; cbn in X; congruence). subst ls0.
    destruct (he_tok' _ _ _ _ _ _ _ _ E' eq_refl) as (_ & Mono & Pt).
    assert (Z : rq_of d ls ev = []) by (unfold rq_of; rewrite Erq; destruct ev; try reflexivity; exfalso; eapply Hne; reflexivity).
    rewrite Z. cbn [length app]. split; [rewrite Rq, Erq; lia|]. split; assumption.
Qed.
End TokR.


(* ====================================================================================== *)
(* Part C: the token accounts of the whole system, with re-queueing                         *)
(* ====================================================================================== *)
(* cr: the indices reported as crashed so far; rq: the indices put back into the pool by the plugin so far;
   H: the completions handled so far (all ghosts); B: the plugin's budget at the start *)
Record RInv (B : nat) (s : sys) (cr rq H : list nat) : Prop := {
  r_keys : NoDup (akeys (y_w s));
  r_pre : the_coll s = None -> H = [] /\ cr = [] /\ rq = [];
  r_acc : forall ls coll, d_sched (y_d s) = StL ls -> l_coll ls = Some coll ->
          Permutation (tokens ls ++ H ++ cr) (seq 0 (length coll) ++ rq);
  r_done : Permutation (DONE s) (H ++ INFL s);
  r_dh : sub (DH s) cr;
  r_budget : d_requeue (y_d s) + length rq = B;
}.

Lemma RInv_view B s s' cr rq H :
  (exists ls, d_sched (y_d s) = StL ls) -> dview_same (y_d s) (y_d s') ->
  NoDup (akeys (y_w s')) -> Permutation (DONE s') (H ++ INFL s') -> sub (DH s') cr ->
  RInv B s cr rq H -> RInv B s' cr rq H.
Proof.
  intros EL DV ND PD SD [K P A D Hh Bg]. pose proof DV as (V1 & V2 & V3). constructor.
  - exact ND.
  - rewrite (the_coll_view s s' DV EL). exact P.
  - intros ls' coll E' C'. destruct EL as (ls & E). destruct (V3 ls E) as (ls2 & E2 & C2 & T2).
    assert (ls2 = ls') by congruence. subst ls2. rewrite T2. apply (A ls coll E). congruence.
  - exact PD.
  - exact SD.
  - rewrite V1. exact Bg.
Qed.

(* a worker step: it completes the tests whose completion it emits *)
Lemma RInv_worker B s s' n0 w0 w' sg cr rq H :
  (exists ls, d_sched (y_d s) = StL ls) ->
  aget n0 (y_w s) = Some w0 -> mem_nat n0 (y_dead s) = false ->
  y_w s' = aset n0 w' (y_w s) -> y_d s' = y_d s -> y_dead s' = y_dead s ->
  (forall k, sigs s' k = if Nat.eqb k n0 then sigs s n0 ++ sg else sigs s k) ->
  done_w w' = done_w w0 ++ completes sg ->
  RInv B s cr rq H -> RInv B s' cr rq H.
Proof.
  intros EL Ew Hd Ey Ed Edd Sg Hdone T. pose proof T as [K P A D Hh Bg].
  assert (Ek : akeys (y_w s') = akeys (y_w s)) by (rewrite Ey; apply akeys_aset_in; eapply aget_some_in; eauto).
  apply (RInv_view B s s' cr rq H EL); [rewrite Ed; apply dview_refl|rewrite Ek; exact K| | |exact T].
  - assert (P1 : Permutation (DONE s') (DONE s ++ completes sg)).
    { unfold DONE. rewrite Ey. apply (fmkv_aset (fun _ w => done_w w) n0 w' w0); assumption. }
    assert (P2 : Permutation (INFL s') (INFL s ++ completes sg)).
    { unfold INFL. rewrite Ek. apply (fm_keys_change (fun n => completes (sigs s n)) (fun n => completes (sigs s' n)) n0).
      - exact K.
      - eapply aget_some_in; eauto.
      - intros k Hk. rewrite Sg. apply Nat.eqb_neq in Hk. rewrite Hk. reflexivity.
      - rewrite Sg, Nat.eqb_refl, completes_app. reflexivity. }
    rewrite P1, P2, D, app_assoc. reflexivity.
  - assert (E : DH s' = DH s).
    { unfold DH. rewrite Ey.
      rewrite (fmkv_ext (fun k w => if gone s' k then firstn 1 (owed_w w) else []) (fun k w => if gone s k then firstn 1 (owed_w w) else [])).
      - apply (fmkv_aset_same _ n0 w' w0); [exact Ew|]. unfold gone. rewrite Hd. reflexivity.
      - intros k v _. unfold gone. rewrite Edd, Ed. reflexivity. }
    rewrite E. exact Hh.
Qed.



(* two list lemmas of CrashTokens.v, re-proved here because the originals were generalised over that file's
   section hypothesis c_requeue c = 0 *)
Lemma fm_superset_r (f : nat -> list nat) (K0 : list nat) : forall K,
  NoDup K0 -> NoDup K -> incl K0 K -> (forall k, In k K -> ~ In k K0 -> f k = []) ->
  Permutation (flat_map f K) (flat_map f K0).
Proof.
  induction K0 as [|a K0 IH]; intros K ND0 ND Hi Hz.
  - rewrite flat_map_nil_in; [reflexivity|]. intros k Hk. apply Hz; [exact Hk|intros []].
  - inversion ND0 as [|a' l' Ha ND0']; subst.
    assert (Hin : In a K) by (apply Hi; left; reflexivity).
    destruct (in_split _ _ Hin) as (l1 & l2 & ->).
    assert (ND' : NoDup (l1 ++ l2)) by (eapply NoDup_remove_1; eauto).
    assert (Hna : ~ In a (l1 ++ l2)) by (eapply NoDup_remove_2; eauto).
    rewrite flat_map_app. cbn [flat_map]. rewrite <- (IH (l1 ++ l2) ND0' ND').
    + rewrite flat_map_app. permc.
    + intros k Hk. assert (Hk' : In k (l1 ++ a :: l2)) by (apply Hi; right; exact Hk).
      apply in_app_or in Hk'. apply in_or_app. destruct Hk' as [X|[X|X]]; auto. subst k. contradiction.
    + intros k Hk Hnk. apply Hz.
      * apply in_app_or in Hk. apply in_or_app. destruct Hk; [left|right; right]; assumption.
      * intros [X|X]; [subst k; contradiction|contradiction].
Qed.

Lemma fmkv_app_perm_r {V} (g1 g2 : nat -> V -> list nat) (m : amap V) :
  Permutation (fmkv (fun k v => g1 k v ++ g2 k v) m) (fmkv g1 m ++ fmkv g2 m).
Proof.
  induction m as [|[k v] m IH]; [reflexivity|]. unfold fmkv in *. cbn [flat_map fst snd]. permc_with IH.
Qed.

Lemma sub_count a b i : sub a b -> count_occ Nat.eq_dec a i <= count_occ Nat.eq_dec b i.
Proof.
  intros (x & Px). rewrite <- (proj1 (Permutation_count_occ Nat.eq_dec _ _) Px i), count_occ_app. lia.
Qed.
Lemma sub_length a b : sub a b -> length a <= length b.
Proof. intros (x & Px). rewrite <- (Permutation_length Px), app_length. lia. Qed.

Lemma count_occ_seq n i : count_occ Nat.eq_dec (seq 0 n) i = if i <? n then 1 else 0.
Proof.
  destruct (i <? n) eqn:E.
  - apply Nat.ltb_lt in E.
    assert (Hin : In i (seq 0 n)) by (apply in_seq; lia).
    pose proof (proj1 (NoDup_count_occ Nat.eq_dec (seq 0 n)) (seq_NoDup n 0) i) as Hle.
    apply (count_occ_In Nat.eq_dec) in Hin. lia.
  - apply Nat.ltb_ge in E. apply count_occ_not_In. intros Hin. apply in_seq in Hin. lia.
Qed.


Section TokRun.
Variable c : config.
Hypothesis Hmode : c_mode c = MLoad.
Hypothesis Hng : no_garbled c.
Hypothesis Hpos : 0 < c_numnodes c.
Variable B : nat.


Lemma step_rinv_nonctl s l s' o w cr rq H :
  l <> LCtl -> XInv c s -> RInv B s cr rq H -> sys_step c s l = Some (s', o, w) -> RInv B s' cr rq H.
Proof.
  intros Hl X T HS. pose proof X as [Lo Hi (ls & DJd & NIs) Eq Eu Ea Er Edead].
  pose proof (xinv_sched c s X) as EL.
  unfold sys_step in HS. destruct (y_result s) eqn:Eres; [discriminate|].
  assert (CRASH : forall n0 w0, mem_nat n0 (y_dead s) = false -> aget n0 (y_w s) = Some w0 -> wph w0 <> PExited ->
            RInv B (crash_worker c s n0) cr rq H).
  { intros n0 w0 Hd Ew Hph.
    destruct (NIs n0 w0 Ew) as (_ & _ & _ & D). rewrite Hd in D. destruct D as [D1 _ _ _ _ _].
    assert (Hact : In n0 (d_active (y_d s))).
    { destruct (in_dec Nat.eq_dec n0 (d_active (y_d s))) as [Hin|Hni]; [exact Hin|].
      destruct (ni_act _ _ _ _ _ _ _ D1 Hni) as (_ & P). contradiction. }
    pose proof (crash_worker_view c s n0) as DV.
    assert (SG : forall k, sigs (crash_worker c s n0) k = sigs s k).
    { intros k. unfold sigs, crash_worker. cbn [y_evq y_up]. destruct (Nat.eq_dec k n0) as [->|Hk].
      - rewrite alist_get_aset_eq, flat_map_app. cbn. rewrite app_nil_r. reflexivity.
      - rewrite alist_get_aset_neq by exact Hk. reflexivity. }
    pose proof T as [K P A D Hh Bg].
    apply (RInv_view B s _ cr rq H EL DV); [exact K| | |exact T].
    - change (DONE (crash_worker c s n0)) with (DONE s). rewrite (INFL_ext s (crash_worker c s n0) eq_refl SG). exact D.
    - rewrite (DH_ext s (crash_worker c s n0) eq_refl); [exact Hh|].
      intros k wk _. unfold gone. change (y_dead (crash_worker c s n0)) with (n0 :: y_dead s).
      destruct DV as (_ & -> & _). rewrite mem_nat_cons. destruct (Nat.eqb k n0) eqn:E; [|reflexivity].
      apply Nat.eqb_eq in E. subst k. rewrite Hd. apply mem_nat_In in Hact. rewrite Hact. reflexivity. }
  destruct l as [n0|n0|n0|n0| |n0]; [| | | |contradiction|].
  - (* LDeliver *)
    destruct (mem_nat n0 (y_dead s)) eqn:Hd; [discriminate|].
    destruct (aget n0 (y_down s)) as [[|cmd rest]|] eqn:Ed; try discriminate.
    destruct (aget n0 (y_w s)) as [w0|] eqn:Ew; try discriminate. inv HS.
    destruct (deliver_owed w0 cmd) as (_ & _ & Ep & Epop & _).
    eapply (RInv_worker B s _ n0 w0 (deliver w0 cmd) []); eauto; try reflexivity.
    + intros k. destruct (Nat.eqb k n0) eqn:E; [apply Nat.eqb_eq in E; subst k; rewrite app_nil_r|]; reflexivity.
    + cbn [completes flat_map]. rewrite app_nil_r. apply done_ext; assumption.
  - (* LRecvW *)
    destruct (mem_nat n0 (y_dead s)) eqn:Hd; [discriminate|].
    destruct (aget n0 (y_w s)) as [w0|] eqn:Ew; try discriminate.
    destruct (negb (wcb w0)); [discriminate|].
    destruct (recv_step (c_oracle c n0) w0) as [w' evs] eqn:Es. inv HS.
    destruct (NIs n0 w0 Ew) as (Iw & Gw & NGw & D). rewrite Hd in D. destruct D as [D1 _ _ _ _ _].
    destruct (recv_step_owed (c_oracle c n0) w0 Gw (proj1 (ni_wx _ _ _ _ _ _ _ D1))) as (Ev & _ & _ & Ep & Epop & _).
    rewrite Es in Ev, Ep, Epop. cbn [fst snd] in Ev, Ep, Epop. subst evs.
    eapply (RInv_worker B s _ n0 w0 w' []); eauto; try reflexivity.
    + intros k. unfold sigs. cbn [push_up set_w y_evq y_up map]. destruct (Nat.eqb k n0) eqn:E.
      * apply Nat.eqb_eq in E. subst k. rewrite alist_get_aset_eq, !app_nil_r. reflexivity.
      * apply Nat.eqb_neq in E. rewrite alist_get_aset_neq by exact E. reflexivity.
    + cbn [completes flat_map]. rewrite app_nil_r. apply done_ext; assumption.
  - (* LMain *)
    destruct (mem_nat n0 (y_dead s)) eqn:Hd; [discriminate|].
    destruct (aget n0 (y_w s)) as [w0|] eqn:Ew; try discriminate.
    destruct (dies_now c n0 w0) eqn:Edie.
    + inv HS. apply (CRASH n0 w0 Hd Ew). unfold dies_now in Edie. destruct (wph w0); discriminate.
    + destruct (main_step (c_oracle c n0) w0) as [[w' evs]|] eqn:Es; [|discriminate]. inv HS.
      destruct (NIs n0 w0 Ew) as (Iw & Gw & NGw & D). rewrite Hd in D. destruct D as [D1 _ _ _ _ _].
      eapply (RInv_worker B s _ n0 w0 w' (flat_map we_sig evs)); eauto; try reflexivity.
      * intros k. unfold sigs. cbn [push_up set_w y_evq y_up]. destruct (Nat.eqb k n0) eqn:E.
        -- apply Nat.eqb_eq in E. subst k. rewrite alist_get_aset_eq, flat_map_app, up_sigs_of_wevents, app_assoc. reflexivity.
        -- apply Nat.eqb_neq in E. rewrite alist_get_aset_neq by exact E. reflexivity.
      * eapply main_step_done; eauto. exact (ni_wx _ _ _ _ _ _ _ D1).
  - (* LRecv *)
    destruct (aget n0 (y_up s)) as [[|m rest]|] eqn:Eup; try discriminate.
    cbn [y_d] in HS.
    destruct (process_from_remote n0 m (y_d s)) as [[d' outs] r] eqn:Ep.
    destruct (step_recv c Hpos s n0 m rest d' outs r X Eup Ep) as (-> & evs & -> & _ & DV & SGS).
    cbn [apply_outs] in HS. inv HS.
    match goal with |- RInv _ (close_if_dead ?sa n0) _ _ _ => set (sA := sa) end.
    destruct (close_if_dead_view sA n0) as (DV2 & E1 & E2 & E3 & E4 & E5).
    pose proof T as [K P A D Hh Bg].
    assert (DV3 : dview_same (y_d s) (y_d (close_if_dead sA n0))) by (eapply dview_trans; [exact DV|exact DV2]).
    assert (SG : forall k, sigs (close_if_dead sA n0) k = sigs s k).
    { intros k. unfold sigs. rewrite E3, E4. exact (SGS k). }
    apply (RInv_view B s _ cr rq H EL DV3); [rewrite E1; exact K| | |exact T].
    + unfold DONE. rewrite E1. change (y_w sA) with (y_w s). fold (DONE s).
      rewrite (INFL_ext s _ (f_equal akeys E1) SG). exact D.
    + rewrite (DH_ext s _ E1); [exact Hh|]. intros k wk _. unfold gone. rewrite E2.
      destruct DV3 as (_ & -> & _). reflexivity.
  - (* LCrash *)
    destruct (mem_nat n0 (y_dead s)) eqn:Hd; [discriminate|].
    destruct (aget n0 (y_w s)) as [w0|] eqn:Ew; try discriminate.
    destruct (wph w0) eqn:Eph; try discriminate; inv HS; apply (CRASH n0 w0 Hd Ew); rewrite Eph; discriminate.
Qed.


(* ---- the controller's turn ---- *)
(* the indices put back into the pool by the controller turn taken in state s: the crash item, when the
   plugin still re-queues (the FIRST index carrying its id) *)
Definition rq_idx (s : sys) : list nat :=
  match d_requeue (y_d s) with 0 => [] | S _ => flat_map (first_idx (the_coll s)) (crash_idx s) end.

Lemma rq_of_idx s ls ev q : y_evq s = ev :: q -> d_sched (y_d s) = StL ls -> rq_of (y_d s) ls ev = rq_idx s.
Proof.
  intros Eq Els. unfold rq_of, rq_idx, crash_idx, the_coll, book. rewrite Eq, Els.
  destruct (d_requeue (y_d s)); [reflexivity|]. destruct ev; reflexivity.
Qed.

Lemma step_rinv_core s ev q d' outs r cr rq H :
  XInv c s -> RInv B s cr rq H -> y_result s = None -> y_evq s = ev :: q ->
  d_loop_once ev (y_d s) = (d', outs, r) ->
  RInv B (apply_outs (set_d (set_evq s q) d') outs) (cr ++ crash_idx s) (rq ++ rq_idx s) (evcomp ev ++ H).
Proof.
  intros X T Eres Eevq El. pose proof X as [Lo Hi (ls & DJd & NIs) Eq Eu Ea Er Edead].
  pose proof T as [K P A D Hh Bg].
  specialize (Ea Eres).
  pose proof (pre_from_inv' c s ls ev q X DJd NIs Eevq) as Hpre.
  destruct (loop_once_ok' _ _ Hpos ev _ ls d' outs r DJd Ea Hpre El) as (-> & ls' & vo & Eo & E & DJ2 & _ & _).
  pose proof (loop_once_step _ _ _ _ _ El) as (_ & _ & _ & SP).
  pose proof DJd as ([Els J _ _ _ _ _ _ AL _] & _).
  pose proof DJ2 as ([Els' J' _ _ _ _ _ _ _ _] & _).
  destruct (loop_once_tokR _ _ Hpos ev _ ls d' outs (Ok tt) ls' DJd Ea Hpre El Els') as (Rq' & Mono & Ptok).
  rewrite (rq_of_idx s ls ev q Eevq Els) in Rq', Ptok.
  set (G := d_next_gw (y_d s)) in *.
  assert (SPID : forall id sp, In (OHook (HSpawn id sp)) outs -> id = G).
  { intros id sp Hin. destruct SP as [(C0 & _)|(_ & _ & _ & _ & sp0 & SPx)].
    - pose proof (count_zero_notin _ _ _ C0 Hin) as F. discriminate.
    - specialize (SPx _ Hin eq_refl). inv SPx. reflexivity. }
  set (sA := set_d (set_evq s q) d').
  set (s1 := apply_outs sA outs).
  destruct (apply_outs_frame outs sA) as (F1 & F2 & F3). cbn [sA set_d set_evq y_evq y_d y_dead] in F1, F2, F3.
  fold s1 in F1, F2, F3.
  assert (UP : forall k, alist_get [] k (y_up s1) = alist_get [] k (y_up s)).
  { intros k. unfold s1. rewrite apply_outs_up; [reflexivity|]. intros id sp Hin. rewrite (SPID _ _ Hin).
    cbn [sA set_d set_evq y_up]. apply (Hi G). unfold G. lia. }
  assert (YW : y_w s1 = if existsb is_spawn outs then aset G w_init (y_w s) else y_w s).
  { unfold s1. rewrite (apply_outs_yw_G G outs sA SPID). reflexivity. }
  assert (GN : aget G (y_w s) = None) by (apply (Hi G); unfold G; lia).
  assert (SIGS : forall k, sigs s k = ev_sigs_for k ev ++ sigs s1 k).
  { intros k. rewrite (sigs_head' s ev q k Eevq). unfold sigs. rewrite F1, UP. reflexivity. }
  assert (SG : sigs s1 G = []).
  { assert (Z : sigs s G = []).
    { unfold sigs. destruct (Hi G (le_n _)) as (_ & UG & _). rewrite UG. cbn. rewrite app_nil_r. apply (evq_sigs_fresh c Hpos). exact Eq. }
    pose proof (SIGS G) as Z2. rewrite Z in Z2. symmetry in Z2. apply app_eq_nil in Z2. tauto. }
  assert (KEYIN : forall k, k < G -> In k (akeys (y_w s))).
  { intros k Hk. apply aget_In_keys. apply Lo. exact Hk. }
  assert (EVOK : ok_evx (c_coll c) G ev).
  { pose proof Eq as Eq'. rewrite Forall_forall in Eq'. apply Eq'. rewrite Eevq. left. reflexivity. }
  assert (EVN : forall n i ms, ev = QComplete n i ms -> In n (akeys (y_w s))).
  { intros n i ms Eev. apply KEYIN. destruct EVOK as (_ & Hn). rewrite Eev in Hn. exact Hn. }
  (* the completions in flight: the handled one leaves *)
  assert (PI : Permutation (INFL s) (evcomp ev ++ flat_map (fun k => completes (sigs s1 k)) (akeys (y_w s)))).
  { unfold INFL. rewrite (flat_map_ext_in _ (fun k => completes (ev_sigs_for k ev) ++ completes (sigs s1 k)) (akeys (y_w s))).
    - rewrite flat_map_app_perm. apply Permutation_app_tail. apply evcomp_sum; assumption.
    - intros k _. rewrite (SIGS k), completes_app. reflexivity. }
  (* dead workers: who is gone *)
  assert (GONE : forall k w, In (k, w) (y_w s) -> (forall n, ev = QErrorDown n -> k <> n) -> gone s1 k = gone s k).
  { intros k w Hin Hne. unfold gone. rewrite F3, F2. destruct (mem_nat k (y_dead s)) eqn:Hd; [|reflexivity]. cbn [andb]. f_equal.
    assert (Ew : exists wk, aget k (y_w s) = Some wk).
    { destruct (aget k (y_w s)) as [wk|] eqn:E0; [eauto|]. exfalso. apply aget_none_keys in E0. apply E0.
      unfold akeys. change k with (fst (k, w)). apply in_map. exact Hin. }
    destruct Ew as (wk & Ew). destruct (NIs k wk Ew) as (_ & _ & _ & DD0). rewrite Hd in DD0. destruct DD0 as [D1 _ _].
    destruct (mem_nat k (d_active (y_d s))) eqn:Ha.
    - apply mem_nat_In in Ha. destruct (he_act' _ _ _ _ _ _ _ _ E k Ha) as [Y|[(b & Y)|Y]].
      + apply mem_nat_In. exact Y.
      + exfalso. apply (NDc_nofin _ _ _ _ b D1). rewrite (SIGS k). apply in_or_app. left.
        unfold ev_sigs_for. rewrite Y, Nat.eqb_refl. left. reflexivity.
      + exfalso. exact (Hne k Y eq_refl).
    - apply mem_nat_false in Ha. apply mem_nat_false. intros Y.
      destruct (he_actb' _ _ _ _ _ _ _ _ E k Y) as [Z|(Z & _)]; [contradiction|].
      fold G in Z. subst k. apply aget_none_keys in GN. apply GN. unfold akeys. change G with (fst (G, w)). apply in_map. exact Hin. }
  assert (DH1 : sub (fmkv (fun k w => if gone s1 k then firstn 1 (owed_w w) else []) (y_w s)) (cr ++ crash_idx s)).
  { destruct (classic_errd ev) as [(n & ->)|Hne].
    - (* errordown of n: n is gone now; its crash item is the head of its book *)
      assert (HnG : n < G) by (destruct EVOK as (_ & Hn); exact Hn).
      destruct (aget n (y_w s)) as [wn|] eqn:Ewn; [|exfalso; exact (Lo n HnG Ewn)].
      destruct (ctl_errd_node c s n q wn X Eevq Ewn) as (Hdn & Han & lost & Ebk).
      destruct (he_err' _ _ _ _ _ _ _ _ E n eq_refl) as (_ & Hna').
      assert (G1 : gone s1 n = true).
      { unfold gone. rewrite F3, F2, Hdn. apply mem_nat_false in Hna'. rewrite Hna'. reflexivity. }
      assert (G0 : gone s n = false).
      { unfold gone. rewrite Hdn. apply mem_nat_In in Han. rewrite Han. reflexivity. }
      destruct (aset_split n wn wn (y_w s) Ewn) as (pre & post & Em & _).
      assert (NDm : NoDup (akeys (y_w s))) by exact K.
      unfold DH in Hh. rewrite Em in Hh |- *. unfold fmkv in Hh |- *. rewrite !flat_map_app in Hh |- *.
      cbn [flat_map fst snd] in Hh |- *. rewrite G1. rewrite G0 in Hh. cbn [app] in Hh.
      assert (EXT : forall part, (forall x, In x part -> In x (y_w s) /\ fst x <> n) ->
                flat_map (fun p => if gone s1 (fst p) then firstn 1 (owed_w (snd p)) else []) part =
                flat_map (fun p => if gone s (fst p) then firstn 1 (owed_w (snd p)) else []) part).
      { intros part Hp. apply fm_ext_in. intros [k w] Hin. destruct (Hp _ Hin) as (A1 & A2). cbn [fst snd] in *.
        rewrite (GONE k w A1); [reflexivity|]. intros n0 E0. injection E0 as <-. exact A2. }
      assert (PRE : forall x, In x pre -> In x (y_w s) /\ fst x <> n).
      { intros x Hx. split; [rewrite Em; apply in_or_app; left; exact Hx|].
        intros F. rewrite Em in NDm. unfold akeys in NDm. rewrite map_app in NDm. cbn [map fst] in NDm.
        apply NoDup_remove_2 in NDm. apply NDm. apply in_or_app. left. rewrite <- F. apply in_map. exact Hx. }
      assert (POST : forall x, In x post -> In x (y_w s) /\ fst x <> n).
      { intros x Hx. split; [rewrite Em; apply in_or_app; right; right; exact Hx|].
        intros F. rewrite Em in NDm. unfold akeys in NDm. rewrite map_app in NDm. cbn [map fst] in NDm.
        apply NoDup_remove_2 in NDm. apply NDm. apply in_or_app. right. rewrite <- F. apply in_map. exact Hx. }
      rewrite (EXT pre PRE), (EXT post POST).
      unfold crash_idx. rewrite Eevq, Ebk.
      destruct Hh as (x & Px). destruct (sub_firstn1 (owed_w wn) lost) as (y & Py).
      exists (x ++ y). rewrite <- Px, <- Py. permc.
    - rewrite (fmkv_ext _ (fun k w => if gone s k then firstn 1 (owed_w w) else [])).
      + fold (DH s). eapply sub_trans; [exact Hh|]. apply sub_app_l.
      + intros k w Hin. rewrite (GONE k w Hin); [reflexivity|]. intros n E0. exfalso. exact (Hne n E0). }
  constructor.
  - rewrite YW. destruct (existsb is_spawn outs); [apply akeys_aset_nodup|]; exact K.
  - unfold the_coll. rewrite F2, Els'. intros Ec'.
    assert (Ec : l_coll ls = None) by (destruct (l_coll ls) as [X0|] eqn:E0; [rewrite (Mono X0 eq_refl) in Ec'; discriminate|reflexivity]).
    assert (PC : the_coll s = None) by (unfold the_coll; rewrite Els; exact Ec).
    destruct (P PC) as (-> & -> & ->).
    destruct (lj_i3' _ _ _ _ J Ec) as (_ & B0).
    assert (BKN : forall n, bk ls n = []).
    { intros n. unfold bk, alist_get. destruct (aget n (l_n2p ls)) as [b|] eqn:Eb; [|reflexivity].
      destruct b as [|i rest]; [reflexivity|]. exfalso. exact (book_in_books _ _ _ _ Eb B0). }
    assert (EC : evcomp ev = []).
    { destruct ev; try reflexivity. cbn [PRE'] in Hpre. destruct Hpre as (rest & Hb).
      exfalso. exact (book_in_books _ _ _ _ Hb B0). }
    assert (CI0 : crash_idx s = []).
    { unfold crash_idx, book. rewrite Eevq, Els. destruct ev; try reflexivity. fold (bk ls n). rewrite BKN. reflexivity. }
    rewrite EC, CI0. split; [reflexivity|]. split; [reflexivity|].
    unfold rq_idx. rewrite CI0. destruct (d_requeue (y_d s)); reflexivity.
  - rewrite F2. intros ls1 coll E1 Ec1. assert (ls1 = ls') by congruence. subst ls1.
    pose proof (Ptok coll Ec1) as Pt. rewrite (evtok_split s ls ev q Eevq Els) in Pt.
    destruct (l_coll ls) as [X0|] eqn:Ec.
    + assert (X0 = coll) by (rewrite (Mono X0 eq_refl) in Ec1; congruence). subst X0.
      pose proof (A ls coll Els Ec) as PA.
      transitivity (((evcomp ev ++ crash_idx s) ++ tokens ls') ++ H ++ cr); [permc|]. rewrite Pt.
      transitivity (rq_idx s ++ (tokens ls ++ H ++ cr)); [permc|]. rewrite PA. permc.
    + assert (PC : the_coll s = None) by (unfold the_coll; rewrite Els; exact Ec).
      destruct (P PC) as (-> & -> & ->).
      transitivity ((evcomp ev ++ crash_idx s) ++ tokens ls'); [permc|]. rewrite Pt. permc.
  - assert (PD : Permutation (DONE s1) (DONE s)).
    { unfold DONE. rewrite YW. destruct (existsb is_spawn outs); [|reflexivity].
      rewrite (fmkv_new _ G w_init _ GN). cbn. rewrite app_nil_r. reflexivity. }
    assert (PI2 : flat_map (fun k => completes (sigs s1 k)) (akeys (y_w s)) = INFL s1).
    { unfold INFL. rewrite YW. destruct (existsb is_spawn outs); [|reflexivity].
      rewrite (akeys_aset_new _ G _ w_init GN), flat_map_app. cbn. rewrite SG. cbn. rewrite app_nil_r. reflexivity. }
    rewrite PD, D, PI, PI2. permc.
  - unfold DH. rewrite YW. destruct (existsb is_spawn outs); [|exact DH1].
    rewrite (fmkv_new _ G w_init _ GN).
    assert (GG : gone s1 G = false).
    { unfold gone. rewrite F3. replace (mem_nat G (y_dead s)) with false; [reflexivity|]. symmetry. apply mem_nat_false.
      intros Hin. specialize (Edead _ Hin). fold G in Edead. lia. }
    rewrite GG, app_nil_r. exact DH1.
  - rewrite F2, app_length. lia.
Qed.

Lemma RInv_VE s0 s cr rq H : VE s0 s -> (exists ls, d_sched (y_d s0) = StL ls) -> RInv B s0 cr rq H -> RInv B s cr rq H.
Proof.
  intros (A1 & A2 & A3 & A4 & A5 & A6 & A7 & A8) EL T. pose proof T as [K P A D Hh Bg].
  assert (SG : forall k, sigs s k = sigs s0 k) by (apply sigs_same_fields; assumption).
  apply (RInv_view B s0 s cr rq H EL); [| | | |exact T].
  - split; [exact A8|]. split; [exact A7|]. intros ls E. exists ls. rewrite A6. auto.
  - rewrite A1. exact K.
  - unfold DONE. rewrite A1. fold (DONE s0). rewrite (INFL_ext s0 s (f_equal akeys A1) SG). exact D.
  - rewrite (DH_ext s0 s A1); [exact Hh|]. intros k w _. unfold gone. rewrite A2, A7. reflexivity.
Qed.

Lemma step_rinv_ctl s s' o w cr rq H :
  XInv c s -> RInv B s cr rq H -> sys_step c s LCtl = Some (s', o, w) ->
  exists H', RInv B s' (cr ++ crash_idx s) (rq ++ rq_idx s) H'.
Proof.
  intros X T HS. pose proof X as [Lo Hi (ls & DJd & NIs) Eq Eu Ea Er Edead].
  unfold sys_step in HS. destruct (y_result s) eqn:Eres; [discriminate|].
  specialize (Ea eq_refl).
  destruct (d_active (y_d s)) as [|a0 ar] eqn:Eact; [contradiction|].
  destruct (y_evq s) as [|ev q] eqn:Eevq; [discriminate|].
  destruct (d_loop_once ev (y_d s)) as [[d' outs] r] eqn:El.
  assert (Ea' : d_active (y_d s) <> []) by (rewrite Eact; discriminate).
  pose proof (step_rinv_core s ev q d' outs r cr rq H X T Eres Eevq El) as CORE.
  destruct (step_ctl_core c Hpos s ev q d' outs r X Eres Eevq El) as (-> & Hfin & XC).
  set (s1 := apply_outs (set_d (set_evq s q) d') outs) in *.
  exists (evcomp ev ++ H).
  assert (XR : XInv c (set_result s1 (Some RFinished))) by (apply XC; [intros e; discriminate|discriminate]).
  assert (EL1 : exists ls1, d_sched (y_d s1) = StL ls1) by (apply (xinv_sched c (set_result s1 (Some RFinished))); exact XR).
  assert (RES : forall rr, RInv B (set_result s1 rr) (cr ++ crash_idx s) (rq ++ rq_idx s) (evcomp ev ++ H)).
  { intros rr. apply (RInv_VE s1); [unfold VE; cbn [set_result y_w y_dead y_evq y_up y_down y_d]; auto 10|exact EL1|exact CORE]. }
  destruct (d_session_finished d') eqn:Efin.
  - injection HS as <- _ _. apply RES.
  - destruct (d_active d') as [|b0 br] eqn:Eact'.
    + assert (Hsd : d_shuttingdown d' = false).
      { unfold d_session_finished in Efin. rewrite Eact', andb_true_r in Efin. exact Efin. }
      pose proof XR as [_ _ (ls' & DJ2 & _) _ _ _ _ _].
      destruct (apply_outs_frame outs (set_d (set_evq s q) d')) as (F1 & F2 & F3). cbn [set_d set_evq y_evq y_d y_dead] in F1, F2, F3.
      cbn [set_result y_d] in DJ2. fold s1 in F2. rewrite F2 in DJ2.
      destruct DJ2 as ([Els2 J2 Jb2 _ _ _ _ _ _ _] & Jss2 & _).
      assert (Hss : d_shouldstop d' = false).
      { apply not_true_false. intros F. rewrite (Jss2 F) in Hsd. discriminate. }
      assert (Hnn : s_nodes (d_sched d') = []).
      { rewrite Els2. cbn [s_nodes]. specialize (Jb2 Hss). rewrite Eact' in Jb2.
        destruct (l_nodes ls') as [|k rr]; [reflexivity|]. exfalso. apply (Jb2 k). left. reflexivity. }
      rewrite (trigger_no_nodes d' Hsd Hnn) in HS. cbn [apply_outs] in HS. injection HS as <- _ _.
      apply (RInv_VE s1); [|exact EL1|exact CORE].
      unfold VE. cbn [set_result set_d y_w y_dead y_evq y_up y_down y_d d_set_shuttingdown d_sched d_active d_requeue].
      rewrite F2. repeat split; reflexivity.
    + injection HS as <- _ _. exact CORE.
Qed.

Lemma step_rinv s l s' o w cr rq H :
  XInv c s -> RInv B s cr rq H -> sys_step c s l = Some (s', o, w) ->
  exists H', RInv B s' (cr ++ match l with LCtl => crash_idx s | _ => [] end)
                       (rq ++ match l with LCtl => rq_idx s | _ => [] end) H'.
Proof.
  intros X T HS. destruct l; try (exists H; rewrite !app_nil_r; eapply step_rinv_nonctl; eauto; discriminate).
  eapply step_rinv_ctl; eauto.
Qed.

(* ---- whole runs ---- *)
(* the indices put back into the pool by the plugin along a run, in order *)
Fixpoint requeued (s : sys) (ls : list label) : list nat :=
  match ls with
  | [] => []
  | l :: r =>
      match sys_step c s l with
      | Some (s', _, _) => (match l with LCtl => rq_idx s | _ => [] end) ++ requeued s' r
      | None => requeued s r
      end
  end.

Lemma rinv_run ls : forall s cr rq H,
  XInv c s \/ ErrSt c s -> RInv B s cr rq H ->
  (XInv c (run_from c s ls) \/ ErrSt c (run_from c s ls)) /\
  exists H', RInv B (run_from c s ls) (cr ++ crashed c s ls) (rq ++ requeued s ls) H'.
Proof.
  induction ls as [|l ls IH]; intros s cr rq H G T.
  - cbn. split; [exact G|]. exists H. rewrite !app_nil_r. exact T.
  - cbn [run_from fold_left crashed requeued]. fold (run_from c). destruct (sys_step c s l) as [[[s' o] w]|] eqn:E.
    + destruct G as [X|(R & _)]; [|unfold sys_step in E; rewrite R in E; discriminate].
      destruct (step_rinv s l s' o w cr rq H X T E) as (H1 & T1).
      pose proof (step_xinv c Hng Hpos s l s' o w X E) as G1.
      destruct (IH s' _ _ H1 G1 T1) as (G2 & H2 & T2). split; [exact G2|]. exists H2. rewrite !app_assoc. exact T2.
    + apply (IH s cr rq H); assumption.
Qed.

Lemma requeued_app ls1 : forall s ls2, requeued s (ls1 ++ ls2) = requeued s ls1 ++ requeued (run_from c s ls1) ls2.
Proof.
  induction ls1 as [|l ls1 IH]; intros s ls2; [reflexivity|]. cbn [app requeued run_from fold_left]. fold (run_from c).
  destruct (sys_step c s l) as [[[s' o] w]|]; [rewrite IH, app_assoc; reflexivity|apply IH].
Qed.

(* ---- the initial state ---- *)
Hypothesis HB : B = c_requeue c.

Lemma RInv_init : RInv B (sys_init c) [] [] [].
Proof.
  assert (SG : forall n, sigs (sys_init c) n = []).
  { intros n. unfold sigs. cbn [sys_init y_evq y_up]. rewrite alist_get_map_nil. reflexivity. }
  constructor.
  - cbn [sys_init y_w]. rewrite (akeys_map_seq (fun _ => w_init)). apply seq_NoDup.
  - intros _. split; [reflexivity|split; reflexivity].
  - intros ls coll Els Ec. cbn [sys_init y_d d_sched] in Els. rewrite Hmode in Els. cbn [s_init s_set_nt] in Els.
    inv Els. discriminate.
  - unfold DONE, INFL. cbn [sys_init y_w]. rewrite (fmkv_const_nil _ w_init) by reflexivity.
    rewrite flat_map_nil_in; [reflexivity|]. intros k _. rewrite SG. reflexivity.
  - unfold DH. cbn [sys_init y_w]. rewrite (fmkv_const_nil _ w_init); [apply sub_refl|].
    intros k. unfold gone. cbn [sys_init y_dead mem_nat existsb andb]. reflexivity.
  - cbn. rewrite HB. lia.
Qed.



(* ====================================================================================== *)
(* Part D: consequences of the accounts                                                     *)
(* ====================================================================================== *)
(* the books, node by node, summed over all worker ids *)
Lemma books_by_workers_r s ls :
  XInv c s -> NoDup (akeys (y_w s)) -> d_sched (y_d s) = StL ls ->
  Permutation (books ls) (INFL s ++ flat_map (rest s) (akeys (y_w s))).
Proof.
  intros X K Els. pose proof X as [Lo Hi (ls0 & DJd & NIs) Eq Eu Ea Er Edead].
  pose proof DJd as ([Els0 J _ _ _ _ _ _ _ _] & _). assert (ls0 = ls) by congruence. subst ls0.
  assert (BK : forall k, book s k = bk ls k) by (intros k; unfold book; rewrite Els; reflexivity).
  assert (E1 : books ls = flat_map (fun k => bk ls k) (akeys (l_n2p ls))).
  { unfold books. pose proof (flat_map_keys_vals (fun v : list nat => v) (l_n2p ls) (lj_wf' _ _ _ _ J)) as FK.
    cbn beta in FK. transitivity (flat_map (fun p : nat * list nat => snd p) (l_n2p ls)); [reflexivity|]. rewrite <- FK.
    apply flat_map_ext_in. intros k _. unfold bk, alist_get. destruct (aget k (l_n2p ls)); reflexivity. }
  assert (E2 : Permutation (flat_map (fun k => bk ls k) (akeys (y_w s))) (flat_map (fun k => bk ls k) (akeys (l_n2p ls)))).
  { apply fm_superset_r; [exact (lj_wf' _ _ _ _ J)|exact K| |].
    - intros k Hk. apply aget_In_keys. apply Lo. exact (lj_nodes' _ _ _ _ J k Hk).
    - intros k _ Hk. apply alist_get_none. apply aget_none_keys. exact Hk. }
  rewrite E1, <- E2.
  rewrite (flat_map_ext_in _ (fun k => completes (sigs s k) ++ rest s k) (akeys (y_w s))).
  - apply flat_map_app_perm.
  - intros k Hk. destruct (keys_in_aget k _ Hk) as (w & Ew). rewrite <- BK. exact (proj1 (book_split c s k w X Ew)).
Qed.

Lemma holdings_split s : Permutation (holdings s) (DONE s ++ flat_map (rest s) (akeys (y_w s))).
Proof. unfold holdings. rewrite fmkv_app_perm_r. unfold DONE. rewrite (fmkv_keyfun (rest s)). reflexivity. Qed.

(* conservation: pool, holdings and crash reports against the collection and the re-queued indices *)
Lemma conservation_r s cr rq H coll :
  XInv c s -> RInv B s cr rq H -> the_coll s = Some coll ->
  Permutation (pool s ++ holdings s ++ cr) (seq 0 (length coll) ++ rq).
Proof.
  intros X [K P A D Hh Bg] Ec. destruct (xinv_sched c s X) as (ls & Els).
  unfold the_coll in Ec. rewrite Els in Ec.
  rewrite <- (A ls coll Els Ec). unfold pool, tokens. rewrite Els.
  rewrite (books_by_workers_r s ls X K Els).
  rewrite (holdings_split s), D. permc.
Qed.

(* what was started is accounted for: completed, or in the rest of a book, or reported as crashed *)
Lemma started_sub_r s cr rq H :
  XInv c s -> RInv B s cr rq H -> sub (started s) (holdings s ++ DH s).
Proof.
  intros X T. pose proof T as [K P A D Hh Bg].
  pose proof X as [Lo Hi (ls & DJd & NIs) Eq Eu Ea Er Edead].
  assert (S1 : sub (started s) (fmkv (fun k w => (done_w w ++ rest s k) ++ (if gone s k then firstn 1 (owed_w w) else [])) (y_w s))).
  { unfold started. apply (sub_fmkv (fun _ w => map (fun r => snd (fst r)) (wran w))). intros k w Hin.
    assert (Ew : aget k (y_w s) = Some w).
    { destruct (keys_in_aget k (y_w s)) as (w' & Ew'); [unfold akeys; change k with (fst (k, w)); apply in_map; exact Hin|].
      destruct (aset_split k w' w' (y_w s) Ew') as (pre & post & Em & _).
      assert (w' = w); [|congruence].
      rewrite Em in Hin, K. unfold akeys in K. rewrite map_app in K. cbn [map fst] in K.
      apply in_app_or in Hin. destruct Hin as [Hin|[Hin|Hin]].
      - exfalso. apply NoDup_remove_2 in K. apply K. apply in_or_app. left. change k with (fst (k, w)). apply in_map. exact Hin.
      - congruence.
      - exfalso. apply NoDup_remove_2 in K. apply K. apply in_or_app. right. change k with (fst (k, w)). apply in_map. exact Hin. }
    destruct (NIs k w Ew) as (Iw & _). destruct (started_w_sub w Iw) as (x & Px).
    eapply sub_trans; [exists x; exact Px|].
    destruct (book_split c s k w X Ew) as (_ & B1 & B2).
    assert (OM : exists y, owed_w w = owed_main w ++ y) by (unfold owed_w; eauto).
    destruct OM as (y & Ey).
    destruct (gone s k) eqn:Eg.
    - rewrite (B2 eq_refl), app_nil_r. apply sub_app; [apply sub_refl|]. rewrite Ey. apply sub_firstn1.
    - destruct (B1 eq_refl) as (z & Ez). rewrite Ez, Ey, app_nil_r. apply sub_app; [apply sub_refl|].
      destruct (owed_main w) as [|i om]; [exists (y ++ z); reflexivity|]. cbn. exists (om ++ y ++ z). permc. }
  assert (S2 : Permutation (fmkv (fun k w => (done_w w ++ rest s k) ++ (if gone s k then firstn 1 (owed_w w) else [])) (y_w s))
                           (holdings s ++ DH s)).
  { rewrite fmkv_app_perm_r. reflexivity. }
  eapply sub_trans; [exact S1|]. apply sub_perm. exact S2.
Qed.

(* what was started sits inside collection ++ re-queued *)
Lemma started_bound_r s cr rq H :
  XInv c s -> RInv B s cr rq H ->
  sub (started s) (match the_coll s with Some coll => seq 0 (length coll) | None => [] end ++ rq).
Proof.
  intros X T. pose proof (started_sub_r s cr rq H X T) as S1. pose proof T as [K P A D Hh Bg].
  destruct (xinv_sched c s X) as (ls & Els).
  destruct (the_coll s) as [coll|] eqn:Ec.
  - pose proof (conservation_r s cr rq H coll X T Ec) as PC. destruct Hh as (z & Pz).
    eapply sub_trans; [exact S1|]. exists (z ++ pool s). rewrite <- PC, <- Pz. permc.
  - (* before the initial distribution nothing has been started *)
    destruct (P eq_refl) as (-> & -> & ->).
    pose proof X as [_ _ (ls0 & ([Els0 J _ _ _ _ _ _ _ _] & _) & _) _ _ _ _ _]. assert (ls0 = ls) by congruence. subst ls0.
    unfold the_coll in Ec. rewrite Els in Ec. destruct (lj_i3' _ _ _ _ J Ec) as (_ & B0).
    pose proof (books_by_workers_r s ls X K Els) as PB. rewrite B0 in PB.
    apply Permutation_nil in PB. apply app_eq_nil in PB. destruct PB as (I0 & R0).
    pose proof (holdings_split s) as PH.
    rewrite R0, D, I0 in PH. cbn in PH. apply Permutation_sym, Permutation_nil in PH.
    apply sub_nil_inv in Hh. rewrite PH, Hh in S1. exact S1.
Qed.

End TokRun.


(* ====================================================================================== *)
(* Part E: the theorems (C15 for --dist load)                                               *)
(* ====================================================================================== *)
Section ReqMain.
  Variable c : config.
  Variable ls : list label.
  Hypothesis Hmode : c_mode c = MLoad.
  Hypothesis Hnogarbled : no_garbled c.
  Hypothesis Hnodes : 0 < c_numnodes c.

  (* the indices the plugin put back into the pool during the run, in the order of the re-queues: one
     entry for every controller turn that reported a crash item while d_requeue was positive (the
     turn consumes one unit of d_requeue and calls mark_test_pending) *)
  Definition requeued_in_run : list nat := requeued c (sys_init c) ls.
  (* how often index i was re-queued *)
  Definition requeued_count (i : nat) : nat := count_occ Nat.eq_dec requeued_in_run i.

  Lemma run_witness_r :
    exists s0 H, XInv c s0 /\ VE s0 (sys_run c ls) /\
                 RInv (c_requeue c) s0 (crashed_in_run c ls) requeued_in_run H.
  Proof.
    destruct (rinv_run c Hnogarbled Hnodes (c_requeue c) ls (sys_init c) [] [] [])
      as (G & H & T); [left; apply XInv_init; assumption|apply RInv_init; auto|].
    change (run_from c (sys_init c) ls) with (sys_run c ls) in G, T. cbn [app] in T.
    fold (crashed_in_run c ls) in T. fold requeued_in_run in T.
    destruct G as [X|(_ & _ & s0 & X0 & V)].
    - exists (sys_run c ls), H. split; [exact X|]. split; [apply VE_refl|exact T].
    - exists s0, H. split; [exact X0|]. split; [exact V|].
      apply (RInv_VE _ (sys_run c ls) s0); [apply VE_sym; exact V| |exact T].
      destruct (xinv_sched c s0 X0) as (l0 & E0). exists l0. destruct V as (_ & _ & _ & _ & _ & A6 & _). rewrite A6. exact E0.
  Qed.

  (* C15 (1): AT MOST ONCE PER RE-QUEUE.  Every index is started at most once, plus once for every time
     it was re-queued -- whatever the crashes, the schedule, and the plugin's budget. *)
  Theorem requeue_at_most_once_per_requeue : forall i,
    count_occ Nat.eq_dec (started (sys_run c ls)) i <= 1 + requeued_count i.
  Proof.
    intros i. destruct run_witness_r as (s0 & H & X0 & V & T). rewrite (started_VE s0 _ V).
    pose proof (started_bound_r c Hnodes _ eq_refl s0 _ _ H X0 T) as S1.
    apply (sub_count _ _ i) in S1. rewrite count_occ_app in S1. unfold requeued_count.
    assert (Z : count_occ Nat.eq_dec (match the_coll s0 with Some coll => seq 0 (length coll) | None => [] end) i <= 1).
    { destruct (the_coll s0) as [coll|]; [|cbn; lia]. rewrite count_occ_seq. destruct (i <? length coll); lia. }
    lia.
  Qed.

  (* the plugin's budget: every re-queue consumes one unit of d_requeue *)
  Theorem requeue_budget :
    length requeued_in_run + d_requeue (y_d (sys_run c ls)) = c_requeue c.
  Proof.
    destruct run_witness_r as (s0 & H & X0 & V & T). pose proof (r_budget _ _ _ _ _ T) as Bg.
    destruct V as (_ & _ & _ & _ & _ & _ & _ & A8). rewrite A8. lia.
  Qed.

  (* in particular: the total number of starts is at most the size of the collection plus the budget *)
  Corollary requeue_total_starts :
    length (started (sys_run c ls)) <=
    match the_coll (sys_run c ls) with Some coll => length coll | None => 0 end + c_requeue c.
  Proof.
    destruct run_witness_r as (s0 & H & X0 & V & T). rewrite (started_VE s0 _ V), (the_coll_VE s0 _ V).
    pose proof (started_bound_r c Hnodes _ eq_refl s0 _ _ H X0 T) as S1. apply sub_length in S1.
    rewrite app_length in S1. pose proof (r_budget _ _ _ _ _ T) as Bg.
    assert (Z : length (match the_coll s0 with Some coll => seq 0 (length coll) | None => [] end) =
                match the_coll s0 with Some coll => length coll | None => 0 end).
    { destruct (the_coll s0); [apply seq_length|reflexivity]. }
    lia.
  Qed.

  (* C15 (2): CONSERVATION WITH RE-QUEUEING.  Once the collection is fixed: the pool, the holdings of
     all workers (completed tests ++ rest of the book) and the crash reports together are the positions
     of the collection PLUS one more copy of an index for every time it was re-queued. *)
  Theorem requeue_conservation : forall coll,
    the_coll (sys_run c ls) = Some coll ->
    Permutation (pool (sys_run c ls) ++ holdings (sys_run c ls) ++ crashed_in_run c ls)
                (seq 0 (length coll) ++ requeued_in_run).
  Proof.
    intros coll Ec. destruct run_witness_r as (s0 & H & X0 & V & T).
    rewrite (pool_VE s0 _ V), (holdings_VE s0 _ V). apply (conservation_r c Hnodes _ eq_refl s0 _ _ H); [exact X0|exact T|].
    rewrite <- (the_coll_VE s0 _ V). exact Ec.
  Qed.
End ReqMain.


(* ====================================================================================== *)
(* Part F: distinct test ids -- the re-queued index IS the crashed index                    *)
(* ====================================================================================== *)
Lemma index_of_str_nth X : forall i t, NoDup X -> nth_error X i = Some t -> index_of_str t X = Some i.
Proof.
  induction X as [|y X IH]; intros i t ND E; [destruct i; discriminate|].
  inversion ND as [|y' X' Hn ND']; subst. destruct i as [|i]; cbn in E.
  - inv E. cbn. rewrite String.eqb_refl. reflexivity.
  - cbn. destruct (String.eqb t y) eqn:Ety.
    + apply String.eqb_eq in Ety. subst y. exfalso. apply Hn. eapply nth_error_In; eauto.
    + rewrite (IH i t ND' E). reflexivity.
Qed.

Lemma exec_run c ls : forall s, exists o w, sys_exec c s ls = (run_from c s ls, o, w).
Proof.
  induction ls as [|l ls IH]; intros s; cbn [sys_exec run_from fold_left]; [eauto|]. fold (run_from c).
  destruct (sys_step c s l) as [[[s' o] w]|]; [|apply IH].
  destruct (IH s') as (o2 & w2 & E). rewrite E. eauto.
Qed.

(* the crash reports that were final: the plugin's budget was used up *)
Definition kept_idx (s : sys) : list nat :=
  match d_requeue (y_d s) with 0 => crash_idx s | S _ => [] end.
Fixpoint kept (c : config) (s : sys) (ls : list label) : list nat :=
  match ls with
  | [] => []
  | l :: r =>
      match sys_step c s l with
      | Some (s', _, _) => (match l with LCtl => kept_idx s | _ => [] end) ++ kept c s' r
      | None => kept c s r
      end
  end.

Section NoDupIds.
  Variable c : config.
  Hypothesis Hmode : c_mode c = MLoad.
  Hypothesis Hnogarbled : no_garbled c.
  Hypothesis Hnodes : 0 < c_numnodes c.

  (* the reference collection is the collection of some worker *)
  Lemma coll_provenance ls X : the_coll (sys_run c ls) = Some X -> exists n, X = c_coll c n.
  Proof.
    intros Ec. destruct (exec_run c ls (sys_init c)) as (o & w & E).
    change (run_from c (sys_init c) ls) with (sys_run c ls) in E.
    assert (NUM : exists lsx, d_sched (y_d (sys_run c ls)) = StL lsx /\ l_numnodes lsx = c_numnodes c).
    { destruct (xinv_run c Hmode Hnogarbled Hnodes ls) as [X1|(_ & _ & s0 & X0 & V)].
      - pose proof X1 as [_ _ (l1 & ([Els1 J _ _ _ _ _ _ _ _] & _) & _) _ _ _ _ _]. exists l1. split; [exact Els1|apply (lj_num' _ _ _ _ J)].
      - pose proof X0 as [_ _ (l1 & ([Els1 J _ _ _ _ _ _ _ _] & _) & _) _ _ _ _ _]. exists l1.
        destruct V as (_ & _ & _ & _ & _ & A6 & _). split; [rewrite A6; exact Els1|apply (lj_num' _ _ _ _ J)]. }
    destruct NUM as (lsx & Els & Enum).
    pose proof (SystemCorollariesColl.sys_collections_agree _ _ _ _ _ E) as AG. rewrite Els in AG. cbn in AG.
    unfold the_coll in Ec. rewrite Els in Ec. destruct (AG X Ec) as (Cp & _).
    unfold l_collection_is_completed in Cp. apply Nat.leb_le in Cp. rewrite Enum in Cp.
    destruct (l_n2c lsx) as [|[n coll0] rest] eqn:En2c; [cbn in Cp; lia|].
    exists n. symmetry.
    refine (proj2 (SystemCorollariesColl.sys_registered_collected c ls _ o w X n coll0 E _ _)).
    - rewrite Els. exact Ec.
    - rewrite Els. cbn [SystemCorollariesColl.s_registered]. rewrite En2c. cbn. rewrite Nat.eqb_refl. reflexivity.
  Qed.

  Hypothesis Hnodup : forall k, NoDup (c_coll c k).

  (* one controller turn: a crash report is either re-queued (same index) or final *)
  Lemma crash_split ls0 :
    XInv c (sys_run c ls0) ->
    rq_idx (sys_run c ls0) ++ kept_idx (sys_run c ls0) = crash_idx (sys_run c ls0).
  Proof.
    intros X. set (s := sys_run c ls0) in *. unfold rq_idx, kept_idx.
    destruct (d_requeue (y_d s)) as [|k]; [reflexivity|]. rewrite app_nil_r.
    pose proof X as [_ _ (l1 & ([Els J _ _ _ _ _ _ _ _] & _) & _) _ _ _ _ _].
    unfold crash_idx. destruct (y_evq s) as [|[| | | | | | | | | | |n] q]; try reflexivity.
    unfold book. rewrite Els. fold (bk l1 n).
    destruct (bk l1 n) as [|i rest] eqn:Eb; [reflexivity|]. cbn [firstn flat_map]. rewrite app_nil_r.
    assert (Hb : aget n (l_n2p l1) = Some (i :: rest)).
    { unfold bk, alist_get in Eb. destruct (aget n (l_n2p l1)); [congruence|discriminate]. }
    assert (Hc : l_coll l1 <> None) by (eapply books_nonempty_coll; eauto).
    destruct (l_coll l1) as [X0|] eqn:Ecoll; [|contradiction].
    assert (Ec : the_coll s = Some X0) by (unfold the_coll; rewrite Els; exact Ecoll).
    destruct (coll_provenance ls0 X0 Ec) as (m & ->).
    assert (Hi : i < length (c_coll c m)).
    { apply (lj_valid' _ _ _ _ J _ Ecoll). unfold tokens, books. apply in_or_app. right.
      destruct (aget_split _ _ _ _ Hb) as (pre & post & Hm & _). rewrite Hm, flat_map_app. apply in_or_app. right.
      cbn. left. reflexivity. }
    unfold first_idx. rewrite Ec.
    destruct (nth_error (c_coll c m) i) as [t|] eqn:Enth; [|apply nth_error_None in Enth; lia].
    rewrite (index_of_str_nth _ i t (Hnodup m) Enth). reflexivity.
  Qed.

  Lemma run_from_app s ls1 ls2 : run_from c s (ls1 ++ ls2) = run_from c (run_from c s ls1) ls2.
  Proof. unfold run_from. apply fold_left_app. Qed.

  Lemma crashed_split_run ls : forall ls0,
    Permutation (crashed c (sys_run c ls0) ls) (requeued c (sys_run c ls0) ls ++ kept c (sys_run c ls0) ls).
  Proof.
    induction ls as [|l ls IH]; intros ls0; [reflexivity|]. cbn [crashed requeued kept].
    destruct (sys_step c (sys_run c ls0) l) as [[[s' o] w]|] eqn:E; [|apply IH].
    assert (Es' : s' = sys_run c (ls0 ++ [l])).
    { change (sys_run c (ls0 ++ [l])) with (run_from c (sys_init c) (ls0 ++ [l])). rewrite run_from_app.
      change (run_from c (sys_init c) ls0) with (sys_run c ls0). cbn [run_from fold_left]. rewrite E. reflexivity. }
    rewrite Es'. specialize (IH (ls0 ++ [l])).
    destruct l; cbn [app]; try exact IH.
    destruct (xinv_run c Hmode Hnogarbled Hnodes ls0) as [X1|(R & _)].
    - rewrite <- (crash_split ls0 X1). rewrite IH. permc.
    - unfold sys_step in E. rewrite R in E. discriminate.
  Qed.

  Variable ls : list label.
  (* the crash reports that were final (not re-queued), in the order of the reports *)
  Definition crashed_for_good : list nat := kept c (sys_init c) ls.

  (* with distinct ids, the crash reports are the re-queued ones (same index) and the final ones *)
  Theorem requeue_same_index :
    Permutation (crashed_in_run c ls) (requeued_in_run c ls ++ crashed_for_good).
  Proof. exact (crashed_split_run ls []). Qed.

  (* C15 (2), the form of the brief: pool ++ holdings ++ crashed-and-not-requeued is the collection *)
  Theorem requeue_conservation_nodup : forall coll,
    the_coll (sys_run c ls) = Some coll ->
    Permutation (pool (sys_run c ls) ++ holdings (sys_run c ls) ++ crashed_for_good) (seq 0 (length coll)).
  Proof.
    intros coll Ec. pose proof (requeue_conservation c ls Hmode Hnogarbled Hnodes coll Ec) as PC.
    rewrite requeue_same_index in PC.
    apply (Permutation_app_inv_l (requeued_in_run c ls)).
    transitivity (pool (sys_run c ls) ++ holdings (sys_run c ls) ++ requeued_in_run c ls ++ crashed_for_good); [permc|].
    rewrite PC. permc.
  Qed.

  (* C15 (1) with distinct ids: a test is started at most once plus once per re-queued crash report OF THAT TEST *)
  Theorem requeue_at_most_once_nodup : forall i,
    count_occ Nat.eq_dec (started (sys_run c ls)) i + count_occ Nat.eq_dec crashed_for_good i <=
    1 + count_occ Nat.eq_dec (crashed_in_run c ls) i.
  Proof.
    intros i. pose proof (requeue_at_most_once_per_requeue c ls Hmode Hnogarbled Hnodes i) as H1.
    unfold requeued_count in H1.
    rewrite (proj1 (Permutation_count_occ Nat.eq_dec _ _) requeue_same_index i), count_occ_app. lia.
  Qed.
End NoDupIds.


(* ====================================================================================== *)
(* Part G: the exact account at a finished end (C15 (3))                                    *)
(* ====================================================================================== *)
(* G.1 one worker: what it has started = what it completed ++ the test it is running *)
Definition running_w (w : wst) : list nat := match wph w with PRun cur _ _ => [snd cur] | _ => [] end.

Lemma started_w_exact w : WInv w -> map (fun r => snd (fst r)) (wran w) = done_w w ++ running_w w.
Proof.
  intros I. pose proof (inv_phase w I) as E. unfold phase_inv in E.
  assert (PE : forall pre lst, no_mark pre -> map (fun r => snd (fst r)) (pairs (pre ++ [lst])) = ents_idx pre).
  { intros pre lst Hn. rewrite <- ents_idx_map_ent, pairs_ents by exact Hn. reflexivity. }
  unfold done_w, owed_main, running_w.
  destruct (wph w) as [|rest| | |cur|cur nxt|cur nxt script|sfin|].
  - destruct E as (-> & ->). reflexivity.
  - destruct E as (-> & ->). reflexivity.
  - destruct E as (-> & ->). reflexivity.
  - destruct E as (-> & ->). reflexivity.
  - destruct E as (pre & Ep & Hn & ->). rewrite Ep, (PE pre (ent cur) Hn), ents_idx_app.
    replace (ents_idx [ent cur]) with [snd cur] by (destruct cur; reflexivity).
    rewrite (firstn_app_exact (ents_idx pre) [snd cur]), app_nil_r. reflexivity.
  - destruct E as (pre & Ep & Hn & ->). rewrite Ep, (PE pre (ent cur) Hn), ents_idx_app.
    replace (ents_idx [ent cur; nxt]) with (snd cur :: item_inds [snd nxt]) by (destruct cur, nxt as [t' [j|]]; reflexivity).
    rewrite (firstn_app_exact (ents_idx pre) (snd cur :: item_inds [snd nxt])), app_nil_r. reflexivity.
  - destruct E as (pre & Ep & Hn & ->). rewrite Ep.
    change (pre ++ [ent cur; nxt]) with (pre ++ [ent cur] ++ [nxt]). rewrite app_assoc, (PE (pre ++ [ent cur]) nxt).
    + rewrite <- app_assoc. cbn [app]. rewrite !ents_idx_app.
      replace (ents_idx [ent cur; nxt]) with (snd cur :: item_inds [snd nxt]) by (destruct cur, nxt as [t' [j|]]; reflexivity).
      replace (ents_idx [ent cur]) with [snd cur] by (destruct cur; reflexivity).
      rewrite (firstn_app_exact (ents_idx pre) (snd cur :: item_inds [snd nxt])). reflexivity.
    + intros e He. apply in_app_or in He. destruct He as [He|[<-|[]]]; [apply Hn; exact He|destruct cur; reflexivity].
  - destruct E as (pre & lst & Ep & Hn & ->). rewrite Ep, last_last, (PE pre lst Hn), ents_idx_app.
    replace (ents_idx [lst]) with (item_inds [snd lst]) by (destruct lst as [t [j|]]; reflexivity).
    rewrite (firstn_app_exact (ents_idx pre) (item_inds [snd lst])), app_nil_r. reflexivity.
  - destruct E as (pre & lst & Ep & Hn & ->). rewrite Ep, last_last, (PE pre lst Hn), ents_idx_app.
    replace (ents_idx [lst]) with (item_inds [snd lst]) by (destruct lst as [t [j|]]; reflexivity).
    rewrite (firstn_app_exact (ents_idx pre) (item_inds [snd lst])), app_nil_r. reflexivity.
Qed.

(* the running test heads what the worker owes *)
Lemma running_head w x : running_w w = [x] -> exists y, owed_w w = x :: y.
Proof.
  unfold running_w, owed_w, owed_main. destruct (wph w); try discriminate. intros E. inv E. eexists. reflexivity.
Qed.

Lemma running_ext w w' : wph w' = wph w -> running_w w' = running_w w.
Proof. intros E. unfold running_w. rewrite E. reflexivity. Qed.


(* G.2 the tests that were running on workers whose death has been handled *)
Definition RUN (s : sys) : list nat := fmkv (fun k w => if gone s k then running_w w else []) (y_w s).
(* the test the dead worker was running, for the controller turn that handles its errordown in state s *)
Definition crash_run_idx (s : sys) : list nat :=
  match y_evq s with
  | QErrorDown n :: _ => match aget n (y_w s) with Some w => running_w w | None => [] end
  | _ => []
  end.

Lemma RUN_ext s s' :
  y_w s' = y_w s -> (forall k w, In (k, w) (y_w s) -> gone s' k = gone s k) -> RUN s' = RUN s.
Proof. intros Ew Hg. unfold RUN. rewrite Ew. apply fmkv_ext. intros k w Hin. rewrite (Hg k w Hin). reflexivity. Qed.

Lemma RUN_worker s s' n0 w0 w' :
  aget n0 (y_w s) = Some w0 -> mem_nat n0 (y_dead s) = false ->
  y_w s' = aset n0 w' (y_w s) -> y_d s' = y_d s -> y_dead s' = y_dead s -> RUN s' = RUN s.
Proof.
  intros Ew Hd Ey Ed Edd. unfold RUN. rewrite Ey.
  rewrite (fmkv_ext (fun k w => if gone s' k then running_w w else []) (fun k w => if gone s k then running_w w else [])).
  - apply (fmkv_aset_same _ n0 w' w0); [exact Ew|]. unfold gone. rewrite Hd. reflexivity.
  - intros k v _. unfold gone. rewrite Edd, Ed. reflexivity.
Qed.

Section RunAcc.
Variable c : config.
Hypothesis Hmode : c_mode c = MLoad.
Hypothesis Hng : no_garbled c.
Hypothesis Hpos : 0 < c_numnodes c.

Lemma step_run_nonctl s l s' o w :
  l <> LCtl -> XInv c s -> sys_step c s l = Some (s', o, w) -> RUN s' = RUN s.
Proof.
  intros Hl X HS. pose proof X as [Lo Hi (ls & DJd & NIs) Eq Eu Ea Er Edead].
  unfold sys_step in HS. destruct (y_result s) eqn:Eres; [discriminate|].
  assert (CRASH : forall n0 w0, mem_nat n0 (y_dead s) = false -> aget n0 (y_w s) = Some w0 -> wph w0 <> PExited ->
            RUN (crash_worker c s n0) = RUN s).
  { intros n0 w0 Hd Ew Hph.
    destruct (NIs n0 w0 Ew) as (_ & _ & _ & D). rewrite Hd in D. destruct D as [D1 _ _ _ _ _].
    assert (Hact : In n0 (d_active (y_d s))).
    { destruct (in_dec Nat.eq_dec n0 (d_active (y_d s))) as [Hin|Hni]; [exact Hin|].
      destruct (ni_act _ _ _ _ _ _ _ D1 Hni) as (_ & P). contradiction. }
    pose proof (crash_worker_view c s n0) as DV.
    apply RUN_ext; [reflexivity|].
    intros k wk _. unfold gone. change (y_dead (crash_worker c s n0)) with (n0 :: y_dead s).
    destruct DV as (_ & -> & _). rewrite mem_nat_cons. destruct (Nat.eqb k n0) eqn:E; [|reflexivity].
    apply Nat.eqb_eq in E. subst k. rewrite Hd. apply mem_nat_In in Hact. rewrite Hact. reflexivity. }
  destruct l as [n0|n0|n0|n0| |n0]; [| | | |contradiction|].
  - destruct (mem_nat n0 (y_dead s)) eqn:Hd; [discriminate|].
    destruct (aget n0 (y_down s)) as [[|cmd rest]|] eqn:Ed; try discriminate.
    destruct (aget n0 (y_w s)) as [w0|] eqn:Ew; try discriminate. inv HS.
    eapply (RUN_worker s _ n0 w0 (deliver w0 cmd)); eauto; reflexivity.
  - destruct (mem_nat n0 (y_dead s)) eqn:Hd; [discriminate|].
    destruct (aget n0 (y_w s)) as [w0|] eqn:Ew; try discriminate.
    destruct (negb (wcb w0)); [discriminate|].
    destruct (recv_step (c_oracle c n0) w0) as [w' evs] eqn:Es. inv HS.
    eapply (RUN_worker s _ n0 w0 w'); eauto; reflexivity.
  - destruct (mem_nat n0 (y_dead s)) eqn:Hd; [discriminate|].
    destruct (aget n0 (y_w s)) as [w0|] eqn:Ew; try discriminate.
    destruct (dies_now c n0 w0) eqn:Edie.
    + inv HS. apply (CRASH n0 w0 Hd Ew). unfold dies_now in Edie. destruct (wph w0); discriminate.
    + destruct (main_step (c_oracle c n0) w0) as [[w' evs]|] eqn:Es; [|discriminate]. inv HS.
      eapply (RUN_worker s _ n0 w0 w'); eauto; reflexivity.
  - destruct (aget n0 (y_up s)) as [[|m rest]|] eqn:Eup; try discriminate.
    cbn [y_d] in HS.
    destruct (process_from_remote n0 m (y_d s)) as [[d' outs] r] eqn:Ep.
    destruct (step_recv c Hpos s n0 m rest d' outs r X Eup Ep) as (-> & evs & -> & _ & DV & SGS).
    cbn [apply_outs] in HS. inv HS.
    match goal with |- RUN (close_if_dead ?sa n0) = _ => set (sA := sa) end.
    destruct (close_if_dead_view sA n0) as (DV2 & E1 & E2 & E3 & E4 & E5).
    assert (DV3 : dview_same (y_d s) (y_d (close_if_dead sA n0))) by (eapply dview_trans; [exact DV|exact DV2]).
    apply RUN_ext; [exact E1|]. intros k wk _. unfold gone. rewrite E2.
    destruct DV3 as (_ & -> & _). reflexivity.
  - destruct (mem_nat n0 (y_dead s)) eqn:Hd; [discriminate|].
    destruct (aget n0 (y_w s)) as [w0|] eqn:Ew; try discriminate.
    destruct (wph w0) eqn:Eph; try discriminate; inv HS; apply (CRASH n0 w0 Hd Ew); rewrite Eph; discriminate.
Qed.

(* the controller's turn: exactly the node whose errordown is handled becomes "gone" *)
Lemma step_run_core s ev q d' outs r :
  XInv c s -> NoDup (akeys (y_w s)) -> y_result s = None -> y_evq s = ev :: q ->
  d_loop_once ev (y_d s) = (d', outs, r) ->
  Permutation (RUN (apply_outs (set_d (set_evq s q) d') outs)) (RUN s ++ crash_run_idx s).
Proof.
  intros X K Eres Eevq El. pose proof X as [Lo Hi (ls & DJd & NIs) Eq Eu Ea Er Edead].
  specialize (Ea Eres).
  pose proof (pre_from_inv' c s ls ev q X DJd NIs Eevq) as Hpre.
  destruct (loop_once_ok' _ _ Hpos ev _ ls d' outs r DJd Ea Hpre El) as (-> & ls' & vo & Eo & E & DJ2 & _ & _).
  pose proof (loop_once_step _ _ _ _ _ El) as (_ & _ & _ & SP).
  set (G := d_next_gw (y_d s)) in *.
  assert (SPID : forall id sp, In (OHook (HSpawn id sp)) outs -> id = G).
  { intros id sp Hin. destruct SP as [(C0 & _)|(_ & _ & _ & _ & sp0 & SPx)].
    - pose proof (count_zero_notin _ _ _ C0 Hin) as F. discriminate.
    - specialize (SPx _ Hin eq_refl). inv SPx. reflexivity. }
  set (sA := set_d (set_evq s q) d').
  set (s1 := apply_outs sA outs).
  destruct (apply_outs_frame outs sA) as (F1 & F2 & F3). cbn [sA set_d set_evq y_evq y_d y_dead] in F1, F2, F3.
  fold s1 in F1, F2, F3.
  assert (UP : forall k, alist_get [] k (y_up s1) = alist_get [] k (y_up s)).
  { intros k. unfold s1. rewrite apply_outs_up; [reflexivity|]. intros id sp Hin. rewrite (SPID _ _ Hin).
    cbn [sA set_d set_evq y_up]. apply (Hi G). unfold G. lia. }
  assert (YW : y_w s1 = if existsb is_spawn outs then aset G w_init (y_w s) else y_w s).
  { unfold s1. rewrite (apply_outs_yw_G G outs sA SPID). reflexivity. }
  assert (GN : aget G (y_w s) = None) by (apply (Hi G); unfold G; lia).
  assert (SIGS : forall k, sigs s k = ev_sigs_for k ev ++ sigs s1 k).
  { intros k. rewrite (sigs_head' s ev q k Eevq). unfold sigs. rewrite F1, UP. reflexivity. }
  assert (EVOK : ok_evx (c_coll c) G ev).
  { pose proof Eq as Eq'. rewrite Forall_forall in Eq'. apply Eq'. rewrite Eevq. left. reflexivity. }
  assert (GONE : forall k w, In (k, w) (y_w s) -> (forall n, ev = QErrorDown n -> k <> n) -> gone s1 k = gone s k).
  { intros k w Hin Hne. unfold gone. rewrite F3, F2. destruct (mem_nat k (y_dead s)) eqn:Hd; [|reflexivity]. cbn [andb]. f_equal.
    assert (Ew : exists wk, aget k (y_w s) = Some wk).
    { destruct (aget k (y_w s)) as [wk|] eqn:E0; [eauto|]. exfalso. apply aget_none_keys in E0. apply E0.
      unfold akeys. change k with (fst (k, w)). apply in_map. exact Hin. }
    destruct Ew as (wk & Ew). destruct (NIs k wk Ew) as (_ & _ & _ & DD0). rewrite Hd in DD0. destruct DD0 as [D1 _ _].
    destruct (mem_nat k (d_active (y_d s))) eqn:Ha.
    - apply mem_nat_In in Ha. destruct (he_act' _ _ _ _ _ _ _ _ E k Ha) as [Y|[(b & Y)|Y]].
      + apply mem_nat_In. exact Y.
      + exfalso. apply (NDc_nofin _ _ _ _ b D1). rewrite (SIGS k). apply in_or_app. left.
        unfold ev_sigs_for. rewrite Y, Nat.eqb_refl. left. reflexivity.
      + exfalso. exact (Hne k Y eq_refl).
    - apply mem_nat_false in Ha. apply mem_nat_false. intros Y.
      destruct (he_actb' _ _ _ _ _ _ _ _ E k Y) as [Z|(Z & _)]; [contradiction|].
      fold G in Z. subst k. apply aget_none_keys in GN. apply GN. unfold akeys. change G with (fst (G, w)). apply in_map. exact Hin. }
  assert (R1 : Permutation (fmkv (fun k w => if gone s1 k then running_w w else []) (y_w s)) (RUN s ++ crash_run_idx s)).
  { unfold crash_run_idx. rewrite Eevq. destruct (classic_errd ev) as [(n & ->)|Hne].
    - assert (HnG : n < G) by (destruct EVOK as (_ & Hn); exact Hn).
      destruct (aget n (y_w s)) as [wn|] eqn:Ewn; [|exfalso; exact (Lo n HnG Ewn)].
      destruct (ctl_errd_node c s n q wn X Eevq Ewn) as (Hdn & Han & lost & Ebk).
      destruct (he_err' _ _ _ _ _ _ _ _ E n eq_refl) as (_ & Hna').
      assert (G1 : gone s1 n = true).
      { unfold gone. rewrite F3, F2, Hdn. apply mem_nat_false in Hna'. rewrite Hna'. reflexivity. }
      assert (G0 : gone s n = false).
      { unfold gone. rewrite Hdn. apply mem_nat_In in Han. rewrite Han. reflexivity. }
      destruct (aset_split n wn wn (y_w s) Ewn) as (pre & post & Em & _).
      assert (NDm : NoDup (akeys (y_w s))) by exact K.
      unfold RUN. rewrite Em. unfold fmkv. rewrite !flat_map_app.
      cbn [flat_map fst snd]. rewrite G1, G0. cbn [app].
      assert (EXT : forall part, (forall x, In x part -> In x (y_w s) /\ fst x <> n) ->
                flat_map (fun p => if gone s1 (fst p) then running_w (snd p) else []) part =
                flat_map (fun p => if gone s (fst p) then running_w (snd p) else []) part).
      { intros part Hp. apply fm_ext_in. intros [k w] Hin. destruct (Hp _ Hin) as (A1 & A2). cbn [fst snd] in *.
        rewrite (GONE k w A1); [reflexivity|]. intros n0 E0. injection E0 as <-. exact A2. }
      assert (PRE : forall x, In x pre -> In x (y_w s) /\ fst x <> n).
      { intros x Hx. split; [rewrite Em; apply in_or_app; left; exact Hx|].
        intros F. rewrite Em in NDm. unfold akeys in NDm. rewrite map_app in NDm. cbn [map fst] in NDm.
        apply NoDup_remove_2 in NDm. apply NDm. apply in_or_app. left. rewrite <- F. apply in_map. exact Hx. }
      assert (POST : forall x, In x post -> In x (y_w s) /\ fst x <> n).
      { intros x Hx. split; [rewrite Em; apply in_or_app; right; right; exact Hx|].
        intros F. rewrite Em in NDm. unfold akeys in NDm. rewrite map_app in NDm. cbn [map fst] in NDm.
        apply NoDup_remove_2 in NDm. apply NDm. apply in_or_app. right. rewrite <- F. apply in_map. exact Hx. }
      rewrite (EXT pre PRE), (EXT post POST). permc.
    - rewrite (fmkv_ext _ (fun k w => if gone s k then running_w w else [])).
      + fold (RUN s). destruct ev; try (rewrite app_nil_r; reflexivity). exfalso. eapply Hne. reflexivity.
      + intros k w Hin. rewrite (GONE k w Hin); [reflexivity|]. intros n E0. exfalso. exact (Hne n E0). }
  unfold RUN at 1. rewrite YW. destruct (existsb is_spawn outs); [|exact R1].
  rewrite (fmkv_new _ G w_init _ GN).
  assert (Z : (if gone s1 G then running_w w_init else []) = []) by (destruct (gone s1 G); reflexivity).
  rewrite Z, app_nil_r. exact R1.
Qed.

(* a running test is the crash item *)
Lemma crash_run_is_crash s n q :
  XInv c s -> y_evq s = QErrorDown n :: q -> forall x, crash_run_idx s = [x] -> crash_idx s = [x].
Proof.
  intros X Eevq x Hx. unfold crash_run_idx in Hx. rewrite Eevq in Hx.
  destruct (aget n (y_w s)) as [wn|] eqn:Ewn; [|discriminate].
  destruct (ctl_errd_node c s n q wn X Eevq Ewn) as (_ & _ & lost & Ebk).
  destruct (running_head wn x Hx) as (y & Ey). unfold crash_idx. rewrite Eevq, Ebk, Ey. reflexivity.
Qed.
End RunAcc.


(* G.3 whole runs *)
(* crash reports for a test that had NOT been started by the dead worker: the worker held it (or it was
   still on the wire) but had not entered pytest_runtest_protocol *)
Definition crash_unstarted_idx (s : sys) : list nat :=
  match crash_run_idx s with [] => crash_idx s | _ => [] end.

Fixpoint crashed_running (c : config) (s : sys) (ls : list label) : list nat :=
  match ls with
  | [] => []
  | l :: r =>
      match sys_step c s l with
      | Some (s', _, _) => (match l with LCtl => crash_run_idx s | _ => [] end) ++ crashed_running c s' r
      | None => crashed_running c s r
      end
  end.
Fixpoint crashed_unstarted (c : config) (s : sys) (ls : list label) : list nat :=
  match ls with
  | [] => []
  | l :: r =>
      match sys_step c s l with
      | Some (s', _, _) => (match l with LCtl => crash_unstarted_idx s | _ => [] end) ++ crashed_unstarted c s' r
      | None => crashed_unstarted c s r
      end
  end.

Lemma RUN_VE s0 s : VE s0 s -> RUN s = RUN s0.
Proof.
  intros (A1 & A2 & _ & _ & _ & _ & A7 & _). apply RUN_ext; [exact A1|]. intros k w _. unfold gone. rewrite A2, A7. reflexivity.
Qed.

Lemma in_aget {V} k (v : V) m : NoDup (akeys m) -> In (k, v) m -> aget k m = Some v.
Proof.
  induction m as [|[k' v'] m IH]; intros ND Hin; [destruct Hin|]. cbn in ND. inversion ND as [|a l Hn ND']; subst.
  cbn. destruct Hin as [E|Hin].
  - inv E. rewrite Nat.eqb_refl. reflexivity.
  - destruct (Nat.eqb k k') eqn:E.
    + apply Nat.eqb_eq in E. subst k'. exfalso. apply Hn. unfold akeys. change k with (fst (k, v)). apply in_map. exact Hin.
    + apply IH; assumption.
Qed.

Lemma close_if_dead_result s n : y_result (close_if_dead s n) = y_result s.
Proof.
  unfold close_if_dead. destruct (mem_nat n (y_dead s)); [|reflexivity].
  destruct (aget n (d_nt (y_d s))) as [f|]; [|reflexivity]. destruct (n_down f); reflexivity.
Qed.

(* the step that ends the session as "finished" leaves no active node and no stop request *)
Lemma step_finished c s l s' o w :
  sys_step c s l = Some (s', o, w) -> y_result s' = Some RFinished ->
  d_active (y_d s') = [] /\ d_shouldstop (y_d s') = false.
Proof.
  intros HS HR. unfold sys_step in HS. destruct (y_result s) eqn:Eres; [discriminate|].
  destruct l as [n0|n0|n0|n0| |n0].
  - destruct (mem_nat n0 (y_dead s)); [discriminate|].
    destruct (aget n0 (y_down s)) as [[|cmd rest]|]; try discriminate.
    destruct (aget n0 (y_w s)); try discriminate. inv HS. cbn in HR. congruence.
  - destruct (mem_nat n0 (y_dead s)); [discriminate|].
    destruct (aget n0 (y_w s)) as [w0|]; try discriminate.
    destruct (negb (wcb w0)); [discriminate|].
    destruct (recv_step (c_oracle c n0) w0) as [w' evs]. inv HS. cbn in HR. congruence.
  - destruct (mem_nat n0 (y_dead s)); [discriminate|].
    destruct (aget n0 (y_w s)) as [w0|]; try discriminate.
    destruct (dies_now c n0 w0).
    + inv HS. cbn in HR. congruence.
    + destruct (main_step (c_oracle c n0) w0) as [[w' evs]|]; [|discriminate]. inv HS. cbn in HR. congruence.
  - destruct (aget n0 (y_up s)) as [[|m rest]|]; try discriminate. cbn [y_d] in HS.
    destruct (process_from_remote n0 m (y_d s)) as [[d' outs] r]. destruct r as [evs|e]; inv HS.
    + rewrite close_if_dead_result in HR. cbn [set_evq y_result] in HR. rewrite apply_outs_result in HR. cbn in HR. congruence.
    + cbn in HR. discriminate.
  - destruct (d_active (y_d s)) as [|a0 ar].
    + destruct (d_no_active (y_d s)) as [[d' outs] r]. inv HS. cbn in HR. discriminate.
    + destruct (y_evq s) as [|ev q]; [discriminate|].
      destruct (d_loop_once ev (y_d s)) as [[d' outs] r] eqn:El.
      destruct (apply_outs_frame outs (set_d (set_evq s q) d')) as (F1 & F2 & F3). cbn [set_d set_evq y_evq y_d y_dead] in F2.
      destruct r as [[]|e]; [|inv HS; cbn in HR; discriminate].
      destruct (d_session_finished d') eqn:Efin.
      * inv HS. cbn [set_result y_result y_d] in *. rewrite F2.
        unfold d_session_finished in Efin. apply andb_true_iff in Efin. destruct Efin as (_ & Ea).
        destruct (d_shouldstop d'); [discriminate|]. split; [|reflexivity]. destruct (d_active d'); [reflexivity|discriminate].
      * destruct (d_active d') as [|b0 br].
        -- destruct (d_no_active d') as [[d2 outs2] r2]. inv HS. cbn in HR. discriminate.
        -- inv HS. rewrite apply_outs_result in HR. cbn in HR. congruence.
  - destruct (mem_nat n0 (y_dead s)); [discriminate|].
    destruct (aget n0 (y_w s)) as [w0|]; try discriminate.
    destruct (wph w0); try discriminate; inv HS; cbn in HR; congruence.
Qed.

Lemma finished_run c ls : forall s,
  (y_result s = Some RFinished -> d_active (y_d s) = [] /\ d_shouldstop (y_d s) = false) ->
  y_result (run_from c s ls) = Some RFinished ->
  d_active (y_d (run_from c s ls)) = [] /\ d_shouldstop (y_d (run_from c s ls)) = false.
Proof.
  induction ls as [|l ls IH]; intros s P; cbn [run_from fold_left]; [exact P|]. fold (run_from c).
  destruct (sys_step c s l) as [[[s' o] w]|] eqn:E; [|apply IH; exact P].
  apply IH. intros HR. eapply step_finished; eauto.
Qed.


Section Exact.
Variable c : config.
Hypothesis Hmode : c_mode c = MLoad.
Hypothesis Hng : no_garbled c.
Hypothesis Hpos : 0 < c_numnodes c.

(* the state after a controller turn is, up to the result and the shutting-down flag, the state after the
   handler's outputs have been applied *)
Lemma ctl_VE s s' o w :
  XInv c s -> sys_step c s LCtl = Some (s', o, w) ->
  exists ev q d' outs r, y_result s = None /\ y_evq s = ev :: q /\ d_loop_once ev (y_d s) = (d', outs, r) /\
    VE (apply_outs (set_d (set_evq s q) d') outs) s' /\ incl o outs.
Proof.
  intros X HS. pose proof X as [Lo Hi (ls & DJd & NIs) Eq Eu Ea Er Edead].
  unfold sys_step in HS. destruct (y_result s) eqn:Eres; [discriminate|].
  specialize (Ea eq_refl).
  destruct (d_active (y_d s)) as [|a0 ar] eqn:Eact; [contradiction|].
  destruct (y_evq s) as [|ev q] eqn:Eevq; [discriminate|].
  destruct (d_loop_once ev (y_d s)) as [[d' outs] r] eqn:El.
  exists ev, q, d', outs, r. split; [first [reflexivity|exact Eres]|]. split; [first [reflexivity|exact Eevq]|]. split; [first [reflexivity|exact El]|].
  destruct (step_ctl_core c Hpos s ev q d' outs r X Eres Eevq El) as (-> & Hfin & XC).
  set (s1 := apply_outs (set_d (set_evq s q) d') outs) in *.
  assert (XR : XInv c (set_result s1 (Some RFinished))) by (apply XC; [intros e; discriminate|discriminate]).
  assert (RES : forall rr, VE s1 (set_result s1 rr)).
  { intros rr. unfold VE; cbn [set_result y_w y_dead y_evq y_up y_down y_d]; auto 10. }
  destruct (d_session_finished d') eqn:Efin.
  - injection HS as <- <- _. split; [apply RES|apply incl_refl].
  - destruct (d_active d') as [|b0 br] eqn:Eact'.
    + assert (Hsd : d_shuttingdown d' = false).
      { unfold d_session_finished in Efin. rewrite Eact', andb_true_r in Efin. exact Efin. }
      pose proof XR as [_ _ (ls' & DJ2 & _) _ _ _ _ _].
      destruct (apply_outs_frame outs (set_d (set_evq s q) d')) as (F1 & F2 & F3). cbn [set_d set_evq y_evq y_d y_dead] in F1, F2, F3.
      cbn [set_result y_d] in DJ2. fold s1 in F2. rewrite F2 in DJ2.
      destruct DJ2 as ([Els2 J2 Jb2 _ _ _ _ _ _ _] & Jss2 & _).
      assert (Hss : d_shouldstop d' = false).
      { apply not_true_false. intros F. rewrite (Jss2 F) in Hsd. discriminate. }
      assert (Hnn : s_nodes (d_sched d') = []).
      { rewrite Els2. cbn [s_nodes]. specialize (Jb2 Hss). rewrite Eact' in Jb2.
        destruct (l_nodes ls') as [|k rr]; [reflexivity|]. exfalso. apply (Jb2 k). left. reflexivity. }
      rewrite (trigger_no_nodes d' Hsd Hnn) in HS. cbn [apply_outs] in HS. injection HS as <- <- _.
      split; [|rewrite app_nil_r; apply incl_refl].
      unfold VE. cbn [set_result set_d y_w y_dead y_evq y_up y_down y_d d_set_shuttingdown d_sched d_active d_requeue].
      rewrite F2. repeat split; reflexivity.
    + injection HS as <- <- _. split; [apply VE_refl|apply incl_refl].
Qed.

Lemma step_run_ctl s s' o w :
  XInv c s -> NoDup (akeys (y_w s)) -> sys_step c s LCtl = Some (s', o, w) ->
  Permutation (RUN s') (RUN s ++ crash_run_idx s).
Proof.
  intros X K HS. destruct (ctl_VE s s' o w X HS) as (ev & q & d' & outs & r & Eres & Eevq & El & V & _).
  rewrite (RUN_VE _ _ V). exact (step_run_core c Hpos s ev q d' outs r X K Eres Eevq El).
Qed.

(* a crash report is for the test the worker was running, or for a test it had not started *)
Lemma crash_idx_split s : XInv c s -> crash_idx s = crash_run_idx s ++ crash_unstarted_idx s.
Proof.
  intros X. unfold crash_unstarted_idx. destruct (crash_run_idx s) as [|x [|y l]] eqn:E; [reflexivity| |].
  - rewrite app_nil_r. pose proof E as E'. unfold crash_run_idx in E'.
    destruct (y_evq s) as [|[| | | | | | | | | | |n] q] eqn:Eevq; try discriminate.
    exact (crash_run_is_crash c s n q X Eevq x E).
  - exfalso. unfold crash_run_idx in E. destruct (y_evq s) as [|[| | | | | | | | | | |n] q]; try discriminate.
    destruct (aget n (y_w s)) as [wn|]; [|discriminate]. unfold running_w in E. destruct (wph wn); discriminate.
Qed.

(* what the definition of rq_idx means in terms of the controller's outputs: a controller turn that reports
   a crash (hook pytest_handlecrashitem / the crash report) while the plugin still re-queues puts the FIRST
   index carrying the reported id back into the pool and consumes one unit of the budget *)
Lemma requeue_of_crash_report_x s s' o w t k :
  XInv c s -> sys_step c s LCtl = Some (s', o, w) -> In (OHook (HCrashReport t k)) o ->
  0 < d_requeue (y_d s) ->
  exists coll i j, the_coll s = Some coll /\ crash_idx s = [i] /\ nth_error coll i = Some t /\
    index_of_str t coll = Some j /\ rq_idx s = [j] /\ d_requeue (y_d s) = S (d_requeue (y_d s')).
Proof.
  intros X HS Hin Hq. destruct (ctl_VE s s' o w X HS) as (ev & q & d' & outs & r & Eres & Eevq & El & V & Io).
  apply Io in Hin.
  destruct (ctl_crash_report c Hpos s ev q d' outs r t k X Eres Eevq El Hin)
    as (-> & _ & wk & lost & i & Ewk & Ebk & Ehd & coll & Ec & Enth).
  assert (CI : crash_idx s = [i]).
  { unfold crash_idx. rewrite Eevq, Ebk. destruct (owed_w wk ++ lost) as [|x l]; [discriminate|]. inv Ehd. reflexivity. }
  destruct (index_of_str_in _ _ (nth_error_In _ _ Enth)) as (j & Ej).
  assert (RI1 : rq_idx s = [j]).
  { unfold rq_idx. destruct (d_requeue (y_d s)); [lia|]. rewrite CI. cbn [flat_map]. unfold first_idx. rewrite Ec, Enth, Ej. reflexivity. }
  exists coll, i, j. split; [exact Ec|]. split; [exact CI|]. split; [exact Enth|]. split; [exact Ej|]. split; [exact RI1|].
  pose proof X as [Lo Hi (ls & DJd & NIs) Eq Eu Ea Er Edead]. specialize (Ea Eres).
  pose proof (pre_from_inv' c s ls (QErrorDown k) q X DJd NIs Eevq) as Hpre.
  destruct (loop_once_ok' _ _ Hpos (QErrorDown k) _ ls d' outs r DJd Ea Hpre El) as (-> & ls' & vo & _ & E & _).
  pose proof (dj_sched' _ _ _ _ (he_dj' _ _ _ _ _ _ _ _ E)) as Els'.
  pose proof DJd as ([Els _ _ _ _ _ _ _ _ _] & _).
  destruct (loop_once_tokR _ _ Hpos (QErrorDown k) _ ls d' outs (Ok tt) ls' DJd Ea Hpre El Els') as (Rq' & _).
  rewrite (rq_of_idx s ls _ q Eevq Els), RI1 in Rq'. cbn [length] in Rq'.
  destruct V as (_ & _ & _ & _ & _ & _ & _ & A8). rewrite A8.
  destruct (apply_outs_frame outs (set_d (set_evq s q) d')) as (_ & F2 & _). cbn [set_d set_evq y_d] in F2. rewrite F2. lia.
Qed.

Variable B : nat.

Lemma run_acc ls : forall s cr rq H rn,
  XInv c s \/ ErrSt c s -> RInv B s cr rq H -> Permutation (RUN s) rn ->
  Permutation (RUN (run_from c s ls)) (rn ++ crashed_running c s ls) /\
  Permutation (crashed c s ls) (crashed_running c s ls ++ crashed_unstarted c s ls).
Proof.
  induction ls as [|l ls IH]; intros s cr rq H rn G T PR.
  - cbn. rewrite app_nil_r. split; [exact PR|reflexivity].
  - cbn [run_from fold_left crashed crashed_running crashed_unstarted]. fold (run_from c).
    destruct (sys_step c s l) as [[[s' o] w]|] eqn:E; [|apply (IH s cr rq H rn); assumption].
    destruct G as [X|(R & _)]; [|unfold sys_step in E; rewrite R in E; discriminate].
    destruct (step_rinv c Hpos B s l s' o w cr rq H X T E) as (H1 & T1).
    pose proof (step_xinv c Hng Hpos s l s' o w X E) as G1.
    assert (PR1 : Permutation (RUN s') (rn ++ match l with LCtl => crash_run_idx s | _ => [] end)).
    { assert (NC : l <> LCtl -> RUN s' = RUN s) by (intros Hl; exact (step_run_nonctl c Hpos s l s' o w Hl X E)).
      destruct l; try (rewrite app_nil_r, NC; [exact PR|discriminate]).
      rewrite (step_run_ctl s s' o w X (r_keys _ _ _ _ _ T) E), PR. reflexivity. }
    destruct (IH s' _ _ H1 _ G1 T1 PR1) as (A1 & A2). split.
    + rewrite A1, app_assoc. reflexivity.
    + destruct l; cbn [app]; try exact A2. rewrite (crash_idx_split s X), A2. permc.
Qed.

Hypothesis HB : B = c_requeue c.

(* the account when no node is active and no stop was requested *)
Lemma finished_end s cr rq H rn coll :
  XInv c s -> RInv B s cr rq H -> Permutation (RUN s) rn ->
  d_active (y_d s) = [] -> d_shouldstop (y_d s) = false -> the_coll s = Some coll ->
  Permutation (pool s ++ started s ++ cr) (seq 0 (length coll) ++ rq ++ rn).
Proof.
  intros X T PR Hact Hss Ec. pose proof T as [K P A D Hh Bg].
  pose proof X as [Lo Hi (ls & DJd & NIs) Eq Eu Ea Er Edead].
  pose proof DJd as ([Els J Jb _ _ _ _ _ _ _] & _).
  (* the scheduler has no node left: every book is empty *)
  assert (N0 : l_n2p ls = []).
  { specialize (Jb Hss). rewrite Hact in Jb. unfold l_nodes, akeys in Jb.
    destruct (l_n2p ls) as [|[k b] m]; [reflexivity|]. exfalso. apply (Jb k). left. reflexivity. }
  assert (B0 : books ls = []) by (unfold books; rewrite N0; reflexivity).
  pose proof (books_by_workers_r c s ls X K Els) as PB. rewrite B0 in PB.
  apply Permutation_nil in PB. apply app_eq_nil in PB. destruct PB as (I0 & R0).
  pose proof (holdings_split s) as PH. rewrite R0, app_nil_r in PH.
  (* what was started: completed, or running when the worker died *)
  assert (PS : Permutation (started s) (DONE s ++ RUN s)).
  { change (started s) with (fmkv (fun (_ : nat) (w : wst) => map (fun r => snd (fst r)) (wran w)) (y_w s)).
    rewrite (fmkv_ext (fun _ w => map (fun r => snd (fst r)) (wran w)) (fun k w => done_w w ++ (if gone s k then running_w w else []))).
    - apply (fmkv_app_perm_r (fun _ w => done_w w) (fun k w => if gone s k then running_w w else [])).
    - intros k w Hin. pose proof (in_aget k w _ K Hin) as Ew.
      destruct (NIs k w Ew) as (Iw & _ & _ & D0). rewrite (started_w_exact w Iw). f_equal.
      unfold gone. rewrite Hact. cbn [mem_nat existsb negb]. rewrite andb_true_r.
      destruct (mem_nat k (y_dead s)); [reflexivity|].
      destruct D0 as [D1 _ _ _ _ _]. destruct (ni_act _ _ _ _ _ _ _ D1) as (_ & Pe); [rewrite Hact; intros []|].
      unfold running_w. rewrite Pe. reflexivity. }
  pose proof (conservation_r c Hpos B HB s cr rq H coll X T Ec) as PC.
  rewrite PH in PC. rewrite PS, PR.
  transitivity ((pool s ++ DONE s ++ cr) ++ rn); [permc|]. rewrite PC. permc.
Qed.
End Exact.

Section ExactMain.
  Variable c : config.
  Variable ls : list label.
  Hypothesis Hmode : c_mode c = MLoad.
  Hypothesis Hnogarbled : no_garbled c.
  Hypothesis Hnodes : 0 < c_numnodes c.

  (* the crash reports (in order) for tests the dead worker had not started: it held them in its queue, or
     they were still on its wire, but it had not entered pytest_runtest_protocol for them *)
  Definition crashed_unstarted_in_run : list nat := crashed_unstarted c (sys_init c) ls.
  (* the crash reports for tests that were running when the worker died *)
  Definition crashed_running_in_run : list nat := crashed_running c (sys_init c) ls.

  Theorem crashed_running_or_unstarted :
    Permutation (crashed_in_run c ls) (crashed_running_in_run ++ crashed_unstarted_in_run).
  Proof.
    destruct (run_acc c Hnogarbled Hnodes (c_requeue c) ls (sys_init c) [] [] [] []) as (_ & A2);
      [left; apply XInv_init; assumption|apply RInv_init; auto| |exact A2].
    unfold RUN. cbn [sys_init y_w]. rewrite (fmkv_const_nil _ w_init); [reflexivity|].
    intros k. destruct (gone (sys_init c) k); reflexivity.
  Qed.

  (* C15 (3): THE EXACT ACCOUNT AT A FINISHED END.  When the session has ended as "finished": the tests left
     in the pool (only possible when the restart budget ran out), the tests started (with multiplicity) and
     the crash reports for tests that had not been started together are exactly the collection plus one
     copy of an index per re-queue. *)
  Theorem requeue_exact_at_finished_end : forall coll,
    y_result (sys_run c ls) = Some RFinished -> the_coll (sys_run c ls) = Some coll ->
    Permutation (pool (sys_run c ls) ++ started (sys_run c ls) ++ crashed_unstarted_in_run)
                (seq 0 (length coll) ++ requeued_in_run c ls).
  Proof.
    intros coll HR Ec.
    assert (R0 : Permutation (RUN (sys_init c)) []).
    { unfold RUN. cbn [sys_init y_w]. rewrite (fmkv_const_nil _ w_init); [reflexivity|].
      intros k. destruct (gone (sys_init c) k); reflexivity. }
    assert (X0 : XInv c (sys_init c) \/ ErrSt c (sys_init c)) by (left; apply XInv_init; assumption).
    assert (T0 : RInv (c_requeue c) (sys_init c) [] [] []) by (apply RInv_init; auto).
    destruct (run_acc c Hnogarbled Hnodes (c_requeue c) ls (sys_init c) [] [] [] [] X0 T0 R0) as (A1 & A2).
    destruct (rinv_run c Hnogarbled Hnodes (c_requeue c) ls (sys_init c) [] [] [] X0 T0) as (G & H & T).
    change (run_from c (sys_init c) ls) with (sys_run c ls) in *. cbn [app] in *.
    destruct G as [X|(R & _)]; [|rewrite R in HR; discriminate].
    destruct (finished_run c ls (sys_init c)) as (Hact & Hss); [intros F; cbn in F; discriminate|exact HR|].
    change (run_from c (sys_init c) ls) with (sys_run c ls) in *.
    pose proof (finished_end c Hnodes (c_requeue c) eq_refl (sys_run c ls) _ _ H _ coll X T A1 Hact Hss Ec) as PF.
    fold (crashed_in_run c ls) in PF, A2. rewrite A2 in PF.
    apply (Permutation_app_inv_l (crashed_running c (sys_init c) ls)).
    transitivity (pool (sys_run c ls) ++ started (sys_run c ls) ++ crashed_running c (sys_init c) ls ++ crashed_unstarted c (sys_init c) ls); [unfold crashed_unstarted_in_run; permc|].
    rewrite PF. unfold requeued_in_run. permc.
  Qed.

  (* per index: started exactly once, plus once per re-queue, minus the crash reports it got without having
     been started -- unless it is still in the pool *)
  Corollary requeue_exactly_once_per_requeue : forall coll i,
    y_result (sys_run c ls) = Some RFinished -> the_coll (sys_run c ls) = Some coll -> i < length coll ->
    count_occ Nat.eq_dec (started (sys_run c ls)) i + count_occ Nat.eq_dec crashed_unstarted_in_run i +
    count_occ Nat.eq_dec (pool (sys_run c ls)) i = 1 + requeued_count c ls i.
  Proof.
    intros coll i HR Ec Hi. pose proof (requeue_exact_at_finished_end coll HR Ec) as P.
    pose proof (proj1 (Permutation_count_occ Nat.eq_dec _ _) P i) as E. rewrite !count_occ_app, count_occ_seq in E.
    apply Nat.ltb_lt in Hi. rewrite Hi in E. unfold requeued_count. lia.
  Qed.

  (* the same for a controller turn at the end of any run prefix *)
  Theorem requeue_of_crash_report : forall s' o w t k,
    sys_step c (sys_run c ls) LCtl = Some (s', o, w) -> In (OHook (HCrashReport t k)) o ->
    0 < d_requeue (y_d (sys_run c ls)) ->
    exists coll i j, the_coll (sys_run c ls) = Some coll /\ crash_idx (sys_run c ls) = [i] /\ nth_error coll i = Some t /\
      index_of_str t coll = Some j /\ rq_idx (sys_run c ls) = [j] /\
      d_requeue (y_d (sys_run c ls)) = S (d_requeue (y_d s')) /\
      requeued_in_run c (ls ++ [LCtl]) = requeued_in_run c ls ++ [j].
  Proof.
    intros s' o w t k HS Hin Hq.
    assert (X : XInv c (sys_run c ls)).
    { destruct (xinv_run c Hmode Hnogarbled Hnodes ls) as [X|(R & _)]; [exact X|]. unfold sys_step in HS. rewrite R in HS. discriminate. }
    destruct (requeue_of_crash_report_x c Hnodes _ s' o w t k X HS Hin Hq) as (coll & i & j & A1 & A2 & A3 & A4 & A5 & A6).
    exists coll, i, j. repeat (split; [assumption|]).
    unfold requeued_in_run. rewrite (requeued_app c). change (run_from c (sys_init c) ls) with (sys_run c ls).
    cbn [requeued]. rewrite HS, A5. reflexivity.
  Qed.
End ExactMain.


Check requeue_at_most_once_per_requeue.
Print Assumptions requeue_at_most_once_per_requeue.
Check requeue_budget.
Print Assumptions requeue_budget.
Check requeue_total_starts.
Print Assumptions requeue_total_starts.
Check requeue_conservation.
Print Assumptions requeue_conservation.
Check coll_provenance.
Print Assumptions coll_provenance.
Check requeue_same_index.
Print Assumptions requeue_same_index.
Check requeue_conservation_nodup.
Print Assumptions requeue_conservation_nodup.
Check requeue_at_most_once_nodup.
Print Assumptions requeue_at_most_once_nodup.
Check requeue_of_crash_report.
Print Assumptions requeue_of_crash_report.
Check crashed_running_or_unstarted.
Print Assumptions crashed_running_or_unstarted.
Check requeue_exact_at_finished_end.
Print Assumptions requeue_exact_at_finished_end.
Check requeue_exactly_once_per_requeue.
Print Assumptions requeue_exactly_once_per_requeue.

(* ====================================================================================== *)
(* non-vacuity: concrete sessions with re-queueing, evaluated                               *)
(* ====================================================================================== *)
(* two initial workers, k tests; the plugin re-queues the first rq crash items; mr = restart budget *)
Definition rqx_cfg (rq k : nat) (mr : Z) (crash : nat -> nat -> bool) (names : list string) : config :=
  {| c_mode := MLoad; c_numnodes := 2; c_chunk := None; c_maxfail := 0%Z; c_max_restart := Some mr;
     c_requeue := rq; c_coll := fun _ => names; c_oracle := fun _ => crx_oracle k;
     c_dur := fun _ => 0%Z; c_crash_in := crash; c_strict := false; c_spec := fun _ => 0 |}.
Lemma rqx_hyps rq k mr crash names :
  c_mode (rqx_cfg rq k mr crash names) = MLoad /\ no_garbled (rqx_cfg rq k mr crash names) /\
  0 < c_numnodes (rqx_cfg rq k mr crash names).
Proof.
  split; [reflexivity|]. split; [|cbn; lia].
  intros n i H. cbn in H. destruct H as [H|[]]. discriminate.
Qed.
(* one turn of every component, workers 0..5 *)
Definition rqx_round : list label :=
  [LMain 0; LMain 1; LMain 2; LMain 3; LMain 4; LMain 5; LRecvW 0; LRecvW 1; LRecvW 2; LRecvW 3; LRecvW 4; LRecvW 5;
   LDeliver 0; LDeliver 1; LDeliver 2; LDeliver 3; LDeliver 4; LDeliver 5;
   LRecv 0; LRecv 1; LRecv 2; LRecv 3; LRecv 4; LRecv 5; LCtl].
(* result; pool; holdings; crash reports; re-queued; final crash reports; crash reports of running / of not
   started tests; tests started; budget left *)
Definition rqx_summary (c : config) (ls : list label) :=
  let s := sys_run c ls in
  (y_result s, pool s, holdings s, crashed_in_run c ls, requeued_in_run c ls, crashed_for_good c ls,
   crashed_running_in_run c ls, crashed_unstarted_in_run c ls, started s, d_requeue (y_d s)).

(* (a) budget 2; worker 0 is killed from outside while it RUNS test 0, and test 3 kills every worker that
   enters it (before pytest_runtest_protocol is recorded: such a crash item counts as "not started").
   Crash reports 0, 3, 3; the first two are re-queued ([0; 3]); test 0 is started TWICE (= 1 + one
   re-queue); test 3 is never recorded as started: 0 = 1 + 1 re-queue - 2 crash reports without start *)
Definition rqx_sched : list label := rounds 9 rqx_round ++ [LCrash 0] ++ rounds 120 rqx_round.
Definition rqx_cfg_a : config := rqx_cfg 2 6 8%Z (fun _ i => Nat.eqb i 3) (crx_names 6).
Example rqx_ex_two_requeues :
  rqx_summary rqx_cfg_a rqx_sched =
    (Some RFinished, [], [2; 4; 5; 0; 1], [0; 3; 3], [0; 3], [3], [0], [3; 3], [0; 2; 4; 5; 0; 1], 0) /\
  (forall i, count_occ Nat.eq_dec (started (sys_run rqx_cfg_a rqx_sched)) i <= 1 + requeued_count rqx_cfg_a rqx_sched i) /\
  Permutation (pool (sys_run rqx_cfg_a rqx_sched) ++ holdings (sys_run rqx_cfg_a rqx_sched) ++ crashed_in_run rqx_cfg_a rqx_sched)
              (seq 0 6 ++ requeued_in_run rqx_cfg_a rqx_sched) /\
  Permutation (pool (sys_run rqx_cfg_a rqx_sched) ++ holdings (sys_run rqx_cfg_a rqx_sched) ++ crashed_for_good rqx_cfg_a rqx_sched)
              (seq 0 6) /\
  Permutation (pool (sys_run rqx_cfg_a rqx_sched) ++ started (sys_run rqx_cfg_a rqx_sched) ++ crashed_unstarted_in_run rqx_cfg_a rqx_sched)
              (seq 0 6 ++ requeued_in_run rqx_cfg_a rqx_sched).
Proof.
  destruct (rqx_hyps 2 6 8%Z (fun _ i => Nat.eqb i 3) (crx_names 6)) as (H1 & H2 & H3). fold rqx_cfg_a in H1, H2, H3.
  assert (ND : forall k, NoDup (c_coll rqx_cfg_a k)).
  { intros k. change (c_coll rqx_cfg_a k) with (crx_names 6). vm_compute.
    repeat (constructor; [cbn; intros F; repeat (destruct F as [F|F]; [discriminate|]); exact F|]). constructor. }
  assert (EC : the_coll (sys_run rqx_cfg_a rqx_sched) = Some (crx_names 6)) by (vm_compute; reflexivity).
  split; [vm_compute; reflexivity|]. split; [|split; [|split]].
  - apply requeue_at_most_once_per_requeue; assumption.
  - apply (requeue_conservation _ _ H1 H2 H3 (crx_names 6) EC).
  - apply (requeue_conservation_nodup _ H1 H2 H3 ND _ (crx_names 6) EC).
  - apply (requeue_exact_at_finished_end _ _ H1 H2 H3 (crx_names 6)); [vm_compute; reflexivity|exact EC].
Qed.
Print Assumptions rqx_ex_two_requeues.

(* (b) DUPLICATE TEST IDS: "b" is carried by the indices 1, 3 and 5.  Index 3 kills every worker; the plugin
   (budget 3) re-queues its id -- mark_test_pending puts the FIRST index carrying "b", i.e. 1, back into the
   pool: index 1 is run twice and index 3 never again.  The general theorems count re-queues by the index that
   was put back (requeued_in_run = [0; 1] while the crash reports are [0; 3]); the distinct-ids corollaries
   requeue_same_index / requeue_conservation_nodup FAIL here: forall k, NoDup (c_coll c k) is needed *)
Definition rqx_cfg_b : config := rqx_cfg 3 6 8%Z (fun _ i => Nat.eqb i 3) ["a"; "b"; "a"; "b"; "c"; "b"]%string.
Definition rqx_sched_b : list label := rounds 4 rqx_round ++ [LCrash 0] ++ rounds 120 rqx_round.
Example rqx_ex_duplicate_ids :
  rqx_summary rqx_cfg_b rqx_sched_b =
    (Some RFinished, [], [2; 0; 4; 1; 1; 5], [0; 3], [0; 1], [], [], [0; 3], [2; 0; 4; 1; 1; 5], 1) /\
  ~ Permutation (crashed_in_run rqx_cfg_b rqx_sched_b) (requeued_in_run rqx_cfg_b rqx_sched_b ++ crashed_for_good rqx_cfg_b rqx_sched_b) /\
  ~ Permutation (pool (sys_run rqx_cfg_b rqx_sched_b) ++ holdings (sys_run rqx_cfg_b rqx_sched_b) ++ crashed_for_good rqx_cfg_b rqx_sched_b)
                (seq 0 6).
Proof.
  split; [vm_compute; reflexivity|].
  assert (E2 : pool (sys_run rqx_cfg_b rqx_sched_b) = []) by (vm_compute; reflexivity).
  assert (E3 : holdings (sys_run rqx_cfg_b rqx_sched_b) = [2; 0; 4; 1; 1; 5]) by (vm_compute; reflexivity).
  assert (E4 : crashed_in_run rqx_cfg_b rqx_sched_b = [0; 3]) by (vm_compute; reflexivity).
  assert (E5 : requeued_in_run rqx_cfg_b rqx_sched_b = [0; 1]) by (vm_compute; reflexivity).
  assert (E6 : crashed_for_good rqx_cfg_b rqx_sched_b = []) by (vm_compute; reflexivity).
  rewrite E2, E3, E4, E5, E6. split; intros P.
  - assert (Hin : In 3 ([0; 1] ++ [])) by (eapply Permutation_in; [exact P|cbn; auto]). cbn in Hin. intuition discriminate.
  - assert (Hin : In 3 ([] ++ [2; 0; 4; 1; 1; 5] ++ [])) by (eapply Permutation_in; [apply Permutation_sym; exact P|cbn; auto 10]).
    cbn in Hin. intuition discriminate.
Qed.

(* (c) THE POOL AT A FINISHED END: restart budget 0; worker 0 is killed while it runs test 0; the controller
   stops replacing workers and shuts down (the stop flag is NOT set: the session ends as "finished"); the
   re-queued test 0 and the tests nobody took stay in the pool -- the term `pool` of the exact account *)
Definition rqx_cfg_c : config := rqx_cfg 1 12 0%Z (fun _ _ => false) (crx_names 12).
Example rqx_ex_pool_left :
  let s := sys_run rqx_cfg_c rqx_sched in
  (y_result s, pool s, started s, crashed_in_run rqx_cfg_c rqx_sched, requeued_in_run rqx_cfg_c rqx_sched,
   crashed_unstarted_in_run rqx_cfg_c rqx_sched) =
  (Some RFinished, [0; 4; 5; 6; 7; 8; 9; 10; 11; 1], [0; 2; 3], [0], [0], []) /\
  Permutation (pool s ++ started s ++ crashed_unstarted_in_run rqx_cfg_c rqx_sched)
              (seq 0 12 ++ requeued_in_run rqx_cfg_c rqx_sched).
Proof.
  cbv zeta. destruct (rqx_hyps 1 12 0%Z (fun _ _ => false) (crx_names 12)) as (H1 & H2 & H3). fold rqx_cfg_c in H1, H2, H3.
  split; [vm_compute; reflexivity|].
  apply (requeue_exact_at_finished_end _ _ H1 H2 H3 (crx_names 12)); vm_compute; reflexivity.
Qed.

