(* NoHook.v — scheduler code never calls DSession-level hooks: every output of a scheduler
   operation is a command sent to a node or a collection-difference report. Used to show that
   hook calls (crash reports, spawned replacements, forwarded reports) come from DSession only. *)
From XV Require Import Base Worker Ctl SchedLoad SchedSteal SchedScope SchedEach Sched.
Open Scope nat_scope.

Definition not_hook (o : out) : Prop := match o with OHook _ => False | _ => True end.

Definition nohook {S A} (m : M S A) : Prop :=
  forall s s' o r, m s = (s', o, r) -> Forall not_hook o.

Lemma nohook_ret {S A} (a : A) : nohook (@ret S A a).
Proof. intros s s' o r H. inversion H. constructor. Qed.
Lemma nohook_raise {S A} e : nohook (@raise S A e).
Proof. intros s s' o r H. inversion H. constructor. Qed.
Lemma nohook_get {S} : nohook (@get S).
Proof. intros s s' o r H. inversion H. constructor. Qed.
Lemma nohook_put {S} x : nohook (@put S x).
Proof. intros s s' o r H. inversion H. constructor. Qed.
Lemma nohook_massert {S} b : nohook (@massert S b).
Proof. destruct b; [apply nohook_ret | apply nohook_raise]. Qed.
Lemma nohook_of_opt {S A} (x : option A) e : nohook (@of_opt S A x e).
Proof. destruct x; [apply nohook_ret | apply nohook_raise]. Qed.
Lemma nohook_emit {S} o : not_hook o -> nohook (@emit S o).
Proof. intros Ho s s' o' r H. inversion H. constructor; [exact Ho|constructor]. Qed.

Lemma nohook_bind {S A B} (m : M S A) (f : A -> M S B) :
  nohook m -> (forall a, nohook (f a)) -> nohook (mbind m f).
Proof.
  intros Hm Hf s s' o r H. unfold mbind in H.
  destruct (m s) as [[s1 o1] r1] eqn:E1. specialize (Hm _ _ _ _ E1).
  destruct r1 as [a|e].
  - destruct (f a s1) as [[s2 o2] r2] eqn:E2. inversion H; subst.
    apply Forall_app. split; [exact Hm | exact (Hf a _ _ _ _ E2)].
  - inversion H; subst. exact Hm.
Qed.

Lemma nohook_catch {S} (m : M S unit) e : nohook m -> nohook (catch m e).
Proof.
  intros Hm s s' o r H. unfold catch in H.
  destruct (m s) as [[s1 o1] r1] eqn:E1. specialize (Hm _ _ _ _ E1).
  destruct r1 as [a|e']; [inversion H; subst; exact Hm|].
  destruct (String.eqb _ _); inversion H; subst; exact Hm.
Qed.

Lemma nohook_mfor {S A} (l : list A) (f : A -> M S unit) :
  (forall a, nohook (f a)) -> nohook (mfor l f).
Proof.
  intros Hf. induction l as [|x l IH]; cbn [mfor]; [apply nohook_ret|].
  apply nohook_bind; [apply Hf | intros _; exact IH].
Qed.

Ltac nh :=
  repeat first
    [ apply nohook_ret | apply nohook_raise | apply nohook_get | apply nohook_put
    | apply nohook_massert | apply nohook_of_opt
    | apply nohook_emit; exact I
    | apply nohook_catch
    | apply nohook_mfor; intros
    | apply nohook_bind; [|intros]
    | progress cbv zeta
    | match goal with
      | |- nohook (match ?x with _ => _ end) => destruct x
      | |- nohook (if ?x then _ else _) => destruct x
      | |- nohook (let '(_, _) := ?x in _) => destruct x
      end
    | assumption ].

Section Nodes.
  Context {S : Type} (nt_of : S -> ntable) (set_nt : S -> ntable -> S).
  Lemma nohook_node_flags n : nohook (node_flags nt_of n).
  Proof. unfold node_flags. nh. Qed.
  Lemma nohook_node_sd n : nohook (node_shutting_down nt_of n).
  Proof. unfold node_shutting_down. nh; try apply nohook_node_flags. Qed.
  Lemma nohook_node_send n c : nohook (node_send nt_of n c).
  Proof. unfold node_send. nh; try apply nohook_node_flags. Qed.
  Lemma nohook_node_shutdown n : nohook (node_shutdown nt_of set_nt n).
  Proof. unfold node_shutdown. nh; try apply nohook_node_flags; try apply nohook_node_send. Qed.
End Nodes.

Create HintDb nhdb.
Ltac nh2 :=
  nh; try apply nohook_node_flags; try apply nohook_node_sd; try apply nohook_node_send;
  try apply nohook_node_shutdown; eauto with nhdb.

(* ---- load ---- *)
Lemma nh_l_send_tests n num : nohook (l_send_tests n num).
Proof. unfold l_send_tests. nh2. Qed.
#[export] Hint Resolve nh_l_send_tests : nhdb.
Lemma nh_l_check_schedule n d : nohook (l_check_schedule n d).
Proof. unfold l_check_schedule. nh2. Qed.
#[export] Hint Resolve nh_l_check_schedule : nhdb.
Lemma nh_l_round_robin fuel all cur : nohook (l_round_robin fuel all cur).
Proof.
  revert cur. induction fuel as [|f IH]; intros cur; cbn [l_round_robin]; [apply nohook_ret|].
  destruct cur as [|n r]; [destruct all as [|n r]; [apply nohook_raise|]|];
    (apply nohook_bind; [apply nh_l_send_tests | intros _; apply IH]).
Qed.
#[export] Hint Resolve nh_l_round_robin : nhdb.
Lemma nh_l_same : nohook l_same_collection.
Proof. unfold l_same_collection. nh2. Qed.
#[export] Hint Resolve nh_l_same : nhdb.
Lemma nh_l_schedule : nohook l_schedule.
Proof.
  unfold l_schedule. nh2; try apply nh_l_check_schedule; try apply nh_l_same;
    try apply nh_l_round_robin; try apply nh_l_send_tests.
Qed.
#[export] Hint Resolve nh_l_schedule : nhdb.
Lemma nh_l_add_node n : nohook (l_add_node n).
Proof. unfold l_add_node. nh2. Qed.
#[export] Hint Resolve nh_l_add_node : nhdb.
Lemma nh_l_add_coll n c : nohook (l_add_node_collection n c).
Proof. unfold l_add_node_collection. nh2. Qed.
#[export] Hint Resolve nh_l_add_coll : nhdb.
Lemma nh_l_complete n i d : nohook (l_mark_test_complete n i d).
Proof. unfold l_mark_test_complete. nh2. Qed.
#[export] Hint Resolve nh_l_complete : nhdb.
Lemma nh_l_pending it : nohook (l_mark_test_pending it).
Proof. unfold l_mark_test_pending. nh2. Qed.
#[export] Hint Resolve nh_l_pending : nhdb.
Lemma nh_l_remove n : nohook (l_remove_node n).
Proof. unfold l_remove_node. nh2. Qed.
#[export] Hint Resolve nh_l_remove : nhdb.

(* ---- worksteal ---- *)
Lemma nh_ws_send_tests n num : nohook (ws_send_tests n num).
Proof. unfold ws_send_tests. nh2. Qed.
#[export] Hint Resolve nh_ws_send_tests : nhdb.
Lemma nh_ws_distribute idle : nohook (ws_distribute idle).
Proof.
  induction idle as [|n r IH]; cbn [ws_distribute]; [apply nohook_ret|].
  apply nohook_bind; [apply nohook_get|intros s].
  apply nohook_bind; [apply nh_ws_send_tests|intros _; exact IH].
Qed.
#[export] Hint Resolve nh_ws_distribute : nhdb.
Lemma nh_ws_check : nohook ws_check_schedule.
Proof. unfold ws_check_schedule. nh2. Qed.
#[export] Hint Resolve nh_ws_check : nhdb.
Lemma nh_ws_add_node n : nohook (ws_add_node n).
Proof. unfold ws_add_node. nh2. Qed.
#[export] Hint Resolve nh_ws_add_node : nhdb.
Lemma nh_ws_add_coll n c : nohook (ws_add_node_collection n c).
Proof. unfold ws_add_node_collection. nh2. Qed.
#[export] Hint Resolve nh_ws_add_coll : nhdb.
Lemma nh_ws_complete n i : nohook (ws_mark_test_complete n i).
Proof. unfold ws_mark_test_complete. nh2. Qed.
#[export] Hint Resolve nh_ws_complete : nhdb.
Lemma nh_ws_pending it : nohook (ws_mark_test_pending it).
Proof. unfold ws_mark_test_pending. nh2. Qed.
#[export] Hint Resolve nh_ws_pending : nhdb.
Lemma nh_ws_unsched n ixs : nohook (ws_remove_pending_tests_from_node n ixs).
Proof. unfold ws_remove_pending_tests_from_node. nh2. Qed.
#[export] Hint Resolve nh_ws_unsched : nhdb.
Lemma nh_ws_remove n : nohook (ws_remove_node n).
Proof. unfold ws_remove_node. nh2. Qed.
#[export] Hint Resolve nh_ws_remove : nhdb.
Lemma nh_ws_same : nohook ws_same_collection.
Proof. unfold ws_same_collection. nh2. Qed.
#[export] Hint Resolve nh_ws_same : nhdb.
Lemma nh_ws_schedule : nohook ws_schedule.
Proof. unfold ws_schedule. nh2. Qed.
#[export] Hint Resolve nh_ws_schedule : nhdb.

(* ---- scope family ---- *)
Lemma nh_sc_add_node n : nohook (sc_add_node n).
Proof. unfold sc_add_node. nh2. Qed.
#[export] Hint Resolve nh_sc_add_node : nhdb.
Lemma nh_sc_assign n : nohook (sc_assign_work_unit n).
Proof. unfold sc_assign_work_unit. nh2. Qed.
#[export] Hint Resolve nh_sc_assign : nhdb.
Lemma nh_sc_top_up fuel n : nohook (sc_top_up fuel n).
Proof.
  induction fuel as [|f IH]; cbn [sc_top_up]; [apply nohook_ret|].
  nh2.
Qed.
#[export] Hint Resolve nh_sc_top_up : nhdb.
Lemma nh_sc_reschedule n : nohook (sc_reschedule n).
Proof. unfold sc_reschedule. nh2. Qed.
#[export] Hint Resolve nh_sc_reschedule : nhdb.
Lemma nh_sc_remove n : nohook (sc_remove_node n).
Proof. unfold sc_remove_node. nh2. Qed.
#[export] Hint Resolve nh_sc_remove : nhdb.
Lemma nh_sc_add_coll n c : nohook (sc_add_node_collection n c).
Proof. unfold sc_add_node_collection. nh2. Qed.
#[export] Hint Resolve nh_sc_add_coll : nhdb.
Lemma nh_sc_complete n i : nohook (sc_mark_test_complete n i).
Proof. unfold sc_mark_test_complete. nh2. Qed.
#[export] Hint Resolve nh_sc_complete : nhdb.
Lemma nh_sc_same : nohook sc_same_collection.
Proof. unfold sc_same_collection. nh2. Qed.
#[export] Hint Resolve nh_sc_same : nhdb.
Lemma nh_sc_pop_extra k : nohook (sc_pop_extra k).
Proof.
  induction k as [|k IH]; cbn [sc_pop_extra]; [apply nohook_ret|].
  nh2.
Qed.
#[export] Hint Resolve nh_sc_pop_extra : nhdb.
Lemma nh_sc_schedule : nohook sc_schedule.
Proof.
  unfold sc_schedule. nh2; try apply nh_sc_reschedule; try apply nh_sc_same;
    try apply nh_sc_pop_extra; try apply nh_sc_assign.
Qed.
#[export] Hint Resolve nh_sc_schedule : nhdb.

(* ---- each ---- *)
Lemma nh_e_add_node n : nohook (e_add_node n).
Proof. unfold e_add_node. nh2. Qed.
#[export] Hint Resolve nh_e_add_node : nhdb.
Lemma nh_e_inherit n c dead : nohook (e_inherit n c dead).
Proof.
  induction dead as [|[d p] r IH]; cbn [e_inherit]; [apply nohook_ret|].
  nh2.
Qed.
#[export] Hint Resolve nh_e_inherit : nhdb.
Lemma nh_e_add_coll n c : nohook (e_add_node_collection n c).
Proof. unfold e_add_node_collection. nh2. Qed.
#[export] Hint Resolve nh_e_add_coll : nhdb.
Lemma nh_e_complete n i : nohook (e_mark_test_complete n i).
Proof. unfold e_mark_test_complete. nh2. Qed.
#[export] Hint Resolve nh_e_complete : nhdb.
Lemma nh_e_remove n : nohook (e_remove_node n).
Proof. unfold e_remove_node. nh2. Qed.
#[export] Hint Resolve nh_e_remove : nhdb.
Lemma nh_e_schedule_node n : nohook (e_schedule_node n).
Proof. unfold e_schedule_node. nh2. Qed.
#[export] Hint Resolve nh_e_schedule_node : nhdb.
Lemma nh_e_schedule : nohook e_schedule.
Proof. unfold e_schedule. nh2. Qed.
#[export] Hint Resolve nh_e_schedule : nhdb.

(* ---- the scheduler interface ---- *)
Lemma lift_nohook {S A B} (wrap : S -> sstate) (f : A -> B) (m : M S A) s st' o r :
  nohook m -> lift wrap f (m s) = (st', o, r) -> Forall not_hook o.
Proof.
  intros Hm H. unfold lift in H. destruct (m s) as [[s1 o1] r1] eqn:E.
  inversion H; subst. exact (Hm _ _ _ _ E).
Qed.

Theorem s_step_no_hook st op st' o r : s_step st op = (st', o, r) -> Forall not_hook o.
Proof.
  destruct op; cbn [s_step]; intros H.
  - inversion H. constructor.
  - destruct st; (eapply lift_nohook; [|exact H]); eauto with nhdb.
  - destruct st; (eapply lift_nohook; [|exact H]); eauto with nhdb.
  - destruct st; (eapply lift_nohook; [|exact H]); eauto with nhdb.
  - destruct st; (eapply lift_nohook; [|exact H]); eauto with nhdb.
  - destruct st; try (inversion H; constructor; fail); (eapply lift_nohook; [|exact H]); eauto with nhdb.
  - destruct st; try (inversion H; constructor; fail); (eapply lift_nohook; [|exact H]); eauto with nhdb.
  - destruct st; (eapply lift_nohook; [|exact H]); eauto with nhdb.
  - destruct (aget n (s_nt st)); inversion H; constructor.
  - destruct st; (eapply lift_nohook; [|exact H]); apply nohook_node_shutdown.
Qed.
