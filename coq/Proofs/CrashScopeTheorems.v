(* CrashScopeTheorems.v -- part D of the crash coupling proof for the scope family of schedulers
   (--dist loadscope / loadfile / loadgroup: mode [MScope kind]): the system invariant XInvC of
   Model/System.v WITH worker crashes (LCrash at any moment, c_crash_in) and replacement workers, proved
   for EVERY label, and the theorems derived from it (properties C17, C03, C06 with crashes).

   Hypotheses of the theorems (and nothing else: any schedule, any c_crash_in, any restart budget,
   c_strict, --maxfail, stop requests, duplicate or empty test ids, ANY collections -- the workers,
   replacements included, need not collect the same list):
     c_mode c = MScope kind          any of the three kinds (the proofs never look at the key function)
     no_garbled c                    no undecodable report (such a worker is written off, see ExactlyOnce.v)
     0 < c_numnodes c
     c_requeue c = 0                 no plugin re-queues crash items; needed: the scope schedulers raise
                                     NotImplementedError in mark_test_pending (csx_ex_requeue_not_implemented)
   "forall n, c_coll c n = c_coll c 0" (every worker, REPLACEMENTS INCLUDED, collects the same list) is an
   explicit premise of exactly those statements that need it: "no exception at all" (needed: see
   csx_ex_no_active_workers, RuntimeError("no active workers")) and the corollaries that read books / group keys
   against worker 0's collection (sbook, c06_key) instead of the collection the scheduler has fixed.

   D.2  XInvC coll0: every process id below the group counter has a process; per node the invariants of
        CrashTheorems.v (NodeInv: alive / dead with its end marker on the wire / dead with errordown queued /
        gone) over the projection [proj coll0 cs] of the scope scheduler's state; the controller invariant
        DJx of CrashScope.v.  coll0 is the collection the scheduler has fixed; as long as it has fixed none
        nothing is handed out and coll0 may be re-chosen (XInvC_transfer, pickx_ok): it becomes the list of
        the first node registered when the last initial worker reports.  xinvc_run_g: in every reachable state
        XInvC holds for some coll0, or the controller has just raised "no active workers" (ErrStx).
   D.3  scope_crash_coupling_invariant_any_collections   the book coupling for alive, dead and written-off nodes
        scope_crash_coupling_invariant                   (same lists: books read against worker 0's collection)
        scope_crash_c17                         C17: the only exception that can escape the controller's loop
                                                is the documented RuntimeError("no active workers")
        scope_crash_no_active_workers_needs_different_collection   ... and only if the collections differ
        scope_crash_controller_never_raises     same lists: NO exception at all
        scope_crash_report_names_running_test_any_collections / scope_crash_report_names_running_test
                                                C03 a: the crash report names the test the dead worker was
                                                running or about to start
   D.4  scope_crash_conservation                C03 c: token conservation with crashes
        scope_crash_started_nodup               C03 b: no test is ever started twice
   D.5  scope_crash_runs_blocks                 C06: a worker runs an initial part of a sequence of blocks, one
                                                scope key each, distinct keys, positions increasing
        scope_crash_c06_group_contiguous[_any_collections] / scope_crash_c06_group_in_collection_order[_any_collections]
        / scope_crash_started_are_collected[_any_collections]
        scope_crash_one_live_worker_per_group   a scope key is queued or held by ONE scheduler node
   D.6  concrete sessions (vm_compute): two crashes, the dead-node coupling and the re-queueing at the END of
        the work queue, the accounts, the theorems instantiated, the two findings above, a session with a
        deviating replacement worker and one with deviating initial workers. *)
From XV Require Import Base Worker Ctl SchedLoad SchedSteal SchedScope SchedEach Sched DSession System
  NoHook DSessionProofs WorkerProofs LoadProofs FifoProofs ExactlyOnce ScopeProofs Coupling ScopeSystem
  ScopeCoupling CrashCoupling CrashTheorems CrashTokens CrashScope.
From Coq Require Import Permutation Sorted.
Open Scope nat_scope.

(* ====================================================================================== *)
(* D.1 flags of one node                                                                   *)
(* ====================================================================================== *)
Definition upd_flagc (cs : scstate) (n : nat) (f' : nctl) : scstate := sc_set_nt cs (aset n f' (sc_nt cs)).

Lemma proj_upd_flagc coll0 cs n f' : proj coll0 (upd_flagc cs n f') = upd_flag (proj coll0 cs) n f'.
Proof. reflexivity. Qed.

Lemma d_set_nt_schedc d cs n f' :
  d_sched d = StC cs -> d_sched (d_set_nt d (aset n f' (d_nt d))) = StC (upd_flagc cs n f').
Proof. intros E. unfold d_set_nt, d_nt. rewrite E. reflexivity. Qed.

Lemma aget_upd_flagc cs n f' m :
  aget m (sc_nt (upd_flagc cs n f')) = if Nat.eqb m n then Some f' else aget m (sc_nt cs).
Proof. unfold upd_flagc. cbn [sc_nt sc_set_nt]. apply LoadProofs.aget_aset. Qed.

(* changing the down/closed flags of a node does not concern the controller's invariant *)
Lemma DJx_flag kind coll0 collf N d cs n f f' :
  DJx kind coll0 collf N d cs -> aget n (sc_nt cs) = Some f -> n_sdsent f' = n_sdsent f ->
  DJx kind coll0 collf N (d_set_nt d (aset n f' (d_nt d))) (upd_flagc cs n f').
Proof.
  intros ([Els J Jb K1 RS K2 EX RQ AL FN CC ACT] & Jss & Jemp & Jmis) Ef Hs.
  assert (KEY : forall m, aget m (sc_nt (upd_flagc cs n f')) <> None <-> aget m (sc_nt cs) <> None).
  { intros m. rewrite aget_upd_flagc. destruct (Nat.eqb m n) eqn:E; [|reflexivity].
    apply Nat.eqb_eq in E. subst m. rewrite Ef. split; intros; discriminate. }
  assert (SD : forall m g', aget m (sc_nt (upd_flagc cs n f')) = Some g' ->
                 exists g, aget m (sc_nt cs) = Some g /\ n_sdsent g' = n_sdsent g).
  { intros m g'. rewrite aget_upd_flagc. destruct (Nat.eqb m n) eqn:E.
    - apply Nat.eqb_eq in E. subst m. intros X. inv X. eauto.
    - intros X. eauto. }
  assert (SD' : forall m g, aget m (sc_nt cs) = Some g ->
                 exists g', aget m (sc_nt (upd_flagc cs n f')) = Some g' /\ n_sdsent g' = n_sdsent g).
  { intros m g Eg. rewrite aget_upd_flagc. destruct (Nat.eqb m n) eqn:E.
    - apply Nat.eqb_eq in E. subst m. exists f'. split; [reflexivity|]. congruence.
    - eauto. }
  unfold d_set_nt. split; [|split; [exact Jss|split; [exact Jemp|exact Jmis]]].
  constructor; cbn [d_set_sched d_sched d_next_gw d_shouldstop d_shuttingdown d_active d_requeue d_failed_nodes].
  - unfold d_nt. rewrite Els. reflexivity.
  - apply SJx_set_nt; [exact J|]. intros m. apply (KEY m).
  - exact Jb.
  - intros Hc Hss Hex m g' Eg'. destruct (SD m g' Eg') as (g & Eg & E). rewrite E. eapply K1; eauto.
  - exact RS.
  - intros HS H1 H2. destruct (K2 HS H1 H2) as [(k & g & Hk & Eg & Hg)|X]; [left|right; exact X].
    destruct (SD' k g Eg) as (g' & Eg' & E). exists k, g'. split; [exact Hk|]. split; [exact Eg'|congruence].
  - exact EX.
  - exact RQ.
  - exact AL.
  - exact FN.
  - exact CC.
  - exact ACT.
Qed.

(* process_from_remote for a known node: never raises; queues the signal it read (when the node is
   still heard); the end marker of a node that is not down yet queues its errordown *)
Lemma pfr_effxc X0 G n m d cs f d' o r :
  d_sched d = StC cs -> aget n (sc_nt cs) = Some f -> ok_upx X0 n m -> n < G ->
  (n_down f = true -> up_sig m = [] /\ m <> UEnd) ->
  process_from_remote n m d = (d', o, r) ->
  o = [] /\ exists evs, r = Ok evs /\
    (d' = d \/ (d' = d_set_nt d (aset n (down_flag' f) (d_nt d)) /\ n_down f = false /\
                (m = UEnd \/ exists b, m = UEv (EFinished b)))) /\
    (forall k, evq_sigs k evs = if Nat.eqb n k then up_sig m else []) /\
    Forall (ok_evx X0 G) evs /\
    (m = UEnd -> n_down f = false -> evs = [QErrorDown n] /\ d' <> d) /\
    (m <> UEnd -> forall k, no_errd k evs).
Proof.
  intros Els Ef Hm HnG Hdn H.
  assert (Ent : d_nt d = sc_nt cs) by (unfold d_nt; rewrite Els; reflexivity).
  unfold process_from_remote in H. rewrite mbind_get, Ent, Ef in H. cbn [of_opt] in H. rewrite mbind_ret in H.
  assert (SG : forall (g : sig) k, (if Nat.eqb n k then [g] else []) ++ [] = if Nat.eqb n k then [g] else []).
  { intros g k. destruct (Nat.eqb n k); reflexivity. }
  assert (SN : forall k, @nil sig = if Nat.eqb n k then [] else []) by (intros k; destruct (Nat.eqb n k); reflexivity).
  assert (SAME : forall evs, (d, @nil out, Ok evs) = (d', o, r) -> m <> UEnd \/ n_down f = true ->
            (forall k, evq_sigs k evs = if Nat.eqb n k then up_sig m else []) -> Forall (ok_evx X0 G) evs ->
            (forall k, no_errd k evs) ->
            o = [] /\ exists evs, r = Ok evs /\
            (d' = d \/ (d' = d_set_nt d (aset n (down_flag' f) (d_nt d)) /\ n_down f = false /\
                        (m = UEnd \/ exists b, m = UEv (EFinished b)))) /\
            (forall k, evq_sigs k evs = if Nat.eqb n k then up_sig m else []) /\
            Forall (ok_evx X0 G) evs /\
            (m = UEnd -> n_down f = false -> evs = [QErrorDown n] /\ d' <> d) /\
            (m <> UEnd -> forall k, no_errd k evs)).
  { intros evs E Hne Hs Ho Hq. inv E. split; [reflexivity|]. exists evs.
    split; [reflexivity|]. split; [left; reflexivity|]. split; [exact Hs|]. split; [exact Ho|].
    split; [|intros _; exact Hq]. intros E1 E2. destruct Hne as [X|X]; [contradiction|congruence]. }
  destruct (n_down f) eqn:Edn.
  { (* a node that is down is not heard any more *)
    assert (H' : (d, @nil out, Ok (@nil cevent)) = (d', o, r)).
    { destruct m as [e|ids|sk|i ms|dec| | |]; exact H. }
    eapply SAME; [exact H'|right; reflexivity| |constructor|intros k; apply no_errd_nil].
    intros k. destruct (Hdn eq_refl) as (E0 & _). rewrite E0. destruct (Nat.eqb n k); reflexivity. }
  assert (NEQ : d_set_nt d (aset n (down_flag' f) (d_nt d)) <> d).
  { intros F. assert (X : aget n (d_nt (d_set_nt d (aset n (down_flag' f) (d_nt d)))) = Some (down_flag' f)).
    { rewrite d_nt_set. apply aget_aset_eq. }
    rewrite F, Ent, Ef in X. injection X as X. apply (f_equal n_down) in X. cbn in X. congruence. }
  assert (OK1 : forall ev, match ev with QUnscheduled _ _ | QInternalError _ | QFinished _ SKKbd => False
                                       | QCollFinish n0 ids0 => ids0 = X0 n0 | _ => True end ->
                match ev_node ev with Some m0 => m0 < G | None => True end -> Forall (ok_evx X0 G) [ev]).
  { intros ev A B. constructor; [split; assumption|constructor]. }
  assert (NE1 : forall ev, (forall k, is_errd k ev = false) -> forall k, no_errd k [ev]).
  { intros ev Hev k e [<-|[]]. apply Hev. }
  destruct m as [e|ids|sk|i ms|dec| | |]; cbn [ok_upx] in Hm; try contradiction.
  - destruct e as [| |ck cf| |li|ri rk roc|fi|ci|ux|stopreq]; cbn [ok_wev] in Hm; try contradiction; unfold ret in H.
    + eapply SAME; [exact H|left; discriminate| |apply OK1; cbn; auto|apply NE1; reflexivity]. intros k0. cbn. apply SG.
    + eapply SAME; [exact H|left; discriminate| |constructor|intros k; apply no_errd_nil]. intros k0. cbn. apply SN.
    + eapply SAME; [exact H|left; discriminate| |apply OK1; cbn; auto|apply NE1; reflexivity]. intros k0. cbn. apply SN.
    + eapply SAME; [exact H|left; discriminate| |constructor|intros k; apply no_errd_nil]. intros k0. cbn. apply SN.
    + eapply SAME; [exact H|left; discriminate| |apply OK1; cbn; auto|apply NE1; reflexivity]. intros k0. cbn. apply SN.
    + eapply SAME; [exact H|left; discriminate| |apply OK1; cbn; auto|apply NE1; reflexivity]. intros k0. cbn. apply SN.
    + eapply SAME; [exact H|left; discriminate| |apply OK1; cbn; auto|apply NE1; reflexivity]. intros k0. cbn. apply SN.
    + eapply SAME; [exact H|left; discriminate| |apply OK1; cbn; auto|apply NE1; reflexivity]. intros k0. cbn. apply SG.
    + rewrite mbind_put in H. unfold ret in H. inv H. split; [reflexivity|]. eexists. split; [reflexivity|].
      split. { right. rewrite Ent. split; [reflexivity|]. split; [reflexivity|]. right. eexists. reflexivity. }
      split. { intros k0. cbn. destruct stopreq; apply SG. }
      split. { apply OK1; [destruct stopreq; exact I|exact HnG]. }
      split; [intros F; discriminate|]. intros _. apply NE1. reflexivity.
  - unfold ret in H. eapply SAME; [exact H|left; discriminate| |apply OK1; cbn; auto|apply NE1; reflexivity]. intros k0. cbn. apply SG.
  - unfold ret in H. eapply SAME; [exact H|left; discriminate| |apply OK1; cbn; auto|apply NE1; reflexivity]. intros k0. cbn. apply SG.
  - (* the end marker *)
    rewrite mbind_put in H. unfold ret in H. inv H. split; [reflexivity|]. eexists. split; [reflexivity|].
    split. { right. rewrite Ent. split; [reflexivity|]. split; [reflexivity|]. left. reflexivity. }
    split. { intros k0. cbn. apply SN. }
    split. { apply OK1; [exact I|exact HnG]. }
    split; [|intros F; contradiction]. intros _ _. split; [reflexivity|]. rewrite <- Ent. exact NEQ.
Qed.

(* ====================================================================================== *)
(* D.2 the system invariant                                                                *)
(* ====================================================================================== *)
(* the book of node n: the not-completed tests of its assigned work units (ScopeCoupling.sbook) *)
(* The crash coupling, scope family.  For every worker process that was ever started:
   - alive: the controller's book equals, in order, what the worker side still owes (as without crashes);
   - dead, errordown not handled yet (the node is still "active" for the controller): the book is
       completions still in flight ++ what the dead worker held when it died (its frozen state)
       ++ lost,  lost = what was on its wire down when it died or has been sent to it since;
   - dead, errordown handled: the node has no book any more (its first not-completed test was the crash
     item, the rest of its units went back to the END of the work queue).
   An id without a process has no book. *)
Definition CrashCoupledW (book : nat -> list nat) (s : sys) : Prop :=
  forall n,
    match aget n (y_w s) with
    | None => book n = []
    | Some w =>
        if mem_nat n (y_dead s) then
          (In n (d_active (y_d s)) -> exists lost, book n = completes (sigs s n) ++ owed_w w ++ lost) /\
          (~ In n (d_active (y_d s)) -> book n = [])
        else book n = owed s n
    end.
(* ... with the books read against worker 0's collection (ScopeCoupling.sbook; the right reading when all
   workers collect the same list) *)
Definition ScCrashCoupled (c : config) (s : sys) : Prop := CrashCoupledW (sbook c s) s.
(* ... with the books read against the collection the scheduler itself has fixed (any collections) *)
Definition the_collx (s : sys) : option (list string) :=
  match d_sched (y_d s) with StC cs => sc_coll cs | _ => None end.
Definition sbookx (s : sys) (n : nat) : list nat :=
  match d_sched (y_d s) with
  | StC cs => match sc_coll cs, aget n (sc_assigned cs) with
              | Some cl, Some w => bookw cl w
              | _, _ => []
              end
  | _ => []
  end.
Definition ScCrashCoupledX (s : sys) : Prop := CrashCoupledW (sbookx s) s.

Lemma CrashCoupledW_ext B s s' :
  y_w s' = y_w s -> y_dead s' = y_dead s -> y_evq s' = y_evq s -> y_up s' = y_up s -> y_down s' = y_down s ->
  d_active (y_d s') = d_active (y_d s) ->
  CrashCoupledW B s -> CrashCoupledW B s'.
Proof.
  intros E1 E2 E3 E4 E5 E7 H n. specialize (H n).
  assert (SG : sigs s' n = sigs s n) by (unfold sigs; rewrite E3, E4; reflexivity).
  assert (OW : owed s' n = owed s n) by (unfold owed; rewrite SG, E1, E5; reflexivity).
  rewrite E1, E2, SG, OW, E7. exact H.
Qed.

Lemma sbookx_VE s0 s n : VE s0 s -> sbookx s n = sbookx s0 n.
Proof. intros (_ & _ & _ & _ & _ & A6 & _). unfold sbookx. rewrite A6. reflexivity. Qed.

Lemma ScCrashCoupledX_VE s0 s : VE s0 s -> ScCrashCoupledX s0 -> ScCrashCoupledX s.
Proof.
  intros V H. pose proof V as (A1 & A2 & A3 & A4 & A5 & A6 & A7 & _).
  unfold ScCrashCoupledX. apply (CrashCoupledW_ext _ s0 s A1 A2 A3 A4 A5 A7).
  intros n. specialize (H n). rewrite !(sbookx_VE s0 s n V). exact H.
Qed.

Lemma sbook_bookn c s cs n : d_sched (y_d s) = StC cs -> sbook c s n = bk (proj (c_coll c 0) cs) n.
Proof. intros E. unfold sbook. rewrite E, proj_bk. reflexivity. Qed.

Section SysX.
Variable c : config.
Variable kind : scope_kind.
Variable coll0 : list string.     (* the collection the scheduler has fixed, or will fix *)
Notation N := (c_numnodes c).
Notation X0 := (c_coll c).
Hypothesis Hmode : c_mode c = MScope kind.
Hypothesis Hng : no_garbled c.
Hypothesis Hpos : 0 < N.
Hypothesis Hrq : c_requeue c = 0.

Notation SJxc := (SJx kind coll0 (c_coll c) N).
Notation DJxc := (DJx kind coll0 (c_coll c) N).
Notation DJ0xc := (DJ0x kind coll0 (c_coll c) N).
Notation HEFFxc := (HEFFx kind coll0 (c_coll c) N).
Notation PRExc := (PREx coll0 (c_coll c)).
Notation projc := (proj coll0).

Record XInvC (s : sys) : Prop := {
  xc_lo : forall m, m < d_next_gw (y_d s) -> aget m (y_w s) <> None;
  xc_hi : forall m, d_next_gw (y_d s) <= m ->
         aget m (y_w s) = None /\ alist_get [] m (y_up s) = [] /\ alist_get [] m (y_down s) = [];
  xc_dj : exists cs, DJxc (y_d s) cs /\ forall n w, aget n (y_w s) = Some w -> NodeInv s (projc cs) n w;
  xc_evq : Forall (ok_evx X0 (d_next_gw (y_d s))) (y_evq s);
  xc_up : forall n, Forall (ok_upx X0 n) (alist_get [] n (y_up s));
  xc_act : y_result s = None -> d_active (y_d s) <> [];
  xc_res : forall e, y_result s <> Some (RError e);
  xc_dead : forall n, In n (y_dead s) -> n < d_next_gw (y_d s);
}.

(* when the scheduler is about to fix the collection, it fixes coll0: the collection of the first node
   registered, or of the node whose collection report heads the queue *)
Definition FIRSTx (s : sys) : Prop :=
  forall n ids q cs, y_evq s = QCollFinish n ids :: q -> d_sched (y_d s) = StC cs -> sc_coll cs = None ->
    match sc_reg cs with (k0, cl) :: _ => cl = coll0 | [] => X0 n = coll0 end.

Lemma worker_ltx s n w : XInvC s -> aget n (y_w s) = Some w -> n < d_next_gw (y_d s).
Proof.
  intros X E. destruct (Nat.lt_ge_cases n (d_next_gw (y_d s))) as [H|H]; [exact H|].
  destruct (xc_hi _ X n H) as (F & _). congruence.
Qed.

Lemma dj_els d cs : DJxc d cs -> d_sched d = StC cs /\ SJxc (d_next_gw d) cs.
Proof. intros ([Els J _ _ _ _ _ _ _ _ _ _] & _). auto. Qed.

(* ---- the initial state ---- *)
Lemma aget_init_ntx n : aget n (init_nt c) <> None <-> n < N.
Proof.
  unfold init_nt. rewrite aget_In_keys, (akeys_map_seq (fun n => {| n_spec := c_spec c n; n_down := false; n_sdsent := false; n_closed := false |})).
  rewrite in_seq. lia.
Qed.

Lemma aget_init_nt_freshx n f : aget n (init_nt c) = Some f -> fresh_flags f.
Proof.
  unfold init_nt. induction (seq 0 N) as [|k l IH]; cbn; [discriminate|].
  destruct (Nat.eqb n k); [intros E; inv E; repeat split|exact IH].
Qed.

Lemma XInvC_init : XInvC (sys_init c).
Proof.
  assert (YW : forall n w, aget n (y_w (sys_init c)) = Some w -> n < N /\ w = w_init).
  { intros n w Ew. cbn [sys_init y_w] in Ew. pose proof (aget_some_in _ _ _ Ew) as Hk.
    rewrite (akeys_map_seq (fun _ => w_init)) in Hk. apply in_seq in Hk.
    apply aget_map_const in Ew. split; [lia|exact Ew]. }
  constructor.
  - cbn [sys_init y_d d_next_gw y_w]. intros m Hm. apply aget_In_keys.
    rewrite (akeys_map_seq (fun _ => w_init)). apply in_seq. lia.
  - cbn [sys_init y_d d_next_gw y_w y_up y_down]. intros m Hm. split; [|split; apply alist_get_map_nil].
    apply aget_none_keys. rewrite (akeys_map_seq (fun _ => w_init)). rewrite in_seq. lia.
  - cbn [sys_init y_d d_sched]. rewrite Hmode. cbn [s_init s_set_nt].
    eexists. split.
    + split; [|split; [|split]].
      * constructor; cbn [d_sched d_next_gw d_shouldstop d_shuttingdown d_active d_requeue d_failed_nodes d_max_restart].
        -- reflexivity.
        -- constructor; cbn [sc_set_nt sc_init sc_nt sc_kind sc_numnodes sc_reg sc_coll sc_wq sc_assigned sc_nodes akeys map].
           ++ split; [intros n w []|intros _ k []].
           ++ reflexivity.
           ++ reflexivity.
           ++ apply aget_init_ntx.
           ++ intros n [].
           ++ constructor.
           ++ intros n cl [].
           ++ constructor.
           ++ intros cl F. discriminate.
           ++ intros _. split; [reflexivity|intros n w []].
           ++ intros sc u [].
           ++ constructor.
           ++ intros n w [].
        -- intros _ n [].
        -- cbn [sc_set_nt sc_init sc_nt]. intros _ _ _ n f Ef. apply (aget_init_nt_freshx n f Ef).
        -- discriminate.
        -- intros _ _ _. left. exists 0. cbn [sc_set_nt sc_init sc_nt].
           destruct (aget 0 (init_nt c)) as [f|] eqn:Ef.
           ++ exists f. split; [apply in_seq; lia|]. split; [reflexivity|apply (aget_init_nt_freshx 0 f Ef)].
           ++ exfalso. apply (proj2 (aget_init_ntx 0)); [lia|exact Ef].
        -- unfold exhausted. cbn [d_max_restart d_failed_nodes]. destruct (c_max_restart c); [|discriminate].
           rewrite andb_false_r. discriminate.
        -- exact Hrq.
        -- intros n Hn. apply in_seq in Hn. lia.
        -- lia.
        -- exact Logic.I.
        -- split; [apply seq_NoDup|rewrite seq_length; lia].
      * cbn. discriminate.
      * cbn. discriminate.
      * intros C0. exfalso. unfold sc_collection_is_completed in C0. cbn [sc_set_nt sc_init sc_numnodes sc_reg length] in C0.
        apply Nat.leb_le in C0. lia.
    + intros n w Ew. destruct (YW n w Ew) as (HnN & ->).
      assert (Esg : sigs (sys_init c) n = []).
      { unfold sigs. cbn [sys_init y_evq y_up]. rewrite alist_get_map_nil. reflexivity. }
      split; [apply winv_init|]. split; [constructor|]. split; [exact Logic.I|].
      cbn [sys_init y_dead mem_nat existsb].
      constructor; rewrite ?Esg; cbn [sys_init y_down y_up y_evq y_d d_active d_shouldstop]; rewrite ?alist_get_map_nil.
      * constructor; cbn [proj sc_set_nt sc_init sc_nt sc_reg sc_assigned l_nt l_nodes l_n2p l_n2c akeys map w_init wph prank].
        -- destruct (aget n (init_nt c)) as [f|] eqn:Ef.
           ++ exists f. split; [reflexivity|]. cbn. rewrite (proj1 (aget_init_nt_freshx n f Ef)). apply mark_ok_nil.
           ++ exfalso. apply (proj2 (aget_init_ntx n)); [lia|exact Ef].
        -- reflexivity.
        -- apply chan_ok_nil.
        -- intros [].
        -- intros [].
        -- intros F. exfalso. apply F. apply in_seq. lia.
        -- intros [[]|F]; discriminate.
        -- apply WX_init.
        -- intros [F|(b & F)]; discriminate.
      * constructor.
      * intros [].
      * apply no_errd_nil.
      * unfold closedb. cbn [proj sc_set_nt sc_init sc_nt l_nt]. destruct (aget n (init_nt c)) as [f|] eqn:Ef; [|reflexivity].
        apply (aget_init_nt_freshx n f Ef).
      * cbn [proj sc_set_nt sc_init sc_nt l_nt]. intros f Ef Hd. destruct (aget_init_nt_freshx n f Ef) as (_ & F & _). congruence.
  - constructor.
  - intros n. cbn [sys_init y_up]. rewrite alist_get_map_nil. constructor.
  - intros _. cbn [sys_init y_d d_active]. destruct N; [lia|]. cbn. discriminate.
  - intros e. cbn. discriminate.
  - intros n [].
Qed.

(* ---- LDeliver ---- *)
Lemma step_deliverx s n0 cmd rest w0 :
  XInvC s -> mem_nat n0 (y_dead s) = false ->
  aget n0 (y_down s) = Some (cmd :: rest) -> aget n0 (y_w s) = Some w0 ->
  XInvC {| y_d := y_d s; y_evq := y_evq s; y_down := aset n0 rest (y_down s); y_up := y_up s;
          y_w := aset n0 (deliver w0 cmd) (y_w s); y_dead := y_dead s; y_result := y_result s |}.
Proof.
  intros X Hd Ed Ew. pose proof X as [Lo Hi (cs & DJd & NIs) Eq Eu Ea Er Edead].
  pose proof (worker_ltx s n0 w0 X Ew) as HnG.
  set (s' := {| y_d := y_d s; y_evq := y_evq s; y_down := aset n0 rest (y_down s); y_up := y_up s;
          y_w := aset n0 (deliver w0 cmd) (y_w s); y_dead := y_dead s; y_result := y_result s |}).
  constructor; unfold s'; cbn [y_d y_evq y_down y_up y_w y_dead y_result].
  - intros m Hm. rewrite LoadProofs.aget_aset. destruct (Nat.eqb m n0); [discriminate|apply Lo; exact Hm].
  - intros m Hm. destruct (Hi m Hm) as (A & B & C). assert (m <> n0) by lia.
    rewrite aget_aset_neq, alist_get_aset_neq by assumption. auto.
  - exists cs. split; [exact DJd|]. intros n w Hw. destruct (Nat.eq_dec n n0) as [->|Hn].
    + rewrite aget_aset_eq in Hw. inv Hw. destruct (NIs n0 w0 Ew) as (A & B & C & D). rewrite Hd in D.
      destruct D as [D1 D2 D3 D4 D5 D6]. rewrite (alist_get_some [] _ _ _ Ed) in D1, D2.
      inversion D2 as [|c1 r1 Gc Gr]; subst.
      destruct (deliver_owed w0 cmd) as (_ & _ & Ep & _).
      split; [apply upd_recv_inv; exact A|]. split; [apply deliver_good; assumption|].
      split; [eapply nogarb_ph; [exact Ep|exact C]|]. cbn [y_dead]. rewrite Hd.
      constructor; cbn [y_d y_evq y_down y_up]; rewrite ?alist_get_aset_eq; auto.
      all: try (rewrite Ep; exact D6).
      apply NI_deliver. exact D1.
    + rewrite aget_aset_neq in Hw by exact Hn.
      apply (NodeInv_other s s' (projc cs) (projc cs) n w []); auto.
      * cbn. rewrite app_nil_r. reflexivity.
      * apply no_errd_nil.
      * cbn [s' y_down]. apply alist_get_aset_neq. exact Hn.
  - exact Eq.
  - exact Eu.
  - exact Ea.
  - exact Er.
  - exact Edead.
Qed.

(* ---- a worker step that pushes events onto its wire ---- *)
Lemma step_pushx s n0 w0 w' evs :
  XInvC s -> mem_nat n0 (y_dead s) = false -> aget n0 (y_w s) = Some w0 ->
  WInv w' -> Forall good_cmd (winbox w') -> nogarb w' ->
  Forall (fun e => is_garbled e = false) evs -> Forall ok_wev evs ->
  (forall ls, NI ls (d_active (y_d s)) (d_shouldstop (y_d s)) n0 (sigs s n0) (alist_get [] n0 (y_down s)) w0 ->
     NI ls (d_active (y_d s)) (d_shouldstop (y_d s)) n0 (sigs s n0 ++ flat_map we_sig evs) (alist_get [] n0 (y_down s)) w') ->
  (wph w0 = PExited -> wph w' = PExited /\ flat_map we_sig evs = []) ->
  XInvC (push_up (set_w s n0 w') n0 (map (up_of_wevent c n0) evs)).
Proof.
  intros X Hd Ew Iw Gw NGw NGe Hok Hni Hex. pose proof X as [Lo Hi (cs & DJd & NIs) Eq Eu Ea Er Edead].
  pose proof (worker_ltx s n0 w0 X Ew) as HnG.
  set (s' := push_up (set_w s n0 w') n0 (map (up_of_wevent c n0) evs)).
  assert (Sg : sigs s' n0 = sigs s n0 ++ flat_map we_sig evs).
  { unfold sigs, s'. cbn [push_up set_w y_evq y_up]. rewrite alist_get_aset_eq, flat_map_app, up_sigs_of_wevents, app_assoc. reflexivity. }
  constructor; unfold s'; cbn [push_up set_w y_d y_evq y_down y_up y_w y_dead y_result].
  - intros m Hm. rewrite LoadProofs.aget_aset. destruct (Nat.eqb m n0); [discriminate|apply Lo; exact Hm].
  - intros m Hm. destruct (Hi m Hm) as (A & B & C). assert (m <> n0) by lia.
    rewrite aget_aset_neq, alist_get_aset_neq by assumption. auto.
  - exists cs. split; [exact DJd|]. intros n w Hw. destruct (Nat.eq_dec n n0) as [->|Hn].
    + rewrite aget_aset_eq in Hw. inv Hw. destruct (NIs n0 w0 Ew) as (A & B & C & D). rewrite Hd in D.
      destruct D as [D1 D2 D3 D4 D5 D6].
      split; [exact Iw|]. split; [exact Gw|]. split; [exact NGw|]. cbn [push_up set_w y_dead]. rewrite Hd.
      constructor; fold s'; rewrite ?Sg; cbn [s' push_up set_w y_d y_evq y_down y_up]; rewrite ?alist_get_aset_eq; auto.
      * intros Hin. apply in_app_or in Hin. destruct Hin as [Hin|Hin]; [exact (D3 Hin)|].
        apply in_map_iff in Hin. destruct Hin as (e & He & _). exact (up_of_wevent_not_end c n0 e He).
      * intros f Ef Hdn. destruct (D6 f Ef Hdn) as (X1 & X2). destruct (Hex X2) as (Y1 & Y2).
        split; [|exact Y1]. rewrite flat_map_app, up_sigs_of_wevents, X1, Y2. reflexivity.
    + rewrite aget_aset_neq in Hw by exact Hn.
      apply (NodeInv_other s s' (projc cs) (projc cs) n w []); auto.
      * cbn. rewrite app_nil_r. reflexivity.
      * apply no_errd_nil.
      * cbn [s' push_up set_w y_up]. apply alist_get_aset_neq. exact Hn.
  - exact Eq.
  - intros n. destruct (Nat.eq_dec n n0) as [->|Hn].
    + rewrite alist_get_aset_eq. apply Forall_app. split; [apply Eu|].
      apply Forall_forall. intros m Hm. apply in_map_iff in Hm. destruct Hm as (e & <- & He).
      rewrite Forall_forall in Hok, NGe. specialize (Hok e He). specialize (NGe e He).
      destruct e; cbn; auto. destruct oc; cbn; auto. discriminate.
    + rewrite alist_get_aset_neq by exact Hn. apply Eu.
  - exact Ea.
  - exact Er.
  - exact Edead.
Qed.

(* ---- a worker process dies (LCrash, or entering a test that kills it) ---- *)
Lemma step_crashx s n0 w0 :
  XInvC s -> mem_nat n0 (y_dead s) = false -> aget n0 (y_w s) = Some w0 -> wph w0 <> PExited ->
  XInvC (crash_worker c s n0).
Proof.
  intros X Hd Ew Hph. pose proof X as [Lo Hi (cs & DJd & NIs) Eq Eu Ea Er Edead].
  pose proof (worker_ltx s n0 w0 X Ew) as HnG.
  destruct (dj_els _ _ DJd) as (Els & J).
  destruct (aget n0 (sc_nt cs)) as [f0|] eqn:Ef0; [|exfalso; apply (proj2 (sx_ntk _ _ _ _ _ _ J n0) HnG); exact Ef0].
  set (s' := crash_worker c s n0).
  assert (DX : exists cs' f0', DJxc (y_d s') cs' /\ sc_assigned cs' = sc_assigned cs /\ sc_reg cs' = sc_reg cs /\
             (forall n, n <> n0 -> aget n (sc_nt cs') = aget n (sc_nt cs)) /\
             aget n0 (sc_nt cs') = Some f0' /\ n_down f0' = n_down f0 /\ n_sdsent f0' = n_sdsent f0 /\
             d_active (y_d s') = d_active (y_d s) /\ d_shouldstop (y_d s') = d_shouldstop (y_d s) /\
             d_next_gw (y_d s') = d_next_gw (y_d s)).
  { unfold s', crash_worker. cbn [y_d]. destruct (c_strict c).
    - assert (Ent : d_nt (y_d s) = sc_nt cs) by (unfold d_nt; rewrite Els; reflexivity).
      rewrite Ent, Ef0. exists (upd_flagc cs n0 (closed_flag f0)), (closed_flag f0).
      split. { rewrite <- Ent. fold (closed_flag f0). apply (DJx_flag _ _ _ _ _ cs n0 f0); auto. }
      split; [reflexivity|]. split; [reflexivity|].
      split. { intros n Hn. rewrite aget_upd_flagc. apply Nat.eqb_neq in Hn. rewrite Hn. reflexivity. }
      split. { rewrite aget_upd_flagc, Nat.eqb_refl. reflexivity. }
      split; [reflexivity|]. split; [reflexivity|]. split; [reflexivity|]. split; reflexivity.
    - exists cs, f0. split; [exact DJd|]. repeat (split; [reflexivity|]).
      split; [exact Ef0|]. repeat (split; [reflexivity|]). reflexivity. }
  destruct DX as (cs' & f0' & DJ2 & Ep & Ec & Eoth & Ef0' & Edn0 & Esd0 & Eact & Ess & Egw).
  assert (Ep' : l_n2p (projc cs') = l_n2p (projc cs)) by (cbn [proj l_n2p]; rewrite Ep; reflexivity).
  assert (Ec' : l_n2c (projc cs') = l_n2c (projc cs)) by (cbn [proj l_n2c]; exact Ec).
  destruct (NIs n0 w0 Ew) as (A0 & B0 & C0 & D0). rewrite Hd in D0. destruct D0 as [D1 D2 D3 D4 D5 D6].
  assert (Sg0 : sigs s' n0 = sigs s n0).
  { unfold sigs, s', crash_worker. cbn [y_evq y_up]. rewrite alist_get_aset_eq, flat_map_app. cbn. rewrite app_nil_r. reflexivity. }
  constructor; rewrite ?Egw.
  - intros m Hm. unfold s', crash_worker. cbn [y_w]. apply Lo. exact Hm.
  - intros m Hm. destruct (Hi m Hm) as (A & B & C). assert (m <> n0) by lia.
    unfold s', crash_worker. cbn [y_w y_up y_down]. rewrite !alist_get_aset_neq by assumption. auto.
  - exists cs'. split; [exact DJ2|]. intros n w Hw. change (y_w s') with (y_w s) in Hw.
    destruct (Nat.eq_dec n n0) as [->|Hn].
    + assert (w = w0) by congruence. subst w.
      split; [exact A0|]. split; [exact B0|]. split; [exact C0|].
      change (y_dead s') with (n0 :: y_dead s). rewrite mem_nat_cons, Nat.eqb_refl. cbn [orb].
      constructor; rewrite ?Sg0.
      * eapply NDc_ext; [exact Ep'|exact Ec'|]. eapply NDc_of_NI; eauto.
      * eapply (DS_wire _ _ _ _ (alist_get [] n0 (y_up s)) f0'); rewrite ?Sg0, ?Eact.
        -- unfold s', crash_worker. cbn [y_up]. apply alist_get_aset_eq.
        -- exact D3.
        -- exact Ef0'.
        -- rewrite Edn0. apply not_true_false. intros F. destruct (D6 f0 Ef0 F) as (_ & P). contradiction.
        -- exact D4.
        -- destruct (in_dec Nat.eq_dec n0 (d_active (y_d s))) as [Hin|Hni]; [exact Hin|].
           destruct (ni_act _ _ _ _ _ _ _ D1 Hni) as (_ & P). contradiction.
        -- eapply NDcpl_ext; [exact Ep'|]. eapply NDcpl_of_NI; eauto.
      * unfold s', crash_worker. cbn [y_down]. apply alist_get_aset_eq.
    + apply (NodeInv_other s s' (projc cs) (projc cs') n w [] Ep' Ec').
      * cbn [proj l_nt]. apply Eoth. exact Hn.
      * exact Eact.
      * exact Ess.
      * unfold s', crash_worker. cbn [y_evq]. rewrite app_nil_r. reflexivity.
      * reflexivity.
      * apply no_errd_nil.
      * change (y_dead s') with (n0 :: y_dead s). rewrite mem_nat_cons. apply Nat.eqb_neq in Hn. rewrite Hn. reflexivity.
      * unfold s', crash_worker. cbn [y_up]. apply alist_get_aset_neq. exact Hn.
      * unfold s', crash_worker. cbn [y_down]. apply alist_get_aset_neq. exact Hn.
      * apply NIs. exact Hw.
  - exact Eq.
  - intros n. unfold s', crash_worker. cbn [y_up]. destruct (Nat.eq_dec n n0) as [->|Hn].
    + rewrite alist_get_aset_eq. apply Forall_app. split; [apply Eu|]. repeat constructor.
    + rewrite alist_get_aset_neq by exact Hn. apply Eu.
  - rewrite Eact. exact Ea.
  - exact Er.
  - intros n [<-|Hn]; [exact HnG|apply Edead; exact Hn].
Qed.

(* ---- the channel of a dead worker is closed once its end marker has been read ---- *)
Lemma close_if_dead_XInvC s n : XInvC s -> XInvC (close_if_dead s n).
Proof.
  intros X. unfold close_if_dead. destruct (mem_nat n (y_dead s)) eqn:Hd; [|exact X].
  destruct (aget n (d_nt (y_d s))) as [f|] eqn:Ef; [|exact X].
  destruct (n_down f) eqn:Edn; [|exact X].
  pose proof X as [Lo Hi (cs & DJd & NIs) Eq Eu Ea Er Edead].
  destruct (dj_els _ _ DJd) as (Els & J).
  assert (Ent : d_nt (y_d s) = sc_nt cs) by (unfold d_nt; rewrite Els; reflexivity).
  set (fc := {| n_spec := n_spec f; n_down := true; n_sdsent := n_sdsent f; n_closed := true |}).
  set (s' := set_d s (d_set_nt (y_d s) (aset n fc (d_nt (y_d s))))).
  assert (Ef' : aget n (sc_nt cs) = Some f) by (rewrite <- Ent; exact Ef).
  constructor.
  - exact Lo.
  - exact Hi.
  - exists (upd_flagc cs n fc). split; [apply (DJx_flag _ _ _ _ _ cs n f); auto|].
    intros k w Hw. change (y_w s') with (y_w s) in Hw. destruct (Nat.eq_dec k n) as [->|Hk].
    + destruct (NIs n w Hw) as (A & B & C & D). split; [exact A|]. split; [exact B|]. split; [exact C|].
      change (y_dead s') with (y_dead s). rewrite Hd in *. destruct D as [D1 D2 D3].
      constructor.
      * change (sigs s' n) with (sigs s n). eapply NDc_ext; [| |exact D1]; reflexivity.
      * destruct D2 as [pre g X1 X2 X3 X4 X5 X6 X7|q1 q2 X1 X2 X3 X4 X5 X6 X7|X1 X2 X3 X4 X5].
        -- exfalso. cbn [proj l_nt] in X3. congruence.
        -- eapply (DS_queue _ _ _ _ q1 q2); eauto.
        -- eapply DS_done; eauto.
      * exact D3.
    + apply (NodeInv_other s s' (projc cs) (projc (upd_flagc cs n fc)) k w [] eq_refl eq_refl).
      * cbn [proj l_nt]. rewrite aget_upd_flagc. apply Nat.eqb_neq in Hk. rewrite Hk. reflexivity.
      * reflexivity.
      * reflexivity.
      * cbn. rewrite app_nil_r. reflexivity.
      * reflexivity.
      * apply no_errd_nil.
      * reflexivity.
      * reflexivity.
      * reflexivity.
      * apply NIs. exact Hw.
  - exact Eq.
  - exact Eu.
  - exact Ea.
  - exact Er.
  - exact Edead.
Qed.

(* the part of the controller state that the token accounts look at *)
Definition dviewx (d d' : dstate) : Prop :=
  d_active d' = d_active d /\
  (forall cs, d_sched d = StC cs -> exists cs', d_sched d' = StC cs' /\ sc_coll cs' = sc_coll cs /\
                                                sc_wq cs' = sc_wq cs /\ sc_assigned cs' = sc_assigned cs) /\
  d_next_gw d' = d_next_gw d.
Lemma dviewx_refl d : dviewx d d.
Proof. split; [reflexivity|]. split; [|reflexivity]. intros cs E. exists cs. auto. Qed.
Lemma dviewx_trans a b d : dviewx a b -> dviewx b d -> dviewx a d.
Proof.
  intros (A2 & A3 & A4) (B2 & B3 & B4). split; [congruence|]. split; [|congruence].
  intros cs E. destruct (A3 cs E) as (cs1 & E1 & C1 & W1 & T1). destruct (B3 cs1 E1) as (cs2 & E2 & C2 & W2 & T2).
  exists cs2. split; [exact E2|]. repeat split; congruence.
Qed.
Lemma dviewx_set_nt d v : dviewx d (d_set_nt d v).
Proof.
  split; [reflexivity|]. split; [|reflexivity]. intros cs E. unfold d_set_nt. cbn [d_set_sched d_sched]. rewrite E.
  cbn [s_set_nt]. eexists. split; [reflexivity|]. repeat split; reflexivity.
Qed.

(* ---- LRecv: the controller's receiver thread reads one message ---- *)
Lemma step_recvx s n0 m rest d' outs r :
  XInvC s -> aget n0 (y_up s) = Some (m :: rest) ->
  process_from_remote n0 m (y_d s) = (d', outs, r) ->
  outs = [] /\ exists evs, r = Ok evs /\
  XInvC (set_evq (set_d {| y_d := y_d s; y_evq := y_evq s; y_down := y_down s; y_up := aset n0 rest (y_up s);
                          y_w := y_w s; y_dead := y_dead s; y_result := y_result s |} d') (y_evq s ++ evs)) /\
  dviewx (y_d s) d' /\
  (forall k, evq_sigs k (y_evq s ++ evs) ++ flat_map up_sig (alist_get [] k (aset n0 rest (y_up s))) = sigs s k).
Proof.
  intros X Eup Ep. pose proof X as [Lo Hi (cs & DJd & NIs) Eq Eu Ea Er Edead].
  destruct (dj_els _ _ DJd) as (Els & J).
  pose proof (alist_get_some [] _ _ _ Eup) as Eup'.
  assert (HnG : n0 < d_next_gw (y_d s)).
  { destruct (Nat.lt_ge_cases n0 (d_next_gw (y_d s))) as [H|H]; [exact H|].
    destruct (Hi n0 H) as (_ & F & _). rewrite Eup' in F. discriminate. }
  destruct (aget n0 (y_w s)) as [w0|] eqn:Ew; [|exfalso; exact (Lo n0 HnG Ew)].
  destruct (aget n0 (sc_nt cs)) as [f|] eqn:Ef; [|exfalso; apply (proj2 (sx_ntk _ _ _ _ _ _ J n0) HnG); exact Ef].
  destruct (NIs n0 w0 Ew) as (A0 & B0 & C0 & D0).
  pose proof (Eu n0) as En. rewrite Eup' in En. inversion En as [|m1 r1 Gm Gr]; subst.
  assert (Hdn : n_down f = true -> up_sig m = [] /\ m <> UEnd).
  { intros Hd1. destruct (mem_nat n0 (y_dead s)).
    - destruct D0 as [_ D2 _]. destruct D2 as [pre g X1 X2 X3 X4 X5 X6 X7|q1 q2 X1 _ _ _ _ _ _|X1 _ _ _ _]; try congruence.
      cbn [proj l_nt] in X3. congruence.
    - destruct D0 as [_ _ D3 _ _ D6]. destruct (D6 f Ef Hd1) as (Y1 & _). rewrite Eup' in Y1, D3.
      cbn [flat_map] in Y1. apply app_eq_nil in Y1. split; [tauto|]. intros ->. apply D3. left. reflexivity. }
  destruct (pfr_effxc X0 _ _ _ _ _ _ _ _ _ Els Ef Gm HnG Hdn Ep) as (-> & evs & -> & Hd' & Hsig & Hok & Hend & Hnoend).
  split; [reflexivity|]. exists evs. split; [reflexivity|].
  set (s' := set_evq (set_d {| y_d := y_d s; y_evq := y_evq s; y_down := y_down s; y_up := aset n0 rest (y_up s);
                          y_w := y_w s; y_dead := y_dead s; y_result := y_result s |} d') (y_evq s ++ evs)).
  assert (Ent : d_nt (y_d s) = sc_nt cs) by (unfold d_nt; rewrite Els; reflexivity).
  assert (DX : exists csA fA, DJxc d' csA /\ sc_assigned csA = sc_assigned cs /\ sc_reg csA = sc_reg cs /\
             (forall k, k <> n0 -> aget k (sc_nt csA) = aget k (sc_nt cs)) /\
             aget n0 (sc_nt csA) = Some fA /\ n_sdsent fA = n_sdsent f /\ n_closed fA = n_closed f /\
             (n_down fA = true -> n_down f = true \/ m = UEnd \/ exists b, m = UEv (EFinished b)) /\
             (n_down f = true -> n_down fA = true) /\
             d_active d' = d_active (y_d s) /\ d_shouldstop d' = d_shouldstop (y_d s) /\
             d_next_gw d' = d_next_gw (y_d s) /\ (d' = y_d s -> fA = f)).
  { destruct Hd' as [->|(-> & Hf & Hm)].
    - exists cs, f. split; [exact DJd|]. repeat (split; [reflexivity|]).
      split; [exact Ef|]. repeat (split; [reflexivity|]). split; [auto|]. split; [auto|]. repeat (split; [reflexivity|]). reflexivity.
    - exists (upd_flagc cs n0 (down_flag' f)), (down_flag' f).
      split; [apply (DJx_flag _ _ _ _ _ cs n0 f); auto|]. split; [reflexivity|]. split; [reflexivity|].
      split. { intros k Hk. rewrite aget_upd_flagc. apply Nat.eqb_neq in Hk. rewrite Hk. reflexivity. }
      split. { rewrite aget_upd_flagc, Nat.eqb_refl. reflexivity. }
      split; [reflexivity|]. split; [reflexivity|]. split; [intros _; right; exact Hm|]. split; [reflexivity|].
      split; [reflexivity|]. split; [reflexivity|]. split; [reflexivity|].
      intros F. exfalso.
      assert (Xq : aget n0 (d_nt (d_set_nt (y_d s) (aset n0 (down_flag' f) (d_nt (y_d s))))) = Some (down_flag' f)).
      { rewrite d_nt_set. apply aget_aset_eq. }
      rewrite F, Ent, Ef in Xq. injection Xq as Xq. apply (f_equal n_down) in Xq. cbn in Xq. congruence. }
  destruct DX as (csA & fA & DJA & EpA0 & EcA0 & Eoth & EfA & EsdA & EclA & EdnA & EdnA' & Eact & Ess & Egw & Esame).
  assert (EpA : l_n2p (projc csA) = l_n2p (projc cs)) by (cbn [proj l_n2p]; rewrite EpA0; reflexivity).
  assert (EcA : l_n2c (projc csA) = l_n2c (projc cs)) by (cbn [proj l_n2c]; exact EcA0).
  assert (Esg : sigs s' n0 = sigs s n0).
  { unfold sigs, s'. cbn [set_evq set_d y_evq y_up]. rewrite alist_get_aset_eq, evq_sigs_app, Hsig, Nat.eqb_refl, Eup'.
    cbn [flat_map]. rewrite <- app_assoc. reflexivity. }
  assert (NE : forall k, k <> n0 -> no_errd k evs).
  { intros k Hk. destruct m; try (apply Hnoend; discriminate).
    destruct (n_down f) eqn:Edn; [destruct (Hdn eq_refl) as (_ & F); exfalso; apply F; reflexivity|].
    destruct (Hend eq_refl eq_refl) as (-> & _). intros ev [<-|[]]. cbn. apply Nat.eqb_neq. congruence. }
  assert (DV : dviewx (y_d s) d').
  { destruct Hd' as [->|(-> & _)]; [apply dviewx_refl|apply dviewx_set_nt]. }
  assert (SGS : forall k, evq_sigs k (y_evq s ++ evs) ++ flat_map up_sig (alist_get [] k (aset n0 rest (y_up s))) = sigs s k).
  { intros k. destruct (Nat.eq_dec k n0) as [->|Hk]; [exact Esg|].
    unfold sigs. rewrite evq_sigs_app, Hsig. apply Nat.eqb_neq in Hk. rewrite Nat.eqb_sym, Hk, app_nil_r.
    apply Nat.eqb_neq in Hk. rewrite alist_get_aset_neq by exact Hk. reflexivity. }
  split; [|split; [exact DV|exact SGS]].
  constructor; unfold s'; cbn [set_evq set_d y_d y_evq y_down y_up y_w y_dead y_result]; rewrite ?Egw.
  - exact Lo.
  - intros k Hk. destruct (Hi k Hk) as (A & B & C). assert (k <> n0) by lia.
    rewrite alist_get_aset_neq by assumption. auto.
  - exists csA. split; [exact DJA|]. intros k w Hw. destruct (Nat.eq_dec k n0) as [->|Hk].
    + assert (w = w0) by congruence. subst w.
      split; [exact A0|]. split; [exact B0|]. split; [exact C0|]. cbn [set_evq set_d y_dead].
      destruct (mem_nat n0 (y_dead s)) eqn:Hdd; rewrite ?Hdd in D0.
      * (* a dead worker: its last messages, then its end marker *)
        destruct D0 as [D1 D2 D3]. constructor; fold s'; rewrite ?Esg.
        -- eapply NDc_ext; [exact EpA|exact EcA|exact D1].
        -- destruct D2 as [pre g X1 X2 X3 X4 X5 X6 X7|q1 q2 X1 _ _ _ _ _ _|X1 _ _ _ _]; try congruence.
           cbn [proj l_nt] in X3.
           assert (g = f) by congruence. subst g. rewrite Eup' in X1.
           destruct pre as [|m' pre'].
           ++ cbn [app] in X1. inv X1. destruct (Hend eq_refl X4) as (-> & _).
              eapply (DS_queue _ _ _ _ (y_evq s) []); rewrite ?Esg.
              ** unfold s'. cbn [set_evq set_d y_up]. apply alist_get_aset_eq.
              ** reflexivity.
              ** reflexivity.
              ** exact X5.
              ** apply no_errd_nil.
              ** unfold s'. cbn [set_evq set_d y_d]. rewrite Eact. exact X6.
              ** eapply NDcpl_ext; [exact EpA|exact X7].
           ++ cbn [app] in X1. inv X1.
              assert (Hnend : m' <> UEnd) by (intros ->; apply X2; left; reflexivity).
              assert (Edd : d' = y_d s).
              { destruct Hd' as [E|(_ & _ & [E|(b & E)])]; [exact E|contradiction|]. subst m'. exfalso.
                apply (NDc_nofin _ _ _ _ b D1). unfold sigs. rewrite Eup'. apply in_or_app. right. cbn. left. reflexivity. }
              rewrite (Esame Edd) in EfA.
              eapply (DS_wire _ _ _ _ pre' f); rewrite ?Esg.
              ** unfold s'. cbn [set_evq set_d y_up]. apply alist_get_aset_eq.
              ** intros F. apply X2. right. exact F.
              ** cbn [proj l_nt]. exact EfA.
              ** exact X4.
              ** unfold s'. cbn [set_evq set_d y_evq]. apply no_errd_app. split; [exact X5|apply Hnoend; exact Hnend].
              ** unfold s'. cbn [set_evq set_d y_d]. rewrite Eact. exact X6.
              ** eapply NDcpl_ext; [exact EpA|exact X7].
        -- exact D3.
      * (* an alive worker *)
        destruct D0 as [D1 D2 D3 D4 D5 D6]. rewrite Eup' in D3.
        assert (Hnend : m <> UEnd) by (intros ->; apply D3; left; reflexivity).
        constructor; fold s'; rewrite ?Esg; unfold s'; cbn [set_evq set_d y_d y_evq y_down y_up]; rewrite ?Eact, ?Ess, ?alist_get_aset_eq.
        -- eapply NI_flags_ext; [| | |exact D1]; auto. intros g Eg. cbn [proj l_nt] in Eg |- *. assert (g = f) by congruence. subst g. exists fA. auto.
        -- exact D2.
        -- intros F. apply D3. right. exact F.
        -- apply no_errd_app. split; [exact D4|apply Hnoend; exact Hnend].
        -- unfold closedb in *. cbn [proj l_nt] in *. rewrite EfA, EclA. rewrite Ef in D5. exact D5.
        -- intros g Eg Hg. cbn [proj l_nt] in Eg. assert (g = fA) by congruence. subst g.
           destruct (EdnA Hg) as [Hd0|[F|(b & ->)]]; [|contradiction|].
           ++ destruct (D6 f Ef Hd0) as (Y1 & Y2). rewrite Eup' in Y1. cbn [flat_map] in Y1. apply app_eq_nil in Y1. tauto.
           ++ pose proof (ni_chan _ _ _ _ _ _ _ D1) as Ch. unfold sigs in Ch.
              rewrite Eup' in Ch. cbn [flat_map up_sig we_sig app] in Ch.
              destruct (chan_ok_fin_mid _ _ _ _ Ch) as (Y1 & Y2). split; [exact Y1|apply prank_4; exact Y2].
    + apply (NodeInv_other s s' (projc cs) (projc csA) k w evs EpA EcA).
      * cbn [proj l_nt]. apply Eoth. exact Hk.
      * exact Eact.
      * exact Ess.
      * reflexivity.
      * specialize (Hsig k). apply Nat.eqb_neq in Hk. rewrite Nat.eqb_sym, Hk in Hsig. exact Hsig.
      * apply NE. exact Hk.
      * reflexivity.
      * unfold s'. cbn [set_evq set_d y_up]. apply alist_get_aset_neq. exact Hk.
      * reflexivity.
      * apply NIs. exact Hw.
  - apply Forall_app. split; [exact Eq|exact Hok].
  - intros k. destruct (Nat.eq_dec k n0) as [->|Hk].
    + rewrite alist_get_aset_eq. exact Gr.
    + rewrite alist_get_aset_neq by exact Hk. apply Eu.
  - rewrite Eact. exact Ea.
  - exact Er.
  - exact Edead.
Qed.

(* ---- the preconditions of the handlers follow from the invariant ---- *)
(* what the node whose signal heads the queue looks like *)
Lemma head_nodex s ls ev q n g :
  XInvC s -> (forall n w, aget n (y_w s) = Some w -> NodeInv s ls n w) ->
  y_evq s = ev :: q -> ev_sig ev = Some (n, g) ->
  exists w L, aget n (y_w s) = Some w /\ sigs s n = g :: L /\ In n (d_active (y_d s)) /\
    ((mem_nat n (y_dead s) = false /\
      NI ls (d_active (y_d s)) (d_shouldstop (y_d s)) n (g :: L) (alist_get [] n (y_down s)) w) \/
     (mem_nat n (y_dead s) = true /\ NDc ls n (g :: L) w /\ NDcpl ls n (g :: L) w)).
Proof.
  intros X NIs Eq Eg. pose proof X as [Lo Hi _ Eok _ _ _ _].
  assert (HnG : n < d_next_gw (y_d s)).
  { rewrite Eq in Eok. inversion Eok as [|e1 q1 (_ & Hn) _]; subst. destruct ev; cbn in Eg; inv Eg; exact Hn. }
  destruct (aget n (y_w s)) as [w|] eqn:Ew; [|exfalso; exact (Lo n HnG Ew)].
  pose proof (sigs_head' s ev q n Eq) as Es. unfold ev_sigs_for in Es. rewrite Eg, Nat.eqb_refl in Es. cbn [app] in Es.
  exists w. eexists. split; [reflexivity|]. split; [exact Es|].
  destruct (NIs n w Ew) as (_ & _ & _ & D). destruct (mem_nat n (y_dead s)).
  - destruct D as [D1 D2 D3]. rewrite Es in D1.
    destruct D2 as [pre f X1 X2 X3 X4 X5 X6 X7|q1 q2 X1 X2 X3 X4 X5 X6 X7|X1 X2 X3 X4 X5].
    + split; [exact X6|]. right. rewrite Es in X7. auto.
    + split; [exact X6|]. right. rewrite Es in X7. auto.
    + exfalso. rewrite Eq, evq_sigs_cons in X3. unfold ev_sigs_for in X3. rewrite Eg, Nat.eqb_refl in X3. discriminate.
  - destruct D as [D1 _ _ _ _ _]. rewrite Es in D1. split.
    + destruct (in_dec Nat.eq_dec n (d_active (y_d s))) as [Hin|Hni]; [exact Hin|].
      destruct (ni_act _ _ _ _ _ _ _ D1 Hni) as (F & _). discriminate.
    + left. auto.
Qed.

Lemma pre_from_invx s cs ev q :
  XInvC s -> DJxc (y_d s) cs -> (forall n w, aget n (y_w s) = Some w -> NodeInv s (projc cs) n w) ->
  y_evq s = ev :: q -> PRExc ev (y_d s) cs.
Proof.
  intros X DJd NIs Eq. pose proof X as [Lo Hi _ Eok _ _ _ _].
  assert (Hok : ok_evx X0 (d_next_gw (y_d s)) ev) by (rewrite Eq in Eok; inversion Eok; assumption).
  destruct Hok as (Hok3 & Hnode).
  destruct ev as [n|n ids|n key fl|n i|n i|n i k oc|n i ms|n ixs| |n|n sk|n]; cbn [PREx]; cbn in Hok3, Hnode; try contradiction; auto.
  - (* ready *)
    destruct (head_nodex s _ _ q n SgReady X NIs Eq eq_refl) as (w & L & Ew & Es & Hact & HH). split; [exact Hnode|].
    intros _. split; [|exact Hact]. intros Hin. rewrite <- (proj_nodes coll0) in Hin.
    destruct HH as [(_ & D1)|(_ & D1 & _)].
    + destruct (ni_nodes _ _ _ _ _ _ _ D1 Hin) as (F & _). apply F. left. reflexivity.
    + destruct (nd_nodes _ _ _ _ D1 Hin) as (F & _). apply F. left. reflexivity.
  - (* collectionfinish *)
    destruct (head_nodex s _ _ q n SgCF X NIs Eq eq_refl) as (w & L & Ew & Es & Hact & HH). split; [exact Hnode|].
    split; [|exact Hok3]. intros Hin.
    destruct HH as [(_ & D1)|(_ & D1 & _)].
    + destruct (ni_n2c _ _ _ _ _ _ _ D1 Hin) as (F & _). apply F. left. reflexivity.
    + destruct (nd_n2c _ _ _ _ D1 Hin) as (F & _). apply F. left. reflexivity.
  - (* complete *)
    destruct (head_nodex s _ _ q n (SgComp i) X NIs Eq eq_refl) as (w & L & Ew & Es & Hact & HH).
    destruct HH as [(_ & D1)|(_ & _ & (lost & Cp))].
    + pose proof (ni_coupled _ _ _ _ _ _ _ D1) as Cp. cbn [completes flat_map app] in Cp. rewrite proj_bk in Cp. eexists. exact Cp.
    + cbn [completes flat_map app] in Cp. rewrite proj_bk in Cp. eexists. exact Cp.
  - (* finished *)
    assert (FIN : forall b, ev_sig (QFinished n sk) = Some (n, SgFin b) ->
              In n (d_active (y_d s)) /\ exists w L, NI (projc cs) (d_active (y_d s)) (d_shouldstop (y_d s)) n (SgFin b :: L) (alist_get [] n (y_down s)) w).
    { intros b Eg. destruct (head_nodex s _ _ q n (SgFin b) X NIs Eq Eg) as (w & L & Ew & Es & Hact & HH).
      split; [exact Hact|]. destruct HH as [(_ & D1)|(_ & D1 & _)]; [eauto|].
      exfalso. apply (NDc_nofin _ _ _ _ b D1). left. reflexivity. }
    destruct sk; try contradiction.
    + destruct (FIN false eq_refl) as (Hact & w & L & D1).
      destruct (NI_finished_empty _ _ _ _ _ _ _ D1) as (Eb & Hf).
      split; [exact Hact|]. split; [|exact Hf]. intros _. rewrite proj_bk in Eb. exact Eb.
    + destruct (FIN true eq_refl) as (Hact & _). exact Hact.
  - (* errordown: the node is dead and its end marker has been read *)
    destruct (aget n (y_w s)) as [w|] eqn:Ew; [|exfalso; exact (Lo n Hnode Ew)].
    destruct (NIs n w Ew) as (_ & _ & _ & D).
    assert (HIN : In (QErrorDown n) (y_evq s)) by (rewrite Eq; left; reflexivity).
    assert (ERR : is_errd n (QErrorDown n) = true) by (cbn; apply Nat.eqb_refl).
    destruct (mem_nat n (y_dead s)).
    + destruct D as [_ D2 _]. destruct D2 as [pre f X1 X2 X3 X4 X5 X6 X7|q1 q2 X1 X2 X3 X4 X5 X6 X7|X1 X2 X3 X4 X5].
      * rewrite (X5 _ HIN) in ERR. discriminate.
      * exact X6.
      * rewrite (X2 _ HIN) in ERR. discriminate.
    + destruct D as [_ _ _ D4 _ _]. rewrite (D4 _ HIN) in ERR. discriminate.
Qed.

(* ---- LCtl: one iteration of the controller's main loop ---- *)
Lemma first_of_FIRSTx s cs ev q :
  FIRSTx s -> y_evq s = ev :: q -> d_sched (y_d s) = StC cs ->
  forall n ids, ev = QCollFinish n ids -> sc_coll cs = None ->
    match sc_reg cs with (k0, cl) :: _ => cl = coll0 | [] => X0 n = coll0 end.
Proof. intros HF Eevq Els n ids -> Hc. exact (HF n ids q cs Eevq Els Hc). Qed.

Lemma step_ctl_corex_g s ev q d' outs r :
  XInvC s -> FIRSTx s -> y_result s = None -> y_evq s = ev :: q ->
  d_loop_once ev (y_d s) = (d', outs, r) ->
  r = Ok tt /\ (SAMEf X0 -> d_active d' = [] -> d_shuttingdown d' = true) /\
  (forall rr, (forall e, rr <> Some (RError e)) -> (rr = None -> d_active d' <> []) ->
     XInvC (set_result (apply_outs (set_d (set_evq s q) d') outs) rr)).
Proof.
  intros X HF Eres Eevq El. pose proof X as [Lo Hi (cs & DJd & NIs) Eq Eu Ea Er Edead].
  specialize (Ea Eres).
  pose proof (pre_from_invx s cs ev q X DJd NIs Eevq) as Hpre.
  destruct (dj_els _ _ DJd) as (Els & J).
  pose proof (first_of_FIRSTx s cs ev q HF Eevq Els) as Hfirst.
  destruct (loop_once_okx kind coll0 (c_coll c) N Hpos ev _ cs d' outs r DJd Ea Hpre Hfirst El) as (-> & cs' & vo & Eo & E & DJ2 & Hfin & _).
  split; [reflexivity|]. split; [exact Hfin|]. intros rr Hrr Hact.
  pose proof (loop_once_step _ _ _ _ _ El) as (_ & _ & _ & SP).
  pose proof DJd as ([_ _ _ _ _ _ _ _ AL _ _ _] & _).
  set (G := d_next_gw (y_d s)) in *.
  assert (SPW : (d_next_gw d' = G /\ forall id sp, ~ In (OHook (HSpawn id sp)) outs) \/
                (d_next_gw d' = S G /\ (exists sp, In (OHook (HSpawn G sp)) outs) /\
                 forall id sp, In (OHook (HSpawn id sp)) outs -> id = G)).
  { destruct SP as [(C0 & G0)|(C1 & G1 & _ & _ & sp & SPx)].
    - left. split; [exact G0|]. intros id sp Hin. pose proof (count_zero_notin _ _ _ C0 Hin) as F. discriminate.
    - right. split; [exact G1|]. split.
      + destruct (count_pos_in _ _ C1) as (x & Hx & Fx). exists sp. rewrite <- (SPx x Hx Fx). exact Hx.
      + intros id sp' Hin. specialize (SPx _ Hin eq_refl). inv SPx. reflexivity. }
  assert (GW : G <= d_next_gw d') by (destruct SPW as [(A & _)|(A & _)]; lia).
  assert (SPID : forall id sp, In (OHook (HSpawn id sp)) outs -> id = G /\ d_next_gw d' = S G).
  { intros id sp Hin. destruct SPW as [(_ & F)|(A & _ & B)]; [exfalso; exact (F _ _ Hin)|]. split; [eapply B; eauto|exact A]. }
  assert (OUTG : forall m, G <= m -> cmds_to m outs = []).
  { intros m Hm. rewrite Eo, cmds_to_vfilter, (hx_out _ _ _ _ _ _ _ _ _ _ E m Hm). destruct (closedb (sc_nt cs) m); reflexivity. }
  set (sA := set_d (set_evq s q) d').
  destruct (apply_outs_frame outs sA) as (F1 & F2 & F3). cbn [sA set_d set_evq y_evq y_d y_dead] in F1, F2, F3.
  assert (UP : forall k, alist_get [] k (y_up (apply_outs sA outs)) = alist_get [] k (y_up s)).
  { intros k. rewrite apply_outs_up; [reflexivity|]. intros id sp Hin. destruct (SPID _ _ Hin) as (-> & _).
    cbn [sA set_d set_evq y_up]. apply (Hi G). lia. }
  assert (DOWN : forall k, alist_get [] k (y_down (apply_outs sA outs)) =
            if mem_nat k (y_dead s) then alist_get [] k (y_down s) else alist_get [] k (y_down s) ++ cmds_to k outs).
  { intros k. rewrite apply_outs_down; [reflexivity|]. intros id sp Hin. destruct (SPID _ _ Hin) as (-> & _).
    split; [apply OUTG; lia|]. cbn [sA set_d set_evq y_down]. apply (Hi G). lia. }
  assert (WOLD : forall k, k < G -> aget k (y_w (apply_outs sA outs)) = aget k (y_w s)).
  { intros k Hk. rewrite apply_outs_w_none; [reflexivity|]. intros sp Hin. destruct (SPID _ _ Hin) as (-> & _). lia. }
  assert (SIGS : forall k, sigs s k = ev_sigs_for k ev ++ sigs (set_result (apply_outs sA outs) rr) k).
  { intros k. rewrite (sigs_head' s ev q k Eevq). unfold sigs. cbn [set_result y_evq y_up]. rewrite F1, UP. reflexivity. }
  assert (EVIN : In ev (y_evq s)) by (rewrite Eevq; left; reflexivity).
  constructor; cbn [set_result y_d y_evq y_down y_up y_w y_dead y_result]; rewrite ?F1, ?F2, ?F3.
  - (* every id below the counter has a process *)
    intros m Hm. destruct (Nat.lt_ge_cases m G) as [Hlt|Hge].
    + rewrite (WOLD m Hlt). apply Lo. exact Hlt.
    + destruct SPW as [(A & _)|(A & (sp & Hin) & _)]; [lia|]. assert (m = G) by lia. subst m.
      rewrite (apply_outs_spawned outs sA G); [discriminate|]. right. eauto.
  - intros m Hm. assert (HmG : G <= m) by lia. destruct (Hi m HmG) as (A & B & C). split; [|split].
    + rewrite apply_outs_w_none; [exact A|]. intros sp Hin. destruct (SPID _ _ Hin) as (-> & A'). lia.
    + rewrite UP. exact B.
    + rewrite DOWN, C, (OUTG m HmG). destruct (mem_nat m (y_dead s)); reflexivity.
  - exists cs'. split; [exact DJ2|]. intros k w Hw.
    destruct (Nat.lt_ge_cases k G) as [Hlt|Hge].
    + (* a worker that existed before *)
      rewrite (WOLD k Hlt) in Hw. destruct (NIs k w Hw) as (A & B & C & D).
      split; [exact A|]. split; [exact B|]. split; [exact C|].
      pose proof (hx_nt _ _ _ _ _ _ _ _ _ _ E k Hlt) as HNT.
      assert (HBK : bk (projc cs') k = bookmid' ev k (bk (projc cs) k) ++ flat_map cmd_inds (cmds_to k vo)).
      { rewrite !proj_bk. apply (hx_bk _ _ _ _ _ _ _ _ _ _ E k). }
      assert (HNODES : In k (l_nodes (projc cs')) -> In k (l_nodes (projc cs)) \/ ev_sig ev = Some (k, SgReady)).
      { rewrite !proj_nodes. apply (hx_nodes _ _ _ _ _ _ _ _ _ _ E k). }
      assert (HN2C : In k (akeys (l_n2c (projc cs'))) -> In k (akeys (l_n2c (projc cs))) \/ ev_sig ev = Some (k, SgCF)).
      { cbn [proj l_n2c]. apply (hx_n2c _ _ _ _ _ _ _ _ _ _ E k). }
      cbn [set_result y_dead]. rewrite F3.
      destruct (mem_nat k (y_dead s)) eqn:Hdd; rewrite ?Hdd in D.
      * (* dead *)
        destruct D as [D1 D2 D3]. rewrite (SIGS k) in D1.
        constructor.
        -- eapply NDc_ctl; eauto.
        -- destruct D2 as [pre f X1 X2 X3 X4 X5 X6 X7|q1 q2 X1 X2 X3 X4 X5 X6 X7|X1 X2 X3 X4 X5].
           ++ rewrite Eevq in X5. destruct (no_errd_cons_inv _ _ _ X5) as (Hev & Hq).
              cbn [proj l_nt] in X3.
              rewrite X3 in HNT. destruct (aget k (sc_nt cs')) as [f'|] eqn:Ef'; [|destruct HNT]. cbn in HNT.
              destruct (NR_fields _ _ _ HNT) as (_ & Bd & _).
              eapply (DS_wire _ _ _ _ pre f'); cbn [set_result y_up y_evq y_d]; rewrite ?UP, ?F1, ?F2; eauto.
              ** destruct (hx_act _ _ _ _ _ _ _ _ _ _ E k X6) as [Y|[(b & Y)|Y]]; [exact Y| |].
                 --- exfalso. apply (NDc_nofin _ _ _ _ b D1). apply in_or_app. left.
                     unfold ev_sigs_for. rewrite Y, Nat.eqb_refl. left. reflexivity.
                 --- exfalso. exact (is_errd_false _ _ Hev k Y eq_refl).
              ** rewrite (SIGS k) in X7. eapply NDcpl_ctl; [|exact X7].
                 rewrite HBK, (bookmid'_eq ev k _ (is_errd_false _ _ Hev)). reflexivity.
           ++ rewrite Eevq in X2. destruct q1 as [|e1 q1'].
              ** (* its errordown has just been handled *)
                 cbn [app] in X2. injection X2 as E1 E2.
                 destruct (hx_err _ _ _ _ _ _ _ _ _ _ E k E1) as (Y1 & Y2).
                 eapply DS_done; cbn [set_result y_up y_evq y_d]; rewrite ?UP, ?F1, ?F2, ?E2, ?proj_nodes; eauto.
              ** cbn [app] in X2. injection X2 as E1 E2. subst e1. destruct (no_errd_cons_inv _ _ _ X4) as (Hev & Hq1).
                 eapply (DS_queue _ _ _ _ q1' q2); cbn [set_result y_up y_evq y_d]; rewrite ?UP, ?F1, ?F2; eauto.
                 --- destruct (hx_act _ _ _ _ _ _ _ _ _ _ E k X6) as [Y|[(b & Y)|Y]]; [exact Y| |].
                     +++ exfalso. apply (NDc_nofin _ _ _ _ b D1). apply in_or_app. left.
                         unfold ev_sigs_for. rewrite Y, Nat.eqb_refl. left. reflexivity.
                     +++ exfalso. exact (is_errd_false _ _ Hev k Y eq_refl).
                 --- rewrite (SIGS k) in X7. eapply NDcpl_ctl; [|exact X7].
                     rewrite HBK, (bookmid'_eq ev k _ (is_errd_false _ _ Hev)). reflexivity.
           ++ rewrite Eevq in X2, X3. destruct (no_errd_cons_inv _ _ _ X2) as (Hev & Hq).
              rewrite evq_sigs_cons in X3. apply app_eq_nil in X3. destruct X3 as (X3a & X3b).
              eapply DS_done; cbn [set_result y_up y_evq y_d]; rewrite ?UP, ?F1, ?F2; eauto.
              ** intros Hin. destruct (hx_actb _ _ _ _ _ _ _ _ _ _ E k Hin) as [Y|(Y & _)]; [contradiction|]. fold G in Y. lia.
              ** intros Hin. destruct (HNODES Hin) as [Y|Y]; [contradiction|].
                 unfold ev_sigs_for in X3a. rewrite Y, Nat.eqb_refl in X3a. discriminate.
        -- cbn [set_result y_down]. rewrite DOWN, Hdd. exact D3.
      * (* alive *)
        destruct D as [D1 D2 D3 D4 D5 D6]. rewrite (SIGS k) in D1.
        rewrite Eevq in D4. destruct (no_errd_cons_inv _ _ _ D4) as (Hev & Hq).
        cbn [proj l_nt] in D5, D6.
        assert (CM : cmds_to k outs = cmds_to k vo) by (rewrite Eo, cmds_to_vfilter, D5; reflexivity).
        assert (NRk : exists f f', aget k (sc_nt cs) = Some f /\ aget k (sc_nt cs') = Some f' /\ NR f (cmds_to k vo) f').
        { destruct (aget k (sc_nt cs)) as [f|] eqn:Ef; [|exfalso; apply (proj2 (sx_ntk _ _ _ _ _ _ J k) Hlt); exact Ef].
          destruct (aget k (sc_nt cs')) as [f'|] eqn:Ef'; [|destruct HNT]. exists f, f'. auto. }
        destruct NRk as (f & f' & Ef & Ef' & NRf). destruct (NR_fields _ _ _ NRf) as (_ & Bd & Bc & _ & Bg).
        constructor; cbn [set_result y_down y_up y_evq y_d]; rewrite ?DOWN, ?Hdd, ?UP, ?F1, ?F2, ?CM.
        -- apply (NI_ctl' ev (projc cs) (projc cs') (d_active (y_d s)) (d_active d') (d_shouldstop (y_d s)) (d_shouldstop d') k _ _ w vo HNT).
           ++ rewrite HBK, (bookmid'_eq ev k _ (is_errd_false _ _ Hev)). reflexivity.
           ++ exact HNODES.
           ++ exact HN2C.
           ++ intros Hin. destruct (hx_act _ _ _ _ _ _ _ _ _ _ E k Hin) as [Y|[Y|Y]]; [left; exact Y|right; exact Y|].
              exfalso. exact (is_errd_false _ _ Hev k Y eq_refl).
           ++ apply (hx_stop _ _ _ _ _ _ _ _ _ _ E).
           ++ apply (hx_ss _ _ _ _ _ _ _ _ _ _ E).
           ++ exact D1.
        -- apply Forall_app. split; [exact D2|exact Bg].
        -- exact D3.
        -- exact Hq.
        -- cbn [proj l_nt]. rewrite (hx_closed _ _ _ _ _ _ _ _ _ _ E k). exact D5.
        -- cbn [proj l_nt]. intros g Eg Hg. assert (g = f') by congruence. subst g. apply (D6 f Ef). congruence.
    + (* the replacement worker that has just been started *)
      destruct SPW as [(A & Fno)|(A & (sp & Hin) & _)].
      { exfalso. rewrite apply_outs_w_none in Hw by (intros sp Hin; exact (Fno _ _ Hin)).
        destruct (Hi k Hge) as (F & _). cbn [sA set_d set_evq y_w] in Hw. congruence. }
      destruct (Nat.eq_dec k G) as [->|Hnk].
      2:{ exfalso. rewrite apply_outs_w_none in Hw.
          - destruct (Hi k Hge) as (F & _). cbn [sA set_d set_evq y_w] in Hw. congruence.
          - intros sp' Hin'. destruct (SPID _ _ Hin') as (-> & _). contradiction. }
      rewrite (apply_outs_spawned outs sA G) in Hw by (right; eauto). injection Hw as <-.
      destruct (hx_gw _ _ _ _ _ _ _ _ _ _ E) as [Y|(_ & (f & Ef & (Hf1 & Hf2 & Hf3)) & Hina & Hnn & Hnc)]; [fold G in Y; lia|].
      fold G in Ef, Hina, Hnn, Hnc.
      assert (HdG : mem_nat G (y_dead s) = false).
      { apply mem_nat_false. intros Hin'. specialize (Edead _ Hin'). fold G in Edead. lia. }
      destruct (Hi G (le_n G)) as (_ & UG & DG).
      assert (ESG : sigs (set_result (apply_outs sA outs) rr) G = []).
      { assert (Z : sigs s G = []).
        { unfold sigs. rewrite UG. cbn. rewrite app_nil_r. apply (evq_sigs_fresh c Hpos). exact Eq. }
        pose proof (SIGS G) as Z2. rewrite Z in Z2. symmetry in Z2. apply app_eq_nil in Z2. tauto. }
      split; [apply winv_init|]. split; [constructor|]. split; [exact Logic.I|].
      cbn [set_result y_dead]. rewrite F3, HdG.
      constructor; rewrite ?ESG; cbn [set_result y_down y_up y_evq y_d]; rewrite ?DOWN, ?HdG, ?DG, ?UP, ?UG, ?F1, ?F2, ?(OUTG G (le_n G)); cbn [app].
      * constructor; cbn [w_init wph prank]; rewrite ?proj_nodes; cbn [proj l_nt l_n2c].
        -- exists f. split; [exact Ef|]. cbn. rewrite Hf1. apply mark_ok_nil.
        -- rewrite proj_bk. cbn. apply (bookn_none coll0). exact Hnn.
        -- apply chan_ok_nil.
        -- intros Hin'. contradiction.
        -- intros Hin'. contradiction.
        -- intros F. contradiction.
        -- intros [[]|F]; discriminate.
        -- apply WX_init.
        -- intros [F|(b & F)]; discriminate.
      * constructor.
      * intros [].
      * intros e He. assert (He' : In e (y_evq s)) by (rewrite Eevq; right; exact He).
        rewrite Forall_forall in Eq. destruct (Eq e He') as (_ & Hn). destruct e; try reflexivity. cbn in Hn |- *.
        apply Nat.eqb_neq. fold G in Hn. lia.
      * unfold closedb. cbn [proj l_nt]. rewrite Ef. exact Hf3.
      * cbn [proj l_nt]. intros g Eg Hg. assert (g = f) by congruence. subst g. congruence.
  - rewrite Eevq in Eq. apply Forall_forall. intros e He. rewrite Forall_forall in Eq.
    apply (ok_evx_mono c Hpos G _ e GW). apply Eq. right. exact He.
  - intros k. rewrite UP. apply Eu.
  - exact Hact.
  - exact Hrr.
  - intros k Hk. specialize (Edead k Hk). fold G in Edead. lia.
Qed.

Lemma sbookx_bookn G s cs n : SJxc G cs -> d_sched (y_d s) = StC cs -> sbookx s n = bk (projc cs) n.
Proof.
  intros J E. unfold sbookx. rewrite E, proj_bk. destruct (sc_coll cs) as [cl|] eqn:Ec.
  - destruct (sx_coll _ _ _ _ _ _ J cl Ec) as (-> & _). reflexivity.
  - rewrite (bookn_coll_nonex kind coll0 (c_coll c) N _ cs n J Ec). reflexivity.
Qed.

Lemma xinvc_coupledW B s :
  XInvC s -> (forall cs n, d_sched (y_d s) = StC cs -> B n = bk (projc cs) n) -> CrashCoupledW B s.
Proof.
  intros [Lo Hi (cs & DJd & NIs) Eq Eu Ea Er Edead] HB n.
  destruct (dj_els _ _ DJd) as (Els & J).
  pose proof (HB cs n Els) as BK.
  destruct (aget n (y_w s)) as [w|] eqn:Ew.
  - destruct (NIs n w Ew) as (_ & _ & _ & D). destruct (mem_nat n (y_dead s)).
    + destruct D as [_ D2 _]. destruct D2 as [pre f X1 X2 X3 X4 X5 X6 X7|q1 q2 X1 X2 X3 X4 X5 X6 X7|X1 X2 X3 X4 X5].
      * split; [intros _; rewrite BK; exact X7|intros F; contradiction].
      * split; [intros _; rewrite BK; exact X7|intros F; contradiction].
      * split; [intros F; contradiction|]. intros _. rewrite BK, proj_bk. apply (bookn_none coll0). rewrite <- (proj_nodes coll0). exact X5.
    + destruct D as [D1 _ _ _ _ _]. rewrite BK. unfold owed. rewrite Ew. exact (ni_coupled _ _ _ _ _ _ _ D1).
  - rewrite BK, proj_bk. apply (bookn_none coll0). intros Hin.
    pose proof (sx_nodes _ _ _ _ _ _ J n Hin) as Hlt. exact (Lo n Hlt Ew).
Qed.

(* ---- every step ---- *)
(* the state in which the controller has raised RuntimeError("no active workers") *)
Definition ErrStx (s : sys) : Prop :=
  y_result s = Some (RError ERuntimeNoWorkers) /\ ~ SAMEf X0 /\ exists s0, XInvC s0 /\ VE s0 s.

Lemma step_xinvc_nc s l s' o w :
  XInvC s -> l <> LCtl -> sys_step c s l = Some (s', o, w) -> XInvC s'.
Proof.
  intros X Hl H. pose proof X as [Lo Hi (cs & DJd & NIs) Eq Eu Ea Er Edead].
  unfold sys_step in H. destruct (y_result s) eqn:Eres; [discriminate|].
  destruct l as [n0|n0|n0|n0| |n0].
  - (* LDeliver *)
    destruct (mem_nat n0 (y_dead s)) eqn:Hd; [discriminate|].
    destruct (aget n0 (y_down s)) as [[|cmd rest]|] eqn:Ed; try discriminate.
    destruct (aget n0 (y_w s)) as [w0|] eqn:Ew; try discriminate.
    inv H. rewrite <- Eres. apply step_deliverx; assumption.
  - (* LRecvW *)
    destruct (mem_nat n0 (y_dead s)) eqn:Hd; [discriminate|].
    destruct (aget n0 (y_w s)) as [w0|] eqn:Ew; try discriminate.
    destruct (negb (wcb w0)); [discriminate|].
    destruct (recv_step (c_oracle c n0) w0) as [w' evs] eqn:Es. inv H.
    destruct (NIs n0 w0 Ew) as (Iw & Gw & NGw & D). rewrite Hd in D. destruct D as [D1 _ _ _ _ _].
    destruct (NI_recv (c_oracle c n0) _ _ _ _ _ _ _ Gw D1) as (Ev & Xn). rewrite Es in Ev, Xn. cbn [fst snd] in Ev, Xn. subst evs.
    destruct (recv_step_nogarb _ _ _ _ Es NGw) as (NG1 & NG2).
    apply step_pushx with (w0 := w0); auto.
    + pose proof (recv_step_inv (c_oracle c n0) w0 Iw) as I1. rewrite Es in I1. exact I1.
    + pose proof (recv_step_tokens (c_oracle c n0) w0 Gw) as (_ & G1). rewrite Es in G1. exact G1.
    + intros ls1 Y. cbn [flat_map]. rewrite app_nil_r.
      destruct (NI_recv (c_oracle c n0) _ _ _ _ _ _ _ Gw Y) as (_ & Z). rewrite Es in Z. exact Z.
    + intros Hex. split; [|reflexivity]. rewrite (proj1 (recv_step_facts _ _ _ _ Es)). exact Hex.
  - (* LMain *)
    destruct (mem_nat n0 (y_dead s)) eqn:Hd; [discriminate|].
    destruct (aget n0 (y_w s)) as [w0|] eqn:Ew; try discriminate.
    destruct (dies_now c n0 w0) eqn:Edie.
    + inv H. apply step_crashx with (w0 := w0); auto. unfold dies_now in Edie. destruct (wph w0); discriminate.
    + destruct (main_step (c_oracle c n0) w0) as [[w' evs]|] eqn:Es; [|discriminate]. inv H.
      destruct (NIs n0 w0 Ew) as (Iw & Gw & NGw & D). rewrite Hd in D. destruct D as [D1 _ _ _ _ _].
      destruct (NI_main _ _ _ _ _ _ _ _ _ _ Iw D1 Es) as (_ & Hok).
      destruct (main_step_nogarb _ _ _ _ (Hng n0) Es NGw) as (NG1 & NG2).
      destruct (main_step_frame _ _ _ _ Es) as (_ & Einb & _).
      apply step_pushx with (w0 := w0); auto.
      * eapply main_step_inv; eauto.
      * rewrite Einb. exact Gw.
      * intros ls1 Y. exact (proj1 (NI_main _ _ _ _ _ _ _ _ _ _ Iw Y Es)).
      * intros Hex. exfalso. exact (main_step_not_exited _ _ _ _ Es Hex).
  - (* LRecv *)
    destruct (aget n0 (y_up s)) as [[|m rest]|] eqn:Eup; try discriminate.
    cbn [y_d] in H.
    destruct (process_from_remote n0 m (y_d s)) as [[d' outs] r] eqn:Ep.
    destruct (step_recvx s n0 m rest d' outs r X Eup Ep) as (-> & evs & -> & X' & _).
    cbn [apply_outs] in H. inv H. rewrite <- Eres. apply close_if_dead_XInvC. exact X'.
  - (* LCtl *) contradiction.
  - (* LCrash *)
    destruct (mem_nat n0 (y_dead s)) eqn:Hd; [discriminate|].
    destruct (aget n0 (y_w s)) as [w0|] eqn:Ew; try discriminate.
    destruct (wph w0) eqn:Eph; try discriminate; inv H; apply step_crashx with (w0 := w0); auto; rewrite Eph; discriminate.
Qed.


Lemma step_xinvc_g s l s' o w :
  XInvC s -> FIRSTx s -> sys_step c s l = Some (s', o, w) -> XInvC s' \/ ErrStx s'.
Proof.
  intros X HF H. destruct l as [n0|n0|n0|n0| |n0]; try (left; eapply step_xinvc_nc; eauto; discriminate).
  pose proof X as [Lo Hi (cs & DJd & NIs) Eq Eu Ea Er Edead].
  unfold sys_step in H. destruct (y_result s) eqn:Eres; [discriminate|].
  (* LCtl *)
    specialize (Ea eq_refl).
    destruct (d_active (y_d s)) as [|a0 ar] eqn:Eact; [contradiction|].
    destruct (y_evq s) as [|ev q] eqn:Eevq; [discriminate|].
    destruct (d_loop_once ev (y_d s)) as [[d' outs] r] eqn:El.
    destruct (step_ctl_corex_g s ev q d' outs r X HF Eres Eevq El) as (-> & Hfin & CORE).
    set (s1 := apply_outs (set_d (set_evq s q) d') outs) in *.
    destruct (d_session_finished d') eqn:Efin.
    + inv H. left. apply CORE.
      * intros e. destruct (d_shouldstop d'); discriminate.
      * destruct (d_shouldstop d'); discriminate.
    + destruct (d_active d') as [|b0 br] eqn:Eact'.
      * (* nobody is left and the session is not shutting down: RuntimeError("no active workers") *)
        right.
        assert (Hsd : d_shuttingdown d' = false).
        { unfold d_session_finished in Efin. rewrite Eact', andb_true_r in Efin. exact Efin. }
        assert (XR : XInvC (set_result s1 (Some RFinished))) by (apply CORE; [intros e; discriminate|discriminate]).
        pose proof XR as [_ _ (cs' & DJ2 & _) _ _ _ _ _].
        destruct (apply_outs_frame outs (set_d (set_evq s q) d')) as (F1 & F2 & F3). cbn [set_d set_evq y_evq y_d y_dead] in F1, F2, F3.
        cbn [set_result y_d] in DJ2. fold s1 in F2. rewrite F2 in DJ2.
        destruct DJ2 as ([Els2 J2 Jb2 _ _ _ _ _ _ _ _ _] & Jss2 & _).
        assert (Hss : d_shouldstop d' = false).
        { apply not_true_false. intros F. rewrite (Jss2 F) in Hsd. discriminate. }
        assert (Hnn : s_nodes (d_sched d') = []).
        { rewrite Els2. cbn [s_nodes]. specialize (Jb2 Hss). rewrite Eact' in Jb2.
          destruct (sc_nodes cs') as [|k rr]; [reflexivity|]. exfalso. apply (Jb2 k). left. reflexivity. }
        rewrite (trigger_no_nodes d' Hsd Hnn) in H. cbn [apply_outs] in H. injection H as <- <- <-.
        split; [reflexivity|]. split.
        -- intros HS. rewrite (Hfin HS eq_refl) in Hsd. discriminate.
        -- exists (set_result s1 (Some RFinished)). split; [exact XR|].
           unfold VE. cbn [set_result set_d y_d y_w y_dead y_evq y_up y_down]. rewrite F2. auto 10.
      * inv H. left.
        assert (Er1 : y_result s1 = None).
        { unfold s1. rewrite apply_outs_result. cbn. exact Eres. }
        rewrite <- (set_result_same' s1 None Er1). apply CORE.
        -- intros e. discriminate.
        -- intros _. discriminate.
Qed.

(* ---- a 'crashed while running' report names the head of the dead node's book ---- *)
Lemma ctl_crash_reportx_g s ev q d' outs r t k :
  XInvC s -> FIRSTx s -> y_result s = None -> y_evq s = ev :: q ->
  d_loop_once ev (y_d s) = (d', outs, r) ->
  In (OHook (HCrashReport t k)) outs ->
  ev = QErrorDown k /\ In k (y_dead s) /\
  exists wk lost i, aget k (y_w s) = Some wk /\ the_collx s = Some coll0 /\ sbookx s k = owed_w wk ++ lost /\
    hd_error (owed_w wk ++ lost) = Some i /\ nth_error coll0 i = Some t.
Proof.
  intros X HF Eres Eevq El Hin. pose proof X as [Lo Hi (cs & DJd & NIs) Eq Eu Ea Er Edead].
  specialize (Ea Eres).
  pose proof (pre_from_invx s cs ev q X DJd NIs Eevq) as Hpre.
  destruct (dj_els _ _ DJd) as (Els & J).
  pose proof (first_of_FIRSTx s cs ev q HF Eevq Els) as Hfirst.
  destruct (loop_once_okx kind coll0 (c_coll c) N Hpos ev _ cs d' outs r DJd Ea Hpre Hfirst El) as (_ & cs' & vo & Eo & E & DJ2 & Hfin & CR).
  destruct (CR t k Hin) as (-> & i & rest & Ecl & Ebk & Enth). split; [reflexivity|].
  assert (HkG : k < d_next_gw (y_d s)).
  { rewrite Eevq in Eq. inversion Eq as [|e1 q1 (_ & Hn) _]; subst. exact Hn. }
  destruct (aget k (y_w s)) as [wk|] eqn:Ew; [|exfalso; exact (Lo k HkG Ew)].
  destruct (NIs k wk Ew) as (_ & _ & _ & D).
  assert (HIN : In (QErrorDown k) (y_evq s)) by (rewrite Eevq; left; reflexivity).
  assert (ERR : is_errd k (QErrorDown k) = true) by (cbn; apply Nat.eqb_refl).
  destruct (mem_nat k (y_dead s)) eqn:Hd.
  2:{ destruct D as [_ _ _ D4 _ _]. rewrite (D4 _ HIN) in ERR. discriminate. }
  split; [apply mem_nat_In; exact Hd|].
  destruct D as [_ D2 _]. destruct D2 as [pre f X1 X2 X3 X4 X5 X6 X7|q1 q2 X1 X2 X3 X4 X5 X6 X7|X1 X2 X3 X4 X5].
  - rewrite (X5 _ HIN) in ERR. discriminate.
  - rewrite Eevq in X2. destruct q1 as [|e1 q1'].
    + cbn [app] in X2. injection X2 as E2.
      assert (Es : sigs s k = []).
      { unfold sigs. rewrite X1, Eevq, evq_sigs_cons, E2, X3. reflexivity. }
      destruct X7 as (lost & Cp). rewrite Es in Cp. cbn [completes flat_map app] in Cp.
      exists wk, lost, i. split; [reflexivity|]. split; [unfold the_collx; rewrite Els; exact Ecl|].
      rewrite (sbookx_bookn _ s cs k J Els).
      split; [exact Cp|]. split; [rewrite <- Cp, proj_bk, Ebk; reflexivity|exact Enth].
    + cbn [app] in X2. injection X2 as E1 E2. subst e1. rewrite (X4 _ (or_introl eq_refl)) in ERR. discriminate.
  - rewrite (X2 _ HIN) in ERR. discriminate.
Qed.
End SysX.

(* ---- any collections: the collection the invariant is stated for may be re-chosen as long as the scheduler has
   not fixed one (nothing has been handed out then) ---- *)
Section SysG.
Variable c : config.
Variable kind : scope_kind.
Notation N := (c_numnodes c).
Notation X0 := (c_coll c).
Hypothesis Hmode : c_mode c = MScope kind.
Hypothesis Hng : no_garbled c.
Hypothesis Hpos : 0 < N.
Hypothesis Hrq : c_requeue c = 0.

Lemma SJx_transfer coll0 coll1 G cs :
  SJx kind coll0 X0 N G cs -> sc_coll cs = None -> SJx kind coll1 X0 N G cs.
Proof.
  intros [A B C D E F Gg Hh I Jn K L M] Hc. destruct (Jn Hc) as (Ew & Ha).
  constructor; try assumption.
  - intros cl Ecl. congruence.
  - rewrite Ew. intros sc u [].
  - intros n w Hin. rewrite (Ha n w Hin). intros sc u [].
Qed.

Lemma proj_transfer coll0 coll1 cs :
  (forall n w, In (n, w) (sc_assigned cs) -> w = []) -> proj coll0 cs = proj coll1 cs.
Proof.
  intros Ha. unfold proj. f_equal. apply map_ext_in. intros [n w] Hin. cbn [fst snd]. rewrite (Ha n w Hin). reflexivity.
Qed.

Lemma DJx_transfer coll0 coll1 d cs :
  DJx kind coll0 X0 N d cs -> sc_coll cs = None -> DJx kind coll1 X0 N d cs.
Proof.
  intros ([Els J Jb K1 RS K2 EX RQ AL FN CC ACT] & R) Hc. split; [|exact R].
  constructor; try assumption. apply (SJx_transfer coll0); assumption.
Qed.

Lemma XInvC_transfer coll0 coll1 s :
  XInvC c kind coll0 s -> (forall cs, d_sched (y_d s) = StC cs -> sc_coll cs = None) -> XInvC c kind coll1 s.
Proof.
  intros [Lo Hi (cs & DJd & NIs) Eq Eu Ea Er Edead] Hn.
  destruct (dj_els c kind coll0 _ _ DJd) as (Els & J). pose proof (Hn cs Els) as Hc.
  constructor; try assumption.
  exists cs. split; [apply (DJx_transfer coll0); assumption|].
  intros n w Ew. rewrite <- (proj_transfer coll0 coll1 cs (proj2 (sx_none _ _ _ _ _ _ J Hc))). apply NIs. exact Ew.
Qed.

(* the collection the scheduler will fix, seen from a state in which it has not fixed one yet *)
Definition pickx (coll0 : list string) (s : sys) : list string :=
  match d_sched (y_d s) with
  | StC cs =>
      match sc_coll cs with
      | Some _ => coll0
      | None => match sc_reg cs with
                | (_, cl) :: _ => cl
                | [] => match y_evq s with QCollFinish n _ :: _ => X0 n | _ => coll0 end
                end
      end
  | _ => coll0
  end.

Lemma pickx_ok coll0 s :
  XInvC c kind coll0 s -> XInvC c kind (pickx coll0 s) s /\ FIRSTx c (pickx coll0 s) s.
Proof.
  intros X. pose proof X as [_ _ (cs & DJd & _) _ _ _ _ _]. destruct (dj_els c kind coll0 _ _ DJd) as (Els & J).
  unfold pickx. rewrite Els. destruct (sc_coll cs) as [cl|] eqn:Ec.
  - split; [exact X|]. intros n ids q cs1 _ E1 Hc. assert (cs1 = cs) by congruence. subst cs1. congruence.
  - assert (XT : forall cl, XInvC c kind cl s).
    { intros cl. apply (XInvC_transfer coll0); [exact X|]. intros cs1 E1. assert (cs1 = cs) by congruence. subst cs1. exact Ec. }
    destruct (sc_reg cs) as [|[k0 cl] rg] eqn:Er.
    + destruct (y_evq s) as [|ev q] eqn:Eq.
      * split; [apply XT|]. intros n ids q cs1 E1. rewrite Eq in E1. discriminate.
      * destruct ev; (split; [apply XT|]); intros n' ids' q' cs1 E1 E2 Hc; rewrite Eq in E1; try discriminate.
        injection E1 as -> _ _. assert (cs1 = cs) by congruence. subst cs1. rewrite Er. reflexivity.
    + split; [apply XT|]. intros n ids q cs1 _ E1 Hc. assert (cs1 = cs) by congruence. subst cs1. rewrite Er. reflexivity.
Qed.

(* every reachable state satisfies the invariant for some collection, or is the state in which the controller
   has just raised "no active workers" (possible only when some worker collected a different list) *)
Definition GInvx (s : sys) : Prop :=
  (exists coll0, XInvC c kind coll0 s) \/ (exists coll0, ErrStx c kind coll0 s).

Theorem xinvc_run_g ls : GInvx (sys_run c ls).
Proof.
  unfold sys_run.
  assert (G : forall s, GInvx s ->
     GInvx (fold_left (fun s l => match sys_step c s l with Some (s', _, _) => s' | None => s end) ls s)).
  { induction ls as [|l ls IH]; intros s Hs; cbn [fold_left]; [exact Hs|].
    apply IH. destruct (sys_step c s l) as [[[s' o] w]|] eqn:E; [|exact Hs].
    destruct Hs as [(coll0 & Hs)|(coll0 & Hr & _)].
    - destruct (pickx_ok coll0 s Hs) as (X1 & F1).
      destruct (step_xinvc_g c kind (pickx coll0 s) Hng Hpos Hrq s l s' o w X1 F1 E) as [Y|Y]; [left|right]; eauto.
    - unfold sys_step in E. rewrite Hr in E. discriminate. }
  apply G. left. exists (c_coll c 0). apply XInvC_init; assumption.
Qed.
End SysG.

(* ---- all workers collect the same list: the collection is that list, no exception ---- *)
Section SysXS.
Variable c : config.
Variable kind : scope_kind.
Notation N := (c_numnodes c).
Notation X0 := (c_coll c).
Notation coll0 := (c_coll c 0).
Hypothesis Hmode : c_mode c = MScope kind.
Hypothesis Hng : no_garbled c.
Hypothesis Hpos : 0 < N.
Hypothesis Hsame : forall n, c_coll c n = coll0.
Hypothesis Hrq : c_requeue c = 0.
Notation XInvC := (XInvC c kind coll0).

Lemma first_of_same G cs n :
  SJx kind coll0 X0 N G cs -> match sc_reg cs with (k0, cl) :: _ => cl = coll0 | [] => X0 n = coll0 end.
Proof.
  intros J. destruct (sc_reg cs) as [|[k0 cl] rg] eqn:Er; [apply Hsame|].
  destruct (sx_reg _ _ _ _ _ _ J k0 cl) as (-> & _); [rewrite Er; left; reflexivity|apply Hsame].
Qed.

Lemma firstx_same s : XInvC s -> FIRSTx c coll0 s.
Proof.
  intros [_ _ (cs & DJd & _) _ _ _ _ _] n ids q cs1 _ E1 _. destruct (dj_els c kind coll0 _ _ DJd) as (Els & J).
  assert (cs1 = cs) by congruence. subst cs1. exact (first_of_same _ cs n J).
Qed.

Lemma step_ctl_corex s ev q d' outs r :
  XInvC s -> y_result s = None -> y_evq s = ev :: q ->
  d_loop_once ev (y_d s) = (d', outs, r) ->
  r = Ok tt /\ (d_active d' = [] -> d_shuttingdown d' = true) /\
  (forall rr, (forall e, rr <> Some (RError e)) -> (rr = None -> d_active d' <> []) ->
     XInvC (set_result (apply_outs (set_d (set_evq s q) d') outs) rr)).
Proof.
  intros X Eres Eevq El.
  destruct (step_ctl_corex_g c kind coll0 Hpos Hrq s ev q d' outs r X (firstx_same s X) Eres Eevq El) as (A & B & C).
  split; [exact A|]. split; [apply B; exact Hsame|exact C].
Qed.

Lemma step_xinvc s l s' o w : XInvC s -> sys_step c s l = Some (s', o, w) -> XInvC s'.
Proof.
  intros X H. destruct (step_xinvc_g c kind coll0 Hng Hpos Hrq s l s' o w X (firstx_same s X) H) as [Y|(_ & NS & _)]; [exact Y|].
  exfalso. apply NS. exact Hsame.
Qed.

(* every reachable state satisfies the invariant *)
Theorem xinvc_run ls : XInvC (sys_run c ls).
Proof.
  unfold sys_run.
  assert (G : forall s, XInvC s ->
     XInvC (fold_left (fun s l => match sys_step c s l with Some (s', _, _) => s' | None => s end) ls s)).
  { induction ls as [|l ls IH]; intros s Hs; cbn [fold_left]; [exact Hs|].
    apply IH. destruct (sys_step c s l) as [[[s' o] w]|] eqn:E; [|exact Hs].
    eapply step_xinvc; eauto. }
  apply G. apply XInvC_init; assumption.
Qed.

Lemma xinvc_coupled s : XInvC s -> ScCrashCoupled c s.
Proof. intros X. apply (xinvc_coupledW c kind coll0); [exact X|]. intros cs n E. apply sbook_bookn. exact E. Qed.

Lemma ctl_crash_reportx s ev q d' outs r t k :
  XInvC s -> y_result s = None -> y_evq s = ev :: q ->
  d_loop_once ev (y_d s) = (d', outs, r) ->
  In (OHook (HCrashReport t k)) outs ->
  ev = QErrorDown k /\ In k (y_dead s) /\
  exists wk lost i, aget k (y_w s) = Some wk /\ sbook c s k = owed_w wk ++ lost /\
    hd_error (owed_w wk ++ lost) = Some i /\ nth_error coll0 i = Some t.
Proof.
  intros X Eres Eevq El Hin.
  destruct (ctl_crash_reportx_g c kind coll0 Hpos s ev q d' outs r t k X (firstx_same s X) Eres Eevq El Hin)
    as (A & B & wk & lost & i & C1 & C2 & C3 & C4 & C5).
  split; [exact A|]. split; [exact B|]. exists wk, lost, i. split; [exact C1|]. split; [|split; assumption].
  rewrite <- C3. pose proof X as [_ _ (cs & DJd & _) _ _ _ _ _]. destruct (dj_els c kind coll0 _ _ DJd) as (Els & J).
  rewrite (sbook_bookn c s cs k Els), (sbookx_bookn c kind coll0 _ s cs k J Els). reflexivity.
Qed.
End SysXS.

(* ====================================================================================== *)
(* D.3 the theorems: coupling, C17, C03 (a)                                                 *)
(* ====================================================================================== *)
Section MainG.
  Variable c : config.
  Variable ls : list label.
  Variable kind : scope_kind.
  Hypothesis Hmode : c_mode c = MScope kind.
  Hypothesis Hnogarbled : no_garbled c.
  Hypothesis Hnodes : 0 < c_numnodes c.
  Hypothesis Hrequeue : c_requeue c = 0.

  Lemma run_good_x : GInvx c kind (sys_run c ls).
  Proof. apply xinvc_run_g; assumption. Qed.

  (* Goal 1, ANY collections (replacement workers may collect something else): the crash coupling invariant,
     the books read against the collection the scheduler has fixed *)
  Theorem scope_crash_coupling_invariant_any_collections : ScCrashCoupledX (sys_run c ls).
  Proof.
    assert (K : forall coll0 s, XInvC c kind coll0 s -> ScCrashCoupledX s).
    { intros coll0 s X. apply (xinvc_coupledW c kind coll0); [exact X|]. intros cs n E.
      pose proof X as [_ _ (cs0 & DJd & _) _ _ _ _ _]. destruct (dj_els c kind coll0 _ _ DJd) as (Els & J).
      assert (cs0 = cs) by congruence. subst cs0. exact (sbookx_bookn c kind coll0 _ s cs n J E). }
    destruct run_good_x as [(coll0 & X)|(coll0 & _ & _ & s0 & X & V)]; [exact (K _ _ X)|].
    apply (ScCrashCoupledX_VE s0); [exact V|exact (K _ _ X)].
  Qed.

  (* Goal 2 (C17), ANY collections: the only exception that can escape the controller's loop is the documented
     RuntimeError("no active workers") ... *)
  Theorem scope_crash_c17 : forall e, y_result (sys_run c ls) = Some (RError e) -> e = ERuntimeNoWorkers.
  Proof.
    intros e H. destruct run_good_x as [(coll0 & X)|(coll0 & R & _)].
    - exfalso. exact (xc_res _ _ _ _ X e H).
    - congruence.
  Qed.

  (* ... and it only occurs when some worker collected a different list of tests: *)
  Theorem scope_crash_no_active_workers_needs_different_collection :
    y_result (sys_run c ls) = Some (RError ERuntimeNoWorkers) -> ~ (forall n, c_coll c n = c_coll c 0).
  Proof.
    intros H. destruct run_good_x as [(coll0 & X)|(coll0 & _ & NS & _)]; [exfalso; exact (xc_res _ _ _ _ X _ H)|exact NS].
  Qed.

  (* when every worker (replacements included) collects the same list, NO exception escapes *)
  Theorem scope_crash_controller_never_raises :
    (forall n, c_coll c n = c_coll c 0) -> forall e, y_result (sys_run c ls) <> Some (RError e).
  Proof.
    intros HS e H. pose proof (scope_crash_c17 e H) as ->.
    exact (scope_crash_no_active_workers_needs_different_collection H HS).
  Qed.

  Lemma nohook_no_activex : nohook d_no_active.
  Proof. unfold d_no_active, d_triggershutdown. nh; try (unfold d_node_shutdown; apply nohook_node_shutdown). Qed.

  (* Goal 3a (C03), ANY collections: a 'crashed while running' report for worker k names the test, in the
     collection the scheduler has fixed, at the head of what the dead worker k held *)
  Theorem scope_crash_report_names_running_test_any_collections : forall l s' outs w t k,
    sys_step c (sys_run c ls) l = Some (s', outs, w) ->
    In (OHook (HCrashReport t k)) outs ->
    In k (y_dead (sys_run c ls)) /\
    exists wk lost i coll, aget k (y_w (sys_run c ls)) = Some wk /\
      the_collx (sys_run c ls) = Some coll /\
      sbookx (sys_run c ls) k = owed_w wk ++ lost /\
      hd_error (owed_w wk ++ lost) = Some i /\
      nth_error coll i = Some t.
  Proof.
    intros l s' outs w t k H Hin. set (s := sys_run c ls) in *.
    assert (Eres : y_result s = None).
    { unfold sys_step in H. destruct (y_result s); [discriminate|reflexivity]. }
    destruct run_good_x as [(coll1 & X1)|(coll1 & R & _)]; [|fold s in R; congruence].
    fold s in X1. destruct (pickx_ok c kind coll1 s X1) as (X & HF). set (coll0 := pickx c coll1 s) in *.
    unfold sys_step in H. rewrite Eres in H.
    destruct l as [n0|n0|n0|n0| |n0].
    - destruct (mem_nat n0 (y_dead s)); [discriminate|].
      destruct (aget n0 (y_down s)) as [[|cmd rest]|]; try discriminate.
      destruct (aget n0 (y_w s)); try discriminate. inv H. destruct Hin.
    - destruct (mem_nat n0 (y_dead s)); [discriminate|].
      destruct (aget n0 (y_w s)) as [w0|]; try discriminate.
      destruct (negb (wcb w0)); [discriminate|].
      destruct (recv_step (c_oracle c n0) w0) as [w' evs]. inv H. destruct Hin.
    - destruct (mem_nat n0 (y_dead s)); [discriminate|].
      destruct (aget n0 (y_w s)) as [w0|]; try discriminate.
      destruct (dies_now c n0 w0); [inv H; destruct Hin|].
      destruct (main_step (c_oracle c n0) w0) as [[w' evs]|]; [|discriminate]. inv H. destruct Hin.
    - destruct (aget n0 (y_up s)) as [[|m rest]|] eqn:Eup; try discriminate.
      cbn [y_d] in H.
      destruct (process_from_remote n0 m (y_d s)) as [[d' o1] r] eqn:Ep.
      destruct (step_recvx c kind coll0 Hnodes Hrequeue s n0 m rest d' o1 r X Eup Ep) as (-> & evs & -> & _).
      inv H. destruct Hin.
    - pose proof (xc_act _ _ _ _ X Eres) as Ea.
      destruct (d_active (y_d s)) as [|a0 ar] eqn:Eact; [contradiction|].
      destruct (y_evq s) as [|ev q] eqn:Eevq; [discriminate|].
      destruct (d_loop_once ev (y_d s)) as [[d' o1] r] eqn:El.
      destruct (step_ctl_corex_g c kind coll0 Hnodes Hrequeue s ev q d' o1 r X HF Eres Eevq El) as (-> & Hfin & _).
      assert (EO : In (OHook (HCrashReport t k)) o1).
      { destruct (d_session_finished d') eqn:Efin; [inv H; exact Hin|].
        destruct (d_active d') eqn:Eact'; [|inv H; exact Hin].
        destruct (d_no_active d') as [[d2 o2] r2] eqn:Ena. inv H.
        apply in_app_or in Hin. destruct Hin as [Hin|Hin]; [exact Hin|]. exfalso.
        pose proof (nohook_no_activex _ _ _ _ Ena) as NH. rewrite Forall_forall in NH. exact (NH _ Hin). }
      destruct (ctl_crash_reportx_g c kind coll0 Hnodes s ev q d' o1 (Ok tt) t k X HF Eres Eevq El EO)
        as (_ & A & wk & lost & i & B1 & B2 & B3 & B4 & B5).
      split; [exact A|]. exists wk, lost, i, coll0. auto.
    - destruct (mem_nat n0 (y_dead s)); [discriminate|].
      destruct (aget n0 (y_w s)) as [w0|]; try discriminate.
      destruct (wph w0); try discriminate; inv H; destruct Hin.
  Qed.
End MainG.

Section MainX.
  Variable c : config.
  Variable ls : list label.
  Variable kind : scope_kind.
  Hypothesis Hmode : c_mode c = MScope kind.
  Hypothesis Hnogarbled : no_garbled c.
  Hypothesis Hnodes : 0 < c_numnodes c.
  Hypothesis Hsame : forall n, c_coll c n = c_coll c 0.
  Hypothesis Hrequeue : c_requeue c = 0.

  Lemma run_xinvc : XInvC c kind (c_coll c 0) (sys_run c ls).
  Proof. apply xinvc_run; assumption. Qed.

  (* Goal 1: the crash coupling invariant of the scope schedulers, in every reachable state, for EVERY
     schedule (crashes at any moment, any number of replacements) *)
  Theorem scope_crash_coupling_invariant : ScCrashCoupled c (sys_run c ls).
  Proof. apply (xinvc_coupled c kind). exact run_xinvc. Qed.


  (* Goal 3a (C03): whatever step is taken next, a 'crashed while running' report for worker k names
     the test at the head of what the dead worker k held: the test it was running (PRun), or had taken
     and was about to start (or, if it held nothing, the first index that was lost on its wire) *)
  Theorem scope_crash_report_names_running_test : forall l s' outs w t k,
    sys_step c (sys_run c ls) l = Some (s', outs, w) ->
    In (OHook (HCrashReport t k)) outs ->
    In k (y_dead (sys_run c ls)) /\
    exists wk lost i, aget k (y_w (sys_run c ls)) = Some wk /\
      sbook c (sys_run c ls) k = owed_w wk ++ lost /\
      hd_error (owed_w wk ++ lost) = Some i /\
      nth_error (c_coll c 0) i = Some t.
  Proof.
    intros l s' outs w t k H Hin. set (s := sys_run c ls) in *.
    assert (X : XInvC c kind (c_coll c 0) s) by exact run_xinvc.
    unfold sys_step in H. destruct (y_result s) eqn:Eres; [discriminate|].
    destruct l as [n0|n0|n0|n0| |n0].
    - destruct (mem_nat n0 (y_dead s)); [discriminate|].
      destruct (aget n0 (y_down s)) as [[|cmd rest]|]; try discriminate.
      destruct (aget n0 (y_w s)); try discriminate. inv H. destruct Hin.
    - destruct (mem_nat n0 (y_dead s)); [discriminate|].
      destruct (aget n0 (y_w s)) as [w0|]; try discriminate.
      destruct (negb (wcb w0)); [discriminate|].
      destruct (recv_step (c_oracle c n0) w0) as [w' evs]. inv H. destruct Hin.
    - destruct (mem_nat n0 (y_dead s)); [discriminate|].
      destruct (aget n0 (y_w s)) as [w0|]; try discriminate.
      destruct (dies_now c n0 w0); [inv H; destruct Hin|].
      destruct (main_step (c_oracle c n0) w0) as [[w' evs]|]; [|discriminate]. inv H. destruct Hin.
    - destruct (aget n0 (y_up s)) as [[|m rest]|] eqn:Eup; try discriminate.
      cbn [y_d] in H.
      destruct (process_from_remote n0 m (y_d s)) as [[d' o1] r] eqn:Ep.
      destruct (step_recvx c kind (c_coll c 0) Hnodes Hrequeue s n0 m rest d' o1 r X Eup Ep) as (-> & evs & -> & _).
      inv H. destruct Hin.
    - pose proof (xc_act _ _ _ _ X Eres) as Ea.
      destruct (d_active (y_d s)) as [|a0 ar] eqn:Eact; [contradiction|].
      destruct (y_evq s) as [|ev q] eqn:Eevq; [discriminate|].
      destruct (d_loop_once ev (y_d s)) as [[d' o1] r] eqn:El.
      destruct (step_ctl_corex c kind Hnodes Hsame Hrequeue s ev q d' o1 r X Eres Eevq El) as (-> & Hfin & _).
      assert (EO : In (OHook (HCrashReport t k)) o1).
      { destruct (d_session_finished d') eqn:Efin; [inv H; exact Hin|].
        destruct (d_active d') eqn:Eact'; [|inv H; exact Hin].
        destruct (d_no_active d') as [[d2 o2] r2] eqn:Ena. inv H.
        apply in_app_or in Hin. destruct Hin as [Hin|Hin]; [exact Hin|]. exfalso.
        pose proof (nohook_no_activex _ _ _ _ Ena) as NH. rewrite Forall_forall in NH. exact (NH _ Hin). }
      destruct (ctl_crash_reportx c kind Hnodes Hsame s ev q d' o1 (Ok tt) t k X Eres Eevq El EO) as (_ & A & B).
      split; [exact A|exact B].
    - destruct (mem_nat n0 (y_dead s)); [discriminate|].
      destruct (aget n0 (y_w s)) as [w0|]; try discriminate.
      destruct (wph w0); try discriminate; inv H; destruct Hin.
  Qed.
End MainX.

Check scope_crash_coupling_invariant_any_collections.
Print Assumptions scope_crash_coupling_invariant_any_collections.
Check scope_crash_coupling_invariant.
Print Assumptions scope_crash_coupling_invariant.
Check scope_crash_c17.
Print Assumptions scope_crash_c17.
Check scope_crash_no_active_workers_needs_different_collection.
Print Assumptions scope_crash_no_active_workers_needs_different_collection.
Check scope_crash_controller_never_raises.
Print Assumptions scope_crash_controller_never_raises.
Check scope_crash_report_names_running_test_any_collections.
Print Assumptions scope_crash_report_names_running_test_any_collections.
Check scope_crash_report_names_running_test.
Print Assumptions scope_crash_report_names_running_test.

(* ====================================================================================== *)
(* D.4 token conservation and "no test is started twice" WITH crashes (C03 b, c)            *)
(* ====================================================================================== *)
(* the index reported as crashed by the controller turn taken in state s *)
Definition crash_idxc (s : sys) : list nat :=
  match y_evq s with QErrorDown n :: _ => firstn 1 (sbookx s n) | _ => [] end.

(* all the tests there are: the positions (of first occurrences) of the collection, unit by unit *)
Definition ALLX (kind : scope_kind) (coll0 : list string) : list nat := bookw coll0 (UL kind coll0).

Lemma ALLX_blocks kind coll0 : ALLX kind coll0 = concat (blocks kind coll0).
Proof.
  unfold ALLX, blocks, bookw. rewrite flat_map_concat_map. f_equal. apply map_ext_in. intros [sc u] Hin.
  unfold undone_ixs, ixs_of, undone. cbn [snd]. destruct (UL_unit kind coll0 sc u Hin) as (_ & Hf).
  rewrite WorkerProofs.filter_all; [reflexivity|]. intros x Hx. unfold all_false in Hf. rewrite Forall_forall in Hf.
  rewrite (Hf x Hx). reflexivity.
Qed.

Lemma ALLX_nodup kind coll0 : NoDup (ALLX kind coll0).
Proof. rewrite ALLX_blocks. apply blocks_nodup. Qed.

Lemma fmkv_app_permx {V} (g1 g2 : nat -> V -> list nat) (m : amap V) :
  Permutation (fmkv (fun k v => g1 k v ++ g2 k v) m) (fmkv g1 m ++ fmkv g2 m).
Proof.
  induction m as [|[k v] m IH]; [reflexivity|]. unfold fmkv in *. cbn [flat_map fst snd]. permc_with IH.
Qed.

Lemma fm_supersety (f : nat -> list nat) (K0 : list nat) : forall K,
  NoDup K0 -> NoDup K -> incl K0 K -> (forall k, In k K -> ~ In k K0 -> f k = []) ->
  Permutation (flat_map f K) (flat_map f K0).
Proof.
  induction K0 as [|a K0 IH]; intros K ND0 ND Hi Hz.
  - rewrite flat_map_nil_in; [reflexivity|]. intros k Hk. apply Hz; [exact Hk|intros []].
  - inversion ND0 as [|a' l' Ha ND0']; subst.
    assert (Hin : In a K) by (apply Hi; left; reflexivity).
    destruct (in_split _ _ Hin) as (l1 & l2 & ->).
    assert (ND' : NoDup (l1 ++ l2)) by (eapply NoDup_remove_1; eauto).
    assert (Hna : ~ In a (l1 ++ l2)) by (eapply NoDup_remove_2; eauto).
    rewrite flat_map_app. cbn [flat_map]. rewrite <- (IH (l1 ++ l2) ND0' ND').
    + rewrite flat_map_app. permc.
    + intros k Hk. assert (Hk' : In k (l1 ++ a :: l2)) by (apply Hi; right; exact Hk).
      apply in_app_or in Hk'. apply in_or_app. destruct Hk' as [X|[X|X]]; auto. subst k. contradiction.
    + intros k Hk Hnk. apply Hz.
      * apply in_app_or in Hk. apply in_or_app. destruct Hk; [left|right; right]; assumption.
      * intros [X|X]; [subst k; contradiction|contradiction].
Qed.

Section TokX.
Variable c : config.
Variable kind : scope_kind.
Notation N := (c_numnodes c).
Notation X0 := (c_coll c).
Variable coll0 : list string.     (* the collection the scheduler has fixed, or will fix *)
Hypothesis Hmode : c_mode c = MScope kind.
Hypothesis Hng : no_garbled c.
Hypothesis Hpos : 0 < N.
Hypothesis Hrq : c_requeue c = 0.

Notation XInvC := (XInvC c kind coll0).
Notation FIRSTx := (FIRSTx c coll0).
Notation tokx := (tokx coll0).
Notation ALL := (ALLX kind coll0).

(* cr: the indices reported as crashed so far; H: the completions handled so far (both ghosts) *)
Record TInvX (s : sys) (cr H : list nat) : Prop := {
  tx_keys : NoDup (akeys (y_w s));
  tx_pre : forall cs, d_sched (y_d s) = StC cs -> sc_coll cs = None -> H = [] /\ cr = [];
  tx_acc : forall cs, d_sched (y_d s) = StC cs -> sc_coll cs <> None -> Permutation (tokx cs ++ H ++ cr) ALL;
  tx_done : Permutation (DONE s) (H ++ INFL s);
  tx_dh : sub (DH s) cr;
}.

Lemma xinvc_sched s : XInvC s -> exists cs, d_sched (y_d s) = StC cs.
Proof. intros [_ _ (cs & DJd & _) _ _ _ _ _]. exists cs. apply (dj_els c kind coll0 _ _ DJd). Qed.

(* a step that leaves the controller's accounts alone *)
Lemma TInvX_view s s' cr H :
  (exists cs, d_sched (y_d s) = StC cs) -> dviewx (y_d s) (y_d s') ->
  NoDup (akeys (y_w s')) -> Permutation (DONE s') (H ++ INFL s') -> sub (DH s') cr ->
  TInvX s cr H -> TInvX s' cr H.
Proof.
  intros (cs & E) (V2 & V3 & _) ND PD SD [K P A D Hh]. destruct (V3 cs E) as (cs2 & E2 & C2 & W2 & T2).
  assert (Etok : tokx cs2 = tokx cs) by (unfold CrashScope.tokx; rewrite W2, T2; reflexivity).
  constructor.
  - exact ND.
  - intros cs' E' Hc. assert (cs' = cs2) by congruence. subst cs'. apply (P cs E). congruence.
  - intros cs' E' Hc. assert (cs' = cs2) by congruence. subst cs'. rewrite Etok. apply (A cs E). congruence.
  - exact PD.
  - exact SD.
Qed.

(* a worker step: it completes the tests whose completion it emits *)
Lemma TInvX_worker s s' n0 w0 w' sg cr H :
  (exists cs, d_sched (y_d s) = StC cs) ->
  aget n0 (y_w s) = Some w0 -> mem_nat n0 (y_dead s) = false ->
  y_w s' = aset n0 w' (y_w s) -> y_d s' = y_d s -> y_dead s' = y_dead s ->
  (forall k, sigs s' k = if Nat.eqb k n0 then sigs s n0 ++ sg else sigs s k) ->
  done_w w' = done_w w0 ++ completes sg ->
  TInvX s cr H -> TInvX s' cr H.
Proof.
  intros EL Ew Hd Ey Ed Edd Sg Hdone T. pose proof T as [K P A D Hh].
  assert (Ek : akeys (y_w s') = akeys (y_w s)) by (rewrite Ey; apply akeys_aset_in; eapply aget_some_in; eauto).
  apply (TInvX_view s s' cr H EL); [rewrite Ed; apply dviewx_refl|rewrite Ek; exact K| | |exact T].
  - assert (P1 : Permutation (DONE s') (DONE s ++ completes sg)).
    { unfold DONE. rewrite Ey. apply (fmkv_aset (fun _ w => done_w w) n0 w' w0); assumption. }
    assert (P2 : Permutation (INFL s') (INFL s ++ completes sg)).
    { unfold INFL. rewrite Ek. apply (fm_keys_change (fun n => completes (sigs s n)) (fun n => completes (sigs s' n)) n0).
      - exact K.
      - eapply aget_some_in; eauto.
      - intros k Hk. rewrite Sg. apply Nat.eqb_neq in Hk. rewrite Hk. reflexivity.
      - rewrite Sg, Nat.eqb_refl, completes_app. reflexivity. }
    rewrite P1, P2, D, app_assoc. reflexivity.
  - assert (E : DH s' = DH s).
    { unfold DH. rewrite Ey.
      rewrite (fmkv_ext (fun k w => if gone s' k then firstn 1 (owed_w w) else []) (fun k w => if gone s k then firstn 1 (owed_w w) else [])).
      - apply (fmkv_aset_same _ n0 w' w0); [exact Ew|]. unfold gone. rewrite Hd. reflexivity.
      - intros k v _. unfold gone. rewrite Edd, Ed. reflexivity. }
    rewrite E. exact Hh.
Qed.

Lemma crash_worker_viewx s n : dviewx (y_d s) (y_d (crash_worker c s n)).
Proof.
  unfold crash_worker. cbn [y_d]. destruct (c_strict c); [|apply dviewx_refl].
  destruct (aget n (d_nt (y_d s))); [apply dviewx_set_nt|apply dviewx_refl].
Qed.

Lemma close_if_dead_viewx s n :
  dviewx (y_d s) (y_d (close_if_dead s n)) /\ y_w (close_if_dead s n) = y_w s /\
  y_dead (close_if_dead s n) = y_dead s /\ y_evq (close_if_dead s n) = y_evq s /\
  y_up (close_if_dead s n) = y_up s /\ y_down (close_if_dead s n) = y_down s.
Proof.
  unfold close_if_dead. destruct (mem_nat n (y_dead s)); [|split; [apply dviewx_refl|auto]].
  destruct (aget n (d_nt (y_d s))) as [f|]; [|split; [apply dviewx_refl|auto]].
  destruct (n_down f); [|split; [apply dviewx_refl|auto]].
  cbn [set_d y_d y_w y_dead y_evq y_up y_down]. split; [apply dviewx_set_nt|auto].
Qed.

(* ---- the steps of the workers and of the transport ---- *)
Lemma step_tinvx_nonctl s l s' o w cr H :
  l <> LCtl -> XInvC s -> TInvX s cr H -> sys_step c s l = Some (s', o, w) -> TInvX s' cr H.
Proof.
  intros Hl X T HS. pose proof X as [Lo Hi (cs & DJd & NIs) Eq Eu Ea Er Edead].
  pose proof (xinvc_sched s X) as EL.
  unfold sys_step in HS. destruct (y_result s) eqn:Eres; [discriminate|].
  assert (CRASH : forall n0 w0, mem_nat n0 (y_dead s) = false -> aget n0 (y_w s) = Some w0 -> wph w0 <> PExited ->
            TInvX (crash_worker c s n0) cr H).
  { intros n0 w0 Hd Ew Hph.
    destruct (NIs n0 w0 Ew) as (_ & _ & _ & D). rewrite Hd in D. destruct D as [D1 _ _ _ _ _].
    assert (Hact : In n0 (d_active (y_d s))).
    { destruct (in_dec Nat.eq_dec n0 (d_active (y_d s))) as [Hin|Hni]; [exact Hin|].
      destruct (ni_act _ _ _ _ _ _ _ D1 Hni) as (_ & P). contradiction. }
    pose proof (crash_worker_viewx s n0) as DV.
    assert (SG : forall k, sigs (crash_worker c s n0) k = sigs s k).
    { intros k. unfold sigs, crash_worker. cbn [y_evq y_up]. destruct (Nat.eq_dec k n0) as [->|Hk].
      - rewrite alist_get_aset_eq, flat_map_app. cbn. rewrite app_nil_r. reflexivity.
      - rewrite alist_get_aset_neq by exact Hk. reflexivity. }
    pose proof T as [K P A D Hh].
    apply (TInvX_view s _ cr H EL DV); [exact K| | |exact T].
    - change (DONE (crash_worker c s n0)) with (DONE s). rewrite (INFL_ext s (crash_worker c s n0) eq_refl SG). exact D.
    - rewrite (DH_ext s (crash_worker c s n0) eq_refl); [exact Hh|].
      intros k wk _. unfold gone. change (y_dead (crash_worker c s n0)) with (n0 :: y_dead s).
      destruct DV as (-> & _). rewrite mem_nat_cons. destruct (Nat.eqb k n0) eqn:E; [|reflexivity].
      apply Nat.eqb_eq in E. subst k. rewrite Hd. apply mem_nat_In in Hact. rewrite Hact. reflexivity. }
  destruct l as [n0|n0|n0|n0| |n0]; [| | | |contradiction|].
  - (* LDeliver *)
    destruct (mem_nat n0 (y_dead s)) eqn:Hd; [discriminate|].
    destruct (aget n0 (y_down s)) as [[|cmd rest]|] eqn:Ed; try discriminate.
    destruct (aget n0 (y_w s)) as [w0|] eqn:Ew; try discriminate. inv HS.
    destruct (deliver_owed w0 cmd) as (_ & _ & Ep & Epop & _).
    eapply (TInvX_worker s _ n0 w0 (deliver w0 cmd) []); eauto; try reflexivity.
    + intros k. destruct (Nat.eqb k n0) eqn:E; [apply Nat.eqb_eq in E; subst k; rewrite app_nil_r|]; reflexivity.
    + cbn [completes flat_map]. rewrite app_nil_r. apply done_ext; assumption.
  - (* LRecvW *)
    destruct (mem_nat n0 (y_dead s)) eqn:Hd; [discriminate|].
    destruct (aget n0 (y_w s)) as [w0|] eqn:Ew; try discriminate.
    destruct (negb (wcb w0)); [discriminate|].
    destruct (recv_step (c_oracle c n0) w0) as [w' evs] eqn:Es. inv HS.
    destruct (NIs n0 w0 Ew) as (Iw & Gw & NGw & D). rewrite Hd in D. destruct D as [D1 _ _ _ _ _].
    destruct (recv_step_owed (c_oracle c n0) w0 Gw (proj1 (ni_wx _ _ _ _ _ _ _ D1))) as (Ev & _ & _ & Ep & Epop & _).
    rewrite Es in Ev, Ep, Epop. cbn [fst snd] in Ev, Ep, Epop. subst evs.
    eapply (TInvX_worker s _ n0 w0 w' []); eauto; try reflexivity.
    + intros k. unfold sigs. cbn [push_up set_w y_evq y_up map]. destruct (Nat.eqb k n0) eqn:E.
      * apply Nat.eqb_eq in E. subst k. rewrite alist_get_aset_eq, !app_nil_r. reflexivity.
      * apply Nat.eqb_neq in E. rewrite alist_get_aset_neq by exact E. reflexivity.
    + cbn [completes flat_map]. rewrite app_nil_r. apply done_ext; assumption.
  - (* LMain *)
    destruct (mem_nat n0 (y_dead s)) eqn:Hd; [discriminate|].
    destruct (aget n0 (y_w s)) as [w0|] eqn:Ew; try discriminate.
    destruct (dies_now c n0 w0) eqn:Edie.
    + inv HS. apply (CRASH n0 w0 Hd Ew). unfold dies_now in Edie. destruct (wph w0); discriminate.
    + destruct (main_step (c_oracle c n0) w0) as [[w' evs]|] eqn:Es; [|discriminate]. inv HS.
      destruct (NIs n0 w0 Ew) as (Iw & Gw & NGw & D). rewrite Hd in D. destruct D as [D1 _ _ _ _ _].
      eapply (TInvX_worker s _ n0 w0 w' (flat_map we_sig evs)); eauto; try reflexivity.
      * intros k. unfold sigs. cbn [push_up set_w y_evq y_up]. destruct (Nat.eqb k n0) eqn:E.
        -- apply Nat.eqb_eq in E. subst k. rewrite alist_get_aset_eq, flat_map_app, up_sigs_of_wevents, app_assoc. reflexivity.
        -- apply Nat.eqb_neq in E. rewrite alist_get_aset_neq by exact E. reflexivity.
      * eapply main_step_done; eauto. exact (ni_wx _ _ _ _ _ _ _ D1).
  - (* LRecv *)
    destruct (aget n0 (y_up s)) as [[|m rest]|] eqn:Eup; try discriminate.
    cbn [y_d] in HS.
    destruct (process_from_remote n0 m (y_d s)) as [[d' outs] r] eqn:Ep.
    destruct (step_recvx c kind coll0 Hpos Hrq s n0 m rest d' outs r X Eup Ep) as (-> & evs & -> & _ & DV & SGS).
    cbn [apply_outs] in HS. inv HS.
    match goal with |- TInvX (close_if_dead ?sa n0) _ _ => set (sA := sa) end.
    destruct (close_if_dead_viewx sA n0) as (DV2 & E1 & E2 & E3 & E4 & E5).
    pose proof T as [K P A D Hh].
    assert (DV3 : dviewx (y_d s) (y_d (close_if_dead sA n0))) by (eapply dviewx_trans; [exact DV|exact DV2]).
    assert (SG : forall k, sigs (close_if_dead sA n0) k = sigs s k).
    { intros k. unfold sigs. rewrite E3, E4. exact (SGS k). }
    apply (TInvX_view s _ cr H EL DV3); [rewrite E1; exact K| | |exact T].
    + unfold DONE. rewrite E1. change (y_w sA) with (y_w s). fold (DONE s).
      rewrite (INFL_ext s _ (f_equal akeys E1) SG). exact D.
    + rewrite (DH_ext s _ E1); [exact Hh|]. intros k wk _. unfold gone. rewrite E2.
      destruct DV3 as (-> & _). reflexivity.
  - (* LCrash *)
    destruct (mem_nat n0 (y_dead s)) eqn:Hd; [discriminate|].
    destruct (aget n0 (y_w s)) as [w0|] eqn:Ew; try discriminate.
    destruct (wph w0) eqn:Eph; try discriminate; inv HS; apply (CRASH n0 w0 Hd Ew); rewrite Eph; discriminate.
Qed.

(* ---- the controller's turn ---- *)
Lemma evtokx_split G s cs ev q :
  SJx kind coll0 X0 N G cs ->
  y_evq s = ev :: q -> d_sched (y_d s) = StC cs -> evtokx coll0 ev cs = evcomp ev ++ crash_idxc s.
Proof.
  intros J Eq Els. unfold crash_idxc. rewrite Eq. destruct ev; try reflexivity.
  cbn [evtokx evcomp app]. rewrite (sbookx_bookn c kind coll0 _ s cs n J Els), proj_bk. reflexivity.
Qed.

(* the node whose errordown heads the queue: dead, still active, and its book is what it held ++ lost *)
Lemma ctl_errd_nodex s n q wn :
  XInvC s -> y_evq s = QErrorDown n :: q -> aget n (y_w s) = Some wn ->
  mem_nat n (y_dead s) = true /\ In n (d_active (y_d s)) /\ exists lost, sbookx s n = owed_w wn ++ lost.
Proof.
  intros [Lo Hi (cs & DJd & NIs) Eq Eu Ea Er Edead] Eevq Ew.
  destruct (dj_els c kind coll0 _ _ DJd) as (Els & J).
  destruct (NIs n wn Ew) as (_ & _ & _ & D).
  assert (HIN : In (QErrorDown n) (y_evq s)) by (rewrite Eevq; left; reflexivity).
  assert (ERR : is_errd n (QErrorDown n) = true) by (cbn; apply Nat.eqb_refl).
  destruct (mem_nat n (y_dead s)) eqn:Hd.
  2:{ destruct D as [_ _ _ D4 _ _]. rewrite (D4 _ HIN) in ERR. discriminate. }
  split; [reflexivity|].
  destruct D as [_ D2 _]. destruct D2 as [pre f X1 X2 X3 X4 X5 X6 X7|q1 q2 X1 X2 X3 X4 X5 X6 X7|X1 X2 X3 X4 X5].
  - rewrite (X5 _ HIN) in ERR. discriminate.
  - split; [exact X6|]. rewrite Eevq in X2. destruct q1 as [|e1 q1'].
    + cbn [app] in X2. injection X2 as E2.
      assert (Es : sigs s n = []).
      { unfold sigs. rewrite X1, Eevq, evq_sigs_cons, E2, X3. reflexivity. }
      destruct X7 as (lost & Cp). rewrite Es in Cp. cbn [completes flat_map app] in Cp.
      exists lost. rewrite (sbookx_bookn c kind coll0 _ s cs n J Els). exact Cp.
    + cbn [app] in X2. injection X2 as E1 E2. subst e1. rewrite (X4 _ (or_introl eq_refl)) in ERR. discriminate.
  - rewrite (X2 _ HIN) in ERR. discriminate.
Qed.

Lemma step_tinvx_core s ev q d' outs r cr H :
  XInvC s -> FIRSTx s -> TInvX s cr H -> y_result s = None -> y_evq s = ev :: q ->
  d_loop_once ev (y_d s) = (d', outs, r) ->
  TInvX (apply_outs (set_d (set_evq s q) d') outs) (cr ++ crash_idxc s) (evcomp ev ++ H).
Proof.
  intros X HF T Eres Eevq El. pose proof X as [Lo Hi (cs & DJd & NIs) Eq Eu Ea Er Edead].
  pose proof T as [K P A D Hh].
  specialize (Ea Eres).
  pose proof (pre_from_invx c kind coll0 s cs ev q X DJd NIs Eevq) as Hpre.
  pose proof (first_of_FIRSTx c coll0 s cs ev q HF Eevq (proj1 (dj_els c kind coll0 _ _ DJd))) as Hfirst.
  destruct (loop_once_okx kind coll0 (c_coll c) N Hpos ev _ cs d' outs r DJd Ea Hpre Hfirst El) as (-> & cs' & vo & Eo & E & DJ2 & _ & _).
  pose proof (loop_once_step _ _ _ _ _ El) as (_ & _ & _ & SP).
  destruct (dj_els c kind coll0 _ _ DJd) as (Els & J).
  destruct (dj_els c kind coll0 _ _ DJ2) as (Els' & J').
  pose proof DJd as ([_ _ _ _ _ _ _ _ AL _ _ _] & _).
  set (G := d_next_gw (y_d s)) in *.
  assert (SPID : forall id sp, In (OHook (HSpawn id sp)) outs -> id = G).
  { intros id sp Hin. destruct SP as [(C0 & _)|(_ & _ & _ & _ & sp0 & SPx)].
    - pose proof (count_zero_notin _ _ _ C0 Hin) as F. discriminate.
    - specialize (SPx _ Hin eq_refl). inv SPx. reflexivity. }
  set (sA := set_d (set_evq s q) d').
  set (s1 := apply_outs sA outs).
  destruct (apply_outs_frame outs sA) as (F1 & F2 & F3). cbn [sA set_d set_evq y_evq y_d y_dead] in F1, F2, F3.
  fold s1 in F1, F2, F3.
  assert (UP : forall k, alist_get [] k (y_up s1) = alist_get [] k (y_up s)).
  { intros k. unfold s1. rewrite apply_outs_up; [reflexivity|]. intros id sp Hin. rewrite (SPID _ _ Hin).
    cbn [sA set_d set_evq y_up]. apply (Hi G). unfold G. lia. }
  assert (YW : y_w s1 = if existsb is_spawn outs then aset G w_init (y_w s) else y_w s).
  { unfold s1. rewrite (apply_outs_yw_G G outs sA SPID). reflexivity. }
  assert (GN : aget G (y_w s) = None) by (apply (Hi G); unfold G; lia).
  assert (SIGS : forall k, sigs s k = ev_sigs_for k ev ++ sigs s1 k).
  { intros k. rewrite (sigs_head' s ev q k Eevq). unfold sigs. rewrite F1, UP. reflexivity. }
  assert (SG : sigs s1 G = []).
  { assert (Z : sigs s G = []).
    { unfold sigs. destruct (Hi G (le_n _)) as (_ & UG & _). rewrite UG. cbn. rewrite app_nil_r. apply (evq_sigs_fresh c Hpos). exact Eq. }
    pose proof (SIGS G) as Z2. rewrite Z in Z2. symmetry in Z2. apply app_eq_nil in Z2. tauto. }
  assert (KEYIN : forall k, k < G -> In k (akeys (y_w s))).
  { intros k Hk. apply aget_In_keys. apply Lo. exact Hk. }
  assert (EVOK : ok_evx (c_coll c) G ev).
  { pose proof Eq as Eq'. rewrite Forall_forall in Eq'. apply Eq'. rewrite Eevq. left. reflexivity. }
  assert (EVN : forall n i ms, ev = QComplete n i ms -> In n (akeys (y_w s))).
  { intros n i ms Eev. apply KEYIN. destruct EVOK as (_ & Hn). rewrite Eev in Hn. exact Hn. }
  (* the completions in flight: the handled one leaves *)
  assert (PI : Permutation (INFL s) (evcomp ev ++ flat_map (fun k => completes (sigs s1 k)) (akeys (y_w s)))).
  { unfold INFL. rewrite (flat_map_ext_in _ (fun k => completes (ev_sigs_for k ev) ++ completes (sigs s1 k)) (akeys (y_w s))).
    - rewrite flat_map_app_perm. apply Permutation_app_tail. apply evcomp_sum; assumption.
    - intros k _. rewrite (SIGS k), completes_app. reflexivity. }
  (* dead workers: who is gone *)
  assert (GONE : forall k w, In (k, w) (y_w s) -> (forall n, ev = QErrorDown n -> k <> n) -> gone s1 k = gone s k).
  { intros k w Hin Hnerr. unfold gone. rewrite F3, F2. destruct (mem_nat k (y_dead s)) eqn:Hd; [|reflexivity]. cbn [andb]. f_equal.
    assert (Ew : exists wk, aget k (y_w s) = Some wk).
    { destruct (aget k (y_w s)) as [wk|] eqn:E0; [eauto|]. exfalso. apply aget_none_keys in E0. apply E0.
      unfold akeys. change k with (fst (k, w)). apply in_map. exact Hin. }
    destruct Ew as (wk & Ew). destruct (NIs k wk Ew) as (_ & _ & _ & DD0). rewrite Hd in DD0. destruct DD0 as [D1 _ _].
    destruct (mem_nat k (d_active (y_d s))) eqn:Ha.
    - apply mem_nat_In in Ha. destruct (hx_act _ _ _ _ _ _ _ _ _ _ E k Ha) as [Y|[(b & Y)|Y]].
      + apply mem_nat_In. exact Y.
      + exfalso. apply (NDc_nofin _ _ _ _ b D1). rewrite (SIGS k). apply in_or_app. left.
        unfold ev_sigs_for. rewrite Y, Nat.eqb_refl. left. reflexivity.
      + exfalso. exact (Hnerr k Y eq_refl).
    - apply mem_nat_false in Ha. apply mem_nat_false. intros Y.
      destruct (hx_actb _ _ _ _ _ _ _ _ _ _ E k Y) as [Z|(Z & _)]; [contradiction|].
      fold G in Z. subst k. apply aget_none_keys in GN. apply GN. unfold akeys. change G with (fst (G, w)). apply in_map. exact Hin. }
  assert (DH1 : sub (fmkv (fun k w => if gone s1 k then firstn 1 (owed_w w) else []) (y_w s)) (cr ++ crash_idxc s)).
  { destruct (classic_errd ev) as [(n & ->)|Hnerr].
    - (* errordown of n: n is gone now; its crash item is the head of its book *)
      assert (HnG : n < G) by (destruct EVOK as (_ & Hn); exact Hn).
      destruct (aget n (y_w s)) as [wn|] eqn:Ewn; [|exfalso; exact (Lo n HnG Ewn)].
      destruct (ctl_errd_nodex s n q wn X Eevq Ewn) as (Hdn & Han & lost & Ebk).
      destruct (hx_err _ _ _ _ _ _ _ _ _ _ E n eq_refl) as (_ & Hna').
      assert (G1 : gone s1 n = true).
      { unfold gone. rewrite F3, F2, Hdn. apply mem_nat_false in Hna'. rewrite Hna'. reflexivity. }
      assert (G0 : gone s n = false).
      { unfold gone. rewrite Hdn. apply mem_nat_In in Han. rewrite Han. reflexivity. }
      destruct (aset_split n wn wn (y_w s) Ewn) as (pre & post & Em & _).
      assert (NDm : NoDup (akeys (y_w s))) by exact K.
      unfold DH in Hh. rewrite Em in Hh |- *. unfold fmkv in Hh |- *. rewrite !flat_map_app in Hh |- *.
      cbn [flat_map fst snd] in Hh |- *. rewrite G1. rewrite G0 in Hh. cbn [app] in Hh.
      assert (EXT : forall part, (forall x, In x part -> In x (y_w s) /\ fst x <> n) ->
                flat_map (fun p => if gone s1 (fst p) then firstn 1 (owed_w (snd p)) else []) part =
                flat_map (fun p => if gone s (fst p) then firstn 1 (owed_w (snd p)) else []) part).
      { intros part Hp. apply fm_ext_in. intros [k w] Hin. destruct (Hp _ Hin) as (A1 & A2). cbn [fst snd] in *.
        rewrite (GONE k w A1); [reflexivity|]. intros n0 E0. injection E0 as <-. exact A2. }
      assert (PRE : forall x, In x pre -> In x (y_w s) /\ fst x <> n).
      { intros x Hx. split; [rewrite Em; apply in_or_app; left; exact Hx|].
        intros F. rewrite Em in NDm. unfold akeys in NDm. rewrite map_app in NDm. cbn [map fst] in NDm.
        apply NoDup_remove_2 in NDm. apply NDm. apply in_or_app. left. rewrite <- F. apply in_map. exact Hx. }
      assert (POST : forall x, In x post -> In x (y_w s) /\ fst x <> n).
      { intros x Hx. split; [rewrite Em; apply in_or_app; right; right; exact Hx|].
        intros F. rewrite Em in NDm. unfold akeys in NDm. rewrite map_app in NDm. cbn [map fst] in NDm.
        apply NoDup_remove_2 in NDm. apply NDm. apply in_or_app. right. rewrite <- F. apply in_map. exact Hx. }
      rewrite (EXT pre PRE), (EXT post POST).
      unfold crash_idxc. rewrite Eevq, Ebk.
      destruct Hh as (x & Px). destruct (sub_firstn1 (owed_w wn) lost) as (y & Py).
      exists (x ++ y). rewrite <- Px, <- Py. permc.
    - rewrite (fmkv_ext _ (fun k w => if gone s k then firstn 1 (owed_w w) else [])).
      + fold (DH s). eapply sub_trans; [exact Hh|]. apply sub_app_l.
      + intros k w Hin. rewrite (GONE k w Hin); [reflexivity|]. intros n E0. exfalso. exact (Hnerr n E0). }
  (* before the collection is fixed nothing is booked: the event takes no token *)
  assert (NOTOK : sc_coll cs = None -> evcomp ev = [] /\ crash_idxc s = []).
  { intros Hc. assert (BKN : forall n, bookn coll0 cs n = []) by (intros n; apply (bookn_coll_nonex kind coll0 (c_coll c) N _ cs n J Hc)).
    split.
    - destruct ev; try reflexivity. cbn [PREx] in Hpre. destruct Hpre as (rest & Hb). rewrite BKN in Hb. discriminate.
    - unfold crash_idxc. rewrite Eevq. destruct ev; try reflexivity. rewrite (sbookx_bookn c kind coll0 _ s cs n J Els), proj_bk, BKN. reflexivity. }
  constructor.
  - rewrite YW. destruct (existsb is_spawn outs); [apply akeys_aset_nodup|]; exact K.
  - rewrite F2. intros cs1 E1 Hc1. assert (cs1 = cs') by congruence. subst cs1.
    destruct (sc_coll cs) as [cl|] eqn:Ec.
    + exfalso. destruct (hx_tok _ _ _ _ _ _ _ _ _ _ E) as (X1 & _); [rewrite Ec; discriminate|]. congruence.
    + destruct (P cs Els Ec) as (-> & ->). destruct (NOTOK eq_refl) as (-> & ->). split; reflexivity.
  - rewrite F2. intros cs1 E1 Hc1. assert (cs1 = cs') by congruence. subst cs1.
    destruct (sc_coll cs) as [cl|] eqn:Ec.
    + assert (Hcn : sc_coll cs <> None) by (rewrite Ec; discriminate).
      destruct (hx_tok _ _ _ _ _ _ _ _ _ _ E Hcn) as (_ & Pt). rewrite (evtokx_split _ s cs ev q J Eevq Els) in Pt.
      pose proof (A cs Els Hcn) as PA. rewrite <- PA. rewrite <- Pt. permc.
    + destruct (P cs Els Ec) as (-> & ->). destruct (NOTOK eq_refl) as (-> & ->).
      destruct (hx_tok0 _ _ _ _ _ _ _ _ _ _ E Ec) as [(X1 & _)|(_ & X2)]; [contradiction|].
      cbn [app]. rewrite !app_nil_r. exact X2.
  - assert (PD : Permutation (DONE s1) (DONE s)).
    { unfold DONE. rewrite YW. destruct (existsb is_spawn outs); [|reflexivity].
      rewrite (fmkv_new _ G w_init _ GN). cbn. rewrite app_nil_r. reflexivity. }
    assert (PI2 : flat_map (fun k => completes (sigs s1 k)) (akeys (y_w s)) = INFL s1).
    { unfold INFL. rewrite YW. destruct (existsb is_spawn outs); [|reflexivity].
      rewrite (akeys_aset_new _ G _ w_init GN), flat_map_app. cbn. rewrite SG. cbn. rewrite app_nil_r. reflexivity. }
    rewrite PD, D, PI, PI2. permc.
  - unfold DH. rewrite YW. destruct (existsb is_spawn outs); [|exact DH1].
    rewrite (fmkv_new _ G w_init _ GN).
    assert (GG : gone s1 G = false).
    { unfold gone. rewrite F3. replace (mem_nat G (y_dead s)) with false; [reflexivity|]. symmetry. apply mem_nat_false.
      intros Hin. specialize (Edead _ Hin). fold G in Edead. lia. }
    rewrite GG, app_nil_r. exact DH1.
Qed.

(* states that differ in the result only *)
Lemma TInvX_res s rr cr H : TInvX s cr H -> TInvX (set_result s rr) cr H.
Proof. intros [K P A D Hh]. constructor; assumption. Qed.

(* the controller's turn: both invariants, or RuntimeError("no active workers") *)
Lemma step_ctl_xt s s' o w cr H :
  XInvC s -> FIRSTx s -> TInvX s cr H -> sys_step c s LCtl = Some (s', o, w) ->
  exists H', (XInvC s' /\ TInvX s' (cr ++ crash_idxc s) H') \/
             (y_result s' = Some (RError ERuntimeNoWorkers) /\ ~ SAMEf X0 /\
              exists s0, XInvC s0 /\ TInvX s0 (cr ++ crash_idxc s) H' /\ VE s0 s').
Proof.
  intros X HF T HS. pose proof X as [Lo Hi (cs & DJd & NIs) Eq Eu Ea Er Edead].
  unfold sys_step in HS. destruct (y_result s) eqn:Eres; [discriminate|].
  specialize (Ea eq_refl).
  destruct (d_active (y_d s)) as [|a0 ar] eqn:Eact; [contradiction|].
  destruct (y_evq s) as [|ev q] eqn:Eevq; [discriminate|].
  destruct (d_loop_once ev (y_d s)) as [[d' outs] r] eqn:El.
  pose proof (step_tinvx_core s ev q d' outs r cr H X HF T Eres Eevq El) as CORE.
  destruct (step_ctl_corex_g c kind coll0 Hpos Hrq s ev q d' outs r X HF Eres Eevq El) as (-> & Hfin & XC).
  set (s1 := apply_outs (set_d (set_evq s q) d') outs) in *.
  exists (evcomp ev ++ H).
  destruct (d_session_finished d') eqn:Efin.
  - injection HS as <- _ _. left. split; [|apply TInvX_res; exact CORE].
    apply XC; [intros e; destruct (d_shouldstop d'); discriminate|destruct (d_shouldstop d'); discriminate].
  - destruct (d_active d') as [|b0 br] eqn:Eact'.
    + right.
      assert (Hsd : d_shuttingdown d' = false).
      { unfold d_session_finished in Efin. rewrite Eact', andb_true_r in Efin. exact Efin. }
      assert (XR : XInvC (set_result s1 (Some RFinished))) by (apply XC; [intros e; discriminate|discriminate]).
      pose proof XR as [_ _ (cs' & DJ2 & _) _ _ _ _ _].
      destruct (apply_outs_frame outs (set_d (set_evq s q) d')) as (F1 & F2 & F3). cbn [set_d set_evq y_evq y_d y_dead] in F1, F2, F3.
      cbn [set_result y_d] in DJ2. fold s1 in F2. rewrite F2 in DJ2.
      destruct DJ2 as ([Els2 J2 Jb2 _ _ _ _ _ _ _ _ _] & Jss2 & _).
      assert (Hss : d_shouldstop d' = false).
      { apply not_true_false. intros F. rewrite (Jss2 F) in Hsd. discriminate. }
      assert (Hnn : s_nodes (d_sched d') = []).
      { rewrite Els2. cbn [s_nodes]. specialize (Jb2 Hss). rewrite Eact' in Jb2.
        destruct (sc_nodes cs') as [|k rr]; [reflexivity|]. exfalso. apply (Jb2 k). left. reflexivity. }
      rewrite (trigger_no_nodes d' Hsd Hnn) in HS. cbn [apply_outs] in HS. injection HS as <- _ _.
      split; [reflexivity|]. split.
      * intros HS. rewrite (Hfin HS eq_refl) in Hsd. discriminate.
      * exists (set_result s1 (Some RFinished)). split; [exact XR|]. split; [apply TInvX_res; exact CORE|].
        unfold VE. cbn [set_result set_d y_d y_w y_dead y_evq y_up y_down]. rewrite F2. auto 10.
    + injection HS as <- _ _. left. split; [|exact CORE].
      assert (Er1 : y_result s1 = None).
      { unfold s1. rewrite apply_outs_result. cbn. exact Eres. }
      rewrite <- (set_result_same' s1 None Er1). apply XC; [intros e; discriminate|intros _; discriminate].
Qed.

(* ---- whole runs ---- *)
(* the indices reported as crashed along a run, in order *)
Fixpoint crashedx (s : sys) (ls : list label) : list nat :=
  match ls with
  | [] => []
  | l :: r =>
      match sys_step c s l with
      | Some (s', _, _) => (match l with LCtl => crash_idxc s | _ => [] end) ++ crashedx s' r
      | None => crashedx s r
      end
  end.

Lemma TInvX_init : TInvX (sys_init c) [] [].
Proof.
  assert (SG : forall n, sigs (sys_init c) n = []).
  { intros n. unfold sigs. cbn [sys_init y_evq y_up]. rewrite alist_get_map_nil. reflexivity. }
  constructor.
  - cbn [sys_init y_w]. rewrite (akeys_map_seq (fun _ => w_init)). apply seq_NoDup.
  - intros _ _ _. split; reflexivity.
  - intros cs Els Ec. cbn [sys_init y_d d_sched] in Els. rewrite Hmode in Els. cbn [s_init s_set_nt] in Els.
    inv Els. exfalso. apply Ec. reflexivity.
  - unfold DONE, INFL. cbn [sys_init y_w]. rewrite (fmkv_const_nil _ w_init) by reflexivity.
    rewrite flat_map_nil_in; [reflexivity|]. intros k _. rewrite SG. reflexivity.
  - unfold DH. cbn [sys_init y_w]. rewrite (fmkv_const_nil _ w_init); [apply sub_refl|].
    intros k. unfold gone. cbn [sys_init y_dead mem_nat existsb andb]. reflexivity.
Qed.

(* ---- the accounts at the end ---- *)
(* what is left of node k's book once the completions still in flight are taken off: what the worker
   holds (frozen state if dead) and what is on its wire down (or was lost there) *)
Definition restx (s : sys) (k : nat) : list nat := skipn (length (completes (sigs s k))) (sbookx s k).
(* per worker: the tests it completed ++ the rest of its book *)
Definition holdingsx (s : sys) : list nat := fmkv (fun k w => done_w w ++ restx s k) (y_w s).
(* the not-completed tests of the units still in the work queue *)
Definition poolx (s : sys) : list nat :=
  match d_sched (y_d s) with
  | StC cs => match sc_coll cs with Some cl => bookw cl (sc_wq cs) | None => [] end
  | _ => []
  end.

Lemma book_splitx s k w :
  XInvC s -> aget k (y_w s) = Some w ->
  sbookx s k = completes (sigs s k) ++ restx s k /\
  (gone s k = false -> exists x, restx s k = owed_w w ++ x) /\
  (gone s k = true -> restx s k = []).
Proof.
  intros [Lo Hi (cs & DJd & NIs) Eq Eu Ea Er Edead] Ew.
  destruct (dj_els c kind coll0 _ _ DJd) as (Els & J).
  pose proof (sbookx_bookn c kind coll0 _ s cs k J Els) as BK.
  assert (SPL : forall x, sbookx s k = completes (sigs s k) ++ x -> sbookx s k = completes (sigs s k) ++ restx s k /\ restx s k = x).
  { intros x E. unfold restx. rewrite E at 2 3. rewrite skipn_app_exact. auto. }
  destruct (NIs k w Ew) as (_ & _ & _ & D). unfold gone. destruct (mem_nat k (y_dead s)) eqn:Hd.
  - destruct D as [_ D2 _]. destruct D2 as [pre f X1 X2 X3 X4 X5 X6 X7|q1 q2 X1 X2 X3 X4 X5 X6 X7|X1 X2 X3 X4 X5].
    + destruct X7 as (lost & Cp). rewrite <- BK in Cp. destruct (SPL _ Cp) as (A1 & A2). split; [exact A1|].
      apply mem_nat_In in X6. rewrite X6. cbn. split; [intros _; eauto|discriminate].
    + destruct X7 as (lost & Cp). rewrite <- BK in Cp. destruct (SPL _ Cp) as (A1 & A2). split; [exact A1|].
      apply mem_nat_In in X6. rewrite X6. cbn. split; [intros _; eauto|discriminate].
    + assert (B0 : sbookx s k = []).
      { rewrite BK, proj_bk. apply (bookn_none coll0). rewrite <- (proj_nodes coll0). exact X5. }
      assert (S0 : sigs s k = []) by (unfold sigs; rewrite X1, X3; reflexivity).
      apply mem_nat_false in X4. rewrite X4. cbn. unfold restx. rewrite B0, S0. cbn. split; [reflexivity|]. split; [discriminate|reflexivity].
  - destruct D as [D1 _ _ _ _ _]. pose proof (ni_coupled _ _ _ _ _ _ _ D1) as Cp. rewrite <- BK in Cp.
    destruct (SPL _ Cp) as (A1 & A2). split; [exact A1|]. cbn. split; [intros _; eauto|discriminate].
Qed.

(* the books, node by node, summed over all worker ids *)
Lemma books_by_workersx s cs :
  XInvC s -> NoDup (akeys (y_w s)) -> d_sched (y_d s) = StC cs ->
  Permutation (flat_map (fun p => bookw coll0 (snd p)) (sc_assigned cs)) (INFL s ++ flat_map (restx s) (akeys (y_w s))).
Proof.
  intros X K Els. pose proof X as [Lo Hi (cs0 & DJd & NIs) Eq Eu Ea Er Edead].
  destruct (dj_els c kind coll0 _ _ DJd) as (Els0 & J). assert (cs0 = cs) by congruence. subst cs0.
  assert (BK : forall k, sbookx s k = bookn coll0 cs k) by (intros k; rewrite (sbookx_bookn c kind coll0 _ s cs k J Els), proj_bk; reflexivity).
  rewrite (books_by_nodes coll0 cs (sx_wf _ _ _ _ _ _ J)).
  assert (E2 : Permutation (flat_map (bookn coll0 cs) (akeys (y_w s))) (flat_map (bookn coll0 cs) (sc_nodes cs))).
  { apply fm_supersety; [exact (sx_wf _ _ _ _ _ _ J)|exact K| |].
    - intros k Hk. apply aget_In_keys. apply Lo. exact (sx_nodes _ _ _ _ _ _ J k Hk).
    - intros k _ Hk. apply (bookn_none coll0). exact Hk. }
  rewrite <- E2.
  rewrite (flat_map_ext_in _ (fun k => completes (sigs s k) ++ restx s k) (akeys (y_w s))).
  - apply flat_map_app_perm.
  - intros k Hk. destruct (keys_in_aget k _ Hk) as (w & Ew). rewrite <- BK. exact (proj1 (book_splitx s k w X Ew)).
Qed.

Lemma conservation_xx s cr H :
  XInvC s -> TInvX s cr H -> the_collx s <> None ->
  Permutation (poolx s ++ holdingsx s ++ cr) ALL.
Proof.
  intros X [K P A D Hh] Ec. destruct (xinvc_sched s X) as (cs & Els).
  unfold the_collx in Ec. rewrite Els in Ec.
  rewrite <- (A cs Els Ec). unfold poolx, CrashScope.tokx. rewrite Els.
  assert (Ecl : sc_coll cs = Some coll0).
  { pose proof X as [_ _ (cs0 & DJd & _) _ _ _ _ _]. destruct (dj_els c kind coll0 _ _ DJd) as (Els0 & J).
    assert (cs0 = cs) by congruence. subst cs0. destruct (sc_coll cs) as [cl|] eqn:E0; [|contradiction].
    destruct (sx_coll _ _ _ _ _ _ J cl E0) as (-> & _). reflexivity. }
  rewrite Ecl.
  rewrite (books_by_workersx s cs X K Els).
  assert (PH : Permutation (holdingsx s) (DONE s ++ flat_map (restx s) (akeys (y_w s)))).
  { unfold holdingsx. rewrite fmkv_app_permx. unfold DONE. rewrite (fmkv_keyfun (restx s)). reflexivity. }
  rewrite PH, D. permc.
Qed.

(* what was started is accounted for: completed, or in the rest of a book, or reported as crashed *)
Lemma started_sub_xx s cr H :
  XInvC s -> TInvX s cr H -> sub (started s) (holdingsx s ++ DH s).
Proof.
  intros X T. pose proof T as [K P A D Hh].
  pose proof X as [Lo Hi (cs & DJd & NIs) Eq Eu Ea Er Edead].
  assert (S1 : sub (started s) (fmkv (fun k w => (done_w w ++ restx s k) ++ (if gone s k then firstn 1 (owed_w w) else [])) (y_w s))).
  { unfold started. apply (sub_fmkv (fun _ w => map (fun r => snd (fst r)) (wran w))). intros k w Hin.
    assert (Ew : aget k (y_w s) = Some w).
    { destruct (keys_in_aget k (y_w s)) as (w' & Ew'); [unfold akeys; change k with (fst (k, w)); apply in_map; exact Hin|].
      destruct (aset_split k w' w' (y_w s) Ew') as (pre & post & Em & _).
      assert (w' = w); [|congruence].
      rewrite Em in Hin, K. unfold akeys in K. rewrite map_app in K. cbn [map fst] in K.
      apply in_app_or in Hin. destruct Hin as [Hin|[Hin|Hin]].
      - exfalso. apply NoDup_remove_2 in K. apply K. apply in_or_app. left. change k with (fst (k, w)). apply in_map. exact Hin.
      - congruence.
      - exfalso. apply NoDup_remove_2 in K. apply K. apply in_or_app. right. change k with (fst (k, w)). apply in_map. exact Hin. }
    destruct (NIs k w Ew) as (Iw & _). destruct (started_w_sub w Iw) as (x & Px).
    eapply sub_trans; [exists x; exact Px|].
    destruct (book_splitx s k w X Ew) as (_ & B1 & B2).
    assert (OM : exists y, owed_w w = owed_main w ++ y) by (unfold owed_w; eauto).
    destruct OM as (y & Ey).
    destruct (gone s k) eqn:Eg.
    - rewrite (B2 eq_refl), app_nil_r. apply sub_app; [apply sub_refl|]. rewrite Ey. apply sub_firstn1.
    - destruct (B1 eq_refl) as (z & Ez). rewrite Ez, Ey, app_nil_r. apply sub_app; [apply sub_refl|].
      destruct (owed_main w) as [|i om]; [exists (y ++ z); reflexivity|]. cbn. exists (om ++ y ++ z). permc. }
  assert (S2 : Permutation (fmkv (fun k w => (done_w w ++ restx s k) ++ (if gone s k then firstn 1 (owed_w w) else [])) (y_w s))
                           (holdingsx s ++ DH s)).
  { rewrite fmkv_app_permx. reflexivity. }
  eapply sub_trans; [exact S1|]. apply sub_perm. exact S2.
Qed.

(* no test is started twice *)
Lemma started_nodup_xx s cr H :
  XInvC s -> TInvX s cr H -> NoDup (started s).
Proof.
  intros X T. pose proof (started_sub_xx s cr H X T) as S1. pose proof T as [K P A D Hh].
  destruct (xinvc_sched s X) as (cs & Els).
  destruct (the_collx s) as [coll|] eqn:Ec.
  - assert (Ecn : the_collx s <> None) by (rewrite Ec; discriminate).
    pose proof (conservation_xx s cr H X T Ecn) as PC. destruct Hh as (z & Pz).
    assert (S3 : sub (started s) ALL).
    { eapply sub_trans; [exact S1|]. exists (z ++ poolx s). rewrite <- PC, <- Pz. permc. }
    eapply sub_nodup; [exact S3|apply ALLX_nodup].
  - (* before the initial distribution nothing has been started *)
    unfold the_collx in Ec. rewrite Els in Ec.
    destruct (P cs Els Ec) as (-> & ->).
    pose proof X as [_ _ (cs0 & DJd & _) _ _ _ _ _]. destruct (dj_els c kind coll0 _ _ DJd) as (Els0 & J).
    assert (cs0 = cs) by congruence. subst cs0.
    pose proof (books_by_workersx s cs X K Els) as PB.
    assert (B0 : flat_map (fun p => bookw coll0 (snd p)) (sc_assigned cs) = []).
    { destruct (sx_none _ _ _ _ _ _ J Ec) as (_ & Ha). apply flat_map_nil_in. intros [k w] Hin. rewrite (Ha k w Hin). reflexivity. }
    rewrite B0 in PB. apply Permutation_nil in PB. apply app_eq_nil in PB. destruct PB as (I0 & R0).
    assert (PH : Permutation (holdingsx s) (DONE s ++ flat_map (restx s) (akeys (y_w s)))).
    { unfold holdingsx. rewrite fmkv_app_permx. unfold DONE. rewrite (fmkv_keyfun (restx s)). reflexivity. }
    rewrite R0, D, I0 in PH. cbn in PH. apply Permutation_sym, Permutation_nil in PH.
    apply sub_nil_inv in Hh. rewrite PH, Hh in S1. apply sub_nil_inv in S1. rewrite S1. constructor.
Qed.
End TokX.

Section TokMainX.
  Variable c : config.
  Variable kind : scope_kind.
  Notation N := (c_numnodes c).
  Notation X0 := (c_coll c).
  Hypothesis Hmode : c_mode c = MScope kind.
  Hypothesis Hnogarbled : no_garbled c.
  Hypothesis Hnodes : 0 < c_numnodes c.
  Hypothesis Hrequeue : c_requeue c = 0.

  Lemma TInvX_transfer coll0 coll1 s cr H :
    TInvX kind coll0 s cr H -> (forall cs, d_sched (y_d s) = StC cs -> sc_coll cs = None) -> TInvX kind coll1 s cr H.
  Proof.
    intros [K P A D Hh] Hn. constructor; try assumption.
    intros cs Els Hc. exfalso. apply Hc. apply Hn. exact Els.
  Qed.

  Lemma pickx_cases coll0 s :
    pickx c coll0 s = coll0 \/ (forall cs, d_sched (y_d s) = StC cs -> sc_coll cs = None).
  Proof.
    unfold pickx. destruct (d_sched (y_d s)) as [x|x|cs|x]; try (left; reflexivity).
    destruct (sc_coll cs) eqn:Ec; [left; reflexivity|]. right. intros cs1 E1. injection E1 as <-. exact Ec.
  Qed.

  (* both invariants for some collection, or the state in which "no active workers" has been raised *)
  Definition GTx (s : sys) (cr : list nat) : Prop :=
    (exists coll0 H, XInvC c kind coll0 s /\ TInvX kind coll0 s cr H) \/
    (y_result s = Some (RError ERuntimeNoWorkers) /\
     exists coll0 H s0, XInvC c kind coll0 s0 /\ TInvX kind coll0 s0 cr H /\ VE s0 s).

  Lemma gtx_run ls : forall s cr, GTx s cr -> GTx (run_from c s ls) (cr ++ crashedx c s ls).
  Proof.
    induction ls as [|l ls IH]; intros s cr G.
    - cbn. rewrite app_nil_r. exact G.
    - cbn [run_from fold_left crashedx]. fold (run_from c). destruct (sys_step c s l) as [[[s' o] w]|] eqn:E.
      + rewrite app_assoc. apply IH.
        destruct G as [(coll0 & H & X & T)|(Hr & _)].
        2:{ unfold sys_step in E. rewrite Hr in E. discriminate. }
        destruct (pickx_ok c kind coll0 s X) as (X1 & F1).
        assert (T1 : TInvX kind (pickx c coll0 s) s cr H).
        { destruct (pickx_cases coll0 s) as [->|Hn]; [exact T|]. apply (TInvX_transfer coll0); assumption. }
        destruct l as [n0|n0|n0|n0| |n0].
        5:{ destruct (step_ctl_xt c kind _ Hnodes Hrequeue s s' o w cr H X1 F1 T1 E) as (H' & [(X2 & T2)|(R & _ & s0 & X2 & T2 & V)]).
            - left. eauto.
            - right. split; [exact R|]. eauto 8. }
        all: left; exists (pickx c coll0 s), H; rewrite app_nil_r; split;
          [eapply step_xinvc_nc; eauto; discriminate|eapply step_tinvx_nonctl; eauto; discriminate].
      + apply IH. exact G.
  Qed.

  Variable ls : list label.

  (* the indices reported as crashed during the run, in the order of the reports *)
  Definition scope_crashed_in_run : list nat := crashedx c (sys_init c) ls.

  Lemma run_witnessx : GTx (sys_run c ls) scope_crashed_in_run.
  Proof.
    apply (gtx_run ls (sys_init c) []). left. exists (c_coll c 0), [].
    split; [apply XInvC_init; assumption|apply TInvX_init; assumption].
  Qed.

  Lemma started_VE s0 s : VE s0 s -> started s = started s0.
  Proof. intros (A1 & _). unfold started. rewrite A1. reflexivity. Qed.

  Lemma poolx_VE s0 s : VE s0 s -> poolx s = poolx s0.
  Proof. intros (_ & _ & _ & _ & _ & A6 & _). unfold poolx. rewrite A6. reflexivity. Qed.

  Lemma holdingsx_VE s0 s : VE s0 s -> holdingsx s = holdingsx s0.
  Proof.
    intros V. pose proof V as (A1 & _ & A3 & A4 & _). unfold holdingsx. rewrite A1. apply fmkv_ext. intros k w _.
    unfold restx. rewrite (sbookx_VE s0 s k V). unfold sigs. rewrite A3, A4. reflexivity.
  Qed.

  Lemma the_collx_VE s0 s : VE s0 s -> the_collx s = the_collx s0.
  Proof. intros (_ & _ & _ & _ & _ & A6 & _). unfold the_collx. rewrite A6. reflexivity. Qed.

  (* Goal 3c: token conservation WITH crashes, ANY collections.  Once the scheduler has fixed the collection,
     every first position of a test id of that collection is in exactly one of: the not-completed tests of
     the units in the work queue; the tests a worker (alive or dead) has completed; the rest of a node's book
     (what an alive worker holds or has on its wire; what a dead worker held when it died or what was lost on
     its wire, until its errordown is handled); the positions reported as crashed. *)
  Theorem scope_crash_conservation : forall coll,
    the_collx (sys_run c ls) = Some coll ->
    Permutation (poolx (sys_run c ls) ++ holdingsx (sys_run c ls) ++ scope_crashed_in_run)
                (concat (blocks kind coll)).
  Proof.
    assert (K : forall coll0 s cr H coll, XInvC c kind coll0 s -> TInvX kind coll0 s cr H -> the_collx s = Some coll ->
                  Permutation (poolx s ++ holdingsx s ++ cr) (concat (blocks kind coll))).
    { intros coll0 s cr H coll X T Ec.
      assert (Ecn : the_collx s <> None) by (rewrite Ec; discriminate).
      pose proof (conservation_xx c kind coll0 Hnodes Hrequeue s cr H X T Ecn) as PC. rewrite ALLX_blocks in PC.
      pose proof X as [_ _ (cs & DJd & _) _ _ _ _ _]. destruct (dj_els c kind coll0 _ _ DJd) as (Els & J).
      unfold the_collx in Ec. rewrite Els in Ec. destruct (sx_coll _ _ _ _ _ _ J coll Ec) as (-> & _). exact PC. }
    intros coll Ec. destruct run_witnessx as [(coll0 & H & X & T)|(_ & coll0 & H & s0 & X & T & V)].
    - exact (K _ _ _ _ _ X T Ec).
    - rewrite (poolx_VE s0 _ V), (holdingsx_VE s0 _ V). rewrite (the_collx_VE s0 _ V) in Ec. exact (K _ _ _ _ _ X T Ec).
  Qed.

  (* Goal 3b: no test is ever started twice, crashes or not, ANY collections: the finished tests and the
     crashed test are not run again *)
  Theorem scope_crash_started_nodup : NoDup (started (sys_run c ls)).
  Proof.
    destruct run_witnessx as [(coll0 & H & X & T)|(_ & coll0 & H & s0 & X & T & V)].
    - exact (started_nodup_xx c kind coll0 Hnodes Hrequeue (sys_run c ls) _ H X T).
    - rewrite (started_VE s0 _ V). exact (started_nodup_xx c kind coll0 Hnodes Hrequeue s0 _ H X T).
  Qed.
End TokMainX.

Check scope_crash_conservation.
Print Assumptions scope_crash_conservation.
Check scope_crash_started_nodup.
Print Assumptions scope_crash_started_nodup.

(* ====================================================================================== *)
(* D.5 C06 with crashes: what a worker receives is a sequence of blocks, one per scope key    *)
(* ====================================================================================== *)
(* blocks with pairwise distinct keys, written one after the other: positions of one key are contiguous,
   and in increasing order *)
Section KBlocks.
  Variable keyf : nat -> string.
  Definition kbl (p : string * list nat) : Prop :=
    StronglySorted lt (snd p) /\ forall i, In i (snd p) -> keyf i = fst p.

  Lemma kbl_in_key Bs x : Forall kbl Bs -> In x (concat (map snd Bs)) -> In (keyf x) (map fst Bs).
  Proof.
    intros F Hx. apply in_concat_iff in Hx. destruct Hx as (b & Hb & Hxb). apply in_map_iff in Hb.
    destruct Hb as ([sc b'] & <- & Hin). rewrite Forall_forall in F. destruct (F _ Hin) as (_ & K).
    cbn [fst snd] in *. rewrite (K x Hxb). change sc with (fst (sc, b')). apply in_map. exact Hin.
  Qed.

  Lemma kbl_together Bs :
    NoDup (map fst Bs) -> Forall kbl Bs ->
    forall p q r i j k, p < q -> q < r ->
      nth_error (concat (map snd Bs)) p = Some i -> nth_error (concat (map snd Bs)) q = Some j ->
      nth_error (concat (map snd Bs)) r = Some k ->
      keyf i = keyf k -> keyf j = keyf i.
  Proof.
    induction Bs as [|[sc b] Bs IH]; intros ND F p q r i j k Hpq Hqr Hp Hq Hr E; [destruct p; discriminate|].
    cbn [map snd concat fst] in *. inversion ND as [|x xs Hn ND']; subst. inversion F as [|y ys (_ & K) F']; subst.
    cbn [fst snd] in K.
    destruct (Nat.lt_ge_cases r (length b)) as [Hrb|Hrb].
    - rewrite nth_error_app1 in Hp, Hq, Hr by lia. apply nth_error_In in Hp, Hq. rewrite (K i Hp), (K j Hq). reflexivity.
    - destruct (Nat.lt_ge_cases p (length b)) as [Hpb|Hpb].
      + exfalso. rewrite nth_error_app1 in Hp by lia. rewrite nth_error_app2 in Hr by lia.
        apply nth_error_In in Hp, Hr. apply Hn. rewrite <- (K i Hp), E. apply kbl_in_key; assumption.
      + rewrite nth_error_app2 in Hp, Hq, Hr by lia.
        eapply (IH ND' F' (p - length b) (q - length b) (r - length b)); eauto; lia.
  Qed.

  Lemma kbl_in_order Bs :
    NoDup (map fst Bs) -> Forall kbl Bs ->
    forall p q i j, p < q ->
      nth_error (concat (map snd Bs)) p = Some i -> nth_error (concat (map snd Bs)) q = Some j ->
      keyf i = keyf j -> i < j.
  Proof.
    induction Bs as [|[sc b] Bs IH]; intros ND F p q i j Hpq Hp Hq E; [destruct p; discriminate|].
    cbn [map snd concat fst] in *. inversion ND as [|x xs Hn ND']; subst. inversion F as [|y ys (S & K) F']; subst.
    cbn [fst snd] in K, S.
    destruct (Nat.lt_ge_cases q (length b)) as [Hqb|Hqb].
    - rewrite nth_error_app1 in Hp, Hq by lia. eapply ssorted_nth; [exact S|exact Hpq|eauto..].
    - destruct (Nat.lt_ge_cases p (length b)) as [Hpb|Hpb].
      + exfalso. rewrite nth_error_app1 in Hp by lia. rewrite nth_error_app2 in Hq by lia.
        apply nth_error_In in Hp, Hq. apply Hn. rewrite <- (K i Hp), E. apply kbl_in_key; assumption.
      + rewrite nth_error_app2 in Hp, Hq by lia.
        eapply (IH ND' F' (p - length b) (q - length b)); eauto; lia.
  Qed.

  Lemma kbl_valid (Bs : list (string * list nat)) x (P : nat -> Prop) :
    Forall (fun p : string * list nat => forall i, In i (snd p) -> P i) Bs -> In x (concat (map snd Bs)) -> P x.
  Proof.
    intros F Hx. apply in_concat_iff in Hx. destruct Hx as (b & Hb & Hxb). apply in_map_iff in Hb.
    destruct Hb as (p & <- & Hin). rewrite Forall_forall in F. exact (F _ Hin x Hxb).
  Qed.
End KBlocks.

(* the main thread of a worker: workerready is the first thing it says, and only once *)
Lemma main_step_readyx o w w' evs :
  WX w -> main_step o w = Some (w', evs) -> In SgReady (flat_map we_sig evs) \/ wph w' = PBoot -> wph w = PBoot.
Proof.
  intros (_ & WXs).
  unfold main_step. destruct (wph w) as [|rest| | |cur|cur nxt|cur nxt script|sf|] eqn:Eph; try reflexivity; intros H Hr; exfalso.
  - destruct rest as [|[k f] rest]; inv H; (destruct Hr as [Hr|Hr]; [cbn in Hr; rewrite ?app_nil_r in Hr; first [contradiction|destruct Hr as [F|[]]; discriminate]|cbn in Hr; discriminate]).
  - inv H. destruct Hr as [Hr|Hr]; [cbn in Hr; contradiction|cbn in Hr; discriminate].
  - destruct (wq w) as [|[t it] q'].
    + destruct (wcb w); inv H. destruct Hr as [Hr|Hr]; [cbn in Hr; contradiction|cbn in Hr; congruence].
    + destruct it as [i|]; inv H; (destruct Hr as [Hr|Hr]; [cbn in Hr; contradiction|cbn in Hr; discriminate]).
  - destruct (wq w) as [|nxt q']; [discriminate|]. inv H. destruct Hr as [Hr|Hr]; [cbn in Hr; contradiction|cbn in Hr; discriminate].
  - inv H. destruct Hr as [Hr|Hr]; [cbn in Hr; contradiction|cbn in Hr; discriminate].
  - destruct script as [|e script]; inv H.
    + destruct Hr as [Hr|Hr]; [cbn in Hr; destruct Hr as [F|[]]; discriminate|].
      cbn in Hr. destruct (stops_after o (snd cur)); [discriminate|]. destruct (snd nxt); discriminate.
    + destruct Hr as [Hr|Hr]; [|cbn in Hr; discriminate]. cbn in Hr. rewrite app_nil_r in Hr.
      inversion WXs as [|e' l' He _]; subst.
      destruct e; cbn in He; try contradiction; cbn in Hr; contradiction.
  - inv H. destruct Hr as [Hr|Hr]; [cbn in Hr; destruct sf; destruct Hr as [F|[]]; discriminate|cbn in Hr; discriminate].
  - discriminate.
Qed.

Section HistX.
Variable c : config.
Variable kind : scope_kind.
Notation N := (c_numnodes c).
Notation X0 := (c_coll c).
Variable coll0 : list string.     (* the collection the scheduler has fixed, or will fix *)
Hypothesis Hmode : c_mode c = MScope kind.
Hypothesis Hng : no_garbled c.
Hypothesis Hpos : 0 < N.
Hypothesis Hrq : c_requeue c = 0.

Notation XInvC := (XInvC c kind coll0).
Notation FIRSTx := (FIRSTx c coll0).
Notation kblockc := (kblock kind coll0).

(* B n: the blocks that reached worker n's side (its wire down or the worker itself), with their scope keys *)
Record HNode (s : sys) (cs : scstate) (B : nat -> list (string * list nat)) (n : nat) (w : wst) : Prop := {
  hn_kb : Forall kblockc (B n);
  hn_nd : NoDup (map fst (B n));
  hn_stream : exists rest, concat (map snd (B n)) = w_stream w ++ flat_map cmd_inds (alist_get [] n (y_down s)) ++ rest /\
                           (mem_nat n (y_dead s) = false -> rest = []);
  hn_keys : In n (sc_nodes cs) -> exists krest, keysw cs n = map fst (B n) ++ krest /\ (mem_nat n (y_dead s) = false -> krest = []);
  hn_fresh : In SgReady (sigs s n) \/ wph w = PBoot -> B n = [];
  hn_none : sc_coll cs = None -> B n = [];     (* nothing is handed out before the collection is fixed *)
}.

Definition HInv (s : sys) : Prop :=
  exists B : nat -> list (string * list nat),
    (forall m, d_next_gw (y_d s) <= m -> B m = []) /\
    forall cs, d_sched (y_d s) = StC cs -> forall n w, aget n (y_w s) = Some w -> HNode s cs B n w.

Lemma HInv_init : HInv (sys_init c).
Proof.
  exists (fun _ => []). split; [reflexivity|]. intros cs Els n w Ew.
  cbn [sys_init y_w] in Ew. apply aget_map_const in Ew. subst w.
  constructor; cbn [map concat].
  - constructor.
  - constructor.
  - exists []. cbn [sys_init y_down]. rewrite alist_get_map_nil. split; reflexivity.
  - intros Hin. cbn [sys_init y_d d_sched] in Els. rewrite Hmode in Els. cbn [s_init s_set_nt] in Els. inv Els. destruct Hin.
  - reflexivity.
  - reflexivity.
Qed.

(* a step that does not touch the controller's assignment, the dead set, nor node n *)
Lemma HNode_frame s s' cs cs' B n w :
  sc_assigned cs' = sc_assigned cs -> sc_coll cs' = sc_coll cs -> y_dead s' = y_dead s ->
  alist_get [] n (y_down s') = alist_get [] n (y_down s) -> sigs s' n = sigs s n ->
  HNode s cs B n w -> HNode s' cs' B n w.
Proof.
  intros Ea Ec Ed Edn Es [A1 A2 A3 A4 A5 A6]. constructor; rewrite ?Ed, ?Edn, ?Es, ?Ec; auto.
  unfold sc_nodes, keysw. rewrite Ea. exact A4.
Qed.

(* the facts about one turn of the controller loop *)
Lemma ctl_facts s ev q d' outs r :
  XInvC s -> FIRSTx s -> y_result s = None -> y_evq s = ev :: q ->
  d_loop_once ev (y_d s) = (d', outs, r) ->
  exists cs cs' vo,
    DJx kind coll0 (c_coll c) N (y_d s) cs /\ (forall n w, aget n (y_w s) = Some w -> NodeInv s (proj coll0 cs) n w) /\
    DJx kind coll0 (c_coll c) N d' cs' /\ outs = vfilter (sc_nt cs) vo /\ HEFFx kind coll0 (c_coll c) N ev (y_d s) cs d' cs' vo /\
    let s1 := apply_outs (set_d (set_evq s q) d') outs in
    let G := d_next_gw (y_d s) in
    y_evq s1 = q /\ y_d s1 = d' /\ y_dead s1 = y_dead s /\
    (forall k, alist_get [] k (y_up s1) = alist_get [] k (y_up s)) /\
    (forall k, alist_get [] k (y_down s1) =
               if mem_nat k (y_dead s) then alist_get [] k (y_down s) else alist_get [] k (y_down s) ++ cmds_to k outs) /\
    (forall k, k < G -> aget k (y_w s1) = aget k (y_w s)) /\
    (forall k w, G <= k -> aget k (y_w s1) = Some w -> k = G /\ w = w_init /\ d_next_gw d' = S G) /\
    (forall m, G <= m -> cmds_to m outs = []) /\ G <= d_next_gw d' /\
    (forall k, sigs s k = ev_sigs_for k ev ++ sigs s1 k).
Proof.
  intros X HF Eres Eevq El. pose proof X as [Lo Hi (cs & DJd & NIs) Eq Eu Ea Er Edead].
  specialize (Ea Eres).
  pose proof (pre_from_invx c kind coll0 s cs ev q X DJd NIs Eevq) as Hpre.
  pose proof (first_of_FIRSTx c coll0 s cs ev q HF Eevq (proj1 (dj_els c kind coll0 _ _ DJd))) as Hfirst.
  destruct (loop_once_okx kind coll0 (c_coll c) N Hpos ev _ cs d' outs r DJd Ea Hpre Hfirst El) as (-> & cs' & vo & Eo & E & DJ2 & Hfin & _).
  exists cs, cs', vo. split; [exact DJd|]. split; [exact NIs|]. split; [exact DJ2|]. split; [exact Eo|]. split; [exact E|].
  pose proof (loop_once_step _ _ _ _ _ El) as (_ & _ & _ & SP).
  cbv zeta. set (G := d_next_gw (y_d s)) in *.
  assert (SPW : (d_next_gw d' = G /\ forall id sp, ~ In (OHook (HSpawn id sp)) outs) \/
                (d_next_gw d' = S G /\ (exists sp, In (OHook (HSpawn G sp)) outs) /\
                 forall id sp, In (OHook (HSpawn id sp)) outs -> id = G)).
  { destruct SP as [(C0 & G0)|(C1 & G1 & _ & _ & sp & SPx)].
    - left. split; [exact G0|]. intros id sp Hin. pose proof (count_zero_notin _ _ _ C0 Hin) as F. discriminate.
    - right. split; [exact G1|]. split.
      + destruct (count_pos_in _ _ C1) as (x & Hx & Fx). exists sp. rewrite <- (SPx x Hx Fx). exact Hx.
      + intros id sp' Hin. specialize (SPx _ Hin eq_refl). inv SPx. reflexivity. }
  assert (GW : G <= d_next_gw d') by (destruct SPW as [(A & _)|(A & _)]; lia).
  assert (SPID : forall id sp, In (OHook (HSpawn id sp)) outs -> id = G /\ d_next_gw d' = S G).
  { intros id sp Hin. destruct SPW as [(_ & F)|(A & _ & B)]; [exfalso; exact (F _ _ Hin)|]. split; [eapply B; eauto|exact A]. }
  assert (OUTG : forall m, G <= m -> cmds_to m outs = []).
  { intros m Hm. rewrite Eo, cmds_to_vfilter, (hx_out _ _ _ _ _ _ _ _ _ _ E m Hm). destruct (closedb (sc_nt cs) m); reflexivity. }
  set (sA := set_d (set_evq s q) d').
  destruct (apply_outs_frame outs sA) as (F1 & F2 & F3). cbn [sA set_d set_evq y_evq y_d y_dead] in F1, F2, F3.
  assert (UP : forall k, alist_get [] k (y_up (apply_outs sA outs)) = alist_get [] k (y_up s)).
  { intros k. rewrite apply_outs_up; [reflexivity|]. intros id sp Hin. destruct (SPID _ _ Hin) as (-> & _).
    cbn [sA set_d set_evq y_up]. apply (Hi G). lia. }
  assert (DOWN : forall k, alist_get [] k (y_down (apply_outs sA outs)) =
            if mem_nat k (y_dead s) then alist_get [] k (y_down s) else alist_get [] k (y_down s) ++ cmds_to k outs).
  { intros k. rewrite apply_outs_down; [reflexivity|]. intros id sp Hin. destruct (SPID _ _ Hin) as (-> & _).
    split; [apply OUTG; lia|]. cbn [sA set_d set_evq y_down]. apply (Hi G). lia. }
  assert (WOLD : forall k, k < G -> aget k (y_w (apply_outs sA outs)) = aget k (y_w s)).
  { intros k Hk. rewrite apply_outs_w_none; [reflexivity|]. intros sp Hin. destruct (SPID _ _ Hin) as (-> & _). lia. }
  split; [exact F1|]. split; [exact F2|]. split; [exact F3|]. split; [exact UP|]. split; [exact DOWN|]. split; [exact WOLD|].
  split.
  { intros k w Hge Hw. destruct SPW as [(A & Fno)|(A & (sp & Hin) & _)].
    { exfalso. rewrite apply_outs_w_none in Hw by (intros sp Hin; exact (Fno _ _ Hin)).
      destruct (Hi k Hge) as (F & _). cbn [sA set_d set_evq y_w] in Hw. congruence. }
    destruct (Nat.eq_dec k G) as [->|Hnk].
    2:{ exfalso. rewrite apply_outs_w_none in Hw.
        - destruct (Hi k Hge) as (F & _). cbn [sA set_d set_evq y_w] in Hw. congruence.
        - intros sp' Hin'. destruct (SPID _ _ Hin') as (-> & _). contradiction. }
    rewrite (apply_outs_spawned outs sA G) in Hw by (right; eauto). injection Hw as <-. auto. }
  split; [exact OUTG|]. split; [exact GW|].
  intros k. rewrite (sigs_head' s ev q k Eevq). unfold sigs. rewrite F1, UP. reflexivity.
Qed.

Lemma sc_nodes_assigned cs cs' : sc_assigned cs' = sc_assigned cs -> sc_nodes cs' = sc_nodes cs.
Proof. intros E. unfold sc_nodes. rewrite E. reflexivity. Qed.

(* ---- every step keeps the history invariant ---- *)
Lemma step_hinv_nc s l s' o w :
  XInvC s -> HInv s -> l <> LCtl -> sys_step c s l = Some (s', o, w) -> HInv s'.
Proof.
  intros X (B & Bhi & HB) Hl HS.
  pose proof X as [Lo Hi (cs & DJd & NIs) Eq Eu Ea Er Edead].
  destruct (dj_els c kind coll0 _ _ DJd) as (Els & J).
  unfold sys_step in HS. destruct (y_result s) eqn:Eres; [discriminate|].
  (* a worker dies: what was on its wire is lost *)
  assert (CRASH : forall n0 w0, mem_nat n0 (y_dead s) = false -> aget n0 (y_w s) = Some w0 -> HInv (crash_worker c s n0)).
  { intros n0 w0 Hd Ew. exists B. split.
    - intros m Hm. apply Bhi. destruct (crash_worker_viewx c s n0) as (_ & _ & Eg). rewrite Eg in Hm. exact Hm.
    - intros cs1 Els1 n w1 Hw. change (y_w (crash_worker c s n0)) with (y_w s) in Hw.
      destruct (crash_worker_viewx c s n0) as (_ & V & _). destruct (V cs Els) as (cs1' & E1 & Ec1 & _ & Ea1).
      assert (cs1' = cs1) by congruence. subst cs1'.
      destruct (HB cs Els n w1 Hw) as [A1 A2 A3 A4 A5 A6].
      assert (SG : sigs (crash_worker c s n0) n = sigs s n).
      { unfold sigs, crash_worker. cbn [y_evq y_up]. destruct (Nat.eq_dec n n0) as [->|Hk].
        - rewrite alist_get_aset_eq, flat_map_app. cbn. rewrite app_nil_r. reflexivity.
        - rewrite alist_get_aset_neq by exact Hk. reflexivity. }
      constructor; rewrite ?SG, ?Ec1; auto.
      + destruct A3 as (rest & E3 & R3). unfold crash_worker. cbn [y_down y_dead]. destruct (Nat.eq_dec n n0) as [->|Hk].
        * rewrite alist_get_aset_eq. exists (flat_map cmd_inds (alist_get [] n0 (y_down s)) ++ rest). split; [exact E3|].
          rewrite mem_nat_cons, Nat.eqb_refl. discriminate.
        * rewrite alist_get_aset_neq by exact Hk. exists rest. split; [exact E3|]. rewrite mem_nat_cons.
          apply Nat.eqb_neq in Hk. rewrite Hk. exact R3.
      + rewrite (sc_nodes_assigned cs cs1 Ea1). intros Hin. destruct (A4 Hin) as (krest & E4 & R4). exists krest.
        unfold keysw. rewrite Ea1. split; [exact E4|]. unfold crash_worker. cbn [y_dead]. rewrite mem_nat_cons.
        destruct (Nat.eqb n n0); [discriminate|exact R4]. }
  (* a worker step on node n0: its stream is unchanged, it says "ready" only when booting *)
  assert (WORKER : forall n0 w0 w' evs, mem_nat n0 (y_dead s) = false -> aget n0 (y_w s) = Some w0 ->
            w_stream w' = w_stream w0 ->
            (In SgReady (flat_map we_sig evs) \/ wph w' = PBoot -> wph w0 = PBoot) ->
            HInv (push_up (set_w s n0 w') n0 (map (up_of_wevent c n0) evs))).
  { intros n0 w0 w' evs Hd Ew Hst Hrd. exists B. split; [exact Bhi|].
    intros cs1 Els1 n w1 Hw. cbn [push_up set_w y_d] in Els1. assert (cs1 = cs) by congruence. subst cs1.
    cbn [push_up set_w y_w] in Hw.
    assert (SG : sigs (push_up (set_w s n0 w') n0 (map (up_of_wevent c n0) evs)) n =
                 if Nat.eqb n n0 then sigs s n0 ++ flat_map we_sig evs else sigs s n).
    { unfold sigs. cbn [push_up set_w y_evq y_up]. destruct (Nat.eqb n n0) eqn:E.
      - apply Nat.eqb_eq in E. subst n. rewrite alist_get_aset_eq, flat_map_app, up_sigs_of_wevents, app_assoc. reflexivity.
      - apply Nat.eqb_neq in E. rewrite alist_get_aset_neq by exact E. reflexivity. }
    destruct (Nat.eq_dec n n0) as [->|Hn].
    - rewrite aget_aset_eq in Hw. inv Hw. destruct (HB cs Els n0 w0 Ew) as [A1 A2 A3 A4 A5 A6].
      constructor; cbn [push_up set_w y_down y_dead]; auto.
      + rewrite Hst. exact A3.
      + rewrite SG, Nat.eqb_refl. intros [Hr|Hr]; apply A5.
        * apply in_app_or in Hr. destruct Hr as [Hr|Hr]; [left; exact Hr|right; apply Hrd; left; exact Hr].
        * right. apply Hrd. right. exact Hr.
    - rewrite aget_aset_neq in Hw by exact Hn. destruct (HB cs Els n w1 Hw) as [A1 A2 A3 A4 A5 A6].
      constructor; cbn [push_up set_w y_down y_dead]; auto.
      rewrite SG. apply Nat.eqb_neq in Hn. rewrite Hn. exact A5. }
  destruct l as [n0|n0|n0|n0| |n0].
  - (* LDeliver *)
    destruct (mem_nat n0 (y_dead s)) eqn:Hd; [discriminate|].
    destruct (aget n0 (y_down s)) as [[|cmd rest]|] eqn:Ed; try discriminate.
    destruct (aget n0 (y_w s)) as [w0|] eqn:Ew; try discriminate. inv HS.
    exists B. split; [exact Bhi|]. intros cs1 Els1 n w1 Hw. cbn [y_d] in Els1. assert (cs1 = cs) by congruence. subst cs1.
    cbn [y_w] in Hw. destruct (Nat.eq_dec n n0) as [->|Hn].
    + rewrite aget_aset_eq in Hw. inv Hw. destruct (HB cs Els n0 w0 Ew) as [A1 A2 A3 A4 A5 A6].
      destruct (deliver_owed w0 cmd) as (_ & _ & Ep & _).
      constructor; cbn [y_down y_dead]; auto.
      * destruct A3 as (rest0 & E3 & R3). exists rest0. split; [|exact R3].
        rewrite alist_get_aset_eq, deliver_stream, E3, (alist_get_some [] _ _ _ Ed). cbn [flat_map].
        rewrite <- !app_assoc. reflexivity.
    + rewrite aget_aset_neq in Hw by exact Hn. destruct (HB cs Els n w1 Hw) as [A1 A2 A3 A4 A5 A6].
      constructor; cbn [y_down y_dead]; auto. rewrite alist_get_aset_neq by exact Hn. exact A3.
  - (* LRecvW *)
    destruct (mem_nat n0 (y_dead s)) eqn:Hd; [discriminate|].
    destruct (aget n0 (y_w s)) as [w0|] eqn:Ew; try discriminate.
    destruct (negb (wcb w0)); [discriminate|].
    destruct (recv_step (c_oracle c n0) w0) as [w' evs] eqn:Es. inv HS.
    destruct (NIs n0 w0 Ew) as (Iw & Gw & NGw & D). rewrite Hd in D. destruct D as [D1 _ _ _ _ _].
    destruct (NI_recv (c_oracle c n0) _ _ _ _ _ _ _ Gw D1) as (Ev & _). rewrite Es in Ev. cbn [snd] in Ev. subst evs.
    destruct (recv_step_stream (c_oracle c n0) w0 Gw) as (Hst & _). rewrite Es in Hst. cbn [fst] in Hst.
    apply (WORKER n0 w0 w' [] Hd Ew Hst). intros [[]|Hr]. rewrite (proj1 (recv_step_facts _ _ _ _ Es)) in Hr. exact Hr.
  - (* LMain *)
    destruct (mem_nat n0 (y_dead s)) eqn:Hd; [discriminate|].
    destruct (aget n0 (y_w s)) as [w0|] eqn:Ew; try discriminate.
    destruct (dies_now c n0 w0) eqn:Edie.
    + inv HS. apply (CRASH n0 w0 Hd Ew).
    + destruct (main_step (c_oracle c n0) w0) as [[w' evs]|] eqn:Es; [|discriminate]. inv HS.
      destruct (NIs n0 w0 Ew) as (Iw & Gw & NGw & D). rewrite Hd in D. destruct D as [D1 _ _ _ _ _].
      destruct (main_step_stream _ _ _ _ Es) as (Hst & _).
      apply (WORKER n0 w0 w' evs Hd Ew Hst). apply (main_step_readyx _ _ _ _ (ni_wx _ _ _ _ _ _ _ D1) Es).
  - (* LRecv *)
    destruct (aget n0 (y_up s)) as [[|m rest]|] eqn:Eup; try discriminate.
    cbn [y_d] in HS.
    destruct (process_from_remote n0 m (y_d s)) as [[d' outs] r] eqn:Ep.
    destruct (step_recvx c kind coll0 Hpos Hrq s n0 m rest d' outs r X Eup Ep) as (-> & evs & -> & _ & DV & SGS).
    cbn [apply_outs] in HS. inv HS.
    match goal with |- HInv (close_if_dead ?sa n0) => set (sA := sa) end.
    destruct (close_if_dead_viewx sA n0) as (DV2 & E1 & E2 & E3 & E4 & E5).
    assert (DV3 : dviewx (y_d s) (y_d (close_if_dead sA n0))) by (eapply dviewx_trans; [exact DV|exact DV2]).
    destruct DV3 as (_ & V & Eg). destruct (V cs Els) as (cs1' & Ecs1 & Ec1 & _ & Ea1).
    exists B. split; [rewrite Eg; exact Bhi|]. intros cs1 Els1 n w1 Hw. assert (cs1 = cs1') by congruence. subst cs1'.
    rewrite E1 in Hw. change (y_w sA) with (y_w s) in Hw.
    apply (HNode_frame s _ cs cs1 B n w1 Ea1 Ec1).
    + rewrite E2. reflexivity.
    + rewrite E5. reflexivity.
    + unfold sigs. rewrite E3, E4. exact (SGS n).
    + exact (HB cs Els n w1 Hw).
  - (* LCtl *) contradiction.
  - (* LCrash *)
    destruct (mem_nat n0 (y_dead s)) eqn:Hd; [discriminate|].
    destruct (aget n0 (y_w s)) as [w0|] eqn:Ew; try discriminate.
    destruct (wph w0) eqn:Eph; try discriminate; inv HS; apply (CRASH n0 w0 Hd Ew).
Qed.


Lemma step_hinv_core s ev q d' outs r :
  XInvC s -> FIRSTx s -> HInv s -> y_result s = None -> y_evq s = ev :: q ->
  d_loop_once ev (y_d s) = (d', outs, r) ->
  forall rr, XInvC (set_result (apply_outs (set_d (set_evq s q) d') outs) rr) ->
             HInv (set_result (apply_outs (set_d (set_evq s q) d') outs) rr).
Proof.
  intros X HF (B & Bhi & HB) Eres Eevq El.
  pose proof X as [Lo Hi (cs & DJd & NIs) Eq Eu Ea Er Edead].
  destruct (dj_els c kind coll0 _ _ DJd) as (Els & J).
    destruct (ctl_facts s ev q d' outs r X HF Eres Eevq El)
      as (cs0 & cs' & vo & DJ0 & NIs0 & DJ2 & Eo & E & F1 & F2 & F3 & UP & DOWN & WOLD & WNEW & OUTG & GW & SIGS).
    destruct (dj_els c kind coll0 _ _ DJ0) as (Els0 & _). assert (cs0 = cs) by congruence. subst cs0.
    destruct (dj_els c kind coll0 _ _ DJ2) as (Els' & J').
    set (s1 := apply_outs (set_d (set_evq s q) d') outs) in *.
    set (G := d_next_gw (y_d s)) in *.
    destruct (hx_hist _ _ _ _ _ _ _ _ _ _ E) as (BL & HBL).
    assert (NONE : sc_coll cs' = None -> sc_coll cs = None).
    { intros Hc. destruct (sc_coll cs) as [cl|] eqn:Ec; [|reflexivity]. exfalso.
      destruct (hx_tok _ _ _ _ _ _ _ _ _ _ E) as (X1 & _); [rewrite Ec; discriminate|]. congruence. }
    assert (BLnil : sc_coll cs' = None -> forall k, BL k = []).
    { intros Hc k. destruct (HBL k) as (_ & _ & Hk & Hn).
      destruct (in_dec Nat.eq_dec k (sc_nodes cs')) as [Hin|Hni]; [|exact (Hn Hni)].
      pose proof (Hk Hin) as E0.
      assert (K0 : keysw cs' k = []).
      { unfold keysw. destruct (aget k (sc_assigned cs')) as [wk|] eqn:Ewk; [|reflexivity].
        rewrite (proj2 (sx_none _ _ _ _ _ _ J' Hc) k wk (aget_in _ _ _ Ewk)). reflexivity. }
      rewrite K0 in E0. symmetry in E0. apply app_eq_nil in E0. destruct E0 as (_ & E0).
      apply map_eq_nil in E0. exact E0. }
    (* the state after the turn, whatever its result field *)
    { intros rr X1. pose proof X1 as [_ _ (cs1 & DJ1 & NIs1) _ _ _ _ _].
      destruct (dj_els c kind coll0 _ _ DJ1) as (Els1 & _). cbn [set_result y_d] in Els1. rewrite F2 in Els1.
      assert (cs1 = cs') by congruence. subst cs1.
      exists (fun m => if mem_nat m (y_dead s) then B m else B m ++ BL m). split.
      - cbn [set_result y_d]. rewrite F2. intros m Hm.
        assert (HmG : G <= m) by lia. rewrite (Bhi m HmG).
        assert (Hnn : ~ In m (sc_nodes cs')) by (intros Hin; pose proof (sx_nodes _ _ _ _ _ _ J' m Hin); lia).
        destruct (HBL m) as (_ & _ & _ & Z). rewrite (Z Hnn). destruct (mem_nat m (y_dead s)); reflexivity.
      - cbn [set_result y_d]. rewrite F2. intros cs2 Els2 k w1 Hw. assert (cs2 = cs') by congruence. subst cs2.
        cbn [set_result y_w] in Hw. destruct (HBL k) as (Hblk & Hkb & Hkeys & Hnil).
        destruct (Nat.lt_ge_cases k G) as [Hlt|Hge].
        + (* a worker that existed before *)
          rewrite (WOLD k Hlt) in Hw. destruct (HB cs Els k w1 Hw) as [A1 A2 A3 A4 A5 A6].
          destruct (NIs k w1 Hw) as (_ & _ & _ & D).
          assert (SUBSIG : forall g, In g (sigs (set_result s1 rr) k) -> In g (sigs s k)).
          { intros g Hg. change (sigs (set_result s1 rr) k) with (sigs s1 k) in Hg. rewrite (SIGS k). apply in_or_app. right. exact Hg. }
          assert (KEYS0 : In k (sc_nodes cs') -> exists krest, keysw cs k = map fst (B k) ++ krest /\ (mem_nat k (y_dead s) = false -> krest = [])).
          { intros Hin'. destruct (hx_nodes _ _ _ _ _ _ _ _ _ _ E k Hin') as [Hin|Hev]; [exact (A4 Hin)|].
            (* the node has just become ready: nothing was ever sent to it *)
            assert (Hrd : In SgReady (sigs s k)).
            { rewrite (SIGS k). apply in_or_app. left. unfold ev_sigs_for. rewrite Hev, Nat.eqb_refl. left. reflexivity. }
            rewrite (A5 (or_introl Hrd)). exists []. split; [|reflexivity].
            destruct (in_dec Nat.eq_dec k (sc_nodes cs)) as [Hin|Hni]; [|apply keysw_none; exact Hni].
            exfalso. destruct (mem_nat k (y_dead s)).
            - destruct D as [D1 _ _]. rewrite <- (proj_nodes coll0) in Hin. destruct (nd_nodes _ _ _ _ D1 Hin) as (F & _). exact (F Hrd).
            - destruct D as [D1 _ _ _ _ _]. rewrite <- (proj_nodes coll0) in Hin. destruct (ni_nodes _ _ _ _ _ _ _ D1 Hin) as (F & _). exact (F Hrd). }
          assert (FRESH : In SgReady (sigs (set_result s1 rr) k) \/ wph w1 = PBoot -> B k = [] /\ BL k = []).
          { intros Hr. assert (Hr0 : In SgReady (sigs s k) \/ wph w1 = PBoot) by (destruct Hr as [Hr|Hr]; [left; apply SUBSIG; exact Hr|right; exact Hr]).
            split; [exact (A5 Hr0)|].
            destruct (in_dec Nat.eq_dec k (sc_nodes cs')) as [Hin|Hni]; [|exact (Hnil Hni)].
            exfalso. assert (Hw1 : aget k (y_w (set_result s1 rr)) = Some w1) by (cbn [set_result y_w]; rewrite (WOLD k Hlt); exact Hw).
            destruct (NIs1 k w1 Hw1) as (_ & _ & _ & D'). rewrite <- (proj_nodes coll0) in Hin.
            destruct (mem_nat k (y_dead (set_result s1 rr))).
            - destruct D' as [D1 _ _]. destruct (nd_nodes _ _ _ _ D1 Hin) as (Fa & Fb). destruct Hr as [Hr|Hr]; [exact (Fa Hr)|exact (Fb Hr)].
            - destruct D' as [D1 _ _ _ _ _]. destruct (ni_nodes _ _ _ _ _ _ _ D1 Hin) as (Fa & Fb). destruct Hr as [Hr|Hr]; [exact (Fa Hr)|exact (Fb Hr)]. }
          destruct (mem_nat k (y_dead s)) eqn:Hdd.
          * (* dead: nothing reaches it any more *)
            assert (A6' : sc_coll cs' = None -> B k = []) by (intros Hc; exact (A6 (NONE Hc))).
            constructor; cbn [set_result y_down y_dead]; rewrite ?F3, ?Hdd; auto.
            -- rewrite DOWN, Hdd. exact A3.
            -- intros Hin'. destruct (KEYS0 Hin') as (krest & E4 & _). exists (krest ++ map fst (BL k)).
               rewrite (Hkeys Hin'), E4, <- app_assoc. split; [reflexivity|discriminate].
            -- intros Hr. exact (proj1 (FRESH Hr)).
          * (* alive: what is sent reaches its wire *)
            destruct D as [D1 D2 D3 D4 D5 D6]. cbn [proj l_nt] in D5.
            assert (CM : cmds_to k outs = cmds_to k vo) by (rewrite Eo, cmds_to_vfilter, D5; reflexivity).
            constructor; cbn [set_result y_down y_dead]; rewrite ?F3, ?Hdd.
            -- apply Forall_app. split; [exact A1|exact Hkb].
            -- destruct (in_dec Nat.eq_dec k (sc_nodes cs')) as [Hin'|Hni'].
               ++ destruct (KEYS0 Hin') as (krest & E4 & R4). rewrite (R4 eq_refl), app_nil_r in E4.
                  rewrite map_app, <- E4, <- (Hkeys Hin'). unfold keysw.
                  destruct (aget k (sc_assigned cs')) as [wk|] eqn:Ewk; [|constructor].
                  apply (workload_keys_nodup_x kind coll0 (c_coll c) N _ cs' k wk J'). apply aget_in. exact Ewk.
               ++ rewrite (Hnil Hni'), app_nil_r. exact A2.
            -- destruct A3 as (rest0 & E3 & R3). exists []. split; [|reflexivity].
               rewrite (R3 eq_refl), app_nil_r in E3.
               rewrite DOWN, Hdd, CM, map_app, concat_app, E3, flat_map_app, <- Hblk, blocks_to_inds, app_nil_r, <- app_assoc. reflexivity.
            -- intros Hin'. destruct (KEYS0 Hin') as (krest & E4 & R4). rewrite (R4 eq_refl), app_nil_r in E4.
               exists []. rewrite (Hkeys Hin'), E4, map_app, app_nil_r. split; reflexivity.
            -- intros Hr. destruct (FRESH Hr) as (-> & ->). reflexivity.
            -- intros Hc. rewrite (A6 (NONE Hc)), (BLnil Hc k). reflexivity.
        + (* the replacement worker that has just been started *)
          destruct (WNEW k w1 Hge Hw) as (-> & -> & Egw).
          assert (HdG : mem_nat G (y_dead s) = false).
          { apply mem_nat_false. intros Hin'. specialize (Edead _ Hin'). fold G in Edead. lia. }
          assert (Hnn : ~ In G (sc_nodes cs')).
          { destruct (hx_gw _ _ _ _ _ _ _ _ _ _ E) as [Y|(_ & _ & _ & Y & _)]; [fold G in Y; lia|exact Y]. }
          destruct (Hi G (le_n G)) as (_ & UG & DG).
          constructor; cbv beta; cbn [set_result y_down y_dead]; rewrite ?F3, ?HdG, ?(Bhi G (le_n G)), ?(Hnil Hnn); cbn [app map concat].
          * constructor.
          * constructor.
          * exists []. rewrite DOWN, HdG, DG, (OUTG G (le_n G)). split; reflexivity.
          * intros Hin'. contradiction.
          * reflexivity.
          * intros _. reflexivity. }
Qed.

End HistX.

(* the collection of the run: the one the scheduler has fixed (worker 0's before that: nothing has been started then) *)
Definition run_collx (c : config) (s : sys) : list string :=
  match the_collx s with Some cl => cl | None => c_coll c 0 end.
(* the group of the test at position i of that collection *)
Definition c06_keyx (c : config) (kind : scope_kind) (s : sys) (i : nat) : string :=
  split_of kind (nth i (run_collx c s) ""%string).

Section C06X.
  Variable c : config.
  Variable kind : scope_kind.
  Notation N := (c_numnodes c).
  Notation X0 := (c_coll c).
  Hypothesis Hmode : c_mode c = MScope kind.
  Hypothesis Hnogarbled : no_garbled c.
  Hypothesis Hnodes : 0 < c_numnodes c.
  Hypothesis Hrequeue : c_requeue c = 0.

  (* before the collection is fixed no block has been handed out *)
  Lemma HInv_none coll0 s :
    XInvC c kind coll0 s -> HInv kind coll0 s -> (forall cs, d_sched (y_d s) = StC cs -> sc_coll cs = None) ->
    exists B : nat -> list (string * list nat), (forall n, B n = []) /\
      (forall m, d_next_gw (y_d s) <= m -> B m = []) /\
      forall cs, d_sched (y_d s) = StC cs -> forall n w, aget n (y_w s) = Some w -> HNode kind coll0 s cs B n w.
  Proof.
    intros X (B & Bhi & HB) Hn. exists B. split; [|split; assumption].
    intros n. destruct (Nat.lt_ge_cases n (d_next_gw (y_d s))) as [Hlt|Hge]; [|exact (Bhi n Hge)].
    pose proof X as [Lo _ (cs & DJd & _) _ _ _ _ _]. destruct (dj_els c kind coll0 _ _ DJd) as (Els & _).
    destruct (aget n (y_w s)) as [w|] eqn:Ew; [|exfalso; exact (Lo n Hlt Ew)].
    exact (hn_none _ _ _ _ _ _ _ (HB cs Els n w Ew) (Hn cs Els)).
  Qed.

  Lemma HInv_transfer coll0 coll1 s :
    XInvC c kind coll0 s -> HInv kind coll0 s -> (forall cs, d_sched (y_d s) = StC cs -> sc_coll cs = None) ->
    HInv kind coll1 s.
  Proof.
    intros X H Hn. destruct (HInv_none coll0 s X H Hn) as (B & B0 & Bhi & HB).
    exists B. split; [exact Bhi|]. intros cs Els n w Ew. destruct (HB cs Els n w Ew) as [A1 A2 A3 A4 A5 A6].
    constructor; auto. rewrite (B0 n). constructor.
  Qed.

  (* both invariants for some collection, or the state in which "no active workers" has been raised *)
  Definition GHx (s : sys) : Prop :=
    (exists coll0, XInvC c kind coll0 s /\ HInv kind coll0 s) \/
    (y_result s = Some (RError ERuntimeNoWorkers) /\
     exists coll0 s0, XInvC c kind coll0 s0 /\ HInv kind coll0 s0 /\ VE s0 s).

  Lemma step_ghx s l s' o w : GHx s -> sys_step c s l = Some (s', o, w) -> GHx s'.
  Proof.
    intros [(coll1 & X1 & H1)|(Hr & _)] HS.
    2:{ unfold sys_step in HS. rewrite Hr in HS. discriminate. }
    destruct (pickx_ok c kind coll1 s X1) as (X & HF).
    assert (H : HInv kind (pickx c coll1 s) s).
    { destruct (pickx_cases c coll1 s) as [->|Hn]; [exact H1|]. apply (HInv_transfer coll1); assumption. }
    set (coll0 := pickx c coll1 s) in *. clearbody coll0. clear X1 H1 coll1.
    destruct l as [n0|n0|n0|n0| |n0];
      try (left; exists coll0; split; [eapply step_xinvc_nc; eauto; discriminate|eapply step_hinv_nc; eauto; discriminate]).
    pose proof X as [Lo Hi (cs & DJd & NIs) Eq Eu Ea Er Edead].
    pose proof HS as HS0.
    unfold sys_step in HS. destruct (y_result s) eqn:Eres; [discriminate|].
    specialize (Ea eq_refl).
    destruct (d_active (y_d s)) as [|a0 ar] eqn:Eact; [contradiction|].
    destruct (y_evq s) as [|ev q] eqn:Eevq; [discriminate|].
    destruct (d_loop_once ev (y_d s)) as [[d' outs] r] eqn:El.
    pose proof (step_hinv_core c kind coll0 Hnodes Hrequeue s ev q d' outs r X HF H Eres Eevq El) as CORE.
    destruct (step_ctl_corex_g c kind coll0 Hnodes Hrequeue s ev q d' outs r X HF Eres Eevq El) as (-> & Hfin & XC).
    set (s1 := apply_outs (set_d (set_evq s q) d') outs) in *.
    destruct (d_session_finished d') eqn:Efin.
    - injection HS as <- _ _. left. exists coll0.
      assert (XR : XInvC c kind coll0 (set_result s1 (Some (if d_shouldstop d' then RInterrupted else RFinished)))).
      { apply XC; [intros e; destruct (d_shouldstop d'); discriminate|destruct (d_shouldstop d'); discriminate]. }
      split; [exact XR|apply CORE; exact XR].
    - destruct (d_active d') as [|b0 br] eqn:Eact'.
      + right.
        assert (Hsd : d_shuttingdown d' = false).
        { unfold d_session_finished in Efin. rewrite Eact', andb_true_r in Efin. exact Efin. }
        assert (XR : XInvC c kind coll0 (set_result s1 (Some RFinished))) by (apply XC; [intros e; discriminate|discriminate]).
        pose proof XR as [_ _ (cs' & DJ2 & _) _ _ _ _ _].
        destruct (apply_outs_frame outs (set_d (set_evq s q) d')) as (F1 & F2 & F3). cbn [set_d set_evq y_evq y_d y_dead] in F1, F2, F3.
        cbn [set_result y_d] in DJ2. fold s1 in F2. rewrite F2 in DJ2.
        destruct DJ2 as ([Els2 J2 Jb2 _ _ _ _ _ _ _ _ _] & Jss2 & _).
        assert (Hss : d_shouldstop d' = false).
        { apply not_true_false. intros F. rewrite (Jss2 F) in Hsd. discriminate. }
        assert (Hnn : s_nodes (d_sched d') = []).
        { rewrite Els2. cbn [s_nodes]. specialize (Jb2 Hss). rewrite Eact' in Jb2.
          destruct (sc_nodes cs') as [|k rr]; [reflexivity|]. exfalso. apply (Jb2 k). left. reflexivity. }
        rewrite (trigger_no_nodes d' Hsd Hnn) in HS. cbn [apply_outs] in HS. injection HS as <- _ _.
        split; [reflexivity|]. exists coll0, (set_result s1 (Some RFinished)). split; [exact XR|]. split; [apply CORE; exact XR|].
        unfold VE. cbn [set_result set_d y_d y_w y_dead y_evq y_up y_down]. rewrite F2. auto 10.
      + injection HS as <- _ _. left. exists coll0.
        assert (Er1 : y_result s1 = None).
        { unfold s1. rewrite apply_outs_result. cbn. exact Eres. }
        assert (XR : XInvC c kind coll0 (set_result s1 None)) by (apply XC; [intros e; discriminate|intros _; discriminate]).
        rewrite <- (set_result_same' s1 None Er1). split; [exact XR|apply CORE; exact XR].
  Qed.

  Theorem ghx_run ls : GHx (sys_run c ls).
  Proof.
    unfold sys_run.
    assert (G : forall s, GHx s ->
       GHx (fold_left (fun s l => match sys_step c s l with Some (s', _, _) => s' | None => s end) ls s)).
    { induction ls as [|l ls IH]; intros s Hs; cbn [fold_left]; [exact Hs|].
      apply IH. destruct (sys_step c s l) as [[[s' o] w]|] eqn:E; [|exact Hs]. eapply step_ghx; eauto. }
    apply G. left. exists (c_coll c 0). split; [apply XInvC_init; assumption|apply HInv_init; assumption].
  Qed.

  Variable ls : list label.

  Lemma ran_VE s0 s n : VE s0 s -> ran s n = ran s0 n.
  Proof. intros (A1 & _). unfold ran. rewrite A1. reflexivity. Qed.

  Lemma run_collx_VE s0 s : VE s0 s -> run_collx c s = run_collx c s0.
  Proof. intros (_ & _ & _ & _ & _ & A6 & _). unfold run_collx, the_collx. rewrite A6. reflexivity. Qed.

  (* the structure behind C06 with crashes, ANY collections: what a worker (alive or dead) has started is an
     initial part of a sequence of blocks; every block carries ONE scope key, lists positions of the
     collection in strictly increasing order, and no two blocks of one worker carry the same key.  (A block
     is the not-completed part of a work unit at the moment the unit was handed to the worker: a whole unit,
     or the remainder of a unit interrupted by the death of another worker.) *)
  Theorem scope_crash_runs_blocks : forall n w,
    aget n (y_w (sys_run c ls)) = Some w ->
    exists Bs rest,
      concat (map snd Bs) = ran (sys_run c ls) n ++ rest /\
      NoDup (map fst Bs) /\ Forall (kblock kind (run_collx c (sys_run c ls))) Bs.
  Proof.
    assert (K : forall coll0 s n w, XInvC c kind coll0 s -> HInv kind coll0 s -> aget n (y_w s) = Some w ->
              exists Bs rest, concat (map snd Bs) = ran s n ++ rest /\ NoDup (map fst Bs) /\ Forall (kblock kind (run_collx c s)) Bs).
    { intros coll0 s n w X H Ew.
      pose proof X as [_ _ (cs & DJd & NIs) _ _ _ _ _].
      destruct (dj_els c kind coll0 _ _ DJd) as (Els & J).
      destruct H as (B & _ & HB).
      destruct (HB cs Els n w Ew) as [A1 A2 (rest & E3 & _) _ _ A6].
      destruct (NIs n w Ew) as (Iw & _).
      destruct (started_prefix_popped w Iw) as (more & Em).
      exists (B n). eexists. split; [|split; [exact A2|]].
      - rewrite E3. unfold ran, ranW, w_stream. rewrite Ew, Em, <- !app_assoc. reflexivity.
      - unfold run_collx, the_collx. rewrite Els. destruct (sc_coll cs) as [cl|] eqn:Ec.
        + destruct (sx_coll _ _ _ _ _ _ J cl Ec) as (-> & _). exact A1.
        + rewrite (A6 eq_refl). constructor. }
    intros n w Ew. destruct (ghx_run ls) as [(coll0 & X & H)|(_ & coll0 & s0 & X & H & V)].
    - exact (K coll0 _ n w X H Ew).
    - pose proof V as (A1 & _). rewrite A1 in Ew. rewrite (ran_VE s0 _ n V), (run_collx_VE s0 _ V). exact (K coll0 _ n w X H Ew).
  Qed.

  Lemma kblock_kbl coll p : kblock kind coll p -> kbl (fun i => split_of kind (nth i coll ""%string)) p.
  Proof. intros (S & K). split; [exact S|]. intros i Hi. exact (proj1 (K i Hi)). Qed.

  Lemma ran_some n i p : nth_error (ran (sys_run c ls) n) p = Some i -> exists w, aget n (y_w (sys_run c ls)) = Some w.
  Proof. unfold ran, ranW. destruct (aget n (y_w (sys_run c ls))) as [w|]; [eauto|]. destruct p; discriminate. Qed.

  Notation keyx := (c06_keyx c kind (sys_run c ls)).

  (* Goal 4 (C06 with crashes), ANY collections -- together: between two tests of one group a worker runs no
     test of another group; this includes the remainder of a group that was interrupted by the death of
     another worker *)
  Theorem scope_crash_c06_group_contiguous_any_collections : forall n p q r i j k,
    p < q -> q < r ->
    nth_error (ran (sys_run c ls) n) p = Some i ->
    nth_error (ran (sys_run c ls) n) q = Some j ->
    nth_error (ran (sys_run c ls) n) r = Some k ->
    keyx i = keyx k -> keyx j = keyx i.
  Proof.
    intros n p q r i j k Hpq Hqr Hp Hq Hr E. destruct (ran_some n i p Hp) as (w & Ew).
    destruct (scope_crash_runs_blocks n w Ew) as (Bs & rest & Ec & ND & F).
    assert (Fk : Forall (kbl keyx) Bs) by (eapply Forall_impl; [|exact F]; intros a Ha; apply kblock_kbl; exact Ha).
    eapply (kbl_together keyx Bs ND Fk p q r); eauto; rewrite Ec; apply nth_error_app_l; assumption.
  Qed.

  (* in order: the tests of one group are run in collection order *)
  Theorem scope_crash_c06_group_in_collection_order_any_collections : forall n p q i j,
    p < q ->
    nth_error (ran (sys_run c ls) n) p = Some i ->
    nth_error (ran (sys_run c ls) n) q = Some j ->
    keyx i = keyx j -> i < j.
  Proof.
    intros n p q i j Hpq Hp Hq E. destruct (ran_some n i p Hp) as (w & Ew).
    destruct (scope_crash_runs_blocks n w Ew) as (Bs & rest & Ec & ND & F).
    assert (Fk : Forall (kbl keyx) Bs) by (eapply Forall_impl; [|exact F]; intros a Ha; apply kblock_kbl; exact Ha).
    eapply (kbl_in_order keyx Bs ND Fk p q); eauto; rewrite Ec; apply nth_error_app_l; assumption.
  Qed.

  (* only collected tests are started *)
  Theorem scope_crash_started_are_collected_any_collections : forall n i,
    In i (ran (sys_run c ls) n) -> i < length (run_collx c (sys_run c ls)).
  Proof.
    intros n i Hi. destruct (In_nth_error _ _ Hi) as (p & Hp). destruct (ran_some n i p Hp) as (w & Ew).
    destruct (scope_crash_runs_blocks n w Ew) as (Bs & rest & Ec & ND & F).
    apply (kbl_valid Bs i (fun x => x < length (run_collx c (sys_run c ls)))).
    - eapply Forall_impl; [|exact F]. intros a (_ & K) x Hx. exact (proj2 (K x Hx)).
    - rewrite Ec. apply in_or_app. left. exact Hi.
  Qed.

  (* "one worker per group" becomes (ANY collections): at every moment a scope key is in the work queue or in
     the workload of exactly ONE node the scheduler knows (a node leaves the scheduler when it finishes or
     when its death is handled; only then can the remainder of its groups be handed to another node) *)
  Theorem scope_crash_one_live_worker_per_group : forall cs,
    d_sched (y_d (sys_run c ls)) = StC cs -> NoDup (ukeys cs).
  Proof.
    assert (K : forall coll0 s cs, XInvC c kind coll0 s -> d_sched (y_d s) = StC cs -> NoDup (ukeys cs)).
    { intros coll0 s cs [_ _ (cs0 & DJd & _) _ _ _ _ _] Els.
      destruct (dj_els c kind coll0 _ _ DJd) as (Els0 & J). assert (cs0 = cs) by congruence. subst cs0. exact (sx_keys _ _ _ _ _ _ J). }
    intros cs Els. destruct (ghx_run ls) as [(coll0 & X & _)|(_ & coll0 & s0 & X & _ & V)].
    - exact (K coll0 _ cs X Els).
    - destruct V as (_ & _ & _ & _ & _ & A6 & _). rewrite A6 in Els. exact (K coll0 _ cs X Els).
  Qed.

  (* ---- all workers collect the same list: the statements of ScopeSystem.c06_*, for runs with crashes ---- *)
  Hypothesis Hsame : forall n, c_coll c n = c_coll c 0.

  Lemma run_collx_same : run_collx c (sys_run c ls) = c_coll c 0.
  Proof.
    pose proof (xinvc_run c kind Hmode Hnogarbled Hnodes Hsame Hrequeue ls) as [_ _ (cs & DJd & _) _ _ _ _ _].
    destruct (dj_els c kind (c_coll c 0) _ _ DJd) as (Els & J).
    unfold run_collx, the_collx. rewrite Els. destruct (sc_coll cs) as [cl|] eqn:Ec; [|reflexivity].
    destruct (sx_coll _ _ _ _ _ _ J cl Ec) as (-> & _). reflexivity.
  Qed.

  Lemma keyx_same i : keyx i = c06_key c kind i.
  Proof. unfold c06_keyx, c06_key. rewrite run_collx_same. reflexivity. Qed.

  Theorem scope_crash_c06_group_contiguous : forall n p q r i j k,
    p < q -> q < r ->
    nth_error (ran (sys_run c ls) n) p = Some i ->
    nth_error (ran (sys_run c ls) n) q = Some j ->
    nth_error (ran (sys_run c ls) n) r = Some k ->
    c06_key c kind i = c06_key c kind k -> c06_key c kind j = c06_key c kind i.
  Proof.
    intros n p q r i j k Hpq Hqr Hp Hq Hr E. rewrite <- !keyx_same in *.
    exact (scope_crash_c06_group_contiguous_any_collections n p q r i j k Hpq Hqr Hp Hq Hr E).
  Qed.

  Theorem scope_crash_c06_group_in_collection_order : forall n p q i j,
    p < q ->
    nth_error (ran (sys_run c ls) n) p = Some i ->
    nth_error (ran (sys_run c ls) n) q = Some j ->
    c06_key c kind i = c06_key c kind j -> i < j.
  Proof.
    intros n p q i j Hpq Hp Hq E. rewrite <- !keyx_same in E.
    exact (scope_crash_c06_group_in_collection_order_any_collections n p q i j Hpq Hp Hq E).
  Qed.

  Theorem scope_crash_started_are_collected : forall n i,
    In i (ran (sys_run c ls) n) -> i < length (c_coll c 0).
  Proof. intros n i Hi. rewrite <- run_collx_same. exact (scope_crash_started_are_collected_any_collections n i Hi). Qed.
End C06X.

Check scope_crash_runs_blocks.
Print Assumptions scope_crash_runs_blocks.
Check scope_crash_c06_group_contiguous_any_collections.
Print Assumptions scope_crash_c06_group_contiguous_any_collections.
Check scope_crash_c06_group_in_collection_order_any_collections.
Print Assumptions scope_crash_c06_group_in_collection_order_any_collections.
Check scope_crash_started_are_collected_any_collections.
Print Assumptions scope_crash_started_are_collected_any_collections.
Check scope_crash_one_live_worker_per_group.
Print Assumptions scope_crash_one_live_worker_per_group.
Check scope_crash_c06_group_contiguous.
Print Assumptions scope_crash_c06_group_contiguous.
Check scope_crash_c06_group_in_collection_order.
Print Assumptions scope_crash_c06_group_in_collection_order.
Check scope_crash_started_are_collected.
Print Assumptions scope_crash_started_are_collected.

(* ====================================================================================== *)
(* D.6 non-vacuity: concrete sessions with crashes, evaluated                              *)
(* ====================================================================================== *)
Open Scope string_scope.
Open Scope list_scope.
Definition csx_oracle (k : nat) : oracle :=
  {| reports_of := fun _ => [Passed]; stops_after := fun _ => false; ncollected := k; coll_reports := [] |}.
(* --dist loadfile: three files a (positions 0 1 2), b (3 4 5 6), c (7) *)
Definition csx_coll : list string := ["a::1"; "a::2"; "a::3"; "b::1"; "b::2"; "b::3"; "b::4"; "c::1"].
(* two initial workers; worker n dies when it enters test i iff crash n i *)
Definition csx_cfg (crash : nat -> nat -> bool) : config :=
  {| c_mode := MScope KFile; c_numnodes := 2; c_chunk := None; c_maxfail := 0%Z; c_max_restart := Some 4%Z;
     c_requeue := 0; c_coll := fun _ => csx_coll; c_oracle := fun _ => csx_oracle 8;
     c_dur := fun _ => 0%Z; c_crash_in := crash; c_strict := false; c_spec := fun _ => 0 |}.

Lemma csx_hyps crash :
  c_mode (csx_cfg crash) = MScope KFile /\ no_garbled (csx_cfg crash) /\ 0 < c_numnodes (csx_cfg crash) /\
  (forall n, c_coll (csx_cfg crash) n = c_coll (csx_cfg crash) 0) /\
  c_requeue (csx_cfg crash) = 0.
Proof.
  split; [reflexivity|]. split; [|split; [cbn; lia|split; reflexivity]].
  intros n i H. cbn in H. destruct H as [H|[]]. discriminate.
Qed.

(* result, dead workers, tests started per worker, ids of the replacement workers, crash reports, group counter *)
Definition csx_summary (c : config) (ls : list label) :=
  let '(s, o, _) := sys_exec c (sys_init c) ls in
  (y_result s, y_dead s, map (fun n => (n, ran s n)) (akeys (y_w s)), spawn_ids o, crx_crashes o, d_next_gw (y_d s)).
(* book; completions in flight; what the worker holds (frozen if dead); indices on its wire down; dead?; still
   active for the controller? *)
Definition csx_parts (c : config) (s : sys) (n : nat) :=
  (sbook c s n, completes (sigs s n),
   match aget n (y_w s) with Some w => owed_w w | None => [] end,
   flat_map cmd_inds (alist_get [] n (y_down s)), mem_nat n (y_dead s), mem_nat n (d_active (y_d s))).

(* (a) TWO CRASHES.  File b (the longest unit) goes to worker 0, file a to worker 1, file c stays queued.
   Worker 0 dies on entering test 4 = "b::2" (c_crash_in): 4 is never started, it is the crash item.  Worker 1
   is killed from outside (LCrash) while it runs test 1 = "a::2".  Two replacement workers 2 and 3 are
   started.  The remainder [5; 6] of file b goes to the END of the queue (behind file c) and is run by ONE
   worker (2), together and in order; the remainder [2] of file a is run by worker 3.  No test is started
   twice; the session ends as "finished". *)
Definition csx_crash04 (n i : nat) : bool := Nat.eqb n 0 && Nat.eqb i 4.
Definition csx_sched : list label := (rounds 14 crx_round ++ [LCrash 1] ++ rounds 100 crx_round)%list.

Example csx_ex_two_crashes :
  csx_summary (csx_cfg csx_crash04) csx_sched =
  (Some RFinished, [1; 0], [(0, [3]); (1, [0; 1]); (2, [7; 5; 6]); (3, [2])], [2; 3],
   [("b::2", 0); ("a::2", 1)], 4).
Proof. vm_compute. reflexivity. Qed.

(* (b) the dead-node coupling and the re-queueing at work, same session.  After 239 steps both workers are
   dead and still active for the controller: the book of worker 0 is [3; 4; 5; 6] = the completion of 3 still
   in flight ++ what the dead worker held [4; 5; 6].  Step 289 is the controller turn that handles worker 0's
   errordown: before it the queue holds file c = [7] and the book is [4; 5; 6]; after it worker 0 has no
   book, is not active any more, and the remainder [5; 6] is at the END of the queue. *)
Example csx_ex_dead_coupling :
  let c := csx_cfg csx_crash04 in
  csx_parts c (sys_run c (firstn 239 csx_sched)) 0 = ([3; 4; 5; 6], [3], [4; 5; 6], [], true, true) /\
  csx_parts c (sys_run c (firstn 239 csx_sched)) 1 = ([0; 1; 2], [0], [1; 2], [], true, true) /\
  (csx_parts c (sys_run c (firstn 289 csx_sched)) 0, poolx (sys_run c (firstn 289 csx_sched)))
    = (([4; 5; 6], [], [4; 5; 6], [], true, true), [7]) /\
  (csx_parts c (sys_run c (firstn 290 csx_sched)) 0, poolx (sys_run c (firstn 290 csx_sched)))
    = (([], [], [4; 5; 6], [], true, false), [7; 5; 6]).
Proof. vm_compute. repeat split; reflexivity. Qed.

(* (c) the accounts at the end: everything completed or reported as crashed (4 and 1) *)
Example csx_ex_accounts :
  let c := csx_cfg csx_crash04 in
  let s := sys_run c csx_sched in
  (poolx s, holdingsx s, scope_crashed_in_run c csx_sched, started s) =
  ([], [3; 0; 7; 5; 6; 2], [4; 1], [3; 0; 1; 7; 5; 6; 2]).
Proof. vm_compute. reflexivity. Qed.

(* (d) the theorems, instantiated on this session *)
Example csx_ex_theorems_apply :
  let c := csx_cfg csx_crash04 in
  let s := sys_run c csx_sched in
  ScCrashCoupled c s /\
  (forall e, y_result s <> Some (RError e)) /\
  NoDup (started s) /\
  Permutation (poolx s ++ holdingsx s ++ scope_crashed_in_run c csx_sched) (concat (blocks KFile csx_coll)) /\
  (forall n p q r i j k, p < q -> q < r -> nth_error (ran s n) p = Some i -> nth_error (ran s n) q = Some j ->
     nth_error (ran s n) r = Some k -> c06_key c KFile i = c06_key c KFile k -> c06_key c KFile j = c06_key c KFile i) /\
  (forall n p q i j, p < q -> nth_error (ran s n) p = Some i -> nth_error (ran s n) q = Some j ->
     c06_key c KFile i = c06_key c KFile j -> i < j) /\
  (* step 289 of the schedule is the controller turn that handles worker 0's errordown *)
  (let s289 := sys_run c (firstn 289 csx_sched) in
   In 0 (y_dead s289) /\
   exists wk lost i, aget 0 (y_w s289) = Some wk /\ sbook c s289 0 = owed_w wk ++ lost /\
     hd_error (owed_w wk ++ lost) = Some i /\ nth_error csx_coll i = Some "b::2").
Proof.
  cbv zeta. destruct (csx_hyps csx_crash04) as (H1 & H2 & H3 & H5 & H6).
  split; [apply (scope_crash_coupling_invariant _ _ KFile); assumption|].
  split; [apply (scope_crash_controller_never_raises _ _ KFile); assumption|].
  split; [apply (scope_crash_started_nodup _ KFile); assumption|].
  split; [apply (scope_crash_conservation _ KFile H1 H2 H3 H6 csx_sched csx_coll); vm_compute; reflexivity|].
  split; [apply (scope_crash_c06_group_contiguous _ KFile H1 H2 H3 H6 csx_sched H5)|].
  split; [apply (scope_crash_c06_group_in_collection_order _ KFile H1 H2 H3 H6 csx_sched H5)|].
  set (s := sys_run (csx_cfg csx_crash04) (firstn 289 csx_sched)).
  assert (Hin : In (OHook (HCrashReport "b::2"%string 0))
                  (match sys_step (csx_cfg csx_crash04) s LCtl with Some (_, o, _) => o | None => [] end)).
  { vm_compute. repeat (first [left; reflexivity | right]). }
  destruct (sys_step (csx_cfg csx_crash04) s LCtl) as [[[s' outs] w]|] eqn:E; [|destruct Hin].
  exact (scope_crash_report_names_running_test _ (firstn 289 csx_sched) KFile H1 H2 H3 H5 H6 LCtl s' outs w "b::2"%string 0 E Hin).
Qed.
Print Assumptions csx_ex_theorems_apply.

(* (e) the hypothesis c_requeue c = 0 is needed: LoadScopeScheduling.mark_test_pending raises
   NotImplementedError, so a plugin that re-queues the crash item (pytest_handlecrashitem) makes the
   controller's loop end with that exception at the first worker death *)
Example csx_ex_requeue_not_implemented :
  let c := {| c_mode := MScope KFile; c_numnodes := 2; c_chunk := None; c_maxfail := 0%Z; c_max_restart := Some 4%Z;
              c_requeue := 1; c_coll := fun _ => csx_coll; c_oracle := fun _ => csx_oracle 8;
              c_dur := fun _ => 0%Z; c_crash_in := csx_crash04; c_strict := false; c_spec := fun _ => 0 |} in
  y_result (sys_run c (rounds 100 crx_round)) = Some (RError ENotImpl).
Proof. vm_compute. reflexivity. Qed.

(* (f) the hypothesis "every worker collects the same list" is needed for "no exception at all" -- as for
   --dist load, RuntimeError("no active workers") IS reachable when a REPLACEMENT worker collects a different
   list: ONE worker; it dies entering test 1; its replacement (worker 1) collects a different list, so it is
   shut down instead of being given work (the difference is only logged); nobody is left while the
   remainder of file a is still in the queue, and the session is not shutting down (errordown reset the
   flag): the controller raises. *)
Example csx_ex_no_active_workers :
  let c := {| c_mode := MScope KFile; c_numnodes := 1; c_chunk := None; c_maxfail := 0%Z; c_max_restart := Some 4%Z;
              c_requeue := 0; c_coll := fun n => if Nat.eqb n 1 then ["a::1"] else csx_coll;
              c_oracle := fun _ => csx_oracle 8;
              c_dur := fun _ => 0%Z; c_crash_in := fun n i => Nat.eqb n 0 && Nat.eqb i 1; c_strict := false; c_spec := fun _ => 0 |} in
  csx_summary c (rounds 100 crx_round) =
    (Some (RError ERuntimeNoWorkers), [0], [(0, [3; 4; 5; 6; 0]); (1, [])], [1], [("a::2", 0)], 2).
Proof. vm_compute. reflexivity. Qed.

(* (g) the theorems that need NO hypothesis on the collections, instantiated on the session of (f): the
   coupling (books read against the collection the scheduler has fixed), "the only exception is
   RuntimeError(no active workers)", and "... only if the collections differ".  At the end the scheduler still
   holds the remainder [2] of file a and file c = [7] in its queue: nobody is left to run them. *)
Definition csx_cfg_diff : config :=
  {| c_mode := MScope KFile; c_numnodes := 1; c_chunk := None; c_maxfail := 0%Z; c_max_restart := Some 4%Z;
     c_requeue := 0; c_coll := fun n => if Nat.eqb n 1 then ["a::1"] else csx_coll;
     c_oracle := fun _ => csx_oracle 8;
     c_dur := fun _ => 0%Z; c_crash_in := fun n i => Nat.eqb n 0 && Nat.eqb i 1; c_strict := false; c_spec := fun _ => 0 |}.
Example csx_ex_any_collections :
  let c := csx_cfg_diff in
  let s := sys_run c (rounds 100 crx_round) in
  ScCrashCoupledX s /\
  (forall e, y_result s = Some (RError e) -> e = ERuntimeNoWorkers) /\
  ~ (forall n, c_coll c n = c_coll c 0) /\
  NoDup (started s) /\
  Permutation (poolx s ++ holdingsx s ++ scope_crashed_in_run c (rounds 100 crx_round)) (concat (blocks KFile csx_coll)) /\
  (forall n p q i j, p < q -> nth_error (ran s n) p = Some i -> nth_error (ran s n) q = Some j ->
     c06_keyx c KFile s i = c06_keyx c KFile s j -> i < j) /\
  (y_result s, the_collx s, map (sbookx s) [0; 1], poolx s, holdingsx s, scope_crashed_in_run c (rounds 100 crx_round), started s) =
    (Some (RError ERuntimeNoWorkers), Some csx_coll, [[]; []], [2; 7], [3; 4; 5; 6; 0], [1], [3; 4; 5; 6; 0]).
Proof.
  cbv zeta.
  assert (H1 : c_mode csx_cfg_diff = MScope KFile) by reflexivity.
  assert (H2 : no_garbled csx_cfg_diff).
  { intros n i H. cbn in H. destruct H as [H|[]]. discriminate. }
  assert (H3 : 0 < c_numnodes csx_cfg_diff) by (cbn; lia).
  assert (H4 : c_requeue csx_cfg_diff = 0) by reflexivity.
  split; [apply (scope_crash_coupling_invariant_any_collections _ _ KFile); assumption|].
  split; [apply (scope_crash_c17 _ _ KFile); assumption|].
  split; [apply (scope_crash_no_active_workers_needs_different_collection _ (rounds 100 crx_round) KFile H1 H2 H3 H4); vm_compute; reflexivity|].
  split; [apply (scope_crash_started_nodup _ KFile); assumption|].
  split; [apply (scope_crash_conservation _ KFile H1 H2 H3 H4 (rounds 100 crx_round) csx_coll); vm_compute; reflexivity|].
  split; [apply (scope_crash_c06_group_in_collection_order_any_collections _ KFile H1 H2 H3 H4)|].
  vm_compute. reflexivity.
Qed.

(* (h) when the INITIAL workers disagree, the scheduler never fixes a collection: it posts a failed collect
   report for the deviating worker (OCollDiff), hands out nothing, and the session ends as "finished" with no
   test run -- no exception (in particular the AssertionError of add_node_collection is not reachable) *)
Example csx_ex_initial_disagreement :
  let c := {| c_mode := MScope KFile; c_numnodes := 2; c_chunk := None; c_maxfail := 0%Z; c_max_restart := Some 4%Z;
              c_requeue := 0; c_coll := fun n => if Nat.eqb n 1 then ["a::1"] else csx_coll;
              c_oracle := fun _ => csx_oracle 8;
              c_dur := fun _ => 0%Z; c_crash_in := fun _ _ => false; c_strict := false; c_spec := fun _ => 0 |} in
  let '(s, o, _) := sys_exec c (sys_init c) (rounds 100 crx_round) in
  (y_result s, the_collx s, started s,
   filter (fun x => match x with OCollDiff _ _ | OLogDiff _ _ => true | _ => false end) o) =
  (Some RFinished, None, [], [OCollDiff 0 1]).
Proof. vm_compute. reflexivity. Qed.
Close Scope string_scope.
