(* CrashScope.v -- the scope family of schedulers (--dist loadscope / loadfile / loadgroup: mode
   [MScope kind]) and the controller (DSession) in runs WITH worker crashes and replacement workers:
   parts A-C of the crash coupling proof for the scope family (part D, the system invariant and the
   theorems, is in CrashScopeTheorems.v).  The architecture is that of CrashCoupling.v (load), the
   books are those of ScopeCoupling.v.

   Standing assumptions of this file (section variables): the scope kind, the collection coll0 that the
   scheduler fixes (or has fixed), the collection [collf n] that worker n reports (replacements included;
   the lists need NOT agree: [SAMEf collf] is a premise only of "somebody is left or the session is
   shutting down", dx_k2 / hx_fin), N initial workers.  Before the scheduler has fixed a collection
   nothing is handed out (sx_none); it fixes the list of the first registered node when the last initial
   worker has reported and all lists agree (schedule_effx; hypothesis Hfirst of handle_collfinishx and
   loop_once_okx says that this list is coll0); a node reporting another list afterwards is shut down
   and the difference only logged (add_coll_diff_effx); if the initial workers disagree no collection is
   ever fixed and the session ends with nothing run (none_coll_finished).
   Closed channels (c_strict, or a channel whose end marker has been read), any restart budget, stop
   requests, --maxfail are all covered; re-queueing of crash items by a plugin is NOT (the scope
   schedulers raise NotImplementedError in mark_test_pending: the invariant carries d_requeue = 0).

   Organisation:
     part A  books of partially completed work units; the work units that go back to the queue when a
             node is removed (mark_crashed / requeued);
     part B  the scope scheduler with closed channels, node ids below a group counter G, re-queued
             units: invariant SJx, effect of every operation on the VIRTUAL outputs (what would be sent
             if no channel were closed; relation SE0 of ScopeCoupling.v), sc_remove_node in general
             (remove_effx: crash item = first not-completed test = head of the node's book, the rest of
             the book goes to the END of the queue, the remaining nodes are rescheduled); with every
             effect also: TK (the indices sent are the not-completed tests of the units that left the
             head of the queue -- token accounting), ON (commands go to scheduled nodes only) and HX
             (what is sent to a node is one block per unit newly assigned to it -- history for C06);
     part C  the controller: invariant DJx, every handler (errordown with crash item, restart budget
             and _clone_node included), one loop iteration (loop_once_okx: it never raises; HEFFx: its
             exact effect). *)
From XV Require Import Base Worker Ctl SchedLoad SchedSteal SchedScope SchedEach Sched DSession System
  NoHook DSessionProofs WorkerProofs LoadProofs FifoProofs ExactlyOnce ScopeProofs Coupling ScopeSystem
  ScopeCoupling CrashCoupling.
From Coq Require Import Permutation Sorted.
Open Scope nat_scope.

(* ====================================================================================== *)
(* A. books of partially completed units                                                   *)
(* ====================================================================================== *)
Section BooksX.
  Variable kind : scope_kind.
  Variable coll0 : list string.

  Notation UL := (UL kind coll0).
  Notation pos := (pos_in coll0).
  Notation bookw := (bookw coll0).
  Notation undone_ixs := (undone_ixs coll0).
  Notation munit := (munit kind coll0).
  Notation munits := (munits kind coll0).

  (* a unit (possibly partly completed) is booked after the units already there: its not-completed tests *)
  Lemma bookw_assign_x w sc u :
    ~ In sc (map fst w) -> bookw (sset sc u w) = bookw w ++ undone_ixs u.
  Proof.
    intros Hn. rewrite sset_fresh by exact Hn. rewrite bookw_app. cbn [ScopeCoupling.bookw flat_map snd].
    rewrite app_nil_r. reflexivity.
  Qed.

  Lemma opt_map_index_x (u : unit_t) :
    (forall id, In id (map fst u) -> In id coll0) ->
    opt_map (fun p => index_of_str (fst p) coll0) (filter (fun p => negb (snd p)) u) = Some (undone_ixs u).
  Proof.
    intros Hin. unfold ScopeCoupling.undone_ixs, undone.
    assert (G : forall l : list (string * bool), (forall p, In p l -> In (fst p) coll0) ->
              opt_map (fun p => index_of_str (fst p) coll0) l = Some (map pos (map fst l))).
    { induction l as [|p l IH]; intros Hl; [reflexivity|]. cbn [opt_map map].
      destruct (index_of_str_some (fst p) coll0 (Hl p (or_introl eq_refl))) as (i & Ei).
      rewrite Ei. rewrite IH by (intros q Hq; apply Hl; right; exact Hq).
      f_equal. f_equal. unfold pos_in. rewrite Ei. reflexivity. }
    apply G. intros p Hp. apply filter_In in Hp. apply Hin. apply in_map. tauto.
  Qed.

  Lemma munit_keys sc u u' : munit sc u -> map fst u' = map fst u -> munit sc u'.
  Proof. intros (u0 & Hin & E) E'. exists u0. split; [exact Hin|congruence]. Qed.

  (* ---- mark_crashed: the first not-completed test of the workload is flagged ---- *)
  Lemma undone_ixs_nil u : unit_pending u = 0 -> undone_ixs u = [].
  Proof.
    unfold unit_pending, ScopeCoupling.undone_ixs, undone. intros H.
    apply length_zero_iff_nil in H. rewrite H. reflexivity.
  Qed.

  Lemma unit_pending_ixs u : unit_pending u = length (undone_ixs u).
  Proof. unfold unit_pending, ScopeCoupling.undone_ixs, undone. rewrite !map_length. reflexivity. Qed.

  Lemma bookw_nopending w : Forall (fun p => unit_pending (snd p) = 0) w -> bookw w = [].
  Proof.
    induction 1 as [|[sc u] w Hu _ IH]; [reflexivity|]. cbn [ScopeCoupling.bookw flat_map snd] in *.
    rewrite (undone_ixs_nil u Hu). exact IH.
  Qed.

  Lemma bookw_filter_pending w :
    bookw (filter (fun p => negb (unit_pending (snd p) =? 0)) w) = bookw w.
  Proof.
    induction w as [|[sc u] w IH]; [reflexivity|]. cbn [filter snd].
    destruct (unit_pending u =? 0) eqn:E; cbn [negb].
    - apply Nat.eqb_eq in E. rewrite IH. unfold ScopeCoupling.bookw. cbn [flat_map snd].
      rewrite (undone_ixs_nil u E). reflexivity.
    - unfold ScopeCoupling.bookw in *. cbn [flat_map snd]. rewrite IH. reflexivity.
  Qed.

  (* the book of the workload of a removed node: crash item first, then what is re-queued *)
  Lemma bookw_requeued w c :
    NoDup (map fst w) -> munits w -> first_undone w = Some c ->
    bookw w = pos c :: bookw (requeued w) /\ nth_error coll0 (pos c) = Some c.
  Proof.
    intros ND M Hc. destruct (mark_crashed_split w c Hc) as (w1 & sc & u & w2 & r & Ew & Hall & Hu & Hm).
    unfold requeued. rewrite bookw_filter_pending, Hm, Ew, !bookw_app.
    cbn [ScopeCoupling.bookw flat_map snd]. fold (bookw w2).
    rewrite (bookw_nopending w1 Hall). cbn [app].
    assert (Mu : munit sc u) by (apply M; rewrite Ew; apply in_or_app; right; left; reflexivity).
    unfold ScopeCoupling.undone_ixs at 2. rewrite (undone_sset_first u c r (munit_nodup kind coll0 sc u Mu) Hu).
    unfold ScopeCoupling.undone_ixs. rewrite Hu. cbn [map app]. split; [reflexivity|].
    apply (munit_id kind coll0 sc u c Mu). apply undone_in_keys. rewrite Hu. left. reflexivity.
  Qed.

  Lemma first_undone_none w : first_undone w = None -> bookw w = [].
  Proof.
    induction w as [|[sc u] w IH]; [reflexivity|]. cbn [first_undone].
    destruct (filter (fun p => negb (snd p)) u) as [|[nid b] r] eqn:E; [|discriminate].
    intros H. cbn [ScopeCoupling.bookw flat_map snd]. fold (bookw w). rewrite (IH H), app_nil_r.
    unfold ScopeCoupling.undone_ixs, undone. rewrite E. reflexivity.
  Qed.

  Lemma requeued_munits w : munits w -> munits (requeued w).
  Proof.
    intros M sc u' Hin. destruct (requeued_units w sc u' Hin) as (_ & u & Hu & Ek & _).
    eapply munit_keys; [apply (M sc u Hu)|exact Ek].
  Qed.

  Lemma requeued_keys_incl w sc : In sc (map fst (requeued w)) -> In sc (map fst w).
  Proof.
    unfold requeued. intros H. apply in_map_iff in H. destruct H as (p & <- & Hp). apply filter_In in Hp.
    destruct Hp as (Hp & _). rewrite <- (mark_crashed_keys w). apply in_map. exact Hp.
  Qed.

  Lemma requeued_keys_nodup w : NoDup (map fst w) -> NoDup (map fst (requeued w)).
  Proof. intros ND. unfold requeued. apply nodup_map_filter. rewrite mark_crashed_keys. exact ND. Qed.
End BooksX.

(* a sub-list (by filtering) of a NoDup concatenation *)
Lemma nodup_app_swap {A} (a b c : list A) : NoDup (a ++ b ++ c) -> NoDup (a ++ c ++ b).
Proof.
  intros H. eapply Permutation_NoDup; [|exact H]. apply Permutation_app_head. apply Permutation_app_comm.
Qed.

Lemma nodup_incl_sub {A} (l l' : list A) x :
  NoDup (x ++ l) -> NoDup l' -> incl l' l -> NoDup (x ++ l').
Proof.
  intros H ND Hi. apply nodup_app_intro; [eapply nodup_app_l'; eauto|exact ND|].
  intros y H1 H2. eapply WorkerProofs.nodup_app_disj; [exact H|exact H1|apply Hi; exact H2].
Qed.

(* ====================================================================================== *)
(* B. the scope scheduler, closed channels and re-queued units allowed                      *)
(* ====================================================================================== *)
Section SchedX.
  Variable kind : scope_kind.
  Variable coll0 : list string.      (* THE collection, once the scheduler has fixed it *)
  Variable collf : nat -> list string.   (* what worker n reports (replacement workers included) *)
  Variable N : nat.

  Notation UL := (UL kind coll0).
  Notation bookw := (bookw coll0).
  Notation bookn := (bookn coll0).
  Notation undone_ixs := (undone_ixs coll0).
  Notation munits := (munits kind coll0).
  Notation munit := (munit kind coll0).
  Notation SE0 := (SE0 coll0).

  (* the scheduler's invariant; node ids range below the group counter G *)
  Record SJx (G : nat) (cs : scstate) : Prop := {
    sx_a : (forall n w, In (n, w) (sc_assigned cs) -> w <> [] -> In n (akeys (sc_reg cs))) /\
           (sc_collection_is_completed cs = false -> incl (akeys (sc_reg cs)) (sc_nodes cs));
    sx_kind : sc_kind cs = kind;
    sx_num : sc_numnodes cs = N;
    sx_ntk : forall n, aget n (sc_nt cs) <> None <-> n < G;
    sx_nodes : forall n, In n (sc_nodes cs) -> n < G;
    sx_wf : NoDup (sc_nodes cs);
    sx_reg : forall n cl, In (n, cl) (sc_reg cs) -> cl = collf n /\ n < G;
    sx_regnd : NoDup (akeys (sc_reg cs));
    sx_coll : forall cl, sc_coll cs = Some cl -> cl = coll0 /\ sc_collection_is_completed cs = true /\
              forall n cl', In (n, cl') (sc_reg cs) -> cl' = coll0;
    sx_none : sc_coll cs = None -> sc_wq cs = [] /\ forall n w, In (n, w) (sc_assigned cs) -> w = [];
    sx_pool : munits (sc_wq cs);
    sx_keys : NoDup (ukeys cs);
    sx_mu : forall n w, In (n, w) (sc_assigned cs) -> munits w;
  }.

  Lemma reg_getx G cs n : SJx G cs -> sc_coll cs <> None -> In n (akeys (sc_reg cs)) -> aget n (sc_reg cs) = Some coll0.
  Proof.
    intros J Hc Hin. destruct (aget n (sc_reg cs)) as [cl|] eqn:E.
    - apply aget_in in E. destruct (sc_coll cs) as [c1|] eqn:Ec; [|contradiction].
      destruct (sx_coll _ _ J c1 Ec) as (_ & _ & X). rewrite (X n cl E). reflexivity.
    - apply aget_none_keys in E. contradiction.
  Qed.

  Lemma bookn_coll_nonex G cs n : SJx G cs -> sc_coll cs = None -> bookn cs n = [].
  Proof.
    intros J Hc. unfold ScopeCoupling.bookn. destruct (aget n (sc_assigned cs)) as [w|] eqn:E; [|reflexivity].
    apply aget_in in E. destruct (sx_none _ _ J Hc) as (_ & X). rewrite (X n w E). reflexivity.
  Qed.

  Lemma booked_registered G cs n i rest : SJx G cs -> bookn cs n = i :: rest -> In n (akeys (sc_reg cs)).
  Proof.
    intros J Hb. unfold ScopeCoupling.bookn in Hb. destruct (aget n (sc_assigned cs)) as [w|] eqn:Ew; [|discriminate].
    apply (proj1 (sx_a _ _ J) n w (aget_in _ _ _ Ew)). intros ->. discriminate.
  Qed.

  Lemma SJx_mono G G' cs :
    SJx G cs -> G <= G' -> (forall n, aget n (sc_nt cs) <> None <-> n < G') -> SJx G' cs.
  Proof.
    intros [A B C D E F Gg Hh I Jn K L M] Hle Hk. constructor; try assumption.
    - intros n Hn. specialize (E n Hn). lia.
    - intros n cl Hin. destruct (Gg n cl Hin) as (X & Y). split; [exact X|lia].
  Qed.

  (* ---- changes of the node table only ---- *)
  Lemma SJx_set_nt G cs v :
    SJx G cs -> (forall n, aget n v <> None <-> aget n (sc_nt cs) <> None) -> SJx G (sc_set_nt cs v).
  Proof.
    intros [A B C D E F Gg Hh I Jn K L M] Hk. constructor; try assumption.
    intros n. cbn [sc_set_nt sc_nt]. rewrite Hk. apply D.
  Qed.

  Lemma SE0_closed cs cs' vo : SE0 cs cs' vo -> forall m, closedb (sc_nt cs') m = closedb (sc_nt cs) m.
  Proof. intros T m. eapply NRo_closed. apply (se_nt _ _ _ _ T m). Qed.

  (* the real outputs of a scheduling step whose virtual outputs are vo *)
  Definition SEv (cs cs' : scstate) (o vo : list out) : Prop := SE0 cs cs' vo /\ o = vfilter (sc_nt cs) vo.

  Lemma SEv_refl cs : SEv cs cs [] [].
  Proof. split; [apply SE0_refl|reflexivity]. Qed.

  Lemma SEv_trans a b c o1 v1 o2 v2 : SEv a b o1 v1 -> SEv b c o2 v2 -> SEv a c (o1 ++ o2) (v1 ++ v2).
  Proof.
    intros (T1 & ->) (T2 & ->). split; [eapply SE0_trans; eauto|].
    rewrite vfilter_app. f_equal. apply vfilter_ext. apply (SE0_closed _ _ _ T1).
  Qed.

  (* the indices sent (virtually), command by command, are the not-completed tests of the units that left
     the head of the queue *)
  Definition TK (cs cs' : scstate) (vo : list out) : Prop :=
    bookw (sc_wq cs) = concat (cruns vo) ++ bookw (sc_wq cs').
  (* commands go to scheduled nodes only *)
  Definition ON (cs : scstate) (vo : list out) : Prop := forall m, ~ In m (sc_nodes cs) -> cmds_to m vo = [].

  Lemma TK_refl cs : TK cs cs [].
  Proof. reflexivity. Qed.
  Lemma TK_trans a b c v1 v2 : TK a b v1 -> TK b c v2 -> TK a c (v1 ++ v2).
  Proof. unfold TK. intros -> ->. rewrite cruns_app, concat_app, <- app_assoc. reflexivity. Qed.
  Lemma TK_quiet cs cs' vo : sc_wq cs' = sc_wq cs -> concat (cruns vo) = [] -> TK cs cs' vo.
  Proof. unfold TK. intros -> ->. reflexivity. Qed.
  Lemma ON_nil cs : ON cs [].
  Proof. intros m _. reflexivity. Qed.
  Lemma ON_app a b v1 v2 : ON a v1 -> ON b v2 -> sc_nodes b = sc_nodes a -> ON a (v1 ++ v2).
  Proof. intros H1 H2 E m Hm. rewrite cmds_to_app, (H1 m Hm), (H2 m); [reflexivity|rewrite E; exact Hm]. Qed.
  Lemma ON_one cs n vo : In n (sc_nodes cs) -> (forall m, m <> n -> cmds_to m vo = []) -> ON cs vo.
  Proof. intros Hn H m Hm. apply H. intros ->. contradiction. Qed.

  (* ---- the history of what is sent: blocks of one scope key, in collection order ---- *)
  (* a block: positions in strictly increasing order, all of the scope key it carries *)
  Definition kblock (p : string * list nat) : Prop :=
    StronglySorted lt (snd p) /\ forall i, In i (snd p) -> key kind coll0 i = fst p /\ i < length coll0.
  (* the scope keys of the units assigned to node n, in order *)
  Definition keysw (cs : scstate) (n : nat) : list string :=
    match aget n (sc_assigned cs) with Some w => map fst w | None => [] end.
  (* what a scheduling step sends to each node: one block per unit newly assigned to it, in order *)
  Definition HX (cs cs' : scstate) (vo : list out) : Prop :=
    exists BL : nat -> list (string * list nat),
      forall n, keysw cs' n = keysw cs n ++ map fst (BL n) /\ blocks_to n vo = map snd (BL n) /\ Forall kblock (BL n).

  Lemma ssorted_map_filter {A} (f : A -> nat) (g : A -> bool) l :
    StronglySorted lt (map f l) -> StronglySorted lt (map f (filter g l)).
  Proof.
    induction l as [|a l IH]; cbn; intros H; [constructor|]. inversion H as [|x xs Hs Hf]; subst.
    destruct (g a); cbn; [|apply IH; exact Hs]. constructor; [apply IH; exact Hs|].
    rewrite Forall_forall in *. intros y Hy. apply Hf. apply in_map_iff in Hy. destruct Hy as (z & <- & Hz).
    apply filter_In in Hz. apply in_map. tauto.
  Qed.

  Lemma kblock_munit sc u : munit sc u -> kblock (sc, undone_ixs u).
  Proof.
    intros M. split; cbn [fst snd].
    - pose proof M as (u0 & Hin & E). unfold ScopeCoupling.undone_ixs, undone. rewrite map_map.
      apply (ssorted_map_filter (fun p : string * bool => pos_in coll0 (fst p))).
      rewrite <- map_map, E. exact (block_sorted kind coll0 (sc, u0) Hin).
    - intros i Hi. destruct (undone_ixs_in kind coll0 sc u i M Hi) as (id & _ & _ & Hn & Hk).
      split; [|apply nth_error_Some; congruence].
      unfold key. rewrite (nth_error_nth _ _ _ Hn). exact Hk.
  Qed.

  Lemma blocks_to_app n a b : blocks_to n (a ++ b) = blocks_to n a ++ blocks_to n b.
  Proof. apply flat_map_app. Qed.

  Lemma blocks_to_nil n vo : cruns vo = [] -> blocks_to n vo = [].
  Proof.
    induction vo as [|x vo IH]; [reflexivity|]. unfold cruns, blocks_to in *. cbn [flat_map]. intros H.
    apply app_eq_nil in H. destruct H as (H1 & H2). rewrite (IH H2), app_nil_r.
    destruct x as [h|m c| |]; try reflexivity. destruct c; try reflexivity. discriminate.
  Qed.

  Lemma HX_quiet cs cs' vo : sc_assigned cs' = sc_assigned cs -> cruns vo = [] -> HX cs cs' vo.
  Proof.
    intros Ea Hc. exists (fun _ => []). intros n. unfold keysw. rewrite Ea, app_nil_r, (blocks_to_nil n vo Hc). auto.
  Qed.
  Lemma HX_refl cs : HX cs cs [].
  Proof. apply HX_quiet; reflexivity. Qed.
  Lemma HX_trans a b c v1 v2 : HX a b v1 -> HX b c v2 -> HX a c (v1 ++ v2).
  Proof.
    intros (L1 & H1) (L2 & H2). exists (fun n => L1 n ++ L2 n). intros n.
    destruct (H1 n) as (K1 & B1 & F1). destruct (H2 n) as (K2 & B2 & F2).
    rewrite K2, K1, blocks_to_app, B1, B2, !map_app, <- app_assoc.
    split; [reflexivity|]. split; [reflexivity|apply Forall_app; auto].
  Qed.
  Lemma HX_keys cs0 cs cs' vo : (forall n, keysw cs0 n = keysw cs n) -> HX cs0 cs' vo -> HX cs cs' vo.
  Proof. intros E (L & H). exists L. intros n. destruct (H n) as (K & B & F). rewrite <- E. auto. Qed.

  Lemma cruns_app2 a b : cruns (a ++ b) = cruns a ++ cruns b.
  Proof. apply flat_map_app. Qed.

  (* ---- node.shutdown() ---- *)
  Lemma sc_shutdown_effx G n cs cs' o r :
    SJx G cs -> aget n (sc_nt cs) <> None ->
    node_shutdown sc_nt sc_set_nt n cs = (cs', o, r) ->
    r = Ok tt /\ exists vo, SEv cs cs' o vo /\ SJx G cs' /\ sc_wq cs' = sc_wq cs /\ sc_assigned cs' = sc_assigned cs /\
      (forall m, m <> n -> cmds_to m vo = []) /\ (forall m, flat_map cmd_inds (cmds_to m vo) = []) /\ cruns vo = [].
  Proof.
    intros J Hn H. apply node_shutdown_cases_g in H.
    destruct H as [(F & _)|[(c & _ & _ & -> & -> & ->)|(c & En & Esd & -> & -> & ->)]].
    - contradiction.
    - split; [reflexivity|]. exists []. split; [apply SEv_refl|]. auto 10.
    - split; [reflexivity|]. exists [OSend n CShutdown].
      assert (Hs : n_sdsent c = false).
      { unfold shutting_down in Esd. apply orb_false_iff in Esd. tauto. }
      split; [split|split; [|split; [reflexivity|split; [reflexivity|split; [|split; [|reflexivity]]]]]].
      + constructor; cbn [sc_nt sc_set_nt sc_reg sc_coll sc_wq]; try reflexivity.
        * intros m. rewrite LoadProofs.aget_aset. destruct (Nat.eqb m n) eqn:E.
          -- apply Nat.eqb_eq in E. subst m. rewrite cmds_to_one_eq, En. cbn. apply NR_sd; [exact Hs|constructor].
          -- apply Nat.eqb_neq in E. rewrite cmds_to_one_neq by exact E. apply NRo_refl.
        * intros m. unfold ScopeCoupling.bookn. cbn [sc_assigned sc_set_nt]. destruct (Nat.eq_dec m n) as [->|Hm].
          -- rewrite cmds_to_one_eq. cbn. rewrite app_nil_r. reflexivity.
          -- rewrite cmds_to_one_neq by exact Hm. cbn. rewrite app_nil_r. reflexivity.
        * exists []. reflexivity.
        * repeat constructor.
      + symmetry. apply vfilter_send. exact En.
      + apply SJx_set_nt; [exact J|]. intros k. apply aget_aset_keys. congruence.
      + intros m Hm. apply cmds_to_one_neq. exact Hm.
      + intros m. destruct (Nat.eq_dec m n) as [->|Hm]; [rewrite cmds_to_one_eq|rewrite cmds_to_one_neq by exact Hm]; reflexivity.
  Qed.

  Lemma sc_mfor_shutdown_effx G l : forall cs cs' o r,
    SJx G cs -> (forall n, In n l -> aget n (sc_nt cs) <> None) ->
    mfor l (fun n => node_shutdown sc_nt sc_set_nt n) cs = (cs', o, r) ->
    r = Ok tt /\ exists vo, SEv cs cs' o vo /\ SJx G cs' /\ sc_wq cs' = sc_wq cs /\ sc_assigned cs' = sc_assigned cs /\
      (forall m, ~ In m l -> cmds_to m vo = []) /\ (forall m, flat_map cmd_inds (cmds_to m vo) = []) /\ cruns vo = [].
  Proof.
    induction l as [|n l IH]; intros cs cs' o r J Hl H; cbn [mfor] in H.
    - inv H. split; [reflexivity|]. exists []. split; [apply SEv_refl|]. auto 10.
    - apply LoadProofs.mbind_inv in H. destruct H as [(e & H1 & ->)|(s1 & o1 & a & o2 & H1 & H2 & ->)].
      + destruct (sc_shutdown_effx _ _ _ _ _ _ J (Hl n (or_introl eq_refl)) H1) as (F & _). discriminate.
      + destruct (sc_shutdown_effx _ _ _ _ _ _ J (Hl n (or_introl eq_refl)) H1) as (_ & v1 & T1 & J1 & W1 & A1 & C1 & I1 & R1).
        destruct (IH s1 cs' o2 r J1) as (-> & v2 & T2 & J2 & W2 & A2 & C2 & I2 & R2).
        * intros k Hk. apply (SE0_nt_keys _ _ _ _ k (proj1 T1)). apply Hl. right. exact Hk.
        * exact H2.
        * split; [reflexivity|]. exists (v1 ++ v2). split; [eapply SEv_trans; eauto|]. split; [exact J2|].
          split; [congruence|]. split; [congruence|]. split; [|split].
          -- intros m Hm. rewrite cmds_to_app, C1, C2; [reflexivity| |]; intros X; apply Hm; [right; exact X|left; congruence].
          -- intros m. rewrite cmds_to_app, flat_map_app, I1, I2. reflexivity.
          -- rewrite cruns_app2, R1, R2. reflexivity.
  Qed.

  (* ---- _assign_work_unit ---- *)
  Lemma assign_effx G n cs cs' o r :
    SJx G cs -> sc_wq cs <> [] -> In n (sc_nodes cs) -> In n (akeys (sc_reg cs)) ->
    (exists f, aget n (sc_nt cs) = Some f /\ n_sdsent f = false) ->
    sc_assign_work_unit n cs = (cs', o, r) ->
    r = Ok tt /\ exists vo, SEv cs cs' o vo /\ SJx G cs' /\ sc_nt cs' = sc_nt cs /\
    length (sc_wq cs) = S (length (sc_wq cs')) /\ nosd vo /\ (forall m, m <> n -> cmds_to m vo = []) /\ TK cs cs' vo /\
    HX cs cs' vo.
  Proof.
    intros J Hwq Hnode Hreg (f & Ef & Hs) H.
    unfold sc_assign_work_unit in H. rewrite mbind_get_eq in H.
    destruct (sc_wq cs) as [|[scope u] wq'] eqn:Ewq; [contradiction|].
    rewrite mbind_put_eq, mbind_get_eq in H. cbn [sc_reg sc_set_assigned sc_set_wq] in H.
    assert (Hcoll : sc_coll cs <> None).
    { intros Hc. destruct (sx_none _ _ J Hc) as (X & _). rewrite Ewq in X. discriminate. }
    rewrite (reg_getx G cs n J Hcoll Hreg) in H. cbn [of_opt] in H. rewrite mbind_ret_eq in H.
    assert (HM : munit scope u) by (apply (sx_pool _ _ J); rewrite Ewq; left; reflexivity).
    rewrite opt_map_index_x in H by (intros id Hid; apply (munit_id kind coll0 scope u id HM Hid)).
    cbn [of_opt] in H. rewrite mbind_ret_eq in H.
    apply node_send_cases in H. cbn [sc_nt sc_set_assigned sc_set_wq] in H.
    destruct H as (-> & [(F0 & _)|(f' & Ef' & -> & ->)]); [congruence|].
    assert (f' = f) by congruence. subst f'.
    destruct (aget n (sc_assigned cs)) as [cur|] eqn:Ecur.
    2:{ exfalso. apply aget_none_keys in Ecur. contradiction. }
    pose proof (sx_keys _ _ J) as NDk. unfold ukeys in NDk. rewrite Ewq in NDk. cbn [map fst] in NDk.
    assert (Hfresh : ~ In scope (map fst cur)).
    { intros Hi. inversion NDk as [|x xs Hn _]; subst. apply Hn. apply in_or_app. right.
      eapply akeys_w_in; [apply aget_in; exact Ecur|exact Hi]. }
    destruct (LoadProofs.aget_split _ _ _ _ Ecur) as (pre & post & Ea & Eset & _ & Hnpre).
    split; [reflexivity|]. exists [OSend n (CRun (undone_ixs u))].
    split; [split|split; [|split; [reflexivity|split; [reflexivity|split; [|split; [|split]]]]]].
    - constructor; cbn [sc_nt sc_set_assigned sc_set_wq sc_reg sc_coll sc_wq sc_assigned]; try reflexivity.
      + intros m. destruct (Nat.eq_dec m n) as [->|Hm].
        * rewrite cmds_to_one_eq, Ef. cbn. apply NR_run; [exact Hs|constructor].
        * rewrite cmds_to_one_neq by exact Hm. apply NRo_refl.
      + intros m. unfold ScopeCoupling.bookn. cbn [sc_assigned sc_set_assigned sc_set_wq].
        destruct (Nat.eq_dec m n) as [->|Hm].
        * rewrite cmds_to_one_eq, aget_aset_eq, Ecur. cbn [flat_map cmd_inds]. rewrite app_nil_r.
          apply bookw_assign_x; assumption.
        * rewrite cmds_to_one_neq by exact Hm. rewrite aget_aset_neq by exact Hm. cbn. rewrite app_nil_r. reflexivity.
      + unfold sc_nodes. cbn [sc_assigned sc_set_assigned sc_set_wq]. eapply akeys_aset_has; eauto.
      + exists [(scope, u)]. exact Ewq.
      + repeat constructor.
    - symmetry. apply vfilter_send. exact Ef.
    - pose proof J as [A B C D E F Gg Hh I Jn K L M].
      assert (Ek : forall v : workload, akeys (aset n v (sc_assigned cs)) = akeys (sc_assigned cs))
        by (intros v; eapply akeys_aset_has; eauto).
      constructor; cbn [sc_nt sc_set_assigned sc_set_wq sc_reg sc_coll sc_wq sc_assigned sc_kind sc_numnodes];
        try assumption.
      + split.
        * intros m w Hin Hw. apply in_aset in Hin. destruct Hin as [(-> & ->)|Hin]; [exact Hreg|].
          eapply (proj1 A); eauto.
        * intros Hc. exfalso. destruct (sc_coll cs) as [cl|] eqn:Ecl; [|contradiction].
          destruct (I cl eq_refl) as (_ & X & _). unfold sc_collection_is_completed in *.
          cbn [sc_reg sc_numnodes sc_set_assigned sc_set_wq] in Hc. congruence.
      + unfold sc_nodes. cbn [sc_assigned sc_set_assigned sc_set_wq]. intros k. rewrite Ek. apply E.
      + unfold sc_nodes. cbn [sc_assigned sc_set_assigned sc_set_wq]. rewrite Ek. exact F.
      + intros Hc. contradiction.
      + intros sc' u' Hx. apply K. rewrite Ewq. right. exact Hx.
      + unfold ukeys. cbn [sc_assigned sc_set_assigned sc_set_wq sc_wq].
        rewrite Eset, sset_fresh by exact Hfresh. rewrite Ea in NDk.
        rewrite !akeys_w_app in NDk |- *.
        change (akeys_w ((n, cur ++ [(scope, u)]) :: post)) with (map fst (cur ++ [(scope, u)]) ++ akeys_w post).
        change (akeys_w ((n, cur) :: post)) with (map fst cur ++ akeys_w post) in NDk.
        rewrite map_app. cbn [map fst].
        eapply Permutation_NoDup; [|exact NDk].
        replace (map fst wq' ++ akeys_w pre ++ ((map fst cur ++ [scope]) ++ akeys_w post))
          with ((map fst wq' ++ akeys_w pre ++ map fst cur) ++ scope :: akeys_w post)
          by (rewrite <- !app_assoc; reflexivity).
        apply Permutation_cons_app. rewrite <- !app_assoc. reflexivity.
      + intros m w Hin. apply in_aset in Hin. destruct Hin as [(-> & ->)|Hin]; [|eapply M; eauto].
        rewrite sset_fresh by exact Hfresh. intros sc' u' Hu. apply in_app_or in Hu.
        destruct Hu as [Hu|[Hu|[]]].
        * apply (M n cur (aget_in _ _ _ Ecur)). exact Hu.
        * inversion Hu; subst. exact HM.
    - intros m Hi. destruct (Nat.eq_dec m n) as [->|Hm].
      + rewrite cmds_to_one_eq in Hi. destruct Hi as [X|[]]. discriminate.
      + rewrite cmds_to_one_neq in Hi by exact Hm. destruct Hi.
    - intros m Hm. apply cmds_to_one_neq. exact Hm.
    - unfold TK. cbn [sc_wq sc_set_assigned sc_set_wq cruns flat_map concat app]. rewrite app_nil_r, Ewq.
      unfold ScopeCoupling.bookw. cbn [flat_map snd]. reflexivity.
    - exists (fun m => if Nat.eqb m n then [(scope, undone_ixs u)] else []).
      intros m. unfold keysw. cbn [sc_assigned sc_set_assigned sc_set_wq]. destruct (Nat.eqb m n) eqn:Emn.
      + apply Nat.eqb_eq in Emn. subst m. rewrite aget_aset_eq, Ecur, sset_fresh, map_app by exact Hfresh.
        split; [reflexivity|]. split; [cbn; rewrite Nat.eqb_refl; reflexivity|].
        constructor; [apply kblock_munit; exact HM|constructor].
      + apply Nat.eqb_neq in Emn. rewrite aget_aset_neq by exact Emn. rewrite app_nil_r. split; [reflexivity|]. split; [|constructor].
        cbn. apply Nat.eqb_neq in Emn. rewrite Nat.eqb_sym, Emn. reflexivity.
  Qed.

  Lemma nosd_nil : nosd [].
  Proof. intros m []. Qed.

  Lemma top_up_effx G fuel n : forall cs cs' o r,
    SJx G cs -> In n (sc_nodes cs) -> In n (akeys (sc_reg cs)) ->
    (exists f, aget n (sc_nt cs) = Some f /\ n_sdsent f = false) ->
    sc_top_up fuel n cs = (cs', o, r) ->
    r = Ok tt /\ exists vo, SEv cs cs' o vo /\ SJx G cs' /\ sc_nt cs' = sc_nt cs /\ nosd vo /\
      (forall m, m <> n -> cmds_to m vo = []) /\ TK cs cs' vo /\ HX cs cs' vo.
  Proof.
    assert (NIL : forall cs : scstate, SJx G cs -> Ok tt = Ok tt /\ exists vo, SEv cs cs [] vo /\ SJx G cs /\ sc_nt cs = sc_nt cs /\ nosd vo /\
              (forall m, m <> n -> cmds_to m vo = []) /\ TK cs cs vo /\ HX cs cs vo).
    { intros cs J. split; [reflexivity|]. exists []. split; [apply SEv_refl|]. split; [exact J|]. split; [reflexivity|].
      split; [apply nosd_nil|]. split; [reflexivity|]. split; [apply TK_refl|apply HX_refl]. }
    induction fuel as [|fuel IH]; intros cs cs' o r J Hnode Hreg Hf H; cbn [sc_top_up] in H.
    - inv H. apply NIL. exact J.
    - rewrite mbind_get_eq in H. destruct (sc_wq cs) as [|hd tl] eqn:Ewq.
      + inv H. apply NIL. exact J.
      + destruct (aget n (sc_assigned cs)) as [w|] eqn:Ew.
        2:{ exfalso. apply aget_none_keys in Ew. contradiction. }
        cbn [of_opt] in H. rewrite mbind_ret_eq in H.
        destruct (pending_of w <? 2).
        2:{ inv H. apply NIL. exact J. }
        assert (Hw : sc_wq cs <> []) by (rewrite Ewq; discriminate).
        apply LoadProofs.mbind_inv in H. destruct H as [(e & H1 & ->)|(s1 & o1 & a & o2 & H1 & H2 & ->)].
        * destruct (assign_effx _ _ _ _ _ _ J Hw Hnode Hreg Hf H1) as (F & _). discriminate.
        * destruct (assign_effx _ _ _ _ _ _ J Hw Hnode Hreg Hf H1) as (_ & v1 & T1 & J1 & N1 & _ & S1 & C1 & K1 & X1).
          destruct (IH s1 cs' o2 r J1) as (-> & v2 & T2 & J2 & N2 & S2 & C2 & K2 & X2).
          -- rewrite (se_nodes _ _ _ _ (proj1 T1)). exact Hnode.
          -- rewrite (se_reg _ _ _ _ (proj1 T1)). exact Hreg.
          -- rewrite N1. exact Hf.
          -- exact H2.
          -- split; [reflexivity|]. exists (v1 ++ v2). split; [eapply SEv_trans; eauto|]. split; [exact J2|].
             split; [congruence|]. split; [apply nosd_app; assumption|]. split; [|split; [eapply TK_trans; eauto|eapply HX_trans; eauto]].
             intros m Hm. rewrite cmds_to_app, C1, C2 by exact Hm. reflexivity.
  Qed.

  Lemma cruns_nil_of_inds vo : (forall m, flat_map cmd_inds (cmds_to m vo) = []) -> concat (cruns vo) = [].
  Proof.
    induction vo as [|x vo IH]; intros H; [reflexivity|].
    assert (H' : forall m, flat_map cmd_inds (cmds_to m vo) = []).
    { intros m. specialize (H m). cbn [cmds_to flat_map] in H. rewrite flat_map_app in H. apply app_eq_nil in H. tauto. }
    unfold cruns. cbn [flat_map]. fold (cruns vo). rewrite concat_app, (IH H'), app_nil_r.
    destruct x as [h|m c| |]; try reflexivity. destruct c as [ixs| | | |]; try reflexivity.
    specialize (H m). cbn [cmds_to flat_map cmd_to] in H. rewrite Nat.eqb_refl in H. cbn [app flat_map cmd_inds] in H.
    apply app_eq_nil in H. destruct H as (H & _). cbn. rewrite H. reflexivity.
  Qed.

  (* the effect of a rescheduling step: virtual outputs, invariant, and "a shutdown is only sent when the
     queue is empty" *)
  Definition SEx (G : nat) (cs cs' : scstate) (o : list out) : Prop :=
    exists vo, SEv cs cs' o vo /\ SJx G cs' /\ sdp cs' vo /\ TK cs cs' vo /\ ON cs vo /\ HX cs cs' vo.

  Lemma SEx_refl G cs : SJx G cs -> SEx G cs cs [].
  Proof.
    intros J. exists []. split; [apply SEv_refl|]. split; [exact J|]. split; [intros (n & [])|].
    split; [apply TK_refl|]. split; [apply ON_nil|apply HX_refl].
  Qed.

  Lemma SEx_trans G a b c o1 o2 : SEx G a b o1 -> SEx G b c o2 -> SEx G a c (o1 ++ o2).
  Proof.
    intros (v1 & T1 & J1 & P1 & K1 & O1 & X1) (v2 & T2 & J2 & P2 & K2 & O2 & X2). exists (v1 ++ v2).
    split; [eapply SEv_trans; eauto|]. split; [exact J2|].
    split; [|split; [eapply TK_trans; eauto|split; [eapply ON_app; eauto; apply (se_nodes _ _ _ _ (proj1 T1))|eapply HX_trans; eauto]]].
    intros (n & Hin). rewrite cmds_to_app in Hin. apply in_app_or in Hin. destruct Hin as [Hin|Hin].
    - assert (E : sc_wq b = []) by (apply P1; exists n; exact Hin).
      destruct (se_wq _ _ _ _ (proj1 T2)) as (m2 & D2). rewrite E in D2. symmetry in D2.
      apply app_eq_nil in D2. tauto.
    - apply P2. exists n. exact Hin.
  Qed.

  (* ---- _reschedule ---- *)
  Lemma resched_effx G n cs cs' o r :
    SJx G cs -> aget n (sc_nt cs) <> None -> In n (sc_nodes cs) ->
    sc_reschedule n cs = (cs', o, r) -> r = Ok tt /\ SEx G cs cs' o.
  Proof.
    intros J Hn Hnode H. unfold sc_reschedule in H.
    destruct (aget n (sc_nt cs)) as [f|] eqn:Ef; [|contradiction].
    rewrite (mbind_step _ _ _ _ _ (shutting_down_run n cs f Ef)) in H.
    destruct (shutting_down f) eqn:Esd.
    { inv H. split; [reflexivity|apply SEx_refl; exact J]. }
    rewrite mbind_get_eq in H.
    destruct (sc_wq cs) as [|hd tl] eqn:Ewq.
    { assert (Hk : aget n (sc_nt cs) <> None) by congruence.
      destruct (sc_shutdown_effx G _ _ _ _ _ J Hk H) as (-> & vo & T & J' & W & A & C & I & R).
      split; [reflexivity|]. exists vo. split; [exact T|]. split; [exact J'|]. split; [intros _; congruence|].
      split; [apply TK_quiet; [exact W|apply cruns_nil_of_inds; exact I]|]. split; [eapply ON_one; eauto|apply HX_quiet; assumption]. }
    destruct (ahas n (sc_reg cs)) eqn:Ereg; cbn [negb] in H.
    2:{ inv H. split; [reflexivity|apply SEx_refl; exact J]. }
    assert (Hreg : In n (akeys (sc_reg cs))).
    { unfold ahas in Ereg. apply aget_In_keys. destruct (aget n (sc_reg cs)); [discriminate|discriminate]. }
    destruct (aget n (sc_assigned cs)) as [w|] eqn:Ew.
    2:{ exfalso. apply aget_none_keys in Ew. contradiction. }
    cbn [of_opt] in H. rewrite mbind_ret_eq in H.
    destruct (2 <? pending_of w).
    { inv H. split; [reflexivity|apply SEx_refl; exact J]. }
    assert (Hs : exists f0, aget n (sc_nt cs) = Some f0 /\ n_sdsent f0 = false).
    { exists f. split; [exact Ef|]. unfold shutting_down in Esd. apply orb_false_iff in Esd. tauto. }
    assert (Hw : sc_wq cs <> []) by (rewrite Ewq; discriminate).
    apply LoadProofs.mbind_inv in H. destruct H as [(e & H1 & ->)|(s1 & o1 & a & o2 & H1 & H2 & ->)].
    - destruct (assign_effx _ _ _ _ _ _ J Hw Hnode Hreg Hs H1) as (F & _). discriminate.
    - destruct (assign_effx _ _ _ _ _ _ J Hw Hnode Hreg Hs H1) as (_ & v1 & T1 & J1 & N1 & _ & S1 & C1 & K1 & X1).
      rewrite mbind_get_eq in H2.
      destruct (top_up_effx G (length (sc_wq s1)) n s1 cs' o2 r J1) as (-> & v2 & T2 & J2 & N2 & S2 & C2 & K2 & X2).
      + rewrite (se_nodes _ _ _ _ (proj1 T1)). exact Hnode.
      + rewrite (se_reg _ _ _ _ (proj1 T1)). exact Hreg.
      + rewrite N1. exact Hs.
      + exact H2.
      + split; [reflexivity|]. exists (v1 ++ v2). split; [eapply SEv_trans; eauto|]. split; [exact J2|].
        split; [apply nosd_sdp; apply nosd_app; assumption|]. split; [eapply TK_trans; eauto|]. split; [|eapply HX_trans; eauto].
        apply (ON_one cs n); [exact Hnode|]. intros m Hm. rewrite cmds_to_app, C1, C2 by exact Hm. reflexivity.
  Qed.

  Lemma SEx_nt_keys G cs cs' o n : SEx G cs cs' o -> (aget n (sc_nt cs') <> None <-> aget n (sc_nt cs) <> None).
  Proof. intros (vo & (T & _) & _). apply (SE0_nt_keys _ _ _ _ n T). Qed.

  Lemma mfor_resched_effx G l : forall cs cs' o r,
    SJx G cs -> (forall n, In n l -> aget n (sc_nt cs) <> None /\ In n (sc_nodes cs)) ->
    mfor l sc_reschedule cs = (cs', o, r) -> r = Ok tt /\ SEx G cs cs' o.
  Proof.
    induction l as [|n l IH]; intros cs cs' o r J Hl H; cbn [mfor] in H.
    - inv H. split; [reflexivity|apply SEx_refl; exact J].
    - destruct (Hl n (or_introl eq_refl)) as (Hn & Hnode).
      apply LoadProofs.mbind_inv in H. destruct H as [(e & H1 & ->)|(s1 & o1 & a & o2 & H1 & H2 & ->)].
      + destruct (resched_effx _ _ _ _ _ _ J Hn Hnode H1) as (F & _). discriminate.
      + destruct (resched_effx _ _ _ _ _ _ J Hn Hnode H1) as (_ & T1).
        pose proof T1 as (v1 & (T1a & _) & J1 & _).
        destruct (IH s1 cs' o2 r J1) as (-> & T2).
        * intros k Hk. destruct (Hl k (or_intror Hk)) as (A & B). split.
          -- apply (SE0_nt_keys _ _ _ _ k T1a). exact A.
          -- rewrite (se_nodes _ _ _ _ T1a). exact B.
        * exact H2.
        * split; [reflexivity|eapply SEx_trans; eauto].
  Qed.

  Lemma workload_keys_nodup_x G cs n w : SJx G cs -> In (n, w) (sc_assigned cs) -> NoDup (map fst w).
  Proof.
    intros J Hin. pose proof (sx_keys _ _ J) as ND. unfold ukeys in ND. apply WorkerProofs.nodup_app_r in ND.
    apply in_split in Hin. destruct Hin as (pre & post & E). rewrite E, akeys_w_app in ND.
    apply WorkerProofs.nodup_app_r in ND. unfold akeys_w in ND. cbn [flat_map snd] in ND.
    eapply nodup_app_l'; eauto.
  Qed.

  (* ---- mark_test_complete ---- *)
  Lemma complete_effx G n i rest cs cs' o r :
    SJx G cs -> bookn cs n = i :: rest ->
    sc_mark_test_complete n i cs = (cs', o, r) ->
    r = Ok tt /\ exists cs1, SEx G cs1 cs' o /\ sc_nt cs1 = sc_nt cs /\ sc_nodes cs1 = sc_nodes cs /\
      sc_reg cs1 = sc_reg cs /\ sc_coll cs1 = sc_coll cs /\ sc_wq cs1 = sc_wq cs /\
      (forall m, bookn cs1 m = if Nat.eqb m n then rest else bookn cs m) /\
      (forall m, keysw cs1 m = keysw cs m).
  Proof.
    intros J Hb H. pose proof (booked_registered G cs n i rest J Hb) as Hreg. unfold ScopeCoupling.bookn in Hb.
    destruct (aget n (sc_assigned cs)) as [w|] eqn:Ew; [|discriminate].
    assert (Hnode : In n (sc_nodes cs)) by (eapply aget_some_in; eauto).
    assert (HnN : n < G) by (apply (sx_nodes _ _ J); exact Hnode).
    assert (Hcoll : sc_coll cs <> None).
    { intros Ec. pose proof (bookn_coll_nonex G cs n J Ec) as X. unfold ScopeCoupling.bookn in X. rewrite Ew, Hb in X. discriminate. }
    destruct (sc_coll cs) as [cl|] eqn:Ec; [|contradiction].
    destruct (sx_coll _ _ J cl Ec) as (-> & Hcomp & Hallreg).
    pose proof (workload_keys_nodup_x G cs n w J (aget_in _ _ _ Ew)) as NDw.
    pose proof (sx_mu _ _ J n w (aget_in _ _ _ Ew)) as Mw.
    assert (Hi : In i (bookw w)) by (rewrite Hb; left; reflexivity).
    destruct (bookw_in coll0 w i Hi) as (sc' & u' & Hin & Hi').
    destruct (undone_ixs_in kind coll0 sc' u' i (Mw _ _ Hin) Hi') as (id & Hud & Hp & Hnth & Hk).
    assert (Esg : sget (split_of kind id) w = Some u') by (rewrite Hk; apply sget_in_nodup; assumption).
    destruct (bookw_complete kind coll0 w i id _ u' NDw Mw Hnth Hi eq_refl Esg) as (Ebk & Hidk).
    unfold sc_mark_test_complete in H. rewrite mbind_get_eq in H.
    rewrite (reg_getx G cs n J ltac:(rewrite Ec; discriminate) Hreg) in H. cbn [of_opt] in H. rewrite mbind_ret_eq in H.
    rewrite Hnth in H. cbn [of_opt] in H. rewrite mbind_ret_eq in H. cbv zeta in H.
    rewrite Ew in H. cbn [of_opt] in H. rewrite mbind_ret_eq in H.
    rewrite (sx_kind _ _ J), Esg in H. cbn [of_opt] in H. rewrite mbind_ret_eq, mbind_put_eq in H.
    set (w' := sset (split_of kind id) (sset id true u') w) in *.
    set (cs1 := sc_set_assigned cs (aset n w' (sc_assigned cs))) in *.
    assert (Ekw : map fst w' = map fst w).
    { unfold w'. rewrite map_fst_sset. destruct (mem_str _ _) eqn:M; [reflexivity|].
      exfalso. apply mem_str_false_not_in in M. apply M.
      rewrite Hk. change sc' with (fst (sc', u')). apply in_map. exact Hin. }
    assert (Ek : forall v : workload, akeys (aset n v (sc_assigned cs)) = akeys (sc_assigned cs))
      by (intros v; eapply akeys_aset_has; eauto).
    assert (J1 : SJx G cs1).
    { pose proof J as [A B C D E F Gg Hh I Jn K L M]. subst cs1.
      constructor; cbn [sc_nt sc_set_assigned sc_reg sc_coll sc_wq sc_assigned sc_kind sc_numnodes]; try assumption.
      - split.
        + intros m wm Hm Hw. apply in_aset in Hm. destruct Hm as [(-> & ->)|Hm]; [exact Hreg|eapply (proj1 A); eauto].
        + intros Hc. exfalso. unfold sc_collection_is_completed in *. cbn [sc_reg sc_numnodes sc_set_assigned] in Hc. congruence.
      - unfold sc_nodes. cbn [sc_assigned sc_set_assigned]. intros k. rewrite Ek. apply E.
      - unfold sc_nodes. cbn [sc_assigned sc_set_assigned]. rewrite Ek. exact F.
      - rewrite Ec. discriminate.
      - unfold ukeys. cbn [sc_assigned sc_set_assigned sc_wq]. rewrite (akeys_w_aset_same (sc_assigned cs) n w _ Ew); [exact L|exact Ekw].
      - intros m wm Hm. apply in_aset in Hm. destruct Hm as [(-> & ->)|Hm]; [|eapply M; eauto].
        intros sc u Hu. unfold w' in Hu. apply in_sset in Hu. destruct Hu as [(-> & ->)|Hu]; [|apply (Mw _ _ Hu)].
        apply munit_sset; [|exact Hidk]. rewrite Hk. apply (Mw _ _ Hin). }
    assert (Hn1 : aget n (sc_nt cs1) <> None) by (apply (sx_ntk _ _ J1); exact HnN).
    assert (Hnode1 : In n (sc_nodes cs1)).
    { subst cs1. unfold sc_nodes. cbn [sc_assigned sc_set_assigned]. rewrite Ek. exact Hnode. }
    destruct (resched_effx G n cs1 cs' o r J1 Hn1 Hnode1 H) as (-> & T).
    split; [reflexivity|]. exists cs1. split; [exact T|]. subst cs1.
    cbn [sc_nt sc_set_assigned sc_reg sc_coll sc_wq].
    split; [reflexivity|]. split; [unfold sc_nodes; cbn [sc_assigned sc_set_assigned]; apply Ek|].
    split; [reflexivity|]. split; [first [reflexivity|assumption]|]. split; [reflexivity|]. split.
    - intros m. unfold ScopeCoupling.bookn. cbn [sc_assigned sc_set_assigned]. destruct (Nat.eqb m n) eqn:E.
      + apply Nat.eqb_eq in E. subst m. rewrite aget_aset_eq. rewrite Ebk, Hb.
        apply filter_neq_head. rewrite <- Hb. apply (bookw_nodup kind coll0); assumption.
      + apply Nat.eqb_neq in E. rewrite aget_aset_neq by exact E. reflexivity.
    - intros m. unfold keysw. cbn [sc_assigned sc_set_assigned]. destruct (Nat.eq_dec m n) as [->|Hm].
      + rewrite aget_aset_eq, Ew. exact Ekw.
      + rewrite aget_aset_neq by exact Hm. reflexivity.
  Qed.

  (* ---- add_node ---- *)
  Lemma add_node_effx G n cs cs' o r :
    SJx G cs -> n < G -> ~ In n (sc_nodes cs) ->
    sc_add_node n cs = (cs', o, r) ->
    r = Ok tt /\ o = [] /\ SJx G cs' /\ sc_nt cs' = sc_nt cs /\ sc_nodes cs' = sc_nodes cs ++ [n] /\
    sc_reg cs' = sc_reg cs /\ sc_coll cs' = sc_coll cs /\ sc_wq cs' = sc_wq cs /\
    (forall m, bookn cs' m = bookn cs m) /\ (forall m, keysw cs' m = keysw cs m).
  Proof.
    intros J HnN Hni H. unfold sc_add_node in H. rewrite mbind_get_eq in H.
    assert (Ea : aget n (sc_assigned cs) = None) by (apply aget_none_keys; exact Hni).
    unfold ahas in H. rewrite Ea in H. cbn [negb massert] in H. rewrite mbind_ret_eq in H.
    rewrite (aset_absent n [] (sc_assigned cs) Hni) in H. inv H.
    split; [reflexivity|]. split; [reflexivity|].
    assert (Ek : sc_nodes (sc_set_assigned cs (sc_assigned cs ++ [(n, [])])) = sc_nodes cs ++ [n]).
    { unfold sc_nodes. cbn [sc_assigned sc_set_assigned]. rewrite akeys_app. reflexivity. }
    split; [|split; [reflexivity|split; [exact Ek|split; [reflexivity|split; [reflexivity|split; [reflexivity|]]]]]].
    - pose proof J as [A B C D E F Gg Hh I Jn K L M].
      constructor; cbn [sc_nt sc_set_assigned sc_reg sc_coll sc_wq sc_assigned sc_kind sc_numnodes]; try assumption.
      + split.
        * intros k w Hin Hw. apply in_app_or in Hin. destruct Hin as [Hin|[Hin|[]]]; [eapply (proj1 A); eauto|].
          inversion Hin; subst. contradiction.
        * intros Hc k Hk. unfold sc_nodes. cbn [sc_assigned sc_set_assigned]. rewrite akeys_app. apply in_or_app. left. apply (proj2 A Hc). exact Hk.
      + intros k Hk. unfold sc_nodes in Hk. cbn [sc_assigned sc_set_assigned] in Hk. rewrite akeys_app in Hk.
        apply in_app_or in Hk. destruct Hk as [Hk|[<-|[]]]; [apply E; exact Hk|exact HnN].
      + unfold sc_nodes. cbn [sc_assigned sc_set_assigned]. rewrite akeys_app.
        apply Permutation_NoDup with (l := n :: sc_nodes cs); [apply Permutation_cons_append|].
        constructor; assumption.
      + intros Hc. destruct (Jn Hc) as (X & Y). split; [exact X|]. intros k w Hin. apply in_app_or in Hin.
        destruct Hin as [Hin|[Hin|[]]]; [eapply Y; eauto|]. inversion Hin. reflexivity.
      + unfold ukeys. cbn [sc_assigned sc_set_assigned sc_wq]. rewrite akeys_w_app. unfold akeys_w at 2. cbn.
        rewrite app_nil_r. exact L.
      + intros k w Hin. apply in_app_or in Hin. destruct Hin as [Hin|[Hin|[]]]; [eapply M; eauto|].
        inversion Hin; subst. intros sc u [].
    - assert (AG : forall m, aget m (sc_assigned cs ++ [(n, ([] : workload))]) =
                              match aget m (sc_assigned cs) with Some w => Some w | None => if Nat.eqb m n then Some [] else None end).
      { intros m. destruct (aget m (sc_assigned cs)) as [w|] eqn:Em.
        - destruct (LoadProofs.aget_split _ _ _ _ Em) as (pre & post & E & _ & _ & Hnp).
          rewrite E, <- app_assoc. rewrite aget_app_notin by exact Hnp. cbn. rewrite Nat.eqb_refl. reflexivity.
        - apply aget_none_keys in Em. rewrite aget_app_notin by exact Em. cbn. destruct (Nat.eqb m n); reflexivity. }
      split.
      + intros m. unfold ScopeCoupling.bookn. cbn [sc_assigned sc_set_assigned]. rewrite AG.
        destruct (aget m (sc_assigned cs)); [reflexivity|]. destruct (Nat.eqb m n); reflexivity.
      + intros m. unfold keysw. cbn [sc_assigned sc_set_assigned]. rewrite AG.
        destruct (aget m (sc_assigned cs)); [reflexivity|]. destruct (Nat.eqb m n); reflexivity.
  Qed.

  (* ---- add_node_collection: a node that is not registered yet reports its collection.  Either the
          initial collection is not complete yet (any collection is registered), or the node is a late one
          (a replacement): the official collection, which is not empty, is compared with its own; here they
          are equal ---- *)
  Lemma add_coll_effx G n cs cs' o r :
    SJx G cs -> In n (sc_nodes cs) -> ~ In n (akeys (sc_reg cs)) ->
    (sc_collection_is_completed cs = true -> sc_coll cs <> None /\ coll0 <> [] /\ collf n = coll0) ->
    sc_add_node_collection n (collf n) cs = (cs', o, r) ->
    r = Ok tt /\ o = [] /\ SJx G cs' /\ cs' = sc_set_reg cs (sc_reg cs ++ [(n, collf n)]).
  Proof.
    intros J Hnode Hni Hcomp H. unfold sc_add_node_collection in H. rewrite mbind_get_eq in H.
    assert (HnN : n < G) by (apply (sx_nodes _ _ J); exact Hnode).
    assert (Ea : ahas n (sc_assigned cs) = true).
    { unfold ahas. destruct (aget n (sc_assigned cs)) eqn:E; [reflexivity|]. apply aget_none_keys in E. contradiction. }
    rewrite Ea in H. cbn [massert] in H. rewrite mbind_ret_eq in H.
    assert (H' : (sc_set_reg cs (sc_reg cs ++ [(n, collf n)]), @nil out, @Ok unit tt) = (cs', o, r)).
    { rewrite <- (aset_absent n (collf n) (sc_reg cs) Hni).
      destruct (sc_collection_is_completed cs) eqn:Ecc; [|exact H].
      destruct (Hcomp eq_refl) as (Hc & Hne0 & Eid).
      destruct (sc_coll cs) as [cl|] eqn:Ec; [|contradiction].
      destruct (sx_coll _ _ J cl Ec) as (-> & _). rewrite Eid in *.
      destruct coll0 as [|c0 cr] eqn:Ecl; [contradiction|]. rewrite coll_eqb_refl in H. exact H. }
    clear H. inv H'.
    split; [reflexivity|]. split; [reflexivity|]. split; [|reflexivity].
    pose proof J as [A B C D E F Gg Hh I Jn K L M].
    assert (Ecomp : sc_collection_is_completed cs = true ->
                    sc_collection_is_completed (sc_set_reg cs (sc_reg cs ++ [(n, collf n)])) = true).
    { unfold sc_collection_is_completed. cbn [sc_set_reg sc_reg sc_numnodes]. rewrite app_length. cbn.
      intros X. apply Nat.leb_le in X. apply Nat.leb_le. lia. }
    constructor; cbn [sc_nt sc_set_reg sc_reg sc_coll sc_wq sc_assigned sc_kind sc_numnodes]; try assumption.
    - split.
      + intros k w Hin Hw. rewrite akeys_app. apply in_or_app. left. eapply (proj1 A); eauto.
      + intros Hc k Hk. rewrite akeys_app in Hk. apply in_app_or in Hk.
        destruct Hk as [Hk|[<-|[]]]; [|exact Hnode]. apply (proj2 A); [|exact Hk].
        destruct (sc_collection_is_completed cs) eqn:Ecc; [|reflexivity]. rewrite (Ecomp eq_refl) in Hc. discriminate.
    - intros k cl Hin. apply in_app_or in Hin. destruct Hin as [Hin|[Hin|[]]]; [eapply Gg; eauto|].
      inversion Hin; subst. auto.
    - rewrite akeys_app. cbn [akeys map fst].
      apply Permutation_NoDup with (l := n :: akeys (sc_reg cs)); [apply Permutation_cons_append|].
      constructor; assumption.
    - intros cl Hc. destruct (I cl Hc) as (X & Y & Z). split; [exact X|]. split; [apply Ecomp; exact Y|].
      intros k cl' Hin. apply in_app_or in Hin. destruct Hin as [Hin|[Hin|[]]]; [eapply Z; eauto|].
      inversion Hin; subst. apply (Hcomp Y).
  Qed.

  (* a late node whose collection differs from THE collection: the difference is logged, the node is shut
     down and not registered *)
  Lemma add_coll_diff_effx G n cs cs' o r :
    SJx G cs -> In n (sc_nodes cs) -> 0 < N ->
    sc_collection_is_completed cs = true -> sc_coll cs <> None -> coll0 <> [] -> coll_eqb (collf n) coll0 = false ->
    sc_add_node_collection n (collf n) cs = (cs', o, r) ->
    r = Ok tt /\ exists other vo, o = OLogDiff other n :: vfilter (sc_nt cs) vo /\ SE0 cs cs' vo /\ SJx G cs' /\
      sc_wq cs' = sc_wq cs /\ sc_assigned cs' = sc_assigned cs /\
      (forall m, m <> n -> cmds_to m vo = []) /\ (forall m, flat_map cmd_inds (cmds_to m vo) = []) /\ cruns vo = [].
  Proof.
    intros J Hnode Hpos Hcomp Hc Hne0 Hdiff H. unfold sc_add_node_collection in H. rewrite mbind_get_eq in H.
    assert (Ea : ahas n (sc_assigned cs) = true).
    { unfold ahas. destruct (aget n (sc_assigned cs)) eqn:E; [reflexivity|]. apply aget_none_keys in E. contradiction. }
    rewrite Ea in H. cbn [massert] in H. rewrite mbind_ret_eq, Hcomp in H.
    destruct (sc_coll cs) as [cl|] eqn:Ec; [|contradiction].
    destruct (sx_coll _ _ J cl Ec) as (-> & _).
    assert (Hex : exists c0 cr, coll0 = c0 :: cr) by (destruct coll0; [contradiction|eauto]).
    destruct Hex as (c0 & cr & E0). rewrite E0 in H, Hdiff. rewrite Hdiff in H.
    destruct (sc_reg cs) as [|[k0 c] others] eqn:Er.
    { exfalso. unfold sc_collection_is_completed in Hcomp. rewrite Er, (sx_num _ _ J) in Hcomp. cbn in Hcomp.
      apply Nat.leb_le in Hcomp. lia. }
    unfold first_key in H. cbn [of_opt] in H. rewrite mbind_ret_eq, mbind_emit_eq in H.
    destruct (node_shutdown sc_nt sc_set_nt n cs) as [[cs2 o2] r2] eqn:En. inv H.
    assert (Hk : aget n (sc_nt cs) <> None) by (apply (sx_ntk _ _ J), (sx_nodes _ _ J); exact Hnode).
    destruct (sc_shutdown_effx G _ _ _ _ _ J Hk En) as (-> & vo & (T & ->) & J' & W & A & C & I & R).
    split; [reflexivity|]. exists k0, vo. split; [reflexivity|]. split; [exact T|]. split; [exact J'|].
    split; [exact W|]. split; [exact A|]. split; [exact C|]. split; [exact I|exact R].
  Qed.

  (* ---- remove_node ---- *)
  Lemma nodup_replace_mid {A} (a w b add : list A) :
    NoDup (a ++ w ++ b) -> NoDup add -> incl add w -> NoDup (a ++ add ++ b).
  Proof.
    intros H ND Hi.
    assert (H1 : NoDup ((a ++ b) ++ w)).
    { eapply Permutation_NoDup; [|exact H]. rewrite <- app_assoc. apply Permutation_app_head. apply Permutation_app_comm. }
    pose proof (nodup_incl_sub w add (a ++ b) H1 ND Hi) as H2.
    eapply Permutation_NoDup; [|exact H2]. rewrite <- app_assoc. apply Permutation_app_head. apply Permutation_app_comm.
  Qed.

  Lemma akeys_adel_in {V} n k (m : amap V) : In k (akeys m) -> k <> n -> In k (akeys (adel n m)).
  Proof.
    intros Hk Hkn. apply aget_In_keys. rewrite aget_adel_other by exact Hkn. apply aget_In_keys. exact Hk.
  Qed.

  Lemma completed_reg_le cs cs1 :
    sc_numnodes cs1 = sc_numnodes cs -> NoDup (akeys (sc_reg cs1)) -> incl (akeys (sc_reg cs1)) (akeys (sc_reg cs)) ->
    sc_collection_is_completed cs1 = true -> sc_collection_is_completed cs = true.
  Proof.
    intros En ND Hi C1. unfold sc_collection_is_completed in *. rewrite En in C1.
    apply Nat.leb_le in C1. apply Nat.leb_le.
    assert (Hl : length (sc_reg cs1) <= length (sc_reg cs)).
    { rewrite <- !akeys_length. apply NoDup_incl_length; assumption. }
    lia.
  Qed.

  (* the state after node n has left and the units [add] (part of n's workload) have gone back to the queue *)
  Lemma SJx_removed G cs cs1 n w add :
    SJx G cs -> aget n (sc_assigned cs) = Some w ->
    munits add -> NoDup (map fst add) -> incl (map fst add) (map fst w) ->
    (add <> [] -> sc_coll cs <> None) ->
    sc_nt cs1 = sc_nt cs -> sc_kind cs1 = sc_kind cs -> sc_numnodes cs1 = sc_numnodes cs -> sc_coll cs1 = sc_coll cs ->
    sc_assigned cs1 = adel n (sc_assigned cs) -> sc_wq cs1 = sc_wq cs ++ add ->
    sc_reg cs1 = (if sc_collection_is_completed cs then sc_reg cs else adel n (sc_reg cs)) ->
    SJx G cs1.
  Proof.
    intros J Ew Madd NDadd Hincl Hcadd Ent Ekd Enum Ecoll Eas Ewq Ereg.
    pose proof J as [A B C D E F Gg Hh I Jn K L M].
    destruct (LoadProofs.aget_split _ _ _ _ Ew) as (pre & post & Ea & _ & Edel & Hnp).
    assert (Hsub : forall k wk, In (k, wk) (sc_assigned cs1) -> In (k, wk) (sc_assigned cs)).
    { intros k wk Hin. rewrite Eas in Hin. eapply in_adel; eauto. }
    assert (Hkn : forall k, In k (sc_nodes cs1) -> In k (sc_nodes cs) /\ k <> n).
    { intros k Hk. unfold sc_nodes in *. rewrite Eas in Hk. apply akeys_adel_neq; [exact F|exact Hk]. }
    assert (Hregi : incl (akeys (sc_reg cs1)) (akeys (sc_reg cs))).
    { rewrite Ereg. destruct (sc_collection_is_completed cs); [apply incl_refl|]. intros k Hk. eapply akeys_adel_incl; eauto. }
    assert (Hregnd : NoDup (akeys (sc_reg cs1))).
    { rewrite Ereg. destruct (sc_collection_is_completed cs); [exact Hh|apply akeys_adel_nodup; exact Hh]. }
    constructor.
    - split.
      + intros k wk Hin Hw. pose proof (Hsub k wk Hin) as Hin0.
        destruct (sc_collection_is_completed cs) eqn:Ecc.
        * rewrite Ereg. eapply (proj1 A); eauto.
        * exfalso. destruct (sc_coll cs) as [cl|] eqn:Ecl.
          -- destruct (I cl eq_refl) as (_ & X & _). congruence.
          -- destruct (Jn eq_refl) as (_ & Y). apply Hw. eapply Y; eauto.
      + intros Hc k Hk.
        destruct (sc_collection_is_completed cs) eqn:Ecc.
        * exfalso. unfold sc_collection_is_completed in Hc, Ecc. rewrite Ereg, Enum in Hc. congruence.
        * rewrite Ereg in Hk. destruct (akeys_adel_neq n (sc_reg cs) k Hh Hk) as (Hk1 & Hk2).
          unfold sc_nodes. rewrite Eas. apply akeys_adel_in; [|exact Hk2]. apply (proj2 A eq_refl). exact Hk1.
    - rewrite Ekd. exact B.
    - rewrite Enum. exact C.
    - intros k. rewrite Ent. apply D.
    - intros k Hk. apply E. apply Hkn. exact Hk.
    - unfold sc_nodes. rewrite Eas. apply akeys_adel_nodup. exact F.
    - intros k cl Hin. apply (Gg k cl). rewrite Ereg in Hin.
      destruct (sc_collection_is_completed cs); [exact Hin|eapply in_adel; eauto].
    - exact Hregnd.
    - intros cl Hc. rewrite Ecoll in Hc. destruct (I cl Hc) as (X & Y & Z). split; [exact X|]. split.
      + unfold sc_collection_is_completed in *. rewrite Ereg, Enum, Y. exact Y.
      + intros k cl' Hin. rewrite Ereg, Y in Hin. eapply Z; eauto.
    - intros Hc. rewrite Ecoll in Hc. destruct (Jn Hc) as (X & Y). split.
      + rewrite Ewq, X. destruct add as [|a add']; [reflexivity|]. exfalso. apply Hcadd; [discriminate|exact Hc].
      + intros k wk Hin. eapply Y; eauto.
    - rewrite Ewq. intros sc u Hu. apply in_app_or in Hu. destruct Hu as [Hu|Hu]; [apply (K sc u Hu)|apply (Madd sc u Hu)].
    - unfold ukeys in *. rewrite Ewq, Eas, Edel, map_app. rewrite Ea in L. rewrite !akeys_w_app in *.
      change (akeys_w ((n, w) :: post)) with (map fst w ++ akeys_w post) in L.
      assert (L1 : NoDup ((map fst (sc_wq cs) ++ akeys_w pre) ++ map fst add ++ akeys_w post)).
      { apply (nodup_replace_mid _ (map fst w)); [rewrite <- app_assoc; exact L|exact NDadd|exact Hincl]. }
      eapply Permutation_NoDup; [|exact L1]. rewrite <- !app_assoc. apply Permutation_app_head.
      rewrite !app_assoc. apply Permutation_app_tail. apply Permutation_app_comm.
    - intros k wk Hin. eapply M; eauto.
  Qed.

  Lemma bookn_adel cs cs1 n :
    NoDup (sc_nodes cs) -> sc_assigned cs1 = adel n (sc_assigned cs) ->
    forall m, bookn cs1 m = if Nat.eqb m n then [] else bookn cs m.
  Proof.
    intros ND Eas m. unfold ScopeCoupling.bookn. rewrite Eas. destruct (Nat.eqb m n) eqn:E.
    - apply Nat.eqb_eq in E. subst m. rewrite (aget_adel_same n _ ND). reflexivity.
    - apply Nat.eqb_neq in E. rewrite aget_adel_other by exact E. reflexivity.
  Qed.

  (* remove_node in general: the crash item is the first not-completed test of the node's workload
     (the head of its book); the rest of its book goes to the END of the queue; the remaining nodes are
     rescheduled.  cs1 is the state before the rescheduling. *)
  Lemma remove_effx G n cs cs' o r :
    SJx G cs -> In n (sc_nodes cs) ->
    sc_remove_node n cs = (cs', o, r) ->
    exists cs1,
      SEx G cs1 cs' o /\ SJx G cs1 /\
      sc_nt cs1 = sc_nt cs /\ sc_assigned cs1 = adel n (sc_assigned cs) /\ sc_coll cs1 = sc_coll cs /\
      sc_reg cs1 = (if sc_collection_is_completed cs then sc_reg cs else adel n (sc_reg cs)) /\
      (forall m, bookn cs1 m = if Nat.eqb m n then [] else bookn cs m) /\
      ((bookn cs n = [] /\ r = Ok None /\ sc_wq cs1 = sc_wq cs /\ cs' = cs1 /\ o = []) \/
       (exists c rest add, bookn cs n = pos_in coll0 c :: rest /\ nth_error coll0 (pos_in coll0 c) = Some c /\ r = Ok (Some c) /\
          sc_wq cs1 = sc_wq cs ++ add /\ bookw add = rest)).
  Proof.
    intros J Hnode H.
    destruct (aget n (sc_assigned cs)) as [w|] eqn:Ew.
    2:{ exfalso. apply aget_none_keys in Ew. contradiction. }
    assert (Hbn : bookn cs n = bookw w) by (unfold ScopeCoupling.bookn; rewrite Ew; reflexivity).
    pose proof (workload_keys_nodup_x G cs n w J (aget_in _ _ _ Ew)) as NDw.
    pose proof (sx_mu _ _ J n w (aget_in _ _ _ Ew)) as Mw.
    destruct (pending_of w =? 0) eqn:Ep.
    - (* nothing pending: the node just leaves *)
      apply Nat.eqb_eq in Ep.
      assert (Eb : bookw w = []) by (apply length_zero_iff_nil; rewrite <- (pending_of_book coll0); exact Ep).
      unfold sc_remove_node in H. rewrite mbind_get_eq, Ew in H. cbn [of_opt] in H.
      rewrite mbind_ret_eq, mbind_put_eq in H.
      set (sA := sc_set_assigned cs (adel n (sc_assigned cs))) in *.
      set (sB := if sc_collection_is_completed sA then sA else sc_set_reg sA (adel n (sc_reg sA))).
      rewrite mbind_step with (s1 := sB) (a := tt) in H.
      2:{ rewrite mbind_get_eq. subst sB. destruct (sc_collection_is_completed sA); reflexivity. }
      rewrite Ep in H. cbn [Nat.eqb] in H. inv H.
      assert (Ecomp : sc_collection_is_completed sA = sc_collection_is_completed cs) by reflexivity.
      assert (JB : SJx G sB).
      { apply (SJx_removed G cs sB n w [] J Ew).
        - intros sc u [].
        - constructor.
        - intros x [].
        - intros F. contradiction.
        - subst sB. destruct (sc_collection_is_completed sA); reflexivity.
        - subst sB. destruct (sc_collection_is_completed sA); reflexivity.
        - subst sB. destruct (sc_collection_is_completed sA); reflexivity.
        - subst sB. destruct (sc_collection_is_completed sA); reflexivity.
        - subst sB. destruct (sc_collection_is_completed sA); reflexivity.
        - subst sB. rewrite app_nil_r. destruct (sc_collection_is_completed sA); reflexivity.
        - subst sB. rewrite Ecomp. destruct (sc_collection_is_completed cs); reflexivity. }
      exists sB. split; [apply SEx_refl; exact JB|]. split; [exact JB|].
      assert (Eas : sc_assigned sB = adel n (sc_assigned cs)) by (subst sB; destruct (sc_collection_is_completed sA); reflexivity).
      split; [subst sB; destruct (sc_collection_is_completed sA); reflexivity|]. split; [exact Eas|].
      split; [subst sB; destruct (sc_collection_is_completed sA); reflexivity|].
      split; [subst sB; rewrite Ecomp; destruct (sc_collection_is_completed cs); reflexivity|].
      split; [apply bookn_adel; [apply J|exact Eas]|].
      left. rewrite Hbn. split; [exact Eb|]. split; [reflexivity|]. split; [|split; reflexivity].
      subst sB. destruct (sc_collection_is_completed sA); reflexivity.
    - (* a crash item *)
      apply Nat.eqb_neq in Ep.
      destruct (pending_first_undone w Ep) as (c & Hc).
      rewrite (remove_node_crash_unfold n cs w c Ew Ep Hc) in H.
      set (cs1 := after_removal n cs w) in *.
      destruct (bookw_requeued kind coll0 w c NDw Mw Hc) as (Ebw & Hnth).
      assert (Hcoll : sc_coll cs <> None).
      { intros Hcn. pose proof (bookn_coll_nonex G cs n J Hcn) as X. rewrite Hbn, Ebw in X. discriminate. }
      assert (Ewq1 : sc_wq cs1 = sc_wq cs ++ requeued w).
      { unfold cs1. rewrite after_removal_wq. apply wq_update_fresh; [apply requeued_keys_nodup; exact NDw|].
        intros k Hk Hk2. apply requeued_keys_incl in Hk.
        pose proof (sx_keys _ _ J) as L. unfold ukeys in L.
        eapply WorkerProofs.nodup_app_disj; [exact L|exact Hk2|]. eapply akeys_w_in; [apply aget_in; exact Ew|exact Hk]. }
      assert (FLD : sc_nt cs1 = sc_nt cs /\ sc_kind cs1 = sc_kind cs /\ sc_numnodes cs1 = sc_numnodes cs /\
                    sc_coll cs1 = sc_coll cs /\ sc_assigned cs1 = adel n (sc_assigned cs) /\
                    sc_reg cs1 = (if sc_collection_is_completed cs then sc_reg cs else adel n (sc_reg cs))).
      { unfold cs1, after_removal. cbv zeta.
        change (sc_collection_is_completed (sc_set_assigned cs (adel n (sc_assigned cs)))) with (sc_collection_is_completed cs).
        destruct (sc_collection_is_completed cs); cbn; auto 10. }
      destruct FLD as (Fnt & Fk & Fnum & Fc & Fas & Freg).
      assert (J1 : SJx G cs1).
      { apply (SJx_removed G cs cs1 n w (requeued w) J Ew); try assumption.
        - apply requeued_munits. exact Mw.
        - apply requeued_keys_nodup. exact NDw.
        - intros k Hk. eapply requeued_keys_incl; eauto.
        - intros _. exact Hcoll. }
      apply LoadProofs.mbind_inv in H. destruct H as [(e & H1 & ->)|(s2 & o1 & a & o2 & H1 & H2 & ->)].
      + exfalso. destruct (mfor_resched_effx G (akeys (sc_assigned cs1)) cs1 cs' o (Err e) J1) as (F & _); [|exact H1|discriminate].
        intros k Hk. split; [|exact Hk]. apply (sx_ntk _ _ J1). apply (sx_nodes _ _ J1). exact Hk.
      + destruct (mfor_resched_effx G (akeys (sc_assigned cs1)) cs1 s2 o1 (Ok a) J1) as (_ & T); [|exact H1|].
        { intros k Hk. split; [|exact Hk]. apply (sx_ntk _ _ J1). apply (sx_nodes _ _ J1). exact Hk. }
        unfold ret in H2. inv H2. rewrite app_nil_r.
        exists cs1. split; [exact T|]. split; [exact J1|]. split; [exact Fnt|]. split; [exact Fas|]. split; [exact Fc|].
        split; [exact Freg|]. split; [apply bookn_adel; [apply J|exact Fas]|].
        right. exists c, (bookw (requeued w)), (requeued w). rewrite Hbn. auto.
  Qed.

  (* ---- schedule(): surplus nodes are popped and shut down ---- *)
  Lemma SJx_prefix G cs a' b :
    SJx G cs -> sc_collection_is_completed cs = true -> sc_assigned cs = a' ++ b -> SJx G (sc_set_assigned cs a').
  Proof.
    intros [A B C D E F Gg Hh I Jn K L M] Hcomp Ea.
    constructor; cbn [sc_nt sc_set_assigned sc_reg sc_coll sc_wq sc_assigned sc_kind sc_numnodes]; try assumption.
    - split.
      + intros k w Hin Hw. apply (proj1 A k w); [rewrite Ea; apply in_or_app; left; exact Hin|exact Hw].
      + intros Hc. unfold sc_collection_is_completed in *. cbn [sc_reg sc_numnodes sc_set_assigned] in Hc. congruence.
    - intros k Hk. apply E. unfold sc_nodes in *. cbn [sc_assigned sc_set_assigned] in Hk.
      rewrite Ea, akeys_app. apply in_or_app. left. exact Hk.
    - unfold sc_nodes in *. cbn [sc_assigned sc_set_assigned]. rewrite Ea, akeys_app in F.
      eapply nodup_app_l'; eauto.
    - intros Hc. destruct (Jn Hc) as (X & Y). split; [exact X|]. intros k w Hin. apply (Y k w).
      rewrite Ea. apply in_or_app. left. exact Hin.
    - unfold ukeys in *. cbn [sc_assigned sc_set_assigned sc_wq]. rewrite Ea, akeys_w_app, app_assoc in L.
      eapply nodup_app_l'; eauto.
    - intros k w Hin. apply (M k w). rewrite Ea. apply in_or_app. left. exact Hin.
  Qed.

  Lemma NRo_none_cmds a cmds b : NRo a cmds b -> a = None -> cmds = [].
  Proof. intros R ->. destruct b; [destruct R|exact R]. Qed.

  Lemma pop_extra_effx G k : forall cs cs' o r,
    SJx G cs -> sc_collection_is_completed cs = true -> k <= length (sc_assigned cs) ->
    sc_pop_extra k cs = (cs', o, r) ->
    r = Ok tt /\ exists vo, o = vfilter (sc_nt cs) vo /\ SJx G cs' /\
    sc_assigned cs' = firstn (length (sc_assigned cs) - k) (sc_assigned cs) /\
    sc_reg cs' = sc_reg cs /\ sc_coll cs' = sc_coll cs /\ sc_wq cs' = sc_wq cs /\
    (forall m, NRo (aget m (sc_nt cs)) (cmds_to m vo) (aget m (sc_nt cs'))) /\ Forall good_out vo /\
    (forall m, In m (sc_nodes cs') -> cmds_to m vo = []) /\
    (forall m, flat_map cmd_inds (cmds_to m vo) = []) /\ (k = 0 -> vo = []) /\ ON cs vo /\ cruns vo = [].
  Proof.
    induction k as [|k IH]; intros cs cs' o r J Hcomp Hk H; cbn [sc_pop_extra] in H.
    - inv H. split; [reflexivity|]. exists []. rewrite Nat.sub_0_r, firstn_all.
      repeat (split; [first [reflexivity|assumption]|]).
      split; [intros m; apply NRo_refl|]. split; [constructor|]. split; [auto|]. split; [auto|]. split; [auto|]. split; [apply ON_nil|reflexivity].
    - rewrite mbind_get_eq in H.
      destruct (exists_last (l := sc_assigned cs)) as (l' & [n w] & Ea).
      { intros E. rewrite E in Hk. cbn in Hk. lia. }
      rewrite Ea, rev_app_distr in H. cbn [rev app] in H. rewrite mbind_put_eq in H.
      rewrite removelast_last in H.
      set (cs1 := sc_set_assigned cs l') in *.
      assert (J1 : SJx G cs1) by (eapply SJx_prefix; eauto).
      assert (Hnode : In n (sc_nodes cs)).
      { unfold sc_nodes. rewrite Ea, akeys_app. apply in_or_app. right. left. reflexivity. }
      assert (Hn1 : aget n (sc_nt cs1) <> None) by (apply (sx_ntk _ _ J1), (sx_nodes _ _ J); exact Hnode).
      assert (Hlen : length (sc_assigned cs) = S (length l')).
      { rewrite Ea, app_length. cbn. lia. }
      apply LoadProofs.mbind_inv in H. destruct H as [(e & H1 & ->)|(s1 & o1 & a & o2 & H1 & H2 & ->)].
      + destruct (sc_shutdown_effx G _ _ _ _ _ J1 Hn1 H1) as (F & _). discriminate.
      + destruct (sc_shutdown_effx G _ _ _ _ _ J1 Hn1 H1) as (_ & v1 & (T1 & Eo1) & J2 & W1 & A1 & Ho1 & Hi1 & Ru1).
        assert (Hk2 : k <= length (sc_assigned s1)) by (rewrite A1; cbn; lia).
        assert (Hcomp1 : sc_collection_is_completed s1 = true).
        { unfold sc_collection_is_completed in *. rewrite (se_reg _ _ _ _ T1).
          replace (sc_numnodes s1) with (sc_numnodes cs1) by (rewrite (sx_num _ _ J1), (sx_num _ _ J2); reflexivity).
          exact Hcomp. }
        destruct (IH s1 cs' o2 r J2 Hcomp1 Hk2 H2) as (-> & v2 & Eo2 & J' & Ea' & Er & Ec & Ew & Hnt & Hgo & Hq & Hi & _ & Hon & Ru2).
        split; [reflexivity|]. exists (v1 ++ v2).
        split.
        { rewrite vfilter_app, Eo1, Eo2. f_equal. apply vfilter_ext. apply (SE0_closed _ _ _ T1). }
        split; [exact J'|].
        rewrite A1 in Ea'. cbn [cs1 sc_assigned sc_set_assigned] in Ea'.
        split.
        { rewrite Ea', Hlen, Ea. cbn [Nat.sub]. rewrite firstn_snoc_le by lia. reflexivity. }
        split; [rewrite Er, (se_reg _ _ _ _ T1); reflexivity|].
        split; [rewrite Ec, (se_coll _ _ _ _ T1); reflexivity|].
        split; [rewrite Ew, W1; reflexivity|].
        split; [intros m; rewrite cmds_to_app; eapply NRo_trans; [apply (se_nt _ _ _ _ T1)|apply Hnt]|].
        split; [apply Forall_app; split; [apply (se_go _ _ _ _ T1)|exact Hgo]|].
        split; [|split; [|split; [discriminate|split; [|rewrite cruns_app2, Ru1, Ru2; reflexivity]]]].
        * intros m Hm. rewrite cmds_to_app, (Hq m Hm), app_nil_r. apply Ho1.
          intros ->. unfold sc_nodes in Hm. rewrite Ea' in Hm.
          pose proof (sx_wf _ _ J) as ND. unfold sc_nodes in ND. rewrite Ea, akeys_app in ND.
          eapply WorkerProofs.nodup_app_disj; [exact ND| |left; reflexivity].
          unfold akeys in *. apply in_map_iff in Hm. destruct Hm as (p & Ep & Hp). apply in_map_iff. exists p.
          split; [exact Ep|]. eapply in_firstn; eauto.
        * intros m. rewrite cmds_to_app, flat_map_app, Hi1, Hi. reflexivity.
        * intros m Hm. rewrite cmds_to_app, Ho1, Hon; [reflexivity| |intros ->; contradiction].
          intros X. apply Hm. unfold sc_nodes in *. rewrite A1 in X. cbn [cs1 sc_assigned sc_set_assigned] in X.
          rewrite Ea, akeys_app. apply in_or_app. left. exact X.
  Qed.

  Lemma mfor_assign_effx G l : forall cs cs' o r,
    SJx G cs -> length l <= length (sc_wq cs) ->
    (forall n, In n l -> In n (sc_nodes cs) /\ In n (akeys (sc_reg cs)) /\
                         exists f, aget n (sc_nt cs) = Some f /\ n_sdsent f = false) ->
    NoDup l ->
    mfor l sc_assign_work_unit cs = (cs', o, r) ->
    r = Ok tt /\ exists vo, SEv cs cs' o vo /\ SJx G cs' /\ sc_nt cs' = sc_nt cs /\
    length (sc_wq cs) = length l + length (sc_wq cs') /\ nosd vo /\ TK cs cs' vo /\ (forall m, ~ In m l -> cmds_to m vo = []) /\
    HX cs cs' vo.
  Proof.
    induction l as [|n l IH]; intros cs cs' o r J Hlen Hl ND H; cbn [mfor] in H.
    - inv H. split; [reflexivity|]. exists []. split; [apply SEv_refl|]. split; [exact J|]. split; [reflexivity|].
      split; [reflexivity|]. split; [intros m []|]. split; [apply TK_refl|]. split; [reflexivity|apply HX_refl].
    - destruct (Hl n (or_introl eq_refl)) as (Hnode & Hreg & Hf).
      assert (Hw : sc_wq cs <> []) by (intros E; rewrite E in Hlen; cbn in Hlen; lia).
      inversion ND as [|x xs Hnl ND']; subst.
      apply LoadProofs.mbind_inv in H. destruct H as [(e & H1 & ->)|(s1 & o1 & a & o2 & H1 & H2 & ->)].
      + destruct (assign_effx _ _ _ _ _ _ J Hw Hnode Hreg Hf H1) as (F & _). discriminate.
      + destruct (assign_effx _ _ _ _ _ _ J Hw Hnode Hreg Hf H1) as (_ & v1 & T1 & J1 & N1 & L1 & S1 & C1 & K1 & X1).
        destruct (IH s1 cs' o2 r J1) as (-> & v2 & T2 & J2 & N2 & L2 & S2 & K2 & C2 & X2).
        * cbn [length] in Hlen. lia.
        * intros k Hk. destruct (Hl k (or_intror Hk)) as (A & B & C).
          rewrite (se_nodes _ _ _ _ (proj1 T1)), (se_reg _ _ _ _ (proj1 T1)), N1. auto.
        * exact ND'.
        * exact H2.
        * split; [reflexivity|]. exists (v1 ++ v2). split; [eapply SEv_trans; eauto|]. split; [exact J2|].
          split; [congruence|]. split; [cbn [length]; lia|]. split; [apply nosd_app; assumption|].
          split; [eapply TK_trans; eauto|]. split; [|eapply HX_trans; eauto].
          intros m Hm. rewrite cmds_to_app, C1, C2; [reflexivity| |]; intros X; apply Hm; [right; exact X|left; congruence].
  Qed.

  Lemma coll_eqb_eqx a : forall b, coll_eqb a b = true -> a = b.
  Proof.
    unfold coll_eqb. induction a as [|x a IH]; intros [|y b]; cbn; try discriminate; [reflexivity|].
    intros H. apply andb_true_iff in H. destruct H as (H1 & H2). apply String.eqb_eq in H1. subst y.
    f_equal. apply IH. exact H2.
  Qed.

  (* _check_nodes_have_same_collection reads only; a difference is posted as a failed collect report *)
  Lemma same_collection_run_x cs k0 c others :
    sc_reg cs = (k0, c) :: others ->
    exists o b, sc_same_collection cs = (cs, o, Ok b) /\ (forall m, cmds_to m o = []) /\ cruns o = [] /\
      Forall good_out o /\ (b = true -> forall n cl, In (n, cl) (sc_reg cs) -> cl = c).
  Proof.
    intros Er. unfold sc_same_collection. rewrite mbind_get_eq, Er.
    assert (MF : forall l, exists o, mfor l (fun p : nat * list string =>
                   if coll_eqb c (snd p) then ret tt else emit (OCollDiff k0 (fst p))) cs = (cs, o, Ok tt) /\
                   (forall m, cmds_to m o = []) /\ cruns o = [] /\ Forall good_out o).
    { induction l as [|p l (o & E & Hc & Hr & Hg)]; cbn [mfor]; [exists []; repeat split; constructor|].
      destruct (coll_eqb c (snd p)).
      - exists o. rewrite mbind_ret_eq. auto.
      - exists (OCollDiff k0 (fst p) :: o). rewrite mbind_emit_eq, E. repeat split; auto.
        constructor; [exact I|exact Hg]. }
    destruct (MF others) as (o & E & Hc & Hr & Hg). exists o, (forallb (fun p => coll_eqb c (snd p)) others).
    split; [unfold mbind; rewrite E; unfold ret; rewrite app_nil_r; reflexivity|].
    split; [exact Hc|]. split; [exact Hr|]. split; [exact Hg|].
    intros Hb n cl [Hin|Hin]; [inversion Hin; reflexivity|].
    rewrite forallb_forall in Hb. specialize (Hb (n, cl) Hin). cbn in Hb. symmetry. apply coll_eqb_eqx. exact Hb.
  Qed.

  Lemma sched_rest_effx G cs cs' o r :
    SJx G cs -> sc_collection_is_completed cs = true -> sc_wq cs <> [] -> (forall n w, In (n, w) (sc_assigned cs) -> w = []) ->
    (forall n, In n (sc_nodes cs) -> In n (akeys (sc_reg cs))) ->
    (forall n f, aget n (sc_nt cs) = Some f -> n_sdsent f = false) ->
    sched_rest cs = (cs', o, r) ->
    r = Ok tt /\ exists vo, o = vfilter (sc_nt cs) vo /\ SJx G cs' /\
    (forall m, NRo (aget m (sc_nt cs)) (cmds_to m vo) (aget m (sc_nt cs'))) /\
    (forall m, bookn cs' m = bookn cs m ++ flat_map cmd_inds (cmds_to m vo)) /\
    incl (sc_nodes cs') (sc_nodes cs) /\ sc_reg cs' = sc_reg cs /\ sc_coll cs' = sc_coll cs /\
    sdp cs' vo /\ Forall good_out vo /\ (exists moved, sc_wq cs = moved ++ sc_wq cs') /\ TK cs cs' vo /\ ON cs vo /\ HX cs cs' vo.
  Proof.
    intros J Hcomp Hwq Hempty Hreg Hsd H.
    assert (Hbk : forall m, bookn cs m = []).
    { intros m. unfold ScopeCoupling.bookn. destruct (aget m (sc_assigned cs)) as [w|] eqn:E; [|reflexivity].
      rewrite (Hempty m w (aget_in _ _ _ E)). reflexivity. }
    unfold sched_rest in H. rewrite mbind_get_eq in H.
    set (k := length (sc_nodes cs) - length (sc_wq cs)) in *.
    assert (Hk : k <= length (sc_assigned cs)).
    { unfold k, sc_nodes. rewrite akeys_length. lia. }
    apply LoadProofs.mbind_inv in H. destruct H as [(e & H1 & ->)|(cs4 & o1 & a1 & o2 & H1 & H2 & ->)].
    { destruct (pop_extra_effx G _ _ _ _ _ J Hcomp Hk H1) as (F & _). discriminate. }
    destruct (pop_extra_effx G _ _ _ _ _ J Hcomp Hk H1) as (_ & v1 & Eo1 & J4 & Ea4 & Er4 & Ec4 & Ew4 & Hnt4 & Hgo4 & Hq4 & Hi4 & Hk0 & Hon4 & Ru4).
    rewrite mbind_get_eq in H2.
    assert (CL4 : forall m, closedb (sc_nt cs4) m = closedb (sc_nt cs) m).
    { intros m. eapply NRo_closed. apply Hnt4. }
    assert (Hsub4 : forall m w, In (m, w) (sc_assigned cs4) -> In (m, w) (sc_assigned cs)).
    { intros m w Hin. rewrite Ea4 in Hin. eapply in_firstn; eauto. }
    assert (Hnodes4 : incl (sc_nodes cs4) (sc_nodes cs)).
    { intros m Hm. unfold sc_nodes, akeys in *. apply in_map_iff in Hm. destruct Hm as ([m' w] & <- & Hp).
      change m' with (fst (m', w)). apply in_map. apply Hsub4. exact Hp. }
    assert (Hbk4 : forall m, bookn cs4 m = []).
    { intros m. unfold ScopeCoupling.bookn. destruct (aget m (sc_assigned cs4)) as [w|] eqn:E; [|reflexivity].
      apply aget_in, Hsub4 in E. apply (aget_in_nodup _ _ _ (sx_wf _ _ J)) in E.
      specialize (Hbk m). unfold ScopeCoupling.bookn in Hbk. rewrite E in Hbk. exact Hbk. }
    assert (Hlen4 : length (sc_nodes cs4) <= length (sc_wq cs4)).
    { unfold sc_nodes. rewrite akeys_length, Ea4, firstn_length, Ew4. unfold k, sc_nodes. rewrite akeys_length. lia. }
    assert (Hpre4 : forall n, In n (sc_nodes cs4) -> In n (sc_nodes cs4) /\ In n (akeys (sc_reg cs4)) /\
                       exists f, aget n (sc_nt cs4) = Some f /\ n_sdsent f = false).
    { intros n Hn. split; [exact Hn|]. split; [rewrite Er4; apply Hreg, Hnodes4; exact Hn|].
      pose proof (Hnt4 n) as R. rewrite (Hq4 n Hn) in R.
      destruct (aget n (sc_nt cs4)) as [f'|] eqn:Ef'.
      - destruct (aget n (sc_nt cs)) as [f|] eqn:Ef; [|destruct R]. cbn in R. apply NR_nil_inv in R. subst f'.
        exists f. split; [reflexivity|]. eapply Hsd; eauto.
      - exfalso. apply (sx_ntk _ _ J4 n); [|exact Ef']. apply (sx_nodes _ _ J4). exact Hn. }
    apply LoadProofs.mbind_inv in H2. destruct H2 as [(e & H3 & ->)|(cs5 & o3 & a3 & o4 & H3 & H4 & ->)].
    { destruct (mfor_assign_effx G _ _ _ _ _ J4 Hlen4 Hpre4 (sx_wf _ _ J4) H3) as (F & _). discriminate. }
    destruct (mfor_assign_effx G _ _ _ _ _ J4 Hlen4 Hpre4 (sx_wf _ _ J4) H3) as (_ & v3 & (T5 & Eo3) & J5 & N5 & L5 & S5 & K5 & C5 & X5).
    rewrite mbind_get_eq in H4.
    assert (Hpre5 : forall n, In n (sc_nodes cs5) -> aget n (sc_nt cs5) <> None /\ In n (sc_nodes cs5)).
    { intros n Hn. split; [|exact Hn]. apply (sx_ntk _ _ J5), (sx_nodes _ _ J5). exact Hn. }
    apply LoadProofs.mbind_inv in H4. destruct H4 as [(e & H5 & ->)|(cs6 & o5 & a5 & o6 & H5 & H6 & ->)].
    { destruct (mfor_resched_effx G _ _ _ _ _ J5 Hpre5 H5) as (F & _). discriminate. }
    destruct (mfor_resched_effx G _ _ _ _ _ J5 Hpre5 H5) as (_ & (v5 & (T6 & Eo5) & J6 & P6 & K6 & O6 & X6)).
    rewrite mbind_get_eq in H6.
    assert (FIN : r = Ok tt /\ exists v6, SEv cs6 cs' o6 v6 /\ SJx G cs' /\ sc_wq cs' = sc_wq cs6 /\
                  ((exists n, In CShutdown (cmds_to n v6)) -> sc_wq cs6 = []) /\ TK cs6 cs' v6 /\ ON cs6 v6 /\ HX cs6 cs' v6).
    { destruct (sc_wq cs6) as [|hd tl] eqn:Ew6.
      - destruct (sc_mfor_shutdown_effx G (sc_nodes cs6) cs6 cs' o6 r J6) as (-> & v6 & T & J' & W & A6 & C6 & I6 & R6).
        + intros n Hn. apply (sx_ntk _ _ J6), (sx_nodes _ _ J6). exact Hn.
        + exact H6.
        + split; [reflexivity|]. exists v6. split; [exact T|]. split; [exact J'|]. split; [congruence|]. split; [auto|].
          split; [apply TK_quiet; [exact W|apply cruns_nil_of_inds; exact I6]|]. split; [exact C6|apply HX_quiet; assumption].
      - inv H6. split; [reflexivity|]. exists []. split; [apply SEv_refl|]. split; [exact J6|]. split; [exact Ew6|].
        split; [intros (n & [])|]. split; [apply TK_refl|]. split; [apply ON_nil|apply HX_refl]. }
    destruct FIN as (-> & v6 & (T7 & Eo6) & J7 & W7 & P7 & K7 & O7 & X7).
    pose proof (SE0_trans _ _ _ _ _ _ T5 (SE0_trans _ _ _ _ _ _ T6 T7)) as T.
    split; [reflexivity|]. exists (v1 ++ v3 ++ v5 ++ v6).
    split.
    { rewrite !vfilter_app, Eo1, Eo3, Eo5, Eo6. f_equal.
      rewrite (vfilter_ext (sc_nt cs) (sc_nt cs4) v3 CL4). f_equal.
      assert (CL5 : forall m, closedb (sc_nt cs5) m = closedb (sc_nt cs) m).
      { intros m. rewrite (SE0_closed _ _ _ T5). apply CL4. }
      rewrite (vfilter_ext (sc_nt cs) (sc_nt cs5) v5 CL5). f_equal.
      apply vfilter_ext. intros m. rewrite (SE0_closed _ _ _ T6). apply CL5. }
    split; [exact J7|].
    split; [intros m; rewrite cmds_to_app; eapply NRo_trans; [apply Hnt4|apply (se_nt _ _ _ _ T)]|].
    split.
    { intros m. rewrite (se_bk _ _ _ _ T m), Hbk4, Hbk, (cmds_to_app m v1), flat_map_app, Hi4. reflexivity. }
    split; [rewrite (se_nodes _ _ _ _ T); exact Hnodes4|].
    split; [rewrite (se_reg _ _ _ _ T); exact Er4|].
    split; [rewrite (se_coll _ _ _ _ T); exact Ec4|].
    split; [|split; [apply Forall_app; split; [exact Hgo4|apply (se_go _ _ _ _ T)]|split; [|split; [|split]]]].
    - intros (n & Hin). rewrite W7.
      rewrite !cmds_to_app in Hin. apply in_app_or in Hin. destruct Hin as [Hin|Hin].
      + (* a surplus node was popped: every remaining node got one unit, and the queue is empty *)
        assert (k <> 0) by (intros E; rewrite (Hk0 E) in Hin; destruct Hin).
        assert (E5 : sc_wq cs5 = []).
        { apply length_zero_iff_nil. rewrite Ew4 in L5. unfold sc_nodes in L5. rewrite akeys_length, Ea4, firstn_length in L5.
          unfold k, sc_nodes in *. rewrite akeys_length in *. lia. }
        destruct (se_wq _ _ _ _ T6) as (mv & Emv). rewrite E5 in Emv. symmetry in Emv. apply app_eq_nil in Emv. tauto.
      + apply in_app_or in Hin. destruct Hin as [Hin|Hin]; [exfalso; exact (S5 n Hin)|].
        apply in_app_or in Hin. destruct Hin as [Hin|Hin].
        * apply P6. exists n. exact Hin.
        * apply P7. exists n. exact Hin.
    - destruct (se_wq _ _ _ _ T) as (mv & Emv). exists mv. rewrite <- Ew4. exact Emv.
    - assert (K4 : TK cs cs4 v1) by (apply TK_quiet; [exact Ew4|apply cruns_nil_of_inds; exact Hi4]).
      eapply TK_trans; [exact K4|]. eapply TK_trans; [exact K5|]. eapply TK_trans; [exact K6|exact K7].
    - intros m Hm. rewrite !cmds_to_app, (Hon4 m Hm).
      assert (Hm4 : ~ In m (sc_nodes cs4)) by (intros X; apply Hm; apply Hnodes4; exact X).
      rewrite (C5 m Hm4).
      assert (Hm5 : ~ In m (sc_nodes cs5)) by (rewrite (se_nodes _ _ _ _ T5); exact Hm4).
      rewrite (O6 m Hm5).
      assert (Hm6 : ~ In m (sc_nodes cs6)) by (rewrite (se_nodes _ _ _ _ T6); exact Hm5).
      rewrite (O7 m Hm6). reflexivity.
    - assert (X4 : HX cs cs4 v1).
      { exists (fun _ => []). intros m. rewrite app_nil_r, (blocks_to_nil m v1 Ru4). split; [|split; [reflexivity|constructor]].
        unfold keysw. destruct (aget m (sc_assigned cs4)) as [w4|] eqn:E4.
        - pose proof (Hsub4 m w4 (aget_in _ _ _ E4)) as Hin. rewrite (aget_in_nodup _ _ _ (sx_wf _ _ J) Hin).
          reflexivity.
        - destruct (aget m (sc_assigned cs)) as [w|] eqn:E0; [|reflexivity].
          rewrite (Hempty m w (aget_in _ _ _ E0)). reflexivity. }
      eapply HX_trans; [exact X4|]. eapply HX_trans; [exact X5|]. eapply HX_trans; [exact X6|exact X7].
  Qed.

  (* schedule(): either the first distribution (the collection has just been completed: every scheduled
     node is registered and no node was told to shut down), or a later call (rescheduling) *)
  (* schedule(): either the first distribution (the collection has just been completed: every scheduled
     node is registered and no node was told to shut down; when the registered collections differ nothing
     happens but the failed collect reports), or a later call (rescheduling) *)
  Lemma schedule_effx G cs cs' o r :
    SJx G cs -> 0 < N -> sc_collection_is_completed cs = true ->
    (sc_coll cs = None -> (forall n f, aget n (sc_nt cs) = Some f -> n_sdsent f = false) /\
                          incl (sc_nodes cs) (akeys (sc_reg cs)) /\
                          (forall k0 c rest, sc_reg cs = (k0, c) :: rest -> c = coll0)) ->
    sc_schedule cs = (cs', o, r) ->
    r = Ok tt /\ exists vo, o = vfilter (sc_nt cs) vo /\ SJx G cs' /\
    (sc_coll cs' <> None \/
     (sc_coll cs = None /\ cs' = cs /\ (forall m, cmds_to m vo = []) /\ cruns vo = [] /\
      ~ (forall n cl, In (n, cl) (sc_reg cs) -> cl = coll0))) /\
    (forall m, NRo (aget m (sc_nt cs)) (cmds_to m vo) (aget m (sc_nt cs'))) /\
    (forall m, bookn cs' m = bookn cs m ++ flat_map cmd_inds (cmds_to m vo)) /\
    incl (sc_nodes cs') (sc_nodes cs) /\ sc_reg cs' = sc_reg cs /\
    sdp cs' vo /\ Forall good_out vo /\
    (sc_coll cs <> None -> exists moved, sc_wq cs = moved ++ sc_wq cs') /\ ON cs vo /\
    (sc_coll cs <> None -> TK cs cs' vo /\ SE0 cs cs' vo) /\
    (sc_coll cs = None -> sc_coll cs' <> None -> bookw UL = concat (cruns vo) ++ bookw (sc_wq cs')) /\ HX cs cs' vo.
  Proof.
    intros J Hpos Hcomp Hsd H. pose proof J as [A B C D E F Gg Hh I Jn K L M].
    unfold sc_schedule in H. rewrite mbind_get_eq in H. rewrite Hcomp in H. cbn [massert] in H.
    rewrite mbind_ret_eq in H.
    destruct (sc_coll cs) as [cl|] eqn:Ec.
    { destruct (mfor_resched_effx G (sc_nodes cs) cs cs' o r J) as (-> & (vo & (T & Eo) & J' & P & Kt & On & Xh)).
      - intros n Hn. split; [|exact Hn]. apply D, E. exact Hn.
      - exact H.
      - split; [reflexivity|]. exists vo. split; [exact Eo|]. split; [exact J'|].
        split; [left; rewrite (se_coll _ _ _ _ T), Ec; discriminate|].
        split; [apply T|]. split; [apply T|]. split; [rewrite (se_nodes _ _ _ _ T); apply incl_refl|].
        split; [apply T|]. split; [exact P|]. split; [apply T|]. split; [intros _; apply (se_wq _ _ _ _ T)|].
        split; [exact On|]. split; [intros _; split; [exact Kt|exact T]|]. split; [discriminate|exact Xh]. }
    destruct (Hsd eq_refl) as (Hnosd & Hallreg & Hfirst).
    assert (Hreg : sc_reg cs <> []).
    { intros Er. unfold sc_collection_is_completed in Hcomp. rewrite Er, C in Hcomp. cbn in Hcomp.
      apply Nat.leb_le in Hcomp. lia. }
    destruct (sc_reg cs) as [|[k0 c] others] eqn:Er; [contradiction|].
    pose proof (Hfirst k0 c others eq_refl) as Ec0. subst c.
    destruct (same_collection_run_x cs k0 coll0 others Er) as (os & b & Esame & Hcs & Hrs & Hgs & Hbs).
    apply LoadProofs.mbind_inv in H. rewrite Esame in H.
    destruct H as [(e & F0 & _)|(s1 & o1 & b1 & o2 & H1 & H2 & ->)]; [discriminate|].
    injection H1 as E1 E2 E3. subst s1 o1 b1. rename os into o1. rename b into b1.
    assert (VQ : vfilter (sc_nt cs) o1 = o1) by (apply vfilter_quiet; exact Hcs).
    destruct b1; cbn [negb] in H2.
    2:{ (* the registered collections differ: nothing is distributed *)
        unfold ret in H2. injection H2 as Ea Eb Ecx. subst cs' o2 r. split; [reflexivity|]. exists o1. rewrite app_nil_r. split; [symmetry; exact VQ|]. split; [exact J|].
        split.
        { right. split; [first [exact Ec|reflexivity]|]. split; [reflexivity|]. split; [exact Hcs|]. split; [exact Hrs|].
          intros Hall. rewrite ?Er in Hall.
          assert (Hf : forallb (fun p : nat * list string => coll_eqb coll0 (snd p)) others = true).
          { apply forallb_forall. intros [n cl] Hin. cbn. rewrite (Hall n cl (or_intror Hin)). apply coll_eqb_refl. }
          unfold sc_same_collection in Esame. rewrite mbind_get_eq, Er in Esame.
          apply LoadProofs.mbind_inv in Esame. destruct Esame as [(e & _ & F0)|(s2 & o3 & a3 & o4 & _ & E2 & _)]; [discriminate|].
          unfold ret in E2. inv E2. congruence. }
        split; [intros m; rewrite Hcs; apply NRo_refl|]. split; [intros m; rewrite Hcs; cbn; rewrite app_nil_r; reflexivity|].
        split; [apply incl_refl|]. split; [rewrite Er; reflexivity|].
        split; [intros (n & Hin); rewrite Hcs in Hin; destruct Hin|]. split; [exact Hgs|].
        split; [intros Fx; exfalso; apply Fx; reflexivity|]. split; [intros m _; apply Hcs|].
        split; [intros Fx; exfalso; apply Fx; reflexivity|]. split; [|apply HX_quiet; [reflexivity|exact Hrs]].
        intros _ Fx. exfalso. apply Fx. first [exact Ec|reflexivity]. }
    rewrite mbind_get_eq, Er in H2. cbn [of_opt] in H2. rewrite mbind_ret_eq in H2.
    destruct (Jn eq_refl) as (Ewq & Hempty).
    assert (Hbk : forall m, bookn cs m = []) by (intros m; apply (bookn_coll_nonex G); [exact J|exact Ec]).
    assert (Hallc : forall n cl', In (n, cl') ((k0, coll0) :: others) -> cl' = coll0).
    { intros n cl' Hin. rewrite <- Er in Hin. apply (Hbs eq_refl n cl' Hin). }
    assert (CCo : forall m, cmds_to m (o1 ++ o2) = cmds_to m o2) by (intros m; rewrite cmds_to_app, Hcs; reflexivity).
    assert (CRo : cruns (o1 ++ o2) = cruns o2) by (rewrite cruns_app2, Hrs; reflexivity).
    assert (Hcase : coll0 = [] \/ exists c0 cr, coll0 = c0 :: cr) by (destruct coll0; eauto).
    destruct Hcase as [Ecoll|(c0 & cr & Ecoll)].
    - rewrite Ecoll in H2. rewrite mbind_put_eq in H2. inv H2. rewrite <- Ecoll. split; [reflexivity|]. exists o1.
      rewrite app_nil_r. split; [symmetry; exact VQ|].
      split.
      { constructor; cbn [sc_nt sc_set_coll sc_reg sc_coll sc_wq sc_assigned sc_kind sc_numnodes]; try assumption.
        - rewrite ?Er. exact A.
        - rewrite Er. exact Gg.
        - rewrite Er. exact Hh.
        - intros cl X. inversion X; subst. split; [reflexivity|]. split; [exact Hcomp|]. rewrite Er. exact Hallc.
        - discriminate. }
      split; [left; cbn; discriminate|].
      split; [intros m; rewrite Hcs; apply NRo_refl|]. split; [intros m; rewrite Hcs; cbn; rewrite app_nil_r; reflexivity|].
      split; [apply incl_refl|]. split; [cbn; rewrite Er; reflexivity|].
      split; [intros (n & Hin); rewrite Hcs in Hin; destruct Hin|].
      split; [exact Hgs|]. split; [intros Fx; exfalso; apply Fx; reflexivity|]. split; [intros m _; apply Hcs|].
      split; [intros Fx; exfalso; apply Fx; reflexivity|]. split; [|apply HX_quiet; [reflexivity|exact Hrs]]. intros _ _.
      cbn [sc_set_coll sc_wq]. rewrite Hrs, Ewq. cbn [concat app]. unfold UL, ScopeSystem.UL. rewrite Ecoll. reflexivity.
    - rewrite Ecoll in H2. rewrite mbind_put_eq, mbind_get_eq, mbind_put_eq in H2. rewrite <- Ecoll in H2.
      cbn [sc_set_coll sc_wq sc_kind] in H2. rewrite Ewq, B in H2.
      rewrite wq_update_fresh in H2; [|apply (UL_keys_nodup kind coll0)|intros k _ []]. cbn [app] in H2.
      match type of H2 with _ ?st = _ => set (s3 := st) in * end.
      assert (HULne : UL <> []).
      { destruct (build_units_covers kind coll0 c0) as (u & Hu & _); [rewrite Ecoll; left; reflexivity|].
        apply sget_in in Hu. apply (UL_in kind coll0) in Hu. intros E0. rewrite E0 in Hu. destruct Hu. }
      assert (J3 : SJx G s3).
      { subst s3. constructor; cbn [sc_set_wq sc_set_coll sc_nt sc_kind sc_reg sc_coll sc_wq sc_assigned sc_numnodes];
          try assumption.
        - rewrite ?Er. exact A.
        - rewrite Er. exact Gg.
        - rewrite Er. exact Hh.
        - intros cl X. inversion X; subst. split; [reflexivity|]. split; [exact Hcomp|]. rewrite Er. exact Hallc.
        - discriminate.
        - intros sc u Hu. apply munit_UL. exact Hu.
        - unfold ukeys. cbn [sc_set_wq sc_set_coll sc_wq sc_assigned].
          assert (Ez : akeys_w (sc_assigned cs) = []).
          { unfold akeys_w. apply flat_map_nil_in. intros [m w] Hin. rewrite (Hempty m w Hin). reflexivity. }
          rewrite Ez, app_nil_r. apply (UL_keys_nodup kind coll0). }
      destruct (sched_rest_effx G s3 cs' o2 r J3) as (-> & vo & Eo & J' & Hnt & Hb & Hn & Hr & Hc & P & Go & _ & Kt & On & Xh).
      + exact Hcomp.
      + exact HULne.
      + exact Hempty.
      + intros n Hn. subst s3. cbn [sc_reg sc_set_wq sc_set_coll]. rewrite Er. apply Hallreg. exact Hn.
      + exact Hnosd.
      + exact H2.
      + split; [reflexivity|]. exists (o1 ++ vo).
        split; [rewrite vfilter_app, VQ, Eo; reflexivity|]. split; [exact J'|]. split; [left; rewrite Hc; cbn; discriminate|].
        assert (CC1 : forall m, cmds_to m (o1 ++ vo) = cmds_to m vo) by (intros m; rewrite cmds_to_app, Hcs; reflexivity).
        split; [intros m; rewrite CC1; exact (Hnt m)|]. split; [intros m; rewrite CC1; exact (Hb m)|].
        split; [exact Hn|]. split; [rewrite Hr; cbn; rewrite Er; reflexivity|].
        split; [intros (n & Hin); apply P; exists n; rewrite CC1 in Hin; exact Hin|].
        split; [apply Forall_app; split; [exact Hgs|exact Go]|]. split; [intros Fx; exfalso; apply Fx; reflexivity|].
        split; [intros m Hm; rewrite CC1; apply On; exact Hm|]. split; [intros Fx; exfalso; apply Fx; reflexivity|].
        split.
        * intros _ _. rewrite cruns_app2, Hrs. exact Kt.
        * destruct Xh as (BL & HBL). exists BL. intros m. destruct (HBL m) as (K1 & K2 & K3).
          split; [exact K1|]. split; [rewrite blocks_to_app, (blocks_to_nil m o1 Hrs); exact K2|exact K3].
  Qed.
End SchedX.

(* ---- the token accounts of the scheduler: the not-completed tests in the queue and in the books ---- *)
Definition tokx (coll0 : list string) (cs : scstate) : list nat :=
  bookw coll0 (sc_wq cs) ++ flat_map (fun p => bookw coll0 (snd p)) (sc_assigned cs).
(* the index that leaves the controller's accounts when the event is handled *)
Definition evtokx (coll0 : list string) (ev : cevent) (cs : scstate) : list nat :=
  match ev with
  | QComplete n i _ => [i]
  | QErrorDown n => firstn 1 (bookn coll0 cs n)
  | _ => []
  end.

Lemma blocks_to_inds n outs : concat (blocks_to n outs) = flat_map cmd_inds (cmds_to n outs).
Proof.
  induction outs as [|x outs IH]; [reflexivity|]. unfold blocks_to, cmds_to in *. cbn [flat_map].
  rewrite concat_app, flat_map_app, IH. f_equal.
  destruct x as [h|m c| |]; try reflexivity. destruct c as [ixs| | | |]; cbn [block_to cmd_to]; destruct (Nat.eqb m n); try reflexivity.
  all: cbn; rewrite ?app_nil_r; reflexivity.
Qed.

Lemma books_by_nodes coll0 cs :
  NoDup (sc_nodes cs) ->
  flat_map (fun p => bookw coll0 (snd p)) (sc_assigned cs) = flat_map (bookn coll0 cs) (sc_nodes cs).
Proof.
  intros ND. unfold sc_nodes in *. rewrite <- (flat_map_keys_vals (bookw coll0) (sc_assigned cs) ND).
  apply flat_map_ext_in. intros k _. unfold bookn. reflexivity.
Qed.

(* a scheduling step conserves the tokens *)
Lemma tokx_step coll0 cs cs' vo :
  NoDup (sc_nodes cs) -> SE0 coll0 cs cs' vo -> TK coll0 cs cs' vo -> ON cs vo ->
  Permutation (tokx coll0 cs') (tokx coll0 cs).
Proof.
  intros ND T K O. unfold tokx.
  assert (ND' : NoDup (sc_nodes cs')) by (rewrite (se_nodes _ _ _ _ T); exact ND).
  rewrite (books_by_nodes coll0 cs ND), (books_by_nodes coll0 cs' ND'), (se_nodes _ _ _ _ T), K.
  rewrite (flat_map_ext _ _ (se_bk _ _ _ _ T)).
  rewrite flat_map_app_perm.
  assert (P : Permutation (flat_map (fun n => flat_map cmd_inds (cmds_to n vo)) (sc_nodes cs)) (concat (cruns vo))).
  { rewrite <- (sent_blocks_perm (sc_nodes cs) vo ND O). rewrite (flat_map_ext _ _ (fun n => blocks_to_inds n vo)). reflexivity. }
  rewrite P. permc.
Qed.

(* ====================================================================================== *)
(* C. the controller with worker deaths and replacement workers                            *)
(* ====================================================================================== *)
Ltac dprojx := cbn [d_sched d_shuttingdown d_shouldstop d_active d_countfailures d_maxfail d_failed_nodes
  d_max_restart d_collect_seen d_next_gw d_requeue d_set_sched d_set_active d_set_shouldstop
  d_set_shuttingdown d_set_countfailures d_set_collect_seen d_set_failed_nodes d_set_next_gw d_set_requeue d_withc].

Section CtlX.
  Variable kind : scope_kind.
  Variable coll0 : list string.
  Variable collf : nat -> list string.
  Variable N : nat.
  Hypothesis Hpos : 0 < N.
  (* every worker collects the same list: needed for "no active workers" never to happen, for nothing else *)
  Definition SAMEf : Prop := forall n, collf n = collf 0.

  Notation SJx := (SJx kind coll0 collf N).
  Notation SE0 := (SE0 coll0).
  Notation SEv := (SEv coll0).
  Notation SEx := (SEx kind coll0 collf N).
  Notation TK := (TK coll0).
  Notation bookn := (bookn coll0).
  Notation bookw := (bookw coll0).
  Notation tokx := (tokx coll0).
  Notation evtokx := (evtokx coll0).
  Notation kblock := (kblock kind coll0).
  Notation HX := (HX kind coll0).

  (* what one controller turn sends to each node, as blocks, and the scope keys of the units assigned to it *)
  Definition HISTx (cs cs1 : scstate) (vo : list out) : Prop :=
    exists BL : nat -> list (string * list nat),
    forall m, blocks_to m vo = map snd (BL m) /\ Forall kblock (BL m) /\
      (In m (sc_nodes cs1) -> keysw cs1 m = keysw cs m ++ map fst (BL m)) /\ (~ In m (sc_nodes cs1) -> BL m = []).

  Lemma keysw_none cs m : ~ In m (sc_nodes cs) -> keysw cs m = [].
  Proof. intros H. unfold keysw. apply aget_none_keys in H. unfold sc_nodes in H. rewrite H. reflexivity. Qed.

  Lemma HISTx_of_HX cs cs0 cs1 vo :
    HX cs0 cs1 vo -> (forall m, In m (sc_nodes cs1) -> keysw cs0 m = keysw cs m) -> HISTx cs cs1 vo.
  Proof.
    intros (L & H) E. exists L. intros m. destruct (H m) as (K & B & F). split; [exact B|]. split; [exact F|]. split.
    - intros Hin. rewrite <- (E m Hin). exact K.
    - intros Hni. rewrite (keysw_none cs1 m Hni) in K. symmetry in K. apply app_eq_nil in K. destruct K as (_ & K).
      destruct (L m); [reflexivity|discriminate].
  Qed.

  Lemma HISTx_quiet cs cs1 vo :
    cruns vo = [] -> (forall m, In m (sc_nodes cs1) -> keysw cs1 m = keysw cs m) -> HISTx cs cs1 vo.
  Proof.
    intros Hc E. exists (fun _ => []). intros m. rewrite (blocks_to_nil m vo Hc). split; [reflexivity|]. split; [constructor|].
    split; [intros Hin; rewrite app_nil_r; apply E; exact Hin|reflexivity].
  Qed.

  Lemma HISTx_hook cs cs1 h vo : HISTx cs cs1 vo -> HISTx cs cs1 (OHook h :: vo).
  Proof. intros (L & H). exists L. intros m. exact (H m). Qed.

  Lemma HISTx_app_quiet cs cs1 cs2 vo vo2 :
    HISTx cs cs1 vo -> cruns vo2 = [] -> sc_assigned cs2 = sc_assigned cs1 -> HISTx cs cs2 (vo ++ vo2).
  Proof.
    intros (L & H) Hc Ea. exists L. intros m. destruct (H m) as (B & F & K1 & K2).
    rewrite blocks_to_app, (blocks_to_nil m vo2 Hc), app_nil_r. unfold sc_nodes, keysw in *. rewrite Ea. auto.
  Qed.

  Lemma cruns_of_cmds vo : (forall m, cmds_to m vo = []) -> cruns vo = [].
  Proof.
    induction vo as [|x vo IH]; intros H; [reflexivity|].
    assert (H' : forall m, cmds_to m vo = []).
    { intros m. specialize (H m). cbn [cmds_to flat_map] in H. apply app_eq_nil in H. tauto. }
    unfold cruns. cbn [flat_map]. fold (cruns vo). rewrite (IH H'), app_nil_r.
    destruct x as [h|m c| |]; try reflexivity. specialize (H m). cbn [cmds_to flat_map cmd_to] in H.
    rewrite Nat.eqb_refl in H. discriminate.
  Qed.

  (* ---- the controller's invariant ---- *)
  (* DJ0x holds between the handler and the end of the loop iteration, DJx at the start of an iteration.
     dx_k1: before the initial distribution no node has been told to shut down (unless a stop or the
            end of the restart budget made the session shut down for good);
     dx_rs: why the session is shutting down;
     dx_k2: a session that is not shutting down still has an active node that was not told to shut
            down, or has nothing left in the queue -- this is why "no active workers" cannot happen;
     dx_act: there are never more than N active nodes -- this is why every scheduled node is registered
            when the initial collection is complete. *)
  Record DJ0x (d : dstate) (cs : scstate) : Prop := {
    dx_sched : d_sched d = StC cs;
    dx_sj : SJx (d_next_gw d) cs;
    dx_b : d_shouldstop d = false -> incl (sc_nodes cs) (d_active d);
    dx_k1 : sc_collection_is_completed cs = false -> d_shouldstop d = false -> exhausted d = false ->
            forall n f, aget n (sc_nt cs) = Some f -> n_sdsent f = false;
    dx_rs : d_shuttingdown d = true ->
            d_shouldstop d = true \/ exhausted d = true \/ sc_collection_is_completed cs = true;
    dx_k2 : SAMEf -> d_shuttingdown d = false -> d_shouldstop d = false ->
            (exists k f, In k (d_active d) /\ aget k (sc_nt cs) = Some f /\ n_sdsent f = false) \/
            (sc_collection_is_completed cs = true /\ sc_wq cs = []);
    dx_exh : exhausted d = true -> d_shuttingdown d = true;
    dx_req : d_requeue d = 0;
    dx_alt : forall n, In n (d_active d) -> n < d_next_gw d;
    dx_fnn : (0 <= d_failed_nodes d)%Z;
    dx_cc : True;
    dx_act : NoDup (d_active d) /\ length (d_active d) <= N;
  }.
  Definition DJx (d : dstate) (cs : scstate) : Prop :=
    DJ0x d cs /\ (d_shouldstop d = true -> d_shuttingdown d = true) /\
    (sc_coll cs = Some [] -> d_shuttingdown d = true) /\
    (sc_collection_is_completed cs = true -> sc_coll cs = None -> d_shuttingdown d = true).

  Definition PREx (ev : cevent) (d : dstate) (cs : scstate) : Prop :=
    match ev with
    | QReady n => n < d_next_gw d /\ (d_shuttingdown d = false -> ~ In n (sc_nodes cs) /\ In n (d_active d))
    | QCollFinish n ids => n < d_next_gw d /\ ~ In n (akeys (sc_reg cs)) /\ ids = collf n
    | QComplete n i _ => exists rest, bookn cs n = i :: rest
    | QFinished n SKNone => In n (d_active d) /\ (In n (sc_nodes cs) -> bookn cs n = []) /\
                            (exists f, aget n (sc_nt cs) = Some f /\ n_sdsent f = true)
    | QFinished n SKStop => In n (d_active d)
    | QErrorDown n => In n (d_active d)
    | QFinished _ SKKbd | QUnscheduled _ _ | QInternalError _ => False
    | _ => True
    end.

  (* the effect of a handler (and, later, of a whole loop iteration); vo are the virtual outputs *)
  Record HEFFx (ev : cevent) (d : dstate) (cs : scstate) (d1 : dstate) (cs1 : scstate) (vo : list out) : Prop := {
    hx_dj : DJ0x d1 cs1;
    hx_nt : forall m, m < d_next_gw d -> NRo (aget m (sc_nt cs)) (cmds_to m vo) (aget m (sc_nt cs1));
    hx_out : forall m, d_next_gw d <= m -> cmds_to m vo = [];
    hx_bk : forall m, bookn cs1 m = bookmid' ev m (bookn cs m) ++ flat_map cmd_inds (cmds_to m vo);
    hx_nodes : forall m, In m (sc_nodes cs1) -> In m (sc_nodes cs) \/ ev_sig ev = Some (m, SgReady);
    hx_n2c : forall m, In m (akeys (sc_reg cs1)) -> In m (akeys (sc_reg cs)) \/ ev_sig ev = Some (m, SgCF);
    hx_act : forall m, In m (d_active d) ->
             In m (d_active d1) \/ (exists b, ev_sig ev = Some (m, SgFin b)) \/ ev = QErrorDown m;
    hx_fin : SAMEf -> d_active d1 = [] ->
             d_shuttingdown d1 = true \/ sc_tests_finished cs1 = true \/ d_shouldstop d1 = true;
    hx_ss : d_shouldstop d = true -> d_shouldstop d1 = true;
    hx_stop : forall m, ev_sig ev = Some (m, SgFin true) -> d_shouldstop d1 = true;
    hx_gw : d_next_gw d1 = d_next_gw d \/
            (d_next_gw d1 = S (d_next_gw d) /\
             (exists f, aget (d_next_gw d) (sc_nt cs1) = Some f /\ fresh_flags f) /\
             In (d_next_gw d) (d_active d1) /\ ~ In (d_next_gw d) (sc_nodes cs1) /\
             ~ In (d_next_gw d) (akeys (sc_reg cs1)));
    hx_err : forall n, ev = QErrorDown n -> ~ In n (sc_nodes cs1) /\ ~ In n (d_active d1);
    hx_closed : forall m, closedb (sc_nt cs1) m = closedb (sc_nt cs) m;
    hx_actb : forall m, In m (d_active d1) -> In m (d_active d) \/ (m = d_next_gw d /\ d_next_gw d1 = S (d_next_gw d));
    (* what the event takes out of queue + books, once the collection is fixed *)
    hx_tok : sc_coll cs <> None -> sc_coll cs1 = sc_coll cs /\
             Permutation (evtokx ev cs ++ tokx cs1) (tokx cs);
    hx_tok0 : sc_coll cs = None -> (sc_coll cs1 = None /\ tokx cs1 = []) \/
              (sc_coll cs1 = Some coll0 /\ Permutation (tokx cs1) (bookw (UL kind coll0)));
    hx_hist : HISTx cs cs1 vo;
  }.

  Lemma nodes_knownx G cs : SJx G cs -> forall n, In n (sc_nodes cs) -> aget n (sc_nt cs) <> None.
  Proof. intros J n Hn. apply (sx_ntk _ _ _ _ _ _ J). apply (sx_nodes _ _ _ _ _ _ J). exact Hn. Qed.

  Lemma NRo_outx G cs m cmds b : SJx G cs -> G <= m -> NRo (aget m (sc_nt cs)) cmds b -> cmds = [].
  Proof.
    intros J Hm R. destruct (aget m (sc_nt cs)) as [f|] eqn:Ef.
    - exfalso. assert (X : m < G) by (apply (sx_ntk _ _ _ _ _ _ J); congruence). lia.
    - destruct b; [destruct R|exact R].
  Qed.

  Lemma completed_ext cs cs' :
    sc_reg cs' = sc_reg cs -> sc_numnodes cs' = sc_numnodes cs ->
    sc_collection_is_completed cs' = sc_collection_is_completed cs.
  Proof. intros A B. unfold sc_collection_is_completed. rewrite A, B. reflexivity. Qed.

  Lemma completed_sj G cs cs' :
    SJx G cs -> SJx G cs' -> sc_reg cs' = sc_reg cs ->
    sc_collection_is_completed cs' = sc_collection_is_completed cs.
  Proof. intros J J' E. apply completed_ext; [exact E|]. rewrite (sx_num _ _ _ _ _ _ J), (sx_num _ _ _ _ _ _ J'). reflexivity. Qed.

  (* triggershutdown: every scheduled node is shut down once; nothing else changes *)
  Lemma trigger_effx d cs d' o r :
    d_sched d = StC cs -> SJx (d_next_gw d) cs ->
    d_triggershutdown d = (d', o, r) ->
    r = Ok tt /\ exists cs' vo, d' = d_withc d true cs' /\ SEv cs cs' o vo /\ SJx (d_next_gw d) cs' /\
      sc_wq cs' = sc_wq cs /\ sc_assigned cs' = sc_assigned cs /\
      ON cs vo /\ (forall m, flat_map cmd_inds (cmds_to m vo) = []) /\ cruns vo = [] /\
      (d_shuttingdown d = true -> cs' = cs /\ vo = []).
  Proof.
    intros Els J H. unfold d_triggershutdown in H. unfold mbind at 1, get in H.
    destruct (d_shuttingdown d) eqn:Esd.
    - unfold ret in H. injection H as <- <- <-. split; [reflexivity|]. exists cs, [].
      split. { unfold d_withc. destruct d; cbn in *; subst; reflexivity. }
      split; [apply SEv_refl|]. split; [exact J|]. split; [reflexivity|]. split; [reflexivity|].
      split; [apply ON_nil|]. split; [reflexivity|]. split; [reflexivity|]. auto.
    - unfold mbind, put in H.
      rewrite (mfor_liftC d_node_shutdown (fun n => node_shutdown sc_nt sc_set_nt n) _ d_node_shutdown_liftc
                 (d_set_shuttingdown d true) cs) in H by exact Els.
      rewrite Els in H. cbn [s_nodes] in H.
      destruct (mfor (sc_nodes cs) (fun n => node_shutdown sc_nt sc_set_nt n) cs) as [[cs2 o2] r2] eqn:Em.
      cbn [liftC app] in H. inv H.
      destruct (sc_mfor_shutdown_effx kind coll0 collf N _ _ _ _ _ _ J (nodes_knownx _ cs J) Em) as (-> & vo & T & J' & W & A & C & I & R).
      split; [reflexivity|]. exists cs2, vo. split; [reflexivity|]. split; [exact T|]. split; [exact J'|].
      split; [exact W|]. split; [exact A|]. split; [exact C|]. split; [exact I|]. split; [exact R|]. discriminate.
  Qed.

  (* the end of a loop iteration *)
  Lemma loop_rest_effx d cs d' o r :
    d_sched d = StC cs -> SJx (d_next_gw d) cs ->
    loop_rest d = (d', o, r) ->
    r = Ok tt /\ exists cs' vo,
      d' = d_withc d (d_shuttingdown d || sc_tests_finished cs || d_shouldstop d) cs' /\
      SEv cs cs' o vo /\ SJx (d_next_gw d) cs' /\ sc_wq cs' = sc_wq cs /\ sc_assigned cs' = sc_assigned cs /\
      ON cs vo /\ (forall m, flat_map cmd_inds (cmds_to m vo) = []) /\ cruns vo = [] /\
      (d_shuttingdown d' = false -> cs' = cs /\ vo = []) /\
      (d_shuttingdown d = true -> cs' = cs /\ vo = []).
  Proof.
    intros Els J H. unfold loop_rest in H.
    apply LoadProofs.mbind_inv in H. destruct H as [(e & H1 & ->)|(d1 & o1 & a & o2 & H1 & H2 & ->)].
    - exfalso. unfold mbind at 1, get in H1. rewrite Els in H1. cbn [s_tests_finished] in H1.
      destruct (sc_tests_finished cs).
      + destruct (d_triggershutdown d) as [[dx ox] rx] eqn:Et.
        destruct (trigger_effx _ _ _ _ _ Els J Et) as (-> & _). inv H1.
      + unfold ret in H1. inv H1.
    - unfold mbind at 1, get in H1. rewrite Els in H1. cbn [s_tests_finished] in H1.
      unfold mbind at 1, get in H2.
      destruct (sc_tests_finished cs) eqn:Etf.
      + destruct (d_triggershutdown d) as [[dx ox] rx] eqn:Et.
        destruct (trigger_effx _ _ _ _ _ Els J Et) as (-> & cs1 & vo & -> & T1 & J1 & W1 & A1 & C1 & I1 & R1 & N1). inv H1.
        assert (Z : forall b : bool, (if b then d_triggershutdown else ret tt) (d_withc d true cs1)
                    = (d_withc d true cs1, [], Ok tt)).
        { intros [|]; [|reflexivity]. unfold d_triggershutdown, mbind, get. reflexivity. }
        rewrite Z in H2. inv H2. rewrite app_nil_r, orb_true_r. cbn [orb].
        split; [reflexivity|]. exists cs1, vo. split; [reflexivity|]. split; [exact T1|]. split; [exact J1|].
        split; [exact W1|]. split; [exact A1|]. split; [exact C1|]. split; [exact I1|]. split; [exact R1|]. split; [cbn; discriminate|exact N1].
      + unfold ret in H1. inv H1. cbn [app]. rewrite orb_false_r.
        destruct (d_shouldstop d1) eqn:Ess.
        * destruct (d_triggershutdown d1) as [[dx ox] rx] eqn:Et.
          destruct (trigger_effx _ _ _ _ _ Els J Et) as (-> & cs1 & vo & -> & T1 & J1 & W1 & A1 & C1 & I1 & R1 & N1). inv H2.
          rewrite orb_true_r. split; [reflexivity|]. exists cs1, vo.
          split; [reflexivity|]. split; [exact T1|]. split; [exact J1|]. split; [exact W1|]. split; [exact A1|].
          split; [exact C1|]. split; [exact I1|]. split; [exact R1|]. split; [cbn; discriminate|exact N1].
        * unfold ret in H2. inv H2. rewrite orb_false_r. split; [reflexivity|]. exists cs, [].
          split. { unfold d_withc. destruct d'; cbn in *; subst; reflexivity. }
          split; [apply SEv_refl|]. split; [exact J|]. split; [reflexivity|]. split; [reflexivity|].
          split; [apply ON_nil|]. split; [reflexivity|]. split; [reflexivity|]. auto.
  Qed.

  Lemma DJ0x_same d cs d1 : DJ0x d cs -> same_ctl' d d1 -> d_active d1 = d_active d -> DJ0x d1 cs.
  Proof.
    intros [Els J Jb K1 RS K2 EX RQ AL FN CC ACT] (S1 & S2 & S3 & S4 & S5 & S6 & S7 & S8) _.
    assert (SS : d_shouldstop d1 = false -> d_shouldstop d = false).
    { intros H. apply not_true_false. intros F. rewrite (S4 F) in H. discriminate. }
    pose proof (exhausted_ext d d1 S7 S8) as EE.
    constructor.
    - rewrite S1. exact Els.
    - rewrite S5. exact J.
    - rewrite S3. intros H. apply Jb. apply SS. exact H.
    - rewrite EE. intros Hc H. apply K1; [exact Hc|apply SS; exact H].
    - rewrite S2, EE. intros H. destruct (RS H) as [X|X]; [left; apply S4; exact X|right; exact X].
    - rewrite S2, S3. intros HS H1 H2. apply K2; [exact HS|exact H1|apply SS; exact H2].
    - rewrite S2, EE. exact EX.
    - rewrite S6. exact RQ.
    - rewrite S3, S5. exact AL.
    - rewrite S7. exact FN.
    - exact CC.
    - rewrite S3. exact ACT.
  Qed.

  Lemma tok_samex ev cs cs1 :
    evtokx ev cs = [] -> sc_coll cs1 = sc_coll cs -> Permutation (tokx cs1) (tokx cs) ->
    (sc_coll cs = None -> tokx cs = []) ->
    (sc_coll cs <> None -> sc_coll cs1 = sc_coll cs /\ Permutation (evtokx ev cs ++ tokx cs1) (tokx cs)) /\
    (sc_coll cs = None -> (sc_coll cs1 = None /\ tokx cs1 = []) \/
                          (sc_coll cs1 = Some coll0 /\ Permutation (tokx cs1) (bookw (UL kind coll0)))).
  Proof.
    intros E Ec P Z. split.
    - intros _. split; [exact Ec|]. rewrite E. exact P.
    - intros Hc. left. split; [congruence|]. rewrite (Z Hc) in P. apply Permutation_sym, Permutation_nil in P. exact P.
  Qed.

  Lemma tokx_none G cs : SJx G cs -> sc_coll cs = None -> tokx cs = [].
  Proof.
    intros J Hc. destruct (sx_none _ _ _ _ _ _ J Hc) as (Ew & Ha). unfold CrashScope.tokx. rewrite Ew. cbn.
    apply flat_map_nil_in. intros [k w] Hin. rewrite (Ha k w Hin). reflexivity.
  Qed.

  Lemma heff_samex ev d cs d1 :
    DJ0x d cs -> d_active d <> [] -> same_ctl' d d1 ->
    (forall m b, bookmid' ev m b = b) -> (forall m b, ev_sig ev <> Some (m, SgFin b)) ->
    (forall n, ev <> QErrorDown n) -> evtokx ev cs = [] ->
    forall vo, (forall m, cmds_to m vo = []) ->
    HEFFx ev d cs d1 cs vo.
  Proof.
    intros J0 Hact S Hb Hf Hnerr Hev vo Hc. pose proof S as (S1 & S2 & S3 & S4 & S5 & S6 & S7 & S8).
    destruct (tok_samex ev cs cs Hev eq_refl (Permutation_refl _) (tokx_none _ cs (dx_sj _ _ J0))) as (TK1 & TK2).
    constructor.
    - eapply DJ0x_same; eauto.
    - intros m _. rewrite Hc. apply NRo_refl.
    - intros m _. apply Hc.
    - intros m. rewrite Hc, Hb. cbn. rewrite app_nil_r. reflexivity.
    - auto.
    - auto.
    - intros m Hm. left. rewrite S3. exact Hm.
    - rewrite S3. intros _ F. contradiction.
    - exact S4.
    - intros m E. exfalso. exact (Hf _ _ E).
    - left. exact S5.
    - intros n E. exfalso. exact (Hnerr n E).
    - reflexivity.
    - intros m Hm. left. rewrite <- S3. exact Hm.
    - exact TK1.
    - exact TK2.
    - apply HISTx_quiet; [apply cruns_of_cmds; exact Hc|reflexivity].
  Qed.

  Lemma k2_stepx (act : list nat) nt nt1 (R R1 : Prop) :
    (forall m f, aget m nt = Some f -> exists f1, aget m nt1 = Some f1) ->
    (forall m f1, aget m nt1 = Some f1 -> n_sdsent f1 = true ->
       (exists f, aget m nt = Some f /\ n_sdsent f = true) \/ R1) ->
    (R -> R1) ->
    ((exists k f, In k act /\ aget k nt = Some f /\ n_sdsent f = false) \/ R) ->
    ((exists k f, In k act /\ aget k nt1 = Some f /\ n_sdsent f = false) \/ R1).
  Proof.
    intros Hf Hb Hr [(k & f & Hk & Ef & Hs)|X]; [|right; apply Hr; exact X].
    destruct (Hf k f Ef) as (f1 & Ef1). destruct (n_sdsent f1) eqn:E1.
    - destruct (Hb k f1 Ef1 E1) as [(f' & Ef' & Hs')|X]; [|right; exact X]. congruence.
    - left. exists k, f1. auto.
  Qed.

  Lemma SE0_sd_back cs0 cs1 vo m f1 :
    SE0 cs0 cs1 vo -> aget m (sc_nt cs1) = Some f1 -> n_sdsent f1 = true ->
    (exists f, aget m (sc_nt cs0) = Some f /\ n_sdsent f = true) \/ In CShutdown (cmds_to m vo).
  Proof. intros T Ef1 Hs. exact (NRo_sdsent _ _ _ _ (se_nt _ _ _ _ T m) Ef1 Hs). Qed.

  Lemma SE0_fwd cs0 cs1 vo m f :
    SE0 cs0 cs1 vo -> aget m (sc_nt cs0) = Some f -> exists f1, aget m (sc_nt cs1) = Some f1.
  Proof.
    intros T Ef. pose proof (se_nt _ _ _ _ T m) as R. rewrite Ef in R.
    destruct (aget m (sc_nt cs1)) as [f1|]; [eauto|destruct R].
  Qed.

  (* flag-only steps of the scheduler (shutdown commands) *)
  Lemma DJ0x_flags d cs cs' vo :
    DJ0x d cs -> SE0 cs cs' vo -> SJx (d_next_gw d) cs' -> sc_wq cs' = sc_wq cs -> sc_assigned cs' = sc_assigned cs ->
    (forall m, In CShutdown (cmds_to m vo) -> d_shuttingdown d = true) ->
    DJ0x (d_set_sched d (StC cs')) cs'.
  Proof.
    intros [Els J Jb K1 RS K2 EX RQ AL FN CC ACT] T J' Ew Ea Hsd.
    pose proof (completed_sj _ cs cs' J J' (se_reg _ _ _ _ T)) as Kcomp.
    constructor; dprojx.
    - reflexivity.
    - exact J'.
    - rewrite (se_nodes _ _ _ _ T). exact Jb.
    - rewrite Kcomp. intros Hc Hss Hex n f1 Ef1. apply not_true_false. intros Hs.
      destruct (SE0_sd_back _ _ _ _ _ T Ef1 Hs) as [(f & Ef & Hf)|Hin].
      + rewrite (K1 Hc Hss Hex n f Ef) in Hf. discriminate.
      + destruct (RS (Hsd _ Hin)) as [X|[X|X]]; [change (d_shouldstop d = false) in Hss; congruence| |congruence].
        change (exhausted d = false) in Hex. congruence.
    - rewrite Kcomp. exact RS.
    - rewrite Kcomp, Ew. intros HS H1 H2. specialize (K2 HS H1 H2).
      eapply k2_stepx; [| | |exact K2].
      + intros m f Ef. eapply SE0_fwd; eauto.
      + intros m f1 Ef1 Hs. destruct (SE0_sd_back _ _ _ _ _ T Ef1 Hs) as [X|Hin]; [left; exact X|].
        rewrite (Hsd _ Hin) in H1. discriminate.
      + auto.
    - exact EX.
    - exact RQ.
    - exact AL.
    - exact FN.
    - exact I.
    - exact ACT.
  Qed.

  (* a rescheduling step once the collection is fixed *)
  Lemma DJ0x_sched d cs cs0 cs1 vo :
    DJ0x d cs -> SE0 cs0 cs1 vo -> sdp cs1 vo -> sc_nt cs0 = sc_nt cs ->
    SJx (d_next_gw d) cs1 -> sc_coll cs1 <> None ->
    (d_shouldstop d = false -> incl (sc_nodes cs1) (d_active d)) ->
    (sc_collection_is_completed cs = true /\ sc_wq cs = [] -> sc_wq cs0 = []) ->
    DJ0x (d_set_sched d (StC cs1)) cs1.
  Proof.
    intros [Els J Jb K1 RS K2 EX RQ AL FN CC ACT] T SDP Ent J1 Hc1 Hb1 Hp0.
    assert (C1 : sc_collection_is_completed cs1 = true).
    { destruct (sc_coll cs1) as [cl|] eqn:E; [|contradiction]. apply (sx_coll _ _ _ _ _ _ J1 cl E). }
    constructor; dprojx.
    - reflexivity.
    - exact J1.
    - exact Hb1.
    - intros F. rewrite C1 in F. discriminate.
    - intros _. right. right. exact C1.
    - intros HS H1 H2. specialize (K2 HS H1 H2).
      eapply k2_stepx; [| | |exact K2].
      + intros m f Ef. rewrite <- Ent in Ef. eapply SE0_fwd; eauto.
      + intros m f1 Ef1 Hs. destruct (SE0_sd_back _ _ _ _ _ T Ef1 Hs) as [X|X]; [left; rewrite <- Ent; exact X|right].
        split; [exact C1|]. apply SDP. exists m. exact X.
      + intros X. split; [exact C1|]. specialize (Hp0 X). destruct (se_wq _ _ _ _ T) as (mv & Emv).
        rewrite Hp0 in Emv. symmetry in Emv. apply app_eq_nil in Emv. tauto.
    - exact EX.
    - exact RQ.
    - exact AL.
    - exact FN.
    - exact I.
    - exact ACT.
  Qed.

  Lemma tokx_frame cs cs' : sc_wq cs' = sc_wq cs -> sc_assigned cs' = sc_assigned cs -> tokx cs' = tokx cs.
  Proof. intros A B. unfold CrashScope.tokx. rewrite A, B. reflexivity. Qed.

  (* ---- workerready ---- *)
  Lemma handle_readyx n d cs d1 o1 r :
    DJx d cs -> d_active d <> [] -> PREx (QReady n) d cs ->
    d_handle (QReady n) d = (d1, o1, r) ->
    r = Ok tt /\ exists cs1 vo, o1 = vfilter (sc_nt cs) vo /\ HEFFx (QReady n) d cs d1 cs1 vo.
  Proof.
    intros (J0 & Jss & Jemp & Jmis) Hact (HnG & Hpre) H. pose proof J0 as [Els J Jb K1 RS K2 EX RQ AL FN CC ACT].
    cbn [d_handle] in H. unfold hook in H. rewrite mbind_emit, mbind_get in H.
    destruct (d_shuttingdown d) eqn:Esd.
    - (* already shutting down: the node is told to shut down and is not scheduled *)
      rewrite (d_node_shutdown_liftc n d cs Els) in H.
      destruct (node_shutdown sc_nt sc_set_nt n cs) as [[cs1 o2] r2] eqn:En. cbn [liftC] in H. inv H.
      assert (Hk : aget n (sc_nt cs) <> None) by (apply (sx_ntk _ _ _ _ _ _ J); exact HnG).
      destruct (sc_shutdown_effx kind coll0 collf N _ _ _ _ _ _ J Hk En) as (-> & vo & (T & Eo) & J' & W & A & C & I & Ru).
      split; [reflexivity|]. exists cs1, (OHook (HNodeReady n) :: vo).
      split; [cbn [vfilter filter vkeep]; fold (vfilter (sc_nt cs) vo); rewrite Eo; reflexivity|].
      assert (CC0 : forall m, cmds_to m (OHook (HNodeReady n) :: vo) = cmds_to m vo) by reflexivity.
      destruct (tok_samex (QReady n) cs cs1 eq_refl (se_coll _ _ _ _ T)) as (TK1 & TK2);
        [rewrite (tokx_frame cs cs1 W A); reflexivity|apply (tokx_none _ cs J)|].
      constructor.
      + apply (DJ0x_flags d cs cs1 vo J0 T J' W A). intros _ _. exact Esd.
      + intros m _. rewrite CC0. apply (se_nt _ _ _ _ T).
      + intros m Hm. rewrite CC0. apply C. lia.
      + intros m. rewrite CC0. cbn [bookmid']. apply (se_bk _ _ _ _ T).
      + intros m Hm. left. rewrite <- (se_nodes _ _ _ _ T). exact Hm.
      + intros m Hm. left. rewrite <- (se_reg _ _ _ _ T). exact Hm.
      + intros m Hm. left. exact Hm.
      + cbn. intros _ F. contradiction.
      + cbn. auto.
      + intros m E0. discriminate.
      + left. reflexivity.
      + intros k E0. discriminate.
      + apply (SE0_closed _ _ _ _ T).
      + intros m Hm. left. exact Hm.
      + exact TK1.
      + exact TK2.
      + apply HISTx_hook. apply HISTx_quiet; [exact Ru|]. intros m _. unfold keysw. rewrite A. reflexivity.
    - (* the node joins the scheduler with an empty book *)
      destruct (Hpre eq_refl) as (Hnew & Hina).
      unfold mbind at 1 in H. rewrite (sched_op_runc _ d cs Els) in H. cbn [s_step] in H.
      destruct (sc_add_node n cs) as [[cs1 o2] r2] eqn:Ea.
      destruct (add_node_effx kind coll0 collf N _ _ _ _ _ _ J HnG Hnew Ea) as (-> & -> & J' & Ent & Ek & Er & Ec & Ew & Eb & Ekw).
      cbn [lift] in H. unfold no_str, ret in H. inv H.
      split; [reflexivity|]. exists cs1, [OHook (HNodeReady n)]. split; [reflexivity|].
      pose proof (completed_sj _ cs cs1 J J' Er) as Kcomp.
      assert (Etok : tokx cs1 = tokx cs).
      { unfold CrashScope.tokx. rewrite Ew, (books_by_nodes coll0 cs (sx_wf _ _ _ _ _ _ J)), (books_by_nodes coll0 cs1 (sx_wf _ _ _ _ _ _ J')).
        rewrite Ek, flat_map_app. cbn [flat_map]. rewrite (flat_map_ext _ _ Eb), Eb, (bookn_none coll0 cs n Hnew), !app_nil_r. reflexivity. }
      destruct (tok_samex (QReady n) cs cs1 eq_refl Ec) as (TK1 & TK2); [rewrite Etok; reflexivity|apply (tokx_none _ cs J)|].
      constructor.
      + constructor; dprojx.
        * reflexivity.
        * exact J'.
        * intros Hss m Hm. rewrite Ek in Hm. apply in_app_or in Hm.
          destruct Hm as [Hm|[<-|[]]]; [apply (Jb Hss); exact Hm|exact Hina].
        * rewrite Kcomp, Ent. exact K1.
        * rewrite Esd. discriminate.
        * rewrite Kcomp, Ent, Ew. intros HS _. exact (K2 HS eq_refl).
        * rewrite Esd. exact EX.
        * exact RQ.
        * exact AL.
        * exact FN.
        * exact I.
        * exact ACT.
      + intros m _. rewrite Ent. apply NRo_refl.
      + intros m _. reflexivity.
      + intros m. cbn. rewrite app_nil_r. apply Eb.
      + intros m Hm. rewrite Ek in Hm. apply in_app_or in Hm. destruct Hm as [Hm|[<-|[]]]; [left; exact Hm|right; reflexivity].
      + intros m Hm. left. rewrite <- Er. exact Hm.
      + intros m Hm. left. exact Hm.
      + cbn. intros _ F. contradiction.
      + cbn. auto.
      + intros m E. discriminate.
      + left. reflexivity.
      + intros k E. discriminate.
      + intros m. rewrite Ent. reflexivity.
      + intros m Hm. left. exact Hm.
      + exact TK1.
      + exact TK2.
      + apply HISTx_quiet; [reflexivity|]. intros m _. apply Ekw.
  Qed.

  (* sums over node ids: one node's contribution changes *)
  Lemma fm_keys_perm (f f' : nat -> list nat) n x l :
    NoDup l -> In n l -> (forall k, k <> n -> f' k = f k) -> Permutation (f n) (x ++ f' n) ->
    Permutation (flat_map f l) (x ++ flat_map f' l).
  Proof.
    intros ND Hin Hk Hn. induction l as [|k l IH]; [destruct Hin|].
    inversion ND as [|k' l' Hni ND']; subst. cbn [flat_map]. destruct (Nat.eq_dec k n) as [->|Hkn].
    - rewrite Hn. rewrite (flat_map_ext_in f f' l); [|intros j Hj; symmetry; apply Hk; intros ->; contradiction].
      rewrite <- app_assoc. reflexivity.
    - destruct Hin as [F|Hin]; [contradiction|]. rewrite <- (Hk k Hkn), (IH ND' Hin). permc.
  Qed.

  Lemma fm_keys_same (f f' : nat -> list nat) n l :
    ~ In n l -> (forall k, k <> n -> f' k = f k) -> flat_map f' l = flat_map f l.
  Proof. intros Hn Hk. apply flat_map_ext_in. intros k Hkl. apply Hk. intros ->. contradiction. Qed.

  (* ---- runtest_protocol_complete ---- *)
  Lemma handle_completex n i ms d cs d1 o1 r :
    DJx d cs -> d_active d <> [] -> PREx (QComplete n i ms) d cs ->
    d_handle (QComplete n i ms) d = (d1, o1, r) ->
    r = Ok tt /\ exists cs1 vo, o1 = vfilter (sc_nt cs) vo /\ HEFFx (QComplete n i ms) d cs d1 cs1 vo.
  Proof.
    intros (J0 & Jss & Jemp & Jmis) Hact (rest & Hb) H. pose proof J0 as [Els J Jb K1 RS K2 EX RQ AL FN CC ACT].
    cbn [d_handle] in H. unfold mbind at 1 in H. rewrite (sched_op_runc _ d cs Els) in H. cbn [s_step] in H.
    destruct (sc_mark_test_complete n i cs) as [[cs1 o2] r2] eqn:Em. cbn [lift] in H.
    destruct (complete_effx kind coll0 collf N _ _ _ _ _ _ _ _ J Hb Em)
      as (-> & cs0 & (vo & (T & Eo) & J' & SDP & Kt & On & Xh) & Ent & Ek & Er & Ec & Ew & Eb & Ekw).
    unfold no_str, ret in H. inv H. rewrite app_nil_r.
    assert (Hcoll : sc_coll cs <> None).
    { intros E. rewrite (bookn_coll_nonex kind coll0 collf N _ cs n J E) in Hb. discriminate. }
    assert (Hnode : In n (sc_nodes cs)).
    { destruct (in_dec Nat.eq_dec n (sc_nodes cs)) as [X|X]; [exact X|]. rewrite (bookn_none coll0 cs n X) in Hb. discriminate. }
    assert (Ereg : sc_reg cs1 = sc_reg cs) by (rewrite (se_reg _ _ _ _ T); exact Er).
    assert (Ecoll : sc_coll cs1 = sc_coll cs) by (rewrite (se_coll _ _ _ _ T); exact Ec).
    split; [reflexivity|]. exists cs1, vo. split; [rewrite Ent; reflexivity|].
    assert (ND0 : NoDup (sc_nodes cs0)) by (rewrite Ek; apply J).
    assert (P1 : Permutation (tokx cs1) (tokx cs0)) by (apply (tokx_step coll0 cs0 cs1 vo ND0 T Kt On)).
    assert (P0 : Permutation (tokx cs) (i :: tokx cs0)).
    { unfold CrashScope.tokx. rewrite Ew, (books_by_nodes coll0 cs (sx_wf _ _ _ _ _ _ J)), (books_by_nodes coll0 cs0 ND0), Ek.
      assert (P : Permutation (flat_map (bookn cs) (sc_nodes cs)) ([i] ++ flat_map (bookn cs0) (sc_nodes cs))).
      { apply (fm_keys_perm _ _ n); [apply J|exact Hnode| |].
        - intros k Hk. rewrite Eb. apply Nat.eqb_neq in Hk. rewrite Hk. reflexivity.
        - rewrite Eb, Nat.eqb_refl, Hb. reflexivity. }
      rewrite P. permc. }
    constructor.
    - apply (DJ0x_sched d cs cs0 cs1 vo J0 T SDP Ent J').
      + rewrite Ecoll. exact Hcoll.
      + rewrite (se_nodes _ _ _ _ T), Ek. exact Jb.
      + intros (_ & P). rewrite Ew. exact P.
    - intros m _. rewrite <- Ent. apply (se_nt _ _ _ _ T m).
    - intros m Hm. eapply (NRo_outx _ cs m); [exact J|exact Hm|rewrite <- Ent; apply (se_nt _ _ _ _ T m)].
    - intros m. rewrite (se_bk _ _ _ _ T m), Eb. f_equal. cbn [bookmid'].
      destruct (Nat.eqb m n) eqn:E; [|reflexivity].
      apply Nat.eqb_eq in E. subst m. rewrite Hb. reflexivity.
    - intros m Hm. left. rewrite (se_nodes _ _ _ _ T), Ek in Hm. exact Hm.
    - intros m Hm. left. rewrite Ereg in Hm. exact Hm.
    - intros m Hm. left. exact Hm.
    - dprojx. intros _ F. contradiction.
    - dprojx. auto.
    - intros m E. discriminate.
    - left. reflexivity.
    - intros k E. discriminate.
    - intros m. rewrite (SE0_closed _ _ _ _ T m). unfold closedb. rewrite Ent. reflexivity.
    - intros m Hm. left. exact Hm.
    - intros _. split; [exact Ecoll|]. cbn [CrashScope.evtokx app]. rewrite P1, P0. reflexivity.
    - intros F. contradiction.
    - apply (HISTx_of_HX cs cs0 cs1 vo Xh). intros m _. apply Ekw.
  Qed.

  Lemma books_adel n (a : amap workload) w :
    aget n a = Some w ->
    Permutation (flat_map (fun p => bookw (snd p)) a) (bookw w ++ flat_map (fun p => bookw (snd p)) (adel n a)).
  Proof.
    intros E. destruct (LoadProofs.aget_split _ _ _ _ E) as (pre & post & Ea & _ & Ed & _).
    rewrite Ed, Ea, !flat_map_app. cbn [flat_map snd]. permc.
  Qed.

  Lemma filter_neq_length n l : In n l -> NoDup l -> S (length (filter (fun m => negb (Nat.eqb m n)) l)) = length l.
  Proof.
    induction l as [|a l IH]; intros Hin ND; [destruct Hin|]. inversion ND as [|x xs Hn ND']; subst. cbn [filter].
    destruct (Nat.eqb a n) eqn:E; cbn [negb length].
    - apply Nat.eqb_eq in E. subst a. rewrite (filter_neq_notin n l Hn). reflexivity.
    - destruct Hin as [->|Hin]; [rewrite Nat.eqb_refl in E; discriminate|]. rewrite (IH Hin ND'). reflexivity.
  Qed.

  Lemma act_remove_ok n (act : list nat) :
    NoDup act /\ length act <= N -> NoDup (filter (fun m => negb (Nat.eqb m n)) act) /\ length (filter (fun m => negb (Nat.eqb m n)) act) <= N.
  Proof.
    intros (ND & L). split; [apply NoDup_filter; exact ND|].
    assert (X : forall l : list nat, length (filter (fun m => negb (Nat.eqb m n)) l) <= length l).
    { induction l as [|a l IH]; cbn; [lia|]. destruct (negb (Nat.eqb a n)); cbn; lia. }
    specialize (X act). lia.
  Qed.

  (* ---- workerfinished ---- *)
  Lemma handle_finishedx n sk d cs d1 o1 r :
    DJx d cs -> d_active d <> [] -> PREx (QFinished n sk) d cs ->
    d_handle (QFinished n sk) d = (d1, o1, r) ->
    r = Ok tt /\ exists cs1 vo, o1 = vfilter (sc_nt cs) vo /\ HEFFx (QFinished n sk) d cs d1 cs1 vo.
  Proof.
    intros (J0 & Jss & Jemp & Jmis) Hact Hpre H. pose proof J0 as [Els J Jb K1 RS K2 EX RQ AL FN CC ACT].
    cbn [d_handle] in H. unfold d_worker_workerfinished, hook in H. rewrite mbind_emit in H.
    destruct sk; cbn [PREx] in Hpre; [| |contradiction].
    - (* no stop request: the node leaves the scheduler with an empty book *)
      destruct Hpre as (Hina & Hbook & (f & Ef & Hsd)).
      rewrite mbind_get in H. rewrite Els in H. cbn [s_nodes] in H.
      assert (STEP : exists cs1,
        ((if mem_nat n (sc_nodes cs)
          then r0 <- d_sched_op (SRemove n);; massert match r0 with Some s0 => (s0 =? "")%string | None => true end
          else ret tt) d) = (d_set_sched d (StC cs1), [], Ok tt) /\
        SJx (d_next_gw d) cs1 /\ sc_nt cs1 = sc_nt cs /\ sc_coll cs1 = sc_coll cs /\ sc_wq cs1 = sc_wq cs /\
        (forall m, bookn cs1 m = bookn cs m) /\
        (forall m, In m (sc_nodes cs1) -> In m (sc_nodes cs) /\ m <> n) /\
        (forall m, In m (akeys (sc_reg cs1)) -> In m (akeys (sc_reg cs))) /\
        (sc_collection_is_completed cs = true -> sc_collection_is_completed cs1 = true) /\
        (sc_collection_is_completed cs1 = true -> sc_collection_is_completed cs = true) /\
        Permutation (tokx cs1) (tokx cs) /\
        (forall m, In m (sc_nodes cs1) -> keysw cs1 m = keysw cs m)).
      { destruct (mem_nat n (sc_nodes cs)) eqn:Em.
        - apply mem_nat_In in Em. specialize (Hbook Em).
          destruct (sc_remove_node n cs) as [[cs1 o2] r2] eqn:Er.
          destruct (remove_effx kind coll0 collf N _ _ _ _ _ _ J Em Er) as (cs1' & _ & J1 & Fnt & Fas & Fc & Freg & Fbk & CASE).
          destruct CASE as [(_ & -> & Fwq & -> & ->)|(c & rest & add & F & _)]; [|rewrite Hbook in F; discriminate].
          exists cs1'. split.
          { unfold mbind. rewrite (sched_op_runc _ d cs Els). cbn [s_step]. rewrite Er. cbn [lift]. reflexivity. }
          split; [exact J1|]. split; [exact Fnt|]. split; [exact Fc|]. split; [exact Fwq|].
          assert (Hregi : incl (akeys (sc_reg cs1')) (akeys (sc_reg cs))).
          { rewrite Freg. destruct (sc_collection_is_completed cs); [apply incl_refl|]. intros k Hk. eapply akeys_adel_incl; eauto. }
          split.
          { intros m. rewrite Fbk. destruct (Nat.eqb m n) eqn:E; [|reflexivity]. apply Nat.eqb_eq in E. subst m. symmetry. exact Hbook. }
          split.
          { intros m Hm. unfold sc_nodes in *. rewrite Fas in Hm. apply akeys_adel_neq; [apply J|exact Hm]. }
          split; [exact Hregi|]. split.
          { intros C0. unfold sc_collection_is_completed in *. rewrite Freg, C0, (sx_num _ _ _ _ _ _ J1), <- (sx_num _ _ _ _ _ _ J). exact C0. }
          split.
          { apply (completed_reg_le cs cs1'); [rewrite (sx_num _ _ _ _ _ _ J1), (sx_num _ _ _ _ _ _ J); reflexivity|apply J1|exact Hregi]. }
          split.
          { unfold CrashScope.tokx. rewrite Fwq, Fas.
            destruct (aget n (sc_assigned cs)) as [w|] eqn:Ew.
            2:{ exfalso. apply aget_none_keys in Ew. contradiction. }
            rewrite (books_adel n (sc_assigned cs) w Ew).
            assert (Ebw : bookw w = []) by (unfold ScopeCoupling.bookn in Hbook; rewrite Ew in Hbook; exact Hbook).
            rewrite Ebw. reflexivity. }
          intros m Hm. unfold sc_nodes in Hm. rewrite Fas in Hm. destruct (akeys_adel_neq n _ m (sx_wf _ _ _ _ _ _ J) Hm) as (_ & Hmn).
          unfold keysw. rewrite Fas, aget_adel_other by exact Hmn. reflexivity.
        - pose proof (proj1 (mem_nat_false _ _) Em) as Em'. exists cs.
          split; [rewrite d_set_sched_same by exact Els; reflexivity|].
          split; [exact J|]. repeat split; auto. intros ->. contradiction. }
      destruct STEP as (cs1 & Erun & J1 & Fn & Fc & Fq & Fbk & Fnodes & Fn2c & Fcomp & Fcback & Ptok & Fkw).
      unfold mbind at 1 in H. rewrite Erun in H.
      rewrite (active_remove_run n (d_set_sched d (StC cs1)) Hina) in H. inv H.
      split; [reflexivity|]. exists cs1, [OHook (HNodeDown n false)]. split; [reflexivity|].
      assert (HB : d_shouldstop d = false ->
                   incl (sc_nodes cs1) (filter (fun m => negb (Nat.eqb m n)) (d_active d))).
      { intros Hs2 m Hm. destruct (Fnodes m Hm) as (Hm1 & Hm2). apply in_filter_neq. split; [|exact Hm2].
        apply (Jb Hs2). exact Hm1. }
      assert (K2' : SAMEf -> d_shuttingdown d = false -> d_shouldstop d = false ->
            (exists k f0, In k (filter (fun m => negb (Nat.eqb m n)) (d_active d)) /\ aget k (sc_nt cs1) = Some f0 /\ n_sdsent f0 = false) \/
            (sc_collection_is_completed cs1 = true /\ sc_wq cs1 = [])).
      { intros HS H1 H2. destruct (K2 HS H1 H2) as [(k & f0 & Hk & Ef0 & Hs0)|(C & P)].
        - left. exists k, f0. rewrite Fn. split; [|auto]. apply in_filter_neq. split; [exact Hk|].
          intros ->. congruence.
        - right. split; [apply Fcomp; exact C|congruence]. }
      destruct (tok_samex (QFinished n SKNone) cs cs1 eq_refl Fc Ptok (tokx_none _ cs J)) as (TK1 & TK2).
      constructor.
      + constructor; dprojx.
        * reflexivity.
        * exact J1.
        * exact HB.
        * intros Hc1. rewrite Fn. apply K1. apply not_true_false. intros C. rewrite (Fcomp C) in Hc1. discriminate.
        * intros Hsd0. destruct (RS Hsd0) as [X|[X|X]]; auto.
        * exact K2'.
        * exact EX.
        * exact RQ.
        * intros m Hm. apply in_filter_neq in Hm. apply AL. tauto.
        * exact FN.
        * exact I.
        * apply act_remove_ok. exact ACT.
      + intros m _. rewrite Fn. apply NRo_refl.
      + intros m _. reflexivity.
      + intros m. cbn. rewrite app_nil_r. apply Fbk.
      + intros m Hm. left. apply Fnodes. exact Hm.
      + intros m Hm. left. apply Fn2c. exact Hm.
      + intros m Hm. dprojx. destruct (Nat.eq_dec m n) as [->|Hnn]; [right; left; eexists; reflexivity|].
        left. apply in_filter_neq. split; assumption.
      + dprojx. intros HS Hempty. destruct (d_shuttingdown d) eqn:Esd; [left; reflexivity|].
        destruct (d_shouldstop d) eqn:Ess; [right; right; reflexivity|]. right. left.
        destruct (K2' HS eq_refl eq_refl) as [(k & f0 & Hk & _)|(C & P)]; [rewrite Hempty in Hk; destruct Hk|].
        specialize (HB eq_refl). rewrite Hempty in HB.
        assert (En : sc_assigned cs1 = []).
        { destruct (sc_assigned cs1) as [|[k v] rest] eqn:E; [reflexivity|]. exfalso.
          apply (HB k). unfold sc_nodes. rewrite E. left. reflexivity. }
        unfold sc_tests_finished. rewrite C, P, En. reflexivity.
      + dprojx. auto.
      + intros m E. discriminate.
      + left. reflexivity.
      + intros k E. discriminate.
      + intros m. rewrite Fn. reflexivity.
      + intros m Hm. left. dprojx. apply in_filter_neq in Hm. tauto.
      + exact TK1.
      + exact TK2.
      + apply HISTx_quiet; [reflexivity|exact Fkw].
    - (* stop request *)
      assert (STEP : exists d2, (d0 <- get;; (if d_shouldstop d0 then ret tt else put (d_set_shouldstop d0 true))) d = (d2, [], Ok tt) /\
                same_ctl' d d2 /\ d_shouldstop d2 = true).
      { rewrite mbind_get. destruct (d_shouldstop d) eqn:Ess.
        - exists d. split; [reflexivity|]. split; [apply same_ctl'_refl|exact Ess].
        - eexists. split; [reflexivity|]. split; [|reflexivity]. unfold same_ctl'. cbn. auto 12. }
      destruct STEP as (d2 & Erun & S & S4).
      pose proof S as (S1 & S2 & S3 & _ & S5 & S6 & S7 & S8).
      pose proof (DJ0x_same d cs d2 J0 S S3) as J2.
      unfold mbind at 1 in H. rewrite Erun in H.
      assert (Hina : In n (d_active d2)) by (rewrite S3; exact Hpre).
      rewrite (active_remove_run n d2 Hina) in H. inv H.
      destruct J2 as [Els2 J2 Jb2 K12 RS2 K22 EX2 RQ2 AL2 FN2 CC2 ACT2].
      destruct (tok_samex (QFinished n SKStop) cs cs eq_refl eq_refl (Permutation_refl _) (tokx_none _ cs J)) as (TK1 & TK2).
      split; [reflexivity|]. exists cs, [OHook (HNodeDown n false)]. split; [reflexivity|]. constructor.
      + constructor; dprojx.
        * exact Els2.
        * exact J2.
        * rewrite S4. discriminate.
        * exact K12.
        * exact RS2.
        * rewrite S4. discriminate.
        * exact EX2.
        * exact RQ2.
        * intros m Hm. apply in_filter_neq in Hm. apply AL2. tauto.
        * exact FN2.
        * exact CC2.
        * apply act_remove_ok. exact ACT2.
      + intros m _. apply NRo_refl.
      + intros m _. reflexivity.
      + intros m. cbn. rewrite app_nil_r. reflexivity.
      + auto.
      + auto.
      + intros m Hm. dprojx. destruct (Nat.eq_dec m n) as [->|Hnn]; [right; left; eexists; reflexivity|].
        left. apply in_filter_neq. rewrite S3. split; assumption.
      + dprojx. intros _ _. right. right. exact S4.
      + dprojx. intros _. exact S4.
      + intros m _. dprojx. exact S4.
      + left. dprojx. exact S5.
      + intros k E. discriminate.
      + reflexivity.
      + intros m Hm. left. dprojx. apply in_filter_neq in Hm. rewrite <- S3. tauto.
      + exact TK1.
      + exact TK2.
      + apply HISTx_quiet; reflexivity.
  Qed.

  (* sums over a NoDup superset of the keys *)
  Lemma fm_supersetx (f : nat -> list nat) (K0 : list nat) : forall K,
    NoDup K0 -> NoDup K -> incl K0 K -> (forall k, In k K -> ~ In k K0 -> f k = []) ->
    Permutation (flat_map f K) (flat_map f K0).
  Proof.
    induction K0 as [|a K0 IH]; intros K ND0 ND Hi Hz.
    - rewrite flat_map_nil_in; [reflexivity|]. intros k Hk. apply Hz; [exact Hk|intros []].
    - inversion ND0 as [|a' l' Ha ND0']; subst.
      assert (Hin : In a K) by (apply Hi; left; reflexivity).
      destruct (in_split _ _ Hin) as (l1 & l2 & ->).
      assert (ND' : NoDup (l1 ++ l2)) by (eapply NoDup_remove_1; eauto).
      assert (Hna : ~ In a (l1 ++ l2)) by (eapply NoDup_remove_2; eauto).
      rewrite flat_map_app. cbn [flat_map]. rewrite <- (IH (l1 ++ l2) ND0' ND').
      + rewrite flat_map_app. permc.
      + intros k Hk. assert (Hk' : In k (l1 ++ a :: l2)) by (apply Hi; right; exact Hk).
        apply in_app_or in Hk'. apply in_or_app. destruct Hk' as [X|[X|X]]; auto. subst k. contradiction.
      + intros k Hk Hnk. apply Hz.
        * apply in_app_or in Hk. apply in_or_app. destruct Hk; [left|right; right]; assumption.
        * intros [X|X]; [subst k; contradiction|contradiction].
  Qed.

  Lemma HISTx_cons_quiet cs cs1 x vo : (forall m, block_to m x = []) -> HISTx cs cs1 vo -> HISTx cs cs1 (x :: vo).
  Proof.
    intros Hx (L & H). exists L. intros m. destruct (H m) as (B & R). split; [|exact R].
    unfold blocks_to in *. cbn [flat_map]. rewrite (Hx m). exact B.
  Qed.

  Lemma HISTx_prepend_quiet cs cs1 v0 vo : cruns v0 = [] -> HISTx cs cs1 vo -> HISTx cs cs1 (v0 ++ vo).
  Proof.
    intros Hc (L & H). exists L. intros m. destruct (H m) as (B & R). split; [|exact R].
    rewrite blocks_to_app, (blocks_to_nil m v0 Hc). exact B.
  Qed.

  (* ---- collectionfinish ---- *)
  (* Hfirst: when the collection is not fixed yet, coll0 stands for the collection of the first node that
     registered (this node itself if it is the first): the one that schedule() would fix *)
  Lemma handle_collfinishx n ids d cs d1 o1 r :
    DJx d cs -> d_active d <> [] -> PREx (QCollFinish n ids) d cs ->
    (sc_coll cs = None -> match sc_reg cs with (k0, c) :: _ => c = coll0 | [] => collf n = coll0 end) ->
    d_handle (QCollFinish n ids) d = (d1, o1, r) ->
    r = Ok tt /\ exists cs1 vo, o1 = vfilter (sc_nt cs) vo /\ HEFFx (QCollFinish n ids) d cs d1 cs1 vo.
  Proof.
    intros DJd Hact (HnG & Hnew & Hids) Hfirst H. subst ids. pose proof DJd as (J0 & Jss & Jemp & Jmis).
    pose proof J0 as [Els J Jb K1 RS K2 EX RQ AL FN CC ACT].
    assert (SAMEST : forall x, (d, @nil out, x) = (d1, o1, r) -> x = Ok tt ->
                   r = Ok tt /\ exists cs1 vo, o1 = vfilter (sc_nt cs) vo /\ HEFFx (QCollFinish n (collf n)) d cs d1 cs1 vo).
    { intros x E Ex. inv E. split; [reflexivity|]. exists cs, []. split; [reflexivity|]. apply heff_samex; auto.
      - apply same_ctl'_refl.
      - intros m b E. discriminate.
      - intros k E. discriminate. }
    cbn [d_handle] in H. rewrite mbind_get in H.
    destruct (d_shuttingdown d) eqn:Esd; [eapply SAMEST; [exact H|reflexivity]|].
    rewrite Els in H. cbn [s_nodes] in H.
    destruct (mem_nat n (sc_nodes cs)) eqn:Em; cbn [negb] in H; [|eapply SAMEST; [exact H|reflexivity]].
    clear SAMEST. apply mem_nat_In in Em.
    assert (Hss : d_shouldstop d = false) by (apply not_true_false; intros F; specialize (Jss F); congruence).
    assert (Hex : exhausted d = false) by (apply not_true_false; intros F; specialize (EX F); congruence).
    assert (CCx : sc_collection_is_completed cs = true -> sc_coll cs <> None).
    { intros C Hn. specialize (Jmis C Hn). congruence. }
    assert (Hne0 : sc_coll cs <> None -> coll0 <> []).
    { intros Hc E0. destruct (sc_coll cs) as [cl|] eqn:Ecl; [|contradiction].
      destruct (sx_coll _ _ _ _ _ _ J cl Ecl) as (-> & _). rewrite E0 in Jemp. specialize (Jemp eq_refl). congruence. }
    (* under SAME every registered collection, THE collection included, is the one every worker reports *)
    assert (SAMEREG : SAMEf -> forall k cl, In (k, cl) (sc_reg cs) -> cl = collf n).
    { intros HS k cl Hin. destruct (sx_reg _ _ _ _ _ _ J k cl Hin) as (-> & _). rewrite (HS k), (HS n). reflexivity. }
    unfold hook in H. rewrite mbind_emit in H. unfold mbind at 1 in H.
    rewrite (sched_op_runc _ d cs Els) in H. cbn [s_step] in H.
    destruct (sc_add_node_collection n (collf n) cs) as [[csa oa] ra] eqn:Ea.
    assert (CC0 : forall o2 m, cmds_to m (OHook (HCollFinished n) :: o2) = cmds_to m o2) by reflexivity.
    (* a late node whose collection differs from THE collection *)
    destruct (sc_collection_is_completed cs && negb (coll_eqb (collf n) coll0)) eqn:Ediff.
    { apply andb_true_iff in Ediff. destruct Ediff as (Hc & Hd). apply negb_true_iff in Hd.
      pose proof (CCx Hc) as Hcn.
      destruct (add_coll_diff_effx kind coll0 collf N _ _ _ _ _ _ J Em Hpos Hc Hcn (Hne0 Hcn) Hd Ea)
        as (-> & other & vod & -> & Td & Jd & Wd & Ad & Cd & Id & Rd).
      cbn [lift] in H. rewrite mbind_get in H. cbn [d_sched d_set_sched s_collection_is_completed app] in H.
      assert (Hcd : sc_collection_is_completed csa = true).
      { rewrite (completed_sj _ cs csa J Jd (se_reg _ _ _ _ Td)). exact Hc. }
      rewrite Hcd in H.
      unfold mbind at 1 in H. rewrite (sched_op_runc _ (d_set_sched d (StC csa)) csa eq_refl) in H. cbn [s_step] in H.
      destruct (sc_schedule csa) as [[cs1 o2] r2] eqn:Es. cbn [lift] in H.
      assert (Ecd : sc_coll csa <> None) by (rewrite (se_coll _ _ _ _ Td); exact Hcn).
      assert (Hnone : sc_coll csa = None -> (forall m f, aget m (sc_nt csa) = Some f -> n_sdsent f = false) /\
                        incl (sc_nodes csa) (akeys (sc_reg csa)) /\
                        (forall k0 c rest, sc_reg csa = (k0, c) :: rest -> c = coll0)) by (intros F; contradiction).
      destruct (schedule_effx kind coll0 collf N _ _ _ _ _ Jd Hpos Hcd Hnone Es)
        as (-> & vo & -> & J1 & Hc1 & Tnt & Tbk & Tk & Treg & Tsdp & Tgo & Tmv & Ton & Ttk & _ & Thx).
      destruct (Ttk Ecd) as (Kt & T2).
      unfold no_str, ret in H. inv H. rewrite app_nil_r.
      assert (CLd : forall m, closedb (sc_nt csa) m = closedb (sc_nt cs) m) by (apply (SE0_closed _ _ _ _ Td)).
      assert (Ec1 : sc_coll cs1 <> None) by (rewrite (se_coll _ _ _ _ T2); exact Ecd).
      assert (NOSAME : SAMEf -> False).
      { intros HS. destruct (sc_reg cs) as [|[k0 c] others] eqn:Er.
        - unfold sc_collection_is_completed in Hc. rewrite Er, (sx_num _ _ _ _ _ _ J) in Hc. cbn in Hc. apply Nat.leb_le in Hc. lia.
        - destruct (sc_coll cs) as [cl|] eqn:Ecl; [|contradiction]. destruct (sx_coll _ _ _ _ _ _ J cl Ecl) as (-> & _ & Z).
          assert (X1 : c = coll0) by (apply (Z k0 c); rewrite Er; left; reflexivity).
          assert (X2 : c = collf n) by (apply (SAMEREG HS k0 c); left; reflexivity).
          rewrite <- X1, X2, coll_eqb_refl in Hd. discriminate. }
      split; [reflexivity|]. exists cs1, (OHook (HCollFinished n) :: OLogDiff other n :: vod ++ vo).
      split.
      { cbn [vfilter filter vkeep]. fold (vfilter (sc_nt cs) (vod ++ vo)). rewrite vfilter_app. f_equal. f_equal. f_equal.
        apply vfilter_ext. exact CLd. }
      assert (CC2 : forall m, cmds_to m (OHook (HCollFinished n) :: OLogDiff other n :: vod ++ vo) = cmds_to m vod ++ cmds_to m vo).
      { intros m. cbn [cmds_to flat_map cmd_to app]. fold (cmds_to m (vod ++ vo)). apply cmds_to_app. }
      assert (J0d : DJ0x (d_set_sched d (StC csa)) csa).
      { constructor; dprojx.
        - reflexivity.
        - exact Jd.
        - rewrite (se_nodes _ _ _ _ Td). exact Jb.
        - intros F. congruence.
        - rewrite Esd. discriminate.
        - intros HS. exfalso. exact (NOSAME HS).
        - rewrite Esd. exact EX.
        - exact RQ.
        - exact AL.
        - exact FN.
        - exact I.
        - exact ACT. }
      assert (Etoka : tokx csa = tokx cs) by (apply tokx_frame; assumption).
      constructor.
      + apply (DJ0x_sched (d_set_sched d (StC csa)) csa csa cs1 vo J0d T2 Tsdp eq_refl J1 Ec1).
        * dprojx. rewrite (se_nodes _ _ _ _ T2), (se_nodes _ _ _ _ Td). exact Jb.
        * intros (_ & P). exact P.
      + intros m _. rewrite CC2. eapply NRo_trans; [apply (se_nt _ _ _ _ Td m)|apply Tnt].
      + intros m Hm. rewrite CC2. rewrite (NRo_outx _ cs m _ _ J Hm (se_nt _ _ _ _ Td m)).
        rewrite (NRo_outx _ csa m _ _ Jd Hm (Tnt m)). reflexivity.
      + intros m. rewrite CC2, flat_map_app, Tbk, (se_bk _ _ _ _ Td m). cbn [bookmid']. rewrite <- app_assoc. reflexivity.
      + intros m Hm. left. apply Tk in Hm. rewrite (se_nodes _ _ _ _ Td) in Hm. exact Hm.
      + intros m Hm. left. rewrite Treg, (se_reg _ _ _ _ Td) in Hm. exact Hm.
      + intros m Hm. left. exact Hm.
      + dprojx. intros _ F. contradiction.
      + dprojx. auto.
      + intros m E. discriminate.
      + left. reflexivity.
      + intros k E. discriminate.
      + intros m. rewrite (SE0_closed _ _ _ _ T2 m). apply CLd.
      + intros m Hm. left. exact Hm.
      + intros _. split; [rewrite (se_coll _ _ _ _ T2); apply (se_coll _ _ _ _ Td)|]. cbn [CrashScope.evtokx app].
        rewrite <- Etoka. apply (tokx_step coll0 csa cs1 vo); [apply Jd|exact T2|exact Kt|exact Ton].
      + intros F. contradiction.
      + apply HISTx_hook. apply HISTx_cons_quiet; [reflexivity|]. apply HISTx_prepend_quiet; [exact Rd|].
        apply (HISTx_of_HX cs csa cs1 vo Thx). intros m _. unfold keysw. rewrite Ad. reflexivity. }
    (* the node registers *)
    assert (Hlate : sc_collection_is_completed cs = true -> sc_coll cs <> None /\ coll0 <> [] /\ collf n = coll0).
    { intros C. split; [apply CCx; exact C|]. split; [apply Hne0, CCx; exact C|].
      rewrite C in Ediff. cbn [andb] in Ediff. apply negb_false_iff in Ediff. apply coll_eqb_eqx. exact Ediff. }
    destruct (add_coll_effx kind coll0 collf N _ _ _ _ _ _ J Em Hnew Hlate Ea) as (-> & -> & Ja & Ecsa).
    cbn [lift] in H. rewrite mbind_get in H. cbn [d_sched d_set_sched s_collection_is_completed app] in H.
    assert (N2C : forall m, In m (akeys (sc_reg csa)) -> In m (akeys (sc_reg cs)) \/ ev_sig (QCollFinish n (collf n)) = Some (m, SgCF)).
    { intros m Hm. rewrite Ecsa in Hm. cbn [sc_reg sc_set_reg] in Hm. rewrite akeys_app in Hm. apply in_app_or in Hm.
      destruct Hm as [Hm|[<-|[]]]; [left; exact Hm|right; reflexivity]. }
    assert (Fa : sc_nt csa = sc_nt cs /\ sc_assigned csa = sc_assigned cs /\ sc_coll csa = sc_coll cs /\ sc_wq csa = sc_wq cs /\
                 sc_reg csa = sc_reg cs ++ [(n, collf n)])
      by (rewrite Ecsa; auto).
    destruct Fa as (Fnt & Fas & Fco & Fwq & Freg).
    assert (Fbk : forall m, bookn csa m = bookn cs m) by (intros m; unfold ScopeCoupling.bookn; rewrite Fas; reflexivity).
    assert (Fnodes : sc_nodes csa = sc_nodes cs) by (unfold sc_nodes; rewrite Fas; reflexivity).
    assert (CMONO : sc_collection_is_completed cs = true -> sc_collection_is_completed csa = true).
    { unfold sc_collection_is_completed. rewrite Freg, app_length, (sx_num _ _ _ _ _ _ Ja), <- (sx_num _ _ _ _ _ _ J). cbn.
      intros X. apply Nat.leb_le in X. apply Nat.leb_le. lia. }
    assert (Etoka : tokx csa = tokx cs) by (apply tokx_frame; assumption).
    clear Ecsa.
    destruct (sc_collection_is_completed csa) eqn:Eca.
    - (* the collection is complete: schedule() *)
      unfold mbind at 1 in H. rewrite (sched_op_runc _ (d_set_sched d (StC csa)) csa eq_refl) in H. cbn [s_step] in H.
      destruct (sc_schedule csa) as [[cs1 o2] r2] eqn:Es. cbn [lift] in H.
      assert (Hpre : sc_coll csa = None -> (forall m f, aget m (sc_nt csa) = Some f -> n_sdsent f = false) /\
                                           incl (sc_nodes csa) (akeys (sc_reg csa)) /\
                                           (forall k0 c rest, sc_reg csa = (k0, c) :: rest -> c = coll0)).
      { intros Ecn. rewrite Fco in Ecn.
        assert (C0 : sc_collection_is_completed cs = false).
        { apply not_true_false. intros C. exact (CCx C Ecn). }
        split; [rewrite Fnt; apply K1; assumption|]. split.
        - rewrite Fnodes. apply NoDup_length_incl.
          + apply Ja.
          + assert (L1 : length (sc_nodes cs) <= length (d_active d)) by (apply NoDup_incl_length; [apply J|apply Jb; exact Hss]).
            unfold sc_collection_is_completed in Eca. rewrite (sx_num _ _ _ _ _ _ Ja) in Eca. apply Nat.leb_le in Eca.
            rewrite akeys_length. destruct ACT as (_ & L2). lia.
          + rewrite Freg, akeys_app. intros k Hk. apply in_app_or in Hk.
            destruct Hk as [Hk|[<-|[]]]; [apply (proj2 (sx_a _ _ _ _ _ _ J) C0); exact Hk|exact Em].
        - intros k0 c rest Er. specialize (Hfirst Ecn). rewrite Freg in Er.
          destruct (sc_reg cs) as [|[k1 c1] rr]; cbn in Er; inversion Er; congruence. }
      destruct (schedule_effx kind coll0 collf N _ _ _ _ _ Ja Hpos Eca Hpre Es)
        as (-> & vo & -> & J1 & Hc1 & Tnt & Tbk & Tk & Treg & Tsdp & Tgo & Tmv & Ton & Ttk & Ttk0 & Thx).
      unfold no_str, ret in H. inv H. rewrite app_nil_r.
      assert (C1 : sc_collection_is_completed cs1 = true).
      { rewrite (completed_sj _ csa cs1 Ja J1 Treg). exact Eca. }
      split; [reflexivity|]. exists cs1, (OHook (HCollFinished n) :: vo).
      split; [rewrite Fnt; reflexivity|].
      assert (HIST : HISTx cs cs1 (OHook (HCollFinished n) :: vo)).
      { apply HISTx_hook. apply (HISTx_of_HX cs csa cs1 vo Thx). intros m _. unfold keysw. rewrite Fas. reflexivity. }
      assert (K2N : SAMEf -> d_shouldstop d = false ->
                (exists k f, In k (d_active d) /\ aget k (sc_nt cs1) = Some f /\ n_sdsent f = false) \/
                (sc_collection_is_completed cs1 = true /\ sc_wq cs1 = [])).
      { intros HS H2. specialize (K2 HS eq_refl H2).
        destruct Hc1 as [Hc1|(_ & -> & Hq & _ & Hns)].
        2:{ exfalso. apply Hns. intros k cl Hin. rewrite Freg in Hin. apply in_app_or in Hin.
            assert (E0 : collf n = coll0).
            { destruct (sc_coll cs) as [cl0|] eqn:Ecl.
              - destruct (sx_coll _ _ _ _ _ _ J cl0 Ecl) as (-> & Cx & Z).
                destruct (sc_reg cs) as [|[k0 c] others] eqn:Er.
                + unfold sc_collection_is_completed in Cx. rewrite Er, (sx_num _ _ _ _ _ _ J) in Cx. cbn in Cx. apply Nat.leb_le in Cx. lia.
                + rewrite <- (Z k0 c (or_introl eq_refl)). symmetry. apply (SAMEREG HS k0 c). left. reflexivity.
              - specialize (Hfirst eq_refl). destruct (sc_reg cs) as [|[k0 c] others] eqn:Er; [exact Hfirst|].
                rewrite <- Hfirst. symmetry. apply (SAMEREG HS k0 c). left. reflexivity. }
            destruct Hin as [Hin|[Hin|[]]]; [rewrite (SAMEREG HS k cl Hin); exact E0|inversion Hin; subst; exact E0]. }
        eapply k2_stepx; [| | |exact K2].
        - intros m f Ef. pose proof (Tnt m) as R. rewrite Fnt, Ef in R.
          destruct (aget m (sc_nt cs1)) as [f1|]; [eauto|destruct R].
        - intros m f1 Ef1 Hs. pose proof (Tnt m) as R. rewrite Fnt in R.
          destruct (NRo_sdsent _ _ _ _ R Ef1 Hs) as [X|X]; [left; exact X|right].
          split; [exact C1|]. apply Tsdp. exists m. exact X.
        - intros (C & P). split; [exact C1|].
          destruct (Tmv ltac:(rewrite Fco; apply CCx; exact C)) as (mv & Emv). rewrite Fwq, P in Emv.
          symmetry in Emv. apply app_eq_nil in Emv. tauto. }
      constructor.
      + constructor; dprojx.
        * reflexivity.
        * exact J1.
        * intros Hs m Hm. apply (Jb Hs). apply Tk in Hm. rewrite Fnodes in Hm. exact Hm.
        * rewrite C1. discriminate.
        * intros _. right. right. exact C1.
        * intros HS _ H2. exact (K2N HS H2).
        * rewrite ?Esd. exact EX.
        * exact RQ.
        * exact AL.
        * exact FN.
        * exact I.
        * exact ACT.
      + intros m _. rewrite CC0. pose proof (Tnt m) as R. rewrite Fnt in R. exact R.
      + intros m Hm. rewrite CC0. eapply (NRo_outx _ cs m); [exact J|exact Hm|]. pose proof (Tnt m) as R. rewrite Fnt in R. exact R.
      + intros m. rewrite CC0. cbn [bookmid']. rewrite Tbk, Fbk. reflexivity.
      + intros m Hm. left. apply Tk in Hm. rewrite Fnodes in Hm. exact Hm.
      + intros m Hm. rewrite Treg in Hm. apply N2C. exact Hm.
      + intros m Hm. left. exact Hm.
      + dprojx. intros _ F. contradiction.
      + dprojx. auto.
      + intros m E. discriminate.
      + left. reflexivity.
      + intros k E. discriminate.
      + intros m. rewrite <- Fnt. eapply NRo_closed. apply Tnt.
      + intros m Hm. left. exact Hm.
      + intros Hcn. rewrite <- Fco in Hcn. destruct (Ttk Hcn) as (Kt & T).
        split; [rewrite (se_coll _ _ _ _ T); exact Fco|]. cbn [CrashScope.evtokx app]. rewrite <- Etoka.
        apply (tokx_step coll0 csa cs1 vo); [apply Ja|exact T|exact Kt|exact Ton].
      + intros Hcn. rewrite <- Fco in Hcn.
        destruct Hc1 as [Hc1|(_ & -> & Hq & _ & _)].
        2:{ left. split; [exact Hcn|]. apply (tokx_none _ csa Ja). exact Hcn. }
        right.
        assert (Ec1 : sc_coll cs1 = Some coll0).
        { destruct (sc_coll cs1) as [cl|] eqn:E; [|contradiction]. destruct (sx_coll _ _ _ _ _ _ J1 cl E) as (-> & _). reflexivity. }
        split; [exact Ec1|].
        unfold CrashScope.tokx. rewrite (Ttk0 Hcn Hc1), (books_by_nodes coll0 cs1 (sx_wf _ _ _ _ _ _ J1)).
        assert (P1 : Permutation (flat_map (bookn cs1) (sc_nodes cs1)) (flat_map (bookn cs1) (sc_nodes csa))).
        { symmetry. apply fm_supersetx; [apply J1|apply Ja|exact Tk|]. intros k _ Hk. apply (bookn_none coll0). exact Hk. }
        rewrite P1.
        assert (E2 : forall m, bookn cs1 m = flat_map cmd_inds (cmds_to m vo)).
        { intros m. rewrite Tbk, (bookn_coll_nonex kind coll0 collf N _ csa m Ja Hcn). reflexivity. }
        rewrite (flat_map_ext _ _ E2).
        rewrite <- (flat_map_ext _ _ (fun m => blocks_to_inds m vo)).
        rewrite (sent_blocks_perm (sc_nodes csa) vo (sx_wf _ _ _ _ _ _ Ja) Ton). permc.
      + exact HIST.
    - (* not the last one *)
      unfold ret in H. inv H.
      assert (C0 : sc_collection_is_completed cs = false).
      { apply not_true_false. intros C. pose proof (CMONO C) as X. congruence. }
      destruct (tok_samex (QCollFinish n (collf n)) cs csa eq_refl Fco) as (TK1 & TK2);
        [rewrite Etoka; reflexivity|apply (tokx_none _ cs J)|].
      split; [reflexivity|]. exists csa, [OHook (HCollFinished n)]. split; [reflexivity|]. constructor.
      + constructor; dprojx.
        * reflexivity.
        * exact Ja.
        * rewrite Fnodes. exact Jb.
        * rewrite Fnt. intros _. apply K1. exact C0.
        * rewrite Esd. discriminate.
        * rewrite Fnt, Fwq, Eca. intros HS _ _. destruct (K2 HS eq_refl Hss) as [X|(C & _)]; [left; exact X|congruence].
        * rewrite ?Esd. exact EX.
        * exact RQ.
        * exact AL.
        * exact FN.
        * exact I.
        * exact ACT.
      + intros m _. rewrite Fnt. apply NRo_refl.
      + intros m _. reflexivity.
      + intros m. cbn. rewrite app_nil_r. apply Fbk.
      + intros m Hm. left. rewrite Fnodes in Hm. exact Hm.
      + exact N2C.
      + intros m Hm. left. exact Hm.
      + dprojx. intros _ F. contradiction.
      + dprojx. auto.
      + intros m E. discriminate.
      + left. reflexivity.
      + intros k E. discriminate.
      + intros m. rewrite Fnt. reflexivity.
      + intros m Hm. left. exact Hm.
      + exact TK1.
      + exact TK2.
      + apply HISTx_quiet; [reflexivity|]. intros m _. unfold keysw. rewrite Fas. reflexivity.
  Qed.

  Lemma In_vfilter_hookx nt h vo : In (OHook h) (vfilter nt vo) <-> In (OHook h) vo.
  Proof. unfold vfilter. rewrite filter_In. cbn. tauto. Qed.

  Lemma sc_remove_unknown n cs : aget n (sc_assigned cs) = None -> sc_remove_node n cs = (cs, [], Err EKey).
  Proof. intros E. unfold sc_remove_node. rewrite mbind_get_eq, E. reflexivity. Qed.

  (* try: crashitem = sched.remove_node(node) / except KeyError: pass / else: handle_crashitem *)
  Lemma try_block_effx n d cs d1 o1 r :
    DJ0x d cs -> try_block n d = (d1, o1, r) ->
    r = Ok tt /\ exists cs1 vo, d1 = d_set_sched d (StC cs1) /\ o1 = vfilter (sc_nt cs) vo /\
      SJx (d_next_gw d) cs1 /\
      (forall m, NRo (aget m (sc_nt cs)) (cmds_to m vo) (aget m (sc_nt cs1))) /\
      (forall m, bookn cs1 m = (if Nat.eqb m n then [] else bookn cs m) ++ flat_map cmd_inds (cmds_to m vo)) /\
      (forall m, In m (sc_nodes cs1) -> In m (sc_nodes cs) /\ m <> n) /\
      (forall m, In m (akeys (sc_reg cs1)) -> In m (akeys (sc_reg cs))) /\
      sc_coll cs1 = sc_coll cs /\
      (forall m f1, aget m (sc_nt cs1) = Some f1 -> n_sdsent f1 = true ->
         (exists f, aget m (sc_nt cs) = Some f /\ n_sdsent f = true) \/ sc_coll cs <> None) /\
      (forall t k, In (OHook (HCrashReport t k)) vo ->
         k = n /\ exists i rest, sc_coll cs = Some coll0 /\ bookn cs n = i :: rest /\ nth_error coll0 i = Some t) /\
      (sc_collection_is_completed cs = true -> sc_collection_is_completed cs1 = true) /\
      (sc_collection_is_completed cs1 = true -> sc_collection_is_completed cs = true) /\
      Permutation (firstn 1 (bookn cs n) ++ tokx cs1) (tokx cs) /\ HISTx cs cs1 vo.
  Proof.
    intros [Els J Jb K1 RS K2 EX RQ AL FN CC ACT] H. unfold try_block in H.
    rewrite (sched_op_runc _ d cs Els) in H. cbn [s_step] in H.
    destruct (sc_remove_node n cs) as [[cs2 o2] r2] eqn:Er. cbn [lift] in H.
    destruct (aget n (sc_assigned cs)) as [w|] eqn:Ew.
    - assert (Hnode : In n (sc_nodes cs)) by (eapply aget_some_in; eauto).
      destruct (remove_effx kind coll0 collf N _ _ _ _ _ _ J Hnode Er)
        as (csr & SX & Jr & Fnt & Fas & Fc & Freg & Fbk & CASE).
      assert (Hregi : incl (akeys (sc_reg csr)) (akeys (sc_reg cs))).
      { rewrite Freg. destruct (sc_collection_is_completed cs); [apply incl_refl|]. intros k Hk. eapply akeys_adel_incl; eauto. }
      assert (Fcomp : sc_collection_is_completed cs = true -> sc_collection_is_completed csr = true).
      { intros C0. unfold sc_collection_is_completed in *. rewrite Freg, C0, (sx_num _ _ _ _ _ _ Jr), <- (sx_num _ _ _ _ _ _ J). exact C0. }
      assert (Fcback : sc_collection_is_completed csr = true -> sc_collection_is_completed cs = true).
      { apply (completed_reg_le cs csr); [rewrite (sx_num _ _ _ _ _ _ Jr), (sx_num _ _ _ _ _ _ J); reflexivity|apply Jr|exact Hregi]. }
      assert (Fnodesr : forall m, In m (sc_nodes csr) -> In m (sc_nodes cs) /\ m <> n).
      { intros m Hm. unfold sc_nodes in *. rewrite Fas in Hm. apply akeys_adel_neq; [apply J|exact Hm]. }
      assert (Fkw : forall m, In m (sc_nodes csr) -> keysw csr m = keysw cs m).
      { intros m Hm. destruct (Fnodesr m Hm) as (_ & Hmn). unfold keysw. rewrite Fas, aget_adel_other by exact Hmn. reflexivity. }
      destruct CASE as [(Hb0 & -> & Fwq & -> & ->)|(c & rest & add & Hbc & Hnth & -> & Fwq & Eadd)].
      + (* nothing pending: no crash item *)
        inv H. split; [reflexivity|]. exists csr, []. split; [reflexivity|]. split; [reflexivity|]. split; [exact Jr|].
        split; [intros m; rewrite Fnt; apply NRo_refl|].
        split; [intros m; cbn; rewrite app_nil_r; apply Fbk|]. split; [exact Fnodesr|]. split; [exact Hregi|]. split; [exact Fc|].
        split. { intros m f1 Ef1 Hs. left. rewrite Fnt in Ef1. eauto. }
        split; [intros t k []|]. split; [exact Fcomp|]. split; [exact Fcback|].
        split; [|apply HISTx_quiet; [reflexivity|exact Fkw]].
        rewrite Hb0. cbn [firstn app]. unfold CrashScope.tokx. rewrite Fwq, Fas.
        rewrite (books_adel n (sc_assigned cs) w Ew).
        assert (Ebw : bookw w = []) by (unfold ScopeCoupling.bookn in Hb0; rewrite Ew in Hb0; exact Hb0).
        rewrite Ebw. reflexivity.
      + (* the head of the book is the crash item *)
        destruct SX as (vo & (T & Eo) & J2 & SDP & Kt & On & Xh).
        assert (Kcomp : sc_collection_is_completed cs2 = sc_collection_is_completed csr).
        { apply (completed_sj _ csr cs2 Jr J2). apply (se_reg _ _ _ _ T). }
        assert (NDr : NoDup (sc_nodes csr)) by apply Jr.
        assert (P2 : Permutation (tokx cs2) (tokx csr)) by (apply (tokx_step coll0 csr cs2 vo NDr T Kt On)).
        assert (Hcoll : sc_coll cs <> None).
        { intros E. rewrite (bookn_coll_nonex kind coll0 collf N _ cs n J E) in Hbc. discriminate. }
        assert (Ecl : sc_coll cs = Some coll0).
        { destruct (sc_coll cs) as [cl|] eqn:E; [|contradiction]. destruct (sx_coll _ _ _ _ _ _ J cl E) as (-> & _). reflexivity. }
        unfold d_handle_crashitem, hook in H. rewrite mbind_emit, mbind_get in H. cbn [d_requeue d_set_sched] in H.
        rewrite RQ in H. rewrite mbind_ret in H. unfold emit in H. inv H.
        split; [reflexivity|]. exists cs2, (vo ++ [OHook (HCrashItem c n); OHook (HCrashReport c n)]).
        split; [reflexivity|].
        split. { rewrite vfilter_app, Fnt. reflexivity. }
        split; [exact J2|].
        assert (CCv : forall m, cmds_to m (vo ++ [OHook (HCrashItem c n); OHook (HCrashReport c n)]) = cmds_to m vo).
        { intros m. rewrite cmds_to_app. cbn. apply app_nil_r. }
        split; [intros m; rewrite CCv, <- Fnt; apply (se_nt _ _ _ _ T m)|].
        split; [intros m; rewrite CCv, (se_bk _ _ _ _ T m), Fbk; reflexivity|].
        split; [intros m Hm; rewrite (se_nodes _ _ _ _ T) in Hm; apply Fnodesr; exact Hm|].
        split; [intros m Hm; rewrite (se_reg _ _ _ _ T) in Hm; apply Hregi; exact Hm|].
        split; [rewrite (se_coll _ _ _ _ T); exact Fc|].
        split. { intros m f1 Ef1 Hs. right. exact Hcoll. }
        split.
        { intros t k Hin. apply in_app_or in Hin. destruct Hin as [Hin|[Hin|[Hin|[]]]]; try discriminate.
          - exfalso. pose proof (nh_sc_remove n _ _ _ _ Er) as NH. rewrite Forall_forall in NH.
            apply (NH (OHook (HCrashReport t k))). apply (proj2 (In_vfilter_hookx (sc_nt csr) (HCrashReport t k) vo)). exact Hin.
          - inv Hin. split; [reflexivity|]. exists (pos_in coll0 t), (bookw add). auto. }
        split; [intros C; rewrite Kcomp; apply Fcomp; exact C|]. split; [intros C; apply Fcback; rewrite <- Kcomp; exact C|].
        split.
        2:{ apply (HISTx_app_quiet cs cs2 cs2 vo); [|reflexivity|reflexivity].
            apply (HISTx_of_HX cs csr cs2 vo Xh). intros m Hm. apply Fkw. rewrite <- (se_nodes _ _ _ _ T). exact Hm. }
        rewrite Hbc. cbn [firstn app]. rewrite P2. unfold CrashScope.tokx. rewrite Fwq, Fas, bookw_app.
        rewrite (books_adel n (sc_assigned cs) w Ew).
        assert (Ebw : bookw w = pos_in coll0 c :: bookw add) by (unfold ScopeCoupling.bookn in Hbc; rewrite Ew in Hbc; exact Hbc).
        rewrite Ebw. permc.
    - (* not scheduled (never became ready, or popped as surplus): KeyError, swallowed *)
      rewrite (sc_remove_unknown n cs Ew) in Er. injection Er as E1 E2 E3. subst cs2 o2 r2. inv H.
      split; [reflexivity|]. exists cs, [].
      split; [rewrite d_set_sched_same by exact Els; reflexivity|]. split; [reflexivity|]. split; [exact J|].
      split; [intros m; apply NRo_refl|].
      assert (Hb0 : bookn cs n = []) by (unfold ScopeCoupling.bookn; rewrite Ew; reflexivity).
      split. { intros m. cbn. rewrite app_nil_r. destruct (Nat.eqb m n) eqn:E; [|reflexivity].
               apply Nat.eqb_eq in E. subst m. exact Hb0. }
      split. { intros m Hm. split; [exact Hm|]. intros ->. apply aget_In_keys in Hm. contradiction. }
      split; [auto|]. split; [reflexivity|].
      split. { intros m f1 Ef1 Hs. left. eauto. }
      split; [intros t k []|]. split; [auto|]. split; [auto|]. split; [rewrite Hb0; reflexivity|].
      apply HISTx_quiet; reflexivity.
  Qed.

  Lemma clone_runx n d cs f :
    d_sched d = StC cs -> aget n (sc_nt cs) = Some f ->
    d_clone_node n d =
    (d_set_active (d_set_next_gw (d_set_sched d (StC (sc_set_nt cs (aset (d_next_gw d) (mkfresh (n_spec f)) (sc_nt cs)))))
                                 (S (d_next_gw d)))
                  (d_active d ++ [d_next_gw d]),
     [OHook (HSpawn (d_next_gw d) (n_spec f))], Ok tt).
  Proof.
    intros Els Ef. unfold d_clone_node. rewrite mbind_get. unfold d_nt. rewrite Els. cbn [s_nt]. rewrite Ef.
    cbn [of_opt]. rewrite mbind_ret. cbv zeta. unfold mbind at 1. rewrite (sched_op_runc _ d cs Els).
    cbn [s_step s_set_nt s_nt]. rewrite mbind_get, mbind_put. reflexivity.
  Qed.

  Lemma SJx_spawn G cs spec :
    SJx G cs -> SJx (S G) (sc_set_nt cs (aset G (mkfresh spec) (sc_nt cs))).
  Proof.
    intros [A B C D E F Gg Hh I Jn K L M].
    constructor; cbn [sc_set_nt sc_nt sc_kind sc_numnodes sc_reg sc_coll sc_wq sc_assigned]; try assumption.
    - intros m. rewrite LoadProofs.aget_aset. destruct (Nat.eqb m G) eqn:Em.
      + apply Nat.eqb_eq in Em. subst m. split; [intros _; lia|discriminate].
      + apply Nat.eqb_neq in Em. rewrite (D m). lia.
    - intros m Hm. pose proof (E m Hm). lia.
    - intros m cl Hin. destruct (Gg m cl Hin) as (X & Y). split; [exact X|lia].
  Qed.

  Lemma act_replace_ok n (act : list nat) G :
    NoDup act /\ length act <= N -> In n act -> ~ In G act -> G <> n ->
    NoDup (filter (fun m => negb (Nat.eqb m n)) (act ++ [G])) /\ length (filter (fun m => negb (Nat.eqb m n)) (act ++ [G])) <= N.
  Proof.
    intros (ND & L) Hin HG Hne0. rewrite filter_app. cbn [filter].
    assert (EG : negb (Nat.eqb G n) = true) by (apply negb_true_iff, Nat.eqb_neq; exact Hne0). rewrite EG. split.
    - apply nodup_app_intro; [apply NoDup_filter; exact ND|repeat constructor; intros []|].
      intros y H1 [<-|[]]. apply filter_In in H1. tauto.
    - rewrite app_length. cbn. pose proof (filter_neq_length n act Hin ND). lia.
  Qed.

  (* ---- errordown: a worker died ---- *)
  Lemma handle_errordownx n d cs d1 o1 r :
    DJx d cs -> d_active d <> [] -> PREx (QErrorDown n) d cs ->
    d_handle (QErrorDown n) d = (d1, o1, r) ->
    r = Ok tt /\ exists cs1 vo, o1 = vfilter (sc_nt cs) vo /\ HEFFx (QErrorDown n) d cs d1 cs1 vo /\
    (forall t k, In (OHook (HCrashReport t k)) vo ->
       k = n /\ exists i rest, sc_coll cs = Some coll0 /\ bookn cs n = i :: rest /\ nth_error coll0 i = Some t).
  Proof.
    intros (J0 & Jss & Jemp & Jmis) Hact Hina H. cbn [PREx] in Hina. pose proof J0 as [Els J Jb K1 RS K2 EX RQ AL FN CC ACT].
    cbn [d_handle] in H. rewrite errordown_unfold in H.
    apply LoadProofs.mbind_inv in H. destruct H as [(e & Hh & _)|(d0 & o0 & [] & oR & Hh & E & ->)]; [rewrite hook_run in Hh; discriminate|].
    rewrite hook_run in Hh. injection Hh as <- <-. cbn [app]. rename d1 into dx.
    apply LoadProofs.mbind_inv in E. destruct E as [(e & Ht & ->)|(da & oa & [] & ob & Ht & E & ->)].
    { destruct (try_block_effx _ _ _ _ _ _ J0 Ht) as (F & _). discriminate. }
    destruct (try_block_effx _ _ _ _ _ _ J0 Ht) as (_ & csa & voa & -> & -> & Ja & Tnt & Tbk & Tnodes & Tn2c & Tcoll & Tsd & Tcr & Tcomp & Tcback & Ttok & Thist).
    assert (HnG : n < d_next_gw d) by (apply AL; exact Hina).
    assert (Efn : exists fn, aget n (sc_nt csa) = Some fn).
    { destruct (aget n (sc_nt csa)) as [fn|] eqn:Ef; [eauto|]. exfalso. apply (proj2 (sx_ntk _ _ _ _ _ _ Ja n) HnG). exact Ef. }
    destruct Efn as (fn & Efn).
    rewrite mbind_get in E. cbv zeta in E. rewrite mbind_put in E.
    set (da := d_set_sched d (StC csa)) in *.
    set (db := d_set_failed_nodes da (d_failed_nodes da + 1)%Z) in *.
    assert (Eex : exhausted db = match d_max_restart d with Some m => (m <? d_failed_nodes d + 1)%Z | None => false end /\
                  (exhausted d = true -> exhausted db = true)).
    { apply (exhausted_succ N Hpos); [reflexivity|reflexivity|exact FN]. }
    destruct Eex as (Eex & Emono).
    assert (ACTN : forall m, In m (d_active d) -> m = n \/ In m (filter (fun k => negb (Nat.eqb k n)) (d_active d))).
    { intros m Hm. destruct (Nat.eq_dec m n) as [->|Hnn]; [left; reflexivity|right; apply in_filter_neq; auto]. }
    assert (NODESA : d_shouldstop d = false -> incl (sc_nodes csa) (filter (fun k => negb (Nat.eqb k n)) (d_active d))).
    { intros Hs m Hm. destruct (Tnodes m Hm) as (A & B). apply in_filter_neq. split; [apply (Jb Hs); exact A|exact B]. }
    assert (CLA : forall m, closedb (sc_nt csa) m = closedb (sc_nt cs) m) by (intros m; eapply NRo_closed; apply Tnt).
    assert (TOKA : (sc_coll cs <> None -> sc_coll csa = sc_coll cs /\ Permutation (evtokx (QErrorDown n) cs ++ tokx csa) (tokx cs)) /\
                   (sc_coll cs = None -> (sc_coll csa = None /\ tokx csa = []) \/
                                         (sc_coll csa = Some coll0 /\ Permutation (tokx csa) (bookw (UL kind coll0))))).
    { split; [intros _; split; [exact Tcoll|exact Ttok]|]. intros Hc. left. split; [congruence|].
      apply (tokx_none _ csa Ja). congruence. }
    destruct TOKA as (TK1 & TK2).
    (* the budget decision *)
    assert (DEC :
      (exhausted db = true /\
       exists m0, d_max_restart d = Some m0 /\
       ((hook (HSummary (m0 =? 0)%Z) ;;; d_triggershutdown) ;;; d_active_remove n) db = (dx, ob, r)) \/
      (exhausted db = false /\
       (((d2 <- get ;; put (d_set_shuttingdown d2 false)) ;;; d_clone_node n) ;;; d_active_remove n) db = (dx, ob, r))).
    { pose proof E as E'.
      clear E. change (d_max_restart da) with (d_max_restart d) in E'. change (d_failed_nodes da) with (d_failed_nodes d) in E'.
      destruct (d_max_restart d) as [m0|] eqn:Emr.
      - destruct (m0 <? d_failed_nodes d + 1)%Z eqn:Elt.
        + left. split; [exact Eex|]. exists m0. split; [reflexivity|]. exact E'.
        + right. split; [exact Eex|exact E'].
      - right. split; [exact Eex|exact E']. }
    clear E. destruct DEC as [(Hexh & m0 & Emr & E)|(Hexh & E)].
    - (* the budget is used up: the session shuts down *)
      assert (TRG : forall dc oc rc, (hook (HSummary (m0 =? 0)%Z) ;;; d_triggershutdown) db = (dc, oc, rc) ->
                rc = Ok tt /\ exists cs2 vo2, dc = d_withc db true cs2 /\ SE0 csa cs2 vo2 /\ SJx (d_next_gw d) cs2 /\
                  oc = OHook (HSummary (m0 =? 0)%Z) :: vfilter (sc_nt csa) vo2 /\
                  sc_wq cs2 = sc_wq csa /\ sc_assigned cs2 = sc_assigned csa /\ ON csa vo2 /\
                  (forall m, flat_map cmd_inds (cmds_to m vo2) = []) /\ cruns vo2 = [] /\
                  Forall not_hook (vfilter (sc_nt csa) vo2)).
      { intros dc oc rc Hd. apply LoadProofs.mbind_inv in Hd.
        destruct Hd as [(e & Hh & _)|(d0 & o0 & [] & oR & Hh & Hg & ->)]; [rewrite hook_run in Hh; discriminate|].
        rewrite hook_run in Hh. injection Hh as <- <-. cbn [app].
        destruct (trigger_effx db csa _ _ _ eq_refl Ja Hg) as (-> & cs2 & vo2 & -> & (T2 & ->) & J2 & W2 & A2 & C2 & I2 & R2 & _).
        split; [reflexivity|]. exists cs2, vo2. split; [reflexivity|]. split; [exact T2|]. split; [exact J2|]. split; [reflexivity|].
        split; [exact W2|]. split; [exact A2|]. split; [exact C2|]. split; [exact I2|]. split; [exact R2|].
        assert (NHT : nohook d_triggershutdown).
        { unfold d_triggershutdown. nh; try (unfold d_node_shutdown; apply nohook_node_shutdown). }
        exact (NHT _ _ _ _ Hg). }
      apply LoadProofs.mbind_inv in E. destruct E as [(e & Hg & ->)|(dc & oc & [] & od & Hg & E2 & ->)].
      { destruct (TRG _ _ _ Hg) as (F & _). discriminate. }
      destruct (TRG _ _ _ Hg) as (_ & cs2 & vo2 & -> & T2 & J2 & -> & W2 & A2 & C2 & I2 & R2 & NH2). clear TRG.
      assert (Hin2 : In n (d_active (d_withc db true cs2))) by exact Hina.
      rewrite (active_remove_run n _ Hin2) in E2. inv E2. rewrite app_nil_r.
      pose proof (completed_sj _ csa cs2 Ja J2 (se_reg _ _ _ _ T2)) as Kcomp.
      split; [reflexivity|]. exists cs2, (OHook (HNodeDown n true) :: voa ++ OHook (HSummary (m0 =? 0)%Z) :: vo2).
      assert (CCv : forall m, cmds_to m (OHook (HNodeDown n true) :: voa ++ OHook (HSummary (m0 =? 0)%Z) :: vo2)
                             = cmds_to m voa ++ cmds_to m vo2).
      { intros m. rewrite cmds_to_hook, cmds_to_app, cmds_to_hook. reflexivity. }
      split.
      { rewrite vfilter_cons_hook, vfilter_app, vfilter_cons_hook, (vfilter_ext _ _ vo2 CLA). reflexivity. }
      split; [|intros t k Hin; apply Tcr; destruct Hin as [Hin|Hin]; [discriminate|];
               apply in_app_or in Hin; destruct Hin as [Hin|[Hin|Hin]]; [exact Hin|discriminate|];
               exfalso; rewrite Forall_forall in NH2; apply (NH2 (OHook (HCrashReport t k))); apply In_vfilter_hookx; exact Hin].
      assert (Etok2 : tokx cs2 = tokx csa) by (apply tokx_frame; assumption).
      constructor.
      + constructor; dprojx.
        * reflexivity.
        * exact J2.
        * intros Hs. rewrite (se_nodes _ _ _ _ T2). apply NODESA. exact Hs.
        * intros _ _ F. change (exhausted db = false) in F. congruence.
        * intros _. right. left. exact Hexh.
        * intros _ F. discriminate F.
        * reflexivity.
        * exact RQ.
        * intros m Hm. apply in_filter_neq in Hm. apply AL. tauto.
        * unfold db, da. dprojx. lia.
        * exact I.
        * apply act_remove_ok. exact ACT.
      + intros m Hm. rewrite CCv. eapply NRo_trans; [apply Tnt|apply (se_nt _ _ _ _ T2 m)].
      + intros m Hm. rewrite CCv. rewrite (NRo_outx _ cs m _ _ J Hm (Tnt m)).
        rewrite (NRo_outx _ csa m _ _ Ja Hm (se_nt _ _ _ _ T2 m)). reflexivity.
      + intros m. rewrite CCv, flat_map_app, (se_bk _ _ _ _ T2 m), Tbk. cbn [bookmid']. rewrite <- app_assoc. reflexivity.
      + intros m Hm. left. rewrite (se_nodes _ _ _ _ T2) in Hm. apply Tnodes. exact Hm.
      + intros m Hm. left. rewrite (se_reg _ _ _ _ T2) in Hm. apply Tn2c. exact Hm.
      + intros m Hm. dprojx. destruct (ACTN m Hm) as [->|X]; [right; right; reflexivity|left; exact X].
      + dprojx. intros _ _. left. reflexivity.
      + dprojx. auto.
      + intros m E0. discriminate.
      + left. reflexivity.
      + intros k E0. inv E0. dprojx. split.
        * intros Hm. rewrite (se_nodes _ _ _ _ T2) in Hm. destruct (Tnodes _ Hm) as (_ & F). congruence.
        * intros Hm. apply in_filter_neq in Hm. destruct Hm as (_ & F). congruence.
      + intros m. rewrite (SE0_closed _ _ _ _ T2 m). apply CLA.
      + intros m Hm. left. dprojx. apply in_filter_neq in Hm. tauto.
      + intros Hc. destruct (TK1 Hc) as (X1 & X2). split; [rewrite (se_coll _ _ _ _ T2); exact X1|]. rewrite Etok2. exact X2.
      + intros Hc. destruct (TK2 Hc) as [(X1 & X2)|(X1 & X2)]; [left|right]; rewrite (se_coll _ _ _ _ T2), Etok2; auto.
      + apply HISTx_hook. apply (HISTx_app_quiet cs csa cs2 voa (OHook (HSummary (m0 =? 0)%Z) :: vo2) Thist); [exact R2|exact A2].
    - (* within the budget: a replacement worker is started *)
      assert (CL : ((d2 <- get ;; put (d_set_shuttingdown d2 false)) ;;; d_clone_node n) db =
                   (d_set_active (d_set_next_gw (d_set_sched (d_set_shuttingdown db false)
                       (StC (sc_set_nt csa (aset (d_next_gw d) (mkfresh (n_spec fn)) (sc_nt csa))))) (S (d_next_gw d)))
                      (d_active d ++ [d_next_gw d]),
                    [OHook (HSpawn (d_next_gw d) (n_spec fn))], Ok tt)).
      { unfold mbind at 1. rewrite mbind_get. unfold put.
        rewrite (clone_runx n (d_set_shuttingdown db false) csa fn eq_refl Efn). reflexivity. }
      apply LoadProofs.mbind_inv in E. destruct E as [(e & Hg & ->)|(dc & oc & [] & od & Hg & E2 & ->)].
      { rewrite CL in Hg. discriminate. }
      rewrite CL in Hg. injection Hg as <- <-. clear CL.
      set (G := d_next_gw d) in *.
      set (csn := sc_set_nt csa (aset G (mkfresh (n_spec fn)) (sc_nt csa))) in *.
      match type of E2 with d_active_remove n ?D = _ => set (dc := D) in * end.
      assert (Hin2 : In n (d_active dc)) by (unfold dc; dprojx; apply in_or_app; left; exact Hina).
      rewrite (active_remove_run n _ Hin2) in E2. inv E2. rewrite app_nil_r.
      split; [reflexivity|]. exists csn, (OHook (HNodeDown n true) :: voa ++ [OHook (HSpawn G (n_spec fn))]).
      assert (CCv : forall m, cmds_to m (OHook (HNodeDown n true) :: voa ++ [OHook (HSpawn G (n_spec fn))]) = cmds_to m voa).
      { intros m. rewrite cmds_to_hook, cmds_to_app. cbn. apply app_nil_r. }
      assert (GNn : G <> n) by (unfold G; lia).
      assert (AGN : forall m, m <> G -> aget m (sc_nt csn) = aget m (sc_nt csa)).
      { intros m Hm. unfold csn. cbn [sc_nt sc_set_nt]. apply aget_aset_neq. exact Hm. }
      assert (AGG : aget G (sc_nt csn) = Some (mkfresh (n_spec fn))) by (unfold csn; cbn [sc_nt sc_set_nt]; apply aget_aset_eq).
      assert (GIN : In G (filter (fun k => negb (Nat.eqb k n)) (d_active d ++ [G]))).
      { apply in_filter_neq. split; [apply in_or_app; right; left; reflexivity|exact GNn]. }
      assert (GNA : ~ In G (d_active d)) by (intros X; specialize (AL G X); unfold G in AL; lia).
      split.
      { rewrite vfilter_cons_hook, vfilter_app. reflexivity. }
      split; [|intros t k Hin; apply Tcr; destruct Hin as [Hin|Hin]; [discriminate|];
               apply in_app_or in Hin; destruct Hin as [Hin|[Hin|[]]]; [exact Hin|discriminate]].
      assert (Etokn : tokx csn = tokx csa) by reflexivity.
      constructor.
      + constructor; unfold dc; dprojx.
        * reflexivity.
        * apply SJx_spawn. exact Ja.
        * intros Hs m Hm. apply (NODESA Hs) in Hm. apply in_filter_neq in Hm. apply in_filter_neq.
          split; [apply in_or_app; left; tauto|tauto].
        * intros Hc Hs Hx m f1 Ef1. change (sc_collection_is_completed csn) with (sc_collection_is_completed csa) in Hc.
          change (exhausted db = false) in Hx.
          assert (Hc0 : sc_collection_is_completed cs = false).
          { apply not_true_false. intros C. rewrite (Tcomp C) in Hc. discriminate. }
          destruct (Nat.eq_dec m G) as [->|Hm].
          -- rewrite AGG in Ef1. inv Ef1. reflexivity.
          -- rewrite (AGN m Hm) in Ef1. apply not_true_false. intros Hsd.
             destruct (Tsd m f1 Ef1 Hsd) as [(f & Ef & Hf)|F].
             ++ assert (Hx0 : exhausted d = false) by (apply not_true_false; intros F; rewrite (Emono F) in Hx; discriminate).
                rewrite (K1 Hc0 Hs Hx0 m f Ef) in Hf. discriminate.
             ++ destruct (sc_coll cs) as [cl|] eqn:Ecl; [|contradiction].
                destruct (sx_coll _ _ _ _ _ _ J cl Ecl) as (_ & X & _). congruence.
        * discriminate.
        * intros _ _ _. left. exists G, (mkfresh (n_spec fn)). split; [exact GIN|]. split; [exact AGG|reflexivity].
        * intros F. change (exhausted db = true) in F. congruence.
        * exact RQ.
        * intros m Hm. apply in_filter_neq in Hm. destruct Hm as (Hm & _). apply in_app_or in Hm.
          destruct Hm as [Hm|[<-|[]]]; [specialize (AL m Hm); unfold G; lia|unfold G; lia].
        * unfold db, da. dprojx. lia.
        * exact I.
        * apply act_replace_ok; auto.
      + intros m Hm. rewrite CCv. rewrite AGN by (unfold G; lia). apply Tnt.
      + intros m Hm. rewrite CCv. exact (NRo_outx _ cs m _ _ J Hm (Tnt m)).
      + intros m. rewrite CCv. change (bookn csn m) with (bookn csa m). rewrite Tbk. reflexivity.
      + intros m Hm. left. apply Tnodes. exact Hm.
      + intros m Hm. left. apply Tn2c. exact Hm.
      + intros m Hm. unfold dc. dprojx. destruct (ACTN m Hm) as [->|X]; [right; right; reflexivity|left].
        apply in_filter_neq in X. apply in_filter_neq. split; [apply in_or_app; left; tauto|tauto].
      + unfold dc. dprojx. intros _ F. rewrite F in GIN. destruct GIN.
      + unfold dc. dprojx. auto.
      + intros m E0. discriminate.
      + right. unfold dc. dprojx. split; [reflexivity|]. split; [exists (mkfresh (n_spec fn)); split; [exact AGG|repeat split]|].
        split; [exact GIN|]. split.
        * intros Hm. change (sc_nodes csn) with (sc_nodes csa) in Hm. pose proof (sx_nodes _ _ _ _ _ _ Ja _ Hm). unfold G in *. lia.
        * intros Hm. change (sc_reg csn) with (sc_reg csa) in Hm.
          unfold akeys in Hm. apply in_map_iff in Hm. destruct Hm as ([k cl] & Ek & Hin). cbn in Ek. subst k.
          destruct (sx_reg _ _ _ _ _ _ Ja _ _ Hin) as (_ & X). unfold G in *. lia.
      + intros k E0. inv E0. unfold dc. dprojx. split.
        * intros Hm. destruct (Tnodes _ Hm) as (_ & F). congruence.
        * intros Hm. apply in_filter_neq in Hm. destruct Hm as (_ & F). congruence.
      + intros m. destruct (Nat.eq_dec m G) as [->|Hm].
        * unfold closedb. rewrite AGG. cbn. destruct (aget G (sc_nt cs)) as [f|] eqn:Ef; [|reflexivity].
          exfalso. assert (X : G < d_next_gw d) by (apply (sx_ntk _ _ _ _ _ _ J); congruence). unfold G in X. lia.
        * unfold closedb at 1. rewrite (AGN m Hm). apply CLA.
      + intros m Hm. unfold dc in Hm. dprojx. apply in_filter_neq in Hm. destruct Hm as (Hm & _).
        apply in_app_or in Hm. destruct Hm as [Hm|[<-|[]]]; [left; exact Hm|right]. split; reflexivity.
      + intros Hc. change (sc_coll csn) with (sc_coll csa). rewrite Etokn. exact (TK1 Hc).
      + intros Hc. change (sc_coll csn) with (sc_coll csa). rewrite Etokn. exact (TK2 Hc).
      + apply HISTx_hook. apply (HISTx_app_quiet cs csa csn voa [OHook (HSpawn G (n_spec fn))] Thist); reflexivity.
  Qed.

  Lemma tests_finished_invx cs : sc_tests_finished cs = true -> sc_collection_is_completed cs = true /\ sc_wq cs = [].
  Proof.
    unfold sc_tests_finished. intros H. apply andb_true_iff in H. destruct H as (H & _).
    apply andb_true_iff in H. destruct H as (C & P). split; [exact C|]. destruct (sc_wq cs); [reflexivity|discriminate].
  Qed.

  Lemma UL_nil_coll : coll0 = [] -> UL kind coll0 = [].
  Proof. intros ->. reflexivity. Qed.

  (* an empty collection: nothing to do, the tests are "finished" at once *)
  Lemma empty_coll_finished G cs : SJx G cs -> sc_coll cs = Some [] -> sc_tests_finished cs = true.
  Proof.
    intros J Ec. destruct (sx_coll _ _ _ _ _ _ J [] Ec) as (E0 & C & _).
    pose proof (UL_nil_coll (eq_sym E0)) as EU.
    assert (NOU : forall sc u, ~ munit kind coll0 sc u).
    { intros sc u (u0 & Hin & _). rewrite EU in Hin. destruct Hin. }
    assert (Ew : sc_wq cs = []).
    { destruct (sc_wq cs) as [|[sc u] q] eqn:E; [reflexivity|]. exfalso. apply (NOU sc u). apply (sx_pool _ _ _ _ _ _ J). rewrite E. left. reflexivity. }
    unfold sc_tests_finished. rewrite C, Ew. cbn [andb]. apply forallb_forall. intros [k w] Hin. cbn [snd].
    destruct w as [|[sc u] w']; [reflexivity|]. exfalso. apply (NOU sc u). apply (sx_mu _ _ _ _ _ _ J k _ Hin). left. reflexivity.
  Qed.

  (* a complete collection that could not be fixed (the workers disagree): nothing will ever be distributed *)
  Lemma none_coll_finished G cs :
    SJx G cs -> sc_collection_is_completed cs = true -> sc_coll cs = None -> sc_tests_finished cs = true.
  Proof.
    intros J C Ec. destruct (sx_none _ _ _ _ _ _ J Ec) as (Ew & Ha).
    unfold sc_tests_finished. rewrite C, Ew. cbn [andb]. apply forallb_forall. intros [k w] Hin. cbn [snd].
    rewrite (Ha k w Hin). reflexivity.
  Qed.

  (* the end of the loop iteration re-establishes the start-of-iteration invariant *)
  Lemma DJ0x_rest d1 cs1 cs2 vo2 :
    DJ0x d1 cs1 -> SE0 cs1 cs2 vo2 -> SJx (d_next_gw d1) cs2 -> sc_wq cs2 = sc_wq cs1 -> sc_assigned cs2 = sc_assigned cs1 ->
    (d_shuttingdown d1 = true -> cs2 = cs1) ->
    (d_shuttingdown d1 || sc_tests_finished cs1 || d_shouldstop d1 = false -> cs2 = cs1) ->
    DJx (d_withc d1 (d_shuttingdown d1 || sc_tests_finished cs1 || d_shouldstop d1) cs2) cs2.
  Proof.
    intros J0 T J2 Ew Ea Same1 Same2. pose proof J0 as [Els J Jb K1 RS K2 EX RQ AL FN CC ACT].
    pose proof (completed_sj _ cs1 cs2 J J2 (se_reg _ _ _ _ T)) as Kcomp.
    split; [|split; [|split]].
    - constructor; dprojx.
      + reflexivity.
      + exact J2.
      + rewrite (se_nodes _ _ _ _ T). exact Jb.
      + rewrite Kcomp. intros Hc Hss Hex. change (exhausted d1 = false) in Hex.
        destruct (d_shuttingdown d1) eqn:Esd.
        * rewrite (Same1 eq_refl). apply K1; assumption.
        * destruct (sc_tests_finished cs1) eqn:Etf.
          -- exfalso. destruct (tests_finished_invx _ Etf) as (C & _). congruence.
          -- rewrite Hss in Same2. rewrite (Same2 eq_refl). apply K1; assumption.
      + rewrite Kcomp. intros Hsd. change (exhausted (d_withc d1 (d_shuttingdown d1 || sc_tests_finished cs1 || d_shouldstop d1) cs2)) with (exhausted d1).
        destruct (d_shuttingdown d1) eqn:Esd; [apply RS; reflexivity|].
        destruct (sc_tests_finished cs1) eqn:Etf.
        * right. right. destruct (tests_finished_invx _ Etf) as (C & _). exact C.
        * cbn in Hsd. left. exact Hsd.
      + intros HS Hsd Hss. rewrite (Same2 Hsd). apply orb_false_iff in Hsd. destruct Hsd as (Hsd & _).
        apply orb_false_iff in Hsd. destruct Hsd as (Hsd & _). apply K2; assumption.
      + intros Hex. change (exhausted d1 = true) in Hex. rewrite (EX Hex). reflexivity.
      + exact RQ.
      + exact AL.
      + exact FN.
      + exact I.
      + exact ACT.
    - dprojx. intros Hss. rewrite Hss. apply orb_true_r.
    - dprojx. rewrite (se_coll _ _ _ _ T). intros Hc.
      rewrite (empty_coll_finished _ cs1 J Hc), orb_true_r. reflexivity.
    - dprojx. rewrite Kcomp, (se_coll _ _ _ _ T). intros C Hc.
      rewrite (none_coll_finished _ cs1 J C Hc), orb_true_r. reflexivity.
  Qed.

  (* ---- one iteration of the controller loop: it never raises, and its effect ---- *)
  Theorem loop_once_okx ev d cs d' o r :
    DJx d cs -> d_active d <> [] -> PREx ev d cs ->
    (forall n ids, ev = QCollFinish n ids -> sc_coll cs = None ->
       match sc_reg cs with (k0, c) :: _ => c = coll0 | [] => collf n = coll0 end) ->
    d_loop_once ev d = (d', o, r) ->
    r = Ok tt /\ exists cs' vo, o = vfilter (sc_nt cs) vo /\ HEFFx ev d cs d' cs' vo /\ DJx d' cs' /\
      (SAMEf -> d_active d' = [] -> d_shuttingdown d' = true) /\
      (forall t k, In (OHook (HCrashReport t k)) o ->
         ev = QErrorDown k /\ exists i rest, sc_coll cs = Some coll0 /\ bookn cs k = i :: rest /\ nth_error coll0 i = Some t).
  Proof.
    intros DJd Hact Hpre Hfirst H. pose proof H as Hfull. rewrite loop_once_unfold in H.
    assert (HE : forall d1 o1 r1, d_handle ev d = (d1, o1, r1) ->
       r1 = Ok tt /\ exists cs1 vo, o1 = vfilter (sc_nt cs) vo /\ HEFFx ev d cs d1 cs1 vo /\
       (forall t k, In (OHook (HCrashReport t k)) o1 -> forall n, ev = QErrorDown n ->
          k = n /\ exists i rest, sc_coll cs = Some coll0 /\ bookn cs n = i :: rest /\ nth_error coll0 i = Some t)).
    { intros d1 o1 r1 H1.
      assert (NOCR : forall (P : Prop), (exists cs1 vo, o1 = vfilter (sc_nt cs) vo /\ HEFFx ev d cs d1 cs1 vo) ->
                 (forall n, ev <> QErrorDown n) ->
                 exists cs1 vo, o1 = vfilter (sc_nt cs) vo /\ HEFFx ev d cs d1 cs1 vo /\
                   (forall t k, In (OHook (HCrashReport t k)) o1 -> forall n, ev = QErrorDown n ->
                      k = n /\ exists i rest, sc_coll cs = Some coll0 /\ bookn cs n = i :: rest /\ nth_error coll0 i = Some t)).
      { intros _ (cs1 & vo & A & B) Hnerr. exists cs1, vo. split; [exact A|]. split; [exact B|].
        intros t k _ n E. exfalso. exact (Hnerr n E). }
      assert (QUIET : match ev with
                      | QLogStart _ _ | QLogFinish _ _ | QWarning | QReport _ _ _ _ | QCollectReport _ _ _ => True
                      | _ => False end -> r1 = Ok tt /\ exists cs1 vo, o1 = vfilter (sc_nt cs) vo /\ HEFFx ev d cs d1 cs1 vo).
      { intros Hq. destruct (handle_quiet' ev d d1 o1 r1 Hq H1) as (-> & S & C). split; [reflexivity|]. exists cs, o1.
        split; [symmetry; apply vfilter_quiet; exact C|].
        apply heff_samex; auto; try apply DJd; destruct ev; try contradiction; try reflexivity; try (intros m b E; discriminate);
          intros ? E; discriminate. }
      destruct ev; try (destruct (QUIET Logic.I) as (-> & X); split; [reflexivity|]; apply (NOCR True X); intros ? E; discriminate);
        try (cbn in Hpre; contradiction).
      - destruct (handle_readyx _ _ _ _ _ _ DJd Hact Hpre H1) as (-> & X). split; [reflexivity|]. apply (NOCR True X); intros ? E; discriminate.
      - destruct (handle_collfinishx _ _ _ _ _ _ _ DJd Hact Hpre (Hfirst _ _ eq_refl) H1) as (-> & X). split; [reflexivity|]. apply (NOCR True X); intros ? E; discriminate.
      - destruct (handle_completex _ _ _ _ _ _ _ _ DJd Hact Hpre H1) as (-> & X). split; [reflexivity|]. apply (NOCR True X); intros ? E; discriminate.
      - destruct (handle_finishedx _ _ _ _ _ _ _ DJd Hact Hpre H1) as (-> & X). split; [reflexivity|]. apply (NOCR True X); intros ? E; discriminate.
      - destruct (handle_errordownx _ _ _ _ _ _ DJd Hact Hpre H1) as (-> & cs1 & vo & A & B & C). split; [reflexivity|].
        exists cs1, vo. split; [exact A|]. split; [exact B|]. intros t k Hin n0 E. inv E. apply C.
        rewrite <- (In_vfilter_hookx (sc_nt cs)). exact Hin. }
    apply LoadProofs.mbind_inv in H. destruct H as [(e & H1 & ->)|(d1 & o1 & a & o2 & H1 & H2 & ->)].
    { destruct (HE _ _ _ H1) as (F & _). discriminate. }
    destruct (HE _ _ _ H1) as (_ & cs1 & vo1 & -> & E1 & CR1). clear HE.
    pose proof (hx_dj _ _ _ _ _ _ E1) as J1. pose proof J1 as [Els1 JJ1 Jb1 K11 RS1 K21 EX1 RQ1 AL1 FN1 CC1 ACT1].
    destruct (loop_rest_effx _ _ _ _ _ Els1 JJ1 H2) as (-> & cs2 & vo2 & -> & (T & ->) & J2 & P & B & C2 & I2 & R2 & Same2 & Same1).
    assert (Same2' : d_shuttingdown d1 || sc_tests_finished cs1 || d_shouldstop d1 = false -> cs2 = cs1).
    { intros X. apply (Same2 X). }
    assert (Same1' : d_shuttingdown d1 = true -> cs2 = cs1) by (intros X; apply (Same1 X)).
    pose proof (DJ0x_rest d1 cs1 cs2 vo2 J1 T J2 P B Same1' Same2') as DJ2.
    assert (GW : d_next_gw d <= d_next_gw d1) by (destruct (hx_gw _ _ _ _ _ _ E1) as [X|(X & _)]; lia).
    assert (OUT2 : forall m, d_next_gw d <= m -> cmds_to m vo2 = []).
    { intros m Hm. apply C2. intros Hin. pose proof (sx_nodes _ _ _ _ _ _ JJ1 m Hin) as Hlt.
      destruct (hx_gw _ _ _ _ _ _ E1) as [X|(X & _ & _ & Hnn & _)]; [lia|].
      assert (m = d_next_gw d) by lia. subst m. contradiction. }
    assert (Etok2 : tokx cs2 = tokx cs1) by (apply tokx_frame; assumption).
    split; [reflexivity|]. exists cs2, (vo1 ++ vo2).
    split. { rewrite vfilter_app. f_equal. apply vfilter_ext. apply (hx_closed _ _ _ _ _ _ E1). }
    split; [|split; [exact DJ2|split]].
    - constructor.
      + apply DJ2.
      + intros m Hm. rewrite cmds_to_app. eapply NRo_trans; [apply (hx_nt _ _ _ _ _ _ E1 m Hm)|apply (se_nt _ _ _ _ T m)].
      + intros m Hm. rewrite cmds_to_app, (hx_out _ _ _ _ _ _ E1 m Hm), (OUT2 m Hm). reflexivity.
      + intros m. rewrite cmds_to_app, flat_map_app, (se_bk _ _ _ _ T m), (hx_bk _ _ _ _ _ _ E1 m), <- app_assoc. reflexivity.
      + intros m Hm. apply (hx_nodes _ _ _ _ _ _ E1). rewrite (se_nodes _ _ _ _ T) in Hm. exact Hm.
      + intros m Hm. apply (hx_n2c _ _ _ _ _ _ E1). rewrite (se_reg _ _ _ _ T) in Hm. exact Hm.
      + intros m Hm. exact (hx_act _ _ _ _ _ _ E1 m Hm).
      + dprojx. intros HS Hempty. left.
        destruct (hx_fin _ _ _ _ _ _ E1 HS Hempty) as [X|[X|X]]; rewrite X; rewrite ?orb_true_r, ?orb_true_l; reflexivity.
      + dprojx. apply (hx_ss _ _ _ _ _ _ E1).
      + dprojx. apply (hx_stop _ _ _ _ _ _ E1).
      + dprojx. destruct (hx_gw _ _ _ _ _ _ E1) as [X|(X & (f & Ef & Hf) & Hin & Hnn & Hnc)]; [left; exact X|right].
        split; [exact X|]. split.
        * pose proof (se_nt _ _ _ _ T (d_next_gw d)) as R. rewrite Ef in R.
          rewrite (C2 _ Hnn) in R. destruct (aget (d_next_gw d) (sc_nt cs2)) as [f2|]; [|destruct R].
          cbn in R. apply NR_nil_inv in R. subst f2. exists f. auto.
        * split; [exact Hin|]. split; [rewrite (se_nodes _ _ _ _ T); exact Hnn|rewrite (se_reg _ _ _ _ T); exact Hnc].
      + intros n E. dprojx. destruct (hx_err _ _ _ _ _ _ E1 n E) as (A1 & A2). split; [rewrite (se_nodes _ _ _ _ T); exact A1|exact A2].
      + intros m. rewrite (SE0_closed _ _ _ _ T m). apply (hx_closed _ _ _ _ _ _ E1).
      + dprojx. exact (hx_actb _ _ _ _ _ _ E1).
      + intros Hc. destruct (hx_tok _ _ _ _ _ _ E1 Hc) as (X1 & X2). split; [rewrite (se_coll _ _ _ _ T); exact X1|]. rewrite Etok2. exact X2.
      + intros Hc. destruct (hx_tok0 _ _ _ _ _ _ E1 Hc) as [(X1 & X2)|(X1 & X2)]; [left|right]; rewrite (se_coll _ _ _ _ T), Etok2; auto.
      + apply (HISTx_app_quiet cs cs1 cs2 vo1 vo2 (hx_hist _ _ _ _ _ _ E1) R2 B).
    - dprojx. intros HS Hempty.
      destruct (hx_fin _ _ _ _ _ _ E1 HS Hempty) as [X|[X|X]]; rewrite X; rewrite ?orb_true_r, ?orb_true_l; reflexivity.
    - intros t k Hin. apply in_app_or in Hin. destruct Hin as [Hin|Hin].
      + destruct (death_event ev) eqn:Ed.
        * destruct ev; try discriminate.
          -- destruct sk; try discriminate. cbn in Hpre. contradiction.
          -- destruct (CR1 t k Hin n eq_refl) as (-> & X). split; [reflexivity|exact X].
        * exfalso. pose proof (no_crash_report_without_death _ _ _ _ _ Ed Hfull) as Z.
          assert (Hin' : In (OHook (HCrashReport t k)) (vfilter (sc_nt cs) vo1 ++ vfilter (sc_nt cs1) vo2)) by (apply in_or_app; left; exact Hin).
          pose proof (count_zero_notin _ _ _ Z Hin') as F. discriminate.
      + exfalso. pose proof (nohook_loop_rest _ _ _ _ H2) as NH. rewrite Forall_forall in NH. exact (NH _ Hin).
  Qed.
End CtlX.
