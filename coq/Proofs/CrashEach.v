(* CrashEach.v -- the each scheduler (--dist each) and the controller (DSession) of pytest-xdist in
   runs WITH worker crashes and replacement workers: parts A-C of the crash proof for MEach (part D,
   the system invariant, the chain invariant and the theorems, is in CrashEachTheorems.v).

   Organisation:
     part A  one worker: the commands of each mode with crashes are CRunAll, CRun pend (a replacement
             that inherits the remainder of a dead worker) and CShutdown; the shape of a worker's item
             stream (stream_x: at most one run command -- an interval [a, K) of its collection -- then
             at most one shutdown marker);
     part B  the each scheduler, closed channels allowed (virtual outputs as in CrashCoupling.v):
             add_node, add_node_collection (before completion; after completion with the inheritance
             loop over _removed2pending: e_inherit_run, e_add_coll_late), mark_test_complete,
             remove_node (idle / with a crash item: e_remove_busy_run), schedule (sched1, sweep_spec),
             shutdown sweeps (SDx);
     part C  the controller: scheduler invariant EX (node ids range below the group counter; every book
             and every entry of _removed2pending is an interval [b, K) of the node's collection; after
             completion a node that was not started has an empty book), controller invariant DX0 / DXb
             (the session is shutting down exactly when tests_finished, a stop request or the end of the
             restart budget -- all permanent -- says so; otherwise no node of the scheduler that was not
             started has been told to shut down), every handler -- errordown with crash item, restart
             budget and _clone_node included -- with its exact effect HEFFx (flags and virtual commands
             per node: FX; books; _removed2pending: hx_rmv; which nodes are handed tests: hx_new), and
             one loop iteration (loop_once_okX: it never raises.  The only thing it needs besides the
             invariant is that no plugin re-queues crash items, d_requeue = 0; otherwise
             mark_test_pending raises NotImplementedError, see CrashEachTheorems.v). *)
From XV Require Import Base Worker Ctl SchedLoad SchedSteal SchedScope SchedEach Sched DSession System
  NoHook DSessionProofs WorkerProofs LoadProofs FifoProofs ExactlyOnce Coupling CrashCoupling EachSystem.
From Coq Require Import Permutation.
Open Scope nat_scope.

(* ====================================================================================== *)
(* Part A: one worker                                                                      *)
(* ====================================================================================== *)
Definition ecmd (c : cmd) : Prop := match c with CRunAll | CShutdown | CRun _ => True | _ => False end.
Definition is_run (c : cmd) : Prop := match c with CRunAll | CRun _ => True | _ => False end.

Lemma recv_next_x o inbox : forall w,
  Forall ecmd inbox ->
  let w' := recv_next o w inbox in
  wph w' = wph w /\ wpopped w' = wpopped w /\ wreply w' = wreply w /\ wcb w' = wcb w /\ wran w' = wran w /\
  Forall ecmd (winbox w') /\
  map snd (wq w') ++ wrpend w' ++ flat_map (citems (ncollected o)) (winbox w') =
    map snd (wq w) ++ flat_map (citems (ncollected o)) inbox.
Proof.
  induction inbox as [|c r IH]; intros w G; cbv zeta.
  - cbn. rewrite !app_nil_r. repeat split; try reflexivity. constructor.
  - inversion G as [|c' r' Gc Gr]; subst. destruct c as [ixs| |s| |]; try contradiction.
    + destruct ixs as [|i ixs]; [exact (IH w Gr)|].
      cbn [recv_next upd_recv w_put wph wpopped wreply wcb wq wrpend winbox wran flat_map citems map].
      rewrite map_app. cbn [map snd app]. rewrite <- !app_assoc. cbn [app].
      repeat split; try reflexivity. exact Gr.
    + cbn [recv_next flat_map citems].
      destruct (seq 0 (ncollected o)) as [|i ixs] eqn:Es.
      * cbn [map app]. exact (IH w Gr).
      * cbn [upd_recv w_put wph wpopped wreply wcb wq wrpend winbox wran].
        rewrite map_app. cbn [map snd app]. rewrite <- !app_assoc. cbn [app].
        repeat split; try reflexivity. exact Gr.
    + cbn [recv_next upd_recv w_put wph wpopped wreply wcb wq wrpend winbox wran flat_map citems].
      rewrite map_app. cbn [map snd app]. rewrite <- !app_assoc. cbn [app].
      repeat split; try reflexivity. exact Gr.
Qed.

(* the receiver thread moves items towards the queue; nothing is emitted *)
Lemma recv_step_x o w :
  Forall ecmd (winbox w) -> wreply w = None ->
  let w' := fst (recv_step o w) in
  snd (recv_step o w) = [] /\ wrest (ncollected o) w' = wrest (ncollected o) w /\
  wph w' = wph w /\ wpopped w' = wpopped w /\ wreply w' = None /\ wran w' = wran w /\
  Forall ecmd (winbox w').
Proof.
  intros G Hr. cbv zeta. unfold recv_step. destruct (negb (wcb w)); [cbn; auto 10|].
  rewrite Hr. cbn [upd_recv wrpend winbox].
  destruct (wrpend w) as [|it rest] eqn:Er; cbn [fst snd].
  - destruct (recv_next_x o (winbox w) (upd_recv w (winbox w) [] None) G) as (A & B & C & _ & D & E & F).
    cbn [upd_recv wph wpopped wreply wq wran] in A, B, C, D, F.
    split; [reflexivity|]. split; [|auto 10].
    unfold wrest. rewrite F, Er. reflexivity.
  - split; [reflexivity|]. split; [|cbn [upd_recv w_put wph wpopped wreply wran winbox]; auto 10].
    unfold wrest. cbn [upd_recv w_put wq wrpend winbox]. rewrite Er, map_app.
    cbn [map snd app]. rewrite <- !app_assoc. reflexivity.
Qed.

(* ---- the shape of a worker's item stream ----
   st: the scheduler has started the node (it is in `_started`); sd: shutdown sent.
   The items are an interval [a, K) of the worker's collection (empty when no run command was
   sent), followed by the shutdown marker when shutdown was sent. *)
Definition stream_x (K : nat) (st sd : bool) (S : list item) : Prop :=
  exists A, S = map Idx A ++ (if sd then [Mark] else []) /\
            (A = [] \/ (st = true /\ exists a, A = seq a (K - a))).

Lemma stream_x_mono K st st' sd S : (st = true -> st' = true) -> stream_x K st sd S -> stream_x K st' sd S.
Proof. intros H (A & E & [HA|(Hs & a & Ea)]); exists A; (split; [exact E|]); [left; exact HA|right; eauto]. Qed.

Lemma stream_x_nil K st : stream_x K st false [].
Proof. exists []. split; [reflexivity|left; reflexivity]. Qed.

(* a node that was not started and not told to shut down has received nothing *)
Lemma stream_x_fresh K S : stream_x K false false S -> S = [].
Proof. intros (A & E & [->|(F & _)]); [exact E|discriminate]. Qed.

Lemma stream_x_sd K st S : stream_x K st false S -> stream_x K st true (S ++ [Mark]).
Proof. intros (A & E & H). exists A. split; [rewrite E, app_nil_r; reflexivity|exact H]. Qed.

Lemma stream_x_run K st' a X :
  st' = true -> X = map Idx (seq a (K - a)) -> stream_x K st' false X.
Proof. intros Hs ->. exists (seq a (K - a)). split; [rewrite app_nil_r; reflexivity|right; eauto]. Qed.

(* safety for one worker: the tests it has started are an initial part of an interval [a, K) *)
Lemma stream_x_safe K st sd w X :
  WInv w -> stream_x K st sd (wstr K w ++ X) ->
  exists a rest, seq a (K - a) = ran_idx w ++ rest.
Proof.
  intros I (A & E & HA). destruct (started_prefix_popped w I) as (more & Em). fold (ran_idx w) in Em.
  assert (Ei : item_inds (wstr K w ++ X) = ran_idx w ++ (more ++ item_inds (wrest K w) ++ item_inds X)).
  { unfold wstr. rewrite !item_inds_app, <- ents_idx_items, Em, <- !app_assoc. reflexivity. }
  rewrite E, item_inds_app, item_inds_map_idx in Ei.
  assert (Em0 : item_inds (if sd then [Mark] else []) = []) by (destruct sd; reflexivity).
  rewrite Em0, app_nil_r in Ei.
  destruct HA as [->|(_ & a & ->)].
  - symmetry in Ei. apply app_eq_nil in Ei. destruct Ei as (-> & _). exists 0, (seq 0 (K - 0)). reflexivity.
  - eexists. eexists. exact Ei.
Qed.

(* a worker that has exited was told to shut down *)
Lemma exited_sdsent_x K st sd w X :
  WInv w -> wph w = PExited -> stream_x K st sd (wstr K w ++ X) -> markpopped w -> sd = true.
Proof.
  intros I Hp (A & E & _) (pre & t & Ep). destruct sd; [reflexivity|]. exfalso.
  rewrite app_nil_r in E. unfold wstr in E. rewrite Ep, map_app in E. cbn [map snd] in E.
  assert (Hin : In Mark (map Idx A)).
  { rewrite <- E, <- !app_assoc. apply in_or_app. right. left. reflexivity. }
  apply in_map_iff in Hin. destruct Hin as (x & F & _). discriminate.
Qed.

(* ====================================================================================== *)
(* Part B: the each scheduler, closed channels allowed                                      *)
(* ====================================================================================== *)
(* Outputs are stated as `vfilter nt vo`: vo is what the scheduler would send if no channel were
   closed; a command for a closed channel is dropped by sendcommand but booked all the same. *)

Lemma closedb_set_same nt n f f' m :
  aget n nt = Some f -> n_closed f' = n_closed f -> closedb (aset n f' nt) m = closedb nt m.
Proof.
  intros Ef Hc. unfold closedb. rewrite ea_get_set. destruct (Nat.eqb m n) eqn:E; [|reflexivity].
  apply Nat.eqb_eq in E. subst m. rewrite Ef. exact Hc.
Qed.

(* ---- node.shutdown() ---- *)
Lemma e_node_shutdown_x n es f :
  aget n (e_nt es) = Some f ->
  node_shutdown e_nt e_set_nt n es =
    if n_down f || n_sdsent f then (es, [], Ok tt)
    else (e_set_nt es (aset n (sdm f) (e_nt es)), vfilter (e_nt es) [OSend n CShutdown], Ok tt).
Proof.
  intros Ef. rewrite (vfilter_send _ _ _ _ Ef).
  unfold node_shutdown, node_send, node_flags, mbind, get, put, of_opt, ret, emit.
  rewrite Ef. cbn. destruct (n_down f || n_sdsent f) eqn:E; [reflexivity|]. cbn. rewrite Ef. cbn.
  apply orb_false_iff in E. destruct E as (E1 & E2). unfold sdm. rewrite E1.
  destruct (n_closed f); reflexivity.
Qed.

(* the flags of a node and the (virtual) commands of a shutdown sweep *)
Definition SDo (a : option nctl) (cs : list cmd) (b : option nctl) : Prop :=
  match a, b with
  | Some f, Some f' => (cs = [] /\ f' = f) \/
                       (cs = [CShutdown] /\ n_sdsent f = false /\ n_down f = false /\ f' = sdm f)
  | None, None => cs = []
  | _, _ => False
  end.

Lemma SDo_refl a : SDo a [] a.
Proof. destruct a; cbn; auto. Qed.

Lemma SDo_trans a c1 b c2 c : SDo a c1 b -> SDo b c2 c -> SDo a (c1 ++ c2) c.
Proof.
  destruct a as [f|], b as [f1|], c as [f2|]; cbn; try tauto.
  - intros [(-> & ->)|(-> & H1 & H2 & ->)] [(-> & ->)|(-> & H3 & H4 & ->)]; cbn; auto.
    cbn in H3. discriminate.
  - intros -> ->. reflexivity.
Qed.

Lemma SDo_keys a cs b : SDo a cs b -> (b <> None <-> a <> None).
Proof. destruct a, b; cbn; try tauto; intros _; split; intros; discriminate. Qed.

Lemma SDo_fwd a cs b f : SDo a cs b -> a = Some f ->
  exists f', b = Some f' /\ n_spec f' = n_spec f /\ n_down f' = n_down f /\ n_closed f' = n_closed f /\
             (n_sdsent f = true -> n_sdsent f' = true) /\
             ((cs = [] /\ f' = f) \/ (cs = [CShutdown] /\ n_sdsent f = false /\ n_down f = false /\ f' = sdm f)).
Proof.
  intros H ->. destruct b as [f'|]; [|destruct H]. exists f'. split; [reflexivity|].
  cbn in H. destruct H as [(-> & ->)|(-> & H1 & H2 & ->)]; cbn; auto 10.
Qed.

Lemma SDo_closed nt nt' m cs : SDo (aget m nt) cs (aget m nt') -> closedb nt' m = closedb nt m.
Proof.
  unfold closedb. destruct (aget m nt) as [f|] eqn:Ef.
  - intros H. destruct (SDo_fwd _ _ _ _ H eq_refl) as (f' & -> & _ & _ & C & _). exact C.
  - destruct (aget m nt'); cbn; [tauto|reflexivity].
Qed.

Definition is_sd_out (x : out) : Prop := match x with OSend _ CShutdown => True | _ => False end.

Record SDx (es es' : estate) (vo : list out) : Prop := {
  sdx_nt : forall m, SDo (aget m (e_nt es)) (cmds_to m vo) (aget m (e_nt es'));
  sdx_keep : ekeep es es';
  sdx_outs : Forall is_sd_out vo;
}.

Lemma SDx_refl es : SDx es es [].
Proof. constructor; [intros m; apply SDo_refl|unfold ekeep; auto 10|constructor]. Qed.

Lemma SDx_trans a b c o1 o2 : SDx a b o1 -> SDx b c o2 -> SDx a c (o1 ++ o2).
Proof.
  intros [A1 A2 A3] [B1 B2 B3]. constructor.
  - intros m. rewrite cmds_to_app. eapply SDo_trans; eauto.
  - unfold ekeep in *. destruct A2 as (a1 & a2 & a3 & a4 & a5 & a6), B2 as (b1 & b2 & b3 & b4 & b5 & b6).
    repeat split; congruence.
  - apply Forall_app. split; assumption.
Qed.

Lemma SDx_closed es es' vo : SDx es es' vo -> forall m, closedb (e_nt es') m = closedb (e_nt es) m.
Proof. intros S m. eapply SDo_closed. apply (sdx_nt _ _ _ S m). Qed.

Lemma node_shutdown_SDx n es :
  aget n (e_nt es) <> None ->
  exists es' vo, node_shutdown e_nt e_set_nt n es = (es', vfilter (e_nt es) vo, Ok tt) /\ SDx es es' vo /\
    (forall m, cmds_to m vo <> [] -> m = n).
Proof.
  intros Hk. destruct (aget n (e_nt es)) as [f|] eqn:Ef; [|congruence].
  rewrite (e_node_shutdown_x n es f Ef).
  destruct (n_down f || n_sdsent f) eqn:E.
  - exists es, []. split; [reflexivity|]. split; [apply SDx_refl|]. intros m F. exfalso. apply F. reflexivity.
  - apply orb_false_iff in E. destruct E as (E1 & E2).
    eexists. exists [OSend n CShutdown]. split; [reflexivity|]. split.
    + constructor.
      * intros m. cbn [e_nt e_set_nt]. destruct (Nat.eq_dec m n) as [->|Hm].
        -- rewrite cmds_to_send_eq, ea_get_set_eq, Ef. cbn. right. auto.
        -- rewrite cmds_to_send_neq by exact Hm. rewrite ea_get_set_neq by exact Hm. apply SDo_refl.
      * unfold ekeep. cbn. auto 10.
      * repeat constructor.
    + intros m Hm. destruct (Nat.eq_dec m n) as [->|Hmn]; [reflexivity|].
      rewrite cmds_to_send_neq in Hm by exact Hmn. contradiction.
Qed.

Lemma shutdown_sweep_x l : forall es,
  (forall n, In n l -> aget n (e_nt es) <> None) ->
  exists es' vo, mfor l (fun n => node_shutdown e_nt e_set_nt n) es = (es', vfilter (e_nt es) vo, Ok tt) /\
    SDx es es' vo /\ (forall m, cmds_to m vo <> [] -> In m l).
Proof.
  induction l as [|n l IH]; intros es Hk.
  - exists es, []. split; [reflexivity|]. split; [apply SDx_refl|]. intros m F. exfalso. apply F. reflexivity.
  - destruct (node_shutdown_SDx n es (Hk n (or_introl eq_refl))) as (es1 & o1 & E1 & S1 & C1).
    assert (Hk1 : forall m, In m l -> aget m (e_nt es1) <> None).
    { intros m Hm. apply (SDo_keys _ _ _ (sdx_nt _ _ _ S1 m)). apply Hk. right. exact Hm. }
    destruct (IH es1 Hk1) as (es2 & o2 & E2 & S2 & C2).
    exists es2, (o1 ++ o2). split.
    { cbn [mfor]. unfold mbind. rewrite E1, E2, vfilter_app.
      rewrite (vfilter_ext (e_nt es) (e_nt es1) o2) by (intros m; apply (SDx_closed _ _ _ S1)). reflexivity. }
    split; [eapply SDx_trans; eauto|].
    intros m Hm. rewrite cmds_to_app in Hm.
    destruct (cmds_to m o1) as [|c1 r1] eqn:Eo1.
    + right. apply C2. exact Hm.
    + left. symmetry. apply C1. rewrite Eo1. discriminate.
Qed.

(* ---- mark_test_complete, add_node, add_node_collection before completion, idle remove_node:
        e_complete_run, e_add_node_run, e_add_coll_run, e_remove_idle_run of EachSystem.v ---- *)

(* ---- remove_node of a node with a non-empty book: the crash item and the remainder ---- *)
Definition es_remove_busy (n : nat) (rest : list nat) (es : estate) : estate :=
  let s0 := e_set_n2p es (adel n (e_n2p es)) in
  match rest with [] => s0 | _ => e_set_removed s0 (aset n rest (e_removed es)) end.

Lemma e_remove_busy_run n i rest coll crash es :
  aget n (e_n2p es) = Some (i :: rest) -> e_completed es = true ->
  aget n (e_n2c es) = Some coll -> nth_error coll i = Some crash ->
  e_remove_node n es = (es_remove_busy n rest es, [], Ok (Some crash)).
Proof.
  intros Hp Hc Hcoll Hnth. unfold e_remove_node, es_remove_busy, mbind, get, put, of_opt, ret.
  rewrite Hp. cbn. rewrite Hc. cbn. rewrite Hcoll. cbn. rewrite Hnth. cbn.
  destruct rest; reflexivity.
Qed.

(* ---- the inheritance loop of add_node_collection ---- *)
Definition es_inh (n d : nat) (pend : list nat) (dcoll : list string) (es : estate) : estate :=
  e_set_n2c (e_set_n2p (e_set_removed es (adel d (e_removed es))) (aset n pend (e_n2p es)))
            (aset n dcoll (e_n2c es)).

Lemma e_inherit_run n coll dead : forall es es' o r,
  spec_of es n <> None ->
  (forall d pend, In (d, pend) dead -> spec_of es d <> None /\ aget d (e_n2c es) <> None) ->
  e_inherit n coll dead es = (es', o, r) ->
  r = Ok tt /\
  ((es' = es /\ (o = [] \/ exists d, o = [OLogDiff d n])) \/
   (exists d pend dcoll, In (d, pend) dead /\ aget d (e_n2c es) = Some dcoll /\ coll_eqb coll dcoll = true /\
      spec_of es d = spec_of es n /\ es' = es_inh n d pend dcoll es /\ o = [])).
Proof.
  induction dead as [|[d pend] dead IH]; intros es es' o r Hn Hd H.
  - cbn in H. unfold ret in H. inv H. auto.
  - cbn [e_inherit] in H. rewrite Coupling.mbind_get in H.
    destruct (Hd d pend (or_introl eq_refl)) as (Hsd & Hcd).
    destruct (spec_of es d) as [sd|] eqn:Esd; [|congruence].
    destruct (spec_of es n) as [sn|] eqn:Esn; [|congruence].
    cbn [of_opt] in H. rewrite !Coupling.mbind_ret in H.
    destruct (Nat.eqb sd sn) eqn:Eq.
    + apply Nat.eqb_eq in Eq. subst sn.
      destruct (aget d (e_n2c es)) as [dcoll|] eqn:Edc; [|congruence].
      cbn [of_opt] in H. rewrite Coupling.mbind_ret in H.
      destruct (coll_eqb coll dcoll) eqn:Ec.
      * unfold put in H. inv H. split; [reflexivity|]. right. exists d, pend, dcoll.
        split; [left; reflexivity|]. split; [exact Edc|]. split; [exact Ec|]. split; [congruence|]. split; reflexivity.
      * unfold emit in H. inv H. split; [reflexivity|]. left. split; [reflexivity|]. right. exists d. reflexivity.
    + destruct (IH es es' o r) as (Hr & HH).
      * rewrite Esn. discriminate.
      * intros d' p' Hin. apply (Hd d' p'). right. exact Hin.
      * exact H.
      * split; [exact Hr|]. destruct HH as [HH|(d' & p' & dc' & Hin & X)]; [left; exact HH|].
        right. exists d', p', dc'. split; [right; exact Hin|]. rewrite <- Esn. exact X.
Qed.

(* add_node_collection after completion *)
Lemma e_add_coll_late n coll es f es' o r :
  aget n (e_n2p es) = Some [] -> e_completed es = true -> aget n (e_nt es) = Some f ->
  (forall d pend, In (d, pend) (e_removed es) -> pend <> [] /\ spec_of es d <> None /\ aget d (e_n2c es) <> None) ->
  e_add_node_collection n coll es = (es', o, r) ->
  r = Ok tt /\
  ((exists d pend dcoll, In (d, pend) (e_removed es) /\ aget d (e_n2c es) = Some dcoll /\ coll_eqb coll dcoll = true /\
      spec_of es d = spec_of es n /\ es' = es_inh n d pend dcoll es /\ o = []) \/
   (exists lg, (lg = [] \/ exists d, lg = [OLogDiff d n]) /\
      ((n_down f || n_sdsent f = true /\ es' = e_set_started es (e_started es ++ [n]) /\ o = lg) \/
       (n_down f || n_sdsent f = false /\
        es' = e_set_started (e_set_nt es (aset n (sdm f) (e_nt es))) (e_started es ++ [n]) /\
        o = lg ++ vfilter (e_nt es) [OSend n CShutdown])))).
Proof.
  intros Hp Hc Ef Hrm H. unfold e_add_node_collection in H. rewrite Coupling.mbind_get in H.
  unfold ahas in H. rewrite Hp, Hc in H. cbn [massert negb] in H. rewrite Coupling.mbind_ret in H.
  apply LoadProofs.mbind_inv in H. destruct H as [(e & H1 & ->)|(es1 & o1 & a & o2 & H1 & H2 & ->)].
  { exfalso. assert (Hn : spec_of es n <> None) by (unfold spec_of; rewrite Ef; discriminate).
    destruct (e_inherit_run n coll (e_removed es) es _ _ _ Hn (fun d p Hin => proj2 (Hrm d p Hin)) H1) as (F & _).
    discriminate. }
  assert (Hn : spec_of es n <> None) by (unfold spec_of; rewrite Ef; discriminate).
  destruct (e_inherit_run n coll (e_removed es) es _ _ _ Hn (fun d p Hin => proj2 (Hrm d p Hin)) H1) as (_ & HH).
  rewrite Coupling.mbind_get in H2.
  destruct HH as [(-> & Hlg)|(d & pend & dcoll & Hin & Edc & Ec & Esp & -> & ->)].
  - rewrite Hp in H2. cbn [of_opt] in H2. rewrite Coupling.mbind_ret in H2.
    unfold mbind at 1 in H2. rewrite (e_node_shutdown_x n es f Ef) in H2.
    destruct (n_down f || n_sdsent f) eqn:E.
    + rewrite Coupling.mbind_get in H2. unfold put in H2. inv H2. split; [reflexivity|]. right.
      exists o1. split; [exact Hlg|]. left. rewrite app_nil_r. auto.
    + rewrite Coupling.mbind_get in H2. unfold put in H2. inv H2. split; [reflexivity|]. right.
      exists o1. split; [exact Hlg|]. right. rewrite app_nil_r. auto.
  - unfold es_inh in H2. cbn [e_n2p e_set_n2c e_set_n2p] in H2. rewrite ea_get_set_eq in H2.
    cbn [of_opt] in H2. rewrite Coupling.mbind_ret in H2.
    destruct (Hrm d pend Hin) as (Hne & _). destruct pend as [|p0 pend]; [congruence|].
    unfold ret in H2. inv H2. split; [reflexivity|]. left. exists d, (p0 :: pend), dcoll. auto 10.
Qed.

(* ---- schedule(): one node ---- *)
Definition sched1 (m : nat) (es : estate) : estate * list out :=
  if mem_nat m (e_started es) then (es, []) else
  match aget m (e_n2p es), aget m (e_nt es) with
  | Some [], Some f =>
      match aget m (e_n2c es) with
      | None => (es, [])
      | Some coll =>
          let es1 := e_set_n2p es (aset m (seq 0 (length coll)) (e_n2p es)) in
          if n_down f || n_sdsent f
          then (e_set_started es1 (e_started es ++ [m]), [OSend m CRunAll])
          else (e_set_started (e_set_nt es1 (aset m (sdm f) (e_nt es))) (e_started es ++ [m]),
                [OSend m CRunAll; OSend m CShutdown])
      end
  | Some pend, Some f => (e_set_started es (e_started es ++ [m]), [OSend m (CRun pend)])
  | _, _ => (es, [])
  end.

Lemma vfilter_send2 nt n f c1 c2 :
  aget n nt = Some f -> vfilter nt [OSend n c1; OSend n c2] = if n_closed f then [] else [OSend n c1; OSend n c2].
Proof. intros E. unfold vfilter. cbn. unfold closedb. rewrite E. destruct (n_closed f); reflexivity. Qed.

Lemma e_node_send_x m c es f :
  aget m (e_nt es) = Some f -> node_send e_nt m c es = (es, vfilter (e_nt es) [OSend m c], Ok tt).
Proof.
  intros Ef. rewrite (vfilter_send _ _ _ _ Ef). unfold node_send, node_flags, mbind, get, of_opt, ret, emit.
  rewrite Ef. destruct (n_closed f); reflexivity.
Qed.

Lemma e_schedule_node_x m es :
  aget m (e_n2p es) <> None -> aget m (e_nt es) <> None ->
  e_schedule_node m es = (fst (sched1 m es), vfilter (e_nt es) (snd (sched1 m es)), Ok tt).
Proof.
  intros Hp Hn. unfold e_schedule_node, sched1. rewrite Coupling.mbind_get.
  destruct (mem_nat m (e_started es)); [reflexivity|].
  destruct (aget m (e_n2p es)) as [pend|] eqn:Ep; [|congruence].
  destruct (aget m (e_nt es)) as [f|] eqn:Ef; [|congruence].
  cbn [of_opt]. rewrite Coupling.mbind_ret.
  destruct pend as [|p0 pend].
  - destruct (aget m (e_n2c es)) as [coll|] eqn:Ec; [|reflexivity].
    rewrite Coupling.mbind_put.
    set (es1 := e_set_n2p es (aset m (seq 0 (length coll)) (e_n2p es))).
    assert (Ef1 : aget m (e_nt es1) = Some f) by exact Ef.
    unfold mbind at 1. rewrite (e_node_send_x m CRunAll es1 f Ef1).
    unfold mbind at 1. rewrite (e_node_shutdown_x m es1 f Ef1).
    change (e_nt es1) with (e_nt es).
    destruct (n_down f || n_sdsent f) eqn:Eds.
    + rewrite Coupling.mbind_get. unfold put. cbn [fst snd app]. rewrite !app_nil_r. reflexivity.
    + rewrite Coupling.mbind_get. unfold put. cbn [fst snd app]. rewrite !app_nil_r.
      change [OSend m CRunAll; OSend m CShutdown] with ([OSend m CRunAll] ++ [OSend m CShutdown]).
      rewrite vfilter_app. reflexivity.
  - unfold mbind at 1. rewrite (e_node_send_x m _ es f Ef).
    rewrite Coupling.mbind_get. unfold put. cbn [fst snd app]. rewrite !app_nil_r. reflexivity.
Qed.

(* what schedule() does to node m, and the (virtual) commands it sends to it *)
Definition SC1 (es es' : estate) (m : nat) (cs : list cmd) : Prop :=
  ((In m (e_started es) \/ (aget m (e_n2p es) = Some [] /\ aget m (e_n2c es) = None)) /\
     aget m (e_n2p es') = aget m (e_n2p es) /\ aget m (e_nt es') = aget m (e_nt es) /\ cs = [] /\
     (In m (e_started es') <-> In m (e_started es)))
  \/ (~ In m (e_started es) /\ aget m (e_n2p es) = Some [] /\ In m (e_started es') /\
      exists coll f, aget m (e_n2c es) = Some coll /\ aget m (e_nt es) = Some f /\
        aget m (e_n2p es') = Some (seq 0 (length coll)) /\
        ((n_down f || n_sdsent f = true /\ aget m (e_nt es') = Some f /\ cs = [CRunAll]) \/
         (n_down f || n_sdsent f = false /\ aget m (e_nt es') = Some (sdm f) /\ cs = [CRunAll; CShutdown])))
  \/ (~ In m (e_started es) /\ In m (e_started es') /\ exists pend, pend <> [] /\ aget m (e_n2p es) = Some pend /\
      aget m (e_n2p es') = Some pend /\ aget m (e_nt es') = aget m (e_nt es) /\ cs = [CRun pend]).

(* node m is not touched *)
Definition UNC (es es' : estate) (m : nat) : Prop :=
  aget m (e_n2p es') = aget m (e_n2p es) /\ aget m (e_nt es') = aget m (e_nt es) /\
  (In m (e_started es') <-> In m (e_started es)).

Definition gkeep (es es' : estate) : Prop :=
  e_n2c es' = e_n2c es /\ e_removed es' = e_removed es /\ e_completed es' = e_completed es /\
  e_numnodes es' = e_numnodes es /\ akeys (e_n2p es') = akeys (e_n2p es) /\
  (forall k, aget k (e_nt es') <> None <-> aget k (e_nt es) <> None) /\
  (forall k, closedb (e_nt es') k = closedb (e_nt es) k) /\
  (forall k, In k (e_started es) -> In k (e_started es')).

Lemma gkeep_refl es : gkeep es es.
Proof. unfold gkeep. repeat split; auto. Qed.

Lemma gkeep_trans a b c : gkeep a b -> gkeep b c -> gkeep a c.
Proof.
  intros (A1 & A2 & A3 & A4 & A5 & A6 & A7 & A8) (B1 & B2 & B3 & B4 & B5 & B6 & B7 & B8).
  unfold gkeep. split; [congruence|]. split; [congruence|]. split; [congruence|]. split; [congruence|].
  split; [congruence|]. split; [|split].
  - intros k. rewrite B6. apply A6.
  - intros k. rewrite B7. apply A7.
  - auto.
Qed.

Lemma in_snoc_iff (l : list nat) m k : In k (l ++ [m]) <-> In k l \/ k = m.
Proof.
  split.
  - intros H. apply in_app_or in H. destruct H as [H|[H|[]]]; auto.
  - intros [H|H]; apply in_or_app; [left; exact H|right; left; auto].
Qed.

Lemma sched1_spec m es :
  In m (akeys (e_n2p es)) -> aget m (e_nt es) <> None ->
  let es' := fst (sched1 m es) in let vo := snd (sched1 m es) in
  gkeep es es' /\ SC1 es es' m (cmds_to m vo) /\
  (forall k, k <> m -> UNC es es' k /\ cmds_to k vo = []) /\
  Forall (fun x => is_spawn x = false) vo.
Proof.
  intros Hk Hn. cbv zeta. unfold sched1.
  destruct (mem_nat m (e_started es)) eqn:Est.
  { apply mem_nat_In in Est. cbn [fst snd]. split; [apply gkeep_refl|]. split.
    - left. split; [left; exact Est|]. repeat split; auto.
    - split; [|constructor]. intros k _. unfold UNC. repeat split; auto. }
  apply mem_nat_false in Est.
  destruct (aget m (e_n2p es)) as [pend|] eqn:Ep; [|apply ea_keys_get in Hk; contradiction].
  destruct (aget m (e_nt es)) as [f|] eqn:Ef; [|congruence].
  destruct pend as [|p0 pend].
  - destruct (aget m (e_n2c es)) as [coll|] eqn:Ec.
    2:{ cbn [fst snd]. split; [apply gkeep_refl|]. split.
        - left. split; [right; auto|]. repeat split; auto.
        - split; [|constructor]. intros k _. unfold UNC. repeat split; auto. }
    destruct (n_down f || n_sdsent f) eqn:Eds; cbn [fst snd].
    + split.
      { unfold gkeep. cbn [e_n2c e_removed e_completed e_numnodes e_n2p e_nt e_started e_set_started e_set_n2p].
        repeat split; auto; try tauto.
        - apply ea_keys_set_in. exact Hk.
        - intros k Hin. apply in_snoc_iff. left. exact Hin. }
      split.
      { right. left. split; [exact Est|]. split; [first [reflexivity|assumption]|].
        cbn [e_n2c e_n2p e_nt e_started e_set_started e_set_n2p].
        split; [apply in_snoc_iff; right; reflexivity|]. exists coll, f.
        split; [first [reflexivity|assumption]|]. split; [first [reflexivity|assumption]|]. split; [apply ea_get_set_eq|].
        left. split; [first [reflexivity|assumption]|]. split; [exact Ef|]. apply cmds_to_send_eq. }
      split; [|repeat constructor].
      intros k Hkm. split; [|apply cmds_to_send_neq; exact Hkm].
      unfold UNC. cbn [e_n2p e_nt e_started e_set_started e_set_n2p].
      split; [apply ea_get_set_neq; exact Hkm|]. split; [first [reflexivity|assumption]|].
      rewrite in_snoc_iff. split; [intros [H|H]; [exact H|contradiction]|auto].
    + split.
      { unfold gkeep. cbn [e_n2c e_removed e_completed e_numnodes e_n2p e_nt e_started e_set_started e_set_n2p e_set_nt].
        repeat split; auto.
        - apply ea_keys_set_in. exact Hk.
        - rewrite ea_get_set. destruct (Nat.eqb k m) eqn:E; [|auto]. apply Nat.eqb_eq in E. subst k. congruence.
        - rewrite ea_get_set. destruct (Nat.eqb k m) eqn:E; [|auto]. intros _. discriminate.
        - intros k. apply (closedb_set_same _ _ f); [exact Ef|reflexivity].
        - intros k Hin. apply in_snoc_iff. left. exact Hin. }
      split.
      { right. left. split; [exact Est|]. split; [first [reflexivity|assumption]|].
        cbn [e_n2c e_n2p e_nt e_started e_set_started e_set_n2p e_set_nt].
        split; [apply in_snoc_iff; right; reflexivity|]. exists coll, f.
        split; [first [reflexivity|assumption]|]. split; [first [reflexivity|assumption]|]. split; [apply ea_get_set_eq|].
        right. split; [first [reflexivity|assumption]|]. split; [apply ea_get_set_eq|].
        unfold cmds_to. cbn. rewrite Nat.eqb_refl. reflexivity. }
      split; [|repeat constructor].
      intros k Hkm. split.
      * unfold UNC. cbn [e_n2p e_nt e_started e_set_started e_set_n2p e_set_nt].
        split; [apply ea_get_set_neq; exact Hkm|]. split; [apply ea_get_set_neq; exact Hkm|].
        rewrite in_snoc_iff. split; [intros [H|H]; [exact H|contradiction]|auto].
      * unfold cmds_to. cbn. apply Nat.eqb_neq in Hkm. rewrite (Nat.eqb_sym m k), Hkm. reflexivity.
  - cbn [fst snd]. split.
    { unfold gkeep. cbn [e_n2c e_removed e_completed e_numnodes e_n2p e_nt e_started e_set_started].
      repeat split; auto; try tauto. intros k Hin. apply in_snoc_iff. left. exact Hin. }
    split.
    { right. right. split; [exact Est|]. cbn [e_n2p e_nt e_started e_set_started].
      split; [apply in_snoc_iff; right; reflexivity|]. exists (p0 :: pend).
      split; [discriminate|]. split; [first [reflexivity|assumption]|]. split; [exact Ep|]. split; [first [reflexivity|assumption]|].
      apply cmds_to_send_eq. }
    split; [|repeat constructor].
    intros k Hkm. split; [|apply cmds_to_send_neq; exact Hkm].
    unfold UNC. cbn [e_n2p e_nt e_started e_set_started]. split; [first [reflexivity|assumption]|]. split; [first [reflexivity|assumption]|].
    rewrite in_snoc_iff. split; [intros [H|H]; [exact H|contradiction]|auto].
Qed.

Fixpoint sweep (l : list nat) (es : estate) : estate * list out :=
  match l with
  | [] => (es, [])
  | m :: r => let '(es1, o1) := sched1 m es in let '(es2, o2) := sweep r es1 in (es2, o1 ++ o2)
  end.

Lemma SC1_pre es0 es es' m cs :
  UNC es0 es m -> e_n2c es = e_n2c es0 -> SC1 es es' m cs -> SC1 es0 es' m cs.
Proof.
  intros (U1 & U2 & U3) Ec. unfold SC1. rewrite U1, U2, Ec, U3. tauto.
Qed.

Lemma SC1_post es es1 es2 m cs : SC1 es es1 m cs -> UNC es1 es2 m -> SC1 es es2 m cs.
Proof.
  intros H (U1 & U2 & U3). unfold SC1 in *. rewrite U1, U2, U3. exact H.
Qed.

Lemma UNC_trans a b c m : UNC a b m -> UNC b c m -> UNC a c m.
Proof. intros (A1 & A2 & A3) (B1 & B2 & B3). unfold UNC. rewrite B1, B2, B3. auto. Qed.

Lemma sweep_spec l : forall es,
  NoDup l -> (forall m, In m l -> In m (akeys (e_n2p es))) -> (forall m, In m l -> aget m (e_nt es) <> None) ->
  let es' := fst (sweep l es) in let vo := snd (sweep l es) in
  mfor l e_schedule_node es = (es', vfilter (e_nt es) vo, Ok tt) /\
  gkeep es es' /\
  (forall m, In m l -> SC1 es es' m (cmds_to m vo)) /\
  (forall k, ~ In k l -> UNC es es' k /\ cmds_to k vo = []) /\
  Forall (fun x => is_spawn x = false) vo.
Proof.
  induction l as [|n l IH]; intros es ND Hk Hn; cbv zeta.
  - cbn [sweep fst snd mfor]. split; [reflexivity|]. split; [apply gkeep_refl|]. split; [intros m []|].
    split; [|constructor]. intros k _. unfold UNC. repeat split; auto.
  - inversion ND as [|x xs Hni ND']; subst.
    destruct (sched1_spec n es (Hk n (or_introl eq_refl)) (Hn n (or_introl eq_refl))) as (G1 & S1 & U1 & P1).
    cbn [sweep]. destruct (sched1 n es) as [es1 o1] eqn:E1. cbn [fst snd] in G1, S1, U1, P1.
    pose proof G1 as (K1 & K2 & K3 & K4 & K5 & K6 & K7 & K8).
    assert (Hk1 : forall m, In m l -> In m (akeys (e_n2p es1))) by (intros m Hm; rewrite K5; apply Hk; right; exact Hm).
    assert (Hn1 : forall m, In m l -> aget m (e_nt es1) <> None) by (intros m Hm; apply K6; apply Hn; right; exact Hm).
    destruct (IH es1 ND' Hk1 Hn1) as (Em & G2 & S2 & U2 & P2).
    destruct (sweep l es1) as [es2 o2] eqn:E2. cbn [fst snd] in Em, G2, S2, U2, P2 |- *.
    split.
    { cbn [mfor]. unfold mbind.
      rewrite (e_schedule_node_x n es) by (first [apply ea_keys_get; apply Hk; left; reflexivity|apply Hn; left; reflexivity]).
      rewrite E1. cbn [fst snd]. rewrite Em, vfilter_app.
      rewrite (vfilter_ext (e_nt es) (e_nt es1) o2) by exact K7. reflexivity. }
    split; [eapply gkeep_trans; eauto|].
    split.
    { intros m [<-|Hm]; rewrite cmds_to_app.
      - destruct (U2 n Hni) as (U & C). rewrite C, app_nil_r. eapply SC1_post; eauto.
      - assert (Hmn : m <> n) by (intros ->; contradiction).
        destruct (U1 m Hmn) as (U & C). rewrite C. cbn [app].
        eapply SC1_pre; [exact U|exact K1|]. apply S2. exact Hm. }
    split; [|apply Forall_app; split; assumption].
    intros k Hkl. assert (Hkn : k <> n) by (intros ->; apply Hkl; left; reflexivity).
    assert (Hkl' : ~ In k l) by (intros X; apply Hkl; right; exact X).
    destruct (U1 k Hkn) as (Ua & Ca). destruct (U2 k Hkl') as (Ub & Cb).
    split; [eapply UNC_trans; eauto|]. rewrite cmds_to_app, Ca, Cb. reflexivity.
Qed.

(* ====================================================================================== *)
(* Part C: the controller with worker deaths and replacement workers                       *)
(* ====================================================================================== *)
Definition stb (es : estate) (m : nat) : bool := mem_nat m (e_started es).

(* why the session is shutting down; all three reasons are permanent *)
Definition reason (d : dstate) (es : estate) : bool :=
  e_tests_finished es || d_shouldstop d || exhausted d.

(* the flags of a node and the (virtual) commands put on its channel by one controller step;
   st / st': the node is in `_started` before / after *)
Inductive FX (K : nat) : bool -> bool -> nctl -> list cmd -> nctl -> Prop :=
| FX_same st st' f : (st = true -> st' = true) -> FX K st st' f [] f
| FX_sd st st' f : (st = true -> st' = true) -> n_sdsent f = false -> FX K st st' f [CShutdown] (sdm f)
| FX_run f c a : n_sdsent f = false -> is_run c -> citems K c = map Idx (seq a (K - a)) -> FX K false true f [c] f
| FX_runsd f c a : n_sdsent f = false -> is_run c -> citems K c = map Idx (seq a (K - a)) ->
                   FX K false true f [c; CShutdown] (sdm f).

Definition FXo (K : nat) (st st' : bool) (a : option nctl) (cs : list cmd) (b : option nctl) : Prop :=
  match a, b with
  | Some f, Some f' => FX K st st' f cs f'
  | None, None => cs = []
  | _, _ => False
  end.

Lemma FX_mono K st st' f cs f' : FX K st st' f cs f' -> st = true -> st' = true.
Proof. intros H. destruct H; auto; discriminate. Qed.

Lemma FX_fields K st st' f cs f' : FX K st st' f cs f' ->
  n_spec f' = n_spec f /\ n_down f' = n_down f /\ n_closed f' = n_closed f /\
  (n_sdsent f = true -> n_sdsent f' = true /\ cs = []) /\ Forall ecmd cs.
Proof.
  intros H. destruct H; cbn; repeat split; auto; try congruence; repeat constructor.
  - destruct c; try contradiction; exact I.
  - destruct c; try contradiction; exact I.
Qed.

Lemma FX_then_sd K st st' f cs f1 cs2 f2 :
  FX K st st' f cs f1 -> SDo (Some f1) cs2 (Some f2) -> FX K st st' f (cs ++ cs2) f2.
Proof.
  intros H1 [(-> & ->)|(-> & H3 & H4 & ->)].
  - rewrite app_nil_r. exact H1.
  - destruct H1; cbn in H3; try discriminate; cbn [app].
    + apply FX_sd; assumption.
    + eapply FX_runsd; eauto.
Qed.

Lemma FXo_then_sd K st st' a cs b cs2 c :
  FXo K st st' a cs b -> SDo b cs2 c -> FXo K st st' a (cs ++ cs2) c.
Proof.
  destruct a as [f|], b as [f1|], c as [f2|]; cbn; try tauto.
  - apply FX_then_sd.
  - intros -> ->. reflexivity.
Qed.

Lemma FXo_refl K st a : FXo K st st a [] a.
Proof. destruct a; cbn; [constructor; auto|reflexivity]. Qed.

Lemma FXo_same K st st' a : (st = true -> st' = true) -> FXo K st st' a [] a.
Proof. intros H. destruct a; cbn; [constructor; auto|reflexivity]. Qed.

Lemma FXo_closed K st st' nt nt' m cs : FXo K st st' (aget m nt) cs (aget m nt') -> closedb nt' m = closedb nt m.
Proof.
  unfold closedb. destruct (aget m nt) as [f|], (aget m nt') as [f'|]; cbn; try tauto.
  intros R. destruct (FX_fields _ _ _ _ _ _ R) as (_ & _ & C & _). exact C.
Qed.

(* the stream of a node after one controller step *)
Lemma FX_stream K st st' f cs f' S :
  FX K st st' f cs f' -> stream_x K st (n_sdsent f) S ->
  stream_x K st' (n_sdsent f') (S ++ flat_map (citems K) cs).
Proof.
  intros H M. destruct H as [st st' f Hm|st st' f Hm Hs|f c a Hs Hr Hc|f c a Hs Hr Hc].
  - cbn. rewrite app_nil_r. eapply stream_x_mono; eauto.
  - cbn [flat_map citems app sdm n_sdsent]. rewrite Hs in M. apply stream_x_sd. eapply stream_x_mono; eauto.
  - rewrite Hs in M |- *. rewrite (stream_x_fresh _ _ M). cbn [flat_map app]. rewrite app_nil_r.
    eapply stream_x_run; eauto.
  - rewrite Hs in M. rewrite (stream_x_fresh _ _ M).
    change (flat_map (citems K) [c; CShutdown]) with (citems K c ++ [Mark]). cbn [app sdm n_sdsent].
    apply stream_x_sd. eapply stream_x_run; eauto.
Qed.

Section CtlX.
Variable N : nat.                 (* the initial number of workers (numnodes never changes) *)
Variable collf : nat -> list string.   (* what worker n collects (replacement workers included) *)
Hypothesis HN : 0 < N.
Notation Kf n := (length (collf n)).

(* the scheduler's own invariant; node ids range below the group counter G *)
Record EX (G : nat) (es : estate) : Prop := {
  ex_num : e_numnodes es = N;
  ex_ntk : forall n, aget n (e_nt es) <> None <-> n < G;
  ex_nodes : forall n, In n (e_nodes es) -> n < G;
  ex_wf : NoDup (e_nodes es);
  ex_n2c : forall n, In n (akeys (e_n2c es)) -> n < G;
  ex_n2cnd : NoDup (akeys (e_n2c es));
  ex_ids : forall k ids, In (k, ids) (e_n2c es) -> ids = collf k;
  ex_cc : e_completed es = false -> length (e_n2c es) < N;
  ex_pre : e_completed es = false -> e_started es = [] /\ e_removed es = [] /\ forall n, bkE es n = [];
  ex_rmnd : NoDup (akeys (e_removed es));
  ex_rm : forall d rest, aget d (e_removed es) = Some rest ->
          rest <> [] /\ d < G /\ aget d (e_n2c es) <> None /\ exists b, rest = seq b ((Kf d) - b);
  (* after completion a node that was not started has an empty book and no collection on record *)
  ex_ns : e_completed es = true -> forall m, In m (e_nodes es) -> ~ In m (e_started es) ->
          bkE es m = [] /\ aget m (e_n2c es) = None;
  (* every book is an interval [b, K) of the node's collection *)
  ex_bk : forall m, exists b, bkE es m = seq b ((Kf m) - b);
  ex_bkc : forall m, bkE es m <> [] -> aget m (e_n2c es) <> None;
  ex_stk : forall m, In m (e_started es) -> m < G;
}.

Lemma ex_n2c_coll G es m coll : EX G es -> aget m (e_n2c es) = Some coll -> coll = collf m.
Proof. intros J E. apply (ex_ids _ _ J m). apply ea_aget_in. exact E. Qed.

Lemma seq_in_lt b K i : In i (seq b (K - b)) -> i < K.
Proof. intros H. apply in_seq in H. lia. Qed.

Lemma ex_bk_lt G es m i : EX G es -> In i (bkE es m) -> i < (Kf m).
Proof. intros J H. destruct (ex_bk _ _ J m) as (b & E). rewrite E in H. eapply seq_in_lt; eauto. Qed.

Lemma seq_cons_inv b K i rest : seq b (K - b) = i :: rest -> i = b /\ rest = seq (S b) (K - S b).
Proof.
  destruct (K - b) as [|k] eqn:E; cbn; [discriminate|]. intros H. injection H as H1 H2. split; [auto|].
  replace (K - S b) with k by lia. auto.
Qed.

Lemma nodes_knownX G es : EX G es -> forall n, In n (e_nodes es) -> aget n (e_nt es) <> None.
Proof. intros J n Hn. apply (ex_ntk _ _ J). apply (ex_nodes _ _ J). exact Hn. Qed.

(* steps that only touch node flags (shutdown sweeps) *)
Lemma EX_SD G es es' vo : EX G es -> SDx es es' vo -> EX G es'.
Proof.
  intros J S. pose proof S as [Snt (K1 & K2 & K3 & K4 & K5 & K6) _].
  constructor; unfold e_nodes, bkE; rewrite ?K1, ?K2, ?K3, ?K4, ?K5, ?K6; try apply J.
  intros n. rewrite (SDo_keys _ _ _ (Snt n)). apply J.
Qed.

Lemma tests_finished_SD es es' vo : SDx es es' vo -> e_tests_finished es' = e_tests_finished es.
Proof.
  intros [_ (K1 & K2 & K3 & K4 & K5 & K6) _]. unfold e_tests_finished. rewrite K1, K4, K5. reflexivity.
Qed.

(* triggershutdown: every scheduled node is shut down once; nothing else changes *)
Lemma trigger_effX G d es d' o r :
  d_sched d = StE es -> EX G es ->
  d_triggershutdown d = (d', o, r) ->
  r = Ok tt /\ exists es' vo, d' = d_withE d true es' /\ SDx es es' vo /\ o = vfilter (e_nt es) vo /\
    (forall m, cmds_to m vo <> [] -> In m (e_nodes es)) /\
    (d_shuttingdown d = true -> es' = es /\ vo = []).
Proof.
  intros Els J H. unfold d_triggershutdown in H. unfold mbind at 1, get in H.
  destruct (d_shuttingdown d) eqn:Esd.
  - unfold ret in H. injection H as <- <- <-. split; [reflexivity|]. exists es, [].
    split. { rewrite <- Esd. symmetry. apply d_withE_same. exact Els. }
    split; [apply SDx_refl|]. split; [reflexivity|]. split; [|auto]. intros m F. exfalso. apply F. reflexivity.
  - unfold mbind, put in H.
    rewrite (mfor_liftE d_node_shutdown (fun n => node_shutdown e_nt e_set_nt n) _ d_node_shutdown_liftE
               (d_set_shuttingdown d true) es) in H by exact Els.
    rewrite Els in H. cbn [s_nodes] in H.
    destruct (shutdown_sweep_x (e_nodes es) es (nodes_knownX G es J)) as (es2 & o2 & Em & S & C).
    rewrite Em in H. cbn [liftE app] in H. inv H.
    split; [reflexivity|]. exists es2, o2. split; [reflexivity|]. split; [exact S|]. split; [reflexivity|].
    split; [exact C|discriminate].
Qed.

(* the end of a loop iteration *)
Lemma loop_rest_effX G d es d' o r :
  d_sched d = StE es -> EX G es ->
  loop_rest d = (d', o, r) ->
  r = Ok tt /\ exists es' vo,
    d' = d_withE d (d_shuttingdown d || e_tests_finished es || d_shouldstop d) es' /\
    SDx es es' vo /\ o = vfilter (e_nt es) vo /\
    (forall m, cmds_to m vo <> [] -> In m (e_nodes es)) /\
    (d_shuttingdown d' = false -> es' = es /\ vo = []).
Proof.
  intros Els J H. unfold loop_rest in H.
  apply LoadProofs.mbind_inv in H. destruct H as [(e & H1 & ->)|(d1 & o1 & a & o2 & H1 & H2 & ->)].
  - exfalso. unfold mbind at 1, get in H1. rewrite Els in H1. cbn [s_tests_finished] in H1.
    destruct (e_tests_finished es).
    + destruct (d_triggershutdown d) as [[dx ox] rx] eqn:Et.
      destruct (trigger_effX _ _ _ _ _ _ Els J Et) as (-> & _). inv H1.
    + unfold ret in H1. inv H1.
  - unfold mbind at 1, get in H1. rewrite Els in H1. cbn [s_tests_finished] in H1.
    unfold mbind at 1, get in H2.
    destruct (e_tests_finished es) eqn:Etf.
    + destruct (d_triggershutdown d) as [[dx ox] rx] eqn:Et.
      destruct (trigger_effX _ _ _ _ _ _ Els J Et) as (-> & es1 & vo & -> & S1 & E1 & C1 & N1). inv H1.
      assert (Z : forall b : bool, (if b then d_triggershutdown else ret tt) (d_withE d true es1)
                  = (d_withE d true es1, [], Ok tt)).
      { intros [|]; [|reflexivity]. unfold d_triggershutdown, mbind, get. reflexivity. }
      rewrite Z in H2. inv H2. rewrite app_nil_r, orb_true_r. cbn [orb].
      split; [reflexivity|]. exists es1, vo. split; [reflexivity|]. split; [exact S1|]. split; [reflexivity|].
      split; [exact C1|cbn; discriminate].
    + unfold ret in H1. inv H1. cbn [app]. rewrite orb_false_r.
      destruct (d_shouldstop d1) eqn:Ess.
      * destruct (d_triggershutdown d1) as [[dx ox] rx] eqn:Et.
        destruct (trigger_effX _ _ _ _ _ _ Els J Et) as (-> & es1 & vo & -> & S1 & E1 & C1 & N1). inv H2.
        rewrite orb_true_r. split; [reflexivity|]. exists es1, vo.
        split; [reflexivity|]. split; [exact S1|]. split; [reflexivity|]. split; [exact C1|cbn; discriminate].
      * unfold ret in H2. inv H2. rewrite orb_false_r. split; [reflexivity|]. exists es, [].
        split; [symmetry; apply d_withE_same; exact Els|].
        split; [apply SDx_refl|]. split; [reflexivity|]. split; [|auto]. intros m F. exfalso. apply F. reflexivity.
Qed.

(* ---- the controller's invariant ---- *)
(* DX0 holds between the handler and the end of the loop iteration, DXb at the start of an iteration.
   dx_k1: unless the session is shutting down for good, a node of the scheduler that was told to shut
          down has been started (it got its run command before);
   dx_hj1/dx_hj2/DXb: the session is shutting down exactly when there is a (permanent) reason. *)
Record DX0 (d : dstate) (es : estate) : Prop := {
  dx_sched : d_sched d = StE es;
  dx_ex : EX (d_next_gw d) es;
  dx_rq : d_requeue d = 0;
  dx_act : forall n, In n (d_active d) -> n < d_next_gw d;
  dx_fnn : (0 <= d_failed_nodes d)%Z;
  dx_k1 : reason d es = false -> forall n f, In n (e_nodes es) -> aget n (e_nt es) = Some f ->
          n_sdsent f = true -> In n (e_started es);
  dx_hj1 : d_shuttingdown d = true -> reason d es = true;
  dx_hj2 : exhausted d = true -> d_shuttingdown d = true;
  (* unless a stop was requested, every node of the scheduler is still active *)
  dx_b : d_shouldstop d = false -> incl (e_nodes es) (d_active d);
}.
Definition DXb (d : dstate) (es : estate) : Prop :=
  DX0 d es /\ (reason d es = true -> d_shuttingdown d = true).

Definition PREx (ev : cevent) (d : dstate) (es : estate) : Prop :=
  match ev with
  | QReady n => n < d_next_gw d /\ ~ In n (akeys (e_n2c es)) /\ ~ In n (e_started es) /\
                (forall f, aget n (e_nt es) = Some f -> n_sdsent f = false) /\
                (d_shuttingdown d = false -> ~ In n (e_nodes es)) /\ In n (d_active d)
  | QCollFinish n ids => n < d_next_gw d /\ ids = collf n /\ ~ In n (akeys (e_n2c es)) /\ ~ In n (e_started es)
  | QComplete n i _ => exists rest, aget n (e_n2p es) = Some (i :: rest)
  | QFinished n SKNone => In n (d_active d) /\ (In n (e_nodes es) -> aget n (e_n2p es) = Some [])
  | QFinished n SKStop => In n (d_active d)
  | QErrorDown n => In n (d_active d)
  | QFinished _ SKKbd | QUnscheduled _ _ | QInternalError _ => False
  | _ => True
  end.

Lemma in_send_cmds m c vo : In (OSend m c) vo -> In c (cmds_to m vo).
Proof.
  induction vo as [|x vo IH]; intros H; [destruct H|]. unfold cmds_to in *. cbn [flat_map]. apply in_or_app.
  destruct H as [->|H]; [left; cbn; rewrite Nat.eqb_refl; left; reflexivity|right; apply IH; exact H].
Qed.

(* no CRun command (the command by which a replacement inherits a remainder) is sent *)
Definition no_crun (vo : list out) : Prop := forall m pend, ~ In (OSend m (CRun pend)) vo.

Lemma no_crun_nocmd vo : (forall m, cmds_to m vo = []) -> no_crun vo.
Proof. intros H m pend Hin. apply in_send_cmds in Hin. rewrite H in Hin. destruct Hin. Qed.
Lemma no_crun_sd vo : Forall is_sd_out vo -> no_crun vo.
Proof. intros F m pend Hin. rewrite Forall_forall in F. exact (F _ Hin). Qed.
Lemma no_crun_app a b : no_crun a -> no_crun b -> no_crun (a ++ b).
Proof. intros A B m pend Hin. apply in_app_or in Hin. destruct Hin as [Hin|Hin]; [exact (A _ _ Hin)|exact (B _ _ Hin)]. Qed.
Lemma no_crun_hook h vo : no_crun vo -> no_crun (OHook h :: vo).
Proof. intros A m pend [F|Hin]; [discriminate|exact (A _ _ Hin)]. Qed.
Lemma no_crun_nil : no_crun [].
Proof. intros m pend []. Qed.

(* node x has been handed tests: all of its collection, or an inherited remainder *)
Definition schedn (es : estate) (x : nat) : Prop := In x (e_started es) /\ aget x (e_n2c es) <> None.

(* the effect of a handler (and, later, of a whole loop iteration); vo are the virtual outputs *)
Record HEFFx (ev : cevent) (d : dstate) (es : estate) (d1 : dstate) (es1 : estate) (vo : list out) : Prop := {
  hx_dj : DX0 d1 es1;
  hx_fx : forall m, m < d_next_gw d ->
          FXo (Kf m) (stb es m) (stb es1 m) (aget m (e_nt es)) (cmds_to m vo) (aget m (e_nt es1));
  hx_out : forall m, d_next_gw d <= m -> cmds_to m vo = [];
  hx_bk : forall m, bkE es1 m = bookmid' ev m (bkE es m) ++ flat_map (cinds collf m) (cmds_to m vo);
  hx_nodes : forall m, In m (e_nodes es1) -> In m (e_nodes es) \/ ev_sig ev = Some (m, SgReady);
  hx_cf : forall m, In m (akeys (e_n2c es1)) \/ In m (e_started es1) ->
          In m (akeys (e_n2c es)) \/ In m (e_started es) \/ ev_sig ev = Some (m, SgCF);
  hx_act : forall m, In m (d_active d) ->
           In m (d_active d1) \/ (exists b, ev_sig ev = Some (m, SgFin b)) \/ ev = QErrorDown m;
  hx_ss : d_shouldstop d = true -> d_shouldstop d1 = true;
  hx_stop : forall m, ev_sig ev = Some (m, SgFin true) -> d_shouldstop d1 = true;
  hx_gw : d_next_gw d1 = d_next_gw d \/
          (d_next_gw d1 = S (d_next_gw d) /\
           (exists f, aget (d_next_gw d) (e_nt es1) = Some f /\ fresh_flags f) /\
           In (d_next_gw d) (d_active d1) /\ ~ In (d_next_gw d) (e_nodes es1) /\
           ~ In (d_next_gw d) (akeys (e_n2c es1)) /\ ~ In (d_next_gw d) (e_started es1));
  hx_sp : forall id sp, In (OHook (HSpawn id sp)) vo -> id = d_next_gw d /\ d_next_gw d1 = S (d_next_gw d);
  hx_spx : d_next_gw d1 = S (d_next_gw d) -> exists sp, In (OHook (HSpawn (d_next_gw d) sp)) vo;
  hx_err : forall n, ev = QErrorDown n -> ~ In n (e_nodes es1) /\ ~ In n (d_active d1);
  hx_actb : forall m, In m (d_active d1) -> In m (d_active d) \/ (m = d_next_gw d /\ d_next_gw d1 = S (d_next_gw d));
  (* a node is told to shut down only when it is known to the scheduler, or when it reports ready *)
  hx_sdn : forall m f f', aget m (e_nt es) = Some f -> aget m (e_nt es1) = Some f' ->
           n_sdsent f = false -> n_sdsent f' = true -> In m (e_nodes es) \/ ev_sig ev = Some (m, SgReady);
  hx_tf : e_tests_finished es = true -> e_tests_finished es1 = true;
  hx_comp : e_completed es = true -> e_completed es1 = true;
  (* _removed2pending changes only when an errordown puts a remainder there and when a late replacement
     inherits one; CRun is sent only to the inheriting replacement *)
  hx_rmv :
    (e_removed es1 = e_removed es /\ no_crun vo /\ (forall n, ev <> QErrorDown n)) \/
    (exists n, ev = QErrorDown n /\ no_crun vo) \/
    (exists n d pend, ev = QCollFinish n (collf n) /\ aget d (e_removed es) = Some pend /\
       collf d = collf n /\ spec_of es d = spec_of es n /\ e_removed es1 = adel d (e_removed es) /\
       In n (e_nodes es) /\ ~ In n (e_started es) /\ bkE es n = [] /\
       (forall m c, In (OSend m c) vo -> is_run c -> m = n /\ c = CRun pend) /\
       In (CRun pend) (cmds_to n vo) /\ In n (e_nodes es1) /\ schedn es1 n);
  (* a node is handed tests by a run command, when it was not started and its book was empty *)
  hx_new : forall x, schedn es1 x ->
           schedn es x \/ (exists c, In c (cmds_to x vo) /\ is_run c /\ ~ In x (e_started es) /\ bkE es x = [] /\
                                    In x (e_nodes es1));
  hx_keep : e_completed es = true -> forall x, aget x (e_n2c es) <> None -> aget x (e_n2c es1) <> None;
  hx_fin : forall m b, ev_sig ev = Some (m, SgFin b) -> ~ In m (d_active d1);
}.

Lemma reason_false d es : reason d es = false ->
  e_tests_finished es = false /\ d_shouldstop d = false /\ exhausted d = false.
Proof. unfold reason. intros H. apply orb_false_iff in H. destruct H as (H & H3). apply orb_false_iff in H. tauto. Qed.

Lemma reason_true_intro d es :
  e_tests_finished es = true \/ d_shouldstop d = true \/ exhausted d = true -> reason d es = true.
Proof. unfold reason. intros [H|[H|H]]; rewrite H; rewrite ?orb_true_r; reflexivity. Qed.

Lemma reason_stable d es d1 es1 :
  (e_tests_finished es = true -> e_tests_finished es1 = true) ->
  (d_shouldstop d = true -> d_shouldstop d1 = true) -> (exhausted d = true -> exhausted d1 = true) ->
  reason d1 es1 = false -> reason d es = false.
Proof.
  intros H1 H2 H3 H. destruct (reason_false _ _ H) as (A & B & C). unfold reason.
  destruct (e_tests_finished es); [rewrite H1 in A by reflexivity; discriminate|].
  destruct (d_shouldstop d); [rewrite H2 in B by reflexivity; discriminate|].
  destruct (exhausted d); [rewrite H3 in C by reflexivity; discriminate|]. reflexivity.
Qed.

Lemma DXb_noreason d es : DXb d es -> d_shuttingdown d = false -> reason d es = false.
Proof. intros (_ & H) Hs. destruct (reason d es); [rewrite H in Hs by reflexivity; discriminate|reflexivity]. Qed.

Lemma cinds_sdo m a cs b : SDo a cs b -> flat_map (cinds collf m) cs = [].
Proof.
  destruct a as [f|], b as [f'|]; cbn; try tauto.
  - intros [(-> & _)|(-> & _)]; reflexivity.
  - intros ->. reflexivity.
Qed.

Lemma stb_mono es es' m : (forall k, In k (e_started es) -> In k (e_started es')) -> stb es m = true -> stb es' m = true.
Proof. unfold stb. intros H E. apply mem_nat_In. apply H. apply mem_nat_In. exact E. Qed.

Lemma DX0_same d es d1 : DX0 d es -> same_ctl' d d1 -> DX0 d1 es.
Proof.
  intros [Els J Rq Act Fn K1 H1 H2 Jbb] (S1 & S2 & S3 & S4 & S5 & S6 & S7 & S8).
  pose proof (exhausted_ext d d1 S7 S8) as EE.
  assert (RS : reason d1 es = false -> reason d es = false).
  { apply reason_stable; auto. rewrite EE. auto. }
  constructor.
  - rewrite S1. exact Els.
  - rewrite S5. exact J.
  - rewrite S6. exact Rq.
  - rewrite S3, S5. exact Act.
  - rewrite S7. exact Fn.
  - intros Hr. apply K1. apply RS. exact Hr.
  - rewrite S2. intros Hs. specialize (H1 Hs). destruct (reason d1 es) eqn:E; [reflexivity|].
    rewrite (RS eq_refl) in H1. discriminate.
  - rewrite S2, EE. exact H2.
  - rewrite S3. intros Hs. apply Jbb. destruct (d_shouldstop d) eqn:E; [rewrite (S4 eq_refl) in Hs; discriminate|reflexivity].
Qed.

Lemma heff_sameX ev d es d1 :
  DX0 d es -> same_ctl' d d1 ->
  (forall m b, bookmid' ev m b = b) -> (forall m b, ev_sig ev <> Some (m, SgFin b)) ->
  (forall n, ev <> QErrorDown n) ->
  forall vo, (forall m, cmds_to m vo = []) -> (forall id sp, ~ In (OHook (HSpawn id sp)) vo) ->
  HEFFx ev d es d1 es vo.
Proof.
  intros J0 S Hb Hf Hne vo Hc Hsp. pose proof S as (S1 & S2 & S3 & S4 & S5 & S6 & S7 & S8). constructor.
  - eapply DX0_same; eauto.
  - intros m _. rewrite Hc. apply FXo_refl.
  - intros m _. apply Hc.
  - intros m. rewrite Hc, Hb. cbn. rewrite app_nil_r. reflexivity.
  - auto.
  - intros m [H|H]; auto.
  - intros m Hm. left. rewrite S3. exact Hm.
  - exact S4.
  - intros m E. exfalso. exact (Hf _ _ E).
  - left. exact S5.
  - intros id sp Hin. exfalso. exact (Hsp _ _ Hin).
  - intros F. rewrite S5 in F. exfalso. lia.
  - intros n E. exfalso. exact (Hne n E).
  - intros m Hm. left. rewrite <- S3. exact Hm.
  - intros m f f' E1 E2 A B. congruence.
  - auto.
  - auto.
  - left. split; [reflexivity|]. split; [apply no_crun_nocmd; exact Hc|exact Hne].
  - auto.
  - auto.
  - intros m b E0. exfalso. exact (Hf _ _ E0).
Qed.

(* ---- tests_finished is permanent ---- *)
Definition shortb (p : nat * list nat) : bool := length (snd p) <? 2.

Lemma forallb_aset n v (m : amap (list nat)) :
  forallb shortb m = true -> shortb (n, v) = true -> forallb shortb (aset n v m) = true.
Proof.
  induction m as [|[k x] m IH]; cbn [aset forallb]; intros H Hv.
  - rewrite Hv. reflexivity.
  - apply andb_true_iff in H. destruct H as (H1 & H2). destruct (Nat.eqb n k); cbn [forallb].
    + change (shortb (k, v)) with (shortb (n, v)). rewrite Hv, H2. reflexivity.
    + rewrite H1, (IH H2 Hv). reflexivity.
Qed.

Lemma forallb_adel n (m : amap (list nat)) : forallb shortb m = true -> forallb shortb (adel n m) = true.
Proof.
  induction m as [|[k x] m IH]; cbn [adel forallb]; intros H; [reflexivity|].
  apply andb_true_iff in H. destruct H as (H1 & H2). destruct (Nat.eqb n k); cbn [forallb]; [exact H2|].
  rewrite H1, (IH H2). reflexivity.
Qed.

Lemma forallb_aget n v (m : amap (list nat)) : forallb shortb m = true -> aget n m = Some v -> length v < 2.
Proof.
  intros H E. apply ea_aget_in in E. rewrite forallb_forall in H. specialize (H _ E).
  unfold shortb in H. cbn [snd] in H. apply Nat.ltb_lt in H. exact H.
Qed.

Lemma tf_inv es : e_tests_finished es = true ->
  e_completed es = true /\ e_removed es = [] /\ forallb shortb (e_n2p es) = true.
Proof.
  unfold e_tests_finished. intros H. apply andb_true_iff in H. destruct H as (H & H3).
  apply andb_true_iff in H. destruct H as (H1 & H2). split; [exact H1|]. split; [|exact H3].
  destruct (e_removed es); [reflexivity|discriminate].
Qed.

Lemma tf_intro es : e_completed es = true -> e_removed es = [] -> forallb shortb (e_n2p es) = true ->
  e_tests_finished es = true.
Proof. unfold e_tests_finished. intros -> -> H. cbn. exact H. Qed.
Lemma reason_sched_ext d d1 es es1 :
  e_tests_finished es1 = e_tests_finished es -> d_shouldstop d1 = d_shouldstop d ->
  d_failed_nodes d1 = d_failed_nodes d -> d_max_restart d1 = d_max_restart d -> reason d1 es1 = reason d es.
Proof. intros A B C D. unfold reason. rewrite A, B, (exhausted_ext d d1 C D). reflexivity. Qed.

Lemma bkE_set_eq es n v : bkE (e_set_n2p es (aset n v (e_n2p es))) n = v.
Proof. unfold bkE. cbn [e_n2p e_set_n2p]. apply ea_alist_get_set_eq. Qed.
Lemma bkE_set_neq es n v m : m <> n -> bkE (e_set_n2p es (aset n v (e_n2p es))) m = bkE es m.
Proof. intros H. unfold bkE. cbn [e_n2p e_set_n2p]. apply ea_alist_get_set_neq. exact H. Qed.

Lemma bkE_notin es n : ~ In n (e_nodes es) -> bkE es n = [].
Proof. intros H. unfold bkE. apply ea_alist_get_none. apply ea_get_none. exact H. Qed.

Lemma bkE_in es n : In n (e_nodes es) -> aget n (e_n2p es) = Some (bkE es n).
Proof.
  intros H. unfold bkE, alist_get. apply ea_keys_get in H. destruct (aget n (e_n2p es)); [reflexivity|contradiction].
Qed.

Lemma nil_interval K : exists b, @nil nat = seq b (K - b).
Proof. exists K. rewrite Nat.sub_diag. reflexivity. Qed.

(* ---- workerready ---- *)
Lemma handle_readyX n d es d1 o1 r :
  DXb d es -> PREx (QReady n) d es ->
  d_handle (QReady n) d = (d1, o1, r) ->
  r = Ok tt /\ exists es1 vo, o1 = vfilter (e_nt es) vo /\ HEFFx (QReady n) d es d1 es1 vo.
Proof.
  intros DJd (HnG & Hnc & Hnst & Hnsd & Hpre & Hinact) H. pose proof DJd as (J0 & Jb). pose proof J0 as [Els J Rq Act Fn K1 H1 H2 Jbb].
  cbn [d_handle] in H. unfold hook in H. rewrite mbind_emit, mbind_get in H.
  destruct (d_shuttingdown d) eqn:Esd.
  - (* already shutting down: the node is told to shut down and is not handed to the scheduler *)
    rewrite (d_node_shutdown_liftE n d es Els) in H.
    assert (Hk : aget n (e_nt es) <> None) by (apply (ex_ntk _ _ J); exact HnG).
    destruct (node_shutdown_SDx n es Hk) as (es1 & o2 & En & S & C).
    rewrite En in H. cbn [liftE] in H. inv H.
    split; [reflexivity|]. exists es1, (OHook (HNodeReady n) :: o2). split; [reflexivity|].
    assert (CC : forall m, cmds_to m (OHook (HNodeReady n) :: o2) = cmds_to m o2) by reflexivity.
    destruct (sdx_keep _ _ _ S) as (P1 & P2 & P3 & P4 & P5 & P6).
    assert (RE : reason (d_set_sched d (StE es1)) es1 = reason d es).
    { apply reason_sched_ext; try reflexivity. apply (tests_finished_SD _ _ _ S). }
    constructor.
    + constructor.
      * reflexivity.
      * eapply EX_SD; eauto.
      * exact Rq.
      * exact Act.
      * exact Fn.
      * rewrite RE, (H1 eq_refl). discriminate.
      * intros _. rewrite RE. exact (H1 eq_refl).
      * intros _. exact Esd.
      * unfold e_nodes. rewrite P1. exact Jbb.
    + intros m _. rewrite CC. change (cmds_to m o2) with ([] ++ cmds_to m o2).
      eapply FXo_then_sd; [apply FXo_same|apply (sdx_nt _ _ _ S m)].
      apply stb_mono. rewrite P3. auto.
    + intros m Hm. rewrite CC. destruct (cmds_to m o2) eqn:E; [reflexivity|]. exfalso.
      assert (X : m = n) by (apply C; rewrite E; discriminate). lia.
    + intros m. rewrite CC. cbn [bookmid']. rewrite (cinds_sdo m _ _ _ (sdx_nt _ _ _ S m)), app_nil_r.
      unfold bkE. rewrite P1. reflexivity.
    + intros m Hm. left. unfold e_nodes in *. rewrite P1 in Hm. exact Hm.
    + rewrite P2, P3. intros m [X|X]; auto.
    + intros m Hm. left. exact Hm.
    + auto.
    + intros m E. discriminate.
    + left. reflexivity.
    + intros id sp [F|Hin]; [discriminate|]. exfalso. pose proof (sdx_outs _ _ _ S) as F. rewrite Forall_forall in F.
      exact (F _ Hin).
    + cbn. intros F. lia.
    + intros k E. discriminate.
    + intros m Hm. left. exact Hm.
    + intros m f f' E1 E2 A B. right. cbn [ev_sig]. f_equal. f_equal. symmetry. apply C.
      destruct (SDo_fwd _ _ _ _ (sdx_nt _ _ _ S m) E1) as (f2 & E3 & _ & _ & _ & _ & [(X & ->)|(X & _)]).
      * congruence.
      * rewrite X. discriminate.
    + rewrite (tests_finished_SD _ _ _ S). auto.
    + rewrite P5. auto.
    + left. split; [exact P4|]. split; [apply no_crun_hook; apply no_crun_sd; apply (sdx_outs _ _ _ S)|intros k E0; discriminate].
    + unfold schedn. rewrite P2, P3. auto.
    + rewrite P2. auto.
    + intros m b0 E0. discriminate.
  - (* the node joins the scheduler with an empty book *)
    specialize (Hpre eq_refl).
    assert (Ea : aget n (e_n2p es) = None) by (apply ea_get_none; exact Hpre).
    unfold mbind at 1 in H. rewrite (sched_op_runE _ d es Els) in H. cbn [s_step] in H.
    rewrite (e_add_node_run n es Ea) in H. cbn [lift] in H. unfold no_str, ret in H. inv H.
    split; [reflexivity|]. set (es1 := e_set_n2p es (aset n [] (e_n2p es))).
    exists es1, [OHook (HNodeReady n)]. split; [reflexivity|].
    assert (Ek : forall m, In m (e_nodes es1) <-> m = n \/ In m (e_nodes es)).
    { intros m. unfold e_nodes, es1. cbn [e_n2p e_set_n2p]. apply ea_keys_set. }
    assert (Ebk : forall m, bkE es1 m = bkE es m).
    { intros m. destruct (Nat.eq_dec m n) as [->|Hm].
      - unfold es1. rewrite bkE_set_eq. symmetry. apply bkE_notin. exact Hpre.
      - apply bkE_set_neq. exact Hm. }
    assert (TF : e_tests_finished es = true -> e_tests_finished es1 = true).
    { intros T. destruct (tf_inv _ T) as (T1 & T2 & T3). apply tf_intro; [exact T1|exact T2|].
      unfold es1. cbn [e_n2p e_set_n2p]. apply forallb_aset; [exact T3|reflexivity]. }
    assert (NR : reason d es = false) by (apply DXb_noreason; assumption).
    constructor.
    + constructor.
      * reflexivity.
      * constructor; try exact (ex_num _ _ J); try exact (ex_ntk _ _ J); try exact (ex_n2c _ _ J);
          try exact (ex_n2cnd _ _ J); try exact (ex_ids _ _ J); try exact (ex_cc _ _ J); try exact (ex_rmnd _ _ J);
          try exact (ex_rm _ _ J); try exact (ex_stk _ _ J).
        -- intros m Hm. apply Ek in Hm. destruct Hm as [->|Hm]; [exact HnG|apply (ex_nodes _ _ J); exact Hm].
        -- unfold e_nodes, es1. cbn [e_n2p e_set_n2p]. apply ea_keys_set_nodup. apply J.
        -- intros C. destruct (ex_pre _ _ J C) as (A1 & A2 & A3). split; [exact A1|]. split; [exact A2|].
           intros m. rewrite Ebk. apply A3.
        -- intros C m Hm Hns. rewrite Ebk. apply Ek in Hm. destruct Hm as [->|Hm].
           ++ split; [apply bkE_notin; exact Hpre|]. apply ea_get_none. exact Hnc.
           ++ apply (ex_ns _ _ J C m Hm Hns).
        -- intros m. rewrite Ebk. apply (ex_bk _ _ J).
        -- intros m. rewrite Ebk. apply (ex_bkc _ _ J).
      * exact Rq.
      * exact Act.
      * exact Fn.
      * intros _ m f Hm Ef Hs. apply Ek in Hm. destruct Hm as [->|Hm].
        -- rewrite (Hnsd f Ef) in Hs. discriminate.
        -- apply (K1 NR m f Hm Ef Hs).
      * cbn. rewrite Esd. discriminate.
      * intros E. change (exhausted d = true) in E. specialize (H2 E). discriminate.
      * intros Hs m Hm. apply Ek in Hm. destruct Hm as [->|Hm]; [exact Hinact|apply (Jbb Hs); exact Hm].
    + intros m _. apply FXo_refl.
    + intros m _. reflexivity.
    + intros m. cbn. rewrite app_nil_r. apply Ebk.
    + intros m Hm. apply Ek in Hm. destruct Hm as [->|Hm]; [right; reflexivity|left; exact Hm].
    + intros m [X|X]; auto.
    + intros m Hm. left. exact Hm.
    + auto.
    + intros m E. discriminate.
    + left. reflexivity.
    + intros id sp [F|[]]. discriminate.
    + cbn. intros F. lia.
    + intros k E. discriminate.
    + intros m Hm. left. exact Hm.
    + intros m f f' E1 E2 A B. cbn [es1 e_nt e_set_n2p] in E2. congruence.
    + exact TF.
    + auto.
    + left. split; [reflexivity|]. split; [apply no_crun_hook; apply no_crun_nil|intros k E0; discriminate].
    + auto.
    + auto.
    + intros m b0 E0. discriminate.
Qed.

(* ---- runtest_protocol_complete ---- *)
Lemma handle_completeX n i ms d es d1 o1 r :
  DXb d es -> PREx (QComplete n i ms) d es ->
  d_handle (QComplete n i ms) d = (d1, o1, r) ->
  r = Ok tt /\ exists es1 vo, o1 = vfilter (e_nt es) vo /\ HEFFx (QComplete n i ms) d es d1 es1 vo.
Proof.
  intros DJd (rest & Hb) H. pose proof DJd as (J0 & Jb). pose proof J0 as [Els J Rq Act Fn K1 H1 H2 Jbb].
  cbn [d_handle] in H. unfold mbind at 1 in H. rewrite (sched_op_runE _ d es Els) in H. cbn [s_step] in H.
  rewrite (e_complete_run n i rest es Hb) in H. cbn [lift] in H. unfold no_str, ret in H. inv H.
  set (es1 := e_set_n2p es (aset n rest (e_n2p es))).
  assert (Hin : In n (e_nodes es)) by (apply ea_keys_get; congruence).
  assert (Ekeys : e_nodes es1 = e_nodes es).
  { unfold e_nodes, es1. cbn [e_n2p e_set_n2p]. apply ea_keys_set_in. exact Hin. }
  assert (Ebn : bkE es n = i :: rest) by (unfold bkE, alist_get; rewrite Hb; reflexivity).
  assert (Hcomp : e_completed es = true).
  { destruct (e_completed es) eqn:C; [reflexivity|]. destruct (ex_pre _ _ J C) as (_ & _ & B).
    rewrite B in Ebn. discriminate. }
  assert (Ebk : forall m, bkE es1 m = if Nat.eqb m n then rest else bkE es m).
  { intros m. destruct (Nat.eqb m n) eqn:E.
    - apply Nat.eqb_eq in E. subst m. apply bkE_set_eq.
    - apply Nat.eqb_neq in E. apply bkE_set_neq. exact E. }
  assert (TF : e_tests_finished es = true -> e_tests_finished es1 = true).
  { intros T. destruct (tf_inv _ T) as (T1 & T2 & T3). apply tf_intro; [exact T1|exact T2|].
    unfold es1. cbn [e_n2p e_set_n2p]. apply forallb_aset; [exact T3|].
    pose proof (forallb_aget _ _ _ T3 Hb) as L. unfold shortb. cbn [snd length] in *. apply Nat.ltb_lt. lia. }
  assert (RS : reason (d_set_sched d (StE es1)) es1 = false -> reason d es = false).
  { apply reason_stable; auto. }
  split; [reflexivity|]. exists es1, []. split; [reflexivity|]. constructor.
  - constructor.
    + reflexivity.
    + constructor; try exact (ex_num _ _ J); try exact (ex_ntk _ _ J); try exact (ex_n2c _ _ J);
        try exact (ex_n2cnd _ _ J); try exact (ex_ids _ _ J); try exact (ex_cc _ _ J); try exact (ex_rmnd _ _ J);
        try exact (ex_rm _ _ J); try exact (ex_stk _ _ J).
      * rewrite Ekeys. exact (ex_nodes _ _ J).
      * rewrite Ekeys. exact (ex_wf _ _ J).
      * change (e_completed es1) with (e_completed es). congruence.
      * rewrite Ekeys. intros C m Hm Hns. rewrite Ebk. destruct (Nat.eqb m n) eqn:E.
        -- apply Nat.eqb_eq in E. subst m. destruct (ex_ns _ _ J C n Hm Hns) as (B & _). rewrite B in Ebn. discriminate.
        -- apply (ex_ns _ _ J C m Hm Hns).
      * intros m. rewrite Ebk. destruct (Nat.eqb m n) eqn:E; [|apply (ex_bk _ _ J)].
        apply Nat.eqb_eq in E. subst m. destruct (ex_bk _ _ J n) as (b & Eb). rewrite Ebn in Eb. symmetry in Eb.
        destruct (seq_cons_inv _ _ _ _ Eb) as (_ & ->). eexists. reflexivity.
      * intros m. rewrite Ebk. destruct (Nat.eqb m n) eqn:E; [|apply (ex_bkc _ _ J)].
        apply Nat.eqb_eq in E. subst m. intros _. apply (ex_bkc _ _ J). rewrite Ebn. discriminate.
    + exact Rq.
    + exact Act.
    + exact Fn.
    + rewrite Ekeys. intros Hr. apply (K1 (RS Hr)).
    + intros Hs. change (d_shuttingdown d = true) in Hs. specialize (H1 Hs).
      destruct (reason (d_set_sched d (StE es1)) es1) eqn:E; [reflexivity|]. rewrite (RS eq_refl) in H1. discriminate.
    + exact H2.
    + rewrite Ekeys. exact Jbb.
  - intros m _. apply FXo_refl.
  - intros m _. reflexivity.
  - intros m. cbn [cmds_to flat_map app]. rewrite app_nil_r, Ebk. cbn [bookmid'].
    destruct (Nat.eqb m n) eqn:E; [|reflexivity]. apply Nat.eqb_eq in E. subst m. rewrite Ebn. reflexivity.
  - intros m Hm. left. rewrite Ekeys in Hm. exact Hm.
  - intros m [X|X]; auto.
  - intros m Hm. left. exact Hm.
  - auto.
  - intros m E. discriminate.
  - left. reflexivity.
  - intros id sp [].
  - cbn. intros F. lia.
  - intros k E. discriminate.
  - intros m Hm. left. exact Hm.
  - intros m f f' E1 E2 A B. cbn [es1 e_nt e_set_n2p] in E2. congruence.
  - exact TF.
  - auto.
  - left. split; [reflexivity|]. split; [apply no_crun_nil|intros k E0; discriminate].
  - auto.
  - auto.
  - intros m b0 E0. discriminate.
Qed.

(* ---- remove_node of a node with an empty book ---- *)
Lemma es_remove_facts G n es :
  EX G es -> aget n (e_n2p es) = Some [] ->
  let es1 := es_remove n es in
  EX G es1 /\ e_nt es1 = e_nt es /\ e_started es1 = e_started es /\ e_completed es1 = e_completed es /\
  (forall m, bkE es1 m = bkE es m) /\
  (forall m, In m (e_nodes es1) <-> In m (e_nodes es) /\ m <> n) /\
  (forall m, In m (akeys (e_n2c es1)) -> In m (akeys (e_n2c es))) /\
  (e_tests_finished es = true -> e_tests_finished es1 = true).
Proof.
  intros J Hb. cbv zeta.
  assert (BK : forall m, alist_get [] m (adel n (e_n2p es)) = bkE es m).
  { intros m. unfold bkE. destruct (Nat.eq_dec m n) as [->|Hm].
    - rewrite (ea_alist_get_none [] n _ (ea_get_del_eq n _ (ex_wf _ _ J))).
      unfold alist_get. rewrite Hb. reflexivity.
    - unfold alist_get. rewrite ea_get_del_neq by exact Hm. reflexivity. }
  assert (ND : forall m, In m (akeys (adel n (e_n2p es))) <-> In m (e_nodes es) /\ m <> n).
  { intros m. split.
    - intros Hm. split; [eapply ea_keys_del; eauto|]. intros ->. exact (ea_keys_del_not _ _ (ex_wf _ _ J) Hm).
    - intros (Hm & Hne). apply ea_keys_get. rewrite ea_get_del_neq by exact Hne. apply ea_keys_get. exact Hm. }
  assert (TF : forall x, e_tests_finished es = true ->
            e_tests_finished (if e_completed es then e_set_n2p es (adel n (e_n2p es)) else x) = true).
  { intros x T. destruct (tf_inv _ T) as (T1 & T2 & T3). rewrite T1. apply tf_intro; [exact T1|exact T2|].
    cbn [e_n2p e_set_n2p]. apply forallb_adel. exact T3. }
  unfold es_remove. cbv zeta.
  destruct (e_completed es) eqn:C.
  - split; [|cbn [e_nt e_started e_completed e_n2c e_set_n2p e_nodes e_n2p]; split; [reflexivity|]; split; [reflexivity|];
             split; [exact C|]; split; [exact BK|]; split; [exact ND|]; split; [auto|apply (TF es)]].
    constructor; cbn [e_numnodes e_nt e_nodes e_n2p e_n2c e_completed e_started e_removed e_set_n2p];
      try exact (ex_num _ _ J); try exact (ex_ntk _ _ J); try exact (ex_n2c _ _ J);
      try exact (ex_n2cnd _ _ J); try exact (ex_ids _ _ J); try exact (ex_rmnd _ _ J);
      try exact (ex_rm _ _ J); try exact (ex_stk _ _ J).
    + intros m Hm. apply (ex_nodes _ _ J). apply ND. exact Hm.
    + apply ea_keys_del_nodup. apply J.
    + congruence.
    + congruence.
    + intros _ m Hm Hns. unfold bkE. cbn [e_n2p e_set_n2p]. rewrite BK. apply (ex_ns _ _ J C m); [apply ND; exact Hm|exact Hns].
    + intros m. unfold bkE. cbn [e_n2p e_set_n2p]. rewrite BK. apply (ex_bk _ _ J).
    + intros m. unfold bkE. cbn [e_n2p e_set_n2p]. rewrite BK. apply (ex_bkc _ _ J).
  - destruct (ex_pre _ _ J C) as (A1 & A2 & A3).
    split; [|cbn [e_nt e_started e_completed e_n2c e_set_n2p e_set_n2c e_nodes e_n2p]; split; [reflexivity|]; split; [reflexivity|];
             split; [exact C|]; split; [exact BK|]; split; [exact ND|]; split; [apply ea_keys_del|];
             intros T; destruct (tf_inv _ T) as (T1 & _); congruence].
    constructor; cbn [e_numnodes e_nt e_nodes e_n2p e_n2c e_completed e_started e_removed e_set_n2p e_set_n2c];
      try exact (ex_num _ _ J); try exact (ex_ntk _ _ J); try exact (ex_rmnd _ _ J); try exact (ex_stk _ _ J).
    + intros m Hm. apply (ex_nodes _ _ J). apply ND. exact Hm.
    + apply ea_keys_del_nodup. apply J.
    + intros m Hm. apply (ex_n2c _ _ J). eapply ea_keys_del; eauto.
    + apply ea_keys_del_nodup. apply J.
    + intros k ids Hin. apply (ex_ids _ _ J). eapply ea_in_del; eauto.
    + intros _. pose proof (ex_cc _ _ J C). pose proof (ea_length_del n (e_n2c es)). lia.
    + intros _. split; [exact A1|]. split; [exact A2|]. intros m. unfold bkE. cbn [e_n2p e_set_n2p e_set_n2c]. rewrite BK. apply A3.
    + rewrite A2. intros d0 rest0 F. discriminate.
    + congruence.
    + intros m. unfold bkE. cbn [e_n2p e_set_n2p e_set_n2c]. rewrite BK. apply (ex_bk _ _ J).
    + intros m. unfold bkE. cbn [e_n2p e_set_n2p e_set_n2c]. rewrite BK, A3. intros F. contradiction.
Qed.

Ltac dprojX := cbn [d_sched d_shuttingdown d_shouldstop d_active d_countfailures d_maxfail d_failed_nodes
  d_max_restart d_collect_seen d_next_gw d_requeue d_set_sched d_set_active d_set_shouldstop
  d_set_shuttingdown d_set_countfailures d_set_collect_seen d_set_failed_nodes d_set_next_gw d_set_requeue d_withE].

Ltac dprojXi H := cbn [d_sched d_shuttingdown d_shouldstop d_active d_countfailures d_maxfail d_failed_nodes
  d_max_restart d_collect_seen d_next_gw d_requeue d_set_sched d_set_active d_set_shouldstop
  d_set_shuttingdown d_set_countfailures d_set_collect_seen d_set_failed_nodes d_set_next_gw d_set_requeue d_withE] in H.

(* ---- workerfinished ---- *)
Lemma handle_finishedX n sk d es d1 o1 r :
  DXb d es -> PREx (QFinished n sk) d es ->
  d_handle (QFinished n sk) d = (d1, o1, r) ->
  r = Ok tt /\ exists es1 vo, o1 = vfilter (e_nt es) vo /\ HEFFx (QFinished n sk) d es d1 es1 vo.
Proof.
  intros DJd Hpre H. pose proof DJd as (J0 & Jb). pose proof J0 as [Els J Rq Act Fn K1 H1 H2 Jbb].
  cbn [d_handle] in H. unfold d_worker_workerfinished, hook in H. rewrite mbind_emit in H.
  destruct sk; cbn [PREx] in Hpre; [| |contradiction].
  - (* no stop request: the node leaves the scheduler with an empty book *)
    destruct Hpre as (Hina & Hbook).
    rewrite mbind_get in H. rewrite Els in H. cbn [s_nodes] in H.
    assert (STEP : exists es1,
      ((if mem_nat n (e_nodes es)
        then r0 <- d_sched_op (SRemove n);; massert match r0 with Some s0 => (s0 =? "")%string | None => true end
        else ret tt) d) = (d_set_sched d (StE es1), [], Ok tt) /\
      EX (d_next_gw d) es1 /\ e_nt es1 = e_nt es /\ e_started es1 = e_started es /\ e_completed es1 = e_completed es /\
      (forall m, bkE es1 m = bkE es m) /\
      (forall m, In m (e_nodes es1) -> In m (e_nodes es) /\ m <> n) /\
      (forall m, In m (akeys (e_n2c es1)) -> In m (akeys (e_n2c es))) /\
      (e_tests_finished es = true -> e_tests_finished es1 = true) /\ e_removed es1 = e_removed es /\
      (e_completed es = true -> e_n2c es1 = e_n2c es)).
    { destruct (mem_nat n (e_nodes es)) eqn:Em.
      - apply mem_nat_In in Em. specialize (Hbook Em).
        exists (es_remove n es). split.
        { unfold mbind. rewrite (sched_op_runE _ d es Els). cbn [s_step].
          rewrite (e_remove_idle_run n es Hbook). cbn [lift]. reflexivity. }
        destruct (es_remove_facts _ n es J Hbook) as (A1 & A2 & A3 & A4 & A5 & A6 & A7 & A8).
        repeat (split; [assumption|]). split; [intros m Hm; apply A6; exact Hm|]. split; [exact A7|]. split; [exact A8|].
        split; [unfold es_remove; destruct (e_completed es); reflexivity|].
        intros C0. unfold es_remove. rewrite C0. reflexivity.
      - apply mem_nat_false in Em. exists es. split; [rewrite d_set_sched_same by exact Els; reflexivity|].
        repeat (split; auto). intros ->. contradiction. }
    destruct STEP as (es1 & Erun & J1 & Fn1 & Fst & Fcomp & Fbk & Fnodes & Fn2c & Ftf & Frm & Fnck).
    unfold mbind at 1 in H. rewrite Erun in H.
    rewrite (active_remove_run n (d_set_sched d (StE es1)) Hina) in H. inv H.
    split; [reflexivity|]. exists es1, [OHook (HNodeDown n false)]. split; [reflexivity|].
    assert (RS : forall dd, d_shouldstop dd = d_shouldstop d -> d_failed_nodes dd = d_failed_nodes d ->
                 d_max_restart dd = d_max_restart d -> reason dd es1 = false -> reason d es = false).
    { intros dd E1 E2 E3. apply reason_stable; [exact Ftf|rewrite E1; auto|rewrite (exhausted_ext d dd E2 E3); auto]. }
    constructor.
    + constructor.
      * reflexivity.
      * exact J1.
      * exact Rq.
      * dprojX. intros m Hm. apply in_filter_neq in Hm. apply Act. tauto.
      * exact Fn.
      * intros Hr m f Hm Ef Hs. rewrite Fst. rewrite Fn1 in Ef.
        apply (K1 (RS _ eq_refl eq_refl eq_refl Hr) m f (proj1 (Fnodes m Hm)) Ef Hs).
      * intros Hs. change (d_shuttingdown d = true) in Hs. specialize (H1 Hs).
        match goal with |- ?x = true => destruct x eqn:E; [reflexivity|] end.
        rewrite (RS _ eq_refl eq_refl eq_refl E) in H1. discriminate.
      * exact H2.
      * dprojX. intros Hs m Hm. destruct (Fnodes m Hm) as (X1 & X2). apply in_filter_neq. split; [apply (Jbb Hs); exact X1|exact X2].
    + intros m _. rewrite Fn1. apply FXo_same. apply stb_mono. rewrite Fst. auto.
    + intros m _. reflexivity.
    + intros m. cbn. rewrite app_nil_r. apply Fbk.
    + intros m Hm. left. apply Fnodes. exact Hm.
    + rewrite Fst. intros m [X|X]; auto.
    + intros m Hm. dprojX. destruct (Nat.eq_dec m n) as [->|Hne]; [right; left; eexists; reflexivity|].
      left. apply in_filter_neq. split; assumption.
    + auto.
    + intros m E. discriminate.
    + left. reflexivity.
    + intros id sp [F|[]]. discriminate.
    + cbn. intros F. lia.
    + intros k E. discriminate.
    + intros m Hm. left. dprojXi Hm. apply in_filter_neq in Hm. tauto.
    + intros m f f' E1 E2 A B. rewrite Fn1 in E2. congruence.
    + exact Ftf.
    + rewrite Fcomp. auto.
    + left. split; [exact Frm|]. split; [apply no_crun_hook; apply no_crun_nil|intros k E0; discriminate].
    + intros x (X1 & X2). left. split; [rewrite <- Fst; exact X1|]. apply ea_keys_get. apply Fn2c. apply ea_keys_get. exact X2.
    + intros C0 x. rewrite (Fnck C0). auto.
    + intros m b E0. injection E0 as <- _. dprojX. intros Hm. apply in_filter_neq in Hm. tauto.
  - (* stop request *)
    assert (STEP : exists d2, (d0 <- get;; (if d_shouldstop d0 then ret tt else put (d_set_shouldstop d0 true))) d = (d2, [], Ok tt) /\
              d_sched d2 = d_sched d /\ d_shuttingdown d2 = d_shuttingdown d /\ d_active d2 = d_active d /\ d_shouldstop d2 = true /\
              d_next_gw d2 = d_next_gw d /\ d_requeue d2 = d_requeue d /\ d_failed_nodes d2 = d_failed_nodes d /\
              d_max_restart d2 = d_max_restart d).
    { rewrite mbind_get. destruct (d_shouldstop d) eqn:Ess.
      - exists d. auto 10.
      - eexists. split; [reflexivity|]. auto 10. }
    destruct STEP as (d2 & Erun & S1 & S2 & S3 & S4 & S5 & S6 & S7 & S8).
    unfold mbind at 1 in H. rewrite Erun in H.
    assert (Hina : In n (d_active d2)) by (rewrite S3; exact Hpre).
    rewrite (active_remove_run n d2 Hina) in H. inv H.
    split; [reflexivity|]. exists es, [OHook (HNodeDown n false)]. split; [reflexivity|].
    assert (RT : forall dd, d_shouldstop dd = true -> reason dd es = true).
    { intros dd E. apply reason_true_intro. auto. }
    constructor.
    + constructor.
      * dprojX. rewrite S1. exact Els.
      * dprojX. rewrite S5. exact J.
      * dprojX. rewrite S6. exact Rq.
      * dprojX. rewrite S5. intros m Hm. apply in_filter_neq in Hm. apply Act. rewrite <- S3. tauto.
      * dprojX. rewrite S7. exact Fn.
      * intros Hr. rewrite RT in Hr by exact S4. discriminate.
      * intros _. apply RT. exact S4.
      * dprojX. rewrite S2. unfold exhausted. dprojX. rewrite S7, S8. exact H2.
      * dprojX. rewrite S4. discriminate.
    + intros m _. apply FXo_refl.
    + intros m _. reflexivity.
    + intros m. cbn. rewrite app_nil_r. reflexivity.
    + auto.
    + intros m [X|X]; auto.
    + intros m Hm. dprojX. destruct (Nat.eq_dec m n) as [->|Hne]; [right; left; eexists; reflexivity|].
      left. apply in_filter_neq. rewrite S3. split; assumption.
    + dprojX. intros _. exact S4.
    + intros m _. dprojX. exact S4.
    + left. dprojX. exact S5.
    + intros id sp [F|[]]. discriminate.
    + dprojX. rewrite S5. intros F. lia.
    + intros k E. discriminate.
    + intros m Hm. left. dprojXi Hm. apply in_filter_neq in Hm. rewrite <- S3. tauto.
    + intros m f f' E1 E2 A B. congruence.
    + auto.
    + auto.
    + left. split; [reflexivity|]. split; [apply no_crun_hook; apply no_crun_nil|intros k E0; discriminate].
    + auto.
    + auto.
    + intros m b E0. injection E0 as <- _. dprojX. intros Hm. apply in_filter_neq in Hm. tauto.
Qed.

(* ---- schedule(): the sweeps that occur ---- *)
Definition skipc (es : estate) (m : nat) : Prop :=
  In m (e_started es) \/ (aget m (e_n2p es) = Some [] /\ aget m (e_n2c es) = None).

Lemma sched1_skip m es : skipc es m -> sched1 m es = (es, []).
Proof.
  intros [H|(H1 & H2)]; unfold sched1.
  - apply mem_nat_In in H. rewrite H. reflexivity.
  - destruct (mem_nat m (e_started es)); [reflexivity|]. rewrite H1, H2. destruct (aget m (e_nt es)); reflexivity.
Qed.

Lemma sweep_skip l : forall es, (forall m, In m l -> skipc es m) -> sweep l es = (es, []).
Proof.
  induction l as [|m l IH]; intros es H; [reflexivity|]. cbn [sweep].
  rewrite (sched1_skip m es) by (apply H; left; reflexivity).
  rewrite IH by (intros k Hk; apply H; right; exact Hk). reflexivity.
Qed.

Lemma sweep_one l : forall es n pend f,
  NoDup l -> In n l -> ~ In n (e_started es) -> aget n (e_n2p es) = Some pend -> pend <> [] ->
  aget n (e_nt es) = Some f -> (forall m, In m l -> m <> n -> skipc es m) ->
  sweep l es = (e_set_started es (e_started es ++ [n]), [OSend n (CRun pend)]).
Proof.
  induction l as [|m l IH]; intros es n pend f ND Hin Hns Hp Hne Hf Hsk; [destruct Hin|].
  inversion ND as [|x xs Hni ND']; subst. cbn [sweep].
  destruct (Nat.eq_dec m n) as [->|Hmn].
  - assert (E1 : sched1 n es = (e_set_started es (e_started es ++ [n]), [OSend n (CRun pend)])).
    { unfold sched1. apply mem_nat_false in Hns. rewrite Hns, Hp, Hf. destruct pend; [congruence|reflexivity]. }
    rewrite E1. rewrite sweep_skip; [reflexivity|].
    intros k Hk. assert (Hkn : k <> n) by (intros ->; contradiction).
    destruct (Hsk k (or_intror Hk) Hkn) as [X|X]; [left|right; exact X].
    cbn [e_started e_set_started]. apply in_snoc_iff. left. exact X.
  - rewrite (sched1_skip m es) by (apply Hsk; [left; reflexivity|exact Hmn]).
    destruct Hin as [F|Hin]; [congruence|].
    rewrite (IH es n pend f ND' Hin Hns Hp Hne Hf) by (intros k Hk; apply Hsk; right; exact Hk). reflexivity.
Qed.

Lemma sched_runX d es :
  d_sched d = StE es -> e_completed es = true -> NoDup (e_nodes es) ->
  (forall m, In m (e_nodes es) -> aget m (e_nt es) <> None) ->
  d_sched_op SSchedule d =
    (d_set_sched d (StE (fst (sweep (e_nodes es) es))), vfilter (e_nt es) (snd (sweep (e_nodes es) es)), Ok None).
Proof.
  intros Els C ND Hk. rewrite (sched_op_runE _ d es Els). cbn [s_step]. rewrite (e_schedule_run es C).
  destruct (sweep_spec (e_nodes es) es ND (fun m H => H) Hk) as (E & _).
  fold (e_nodes es). rewrite E. reflexivity.
Qed.

Lemma cinds_runall m : cinds collf m CRunAll = seq 0 (Kf m).
Proof. unfold cinds. cbn [citems]. apply item_inds_map_idx. Qed.
Lemma cinds_run m l : cinds collf m (CRun l) = l.
Proof. unfold cinds. cbn [citems]. apply item_inds_map_idx. Qed.
Lemma cinds_shutdown m : cinds collf m CShutdown = [].
Proof. reflexivity. Qed.

(* ---- collectionfinish before the collection is complete ---- *)
Definition es_coll (n : nat) (es : estate) : estate :=
  e_set_n2p (e_set_n2c es (aset n (collf n) (e_n2c es))) (aset n [] (e_n2p es)).

Lemma es_coll_facts G n es :
  EX G es -> e_completed es = false -> In n (e_nodes es) -> ~ In n (akeys (e_n2c es)) -> n < G ->
  let esa := es_coll n es in
  e_nodes esa = e_nodes es /\ (forall m, bkE esa m = bkE es m) /\
  (forall k x, In (k, x) (e_n2c esa) -> x = collf k) /\
  (forall m, In m (akeys (e_n2c esa)) <-> m = n \/ In m (akeys (e_n2c es))) /\
  NoDup (akeys (e_n2c esa)).
Proof.
  intros J C Hin Hnc HnG. cbv zeta. destruct (ex_pre _ _ J C) as (A1 & A2 & A3).
  split. { unfold es_coll, e_nodes. cbn [e_n2p e_set_n2p]. apply ea_keys_set_in. exact Hin. }
  split. { intros m. destruct (Nat.eq_dec m n) as [->|Hm].
    - unfold es_coll, bkE. cbn [e_n2p e_set_n2p]. rewrite ea_alist_get_set_eq. symmetry. apply A3.
    - unfold es_coll, bkE. cbn [e_n2p e_set_n2p]. apply ea_alist_get_set_neq. exact Hm. }
  split. { intros k x Hi. unfold es_coll in Hi. cbn [e_n2c e_set_n2p e_set_n2c] in Hi. apply ea_in_set in Hi.
    destruct Hi as [(-> & ->)|Hi]; [reflexivity|]. apply (ex_ids _ _ J). exact Hi. }
  split. { intros m. unfold es_coll. cbn [e_n2c e_set_n2p e_set_n2c]. apply ea_keys_set. }
  unfold es_coll. cbn [e_n2c e_set_n2p e_set_n2c]. apply ea_keys_set_nodup. apply J.
Qed.

Lemma es_coll_EX G n es :
  EX G es -> e_completed es = false -> In n (e_nodes es) -> ~ In n (akeys (e_n2c es)) -> n < G ->
  (N <=? length (e_n2c (es_coll n es))) = false -> EX G (es_coll n es).
Proof.
  intros J C Hin Hnc HnG Hlen.
  destruct (es_coll_facts G n es J C Hin Hnc HnG) as (Ek & Ebk & Eids & Ekc & End).
  destruct (ex_pre _ _ J C) as (A1 & A2 & A3).
  constructor; try exact (ex_num _ _ J); try exact (ex_ntk _ _ J); try exact (ex_rmnd _ _ J); try exact (ex_stk _ _ J).
  - rewrite Ek. apply J.
  - rewrite Ek. apply J.
  - intros m Hm. apply Ekc in Hm. destruct Hm as [->|Hm]; [exact HnG|apply (ex_n2c _ _ J); exact Hm].
  - exact End.
  - exact Eids.
  - intros _. apply Nat.leb_gt. exact Hlen.
  - intros _. split; [exact A1|]. split; [exact A2|]. intros m. rewrite Ebk. apply A3.
  - change (e_removed (es_coll n es)) with (e_removed es). rewrite A2. intros d0 r0 F. discriminate.
  - change (e_completed (es_coll n es)) with (e_completed es). congruence.
  - intros m. rewrite Ebk. apply (ex_bk _ _ J).
  - intros m. rewrite Ebk, A3. intros F. contradiction.
Qed.

(* the last collection arrives: schedule() starts every node that has reported its collection *)
Lemma complete_sweep G n es :
  EX G es -> e_completed es = false -> In n (e_nodes es) -> ~ In n (akeys (e_n2c es)) -> n < G ->
  (forall m f, In m (e_nodes es) -> aget m (e_nt es) = Some f -> n_sdsent f = false) ->
  let esc := e_set_completed (es_coll n es) true in
  let es' := fst (sweep (e_nodes es) esc) in let vo := snd (sweep (e_nodes es) esc) in
  EX G es' /\ e_nodes es' = e_nodes es /\ e_completed es' = true /\
  (forall m, m < G -> FXo (Kf m) (stb es m) (stb es' m) (aget m (e_nt es)) (cmds_to m vo) (aget m (e_nt es'))) /\
  (forall m, G <= m -> cmds_to m vo = []) /\
  (forall m, bkE es' m = bkE es m ++ flat_map (cinds collf m) (cmds_to m vo)) /\
  (forall m, In m (akeys (e_n2c es')) \/ In m (e_started es') -> m = n \/ In m (akeys (e_n2c es))) /\
  Forall (fun x => is_spawn x = false) vo /\
  (forall m f', In m (e_nodes es) -> aget m (e_nt es') = Some f' -> n_sdsent f' = true -> In m (e_started es')) /\
  (forall m f f', aget m (e_nt es) = Some f -> aget m (e_nt es') = Some f' -> n_sdsent f = false ->
                  n_sdsent f' = true -> In m (e_nodes es)) /\
  e_removed es' = e_removed es /\ no_crun vo /\
  (forall x, In x (e_started es') -> In CRunAll (cmds_to x vo) /\ In x (e_nodes es)).
Proof.
  intros J C Hin Hnc HnG Hsd. cbv zeta.
  destruct (es_coll_facts G n es J C Hin Hnc HnG) as (Ek & Ebk & Eids & Ekc & End).
  destruct (ex_pre _ _ J C) as (A1 & A2 & A3).
  set (esc := e_set_completed (es_coll n es) true).
  assert (Hl1 : forall m, In m (e_nodes es) -> In m (akeys (e_n2p esc))).
  { intros m Hm. change (akeys (e_n2p esc)) with (e_nodes (es_coll n es)). rewrite Ek. exact Hm. }
  assert (Hl2 : forall m, In m (e_nodes es) -> aget m (e_nt esc) <> None).
  { intros m Hm. apply (nodes_knownX _ _ J). exact Hm. }
  destruct (sweep_spec (e_nodes es) esc (ex_wf _ _ J) Hl1 Hl2) as (_ & GK & SC & UN & NS).
  destruct (sweep (e_nodes es) esc) as [es' vo] eqn:Esw. cbn [fst snd] in GK, SC, UN, NS |- *.
  destruct GK as (K1 & K2 & K3 & K4 & K5 & K6 & K7 & K8).
  change (e_n2c esc) with (e_n2c (es_coll n es)) in K1. change (e_removed esc) with (e_removed es) in K2.
  change (e_completed esc) with true in K3. change (e_numnodes esc) with (e_numnodes es) in K4.
  change (akeys (e_n2p esc)) with (e_nodes (es_coll n es)) in K5. rewrite Ek in K5.
  change (e_nt esc) with (e_nt es) in K6, K7. change (e_started esc) with (e_started es) in K8.
  (* the three cases of a node of the scheduler *)
  assert (CASE : forall m, In m (e_nodes es) ->
     (aget m (e_n2c (es_coll n es)) = None /\ bkE es' m = [] /\ aget m (e_nt es') = aget m (e_nt es) /\
      cmds_to m vo = [] /\ ~ In m (e_started es')) \/
     (In m (e_started es') /\ aget m (e_n2c (es_coll n es)) = Some (collf m) /\ bkE es' m = seq 0 (Kf m) /\
      exists f, aget m (e_nt es) = Some f /\
        ((n_down f || n_sdsent f = true /\ aget m (e_nt es') = Some f /\ cmds_to m vo = [CRunAll]) \/
         (n_down f || n_sdsent f = false /\ aget m (e_nt es') = Some (sdm f) /\ cmds_to m vo = [CRunAll; CShutdown])))).
  { intros m Hm. pose proof (SC m Hm) as S.
    assert (Bm : aget m (e_n2p esc) = Some []).
    { change (e_n2p esc) with (e_n2p (es_coll n es)). rewrite <- Ek in Hm. rewrite (bkE_in _ _ Hm), Ebk, A3. reflexivity. }
    unfold SC1 in S. change (e_started esc) with (e_started es) in S. change (e_n2c esc) with (e_n2c (es_coll n es)) in S.
    change (e_nt esc) with (e_nt es) in S. rewrite A1 in S.
    destruct S as [(Hc & P1 & P2 & P3 & P4)|[(_ & _ & Q1 & coll & f & Q2 & Q3 & Q4 & Q5)|(_ & _ & pend & Hne & Q1 & _)]].
    - left. destruct Hc as [[]|(_ & Hc)]. split; [exact Hc|]. split; [|split; [exact P2|split; [exact P3|]]].
      + unfold bkE, alist_get. rewrite P1, Bm. reflexivity.
      + intros F. apply P4 in F. destruct F.
    - right. split; [exact Q1|]. assert (coll = collf m) by (apply (Eids m); apply ea_aget_in; exact Q2). subst coll.
      split; [exact Q2|]. split; [unfold bkE, alist_get; rewrite Q4; reflexivity|]. exists f. split; [exact Q3|exact Q5].
    - exfalso. rewrite Bm in Q1. congruence. }
  assert (OUT : forall m, ~ In m (e_nodes es) -> UNC esc es' m /\ cmds_to m vo = []) by exact UN.
  assert (BKO : forall m, ~ In m (e_nodes es) -> bkE es' m = []).
  { intros m Hm. apply bkE_notin. unfold e_nodes. rewrite K5. exact Hm. }
  split.
  { constructor.
    - rewrite K4. apply J.
    - intros m. rewrite K6. apply J.
    - unfold e_nodes. rewrite K5. apply J.
    - unfold e_nodes. rewrite K5. apply J.
    - rewrite K1. intros m Hm. apply Ekc in Hm. destruct Hm as [->|Hm]; [exact HnG|apply (ex_n2c _ _ J); exact Hm].
    - rewrite K1. exact End.
    - rewrite K1. exact Eids.
    - rewrite K3. discriminate.
    - rewrite K3. discriminate.
    - rewrite K2. apply J.
    - rewrite K2, A2. intros d0 r0 F. discriminate.
    - intros _ m Hm Hns. unfold e_nodes in Hm. rewrite K5 in Hm.
      destruct (CASE m Hm) as [(X1 & X2 & _)|(X1 & _)]; [|contradiction]. rewrite K1. auto.
    - intros m. destruct (in_dec Nat.eq_dec m (e_nodes es)) as [Hm|Hm].
      + destruct (CASE m Hm) as [(_ & X2 & _)|(_ & _ & X3 & _)].
        * rewrite X2. apply nil_interval.
        * rewrite X3. exists 0. rewrite Nat.sub_0_r. reflexivity.
      + rewrite (BKO m Hm). apply nil_interval.
    - intros m Hb. destruct (in_dec Nat.eq_dec m (e_nodes es)) as [Hm|Hm].
      + destruct (CASE m Hm) as [(_ & X2 & _)|(_ & X2 & _)]; [contradiction|]. rewrite K1, X2. discriminate.
      + rewrite (BKO m Hm) in Hb. contradiction.
    - intros m Hm. destruct (in_dec Nat.eq_dec m (e_nodes es)) as [Hn|Hn]; [apply (ex_nodes _ _ J); exact Hn|].
      destruct (OUT m Hn) as ((_ & _ & U) & _). apply U in Hm. change (e_started esc) with (e_started es) in Hm.
      rewrite A1 in Hm. destruct Hm. }
  split; [unfold e_nodes; exact K5|]. split; [exact K3|].
  split.
  { intros m HmG. unfold stb at 1. rewrite A1. cbn [mem_nat existsb].
    destruct (in_dec Nat.eq_dec m (e_nodes es)) as [Hm|Hm].
    - destruct (CASE m Hm) as [(_ & _ & X3 & X4 & _)|(X1 & _ & _ & f & Ef & X5)].
      + rewrite X3, X4. apply FXo_same. discriminate.
      + assert (Est : stb es' m = true) by (apply mem_nat_In; exact X1). rewrite Est, Ef.
        pose proof (Hsd m f Hm Ef) as Hs0.
        assert (Hc : citems (Kf m) CRunAll = map Idx (seq 0 (Kf m - 0))) by (rewrite Nat.sub_0_r; reflexivity).
        destruct X5 as [(_ & -> & ->)|(_ & -> & ->)]; cbn [FXo].
        * eapply FX_run; [exact Hs0|exact I|exact Hc].
        * eapply FX_runsd; [exact Hs0|exact I|exact Hc].
    - destruct (OUT m Hm) as ((_ & U2 & _) & U4). change (e_nt esc) with (e_nt es) in U2. rewrite U2, U4.
      apply FXo_same. discriminate. }
  split.
  { intros m HmG. destruct (in_dec Nat.eq_dec m (e_nodes es)) as [Hm|Hm]; [|apply (OUT m Hm)].
    pose proof (ex_nodes _ _ J m Hm). lia. }
  split.
  { intros m. rewrite A3. cbn [app]. destruct (in_dec Nat.eq_dec m (e_nodes es)) as [Hm|Hm].
    - destruct (CASE m Hm) as [(_ & X2 & _ & X4 & _)|(_ & _ & X3 & f & _ & [(_ & _ & ->)|(_ & _ & ->)])].
      + rewrite X2, X4. reflexivity.
      + rewrite X3. cbn [flat_map]. rewrite cinds_runall, app_nil_r. reflexivity.
      + rewrite X3. cbn [flat_map]. rewrite cinds_runall, cinds_shutdown, !app_nil_r. reflexivity.
    - rewrite (BKO m Hm). destruct (OUT m Hm) as (_ & ->). reflexivity. }
  split.
  { rewrite K1. intros m [Hm|Hm]; [apply Ekc; exact Hm|]. apply Ekc.
    destruct (in_dec Nat.eq_dec m (e_nodes es)) as [Hn|Hn].
    - destruct (CASE m Hn) as [(_ & _ & _ & _ & X)|(_ & X2 & _)]; [contradiction|]. apply ea_keys_get. rewrite X2. discriminate.
    - destruct (OUT m Hn) as ((_ & _ & U) & _). apply U in Hm. change (e_started esc) with (e_started es) in Hm.
      rewrite A1 in Hm. destruct Hm. }
  split; [exact NS|].
  split.
  { intros m f' Hm Ef' Hs. destruct (CASE m Hm) as [(_ & _ & X3 & _)|(X1 & _)]; [|exact X1].
    rewrite X3 in Ef'. rewrite (Hsd m f' Hm Ef') in Hs. discriminate. }
  split.
  { intros m f f' Ef Ef' Hs Hs'. destruct (in_dec Nat.eq_dec m (e_nodes es)) as [Hm|Hm]; [exact Hm|]. exfalso.
    destruct (OUT m Hm) as ((_ & U2 & _) & _). change (e_nt esc) with (e_nt es) in U2. congruence. }
  split; [exact K2|]. split.
  { intros m pend Hi. apply in_send_cmds in Hi. destruct (in_dec Nat.eq_dec m (e_nodes es)) as [Hm|Hm].
    - destruct (CASE m Hm) as [(_ & _ & _ & X4 & _)|(_ & _ & _ & f & _ & [(_ & _ & X)|(_ & _ & X)])].
      + rewrite X4 in Hi. destruct Hi.
      + rewrite X in Hi. destruct Hi as [F|[]]. discriminate.
      + rewrite X in Hi. destruct Hi as [F|[F|[]]]; discriminate.
    - destruct (OUT m Hm) as (_ & X). rewrite X in Hi. destruct Hi. }
  intros x Hx. destruct (in_dec Nat.eq_dec x (e_nodes es)) as [Hm|Hm].
  - split; [|exact Hm]. destruct (CASE x Hm) as [(_ & _ & _ & _ & X)|(_ & _ & _ & f & _ & [(_ & _ & X)|(_ & _ & X)])]; [contradiction| |]; rewrite X; left; reflexivity.
  - destruct (OUT x Hm) as ((_ & _ & U) & _). apply U in Hx. change (e_started esc) with (e_started es) in Hx.
    rewrite A1 in Hx. destruct Hx.
Qed.

Lemma aget_adel_some {V} d k (m : amap V) v : NoDup (akeys m) -> aget k (adel d m) = Some v -> k <> d /\ aget k m = Some v.
Proof.
  intros ND H. destruct (Nat.eq_dec k d) as [->|Hk].
  - rewrite ea_get_del_eq in H by exact ND. discriminate.
  - rewrite ea_get_del_neq in H by exact Hk. auto.
Qed.

(* ---- a late replacement inherits the remainder of a dead node ---- *)
Lemma inherit_facts G n d pend dcoll es :
  EX G es -> e_completed es = true -> In n (e_nodes es) -> ~ In n (e_started es) -> ~ In n (akeys (e_n2c es)) -> n < G ->
  In (d, pend) (e_removed es) -> aget d (e_n2c es) = Some dcoll -> coll_eqb (collf n) dcoll = true ->
  let es' := e_set_started (es_inh n d pend dcoll es) (e_started es ++ [n]) in
  EX G es' /\ e_nodes es' = e_nodes es /\
  (forall m, bkE es' m = if Nat.eqb m n then pend else bkE es m) /\
  pend <> [] /\ (exists b, pend = seq b ((Kf n) - b)) /\ bkE es n = [].
Proof.
  intros J C Hin Hns Hnc HnG Hrm Edc Eq. cbv zeta.
  assert (Erm : aget d (e_removed es) = Some pend) by (apply ea_in_aget; [apply J|exact Hrm]).
  destruct (ex_rm _ _ J d pend Erm) as (Hne & HdG & _ & b & Eb).
  assert (Ecoll : dcoll = collf n) by (symmetry; apply coll_eqb_eq; exact Eq).
  assert (Ecd : collf d = collf n) by (rewrite <- Ecoll; symmetry; eapply ex_n2c_coll; eauto).
  assert (Bn : bkE es n = []) by (apply (ex_ns _ _ J C n Hin Hns)).
  assert (Ek : e_nodes (e_set_started (es_inh n d pend dcoll es) (e_started es ++ [n])) = e_nodes es).
  { unfold e_nodes, es_inh. cbn [e_n2p e_set_started e_set_n2c e_set_n2p e_set_removed]. apply ea_keys_set_in. exact Hin. }
  assert (Ebk : forall m, bkE (e_set_started (es_inh n d pend dcoll es) (e_started es ++ [n])) m = if Nat.eqb m n then pend else bkE es m).
  { intros m. unfold bkE, es_inh. cbn [e_n2p e_set_started e_set_n2c e_set_n2p e_set_removed].
    destruct (Nat.eqb m n) eqn:E.
    - apply Nat.eqb_eq in E. subst m. apply ea_alist_get_set_eq.
    - apply Nat.eqb_neq in E. apply ea_alist_get_set_neq. exact E. }
  split; [|split; [exact Ek|split; [exact Ebk|split; [exact Hne|split; [|exact Bn]]]]].
  2:{ exists b. rewrite <- Ecd. exact Eb. }
  constructor; rewrite ?Ek; try exact (ex_num _ _ J); try exact (ex_ntk _ _ J); try exact (ex_nodes _ _ J); try exact (ex_wf _ _ J).
  - unfold es_inh. cbn [e_n2c e_set_started e_set_n2c]. intros m Hm. apply ea_keys_set in Hm.
    destruct Hm as [->|Hm]; [exact HnG|apply (ex_n2c _ _ J); exact Hm].
  - unfold es_inh. cbn [e_n2c e_set_started e_set_n2c]. apply ea_keys_set_nodup. apply J.
  - unfold es_inh. cbn [e_n2c e_set_started e_set_n2c]. intros k x Hi. apply ea_in_set in Hi.
    destruct Hi as [(-> & ->)|Hi]; [exact Ecoll|apply (ex_ids _ _ J); exact Hi].
  - cbn. congruence.
  - cbn. congruence.
  - unfold es_inh. cbn [e_removed e_set_started e_set_n2c e_set_n2p e_set_removed]. apply ea_keys_del_nodup. apply J.
  - unfold es_inh. cbn [e_removed e_n2c e_set_started e_set_n2c e_set_n2p e_set_removed]. intros d0 r0 E0.
    destruct (aget_adel_some _ _ _ _ (ex_rmnd _ _ J) E0) as (Hd0 & E1).
    destruct (ex_rm _ _ J d0 r0 E1) as (X1 & X2 & X3 & X4). split; [exact X1|]. split; [exact X2|]. split; [|exact X4].
    rewrite ea_get_set. destruct (Nat.eqb d0 n); [discriminate|exact X3].
  - intros _ m Hm Hms. rewrite Ebk. cbn [e_started e_set_started] in Hms.
    assert (Hmn : m <> n) by (intros ->; apply Hms; apply in_snoc_iff; right; reflexivity).
    apply Nat.eqb_neq in Hmn. rewrite Hmn. unfold es_inh. cbn [e_n2c e_set_started e_set_n2c].
    rewrite ea_get_set, Hmn. apply (ex_ns _ _ J C m Hm). intros F. apply Hms. apply in_snoc_iff. left. exact F.
  - intros m. rewrite Ebk. destruct (Nat.eqb m n) eqn:E; [|apply (ex_bk _ _ J)].
    apply Nat.eqb_eq in E. subst m. exists b. rewrite <- Ecd. exact Eb.
  - intros m. rewrite Ebk. unfold es_inh. cbn [e_n2c e_set_started e_set_n2c]. rewrite ea_get_set.
    destruct (Nat.eqb m n); [intros _; discriminate|apply (ex_bkc _ _ J)].
  - cbn [e_started e_set_started]. intros m Hm. apply in_snoc_iff in Hm. destruct Hm as [Hm| ->]; [apply (ex_stk _ _ J); exact Hm|exact HnG].
Qed.

(* ---- a late replacement with nothing to take over is marked started (and shut down) ---- *)
Lemma late_nothing_EX G n es nt' :
  EX G es -> e_completed es = true -> n < G -> (forall k, aget k nt' <> None <-> aget k (e_nt es) <> None) ->
  EX G (e_set_started (e_set_nt es nt') (e_started es ++ [n])).
Proof.
  intros J C HnG Hk. constructor; try exact (ex_num _ _ J); try exact (ex_nodes _ _ J); try exact (ex_wf _ _ J);
    try exact (ex_n2c _ _ J); try exact (ex_n2cnd _ _ J); try exact (ex_ids _ _ J); try exact (ex_cc _ _ J);
    try exact (ex_rmnd _ _ J); try exact (ex_rm _ _ J); try exact (ex_bk _ _ J); try exact (ex_bkc _ _ J).
  - intros k. cbn [e_nt e_set_started e_set_nt]. rewrite Hk. apply J.
  - cbn. congruence.
  - intros _ m Hm Hms. apply (ex_ns _ _ J C m Hm). intros F. apply Hms. cbn [e_started e_set_started].
    apply in_snoc_iff. left. exact F.
  - cbn [e_started e_set_started]. intros m Hm. apply in_snoc_iff in Hm. destruct Hm as [Hm| ->]; [apply (ex_stk _ _ J); exact Hm|exact HnG].
Qed.

Lemma vfilter_nosend nt o : (forall n c, ~ In (OSend n c) o) -> vfilter nt o = o.
Proof.
  induction o as [|x o IH]; intros H; [reflexivity|]. unfold vfilter. cbn [filter].
  destruct x as [h|m c| |]; cbn [vkeep]; try (fold (vfilter nt o); rewrite IH; [reflexivity|intros k c F; apply (H k c); right; exact F]).
  exfalso. apply (H m c). left. reflexivity.
Qed.

(* ---- collectionfinish ---- *)
Lemma handle_collfinishX n ids d es d1 o1 r :
  DXb d es -> PREx (QCollFinish n ids) d es ->
  d_handle (QCollFinish n ids) d = (d1, o1, r) ->
  r = Ok tt /\ exists es1 vo, o1 = vfilter (e_nt es) vo /\ HEFFx (QCollFinish n ids) d es d1 es1 vo.
Proof.
  intros DJd (HnG & Hids & Hnc & Hnst) H. pose proof DJd as (J0 & Jb). pose proof J0 as [Els J Rq Act Fn K1 H1 H2 Jbb].
  assert (SAME : forall x, (d, @nil out, x) = (d1, o1, r) -> x = Ok tt ->
                 r = Ok tt /\ exists es1 vo, o1 = vfilter (e_nt es) vo /\ HEFFx (QCollFinish n ids) d es d1 es1 vo).
  { intros x E Ex. inv E. split; [reflexivity|]. exists es, []. split; [reflexivity|]. apply heff_sameX; auto.
    - apply same_ctl'_refl.
    - intros m b E. discriminate.
    - intros k E. discriminate. }
  cbn [d_handle] in H. rewrite mbind_get in H.
  destruct (d_shuttingdown d) eqn:Esd; [eapply SAME; [exact H|reflexivity]|].
  rewrite Els in H. cbn [s_nodes] in H.
  destruct (mem_nat n (e_nodes es)) eqn:Em; cbn [negb] in H; [|eapply SAME; [exact H|reflexivity]].
  clear SAME. apply mem_nat_In in Em.
  assert (NR : reason d es = false) by (apply DXb_noreason; assumption).
  destruct (reason_false _ _ NR) as (NR1 & NR2 & NR3).
  specialize (K1 NR).
  assert (Hkn : aget n (e_nt es) <> None) by (apply (ex_ntk _ _ J); exact HnG).
  destruct (aget n (e_nt es)) as [f|] eqn:Ef; [|congruence]. clear Hkn.
  assert (Hsn : n_sdsent f = false).
  { destruct (n_sdsent f) eqn:E; [|reflexivity]. exfalso. apply Hnst. apply (K1 n f Em Ef E). }
  unfold hook in H. rewrite mbind_emit in H. unfold mbind at 1 in H.
  rewrite (sched_op_runE _ d es Els) in H. cbn [s_step] in H.
  destruct (e_completed es) eqn:C.
  - (* the collection of a late replacement *)
    assert (Hp : aget n (e_n2p es) = Some []).
    { rewrite (bkE_in _ _ Em). destruct (ex_ns _ _ J C n Em Hnst) as (B & _). rewrite B. reflexivity. }
    assert (Hrm : forall d0 pend, In (d0, pend) (e_removed es) -> pend <> [] /\ spec_of es d0 <> None /\ aget d0 (e_n2c es) <> None).
    { intros d0 pend Hin. assert (E0 : aget d0 (e_removed es) = Some pend) by (apply ea_in_aget; [apply J|exact Hin]).
      destruct (ex_rm _ _ J d0 pend E0) as (X1 & X2 & X3 & _). split; [exact X1|]. split; [|exact X3].
      unfold spec_of. apply (ex_ntk _ _ J) in X2. destruct (aget d0 (e_nt es)); [discriminate|contradiction]. }
    destruct (e_add_node_collection n ids es) as [[esa oa] ra] eqn:Ea. cbn [lift] in H.
    destruct (e_add_coll_late n ids es f esa oa ra Hp C Ef Hrm Ea) as (-> & CASES).
    unfold no_str in H. rewrite mbind_get in H. cbn [d_sched d_set_sched s_collection_is_completed] in H.
    destruct CASES as [(d0 & pend & dcoll & Hin & Edc & Eq & Esp & -> & ->)|(lg & Hlg & CS)].
    + (* it inherits the remainder of the dead node d0 *)
      subst ids.
      destruct (inherit_facts _ n d0 pend dcoll es J C Em Hnst Hnc HnG Hin Edc Eq) as (J1 & Ek & Ebk & Hne & (b & Eb) & Bn).
      set (esa := es_inh n d0 pend dcoll es) in *.
      assert (Eka : e_nodes esa = e_nodes es).
      { unfold e_nodes, esa, es_inh. cbn [e_n2p e_set_n2c e_set_n2p e_set_removed]. apply ea_keys_set_in. exact Em. }
      assert (Hsw : sweep (e_nodes esa) esa = (e_set_started esa (e_started esa ++ [n]), [OSend n (CRun pend)])).
      { apply (sweep_one _ esa n pend f); try assumption.
        - rewrite Eka. apply J.
        - rewrite Eka. exact Em.
        - unfold esa, es_inh. cbn [e_n2p e_set_n2c e_set_n2p e_set_removed]. apply ea_get_set_eq.
        - rewrite Eka. intros m Hm Hmn.
          destruct (in_dec Nat.eq_dec m (e_started es)) as [Hs|Hs]; [left; exact Hs|right].
          destruct (ex_ns _ _ J C m Hm Hs) as (B & Cn). unfold esa, es_inh. cbn [e_n2p e_n2c e_set_n2c e_set_n2p e_set_removed].
          rewrite !ea_get_set_neq by exact Hmn. rewrite (bkE_in _ _ Hm), B. auto. }
      change (e_completed esa) with (e_completed es) in H. rewrite C in H.
      unfold mbind at 1 in H.
      rewrite (sched_runX (d_set_sched d (StE esa)) esa eq_refl C) in H.
      2:{ rewrite Eka. apply J. }
      2:{ rewrite Eka. apply (nodes_knownX _ _ J). }
      rewrite Hsw in H. cbn [fst snd] in H. unfold ret in H. injection H as <- <- <-.
      split; [reflexivity|].
      exists (e_set_started esa (e_started es ++ [n])), [OHook (HCollFinished n); OSend n (CRun pend)].
      split. { rewrite vfilter_cons_hook. cbn [app]. rewrite app_nil_r. reflexivity. }
      assert (CM : forall m, cmds_to m [OHook (HCollFinished n); OSend n (CRun pend)] = if Nat.eqb m n then [CRun pend] else []).
      { intros m. unfold cmds_to. cbn. rewrite (Nat.eqb_sym n m). destruct (Nat.eqb m n); reflexivity. }
      constructor.
      * constructor.
        -- reflexivity.
        -- exact J1.
        -- exact Rq.
        -- exact Act.
        -- exact Fn.
        -- intros _ m f0 Hm Ef0 Hs0. rewrite Ek in Hm. cbn [e_started e_set_started]. apply in_snoc_iff. left.
           apply (K1 m f0 Hm Ef0 Hs0).
        -- dprojX. rewrite Esd. discriminate.
        -- intros E. change (exhausted d = true) in E. congruence.
        -- rewrite Ek. exact Jbb.
      * intros m HmG. rewrite CM. change (e_nt (e_set_started esa (e_started es ++ [n]))) with (e_nt es).
        destruct (Nat.eqb m n) eqn:E.
        -- apply Nat.eqb_eq in E. subst m. rewrite Ef. cbn [FXo].
           assert (St0 : stb es n = false) by (apply mem_nat_false; exact Hnst).
           assert (St1 : stb (e_set_started esa (e_started es ++ [n])) n = true).
           { apply mem_nat_In. cbn [e_started e_set_started]. apply in_snoc_iff. right. reflexivity. }
           rewrite St0, St1. eapply (FX_run _ f (CRun pend) b); [exact Hsn|exact I|]. cbn [citems]. rewrite Eb. reflexivity.
        -- apply FXo_same. apply stb_mono. cbn [e_started e_set_started]. intros k Hk. apply in_snoc_iff. left. exact Hk.
      * intros m HmG. rewrite CM. destruct (Nat.eqb m n) eqn:E; [|reflexivity]. apply Nat.eqb_eq in E. lia.
      * intros m. rewrite CM, Ebk. cbn [bookmid']. destruct (Nat.eqb m n) eqn:E.
        -- apply Nat.eqb_eq in E. subst m. rewrite Bn. cbn [flat_map app]. rewrite cinds_run, app_nil_r. reflexivity.
        -- cbn. rewrite app_nil_r. reflexivity.
      * intros m Hm. left. rewrite Ek in Hm. exact Hm.
      * intros m [Hm|Hm].
        -- unfold esa, es_inh in Hm. cbn [e_n2c e_set_started e_set_n2c] in Hm. apply ea_keys_set in Hm.
           destruct Hm as [->|Hm]; [right; right; reflexivity|left; exact Hm].
        -- cbn [e_started e_set_started] in Hm. apply in_snoc_iff in Hm.
           destruct Hm as [Hm| ->]; [right; left; exact Hm|right; right; reflexivity].
      * intros m Hm. left. exact Hm.
      * auto.
      * intros m E. discriminate.
      * left. reflexivity.
      * intros id sp [F|[F|[]]]; discriminate.
      * dprojX. intros F. lia.
      * intros k E. discriminate.
      * intros m Hm. left. exact Hm.
      * intros m g g' E1 E2 A B. change (e_nt (e_set_started esa (e_started es ++ [n]))) with (e_nt es) in E2. congruence.
      * congruence.
      * auto.
      * right. right. exists n, d0, pend. split; [reflexivity|].
        split; [apply ea_in_aget; [apply J|exact Hin]|].
        assert (Ecoll : dcoll = collf n) by (symmetry; apply coll_eqb_eq; exact Eq).
        split; [rewrite <- Ecoll; symmetry; apply (ex_n2c_coll _ es d0 dcoll J Edc)|]. split; [exact Esp|]. split; [reflexivity|].
        split; [exact Em|]. split; [exact Hnst|]. split; [exact Bn|].
        split; [intros m c0 [F|[F|[]]] Hr; [discriminate|]; injection F as <- <-; split; reflexivity|].
        split; [rewrite CM, Nat.eqb_refl; left; reflexivity|]. split; [rewrite Ek; exact Em|].
        split; [cbn [e_started e_set_started]; apply in_snoc_iff; right; reflexivity|].
        unfold esa, es_inh. cbn [e_n2c e_set_started e_set_n2c]. rewrite ea_get_set_eq. discriminate.
      * intros x (X1 & X2). cbn [e_started e_set_started] in X1. apply in_snoc_iff in X1.
        destruct (Nat.eq_dec x n) as [->|Hxn].
        -- right. exists (CRun pend). rewrite CM, Nat.eqb_refl. split; [left; reflexivity|]. split; [exact I|]. split; [exact Hnst|].
           split; [exact Bn|]. rewrite Ek. exact Em.
        -- left. destruct X1 as [X1|X1]; [|contradiction]. split; [exact X1|].
           unfold esa, es_inh in X2. cbn [e_n2c e_set_started e_set_n2c] in X2. rewrite ea_get_set_neq in X2 by exact Hxn. exact X2.
      * intros _ x Hx. unfold esa, es_inh. cbn [e_n2c e_set_started e_set_n2c]. rewrite ea_get_set.
        destruct (Nat.eqb x n); [discriminate|exact Hx].
      * intros m b0 E0. discriminate.
    + (* nothing to take over: the node is not needed *)
      assert (LG : vfilter (e_nt es) lg = lg /\ (forall m, cmds_to m lg = []) /\ (forall id sp, ~ In (OHook (HSpawn id sp)) lg)).
      { destruct Hlg as [->|(d0 & ->)]; (split; [reflexivity|]); (split; [reflexivity|]).
        - intros id sp [].
        - intros id sp [F|[]]. discriminate. }
      destruct LG as (LG1 & LG2 & LG3).
      assert (GEN : forall nt' cs, (forall k, aget k nt' <> None <-> aget k (e_nt es) <> None) ->
                (forall k, k <> n -> aget k nt' = aget k (e_nt es)) ->
                (exists f', aget n nt' = Some f' /\ FX (Kf n) false true f cs f') ->
                (cs = [] \/ cs = [CShutdown]) ->
                esa = e_set_started (e_set_nt es nt') (e_started es ++ [n]) ->
                forall vo2, (forall m, cmds_to m vo2 = if Nat.eqb m n then cs else []) ->
                (forall id sp, ~ In (OHook (HSpawn id sp)) vo2) -> no_crun vo2 ->
                oa = vfilter (e_nt es) vo2 ->
                r = Ok tt /\ exists es1 vo, o1 = vfilter (e_nt es) vo /\ HEFFx (QCollFinish n ids) d es d1 es1 vo).
      { intros nt' cs Hk Hoth (f' & Ef' & FXn) Hcs -> vo2 CM Hsp2 Hncr ->.
        set (esa := e_set_started (e_set_nt es nt') (e_started es ++ [n])) in *.
        assert (Hsw : sweep (e_nodes esa) esa = (esa, [])).
        { apply sweep_skip. change (e_nodes esa) with (e_nodes es). intros m Hm.
          destruct (Nat.eq_dec m n) as [->|Hmn]; [left; cbn; apply in_snoc_iff; right; reflexivity|].
          destruct (in_dec Nat.eq_dec m (e_started es)) as [Hs|Hs]; [left; cbn; apply in_snoc_iff; left; exact Hs|right].
          destruct (ex_ns _ _ J C m Hm Hs) as (B & Cn). change (e_n2p esa) with (e_n2p es). change (e_n2c esa) with (e_n2c es).
          rewrite (bkE_in _ _ Hm), B. auto. }
        change (e_completed esa) with (e_completed es) in H. rewrite C in H.
        unfold mbind at 1 in H.
        rewrite (sched_runX (d_set_sched d (StE esa)) esa eq_refl C) in H.
        2:{ change (e_nodes esa) with (e_nodes es). apply J. }
        2:{ change (e_nodes esa) with (e_nodes es). intros m Hm. change (e_nt esa) with nt'. apply Hk. apply (nodes_knownX _ _ J). exact Hm. }
        rewrite Hsw in H. cbn [fst snd] in H. unfold ret in H. injection H as <- <- <-.
        split; [reflexivity|]. exists esa, (OHook (HCollFinished n) :: vo2).
        split. { rewrite vfilter_cons_hook. cbn [vfilter filter app]. rewrite app_nil_r. reflexivity. }
        assert (CM' : forall m, cmds_to m (OHook (HCollFinished n) :: vo2) = if Nat.eqb m n then cs else []) by (intros m; apply CM).
        constructor.
        * constructor.
          -- reflexivity.
          -- apply late_nothing_EX; assumption.
          -- exact Rq.
          -- exact Act.
          -- exact Fn.
          -- intros _ m f0 Hm Ef0 Hs0. change (e_nodes esa) with (e_nodes es) in Hm. change (e_nt esa) with nt' in Ef0.
             cbn [esa e_started e_set_started]. apply in_snoc_iff.
             destruct (Nat.eq_dec m n) as [->|Hmn]; [right; reflexivity|left].
             rewrite (Hoth m Hmn) in Ef0. apply (K1 m f0 Hm Ef0 Hs0).
          -- dprojX. rewrite Esd. discriminate.
          -- intros E. change (exhausted d = true) in E. congruence.
          -- exact Jbb.
        * intros m HmG. rewrite CM'. change (e_nt esa) with nt'. destruct (Nat.eqb m n) eqn:E.
          -- apply Nat.eqb_eq in E. subst m. rewrite Ef, Ef'. cbn [FXo].
             assert (St0 : stb es n = false) by (apply mem_nat_false; exact Hnst).
             assert (St1 : stb esa n = true).
             { apply mem_nat_In. cbn [esa e_started e_set_started]. apply in_snoc_iff. right. reflexivity. }
             rewrite St0, St1. exact FXn.
          -- apply Nat.eqb_neq in E. rewrite (Hoth m E). apply FXo_same. apply stb_mono.
             cbn [esa e_started e_set_started]. intros k Hk0. apply in_snoc_iff. left. exact Hk0.
        * intros m HmG. rewrite CM'. destruct (Nat.eqb m n) eqn:E; [|reflexivity]. apply Nat.eqb_eq in E. lia.
        * intros m. rewrite CM'. cbn [bookmid']. change (bkE esa m) with (bkE es m).
          destruct (Nat.eqb m n); [|cbn; rewrite app_nil_r; reflexivity].
          destruct Hcs as [->| ->]; cbn; rewrite app_nil_r; reflexivity.
        * intros m Hm. left. exact Hm.
        * intros m [Hm|Hm]; [left; exact Hm|]. cbn [esa e_started e_set_started] in Hm. apply in_snoc_iff in Hm.
          destruct Hm as [Hm| ->]; [right; left; exact Hm|right; right; reflexivity].
        * intros m Hm. left. exact Hm.
        * auto.
        * intros m E. discriminate.
        * left. reflexivity.
        * intros id sp [F|Hin]; [discriminate|]. exfalso. exact (Hsp2 _ _ Hin).
        * dprojX. intros F. lia.
        * intros k E. discriminate.
        * intros m Hm. left. exact Hm.
        * intros m g g' E1 E2 A B. left. change (e_nt esa) with nt' in E2.
          destruct (Nat.eq_dec m n) as [->|Hmn]; [exact Em|]. rewrite (Hoth m Hmn) in E2. congruence.
        * congruence.
        * auto.
        * left. split; [reflexivity|]. split; [apply no_crun_hook; exact Hncr|intros k E0; discriminate].
        * intros x (X1 & X2). left. cbn [esa e_started e_set_started] in X1. apply in_snoc_iff in X1.
          change (e_n2c esa) with (e_n2c es) in X2. destruct X1 as [X1| ->]; [split; assumption|].
          exfalso. apply Hnc. apply ea_keys_get. exact X2.
        * auto.
        * intros m b0 E0. discriminate. }
      destruct CS as [(Eds & -> & ->)|(Eds & -> & ->)].
      * apply (GEN (e_nt es) []) with (vo2 := lg).
        -- intros k. reflexivity.
        -- intros k _. reflexivity.
        -- exists f. split; [exact Ef|]. apply FX_same. auto.
        -- left. reflexivity.
        -- destruct es; reflexivity.
        -- intros m. rewrite LG2. destruct (Nat.eqb m n); reflexivity.
        -- exact LG3.
        -- apply no_crun_nocmd. exact LG2.
        -- symmetry. exact LG1.
      * apply (GEN (aset n (sdm f) (e_nt es)) [CShutdown] ) with (vo2 := lg ++ [OSend n CShutdown]).
        -- intros k. rewrite ea_get_set. destruct (Nat.eqb k n) eqn:E; [|reflexivity].
           apply Nat.eqb_eq in E. subst k. rewrite Ef. split; intros; discriminate.
        -- intros k Hk. apply ea_get_set_neq. exact Hk.
        -- exists (sdm f). split; [apply ea_get_set_eq|]. apply FX_sd; auto.
        -- right. reflexivity.
        -- reflexivity.
        -- intros m. rewrite cmds_to_app, LG2. cbn [app]. unfold cmds_to. cbn. rewrite (Nat.eqb_sym n m).
           destruct (Nat.eqb m n); reflexivity.
        -- intros id sp Hin. apply in_app_or in Hin. destruct Hin as [Hin|[F|[]]]; [exact (LG3 _ _ Hin)|discriminate].
        -- apply no_crun_app; [apply no_crun_nocmd; exact LG2|intros m pend [F|[]]; discriminate].
        -- rewrite vfilter_app, LG1. reflexivity.
  - (* before the collection is complete *)
    subst ids.
    assert (Hp : aget n (e_n2p es) <> None) by (apply ea_keys_get; exact Em).
    rewrite (e_add_coll_run n (collf n) es Hp C) in H. cbn [lift] in H.
    change (es_addcoll n (collf n) es) with
      (if e_numnodes (es_coll n es) <=? length (e_n2c (es_coll n es)) then e_set_completed (es_coll n es) true else es_coll n es) in H.
    change (e_numnodes (es_coll n es)) with (e_numnodes es) in H. rewrite (ex_num _ _ J) in H.
    destruct (ex_pre _ _ J C) as (A1 & A2 & A3).
    assert (SD0 : forall m g, In m (e_nodes es) -> aget m (e_nt es) = Some g -> n_sdsent g = false).
    { intros m g Hm Eg. destruct (n_sdsent g) eqn:E; [|reflexivity]. exfalso.
      pose proof (K1 m g Hm Eg E) as X. rewrite A1 in X. destruct X. }
    unfold no_str in H. rewrite mbind_get in H. cbn [d_sched d_set_sched s_collection_is_completed] in H.
    destruct (N <=? length (e_n2c (es_coll n es))) eqn:Elen.
    + (* the last collection: schedule() *)
      destruct (complete_sweep _ n es J C Em Hnc HnG SD0) as (J1 & Ek & Ecomp & Ffx & Fout & Fbk & Fcf & Fns & Fk1 & Fsdn & Frm & Fncr & Fall).
      set (esc := e_set_completed (es_coll n es) true) in *.
      change (e_completed esc) with true in H. cbv iota in H.
      destruct (es_coll_facts _ n es J C Em Hnc HnG) as (Eka & _).
      unfold mbind at 1 in H.
      rewrite (sched_runX (d_set_sched d (StE esc)) esc eq_refl eq_refl) in H.
      2:{ change (e_nodes esc) with (e_nodes (es_coll n es)). rewrite Eka. apply J. }
      2:{ change (e_nodes esc) with (e_nodes (es_coll n es)). rewrite Eka. apply (nodes_knownX _ _ J). }
      change (e_nodes esc) with (e_nodes (es_coll n es)) in H. rewrite Eka in H.
      destruct (sweep (e_nodes es) esc) as [es' vo] eqn:Esw. cbn [fst snd] in *.
      unfold ret in H. injection H as <- <- <-. split; [reflexivity|].
      exists es', (OHook (HCollFinished n) :: vo). split. { rewrite vfilter_cons_hook. cbn [app]. rewrite app_nil_r. reflexivity. }
      assert (CC : forall m, cmds_to m (OHook (HCollFinished n) :: vo) = cmds_to m vo) by reflexivity.
      constructor.
      * constructor.
        -- reflexivity.
        -- exact J1.
        -- exact Rq.
        -- exact Act.
        -- exact Fn.
        -- intros _ m g Hm Eg Hs. rewrite Ek in Hm. apply (Fk1 m g Hm Eg Hs).
        -- dprojX. rewrite Esd. discriminate.
        -- intros E. change (exhausted d = true) in E. congruence.
        -- rewrite Ek. exact Jbb.
      * intros m HmG. rewrite CC. apply Ffx. exact HmG.
      * intros m HmG. rewrite CC. apply Fout. exact HmG.
      * intros m. rewrite CC. cbn [bookmid']. apply Fbk.
      * intros m Hm. left. rewrite Ek in Hm. exact Hm.
      * intros m Hm. destruct (Fcf m Hm) as [->|X]; [right; right; reflexivity|left; exact X].
      * intros m Hm. left. exact Hm.
      * auto.
      * intros m E. discriminate.
      * left. reflexivity.
      * intros id sp [F|Hin]; [discriminate|]. exfalso. rewrite Forall_forall in Fns. specialize (Fns _ Hin). discriminate.
      * dprojX. intros F. lia.
      * intros k E. discriminate.
      * intros m Hm. left. exact Hm.
      * intros m g g' E1 E2 A B. left. eapply Fsdn; eauto.
      * congruence.
      * congruence.
      * left. split; [exact Frm|]. split; [apply no_crun_hook; exact Fncr|intros k E0; discriminate].
      * intros x (X1 & X2). right. exists CRunAll. rewrite CC. split; [apply Fall; exact X1|]. split; [exact I|].
        split; [rewrite A1; intros []|]. split; [apply A3|]. rewrite Ek. apply Fall. exact X1.
      * congruence.
      * intros m b0 E0. discriminate.
    + (* not the last one *)
      change (e_completed (es_coll n es)) with (e_completed es) in H. rewrite C in H. unfold ret in H. injection H as <- <- <-.
      split; [reflexivity|]. exists (es_coll n es), [OHook (HCollFinished n)]. split; [reflexivity|].
      destruct (es_coll_facts _ n es J C Em Hnc HnG) as (Eka & Ebk & _ & Ekc & _).
      constructor.
      * constructor.
        -- reflexivity.
        -- apply es_coll_EX; assumption.
        -- exact Rq.
        -- exact Act.
        -- exact Fn.
        -- intros _ m g Hm Eg Hs. rewrite Eka in Hm. change (e_nt (es_coll n es)) with (e_nt es) in Eg.
           rewrite (SD0 m g Hm Eg) in Hs. discriminate.
        -- dprojX. rewrite Esd. discriminate.
        -- intros E. change (exhausted d = true) in E. congruence.
        -- rewrite Eka. exact Jbb.
      * intros m _. apply FXo_refl.
      * intros m _. reflexivity.
      * intros m. cbn. rewrite app_nil_r. apply Ebk.
      * intros m Hm. left. rewrite Eka in Hm. exact Hm.
      * intros m [Hm|Hm]; [|right; left; exact Hm]. apply Ekc in Hm. destruct Hm as [->|Hm]; [right; right; reflexivity|left; exact Hm].
      * intros m Hm. left. exact Hm.
      * auto.
      * intros m E. discriminate.
      * left. reflexivity.
      * intros id sp [F|[]]. discriminate.
      * dprojX. intros F. lia.
      * intros k E. discriminate.
      * intros m Hm. left. exact Hm.
      * intros m g g' E1 E2 A B. change (e_nt (es_coll n es)) with (e_nt es) in E2. congruence.
      * congruence.
      * change (e_completed (es_coll n es)) with (e_completed es). auto.
      * left. split; [reflexivity|]. split; [apply no_crun_hook; apply no_crun_nil|intros k E0; discriminate].
      * intros x (X1 & _). exfalso. change (e_started (es_coll n es)) with (e_started es) in X1. rewrite A1 in X1. destruct X1.
      * congruence.
      * intros m b0 E0. discriminate.
Qed.

(* ---- remove_node of a dead node with a non-empty book: crash item and remainder ---- *)
Lemma es_remove_busy_facts G n i rest es :
  EX G es -> aget n (e_n2p es) = Some (i :: rest) -> n < G ->
  let es1 := es_remove_busy n rest es in
  EX G es1 /\ e_nt es1 = e_nt es /\ e_started es1 = e_started es /\ e_completed es1 = e_completed es /\
  e_n2c es1 = e_n2c es /\
  (forall m, bkE es1 m = if Nat.eqb m n then [] else bkE es m) /\
  (forall m, In m (e_nodes es1) <-> In m (e_nodes es) /\ m <> n) /\
  (e_tests_finished es = true -> e_tests_finished es1 = true) /\
  e_removed es1 = match rest with [] => e_removed es | _ => aset n rest (e_removed es) end.
Proof.
  intros J Hb HnG. cbv zeta.
  assert (Ebn : bkE es n = i :: rest) by (unfold bkE, alist_get; rewrite Hb; reflexivity).
  assert (C : e_completed es = true).
  { destruct (e_completed es) eqn:C; [reflexivity|]. destruct (ex_pre _ _ J C) as (_ & _ & B). rewrite B in Ebn. discriminate. }
  assert (BK : forall m, alist_get [] m (adel n (e_n2p es)) = if Nat.eqb m n then [] else bkE es m).
  { intros m. unfold bkE. destruct (Nat.eqb m n) eqn:E.
    - apply Nat.eqb_eq in E. subst m. apply ea_alist_get_none. apply ea_get_del_eq. apply J.
    - apply Nat.eqb_neq in E. unfold alist_get. rewrite ea_get_del_neq by exact E. reflexivity. }
  assert (ND : forall m, In m (akeys (adel n (e_n2p es))) <-> In m (e_nodes es) /\ m <> n).
  { intros m. split.
    - intros Hm. split; [eapply ea_keys_del; eauto|]. intros ->. exact (ea_keys_del_not _ _ (ex_wf _ _ J) Hm).
    - intros (Hm & Hne). apply ea_keys_get. rewrite ea_get_del_neq by exact Hne. apply ea_keys_get. exact Hm. }
  assert (Erm : e_removed (es_remove_busy n rest es) = match rest with [] => e_removed es | _ => aset n rest (e_removed es) end).
  { unfold es_remove_busy. destruct rest; reflexivity. }
  assert (F1 : e_nt (es_remove_busy n rest es) = e_nt es) by (unfold es_remove_busy; destruct rest; reflexivity).
  assert (F2 : e_started (es_remove_busy n rest es) = e_started es) by (unfold es_remove_busy; destruct rest; reflexivity).
  assert (F3 : e_completed (es_remove_busy n rest es) = e_completed es) by (unfold es_remove_busy; destruct rest; reflexivity).
  assert (F4 : e_n2c (es_remove_busy n rest es) = e_n2c es) by (unfold es_remove_busy; destruct rest; reflexivity).
  assert (F5 : e_n2p (es_remove_busy n rest es) = adel n (e_n2p es)) by (unfold es_remove_busy; destruct rest; reflexivity).
  assert (F6 : e_numnodes (es_remove_busy n rest es) = e_numnodes es) by (unfold es_remove_busy; destruct rest; reflexivity).
  assert (Ebk : forall m, bkE (es_remove_busy n rest es) m = if Nat.eqb m n then [] else bkE es m).
  { intros m. unfold bkE at 1. rewrite F5. apply BK. }
  destruct (ex_bk _ _ J n) as (b & Eb). rewrite Ebn in Eb. symmetry in Eb. destruct (seq_cons_inv _ _ _ _ Eb) as (_ & Erest).
  split.
  { constructor; unfold e_nodes; rewrite ?F1, ?F2, ?F3, ?F4, ?F5, ?F6; try exact (ex_num _ _ J); try exact (ex_ntk _ _ J);
      try exact (ex_n2c _ _ J); try exact (ex_n2cnd _ _ J); try exact (ex_ids _ _ J); try exact (ex_stk _ _ J).
    - intros m Hm. apply (ex_nodes _ _ J). apply ND. exact Hm.
    - apply ea_keys_del_nodup. apply J.
    - congruence.
    - congruence.
    - rewrite Erm. destruct rest; [apply J|]. apply ea_keys_set_nodup. apply J.
    - rewrite Erm. intros d0 r0 E0.
      assert (X : (d0 = n /\ r0 = rest /\ rest <> []) \/ aget d0 (e_removed es) = Some r0).
      { destruct rest as [|x rest']; [right; exact E0|]. rewrite ea_get_set in E0. destruct (Nat.eqb d0 n) eqn:E.
        - apply Nat.eqb_eq in E. injection E0 as E0. left. split; [exact E|]. split; [symmetry; exact E0|discriminate].
        - right. exact E0. }
      destruct X as [(-> & -> & Hne)|X]; [|apply (ex_rm _ _ J d0 r0 X)].
      split; [exact Hne|]. split; [exact HnG|]. split; [apply (ex_bkc _ _ J); rewrite Ebn; discriminate|].
      exists (S b). exact Erest.
    - intros _ m Hm Hms. fold (bkE (es_remove_busy n rest es) m). rewrite Ebk. apply ND in Hm. destruct Hm as (Hm & Hmn).
      apply Nat.eqb_neq in Hmn. rewrite Hmn. apply (ex_ns _ _ J C m Hm Hms).
    - intros m. fold (bkE (es_remove_busy n rest es) m). rewrite Ebk. destruct (Nat.eqb m n); [apply nil_interval|apply (ex_bk _ _ J)].
    - intros m. fold (bkE (es_remove_busy n rest es) m). rewrite Ebk. destruct (Nat.eqb m n); [intros F; contradiction|apply (ex_bkc _ _ J)]. }
  split; [exact F1|]. split; [exact F2|]. split; [exact F3|]. split; [exact F4|]. split; [exact Ebk|].
  split; [unfold e_nodes; rewrite F5; exact ND|]. split; [|exact Erm].
  intros T. destruct (tf_inv _ T) as (T1 & T2 & T3). pose proof (forallb_aget _ _ _ T3 Hb) as L.
  assert (Hr : rest = []) by (destruct rest; [reflexivity|cbn in L; lia]).
  apply tf_intro; [rewrite F3; exact T1|rewrite Erm, Hr; exact T2|rewrite F5; apply forallb_adel; exact T3].
Qed.

Lemma e_remove_unknown n es : aget n (e_n2p es) = None -> e_remove_node n es = (es, [], Err EKey).
Proof. intros H. unfold e_remove_node, mbind, get, of_opt, raise. rewrite H. reflexivity. Qed.

(* try: crashitem = sched.remove_node(node) / except KeyError / else: handle_crashitem *)
Lemma try_block_effX n d es d1 o1 r :
  DX0 d es -> n < d_next_gw d -> try_block n d = (d1, o1, r) ->
  r = Ok tt /\ exists es1, d1 = d_set_sched d (StE es1) /\
    (forall m, cmds_to m o1 = []) /\ (forall id sp, ~ In (OHook (HSpawn id sp)) o1) /\
    (forall nt, vfilter nt o1 = o1) /\
    EX (d_next_gw d) es1 /\ e_nt es1 = e_nt es /\ e_started es1 = e_started es /\
    (e_completed es = true -> e_completed es1 = true) /\
    (forall m, bkE es1 m = if Nat.eqb m n then [] else bkE es m) /\
    (forall m, In m (e_nodes es1) -> In m (e_nodes es) /\ m <> n) /\
    (forall m, In m (akeys (e_n2c es1)) -> In m (akeys (e_n2c es))) /\
    (e_tests_finished es = true -> e_tests_finished es1 = true) /\
    e_removed es1 = match tl (bkE es n) with [] => e_removed es | rest => aset n rest (e_removed es) end /\
    (forall t k, In (OHook (HCrashReport t k)) o1 ->
       k = n /\ exists i rest, bkE es n = i :: rest /\ nth_error (collf n) i = Some t) /\
    (e_completed es = true -> e_n2c es1 = e_n2c es).
Proof.
  intros [Els J Rq Act Fn K1 H1 H2 Jbb] HnG H. unfold try_block in H.
  rewrite (sched_op_runE _ d es Els) in H. cbn [s_step] in H.
  destruct (aget n (e_n2p es)) as [[|i rest]|] eqn:Eb.
  - (* empty book *)
    rewrite (e_remove_idle_run n es Eb) in H. cbn [lift] in H. injection H as <- <- <-.
    destruct (es_remove_facts _ n es J Eb) as (A1 & A2 & A3 & A4 & A5 & A6 & A7 & A8).
    assert (Ebn : bkE es n = []) by (unfold bkE, alist_get; rewrite Eb; reflexivity).
    split; [reflexivity|]. exists (es_remove n es). split; [reflexivity|]. split; [reflexivity|].
    split; [intros id sp []|]. split; [reflexivity|]. split; [exact A1|]. split; [exact A2|]. split; [exact A3|].
    split; [rewrite A4; auto|]. split.
    { intros m. rewrite A5. destruct (Nat.eqb m n) eqn:E; [|reflexivity]. apply Nat.eqb_eq in E. subst m. exact Ebn. }
    split; [intros m Hm; apply A6; exact Hm|]. split; [exact A7|]. split; [exact A8|]. split; [|split; [intros t k []|]].
    + rewrite Ebn. cbn. unfold es_remove. destruct (e_completed es); reflexivity.
    + intros C0. unfold es_remove. rewrite C0. reflexivity.
  - (* the head of the book is the crash item *)
    assert (Ebn : bkE es n = i :: rest) by (unfold bkE, alist_get; rewrite Eb; reflexivity).
    assert (C : e_completed es = true).
    { destruct (e_completed es) eqn:C; [reflexivity|]. destruct (ex_pre _ _ J C) as (_ & _ & B). rewrite B in Ebn. discriminate. }
    assert (Hc : aget n (e_n2c es) <> None) by (apply (ex_bkc _ _ J); rewrite Ebn; discriminate).
    destruct (aget n (e_n2c es)) as [coll|] eqn:Ec; [|congruence]. clear Hc.
    assert (coll = collf n) by (eapply ex_n2c_coll; eauto). subst coll.
    assert (Hi : i < (Kf n)) by (apply (ex_bk_lt _ _ n i J); rewrite Ebn; left; reflexivity).
    destruct (nth_error (collf n) i) as [crash|] eqn:Enth; [|apply nth_error_None in Enth; lia].
    rewrite (e_remove_busy_run n i rest (collf n) crash es Eb C Ec Enth) in H. cbn [lift] in H.
    unfold d_handle_crashitem, hook in H. rewrite mbind_emit, mbind_get in H. cbn [d_requeue d_set_sched] in H.
    rewrite Rq in H. rewrite mbind_ret in H. unfold emit in H. injection H as <- <- <-.
    destruct (es_remove_busy_facts _ n i rest es J Eb HnG) as (A1 & A2 & A3 & A4 & A5 & A6 & A7 & A8 & A9).
    split; [reflexivity|]. exists (es_remove_busy n rest es). split; [reflexivity|]. split; [reflexivity|].
    split; [intros id sp [F|[F|[]]]; discriminate|]. split; [reflexivity|]. split; [exact A1|]. split; [exact A2|]. split; [exact A3|].
    split; [rewrite A4; auto|]. split; [exact A6|]. split; [intros m Hm; apply A7; exact Hm|].
    split; [rewrite A5; auto|]. split; [exact A8|]. split; [rewrite Ebn, A9; cbn [tl]; destruct rest; reflexivity|].
    split; [|intros _; exact A5].
    intros t k [F|[F|[]]]; [discriminate|]. inv F. split; [reflexivity|]. exists i, rest. auto.
  - (* not scheduled (never became ready): KeyError, swallowed *)
    rewrite (e_remove_unknown n es Eb) in H. cbn [lift] in H. injection H as <- <- <-.
    assert (Ebn : bkE es n = []) by (apply ea_alist_get_none; exact Eb).
    split; [reflexivity|]. exists es. split; [reflexivity|]. split; [reflexivity|].
    split; [intros id sp []|]. split; [reflexivity|]. split; [exact J|]. split; [reflexivity|]. split; [reflexivity|].
    split; [auto|]. split.
    { intros m. destruct (Nat.eqb m n) eqn:E; [|reflexivity]. apply Nat.eqb_eq in E. subst m. exact Ebn. }
    split. { intros m Hm. split; [exact Hm|]. intros ->. apply ea_get_none in Eb. contradiction. }
    split; [auto|]. split; [auto|]. split; [rewrite Ebn; reflexivity|]. split; [intros t k []|auto].
Qed.

Lemma clone_runE n d es f :
  d_sched d = StE es -> aget n (e_nt es) = Some f ->
  d_clone_node n d =
  (d_set_active (d_set_next_gw (d_set_sched d (StE (e_set_nt es (aset (d_next_gw d) (mkfresh (n_spec f)) (e_nt es)))))
                               (S (d_next_gw d)))
                (d_active d ++ [d_next_gw d]),
   [OHook (HSpawn (d_next_gw d) (n_spec f))], Ok tt).
Proof.
  intros Els Ef. unfold d_clone_node. rewrite mbind_get. unfold d_nt. rewrite Els. cbn [s_nt]. rewrite Ef.
  cbn [of_opt]. rewrite mbind_ret. cbv zeta. unfold mbind at 1. rewrite (sched_op_runE _ d es Els).
  cbn [s_step s_set_nt s_nt]. rewrite mbind_get, mbind_put. reflexivity.
Qed.

Lemma EX_spawn G es spec :
  EX G es -> EX (S G) (e_set_nt es (aset G (mkfresh spec) (e_nt es))).
Proof.
  intros J. constructor; cbn [e_set_nt e_numnodes e_nt e_nodes e_n2p e_n2c e_started e_removed e_completed];
    try exact (ex_num _ _ J); try exact (ex_wf _ _ J); try exact (ex_n2cnd _ _ J); try exact (ex_ids _ _ J);
    try exact (ex_cc _ _ J); try exact (ex_pre _ _ J); try exact (ex_rmnd _ _ J); try exact (ex_ns _ _ J);
    try exact (ex_bk _ _ J); try exact (ex_bkc _ _ J).
  - intros m. rewrite ea_get_set. destruct (Nat.eqb m G) eqn:E.
    + apply Nat.eqb_eq in E. subst m. split; [intros _; lia|discriminate].
    + apply Nat.eqb_neq in E. rewrite (ex_ntk _ _ J m). lia.
  - intros m Hm. pose proof (ex_nodes _ _ J m Hm). lia.
  - intros m Hm. pose proof (ex_n2c _ _ J m Hm). lia.
  - intros d0 r0 E0. destruct (ex_rm _ _ J d0 r0 E0) as (X1 & X2 & X3 & X4). split; [exact X1|]. split; [lia|]. auto.
  - intros m Hm. pose proof (ex_stk _ _ J m Hm). lia.
Qed.

(* ---- errordown: a worker died ---- *)
Lemma handle_errordownX n d es d1 o1 r :
  DXb d es -> PREx (QErrorDown n) d es ->
  d_handle (QErrorDown n) d = (d1, o1, r) ->
  r = Ok tt /\ exists es1 vo, o1 = vfilter (e_nt es) vo /\ HEFFx (QErrorDown n) d es d1 es1 vo /\
  (forall t k, In (OHook (HCrashReport t k)) vo ->
     k = n /\ exists i rest, bkE es n = i :: rest /\ nth_error (collf n) i = Some t) /\
  e_removed es1 = match tl (bkE es n) with [] => e_removed es | rest => aset n rest (e_removed es) end.
Proof.
  intros (J0 & Jb) Hina H. cbn [PREx] in Hina. pose proof J0 as [Els J Rq Act Fn K1 H1 H2 Jbb].
  assert (HnG : n < d_next_gw d) by (apply Act; exact Hina).
  cbn [d_handle] in H. rewrite errordown_unfold in H.
  apply LoadProofs.mbind_inv in H. destruct H as [(e & Hh & _)|(d0 & o0 & [] & oR & Hh & E & ->)]; [rewrite hook_run in Hh; discriminate|].
  rewrite hook_run in Hh. injection Hh as <- <-. cbn [app]. rename d1 into dx.
  apply LoadProofs.mbind_inv in E. destruct E as [(e & Ht & ->)|(da & oa & [] & ob & Ht & E & ->)].
  { destruct (try_block_effX _ _ _ _ _ _ J0 HnG Ht) as (F & _). discriminate. }
  destruct (try_block_effX _ _ _ _ _ _ J0 HnG Ht) as (_ & esa & -> & Tc & Tsp & Tvf & Ja & Tnt & Tst & Tcomp & Tbk & Tnodes & Tn2c & Ttf & Trm & Tcr & Tnck).
  assert (Efn : exists fn, aget n (e_nt esa) = Some fn).
  { destruct (aget n (e_nt esa)) as [fn|] eqn:Ef; [eauto|]. exfalso. apply (proj2 (ex_ntk _ _ Ja n) HnG). exact Ef. }
  destruct Efn as (fn & Efn).
  rewrite mbind_get in E. cbv zeta in E. rewrite mbind_put in E.
  set (da := d_set_sched d (StE esa)) in *.
  set (db := d_set_failed_nodes da (d_failed_nodes da + 1)%Z) in *.
  assert (Eex : exhausted db = match d_max_restart d with Some m => (m <? d_failed_nodes d + 1)%Z | None => false end /\
                (exhausted d = true -> exhausted db = true)).
  { apply (exhausted_succ N HN); [reflexivity|reflexivity|exact Fn]. }
  destruct Eex as (Eex & Emono).
  assert (ACTN : forall m, In m (d_active d) -> m = n \/ In m (filter (fun k => negb (Nat.eqb k n)) (d_active d))).
  { intros m Hm. destruct (Nat.eq_dec m n) as [->|Hne]; [left; reflexivity|right; apply in_filter_neq; auto]. }
  (* the budget decision *)
  assert (DEC :
    (exhausted db = true /\
     exists m0, d_max_restart d = Some m0 /\
     ((hook (HSummary (m0 =? 0)%Z) ;;; d_triggershutdown) ;;; d_active_remove n) db = (dx, ob, r)) \/
    (exhausted db = false /\
     (((d2 <- get ;; put (d_set_shuttingdown d2 false)) ;;; d_clone_node n) ;;; d_active_remove n) db = (dx, ob, r))).
  { pose proof E as E'.
    clear E. change (d_max_restart da) with (d_max_restart d) in E'. change (d_failed_nodes da) with (d_failed_nodes d) in E'.
    destruct (d_max_restart d) as [m0|] eqn:Emr.
    - destruct (m0 <? d_failed_nodes d + 1)%Z eqn:Elt.
      + left. split; [exact Eex|]. exists m0. split; [reflexivity|]. exact E'.
      + right. split; [exact Eex|exact E'].
    - right. split; [exact Eex|exact E']. }
  clear E. destruct DEC as [(Hexh & m0 & Emr & E)|(Hexh & E)].
  - (* the budget is used up: the session shuts down *)
    assert (TRG : forall dc oc rc, (hook (HSummary (m0 =? 0)%Z) ;;; d_triggershutdown) db = (dc, oc, rc) ->
              rc = Ok tt /\ exists es2 vo2, dc = d_withE db true es2 /\ SDx esa es2 vo2 /\
                oc = OHook (HSummary (m0 =? 0)%Z) :: vfilter (e_nt esa) vo2 /\
                (forall m, cmds_to m vo2 <> [] -> In m (e_nodes esa))).
    { intros dc oc rc Hd. apply LoadProofs.mbind_inv in Hd.
      destruct Hd as [(e & Hh & _)|(d0 & o0 & [] & oR & Hh & Hg & ->)]; [rewrite hook_run in Hh; discriminate|].
      rewrite hook_run in Hh. injection Hh as <- <-. cbn [app].
      destruct (trigger_effX _ db esa _ _ _ eq_refl Ja Hg) as (-> & es2 & vo2 & -> & S2 & -> & C2 & _).
      split; [reflexivity|]. exists es2, vo2. auto. }
    apply LoadProofs.mbind_inv in E. destruct E as [(e & Hg & ->)|(dc & oc & [] & od & Hg & E2 & ->)].
    { destruct (TRG _ _ _ Hg) as (F & _). discriminate. }
    destruct (TRG _ _ _ Hg) as (_ & es2 & vo2 & -> & S2 & -> & C2). clear TRG.
    assert (Hin2 : In n (d_active (d_withE db true es2))) by exact Hina.
    rewrite (active_remove_run n _ Hin2) in E2. injection E2 as <- <- <-. rewrite app_nil_r.
    destruct (sdx_keep _ _ _ S2) as (P1 & P2 & P3 & P4 & P5 & P6).
    assert (J2 : EX (d_next_gw d) es2) by (eapply EX_SD; eauto).
    split; [reflexivity|]. exists es2, (OHook (HNodeDown n true) :: oa ++ OHook (HSummary (m0 =? 0)%Z) :: vo2).
    assert (CC : forall m, cmds_to m (OHook (HNodeDown n true) :: oa ++ OHook (HSummary (m0 =? 0)%Z) :: vo2) = cmds_to m vo2).
    { intros m. rewrite cmds_to_hook, cmds_to_app, cmds_to_hook, Tc. reflexivity. }
    split.
    { rewrite vfilter_cons_hook, vfilter_app, vfilter_cons_hook, Tvf, Tnt. reflexivity. }
    split; [|split].
    2:{ intros t k Hin. apply Tcr. destruct Hin as [Hin|Hin]; [discriminate|].
        apply in_app_or in Hin. destruct Hin as [Hin|[Hin|Hin]]; [exact Hin|discriminate|].
        exfalso. pose proof (sdx_outs _ _ _ S2) as F. rewrite Forall_forall in F. exact (F _ Hin). }
    2:{ rewrite P4. exact Trm. }
    assert (RT : reason (d_set_active (d_withE db true es2) (filter (fun m => negb (Nat.eqb m n)) (d_active d))) es2 = true).
    { apply reason_true_intro. right. right. exact Hexh. }
    constructor.
    + constructor; dprojX.
      * reflexivity.
      * exact J2.
      * exact Rq.
      * intros m Hm. apply in_filter_neq in Hm. apply Act. tauto.
      * unfold db, da. dprojX. lia.
      * rewrite RT. discriminate.
      * intros _. exact RT.
      * reflexivity.
      * intros Hs m Hm. unfold e_nodes in Hm. rewrite P1 in Hm. destruct (Tnodes m Hm) as (X1 & X2).
        apply in_filter_neq. split; [apply (Jbb Hs); exact X1|exact X2].
    + intros m Hm. rewrite CC. rewrite <- Tnt. change (cmds_to m vo2) with ([] ++ cmds_to m vo2).
      eapply FXo_then_sd; [apply FXo_same|apply (sdx_nt _ _ _ S2 m)]. apply stb_mono. rewrite P3, Tst. auto.
    + intros m Hm. rewrite CC. destruct (cmds_to m vo2) eqn:E0; [reflexivity|]. exfalso.
      assert (X : In m (e_nodes esa)) by (apply C2; rewrite E0; discriminate).
      destruct (Tnodes m X) as (X1 & _). pose proof (ex_nodes _ _ J m X1). lia.
    + intros m. rewrite CC. rewrite (cinds_sdo m _ _ _ (sdx_nt _ _ _ S2 m)), app_nil_r. cbn [bookmid'].
      unfold bkE at 1. rewrite P1. apply Tbk.
    + intros m Hm. left. unfold e_nodes in Hm. rewrite P1 in Hm. apply Tnodes. exact Hm.
    + rewrite P2, P3, Tst. intros m [X|X]; auto.
    + intros m Hm. dprojX. destruct (ACTN m Hm) as [->|X]; [right; right; reflexivity|left; exact X].
    + dprojX. auto.
    + intros m E0. discriminate.
    + left. reflexivity.
    + intros id sp Hin. exfalso. destruct Hin as [Hin|Hin]; [discriminate|].
      apply in_app_or in Hin. destruct Hin as [Hin|[Hin|Hin]]; [exact (Tsp _ _ Hin)|discriminate|].
      pose proof (sdx_outs _ _ _ S2) as F. rewrite Forall_forall in F. exact (F _ Hin).
    + unfold db, da. dprojX. intros F. lia.
    + intros k E0. injection E0 as <-. dprojX. split.
      * intros Hm. unfold e_nodes in Hm. rewrite P1 in Hm. destruct (Tnodes _ Hm) as (_ & F). congruence.
      * intros Hm. apply in_filter_neq in Hm. destruct Hm as (_ & F). congruence.
    + intros m Hm. left. dprojXi Hm. apply in_filter_neq in Hm. tauto.
    + intros m g g' E1 E2 A B. left. rewrite <- Tnt in E1.
      destruct (SDo_fwd _ _ _ _ (sdx_nt _ _ _ S2 m) E1) as (g2 & E3 & _ & _ & _ & _ & [(X & ->)|(X & _)]).
      * congruence.
      * apply (Tnodes m). apply C2. rewrite X. discriminate.
    + intros T. rewrite (tests_finished_SD _ _ _ S2). apply Ttf. exact T.
    + rewrite P5. exact Tcomp.
    + right. left. exists n. split; [reflexivity|]. apply no_crun_hook. apply no_crun_app; [apply no_crun_nocmd; exact Tc|].
      apply no_crun_hook. apply no_crun_sd. apply (sdx_outs _ _ _ S2).
    + intros x (X1 & X2). left. rewrite P3, Tst in X1. rewrite P2 in X2. split; [exact X1|].
      apply ea_keys_get. apply Tn2c. apply ea_keys_get. exact X2.
    + intros C0 x. rewrite P2, (Tnck C0). auto.
    + intros m b0 E0. discriminate.
  - (* within the budget: a replacement worker is started *)
    assert (CL : ((d2 <- get ;; put (d_set_shuttingdown d2 false)) ;;; d_clone_node n) db =
                 (d_set_active (d_set_next_gw (d_set_sched (d_set_shuttingdown db false)
                     (StE (e_set_nt esa (aset (d_next_gw d) (mkfresh (n_spec fn)) (e_nt esa))))) (S (d_next_gw d)))
                    (d_active d ++ [d_next_gw d]),
                  [OHook (HSpawn (d_next_gw d) (n_spec fn))], Ok tt)).
    { unfold mbind at 1. rewrite mbind_get. unfold put.
      rewrite (clone_runE n (d_set_shuttingdown db false) esa fn eq_refl Efn). reflexivity. }
    apply LoadProofs.mbind_inv in E. destruct E as [(e & Hg & ->)|(dc & oc & [] & od & Hg & E2 & ->)].
    { rewrite CL in Hg. discriminate. }
    rewrite CL in Hg. injection Hg as <- <-. clear CL.
    set (G := d_next_gw d) in *.
    set (esn := e_set_nt esa (aset G (mkfresh (n_spec fn)) (e_nt esa))) in *.
    match type of E2 with d_active_remove n ?D = _ => set (dc := D) in * end.
    assert (Hin2 : In n (d_active dc)) by (unfold dc; dprojX; apply in_or_app; left; exact Hina).
    rewrite (active_remove_run n _ Hin2) in E2. injection E2 as <- <- <-. rewrite app_nil_r.
    split; [reflexivity|]. exists esn, (OHook (HNodeDown n true) :: oa ++ [OHook (HSpawn G (n_spec fn))]).
    assert (CC : forall m, cmds_to m (OHook (HNodeDown n true) :: oa ++ [OHook (HSpawn G (n_spec fn))]) = []).
    { intros m. rewrite cmds_to_hook, cmds_to_app, Tc. reflexivity. }
    assert (GNn : G <> n) by (unfold G; lia).
    assert (AGN : forall m, m <> G -> aget m (e_nt esn) = aget m (e_nt es)).
    { intros m Hm. unfold esn. cbn [e_nt e_set_nt]. rewrite ea_get_set_neq by exact Hm. rewrite Tnt. reflexivity. }
    assert (AGG : aget G (e_nt esn) = Some (mkfresh (n_spec fn))) by (unfold esn; cbn [e_nt e_set_nt]; apply ea_get_set_eq).
    assert (GIN : In G (filter (fun k => negb (Nat.eqb k n)) (d_active d ++ [G]))).
    { apply in_filter_neq. split; [apply in_or_app; right; left; reflexivity|exact GNn]. }
    assert (GNN : ~ In G (e_nodes esa)).
    { intros Hm. destruct (Tnodes _ Hm) as (X & _). pose proof (ex_nodes _ _ J _ X). unfold G in *. lia. }
    split.
    { rewrite vfilter_cons_hook, vfilter_app, Tvf. reflexivity. }
    split; [|split].
    2:{ intros t k Hin. apply Tcr. destruct Hin as [Hin|Hin]; [discriminate|].
        apply in_app_or in Hin. destruct Hin as [Hin|[Hin|[]]]; [exact Hin|discriminate]. }
    2:{ exact Trm. }
    assert (RS : reason (d_set_active dc (filter (fun m => negb (Nat.eqb m n)) (d_active dc))) esn = false -> reason d es = false).
    { apply reason_stable; [exact Ttf|auto|]. intros X. unfold dc. unfold exhausted. dprojX.
      change (exhausted db = true). apply Emono. exact X. }
    constructor.
    + constructor; unfold dc; dprojX.
      * reflexivity.
      * apply EX_spawn. exact Ja.
      * exact Rq.
      * intros m Hm. apply in_filter_neq in Hm. destruct Hm as (Hm & _). apply in_app_or in Hm.
        destruct Hm as [Hm|[<-|[]]]; [specialize (Act m Hm); unfold G; lia|unfold G; lia].
      * unfold db, da. dprojX. lia.
      * intros Hr m g Hm Eg Hs. change (e_nodes esn) with (e_nodes esa) in Hm. change (e_started esn) with (e_started esa).
        rewrite Tst. assert (Hmg : m <> G) by (intros ->; contradiction).
        rewrite (AGN m Hmg) in Eg. destruct (Tnodes m Hm) as (X & _). apply (K1 (RS Hr) m g X Eg Hs).
      * discriminate.
      * intros F. change (exhausted db = true) in F. congruence.
      * intros Hs m Hm. change (e_nodes esn) with (e_nodes esa) in Hm. destruct (Tnodes m Hm) as (X1 & X2).
        apply in_filter_neq. split; [apply in_or_app; left; apply (Jbb Hs); exact X1|exact X2].
    + intros m Hm. rewrite CC. rewrite AGN by (unfold G; lia). apply FXo_same. apply stb_mono.
      change (e_started esn) with (e_started esa). rewrite Tst. auto.
    + intros m Hm. apply CC.
    + intros m. rewrite CC, app_nil_r. change (bkE esn m) with (bkE esa m). cbn [bookmid']. apply Tbk.
    + intros m Hm. left. apply Tnodes. exact Hm.
    + change (e_n2c esn) with (e_n2c esa). change (e_started esn) with (e_started esa). rewrite Tst.
      intros m [X|X]; auto.
    + intros m Hm. unfold dc. dprojX. destruct (ACTN m Hm) as [->|X]; [right; right; reflexivity|left].
      apply in_filter_neq in X. apply in_filter_neq. split; [apply in_or_app; left; tauto|tauto].
    + unfold dc. dprojX. auto.
    + intros m E0. discriminate.
    + right. unfold dc. dprojX. split; [reflexivity|]. split; [exists (mkfresh (n_spec fn)); split; [exact AGG|repeat split]|].
      split; [exact GIN|]. split; [exact GNN|]. split.
      * intros Hm. change (e_n2c esn) with (e_n2c esa) in Hm. pose proof (ex_n2c _ _ Ja _ Hm). unfold G in *. lia.
      * intros Hm. change (e_started esn) with (e_started esa) in Hm. pose proof (ex_stk _ _ Ja _ Hm). unfold G in *. lia.
    + intros id sp Hin. destruct Hin as [Hin|Hin]; [discriminate|].
      apply in_app_or in Hin. destruct Hin as [Hin|[Hin|[]]]; [exfalso; exact (Tsp _ _ Hin)|].
      injection Hin as <- _. split; reflexivity.
    + intros _. exists (n_spec fn). right. apply in_or_app. right. left. reflexivity.
    + intros k E0. injection E0 as <-. unfold dc. dprojX. split.
      * intros Hm. destruct (Tnodes _ Hm) as (_ & F). congruence.
      * intros Hm. apply in_filter_neq in Hm. destruct Hm as (_ & F). congruence.
    + intros m Hm. unfold dc in Hm. dprojXi Hm. apply in_filter_neq in Hm. destruct Hm as (Hm & _).
      apply in_app_or in Hm. destruct Hm as [Hm|[<-|[]]]; [left; exact Hm|right]. split; reflexivity.
    + intros m g g' E1 E2 A B. exfalso. destruct (Nat.eq_dec m G) as [->|Hm].
      * rewrite AGG in E2. injection E2 as <-. discriminate.
      * rewrite (AGN m Hm) in E2. congruence.
    + exact Ttf.
    + exact Tcomp.
    + right. left. exists n. split; [reflexivity|]. apply no_crun_hook. apply no_crun_app; [apply no_crun_nocmd; exact Tc|].
      apply no_crun_hook. apply no_crun_nil.
    + intros x (X1 & X2). left. change (e_started esn) with (e_started esa) in X1. rewrite Tst in X1.
      change (e_n2c esn) with (e_n2c esa) in X2. split; [exact X1|].
      apply ea_keys_get. apply Tn2c. apply ea_keys_get. exact X2.
    + intros C0 x. change (e_n2c esn) with (e_n2c esa). rewrite (Tnck C0). auto.
    + intros m b0 E0. discriminate.
Qed.

(* what an errordown tells about the crash report and the remainder that is kept *)
Definition crash_facts (ev : cevent) (es es1 : estate) (vo : list out) : Prop :=
  (forall t k, In (OHook (HCrashReport t k)) vo ->
     ev = QErrorDown k /\ exists i rest, bkE es k = i :: rest /\ nth_error (collf k) i = Some t) /\
  (forall n, ev = QErrorDown n ->
     e_removed es1 = match tl (bkE es n) with [] => e_removed es | rest => aset n rest (e_removed es) end).

Theorem handle_effX ev d es d1 o1 r :
  DXb d es -> PREx ev d es ->
  d_handle ev d = (d1, o1, r) ->
  r = Ok tt /\ exists es1 vo, o1 = vfilter (e_nt es) vo /\ HEFFx ev d es d1 es1 vo /\ crash_facts ev es es1 vo.
Proof.
  intros DJd Hpre H.
  assert (NOCR : forall es1 vo, (forall t k, ~ In (OHook (HCrashReport t k)) vo) -> (forall n, ev <> QErrorDown n) ->
                 crash_facts ev es es1 vo).
  { intros es1 vo A B. split; [intros t k Hin; exfalso; exact (A _ _ Hin)|intros n E; exfalso; exact (B n E)]. }
  assert (QUIET : match ev with
                  | QLogStart _ _ | QLogFinish _ _ | QWarning | QReport _ _ _ _ | QCollectReport _ _ _ => True
                  | _ => False end ->
                  r = Ok tt /\ exists es1 vo, o1 = vfilter (e_nt es) vo /\ HEFFx ev d es d1 es1 vo /\ crash_facts ev es es1 vo).
  { intros Hq. destruct (handle_quiet' ev d d1 o1 r Hq H) as (-> & S & C). split; [reflexivity|]. exists es, o1.
    assert (Hd : death_event ev = false) by (destruct ev; try contradiction; reflexivity).
    destruct (quiet_handle ev Hd d d1 o1 (Ok tt) H) as (_ & Q).
    assert (NSP : forall id sp, ~ In (OHook (HSpawn id sp)) o1).
    { intros id sp Hin. rewrite Forall_forall in Q. destruct (Q _ Hin) as (F & _). discriminate. }
    split.
    { symmetry. apply vfilter_nosend. intros n c Hin.
      assert (X : cmds_to n o1 <> []).
      { clear -Hin. induction o1 as [|x o IH]; [destruct Hin|]. destruct Hin as [->|Hin].
        - unfold cmds_to. cbn. rewrite Nat.eqb_refl. discriminate.
        - unfold cmds_to in *. cbn [flat_map]. intros F. apply app_eq_nil in F. apply IH; tauto. }
      apply X. apply C. }
    split.
    { apply heff_sameX; auto; try apply DJd; destruct ev; try contradiction; try reflexivity; intros; discriminate. }
    apply NOCR.
    - intros t k Hin. rewrite Forall_forall in Q. destruct (Q _ Hin) as (_ & F). discriminate.
    - intros n E. subst ev. contradiction. }
  destruct ev; try (apply QUIET; exact Logic.I); try (cbn in Hpre; contradiction).
  - destruct (handle_readyX _ _ _ _ _ _ DJd Hpre H) as (A & es1 & vo & B & C). split; [exact A|]. exists es1, vo.
    split; [exact B|]. split; [exact C|]. apply NOCR; [|intros k E; discriminate].
    intros t k Hin. assert (Hin' : In (OHook (HCrashReport t k)) o1) by (rewrite B; apply (proj2 (In_vfilter_hook N collf _ _ _)); exact Hin).
    assert (Hd : death_event (QReady n) = false) by reflexivity.
    destruct (quiet_handle _ Hd d d1 o1 r H) as (_ & Q). rewrite Forall_forall in Q. destruct (Q _ Hin') as (_ & F). discriminate.
  - destruct (handle_collfinishX _ _ _ _ _ _ _ DJd Hpre H) as (A & es1 & vo & B & C). split; [exact A|]. exists es1, vo.
    split; [exact B|]. split; [exact C|]. apply NOCR; [|intros k E; discriminate].
    intros t k Hin. assert (Hin' : In (OHook (HCrashReport t k)) o1) by (rewrite B; apply (proj2 (In_vfilter_hook N collf _ _ _)); exact Hin).
    assert (Hd : death_event (QCollFinish n ids) = false) by reflexivity.
    destruct (quiet_handle _ Hd d d1 o1 r H) as (_ & Q). rewrite Forall_forall in Q. destruct (Q _ Hin') as (_ & F). discriminate.
  - destruct (handle_completeX _ _ _ _ _ _ _ _ DJd Hpre H) as (A & es1 & vo & B & C). split; [exact A|]. exists es1, vo.
    split; [exact B|]. split; [exact C|]. apply NOCR; [|intros k E; discriminate].
    intros t k Hin. assert (Hin' : In (OHook (HCrashReport t k)) o1) by (rewrite B; apply (proj2 (In_vfilter_hook N collf _ _ _)); exact Hin).
    assert (Hd : death_event (QComplete n i ms) = false) by reflexivity.
    destruct (quiet_handle _ Hd d d1 o1 r H) as (_ & Q). rewrite Forall_forall in Q. destruct (Q _ Hin') as (_ & F). discriminate.
  - destruct (handle_finishedX _ _ _ _ _ _ _ DJd Hpre H) as (A & es1 & vo & B & C). split; [exact A|]. exists es1, vo.
    split; [exact B|]. split; [exact C|]. apply NOCR; [|intros k E; discriminate].
    intros t k Hin. assert (Hin' : In (OHook (HCrashReport t k)) o1) by (rewrite B; apply (proj2 (In_vfilter_hook N collf _ _ _)); exact Hin).
    assert (Hd : death_event (QFinished n sk) = false) by (destruct sk; try reflexivity; cbn in Hpre; contradiction).
    destruct (quiet_handle _ Hd d d1 o1 r H) as (_ & Q). rewrite Forall_forall in Q. destruct (Q _ Hin') as (_ & F). discriminate.
  - destruct (handle_errordownX _ _ _ _ _ _ DJd Hpre H) as (A & es1 & vo & B & C & D1 & D2). split; [exact A|]. exists es1, vo.
    split; [exact B|]. split; [exact C|]. split.
    + intros t k Hin. destruct (D1 t k Hin) as (-> & X). split; [reflexivity|exact X].
    + intros k E. injection E as <-. exact D2.
Qed.

(* one iteration of the controller loop never raises (no plugin re-queues crash items), and its effect *)
Theorem loop_once_okX ev d es d' o r :
  DXb d es -> PREx ev d es ->
  d_loop_once ev d = (d', o, r) ->
  r = Ok tt /\ exists es' vo, o = vfilter (e_nt es) vo /\ HEFFx ev d es d' es' vo /\ DXb d' es' /\
    (forall t k, In (OHook (HCrashReport t k)) vo ->
       ev = QErrorDown k /\ exists i rest, bkE es k = i :: rest /\ nth_error (collf k) i = Some t) /\
    (forall n, ev = QErrorDown n ->
       e_removed es' = match tl (bkE es n) with [] => e_removed es | rest => aset n rest (e_removed es) end).
Proof.
  intros DJd Hpre H. rewrite loop_once_unfold in H.
  apply LoadProofs.mbind_inv in H. destruct H as [(e & H1 & ->)|(d1 & o1 & a & o2 & H1 & H2 & ->)].
  { destruct (handle_effX _ _ _ _ _ _ DJd Hpre H1) as (F & _). discriminate. }
  destruct (handle_effX _ _ _ _ _ _ DJd Hpre H1) as (_ & es1 & vo1 & -> & E1 & CF1 & CF2).
  pose proof (hx_dj _ _ _ _ _ _ E1) as J1. pose proof J1 as [Els1 Js1 Rq1 Act1 Fn1 K11 H11 H21 Jbb1].
  destruct (loop_rest_effX _ _ _ _ _ _ Els1 Js1 H2) as (-> & es2 & vo2 & -> & S & -> & C2 & Same).
  split; [reflexivity|]. exists es2, (vo1 ++ vo2).
  destruct (sdx_keep _ _ _ S) as (P1 & P2 & P3 & P4 & P5 & P6).
  pose proof (tests_finished_SD _ _ _ S) as TF2.
  assert (CLA : forall m, closedb (e_nt es1) m = closedb (e_nt es) m).
  { intros m. destruct (Nat.lt_ge_cases m (d_next_gw d)) as [Hm|Hm].
    - eapply FXo_closed. apply (hx_fx _ _ _ _ _ _ E1 m Hm).
    - unfold closedb. destruct (aget m (e_nt es)) as [g|] eqn:Eg.
      + exfalso. destruct DJd as ([_ J _ _ _ _ _ _ _] & _). assert (X : m < d_next_gw d) by (apply (ex_ntk _ _ J); congruence). lia.
      + destruct (aget m (e_nt es1)) as [g1|] eqn:Eg1; [|reflexivity].
        destruct (hx_gw _ _ _ _ _ _ E1) as [Y|(Y & (g2 & Eg2 & (_ & _ & Hc)) & _)].
        * exfalso. assert (X : m < d_next_gw d1) by (apply (ex_ntk _ _ Js1); congruence). lia.
        * assert (X : m < d_next_gw d1) by (apply (ex_ntk _ _ Js1); congruence).
          assert (m = d_next_gw d) by lia. subst m. rewrite Eg2 in Eg1. injection Eg1 as <-. exact Hc. }
  split. { rewrite vfilter_app. f_equal. apply vfilter_ext. exact CLA. }
  set (sd' := d_shuttingdown d1 || e_tests_finished es1 || d_shouldstop d1).
  assert (RE : reason (d_withE d1 sd' es2) es2 = reason d1 es1).
  { unfold reason. rewrite TF2. reflexivity. }
  assert (NOSD : sd' = false -> es2 = es1 /\ vo2 = []).
  { intros E. apply Same. exact E. }
  assert (GNN : forall m, In m (e_nodes es1) -> m < d_next_gw d).
  { intros m Hm. destruct (hx_nodes _ _ _ _ _ _ E1 m Hm) as [X|X].
    - destruct DJd as ([_ J _ _ _ _ _ _ _] & _). apply (ex_nodes _ _ J). exact X.
    - destruct ev; cbn in X; try discriminate; injection X as <-; try (cbn in Hpre; tauto). }
  split; [|split; [|split]].
  - constructor.
    + (* DX0 *)
      constructor.
      * reflexivity.
      * dprojX. eapply EX_SD; eauto.
      * exact Rq1.
      * exact Act1.
      * exact Fn1.
      * rewrite RE. intros Hr. destruct (reason_false _ _ Hr) as (R1 & R2 & R3).
        assert (Hsd1 : d_shuttingdown d1 = false).
        { destruct (d_shuttingdown d1) eqn:X; [|reflexivity]. rewrite (H11 eq_refl) in Hr. discriminate. }
        assert (E0 : sd' = false) by (unfold sd'; rewrite Hsd1, R1, R2; reflexivity).
        destruct (NOSD E0) as (-> & _). apply K11. exact Hr.
      * dprojX. rewrite RE. intros Hs. unfold sd' in Hs.
        destruct (d_shuttingdown d1) eqn:X; [apply H11; reflexivity|]. cbn [orb] in Hs.
        apply reason_true_intro. apply orb_true_iff in Hs. tauto.
      * dprojX. intros X. change (exhausted d1 = true) in X. unfold sd'. rewrite (H21 X). reflexivity.
      * dprojX. unfold e_nodes. rewrite P1. exact Jbb1.
    + intros m Hm. rewrite cmds_to_app.
      assert (Est : stb es2 m = stb es1 m) by (unfold stb; rewrite P3; reflexivity). rewrite Est.
      eapply FXo_then_sd; [apply (hx_fx _ _ _ _ _ _ E1 m Hm)|]. apply (sdx_nt _ _ _ S m).
    + intros m Hm. rewrite cmds_to_app, (hx_out _ _ _ _ _ _ E1 m Hm). cbn [app].
      destruct (cmds_to m vo2) eqn:E0; [reflexivity|]. exfalso.
      assert (X : In m (e_nodes es1)) by (apply C2; rewrite E0; discriminate). specialize (GNN m X). lia.
    + intros m. rewrite cmds_to_app, flat_map_app, (cinds_sdo m _ _ _ (sdx_nt _ _ _ S m)), app_nil_r.
      unfold bkE at 1. rewrite P1. apply (hx_bk _ _ _ _ _ _ E1 m).
    + intros m Hm. apply (hx_nodes _ _ _ _ _ _ E1). unfold e_nodes in *. rewrite P1 in Hm. exact Hm.
    + rewrite P2, P3. apply (hx_cf _ _ _ _ _ _ E1).
    + dprojX. apply (hx_act _ _ _ _ _ _ E1).
    + dprojX. apply (hx_ss _ _ _ _ _ _ E1).
    + dprojX. apply (hx_stop _ _ _ _ _ _ E1).
    + dprojX. destruct (hx_gw _ _ _ _ _ _ E1) as [Y|(Y & (g & Eg & Hg) & Y2 & Y3 & Y4 & Y5)]; [left; exact Y|right].
      split; [exact Y|]. split.
      * exists g. split; [|exact Hg].
        destruct (SDo_fwd _ _ _ _ (sdx_nt _ _ _ S (d_next_gw d)) Eg) as (g2 & E3 & _ & _ & _ & _ & [(X & ->)|(X & _)]); [exact E3|].
        exfalso. apply Y3. apply C2. rewrite X. discriminate.
      * split; [exact Y2|]. unfold e_nodes. rewrite P1, P2, P3. auto.
    + intros id sp Hin. apply in_app_or in Hin. destruct Hin as [Hin|Hin]; [apply (hx_sp _ _ _ _ _ _ E1 _ _ Hin)|].
      exfalso. pose proof (sdx_outs _ _ _ S) as F. rewrite Forall_forall in F. exact (F _ Hin).
    + dprojX. intros Y. destruct (hx_spx _ _ _ _ _ _ E1 Y) as (sp & Hin). exists sp. apply in_or_app. left. exact Hin.
    + intros k E0. dprojX. unfold e_nodes. rewrite P1. apply (hx_err _ _ _ _ _ _ E1 k E0).
    + dprojX. apply (hx_actb _ _ _ _ _ _ E1).
    + intros m g g' Eg Eg' A B.
      destruct (aget m (e_nt es1)) as [g1|] eqn:Eg1.
      * destruct (n_sdsent g1) eqn:Es1; [exact (hx_sdn _ _ _ _ _ _ E1 m g g1 Eg Eg1 A Es1)|].
        destruct (SDo_fwd _ _ _ _ (sdx_nt _ _ _ S m) Eg1) as (g2 & E3 & _ & _ & _ & _ & [(X & ->)|(X & _)]).
        -- congruence.
        -- apply (hx_nodes _ _ _ _ _ _ E1). apply C2. rewrite X. discriminate.
      * exfalso. pose proof (sdx_nt _ _ _ S m) as X. rewrite Eg1, Eg' in X. exact X.
    + rewrite TF2. apply (hx_tf _ _ _ _ _ _ E1).
    + rewrite P5. apply (hx_comp _ _ _ _ _ _ E1).
    + assert (NC2 : no_crun vo2) by (apply no_crun_sd; apply (sdx_outs _ _ _ S)).
      rewrite P4. destruct (hx_rmv _ _ _ _ _ _ E1) as [(R1 & R2 & R3)|[(k & R1 & R2)|(k & d0 & pend & R1 & R2 & R3 & R4 & R5 & R6 & R7 & R8 & R9 & R10 & R11 & R12)]].
      * left. split; [exact R1|]. split; [apply no_crun_app; assumption|exact R3].
      * right. left. exists k. split; [exact R1|apply no_crun_app; assumption].
      * right. right. exists k, d0, pend. repeat (split; [assumption|]).
        split; [|split; [rewrite cmds_to_app; apply in_or_app; left; exact R10|split; [unfold e_nodes; rewrite P1; exact R11|unfold schedn; rewrite P2, P3; exact R12]]].
        intros m c0 Hi Hr. apply in_app_or in Hi. destruct Hi as [Hi|Hi]; [exact (R9 m c0 Hi Hr)|].
        exfalso. pose proof (sdx_outs _ _ _ S) as F. rewrite Forall_forall in F. specialize (F _ Hi). cbn in F.
        destruct c0; try contradiction; exact Hr.
    + intros x Hx. unfold schedn in Hx. rewrite P2, P3 in Hx.
      destruct (hx_new _ _ _ _ _ _ E1 x Hx) as [X|(c0 & X1 & X2 & X3 & X4 & X5)]; [left; exact X|right].
      exists c0. split; [rewrite cmds_to_app; apply in_or_app; left; exact X1|]. unfold e_nodes. rewrite P1. auto.
    + rewrite P2. apply (hx_keep _ _ _ _ _ _ E1).
    + dprojX. apply (hx_fin _ _ _ _ _ _ E1).
  - (* DXb *)
    split.
    + constructor.
      * reflexivity.
      * dprojX. eapply EX_SD; eauto.
      * exact Rq1.
      * exact Act1.
      * exact Fn1.
      * rewrite RE. intros Hr. destruct (reason_false _ _ Hr) as (R1 & R2 & R3).
        assert (Hsd1 : d_shuttingdown d1 = false).
        { destruct (d_shuttingdown d1) eqn:X; [|reflexivity]. rewrite (H11 eq_refl) in Hr. discriminate. }
        assert (E0 : sd' = false) by (unfold sd'; rewrite Hsd1, R1, R2; reflexivity).
        destruct (NOSD E0) as (-> & _). apply K11. exact Hr.
      * dprojX. rewrite RE. intros Hs. unfold sd' in Hs.
        destruct (d_shuttingdown d1) eqn:X; [apply H11; reflexivity|]. cbn [orb] in Hs.
        apply reason_true_intro. apply orb_true_iff in Hs. tauto.
      * dprojX. intros X. change (exhausted d1 = true) in X. unfold sd'. rewrite (H21 X). reflexivity.
      * dprojX. unfold e_nodes. rewrite P1. exact Jbb1.
    + rewrite RE. dprojX. intros Hr. unfold sd'. unfold reason in Hr.
      destruct (e_tests_finished es1); [rewrite orb_true_r; reflexivity|].
      destruct (d_shouldstop d1); [rewrite orb_true_r; reflexivity|]. cbn [orb] in Hr. rewrite (H21 Hr). reflexivity.
  - intros t k Hin. apply in_app_or in Hin. destruct Hin as [Hin|Hin]; [exact (CF1 t k Hin)|].
    exfalso. pose proof (sdx_outs _ _ _ S) as F. rewrite Forall_forall in F. exact (F _ Hin).
  - intros n E0. rewrite P4. apply CF2. exact E0.
Qed.

End CtlX.

Print Assumptions loop_once_okX.
Check loop_once_okX.
