(* GarbledSteal.v -- C17 for --dist worksteal WITHOUT the hypothesis "no undecodable report":
   arbitrary crashes, arbitrary Garbled reports.

   Same GHOST-RUN argument as GarbledCoupling.v / GarbledTheorems.v (--dist load): the crash invariant XW of
   CrashStealTheorems.v holds for a ghost state sg in which a worker that has sent an undecodable report
   DIED at that moment; real and ghost state agree on the controller, the event queue and the result
   (relation GR / WoN / SyncN of GarbledCoupling.v, reused as is).  The ghost configuration gcfgw c B has the
   de-garbled oracles (so that no_garbled holds for it) and collections that agree with the real ones for
   every id below the bound B and differ above (this switches off the only clause of DJX that mentions the
   "shutdown sent" flag, xd_k2, which is conditional on "all workers collect the same list"); unlike gcfg of
   GarbledCoupling.v the extra collection is duplicate-free, so that rq_ok is inherited.

   The step lemmas of the crash development are used as black boxes: step_deliverx, step_crashx, step_recvx,
   close_if_dead_XW, step_ctl_corex, and -- for the worker steps LRecvW / LMain, which CrashStealTheorems.v
   proves inline in step_xw -- step_xw itself, applied to the ghost state.

   Main theorems:  ginvw_run, steal_garbled_c17. *)
From XV Require Import Base Worker Ctl SchedLoad SchedSteal SchedScope SchedEach Sched DSession System
  NoHook DSessionProofs WorkerProofs StealProofs LoadProofs FifoProofs ExactlyOnce Coupling ExactlyOnceSteal
  CouplingSteal CompletenessSteal CrashCoupling CrashTheorems CrashSteal CrashStealTheorems GarbledCoupling GarbledTheorems.
From Coq Require Import Permutation.
Open Scope nat_scope.

(* ====================================================================================== *)
(* 1. the ghost configuration                                                              *)
(* ====================================================================================== *)
Definition gcollw (c : config) (B : nat) (n : nat) : list string :=
  if n <? B then c_coll c n else match c_coll c 0 with [] => [""%string] | _ => [] end.
Definition gcfgw (c : config) (B : nat) (strict : bool) : config :=
  {| c_mode := c_mode c; c_numnodes := c_numnodes c; c_chunk := c_chunk c; c_maxfail := c_maxfail c;
     c_max_restart := c_max_restart c; c_requeue := c_requeue c; c_coll := gcollw c B;
     c_oracle := fun n => dgo (c_oracle c n); c_dur := c_dur c; c_crash_in := c_crash_in c;
     c_strict := strict; c_spec := c_spec c |}.

Lemma gcollw_lt c B n : n < B -> gcollw c B n = c_coll c n.
Proof. intros H. unfold gcollw. apply Nat.ltb_lt in H. rewrite H. reflexivity. Qed.

Lemma gcfgw_not_same c B b : 0 < B -> ~ SAMEX (c_coll (gcfgw c B b)).
Proof.
  intros HB HS. specialize (HS B). cbn [c_coll gcfgw] in HS. unfold gcollw in HS.
  rewrite Nat.ltb_irrefl in HS. apply Nat.ltb_lt in HB. rewrite HB in HS.
  destruct (c_coll c 0); discriminate.
Qed.

Lemma gcfgw_ng c B b : no_garbled (gcfgw c B b).
Proof. intros n i. apply dgo_nogarbled. Qed.

Lemma gcfgw_rq c B b : rq_ok c -> rq_ok (gcfgw c B b).
Proof.
  unfold rq_ok. intros [H|H]; [left; exact H|right]. intros k. cbn [c_coll gcfgw]. unfold gcollw.
  destruct (k <? B); [apply H|]. destruct (c_coll c 0).
  - constructor; [intros []|constructor].
  - constructor.
Qed.

Lemma up_of_wevent_gw c B b n e :
  n < B -> is_garbled e = false -> up_of_wevent (gcfgw c B b) n e = up_of_wevent c n e.
Proof.
  intros Hn Hg. destruct e; try reflexivity.
  cbn. rewrite gcollw_lt by exact Hn. reflexivity.
Qed.

Lemma XW_cfg c1 c2 s :
  c_numnodes c1 = c_numnodes c2 -> c_coll c1 = c_coll c2 -> c_oracle c1 = c_oracle c2 -> XW c1 s -> XW c2 s.
Proof.
  intros E1 E2 E3 [A1 A2 A3 A4 A5 A6 A7 A8]. constructor; rewrite <- ?E1, <- ?E2, <- ?E3; assumption.
Qed.

(* ====================================================================================== *)
(* 2. flag changes on a dead node                                                          *)
(* ====================================================================================== *)
(* when the workers do not all collect the same list, even the "shutdown sent" flag does not concern the
   controller's invariant *)
Lemma DJX_flag_ns N X0 d ws n f f' :
  DJX N X0 d ws -> aget n (ws_nt ws) = Some f -> ~ SAMEX X0 ->
  DJX N X0 (d_set_nt d (aset n f' (d_nt d))) (upd_flagw ws n f').
Proof.
  intros ([Els J AL RQ JB K2] & K) Ef NS.
  assert (KEY : forall m, aget m (ws_nt (upd_flagw ws n f')) <> None <-> aget m (ws_nt ws) <> None).
  { intros m. rewrite aget_upd_flagw. destruct (Nat.eqb m n) eqn:E; [|reflexivity].
    apply Nat.eqb_eq in E. subst m. rewrite Ef. split; intros; discriminate. }
  unfold d_set_nt. split; [|exact K].
  constructor; cbn [d_set_sched d_sched d_next_gw d_active d_requeue d_shouldstop d_shuttingdown].
  - unfold d_nt. rewrite Els. reflexivity.
  - destruct J as [A1 A2 A3 A4 A5 A6 A7 A8 A9 A10 A11 A12 A13]. constructor; auto.
    intros m. rewrite KEY. apply A2.
  - exact AL.
  - exact RQ.
  - exact JB.
  - intros HS. contradiction.
Qed.

(* the flags of a dead node may change, as long as the down flag stays *)
Lemma XW_dead_flag c s n f f' :
  XW c s -> mem_nat n (y_dead s) = true -> aget n (d_nt (y_d s)) = Some f ->
  n_down f' = n_down f -> (n_sdsent f' = n_sdsent f \/ ~ SAMEX (c_coll c)) ->
  XW c (set_d s (d_set_nt (y_d s) (aset n f' (d_nt (y_d s))))).
Proof.
  intros X Hd Ef Hdn Hsd. pose proof X as [Lo Hi (ws & P & DJd & NIs & Pout) Eq Eu Ea Er Edead].
  pose proof DJd as ([Els J _ _ _ _] & _).
  assert (Ent : d_nt (y_d s) = ws_nt ws) by (unfold d_nt; rewrite Els; reflexivity).
  set (s' := set_d s (d_set_nt (y_d s) (aset n f' (d_nt (y_d s))))).
  assert (Ef' : aget n (ws_nt ws) = Some f) by (rewrite <- Ent; exact Ef).
  constructor.
  - exact Lo.
  - exact Hi.
  - exists (upd_flagw ws n f'), P. split.
    { destruct Hsd as [Hsd|NS];
        [apply (DJX_flag (c_numnodes c) (c_coll c) _ ws n f); auto|apply (DJX_flag_ns (c_numnodes c) (c_coll c) _ ws n f); auto]. }
    split; [|exact Pout].
    intros k w Hw. change (y_w s') with (y_w s) in Hw. destruct (Nat.eq_dec k n) as [->|Hk].
    + destruct (NIs n w Hw) as (A & B & C & D). split; [exact A|]. split; [exact B|]. split; [exact C|].
      change (y_dead s') with (y_dead s). rewrite Hd in *. destruct D as [D1 D2 D3 D4].
      constructor.
      * change (xsigs s' n) with (xsigs s n). eapply NDX_ext; [|exact D1]. reflexivity.
      * destruct D2 as [pre g X1 X2 X3 X4 X5 X6 X7|q1 q2 X1 X2 X3 X4 X5 X6 X7|X1 X2 X3 X4 X5].
        -- eapply (DW_wire _ _ _ _ _ pre f'); eauto.
           ++ rewrite aget_upd_flagw, Nat.eqb_refl. reflexivity.
           ++ rewrite Hdn. congruence.
        -- eapply (DW_queue _ _ _ _ _ q1 q2); eauto.
        -- eapply DW_done; eauto.
      * exact D3.
      * exact D4.
    + apply (NodeInvW_other c P s s' ws (upd_flagw ws n f') k w []); auto; try apply no_errd_nil.
      * rewrite aget_upd_flagw. apply Nat.eqb_neq in Hk. rewrite Hk. reflexivity.
      * cbn. rewrite app_nil_r. reflexivity.
  - exact Eq.
  - exact Eu.
  - exact Ea.
  - exact Er.
  - exact Edead.
Qed.

Lemma ghost_wirew c s n w : XW c s -> mem_nat n (y_dead s) = true -> aget n (y_w s) = Some w ->
  alist_get [] n (y_up s) <> [] -> exists f, aget n (d_nt (y_d s)) = Some f /\ n_down f = false.
Proof.
  intros X Hd Hw Hup. pose proof X as [Lo Hi (ws & P & DJd & NIs & _) _ _ _ _ _].
  pose proof DJd as ([Els _ _ _ _ _] & _).
  destruct (NIs n w Hw) as (_ & _ & _ & D). rewrite Hd in D. destruct D as [_ D2 _ _].
  destruct D2 as [pre g X1 X2 X3 X4 _ _ _|q1 q2 X1 _ _ _ _ _ _|X1 _ _ _ _]; try contradiction.
  exists g. split; [|exact X4]. unfold d_nt. rewrite Els. exact X3.
Qed.

(* ====================================================================================== *)
(* 3. the shape of the worker steps of sys_step                                            *)
(* ====================================================================================== *)
Lemma sys_step_recvw c s n w w' evs :
  y_result s = None -> mem_nat n (y_dead s) = false -> aget n (y_w s) = Some w -> negb (wcb w) = false ->
  recv_step (c_oracle c n) w = (w', evs) ->
  sys_step c s (LRecvW n) =
  Some (push_up (set_w s n w') n (map (up_of_wevent c n) evs), [], map (fun e => (n, e)) evs).
Proof.
  intros A B C D E. unfold sys_step. rewrite A, B, C. cbv beta iota. rewrite D, E. reflexivity.
Qed.

Lemma sys_step_main c s n w w' evs :
  y_result s = None -> mem_nat n (y_dead s) = false -> aget n (y_w s) = Some w -> dies_now c n w = false ->
  main_step (c_oracle c n) w = Some (w', evs) ->
  sys_step c s (LMain n) =
  Some (push_up (set_w s n w') n (map (up_of_wevent c n) evs), [], map (fun e => (n, e)) evs).
Proof.
  intros A B C D E. unfold sys_step. rewrite A, B, C. cbv beta iota. rewrite D, E. reflexivity.
Qed.

(* a worker in sync says something: its ghost says the same *)
Lemma gw_push_sync s sg wo n0 w' ms :
  GR s sg wo -> ~ In n0 wo ->
  GR (push_up (set_w s n0 w') n0 ms) (push_up (set_w sg n0 (dgw w')) n0 ms) wo.
Proof.
  intros R Hni. pose proof R as [G1 G2 G3 G4 G5].
  apply (GR_local s sg wo _ _ wo n0 R); auto.
  - intros n Hn. same_tac Hn.
  - intros n Hn. same_tac Hn.
  - tauto.
  - contradiction.
  - intros _. destruct (G5 n0 Hni) as [S1 S2 S3 S4].
    constructor; cbn [push_up set_w y_w y_down y_up y_dead]; rewrite ?aget_aset_eq, ?alist_get_aset_eq; auto.
    rewrite S3. reflexivity.
Qed.

(* ====================================================================================== *)
(* 4. the ghost invariant and its steps                                                    *)
(* ====================================================================================== *)
Definition GInvW (c : config) (B : nat) (s : sys) : Prop :=
  exists sg wo, XW (gcfgw c B (c_strict c)) sg /\ GR s sg wo.

Section StepsW.
Variable c : config.
Variable B : nat.
Hypothesis Hpos : 0 < c_numnodes c.
Notation cg := (gcfgw c B (c_strict c)).

Lemma wo_ltw s sg wo k : XW cg sg -> GR s sg wo -> In k wo -> k < d_next_gw (y_d s).
Proof.
  intros X R Hk. destruct (wo_g _ _ _ (gr_wo _ _ _ R k Hk)) as (wg & _ & _ & _ & Ewg & _).
  rewrite <- (gr_d _ _ _ R). exact (worker_ltx cg sg k wg X Ewg).
Qed.

Lemma gw_deliver s n0 cmd rest w0 :
  GInvW c B s -> mem_nat n0 (y_dead s) = false ->
  aget n0 (y_down s) = Some (cmd :: rest) -> aget n0 (y_w s) = Some w0 ->
  GInvW c B {| y_d := y_d s; y_evq := y_evq s; y_down := aset n0 rest (y_down s); y_up := y_up s;
               y_w := aset n0 (deliver w0 cmd) (y_w s); y_dead := y_dead s; y_result := y_result s |}.
Proof.
  intros (sg & wo & X & R) Hd Ed Ew. pose proof R as [G1 G2 G3 G4 G5].
  destruct (in_dec Nat.eq_dec n0 wo) as [Hin|Hni].
  - exists sg, wo. split; [exact X|].
    apply (GR_local s sg wo _ sg wo n0 R); auto.
    + intros n Hn. same_tac Hn.
    + intros n Hn. apply same_at_refl.
    + tauto.
    + intros _. apply (WoN_ext s sg); auto; cbn [y_w y_d y_up].
      * intros _. rewrite aget_aset_eq. discriminate.
      * intros _. exists []. rewrite app_nil_r. reflexivity.
    + contradiction.
  - destruct (G5 n0 Hni) as [S1 S2 S3 S4]. rewrite Ew in S1. cbn in S1. rewrite Hd in S4.
    rewrite (alist_get_some [] _ _ _ Ed) in S2. apply alist_get_cons_aget in S2.
    eexists. exists wo. split; [exact (step_deliverx cg Hpos sg n0 cmd rest (dgw w0) X S4 S2 S1)|].
    apply (GR_local s sg wo _ _ wo n0 R); auto.
    + intros n Hn. same_tac Hn.
    + intros n Hn. same_tac Hn.
    + tauto.
    + contradiction.
    + intros _. constructor; cbn [y_w y_down y_up y_dead]; rewrite ?aget_aset_eq, ?alist_get_aset_eq; auto.
      all: first [exact S3 | apply (sy_dead _ _ _ (G5 n0 Hni)) | reflexivity].
Qed.

(* the real process of a worker dies *)
Lemma gw_crash s n0 w0 :
  GInvW c B s -> mem_nat n0 (y_dead s) = false -> aget n0 (y_w s) = Some w0 -> wph w0 <> PExited ->
  GInvW c B (crash_worker c s n0).
Proof.
  intros (sg & wo & X & R) Hd Ew Hph. pose proof R as [G1 G2 G3 G4 G5].
  destruct (in_dec Nat.eq_dec n0 wo) as [Hin|Hni].
  - (* a written-off worker dies: only its closed flag may change *)
    assert (XD : XW cg (set_d sg (y_d (crash_worker c s n0)))).
    { unfold crash_worker. cbn [y_d]. destruct (c_strict c) eqn:Est; [|rewrite <- G1; rewrite set_d_same; exact X].
      destruct (aget n0 (d_nt (y_d s))) as [f|] eqn:Ef; [|rewrite <- G1; rewrite set_d_same; exact X].
      rewrite <- G1 in *. apply XW_dead_flag with (f := f); auto. apply (wo_dead _ _ _ (G4 n0 Hin)). }
    exists (set_d sg (y_d (crash_worker c s n0))), wo. split; [exact XD|].
    apply (GR_local s sg wo _ _ wo n0 R); auto.
    + intros k _. apply dn_crash.
    + intros n Hn. same_tac Hn.
    + intros n Hn. same_tac Hn.
    + tauto.
    + intros _. apply (WoN_ext s sg); auto; try apply (G4 n0 Hin).
      * apply dn_crash.
      * intros _. exists [UEnd]. unfold crash_worker. cbn [y_up]. apply alist_get_aset_eq.
    + contradiction.
  - destruct (G5 n0 Hni) as [S1 S2 S3 S4]. rewrite Ew in S1. cbn in S1. rewrite Hd in S4.
    assert (Hph' : wph (dgw w0) <> PExited) by (rewrite wph_dgw; destruct (wph w0); cbn; congruence).
    exists (crash_worker cg sg n0), wo. split; [exact (step_crashx cg Hpos sg n0 (dgw w0) X S4 S1 Hph')|].
    apply (GR_local s sg wo _ _ wo n0 R); auto.
    + unfold crash_worker. cbn [y_d c_strict gcfgw]. rewrite G1. reflexivity.
    + intros k _. apply dn_crash.
    + intros n Hn. same_tac Hn.
    + intros n Hn. same_tac Hn.
    + tauto.
    + contradiction.
    + intros _. unfold crash_worker. constructor; cbn [y_w y_down y_up y_dead]; rewrite ?alist_get_aset_eq; auto.
      * rewrite S1, Ew. reflexivity.
      * rewrite S3. reflexivity.
      * rewrite !mem_nat_cons, Nat.eqb_refl. reflexivity.
Qed.

(* the worker's receiver thread *)
Lemma gw_recvw s n0 w0 w' evs :
  GInvW c B s -> d_next_gw (y_d s) <= B -> y_result s = None ->
  mem_nat n0 (y_dead s) = false -> aget n0 (y_w s) = Some w0 -> negb (wcb w0) = false ->
  recv_step (c_oracle c n0) w0 = (w', evs) ->
  GInvW c B (push_up (set_w s n0 w') n0 (map (up_of_wevent c n0) evs)).
Proof.
  intros (sg & wo & X & R) HB Eres Hd Ew Hcb Es. pose proof R as [G1 G2 G3 G4 G5].
  destruct (in_dec Nat.eq_dec n0 wo) as [Hin|Hni].
  - exists sg, wo. split; [exact X|apply g_push_wo; auto].
  - destruct (G5 n0 Hni) as [S1 S2 S3 S4]. rewrite Ew in S1. cbn in S1. rewrite Hd in S4.
    pose proof (worker_ltx cg sg n0 _ X S1) as HnG. rewrite G1 in HnG.
    assert (Es' : recv_step (c_oracle cg n0) (dgw w0) = (dgw w', evs)).
    { cbn [c_oracle gcfgw]. rewrite recv_step_dgw, Es. reflexivity. }
    pose proof X as [_ _ (ws & P & _ & NIs & _) _ _ _ _ _].
    destruct (NIs n0 (dgw w0) S1) as (_ & _ & NGw & _).
    destruct (recv_step_nogarb _ _ _ _ Es' NGw) as (_ & NG2).
    assert (Eres' : y_result sg = None) by (rewrite G3; exact Eres).
    pose proof (sys_step_recvw cg sg n0 (dgw w0) (dgw w') evs Eres' S4 S1 Hcb Es') as ST.
    destruct (step_xw cg (gcfgw_ng c B _) Hpos sg _ _ _ _ X ST) as [X'|(F & _)].
    2:{ cbn [push_up set_w y_result] in F. rewrite Eres' in F. discriminate. }
    eexists. exists wo. split; [exact X'|].
    assert (EM : map (up_of_wevent cg n0) evs = map (up_of_wevent c n0) evs).
    { apply map_ext_in. intros e He. apply up_of_wevent_gw; [lia|]. rewrite Forall_forall in NG2; auto. }
    rewrite EM. apply gw_push_sync; auto.
Qed.

(* the worker's main thread *)
Lemma gw_main s n0 w0 w' evs :
  GInvW c B s -> d_next_gw (y_d s) <= B -> y_result s = None ->
  mem_nat n0 (y_dead s) = false -> aget n0 (y_w s) = Some w0 -> dies_now c n0 w0 = false ->
  main_step (c_oracle c n0) w0 = Some (w', evs) ->
  GInvW c B (push_up (set_w s n0 w') n0 (map (up_of_wevent c n0) evs)).
Proof.
  intros (sg & wo & X & R) HB Eres Hd Ew Edie Es. pose proof R as [G1 G2 G3 G4 G5].
  destruct (in_dec Nat.eq_dec n0 wo) as [Hin|Hni].
  - exists sg, wo. split; [exact X|apply g_push_wo; auto].
  - destruct (G5 n0 Hni) as [S1 S2 S3 S4]. rewrite Ew in S1. cbn in S1. rewrite Hd in S4.
    pose proof (worker_ltx cg sg n0 _ X S1) as HnG. rewrite G1 in HnG.
    assert (Es' : main_step (c_oracle cg n0) (dgw w0) = Some (dgw w', map dge evs)).
    { cbn [c_oracle gcfgw]. rewrite main_step_dgw, Es. reflexivity. }
    assert (Eres' : y_result sg = None) by (rewrite G3; exact Eres).
    assert (GB : existsb is_garbled evs = false \/ exists e, evs = [e] /\ is_garbled e = true).
    { destruct (main_step_one _ _ _ _ Es) as [->|(e & ->)]; [left; reflexivity|]. cbn.
      destruct (is_garbled e) eqn:E; [right; eauto|left; reflexivity]. }
    destruct GB as [NGe|(e & -> & Ge)].
    + (* an ordinary event *)
      assert (NGf : Forall (fun e => is_garbled e = false) evs).
      { apply Forall_forall. intros e He. destruct (is_garbled e) eqn:E; [|reflexivity].
        assert (existsb is_garbled evs = true) by (apply existsb_exists; eauto). congruence. }
      assert (Ed' : dies_now cg n0 (dgw w0) = false).
      { rewrite <- Edie, <- (dies_now_dgw c n0 w0). reflexivity. }
      pose proof (sys_step_main cg sg n0 (dgw w0) (dgw w') (map dge evs) Eres' S4 S1 Ed' Es') as ST.
      destruct (step_xw cg (gcfgw_ng c B _) Hpos sg _ _ _ _ X ST) as [X'|(F & _)].
      2:{ cbn [push_up set_w y_result] in F. rewrite Eres' in F. discriminate. }
      eexists. exists wo. split; [exact X'|].
      assert (EM : map (up_of_wevent cg n0) (map dge evs) = map (up_of_wevent c n0) evs).
      { rewrite map_map. apply map_ext_in. intros e He. rewrite Forall_forall in NGf.
        rewrite (dge_id e (NGf e He)). apply up_of_wevent_gw; [lia|auto]. }
      rewrite EM. apply gw_push_sync; auto.
    + (* a garbled report: the worker will be written off; its ghost dies now *)
      destruct (main_step_garbled _ _ _ _ Es Ge) as (cur & nxt & sc & Ph).
      assert (DN : dn n0 (y_d s) = false).
      { rewrite <- G1. pose proof X as [_ _ (ws & P & DJd & NIs & _) _ _ _ _ _].
        pose proof DJd as ([Els _ _ _ _ _] & _).
        assert (Ent : d_nt (y_d sg) = ws_nt ws) by (unfold d_nt; rewrite Els; reflexivity).
        destruct (NIs n0 (dgw w0) S1) as (_ & _ & _ & D). rewrite S4 in D.
        unfold dn. rewrite Ent.
        destruct (aget n0 (ws_nt ws)) as [f|] eqn:Ef; [|reflexivity]. destruct (n_down f) eqn:Edn; [|reflexivity].
        exfalso. assert (PX : wph (dgw w0) = PExited).
        { destruct (P n0).
          - destruct D as [_ _ _ _ _ D6 _]. first [exact (D6 f Ef Edn)|exact (D6 f eq_refl Edn)].
          - destruct D as [_ _ _ _ _ D6]. first [exact (proj2 (D6 f Ef Edn))|exact (proj2 (D6 f eq_refl Edn))]. }
        rewrite wph_dgw, Ph in PX. discriminate. }
      set (cg0 := gcfgw c B false).
      assert (X0' : XW cg0 sg) by (apply (XW_cfg cg); [reflexivity|reflexivity|reflexivity|exact X]).
      assert (Hph' : wph (dgw w0) <> PExited) by (rewrite wph_dgw, Ph; discriminate).
      pose proof (step_crashx cg0 Hpos sg n0 (dgw w0) X0' S4 S1 Hph') as XK.
      apply (XW_cfg cg0 cg) in XK; [|reflexivity|reflexivity|reflexivity].
      exists (crash_worker cg0 sg n0), (n0 :: wo). split; [exact XK|].
      apply (GR_local s sg wo _ _ (n0 :: wo) n0 R); auto.
      * intros n Hn. same_tac Hn.
      * intros n Hn. same_tac Hn.
      * intros n Hn. cbn. split; [intros [F|F]; [congruence|exact F]|auto].
      * intros _. constructor.
        -- cbn [push_up set_w y_w]. rewrite aget_aset_eq. discriminate.
        -- exists (dgw w0), cur, nxt, (map dge (e :: sc)). split; [exact S1|rewrite wph_dgw, Ph; reflexivity].
        -- unfold crash_worker. cbn [y_dead]. rewrite mem_nat_cons, Nat.eqb_refl. reflexivity.
        -- left. split; [exact DN|]. exists (alist_get [] n0 (y_up s)), []. split.
           ++ cbn [push_up set_w y_up]. rewrite alist_get_aset_eq. cbn [map]. rewrite (garbled_up c n0 e Ge). reflexivity.
           ++ unfold crash_worker. cbn [y_up]. rewrite alist_get_aset_eq, S3. reflexivity.
      * intros F. exfalso. apply F. left. reflexivity.
Qed.

(* the controller's main loop *)
Lemma gw_ctl s ev q d' outs r :
  GInvW c B s -> y_result s = None -> y_evq s = ev :: q -> d_loop_once ev (y_d s) = (d', outs, r) ->
  r = Ok tt /\ d_next_gw d' <= S (d_next_gw (y_d s)) /\
  forall rr, (forall e, rr <> Some (RError e)) -> (rr = None -> d_active d' <> []) ->
    GInvW c B (set_result (apply_outs (set_d (set_evq s q) d') outs) rr).
Proof.
  intros (sg & wo & X & R) Eres Eq El. pose proof R as [G1 G2 G3 G4 G5].
  rewrite <- G1 in El. rewrite <- G3 in Eres. rewrite <- G2 in Eq.
  destruct (step_ctl_corex cg Hpos sg ev q d' outs r X Eres Eq El) as (-> & _ & CORE).
  pose proof (loop_once_step _ _ _ _ _ El) as SR.
  destruct (step_rel_spawn _ _ _ SR) as (GW & SPI).
  destruct (loop_once_fifo _ _ _ _ _ 0 El) as ((_ & _ & _ & RK) & _).
  split; [reflexivity|]. split.
  { destruct SR as (_ & _ & _ & [(_ & E)|(_ & E & _)]); rewrite E, G1; lia. }
  intros rr H1 H2. exists (set_result (apply_outs (set_d (set_evq sg q) d') outs) rr), wo.
  split; [apply CORE; auto|].
  apply GR_set_result. apply GR_apply_outs.
  - apply GR_set_dq; [exact R|]. intros k Hk. pose proof (wo_ltw s sg wo k X R Hk) as Hlt.
    rewrite <- G1 in *. destruct (RK k) as [E|(E & _)]; [exact E|lia].
  - intros id sp Hin Hwo. destruct (SPI id sp Hin) as (A & _).
    pose proof (wo_ltw s sg wo id X R Hwo) as Hlt. rewrite <- G1 in Hlt. lia.
Qed.

(* the channel of a dead worker is closed once its end marker has been read *)
Lemma gw_close s1 n0 : GInvW c B s1 -> GInvW c B (close_if_dead s1 n0).
Proof.
  intros (sg & wo & X & R). pose proof R as [G1 G2 G3 G4 G5].
  assert (DNK : forall f, aget n0 (d_nt (y_d s1)) = Some f -> n_down f = true -> forall k,
            dn k (d_set_nt (y_d s1) (aset n0 {| n_spec := n_spec f; n_down := true; n_sdsent := n_sdsent f;
                                                n_closed := true |} (d_nt (y_d s1)))) = dn k (y_d s1)).
  { intros f Ef Edn k. destruct (Nat.eq_dec k n0) as [->|Hk].
    - rewrite dn_aset_eq, (dn_of_flag _ _ _ Ef), Edn. reflexivity.
    - apply dn_aset_neq. exact Hk. }
  destruct (in_dec Nat.eq_dec n0 wo) as [Hin|Hni].
  - unfold close_if_dead. destruct (mem_nat n0 (y_dead s1)) eqn:Hd; [|exists sg, wo; auto].
    destruct (aget n0 (d_nt (y_d s1))) as [f|] eqn:Ef; [|exists sg, wo; auto].
    destruct (n_down f) eqn:Edn; [|exists sg, wo; auto].
    eexists (set_d sg _), wo. split; [|apply GR_set_d; [exact R|apply DNK; auto]].
    rewrite <- G1 in *.
    apply (XW_dead_flag cg sg n0 f _ X (wo_dead _ _ _ (G4 n0 Hin)) Ef); [cbn; symmetry; exact Edn|left; reflexivity].
  - exists (close_if_dead sg n0), wo. split; [apply close_if_dead_XW; exact X|].
    unfold close_if_dead. rewrite (sy_dead _ _ _ (G5 n0 Hni)), G1.
    destruct (mem_nat n0 (y_dead s1)); [|exact R].
    destruct (aget n0 (d_nt (y_d s1))) as [f|] eqn:Ef; [|exact R].
    destruct (n_down f) eqn:Edn; [|exact R].
    apply GR_set_d; [exact R|apply DNK; auto].
Qed.

(* the controller's receiver thread *)
Lemma gw_recv s n0 m rest d' outs r :
  GInvW c B s -> d_next_gw (y_d s) <= B -> aget n0 (y_up s) = Some (m :: rest) ->
  process_from_remote n0 m (y_d s) = (d', outs, r) ->
  d_next_gw d' = d_next_gw (y_d s) /\ exists evs, r = Ok evs /\
  GInvW c B (set_evq (apply_outs (set_d {| y_d := y_d s; y_evq := y_evq s; y_down := y_down s;
                                           y_up := aset n0 rest (y_up s); y_w := y_w s; y_dead := y_dead s;
                                           y_result := y_result s |} d') outs)
                     (y_evq s ++ evs)).
Proof.
  intros (sg & wo & X & R) HB Eup Ep. pose proof R as [G1 G2 G3 G4 G5].
  pose proof (alist_get_some [] _ _ _ Eup) as Eup'.
  (* generic conclusion: the real state after the step, with any wire down for n0 *)
  assert (FIN : forall sg1 wo1 yd evs d2,
     XW cg sg1 -> y_d sg1 = d2 -> y_evq sg1 = y_evq s ++ evs -> y_result sg1 = y_result s ->
     (forall k, k <> n0 -> dn k d2 = dn k (y_d s)) ->
     (forall n, n <> n0 -> alist_get [] n yd = alist_get [] n (y_down s)) ->
     (forall n, n <> n0 -> same_at sg sg1 n) -> (forall n, n <> n0 -> (In n wo1 <-> In n wo)) ->
     let s' := {| y_d := d2; y_evq := y_evq s ++ evs; y_down := yd; y_up := aset n0 rest (y_up s);
                  y_w := y_w s; y_dead := y_dead s; y_result := y_result s |} in
     (In n0 wo1 -> WoN s' sg1 n0) -> (~ In n0 wo1 -> SyncN s' sg1 n0) -> GInvW c B s').
  { intros sg1 wo1 yd evs d2 X1 E1 E2 E3 Hdn Hyd Hsg Hwo s' Hw Hy. exists sg1, wo1. split; [exact X1|].
    apply (GR_local s sg wo s' sg1 wo1 n0 R); auto.
    intros n Hn. unfold same_at, s'. cbn [y_w y_down y_up y_dead]. rewrite alist_get_aset_neq by exact Hn. auto. }
  destruct (in_dec Nat.eq_dec n0 wo) as [Hin|Hni].
  - destruct (G4 n0 Hin) as [W1 W2 W3 W4]. destruct W2 as (wg & cur & nxt & sc & Ewg & Phg).
    destruct W4 as [(Hdn & pre & post & U1 & U2)|(Hdn & U2)].
    + rewrite Eup' in U1. destruct pre as [|m' pre'].
      * (* the garbled report is read: the worker is written off *)
        cbn [app] in U1. inv U1.
        assert (Hne : alist_get [] n0 (y_up sg) <> []) by (rewrite U2; discriminate).
        destruct (ghost_wirew cg sg n0 wg X W3 Ewg Hne) as (f & Ef & Hdf). rewrite G1 in Ef.
        destruct (d_node_shutdown n0 (y_d s)) as [[d1 o1] r1] eqn:Hs.
        destruct (d_node_shutdown_ok _ _ _ _ _ _ Ef Hs) as (-> & CASES).
        assert (HB0 : 0 < B). { pose proof (wo_ltw s sg wo n0 X R Hin). lia. }
        assert (XA : XW cg (set_d sg d1) /\ exists f1, aget n0 (d_nt d1) = Some f1 /\ n_down f1 = false /\
                     (forall k, dn k d1 = dn k (y_d s)) /\ d_next_gw d1 = d_next_gw (y_d s)).
        { destruct CASES as [(-> & _)|(-> & _)].
          - split; [rewrite <- G1, set_d_same; exact X|]. exists f. auto.
          - split.
            + rewrite <- G1 in *. apply (XW_dead_flag cg sg n0 f (sd_mark f)); auto.
              right. apply gcfgw_not_same. exact HB0.
            + exists (sd_mark f). split; [rewrite d_nt_set; apply aget_aset_eq|]. split; [exact Hdf|].
              split; [|reflexivity]. intros k. destruct (Nat.eq_dec k n0) as [->|Hk].
              * rewrite dn_aset_eq, (dn_of_flag _ _ _ Ef). reflexivity.
              * apply dn_aset_neq. exact Hk. }
        destruct XA as (XA & f1 & Ef1 & Hdf1 & DN1 & GW1).
        destruct (process_from_remote n0 UEnd d1) as [[d2 o2] r2] eqn:Ep2.
        assert (EupA : aget n0 (y_up (set_d sg d1)) = Some [UEnd]).
        { cbn [set_d y_up]. apply alist_get_cons_aget. exact U2. }
        destruct (step_recvx cg Hpos (set_d sg d1) n0 UEnd [] d2 o2 r2 XA EupA Ep2) as (-> & evs & -> & X').
        rewrite (pfr_bad _ _ _ _ _ Ef Hdf Hs f1 Ef1 Hdf1 _ _ _ Ep2) in Ep. inv Ep.
        destruct (pfr_spec _ _ _ _ _ _ _ Ep2 Ef1) as (_ & GW2 & _ & DNo & DNn & _).
        split; [congruence|]. exists evs. split; [reflexivity|].
        assert (CL : forall yd, (forall n, n <> n0 -> alist_get [] n yd = alist_get [] n (y_down s)) ->
                 GInvW c B {| y_d := d'; y_evq := y_evq s ++ evs; y_down := yd; y_up := aset n0 post (y_up s);
                              y_w := y_w s; y_dead := y_dead s; y_result := y_result s |}).
        { intros yd Hyd. eapply (FIN _ wo yd evs d'); [exact X'|reflexivity| |exact G3| |exact Hyd| |tauto| |contradiction].
          - cbn [set_evq set_d y_evq]. rewrite G2. reflexivity.
          - intros k Hk. rewrite (DNo k Hk). apply DN1.
          - intros n Hn. same_tac Hn.
          - intros _. constructor; cbn [y_w y_d y_up set_evq set_d y_dead].
            + exact W1.
            + exists wg, cur, nxt, sc. auto.
            + exact W3.
            + right. split; [rewrite DNn; apply orb_true_r|apply alist_get_aset_eq]. }
        rewrite app_nil_r. destruct CASES as [(_ & ->)|(_ & [->| ->])]; cbn [apply_outs set_d set_evq y_evq y_d y_dead].
        -- apply CL. auto.
        -- apply CL. auto.
        -- destruct (mem_nat n0 (y_dead s)); cbn [apply_outs set_evq y_evq].
           ++ apply CL. auto.
           ++ apply CL. intros n Hn. cbn [y_down]. apply alist_get_aset_neq. exact Hn.
      * (* an audible message of a worker that will be written off *)
        cbn [app] in U1. inv U1.
        assert (EupG : aget n0 (y_up sg) = Some (m' :: pre' ++ [UEnd])) by (apply alist_get_cons_aget; exact U2).
        rewrite <- G1 in Ep.
        destruct (step_recvx cg Hpos sg n0 m' _ d' outs r X EupG Ep) as (-> & evs & -> & X').
        assert (Hne : alist_get [] n0 (y_up sg) <> []) by (rewrite U2; discriminate).
        destruct (ghost_wirew cg sg n0 wg X W3 Ewg Hne) as (f & Ef & Hdf).
        destruct (pfr_spec _ _ _ _ _ _ _ Ep Ef) as (_ & GW2 & _ & DNo & _ & _).
        split; [congruence|]. exists evs. split; [reflexivity|]. cbn [apply_outs set_d].
        eapply (FIN _ wo (y_down s) evs d'); [exact X'|reflexivity| |exact G3| |auto| |tauto| |contradiction].
        -- cbn [set_evq set_d y_evq]. rewrite G2. reflexivity.
        -- intros k Hk. rewrite (DNo k Hk), G1. reflexivity.
        -- intros n Hn. same_tac Hn.
        -- intros _. constructor; cbn [y_w y_d y_up set_evq set_d y_dead].
           ++ exact W1.
           ++ exists wg, cur, nxt, sc. auto.
           ++ exact W3.
           ++ left. assert (Hne' : alist_get [] n0 (y_up (set_evq (set_d {| y_d := y_d sg; y_evq := y_evq sg; y_down := y_down sg;
                  y_up := aset n0 (pre' ++ [UEnd]) (y_up sg); y_w := y_w sg; y_dead := y_dead sg; y_result := y_result sg |} d')
                  (y_evq sg ++ evs))) <> []).
              { cbn [set_evq set_d y_up]. rewrite alist_get_aset_eq. destruct pre'; discriminate. }
              destruct (ghost_wirew cg _ n0 wg X' W3 Ewg Hne') as (f2 & Ef2 & Hdf2). cbn [set_evq set_d y_d] in Ef2.
              split; [rewrite (dn_of_flag _ _ _ Ef2); exact Hdf2|]. exists pre', post.
              rewrite !alist_get_aset_eq. auto.
    + (* a written-off worker: the message is dropped *)
      unfold dn in Hdn. destruct (aget n0 (d_nt (y_d s))) as [f|] eqn:Ef; [|discriminate].
      rewrite (pfr_down _ _ _ _ Ef Hdn) in Ep. inv Ep. split; [reflexivity|]. exists []. split; [reflexivity|].
      cbn [apply_outs set_d].
      eapply (FIN sg wo (y_down s) [] (y_d s)); [exact X|exact G1|rewrite app_nil_r; exact G2|exact G3|auto|auto| |tauto| |contradiction].
      * intros n Hn. apply same_at_refl.
      * intros _. constructor; cbn [y_w y_d y_up y_dead].
        -- exact W1.
        -- exists wg, cur, nxt, sc. auto.
        -- exact W3.
        -- right. split; [rewrite (dn_of_flag _ _ _ Ef); exact Hdn|exact U2].
  - (* a worker in sync *)
    destruct (G5 n0 Hni) as [S1 S2 S3 S4]. rewrite Eup' in S3.
    assert (EupG : aget n0 (y_up sg) = Some (m :: rest)) by (apply alist_get_cons_aget; exact S3).
    rewrite <- G1 in Ep.
    destruct (step_recvx cg Hpos sg n0 m rest d' outs r X EupG Ep) as (-> & evs & -> & X').
    assert (GW2 : d_next_gw d' = d_next_gw (y_d sg) /\ forall k, k <> n0 -> dn k d' = dn k (y_d sg)).
    { destruct (aget n0 (d_nt (y_d sg))) as [f|] eqn:Ef.
      - destruct (pfr_spec _ _ _ _ _ _ _ Ep Ef) as (_ & A & _ & Bq & _ & _). auto.
      - exfalso. unfold process_from_remote in Ep. rewrite mbind_get, Ef in Ep. cbn in Ep. inv Ep. }
    destruct GW2 as (GW2 & DNo).
    split; [congruence|]. exists evs. split; [reflexivity|]. cbn [apply_outs set_d].
    eapply (FIN _ wo (y_down s) evs d'); [exact X'|reflexivity| |exact G3| |auto| |tauto|contradiction|].
    + cbn [set_evq set_d y_evq]. rewrite G2. reflexivity.
    + intros k Hk. rewrite (DNo k Hk), G1. reflexivity.
    + intros n Hn. same_tac Hn.
    + intros _. constructor; cbn [y_w y_down y_up y_dead set_evq set_d]; rewrite ?alist_get_aset_eq; auto.
Qed.
End StepsW.

(* ====================================================================================== *)
(* 5. every step, every run                                                                *)
(* ====================================================================================== *)
Section MainW.
Variable c : config.
Hypothesis Hmode : c_mode c = MSteal.
Hypothesis Hpos : 0 < c_numnodes c.
Hypothesis Hrq : rq_ok c.

Lemma ginvw_res B s e : GInvW c B s -> y_result s <> Some (RError e).
Proof. intros (sg & wo & X & R). rewrite <- (gr_r _ _ _ R). apply (w_res _ _ X). Qed.

Lemma ginvw_init B : GInvW c B (sys_init c).
Proof.
  exists (sys_init c), []. split.
  - exact (XW_init (gcfgw c B (c_strict c)) Hmode Hpos (gcfgw_rq c B _ Hrq)).
  - constructor; auto.
    + intros n [].
    + intros n _. constructor; auto. cbn [sys_init y_w].
      destruct (aget n (map (fun n0 => (n0, w_init)) (seq 0 (c_numnodes c)))) as [w|] eqn:E; [|reflexivity].
      apply aget_map_const in E. subst w. reflexivity.
Qed.

Lemma gw_step B s l s' o w :
  GInvW c B s -> d_next_gw (y_d s) <= B -> sys_step c s l = Some (s', o, w) ->
  (GInvW c B s' /\ d_next_gw (y_d s') <= S (d_next_gw (y_d s))) \/ ErrG s'.
Proof.
  intros GI HB H. unfold sys_step in H. destruct (y_result s) eqn:Eres; [discriminate|].
  destruct l as [n0|n0|n0|n0| |n0].
  - destruct (mem_nat n0 (y_dead s)) eqn:Hd; [discriminate|].
    destruct (aget n0 (y_down s)) as [[|cmd rest]|] eqn:Ed; try discriminate.
    destruct (aget n0 (y_w s)) as [w0|] eqn:Ew; try discriminate.
    inv H. left. split; [|cbn; lia]. rewrite <- Eres. apply gw_deliver; assumption.
  - destruct (mem_nat n0 (y_dead s)) eqn:Hd; [discriminate|].
    destruct (aget n0 (y_w s)) as [w0|] eqn:Ew; try discriminate.
    destruct (negb (wcb w0)) eqn:Hcb; [discriminate|].
    destruct (recv_step (c_oracle c n0) w0) as [w' evs] eqn:Es. inv H. left.
    split; [|cbn; lia]. eapply gw_recvw; eauto.
  - destruct (mem_nat n0 (y_dead s)) eqn:Hd; [discriminate|].
    destruct (aget n0 (y_w s)) as [w0|] eqn:Ew; try discriminate.
    destruct (dies_now c n0 w0) eqn:Edie.
    + inv H. left. split; [|rewrite (proj2 (FifoProofs.crash_d c s n0)); lia].
      apply gw_crash with (w0 := w0); auto. unfold dies_now in Edie. destruct (wph w0); discriminate.
    + destruct (main_step (c_oracle c n0) w0) as [[w' evs]|] eqn:Es; [|discriminate]. inv H. left.
      split; [|cbn; lia]. eapply gw_main; eauto.
  - destruct (aget n0 (y_up s)) as [[|m rest]|] eqn:Eup; try discriminate.
    cbn [y_d] in H.
    destruct (process_from_remote n0 m (y_d s)) as [[d' outs] r] eqn:Ep.
    destruct (gw_recv c B Hpos s n0 m rest d' outs r GI HB Eup Ep) as (GW & evs & -> & GI').
    destruct (apply_outs_frame outs (set_d {| y_d := y_d s; y_evq := y_evq s; y_down := y_down s; y_up := aset n0 rest (y_up s);
                       y_w := y_w s; y_dead := y_dead s; y_result := y_result s |} d')) as (F1 & F2 & F3).
    destruct (close_if_dead_frame (set_evq (apply_outs (set_d {| y_d := y_d s; y_evq := y_evq s; y_down := y_down s; y_up := aset n0 rest (y_up s);
                       y_w := y_w s; y_dead := y_dead s; y_result := y_result s |} d') outs) (y_evq s ++ evs)) n0) as (_ & _ & _ & _ & _ & E).
    cbn [set_evq y_d] in E. rewrite F2 in E. cbn [set_d y_d] in E.
    rewrite <- Eres in H. rewrite F1 in H. cbn [set_d y_evq] in H.
    injection H as <- <- <-. left. split; [apply gw_close; first [exact GI'|exact Hpos]|].
    rewrite E. lia.
  - destruct (d_active (y_d s)) as [|a0 ar] eqn:Eact.
    { destruct (d_no_active (y_d s)) as [[d' outs] r]. inv H. right. reflexivity. }
    destruct (y_evq s) as [|ev q] eqn:Eevq; [discriminate|].
    destruct (d_loop_once ev (y_d s)) as [[d' outs] r] eqn:El.
    destruct (gw_ctl c B Hpos s ev q d' outs r GI Eres Eevq El) as (-> & GW & CORE).
    set (s1 := apply_outs (set_d (set_evq s q) d') outs) in *.
    assert (GW1 : forall rr, d_next_gw (y_d (set_result s1 rr)) <= S (d_next_gw (y_d s))).
    { intros rr. cbn [set_result y_d]. unfold s1. rewrite (proj1 (proj2 (apply_outs_frame _ _))). exact GW. }
    destruct (d_session_finished d') eqn:Efin.
    + inv H. left. split; [|apply GW1]. apply CORE.
      * intros e. destruct (d_shouldstop d'); discriminate.
      * destruct (d_shouldstop d'); discriminate.
    + destruct (d_active d') as [|b0 br] eqn:Eact'.
      * destruct (d_no_active d') as [[d2 outs2] r2]. inv H. right. reflexivity.
      * inv H. left.
        assert (Er1 : y_result s1 = None) by (unfold s1; rewrite apply_outs_result; cbn; exact Eres).
        rewrite <- (set_result_same' s1 None Er1). split; [|apply GW1]. apply CORE.
        -- intros e. discriminate.
        -- intros _. discriminate.
  - destruct (mem_nat n0 (y_dead s)) eqn:Hd; [discriminate|].
    destruct (aget n0 (y_w s)) as [w0|] eqn:Ew; try discriminate.
    destruct (wph w0) eqn:Eph; try discriminate; inv H; left;
      (split; [apply gw_crash with (w0 := w0); auto; rewrite Eph; discriminate|rewrite (proj2 (FifoProofs.crash_d c s n0)); lia]).
Qed.

Lemma errw_stays ls : forall s, ErrG s ->
  ErrG (fold_left (fun s l => match sys_step c s l with Some (s', _, _) => s' | None => s end) ls s).
Proof.
  induction ls as [|l ls IH]; intros s A; cbn [fold_left]; [exact A|].
  assert (E : sys_step c s l = None) by (unfold sys_step; rewrite A; reflexivity).
  rewrite E. apply IH. exact A.
Qed.

Lemma gw_run_gen B ls : forall s,
  GInvW c B s \/ ErrG s -> d_next_gw (y_d s) + length ls <= B ->
  let s' := fold_left (fun s l => match sys_step c s l with Some (s', _, _) => s' | None => s end) ls s in
  GInvW c B s' \/ ErrG s'.
Proof.
  induction ls as [|l ls IH]; intros s Hs HB; cbn [fold_left]; [exact Hs|].
  cbn [length] in HB.
  destruct (sys_step c s l) as [[[s' o] w]|] eqn:E; [|apply IH; [exact Hs|lia]].
  destruct Hs as [Hs|Hr].
  - destruct (gw_step B s l s' o w Hs ltac:(lia) E) as [(A & Bd)|A].
    + apply IH; [left; exact A|lia].
    + right. apply errw_stays. exact A.
  - unfold sys_step in E. rewrite Hr in E. discriminate.
Qed.

(* every reachable state has a ghost satisfying the crash invariant XW, or is the state in which the
   controller has raised "no active workers" *)
Theorem ginvw_run ls :
  GInvW c (c_numnodes c + length ls) (sys_run c ls) \/ ErrG (sys_run c ls).
Proof.
  unfold sys_run. apply gw_run_gen; [left; apply ginvw_init|]. cbn. lia.
Qed.

(* C17 for --dist worksteal without no_garbled *)
Theorem steal_garbled_c17 ls : forall e, y_result (sys_run c ls) = Some (RError e) -> e = ERuntimeNoWorkers.
Proof.
  intros e H. destruct (ginvw_run ls) as [G|R].
  - exfalso. exact (ginvw_res _ _ e G H).
  - unfold ErrG in R. congruence.
Qed.
End MainW.

Check ginvw_run.
Print Assumptions ginvw_run.
Check steal_garbled_c17.
Print Assumptions steal_garbled_c17.

(* ====================================================================================== *)
(* 6. non-vacuity                                                                          *)
(* ====================================================================================== *)
(* (a) worker 0 sends an undecodable report for test 0 *)
Definition gbs_cfg : config :=
  {| c_mode := MSteal; c_numnodes := 2; c_chunk := None; c_maxfail := 0%Z; c_max_restart := Some 4%Z;
     c_requeue := 0; c_coll := fun _ => crx_names 6;
     c_oracle := fun n => {| reports_of := fun i => if Nat.eqb n 0 && Nat.eqb i 0 then [Passed; Garbled; Failed] else [Passed];
                             stops_after := fun _ => false; ncollected := 6; coll_reports := [] |};
     c_dur := fun _ => 0%Z; c_crash_in := fun _ _ => false; c_strict := false; c_spec := fun _ => 0 |}.

(* the hypotheses of steal_garbled_c17 hold, no_garbled (needed by steal_crash_c17) does not *)
Example gbs_hyps : c_mode gbs_cfg = MSteal /\ 0 < c_numnodes gbs_cfg /\ rq_ok gbs_cfg /\ ~ no_garbled gbs_cfg.
Proof.
  split; [reflexivity|]. split; [cbn; lia|]. split; [left; reflexivity|]. intros H. apply (H 0 0). cbn. auto.
Qed.

(* result; dead processes; tests started; replacement ids; crash reports (test id, worker); group counter;
   steal marker; pool *)
Example gbs_run :
  xs_summary gbs_cfg (rounds 60 crx_round) =
  (Some RFinished, [], [0; 1; 2; 3; 4; 5; 1; 2], [2], [("0"%string, 0)], 3, None, []).
Proof. vm_compute. reflexivity. Qed.
(* worker 0 is written off (no process died: y_dead = []), the crash report names test "0" (the test with the
   garbled report), worker 2 replaces it; tests 1 and 2 -- queued on the written-off worker, which keeps
   running them -- are started twice (the recorded finding of GarbledTheorems.v, not a theorem target). *)

(* (b) garbled reports AND a crashing test, with c_strict = true and a plugin that re-queues crash items *)
Definition gbs_cfg2 : config :=
  {| c_mode := MSteal; c_numnodes := 2; c_chunk := None; c_maxfail := 0%Z; c_max_restart := Some 4%Z;
     c_requeue := 1; c_coll := fun _ => crx_names 8;
     c_oracle := fun n => {| reports_of := fun i => if Nat.eqb i 1 then [Garbled; Passed] else [Passed];
                             stops_after := fun _ => false; ncollected := 8; coll_reports := [] |};
     c_dur := fun _ => 0%Z; c_crash_in := fun n i => Nat.eqb n 1 && Nat.eqb i 5; c_strict := true; c_spec := fun _ => 0 |}.

Example gbs_hyps2 : c_mode gbs_cfg2 = MSteal /\ 0 < c_numnodes gbs_cfg2 /\ rq_ok gbs_cfg2 /\ ~ no_garbled gbs_cfg2.
Proof.
  split; [reflexivity|]. split; [cbn; lia|]. split.
  - right. intros k. cbn [c_coll gbs_cfg2]. vm_compute.
    repeat (constructor; [cbn; intuition discriminate|]). constructor.
  - intros H. apply (H 0 1). cbn. auto.
Qed.

Example gbs_run2 :
  xs_summary gbs_cfg2 (rounds 80 crx_round) =
  (Some RFinished, [1], [0; 1; 2; 3; 4; 5; 6; 7; 2; 3], [2; 3], [("5"%string, 1); ("1"%string, 0)], 4, None, []).
Proof. vm_compute. reflexivity. Qed.

(* (c) every report is undecodable and there is no restart budget: both workers are written off *)
Definition gbs_cfg4 : config :=
  {| c_mode := MSteal; c_numnodes := 2; c_chunk := None; c_maxfail := 0%Z; c_max_restart := Some 0%Z;
     c_requeue := 0; c_coll := fun n => crx_names 6;
     c_oracle := fun n => {| reports_of := fun i => [Garbled];
                             stops_after := fun _ => false; ncollected := 6; coll_reports := [] |};
     c_dur := fun _ => 0%Z; c_crash_in := fun _ _ => false; c_strict := false; c_spec := fun _ => 0 |}.
Example gbs_run4 :
  xs_summary gbs_cfg4 (rounds 80 crx_round) =
  (Some RFinished, [], [0; 3], [], [("0"%string, 0); ("3"%string, 1)], 2, None, [1; 2; 4; 5]).
Proof. vm_compute. reflexivity. Qed.

(* (d) the exception allowed by steal_garbled_c17 IS reachable through an undecodable report alone (no process
   dies): ONE worker, written off for its garbled report of test 0; its replacement collects a different
   list, is shut down instead of being given work, and nobody is left: RuntimeError("no active workers") *)
Definition gbs_cfg_diff : config :=
  {| c_mode := MSteal; c_numnodes := 1; c_chunk := None; c_maxfail := 0%Z; c_max_restart := Some 4%Z;
     c_requeue := 0; c_coll := fun n => if Nat.eqb n 1 then crx_names 3 else crx_names 4;
     c_oracle := fun _ => {| reports_of := fun i => [Garbled]; stops_after := fun _ => false; ncollected := 4;
                             coll_reports := [] |};
     c_dur := fun _ => 0%Z; c_crash_in := fun n i => false; c_strict := false; c_spec := fun _ => 0 |}.
Example gbs_run_no_active_workers :
  xs_summary gbs_cfg_diff (rounds 80 xs_rr4) =
  (Some (RError ERuntimeNoWorkers), [], [0; 1], [1], [("0"%string, 0)], 2, None, [1; 2; 3]).
Proof. vm_compute. reflexivity. Qed.
