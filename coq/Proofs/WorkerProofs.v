(* Proofs about Model/Worker.v: the worker-side invariants behind C05 and C07. *)
From XV Require Import Base Worker.
From Coq Require Import Permutation.
Open Scope nat_scope.

(* ---------- list facts ---------- *)
Lemma mem_nat_In x l : mem_nat x l = true <-> In x l.
Proof.
  unfold mem_nat. rewrite existsb_exists. split.
  - intros (y & Hy & E). apply Nat.eqb_eq in E. subst. exact Hy.
  - intros H. exists x. split; [exact H | apply Nat.eqb_refl].
Qed.

Lemma mem_nat_false x l : mem_nat x l = false <-> ~ In x l.
Proof.
  rewrite <- mem_nat_In. destruct (mem_nat x l); split; intros H; try congruence;
    try (exfalso; apply H; reflexivity).
Qed.

Lemma filter_all {A} (f : A -> bool) l : (forall x, In x l -> f x = true) -> filter f l = l.
Proof.
  induction l as [|a l IH]; cbn; intros H; [reflexivity|].
  rewrite (H a (or_introl eq_refl)). f_equal. apply IH. intros x Hx. apply H. right. exact Hx.
Qed.

Lemma filter_ext_in' {A} (f g : A -> bool) l :
  (forall x, In x l -> f x = g x) -> filter f l = filter g l.
Proof.
  induction l as [|a l IH]; cbn; intros H; [reflexivity|].
  rewrite (H a (or_introl eq_refl)). destruct (g a); [f_equal|]; apply IH; intros x Hx; apply H; right; exact Hx.
Qed.

Lemma filter_filter {A} (f g : A -> bool) l :
  filter f (filter g l) = filter (fun x => g x && f x) l.
Proof.
  induction l as [|a l IH]; cbn; [reflexivity|].
  destruct (g a); cbn; [destruct (f a); [f_equal|]|]; exact IH.
Qed.

(* ---------- definitions used in the statements ---------- *)
Definition notstolen (st : list nat) (e : qent) : bool := negb (mem_nat (fst e) st).
Definition live (w : wst) : list qent := filter (notstolen (wstolen w)) (wputs w).

Definition ann (e : qent) : option (nat * nat) :=
  match snd e with Idx j => Some (fst e, j) | Mark => None end.
Definition ent (c : nat * nat) : qent := (fst c, Idx (snd c)).
Definition is_idx (e : qent) : bool := match snd e with Idx _ => true | Mark => false end.
Definition no_mark (l : list qent) : Prop := forall e, In e l -> is_idx e = true.

(* the (item, nextitem) calls determined by a sequence of taken entries *)
Fixpoint pairs (l : list qent) : list ((nat * nat) * option (nat * nat)) :=
  match l with
  | [] => []
  | a :: r => match snd a, r with
              | Idx i, b :: _ => ((fst a, i), ann b) :: pairs r
              | _, _ => []
              end
  end.

Lemma pairs_one b : pairs [b] = [].
Proof. destruct b as [t [i|]]; reflexivity. Qed.

Lemma pairs_snoc pre c b :
  no_mark pre -> pairs (pre ++ [ent c; b]) = pairs (pre ++ [ent c]) ++ [(c, ann b)].
Proof.
  induction pre as [|a pre IH]; intros Hn.
  - destruct c as [t i]. change (pairs ([] ++ [ent (t, i); b])) with (((t, i), ann b) :: pairs [b]).
    rewrite pairs_one. reflexivity.
  - assert (Ha : is_idx a = true) by (apply Hn; left; reflexivity).
    assert (Hp : no_mark pre) by (intros e He; apply Hn; right; exact He).
    destruct a as [t [i|]]; [|discriminate].
    specialize (IH Hp).
    destruct pre as [|a' pre'].
    + cbn [app] in *. change (pairs [(t, Idx i); ent c; b]) with (((t, i), ann (ent c)) :: pairs [ent c; b]).
      rewrite IH. reflexivity.
    + cbn [app] in *. change (pairs ((t, Idx i) :: a' :: pre' ++ [ent c; b]))
        with (((t, i), ann a') :: pairs (a' :: pre' ++ [ent c; b])).
      rewrite IH. reflexivity.
Qed.

Lemma pairs_single c : pairs [ent c] = [].
Proof. destruct c; reflexivity. Qed.

Lemma pairs_ents pre last :
  no_mark pre -> map (fun r => ent (fst r)) (pairs (pre ++ [last])) = pre.
Proof.
  induction pre as [|a pre IH]; intros Hn.
  - cbn [app]. rewrite pairs_one. reflexivity.
  - assert (Ha : is_idx a = true) by (apply Hn; left; reflexivity).
    assert (Hp : no_mark pre) by (intros e He; apply Hn; right; exact He).
    destruct a as [t [i|]]; [|discriminate]. specialize (IH Hp).
    destruct pre as [|a' pre'].
    + cbn [app] in *. change (pairs [(t, Idx i); last]) with (((t, i), ann last) :: pairs [last]).
      rewrite pairs_one. reflexivity.
    + cbn [app] in *. change (pairs ((t, Idx i) :: a' :: pre' ++ [last]))
        with (((t, i), ann a') :: pairs (a' :: pre' ++ [last])).
      cbn [map fst]. rewrite IH. reflexivity.
Qed.

(* consecutive calls: the announced successor is the test run next *)
Lemma pairs_chain l k a na c nc :
  nth_error (pairs l) k = Some (a, na) -> nth_error (pairs l) (S k) = Some (c, nc) -> na = Some c.
Proof.
  revert k. induction l as [|x l IH]; intros k; cbn; [destruct k; discriminate|].
  destruct x as [t [i|]]; cbn; [|destruct k; discriminate].
  destruct l as [|y l']; [destruct k; discriminate|].
  destruct k as [|k].
  - cbn. intros E1 E2. inversion E1; subst.
    destruct y as [t' [j|]]; cbn in E2 |- *.
    + destruct l' as [|z l'']; cbn in E2; [discriminate|]. inversion E2; subst. reflexivity.
    + discriminate.
  - cbn [nth_error]. apply IH.
Qed.

Lemma pairs_none_last l k a :
  nth_error (pairs l) k = Some (a, None) -> nth_error (pairs l) (S k) = None.
Proof.
  revert k. induction l as [|x l IH]; intros k; cbn; [destruct k; discriminate|].
  destruct x as [t [i|]]; cbn; [|destruct k; discriminate].
  destruct l as [|y l']; [destruct k; discriminate|].
  destruct k as [|k].
  - cbn. intros E1. inversion E1 as [[E2 E3]]. unfold ann in E3.
    destruct y as [t' [j|]]; cbn in *; [discriminate|reflexivity].
  - cbn [nth_error]. apply IH.
Qed.

Ltac proj := cbn [wq wflag wph wcb winbox wrpend wreply wntag wran wputs wstolen wpopped
                    w_put w_pop upd_q upd_ph upd_recv set_cb add_ran fst snd] in *.

(* ---------- the invariant ---------- *)
Definition phase_inv (w : wst) : Prop :=
  match wph w with
  | PBoot | PCollStart | PColl _ | PWaitFirst => wpopped w = [] /\ wran w = []
  | PWaitNext cur =>
      exists pre, wpopped w = pre ++ [ent cur] /\ no_mark pre /\ wran w = pairs (wpopped w)
  | PGot cur nxt =>
      exists pre, wpopped w = pre ++ [ent cur; nxt] /\ no_mark pre /\ wran w = pairs (pre ++ [ent cur])
  | PRun cur nxt _ =>
      exists pre, wpopped w = pre ++ [ent cur; nxt] /\ no_mark pre /\ wran w = pairs (wpopped w)
  | PFinishing _ | PExited =>
      exists pre last, wpopped w = pre ++ [last] /\ no_mark pre /\ wran w = pairs (wpopped w)
  end.

Record WInv (w : wst) : Prop := {
  inv_tags : map fst (wputs w) = seq 0 (wntag w);
  inv_live : live w = wpopped w ++ wq w;
  inv_stolen : incl (wstolen w) (map fst (wputs w));
  inv_flag : wflag w = match wq w with [] => false | _ => true end;
  inv_phase : phase_inv w;
}.

Lemma winv_init : WInv w_init.
Proof. constructor; cbn; auto; try (intros x []); unfold phase_inv; cbn; auto. Qed.

(* tags of live entries are pairwise distinct *)
Lemma live_nodup w : WInv w -> NoDup (map fst (live w)).
Proof.
  intros I. unfold live.
  assert (H : NoDup (map fst (wputs w))) by (rewrite (inv_tags w I); apply seq_NoDup).
  revert H. generalize (wputs w) as l. induction l as [|a l IH]; cbn; intros H; [constructor|].
  inversion H as [|x xs Hn Hd]; subst.
  destruct (notstolen (wstolen w) a); [cbn; constructor|]; auto.
  intros Hi. apply Hn. apply in_map_iff in Hi. destruct Hi as (e & E & He).
  apply filter_In in He. apply in_map_iff. exists e. tauto.
Qed.

Lemma upd_recv_inv w a b c : WInv w -> WInv (upd_recv w a b c).
Proof. intros [A B C D E]. constructor; auto. Qed.

Lemma put_inv w it : WInv w -> WInv (w_put w it).
Proof.
  intros [A B C D E]. constructor; proj.
  - rewrite map_app, A, seq_S. reflexivity.
  - unfold live in *. proj. rewrite filter_app, B. cbn [filter].
    assert (Hn : notstolen (wstolen w) (wntag w, it) = true).
    { unfold notstolen. cbn. apply negb_true_iff, mem_nat_false. intros Hi.
      apply C in Hi. rewrite A in Hi. apply in_seq in Hi. lia. }
    rewrite Hn. rewrite app_assoc. reflexivity.
  - intros x Hx. rewrite map_app. apply in_or_app. left. apply C. exact Hx.
  - destruct (wq w); reflexivity.
  - exact E.
Qed.

Lemma nodup_app_disj {A} (l1 l2 : list A) x : NoDup (l1 ++ l2) -> In x l1 -> In x l2 -> False.
Proof.
  induction l1 as [|a l1 IH]; cbn; intros H H1 H2; [contradiction|].
  inversion H as [|y ys Hn Hd]; subst. destruct H1 as [->|H1].
  - apply Hn. apply in_or_app. right. exact H2.
  - apply IH; assumption.
Qed.

Lemma nodup_app_r {A} (l1 l2 : list A) : NoDup (l1 ++ l2) -> NoDup l2.
Proof. induction l1 as [|a l1 IH]; cbn; intros H; [exact H|]. inversion H; auto. Qed.

Lemma nodup_fst_inj (l : list qent) e1 e2 :
  NoDup (map fst l) -> In e1 l -> In e2 l -> fst e1 = fst e2 -> e1 = e2.
Proof.
  induction l as [|a l IH]; cbn; intros H H1 H2 E; [contradiction|].
  inversion H as [|y ys Hn Hd]; subst.
  destruct H1 as [->|H1], H2 as [->|H2]; auto.
  - exfalso. apply Hn. rewrite E. apply in_map. exact H2.
  - exfalso. apply Hn. rewrite <- E. apply in_map. exact H1.
Qed.

Lemma steal_inv w s : WInv w -> WInv (w_steal w s).
Proof.
  intros I. pose proof (live_nodup w I) as ND. destruct I as [A B C D E].
  unfold w_steal, steal_q.
  destruct (Nat.eqb (length (filter (ent_in s) (wq w))) (length (dedup_nat [] s))) eqn:Hc.
  - (* successful steal *)
    constructor; cbn.
    + exact A.
    + unfold live in *. cbn.
      rewrite B in ND.
      set (st := filter (ent_in s) (wq w)).
      transitivity (filter (fun e => negb (mem_nat (fst e) (map fst st)))
                      (filter (notstolen (wstolen w)) (wputs w))).
      { rewrite filter_filter. apply filter_ext_in'. intros x _. unfold notstolen.
        destruct (mem_nat (fst x) (wstolen w ++ map fst st)) eqn:M.
        - apply mem_nat_In in M. apply in_app_or in M. destruct M as [M|M].
          + apply mem_nat_In in M. rewrite M. reflexivity.
          + apply mem_nat_In in M. rewrite M. cbn. symmetry. apply andb_false_r.
        - apply mem_nat_false in M.
          assert (M1 : mem_nat (fst x) (wstolen w) = false)
            by (apply mem_nat_false; intros H; apply M; apply in_or_app; left; exact H).
          assert (M2 : mem_nat (fst x) (map fst st) = false)
            by (apply mem_nat_false; intros H; apply M; apply in_or_app; right; exact H).
          rewrite M1, M2. reflexivity. }
      rewrite B, filter_app. f_equal.
      * apply filter_all. intros x Hx. apply negb_true_iff, mem_nat_false. intros Hi.
        apply in_map_iff in Hi. destruct Hi as (e & Ee & He). apply filter_In in He.
        apply (nodup_app_disj (map fst (wpopped w)) (map fst (wq w)) (fst x)).
        -- rewrite <- map_app. exact ND.
        -- apply in_map. exact Hx.
        -- rewrite <- Ee. apply in_map. tauto.
      * apply filter_ext_in'. intros x Hx.
        assert (NDq : NoDup (map fst (wq w))).
        { rewrite map_app in ND. apply nodup_app_r in ND. exact ND. }
        destruct (ent_in s x) eqn:Ex; cbn.
        -- apply negb_false_iff, mem_nat_In. apply in_map. apply filter_In. auto.
        -- apply negb_true_iff, mem_nat_false. intros Hi. apply in_map_iff in Hi.
           destruct Hi as (e & Ee & He). apply filter_In in He. destruct He as (He & Hs).
           assert (e = x) by (apply (nodup_fst_inj (wq w)); auto). subst. congruence.
    + intros x Hx. apply in_app_or in Hx. destruct Hx as [Hx|Hx]; [apply C; exact Hx|].
      apply in_map_iff in Hx. destruct Hx as (e & Ee & He). apply filter_In in He.
      assert (Hl : In e (live w)) by (rewrite B; apply in_or_app; right; tauto).
      unfold live in Hl. apply filter_In in Hl. rewrite <- Ee. apply in_map. tauto.
    + reflexivity.
    + exact E.
  - (* refused: nothing changes but the pending reply *)
    constructor; cbn; auto.
    + unfold live in *. cbn. rewrite app_nil_r. exact B.
    + rewrite app_nil_r. exact C.
Qed.

Lemma recv_next_inv o inbox : forall w, WInv w -> WInv (recv_next o w inbox).
Proof.
  induction inbox as [|c r IH]; intros w I; cbn.
  - apply upd_recv_inv. exact I.
  - destruct c as [ixs| |s| |].
    + destruct ixs as [|i ixs]; [apply IH; exact I|]. apply upd_recv_inv, put_inv. exact I.
    + destruct (seq 0 (ncollected o)) as [|i ixs]; [apply IH; exact I|]. apply upd_recv_inv, put_inv. exact I.
    + apply upd_recv_inv, steal_inv. exact I.
    + apply upd_recv_inv, put_inv. exact I.
    + apply upd_recv_inv, put_inv. exact I.
Qed.

Lemma recv_step_inv o w : WInv w -> WInv (fst (recv_step o w)).
Proof.
  intros I. unfold recv_step. destruct (negb (wcb w)); [exact I|].
  cbn [wrpend upd_recv winbox].
  destruct (wrpend w) as [|it rest]; cbn [fst].
  - apply recv_next_inv, upd_recv_inv. exact I.
  - apply upd_recv_inv, put_inv, upd_recv_inv. exact I.
Qed.

Lemma set_cb_inv w : WInv w -> WInv (set_cb w).
Proof. intros [A B C D E]. constructor; auto. Qed.

Lemma main_step_inv o w w' evs : WInv w -> main_step o w = Some (w', evs) -> WInv w'.
Proof.
  intros I. pose proof I as [A B C D E]. unfold main_step.
  destruct (wph w) as [|rest| | |cur|cur nxt|cur nxt script|s|] eqn:P; unfold phase_inv in E; rewrite P in E.
  - intros H; inversion H; subst. constructor; auto; unfold phase_inv; cbn; exact E.
  - destruct rest as [|[k f] rest]; intros H; inversion H; subst; constructor; auto; unfold phase_inv; cbn; exact E.
  - intros H; inversion H; subst. constructor; auto; unfold phase_inv; cbn; exact E.
  - (* PWaitFirst *)
    destruct E as (Ep & Er).
    destruct (wq w) as [|[t it] q'] eqn:Q.
    + destruct (wcb w); intros H; inversion H; subst. apply set_cb_inv. exact I.
    + destruct it as [i|]; intros H; inversion H; subst; constructor; cbn; auto.
      * unfold live in *. cbn. rewrite B, Ep. reflexivity.
      * unfold phase_inv. cbn. exists []. rewrite Ep, Er. cbn. repeat split; auto. intros e [].
      * unfold live in *. cbn. rewrite B, Ep. reflexivity.
      * unfold phase_inv. cbn. exists [], (t, Mark). rewrite Ep, Er. cbn. repeat split; auto. intros e [].
  - (* PWaitNext *)
    destruct E as (pre & Ep & Hn & Er).
    destruct (wq w) as [|nxt q'] eqn:Q; [discriminate|].
    intros H; inversion H; subst. constructor; cbn; auto.
    + unfold live in *. cbn. rewrite B. rewrite <- app_assoc. reflexivity.
    + unfold phase_inv. cbn. exists pre. rewrite Ep, <- app_assoc. cbn. repeat split; auto.
      rewrite Er, Ep. reflexivity.
  - (* PGot *)
    destruct E as (pre & Ep & Hn & Er).
    intros H; inversion H; subst. constructor; cbn; auto.
    unfold phase_inv. cbn. exists pre. repeat split; auto.
    rewrite Er, Ep. rewrite pairs_snoc by exact Hn. unfold ann. reflexivity.
  - (* PRun *)
    destruct E as (pre & Ep & Hn & Er).
    destruct script as [|e script]; intros H; inversion H; subst; constructor; cbn; auto.
    + unfold phase_inv. cbn.
      destruct (stops_after o (snd cur)); cbn.
      * exists (pre ++ [ent cur]), nxt. rewrite Ep, <- app_assoc. repeat split; auto.
        -- intros e He. apply in_app_or in He. destruct He as [He|[<-|[]]]; [apply Hn; exact He|reflexivity].
        -- rewrite Er, Ep. reflexivity.
      * destruct nxt as [t [j|]]; cbn.
        -- exists (pre ++ [ent cur]). rewrite Ep, <- app_assoc. repeat split; auto.
           ++ intros e He. apply in_app_or in He. destruct He as [He|[<-|[]]]; [apply Hn; exact He|reflexivity].
           ++ rewrite Er, Ep. reflexivity.
        -- exists (pre ++ [ent cur]), (t, Mark). rewrite Ep, <- app_assoc. repeat split; auto.
           ++ intros e He. apply in_app_or in He. destruct He as [He|[<-|[]]]; [apply Hn; exact He|reflexivity].
           ++ rewrite Er, Ep. reflexivity.
    + unfold phase_inv. cbn. exists pre. auto.
  - intros H; inversion H; subst. constructor; auto.
  - discriminate.
Qed.

Lemma wstep_inv o st op : WInv (fst st) -> WInv (fst (wstep o st op)).
Proof.
  destruct st as [w evs]. cbn [fst]. intros I. destruct op as [c| |]; cbn.
  - apply upd_recv_inv. exact I.
  - pose proof (recv_step_inv o w I) as H. destruct (recv_step o w) as [w' e]. exact H.
  - destruct (main_step o w) as [[w' e]|] eqn:M; cbn; [|exact I].
    eapply main_step_inv; eauto.
Qed.

Theorem wrun_inv o ops : WInv (fst (wrun o ops)).
Proof.
  unfold wrun.
  assert (G : forall st, WInv (fst st) -> WInv (fst (fold_left (wstep o) ops st))).
  { induction ops as [|op ops IH]; intros st I; cbn; [exact I|]. apply IH, wstep_inv, I. }
  apply G. cbn. apply winv_init.
Qed.

(* ---------- consequences (statements used by Properties/C05.v and C07.v) ---------- *)

(* every (item, nextitem) call sequence is a chain *)
Lemma ran_is_pairs w : WInv w -> exists l, wran w = pairs l /\ exists rest, wpopped w = l ++ rest.
Proof.
  intros I. pose proof (inv_phase w I) as E. unfold phase_inv in E.
  destruct (wph w).
  1-4: destruct E as (Ep & Er); exists []; rewrite Er; split; [reflexivity|exists (wpopped w); reflexivity].
  - destruct E as (pre & Ep & Hn & Er). exists (wpopped w). split; [exact Er|exists []; rewrite app_nil_r; reflexivity].
  - destruct E as (pre & Ep & Hn & Er). exists (pre ++ [ent cur]). split; [exact Er|].
    exists [nxt]. rewrite Ep, <- app_assoc. reflexivity.
  - destruct E as (pre & Ep & Hn & Er). exists (wpopped w). split; [exact Er|exists []; rewrite app_nil_r; reflexivity].
  - destruct E as (pre & last & Ep & Hn & Er). exists (wpopped w). split; [exact Er|exists []; rewrite app_nil_r; reflexivity].
  - destruct E as (pre & last & Ep & Hn & Er). exists (wpopped w). split; [exact Er|exists []; rewrite app_nil_r; reflexivity].
Qed.

Lemma pairs_ents_prefix l : exists rest, l = map (fun r => ent (fst r)) (pairs l) ++ rest.
Proof.
  induction l as [|a l IH]; cbn; [exists []; reflexivity|].
  destruct a as [t [i|]]; cbn; [|eexists; reflexivity].
  destruct l as [|b l']; [eexists; reflexivity|].
  destruct IH as (rest & E). exists rest. cbn [map fst]. unfold ent at 1. cbn [fst snd app]. f_equal. exact E.
Qed.

(* C05 order: the tests run so far are an initial segment of the assigned,
   not-withdrawn entries, in assignment order *)
Lemma ran_prefix_of_live w :
  WInv w -> exists rest, live w = map (fun r => ent (fst r)) (wran w) ++ rest.
Proof.
  intros I. destruct (ran_is_pairs w I) as (l & Er & rest & Ep).
  destruct (pairs_ents_prefix l) as (rest' & El).
  exists (rest' ++ rest ++ wq w). rewrite (inv_live w I), Ep, Er.
  rewrite El at 1. rewrite <- !app_assoc. reflexivity.
Qed.

Lemma ran_chain w k a na c nc :
  WInv w -> nth_error (wran w) k = Some (a, na) -> nth_error (wran w) (S k) = Some (c, nc) -> na = Some c.
Proof. intros I. destruct (ran_is_pairs w I) as (l & Er & _). rewrite Er. apply pairs_chain. Qed.

Lemma ran_none_last w k a :
  WInv w -> nth_error (wran w) k = Some (a, None) -> nth_error (wran w) (S k) = None.
Proof. intros I. destruct (ran_is_pairs w I) as (l & Er & _). rewrite Er. apply pairs_none_last. Qed.

(* nothing that was taken by the main thread (run, or announced as next) is ever withdrawn *)
Lemma popped_not_stolen w e : WInv w -> In e (wpopped w) -> ~ In (fst e) (wstolen w).
Proof.
  intros I He. assert (Hl : In e (live w)) by (rewrite (inv_live w I); apply in_or_app; left; exact He).
  unfold live in Hl. apply filter_In in Hl. destruct Hl as (_ & Hn).
  unfold notstolen in Hn. apply negb_true_iff, mem_nat_false in Hn. exact Hn.
Qed.

Lemma pairs_in l a na : In (a, na) (pairs l) ->
  In (ent a) l /\ (forall b, na = Some b -> In (ent b) l).
Proof.
  induction l as [|x l IH]; cbn; [contradiction|].
  destruct x as [t [i|]]; cbn; [|contradiction].
  destruct l as [|y l']; [contradiction|]. cbn [In].
  intros [E|H].
  - inversion E; subst. split; [left; reflexivity|]. intros b Hb. right. left.
    unfold ann in Hb. destruct y as [t' [j|]]; cbn in Hb; inversion Hb. reflexivity.
  - destruct (IH H) as (H1 & H2). split; [right; exact H1|]. intros b Hb. right. apply H2. exact Hb.
Qed.

Lemma ran_not_stolen w a na :
  WInv w -> In (a, na) (wran w) ->
  ~ In (fst a) (wstolen w) /\ (forall b, na = Some b -> ~ In (fst b) (wstolen w)).
Proof.
  intros I Hin. destruct (ran_is_pairs w I) as (l & Er & rest & Ep). rewrite Er in Hin.
  destruct (pairs_in l a na Hin) as (H1 & H2). split.
  - apply (popped_not_stolen w (ent a) I). rewrite Ep. apply in_or_app. left. exact H1.
  - intros b Hb. apply (popped_not_stolen w (ent b) I). rewrite Ep. apply in_or_app. left. apply H2. exact Hb.
Qed.

(* completeness: once the loop ended at the shutdown marker, every assigned, not
   withdrawn test in front of the first marker was run, in order, and nothing else *)
Lemma finished_at_marker w t :
  WInv w -> (exists s, wph w = PFinishing s) \/ wph w = PExited ->
  last (wpopped w) (0, Idx 0) = (t, Mark) ->
  live w = map (fun r => ent (fst r)) (wran w) ++ (t, Mark) :: wq w.
Proof.
  intros I Hp Hl. pose proof (inv_phase w I) as E. unfold phase_inv in E.
  assert (G : exists pre last, wpopped w = pre ++ [last] /\ no_mark pre /\ wran w = pairs (wpopped w)).
  { destruct Hp as [(s & Hp)|Hp]; rewrite Hp in E; exact E. }
  destruct G as (pre & lst & Ep & Hn & Er).
  rewrite Ep, last_last in Hl. subst lst.
  rewrite (inv_live w I), Er, Ep, pairs_ents by exact Hn. rewrite <- app_assoc. reflexivity.
Qed.

(* the has-items flag is exact at every step boundary: no lost wake-up *)
Lemma flag_exact w : WInv w -> wflag w = negb (match wq w with [] => true | _ => false end).
Proof. intros I. rewrite (inv_flag w I). destruct (wq w); reflexivity. Qed.

(* ---------- steal: all or nothing (pure list statement) ---------- *)
Lemma steal_all_or_nothing q s q' st :
  steal_q q s = (q', st) ->
  (st = [] /\ q' = q) \/
  (q' = filter (fun e => negb (ent_in s e)) q /\ st = filter (ent_in s) q /\
   length st = length (dedup_nat [] s)).
Proof.
  unfold steal_q. destruct (Nat.eqb _ _) eqn:E; intros H; inversion H; subst; [right|left; auto].
  apply Nat.eqb_eq in E. auto.
Qed.

Lemma steal_keeps_order q s q' st :
  steal_q q s = (q', st) -> exists f, q' = filter f q.
Proof.
  intros H. destruct (steal_all_or_nothing q s q' st H) as [(_ & ->)|(-> & _)].
  - exists (fun _ => true). symmetry. apply filter_all. auto.
  - eexists. reflexivity.
Qed.

Lemma dedup_nat_spec seen l x : In x (dedup_nat seen l) <-> In x l /\ ~ In x seen.
Proof.
  revert seen. induction l as [|a l IH]; intros seen; cbn; [tauto|].
  destruct (mem_nat a seen) eqn:M.
  - apply mem_nat_In in M. rewrite IH. split; [tauto|]. intros [[->|H] Hn]; tauto.
  - apply mem_nat_false in M. cbn. rewrite IH. cbn. split.
    + intros [->|(H1 & H2)]; [tauto|]. split; [tauto|]. intros H; apply H2; right; exact H.
    + intros ([->|H1] & H2); [tauto|]. destruct (Nat.eq_dec a x) as [->|Hne]; [tauto|].
      right. split; [exact H1|]. intros [H|H]; [congruence|tauto].
Qed.

Lemma dedup_nat_nodup seen l : NoDup (dedup_nat seen l).
Proof.
  revert seen. induction l as [|a l IH]; intros seen; cbn; [constructor|].
  destruct (mem_nat a seen) eqn:M; [apply IH|]. constructor; [|apply IH].
  rewrite dedup_nat_spec. intros (_ & H). apply H. left. reflexivity.
Qed.

Lemma ents_idx_in l i : In i (ents_idx l) <-> exists t, In (t, Idx i) l.
Proof.
  induction l as [|[t it] l IH]; cbn; [split; [contradiction|intros (t & [])]|].
  destruct it as [j|]; cbn.
  - rewrite IH. split.
    + intros [->|(t' & H)]; [exists t; left; reflexivity|exists t'; right; exact H].
    + intros (t' & [E|H]); [inversion E; left; reflexivity|right; exists t'; exact H].
  - rewrite IH. split; intros (t' & H); exists t'; [right; exact H|destruct H as [E|H]; [discriminate|exact H]].
Qed.

Lemma ents_idx_filter_len s l :
  length (ents_idx (filter (ent_in s) l)) = length (filter (ent_in s) l).
Proof.
  induction l as [|[t it] l IH]; [reflexivity|].
  destruct it as [j|].
  - change (filter (ent_in s) ((t, Idx j) :: l))
      with (if mem_nat j s then (t, Idx j) :: filter (ent_in s) l else filter (ent_in s) l).
    destruct (mem_nat j s); [|exact IH].
    change (ents_idx ((t, Idx j) :: filter (ent_in s) l)) with (j :: ents_idx (filter (ent_in s) l)).
    cbn [length]. f_equal. exact IH.
  - exact IH.
Qed.

(* with no index queued twice, a successful steal removes exactly the requested set *)
Lemma steal_success_exact q s q' st :
  NoDup (ents_idx q) -> steal_q q s = (q', st) -> st <> [] ->
  (forall i, In i s <-> In i (ents_idx st)) /\ (forall i, In i s -> ~ In i (ents_idx q')).
Proof.
  intros ND H Hne. destruct (steal_all_or_nothing q s q' st H) as [(-> & _)|(-> & -> & Hl)]; [congruence|].
  assert (Hsub : forall i, In i (ents_idx (filter (ent_in s) q)) -> In i (dedup_nat [] s)).
  { intros i Hi. apply ents_idx_in in Hi. destruct Hi as (t & Hi). apply filter_In in Hi.
    destruct Hi as (_ & Hi). unfold ent_in in Hi. cbn in Hi. apply mem_nat_In in Hi.
    apply dedup_nat_spec. split; [exact Hi|intros []]. }
  assert (NDs : NoDup (ents_idx (filter (ent_in s) q))).
  { clear -ND. induction q as [|[t it] q IH]; cbn; [constructor|].
    destruct it as [j|]; cbn in *.
    - inversion ND as [|x xs Hn Hd]; subst. unfold ent_in at 1. cbn.
      destruct (mem_nat j s); cbn; [constructor|]; auto.
      intros Hi. apply Hn. apply ents_idx_in in Hi. destruct Hi as (t' & Hi). apply filter_In in Hi.
      apply ents_idx_in. exists t'. tauto.
    - unfold ent_in at 1. cbn. auto. }
  assert (Hincl : incl (dedup_nat [] s) (ents_idx (filter (ent_in s) q))).
  { apply NoDup_length_incl; [exact NDs| |exact Hsub].
    rewrite ents_idx_filter_len, Hl. apply Nat.le_refl. }
  split.
  - intros i. split.
    + intros Hi. apply Hincl. apply dedup_nat_spec. split; [exact Hi|intros []].
    + intros Hi. apply Hsub in Hi. apply dedup_nat_spec in Hi. tauto.
  - intros i Hi Hq. apply ents_idx_in in Hq. destruct Hq as (t & Hq). apply filter_In in Hq.
    destruct Hq as (_ & Hq). unfold ent_in in Hq. cbn in Hq.
    apply negb_true_iff, mem_nat_false in Hq. tauto.
Qed.

(* the remark recorded in DESIGN: with an index queued twice the length test is not all-or-nothing *)
Example steal_dup_queue_remark :
  steal_q [(0, Idx 1); (1, Idx 1)] [1; 2] = ([], [(0, Idx 1); (1, Idx 1)]).
Proof. reflexivity. Qed.

(* non-vacuity: a concrete interleaving in which a steal succeeds while the main thread is running *)
Definition ex_oracle : oracle :=
  {| reports_of := fun _ => [Passed]; stops_after := fun _ => false; ncollected := 4; coll_reports := [] |}.
Definition ex_ops : list wop :=
  [OMain; OMain; OMain; ODeliver (CRun [0; 1; 2; 3]); OMain; ORecv; ORecv; ORecv; ORecv; OMain; OMain;
   ODeliver (CSteal [2; 3]); ORecv; ORecv; ODeliver CShutdown; ORecv;
   OMain; OMain; OMain; OMain; OMain; OMain; OMain; OMain; OMain; OMain; OMain; OMain].
Example ex_run :
  let '(w, evs) := wrun ex_oracle ex_ops in
  map (fun r => (snd (fst r), option_map snd (snd r))) (wran w) = [(0, Some 1); (1, None)] /\
  wstolen w = [2; 3] /\ wph w = PExited /\ In (EUnscheduled [2; 3]) evs.
Proof. vm_compute. repeat split; auto 20. Qed.

(* ---------- statements over every command stream and every interleaving ---------- *)
Section OverAllRuns.
  Variable o : oracle.
  Variable ops : list wop.
  Let w := fst (wrun o ops).

  Lemma run_order : exists rest, live w = map (fun r => ent (fst r)) (wran w) ++ rest.
  Proof. apply ran_prefix_of_live, wrun_inv. Qed.

  Lemma run_nextitem k a na c nc :
    nth_error (wran w) k = Some (a, na) -> nth_error (wran w) (S k) = Some (c, nc) -> na = Some c.
  Proof. apply ran_chain, wrun_inv. Qed.

  Lemma run_none_only_last k a :
    nth_error (wran w) k = Some (a, None) -> nth_error (wran w) (S k) = None.
  Proof. apply ran_none_last, wrun_inv. Qed.

  Lemma run_no_steal_of_started a na :
    In (a, na) (wran w) ->
    ~ In (fst a) (wstolen w) /\ (forall b, na = Some b -> ~ In (fst b) (wstolen w)).
  Proof. apply ran_not_stolen, wrun_inv. Qed.

  Lemma run_taken_never_stolen e : In e (wpopped w) -> ~ In (fst e) (wstolen w).
  Proof. apply popped_not_stolen, wrun_inv. Qed.

  Lemma run_complete_at_marker t :
    (exists s, wph w = PFinishing s) \/ wph w = PExited ->
    last (wpopped w) (0, Idx 0) = (t, Mark) ->
    live w = map (fun r => ent (fst r)) (wran w) ++ (t, Mark) :: wq w.
  Proof. apply finished_at_marker, wrun_inv. Qed.

  Lemma run_flag_exact : wflag w = negb (match wq w with [] => true | _ => false end).
  Proof. apply flag_exact, wrun_inv. Qed.

  Lemma run_tags_distinct : NoDup (map fst (live w)).
  Proof. apply live_nodup, wrun_inv. Qed.
End OverAllRuns.
